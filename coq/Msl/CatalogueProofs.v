(* Operator catalogue lemmas (C04/C15): for every scalar catalogue entry of Msl/Catalogue.v, the MSL
   expression template naga emits -- evaluated by the strict MSL semantics Msl/Sem.v, helper
   functions included, from their bodies -- yields for ALL 32-bit operands exactly the WGSL value
   defined in Base/Bits32.v / Base/F32.v, and never an undefined behaviour.  Entries where this is
   false carry a [_refuted] witness (these are findings) and, where useful, the exact domain on
   which they are correct. *)
From Coq Require Import List ZArith String Bool Lia.
From Coq Require Import ZifyBool.
Import ListNotations.
Require Import Naga.Base.Bits32 Naga.Base.F32 Naga.IR.Values Naga.Msl.Syntax Naga.Msl.Ops Naga.Msl.Sem Naga.Msl.Catalogue.
Open Scope string_scope.
Open Scope Z_scope.
Ltac Zify.zify_post_hook ::= Z.to_euclidean_division_equations.

Arguments Z.eqb : simpl nomatch.
Arguments Z.ltb : simpl nomatch.
Arguments Z.leb : simpl nomatch.
Arguments Z.add : simpl nomatch.
Arguments Z.sub : simpl nomatch.
Arguments Z.mul : simpl nomatch.
Arguments Z.opp : simpl nomatch.
Arguments Z.quot : simpl nomatch.
Arguments Z.rem : simpl nomatch.
Arguments Z.div : simpl nomatch.
Arguments Z.modulo : simpl nomatch.
Arguments Z.land : simpl nomatch.
Arguments Z.lor : simpl nomatch.
Arguments Z.lxor : simpl nomatch.
Arguments Z.shiftl : simpl nomatch.
Arguments Z.shiftr : simpl nomatch.
Arguments Z.min : simpl nomatch.
Arguments Z.max : simpl nomatch.
Arguments Z.testbit : simpl nomatch.
Arguments wrap : simpl never.
Arguments sgn : simpl never.
Arguments add32 : simpl never.
Arguments sub32 : simpl never.
Arguments mul32 : simpl never.
Arguments neg32 : simpl never.
Arguments not32 : simpl never.
Arguments and32 : simpl never.
Arguments or32 : simpl never.
Arguments xor32 : simpl never.
Arguments shl32 : simpl never.
Arguments shr_i32 : simpl never.
Arguments shr_u32 : simpl never.
Arguments lt_i32 : simpl never.
Arguments le_i32 : simpl never.
Arguments lt_u32 : simpl never.
Arguments le_u32 : simpl never.
Arguments div_i32 : simpl never.
Arguments rem_i32 : simpl never.
Arguments div_u32 : simpl never.
Arguments rem_u32 : simpl never.
Arguments abs_i32 : simpl never.
Arguments min_i32 : simpl never.
Arguments max_i32 : simpl never.
Arguments min_u32 : simpl never.
Arguments max_u32 : simpl never.
Arguments sign_i32 : simpl never.
Arguments count_one_bits : simpl never.
Arguments count_leading_zeros : simpl never.
Arguments count_trailing_zeros : simpl never.
Arguments reverse_bits : simpl never.
Arguments first_leading_bit_i32 : simpl never.
Arguments first_leading_bit_u32 : simpl never.
Arguments first_trailing_bit : simpl never.
Arguments extract_bits_i32 : simpl never.
Arguments extract_bits_u32 : simpl never.
Arguments insert_bits : simpl never.
Arguments in_i32 : simpl never.
Arguments in32b : simpl never.
Arguments fadd : simpl never.
Arguments fsub : simpl never.
Arguments fmul : simpl never.
Arguments fdiv : simpl never.
Arguments fsqrt : simpl never.
Arguments ffma : simpl never.
Arguments fneg : simpl never.
Arguments fabs : simpl never.
Arguments ffloor : simpl never.
Arguments fceil : simpl never.
Arguments ftrunc : simpl never.
Arguments fround : simpl never.
Arguments fround_away : simpl never.
Arguments fsign : simpl never.
Arguments feq : simpl never.
Arguments flt : simpl never.
Arguments fle : simpl never.
Arguments fne : simpl never.
Arguments fgt : simpl never.
Arguments fge : simpl never.
Arguments fmin : simpl never.
Arguments fmax : simpl never.
Arguments is_nan_bits : simpl never.
Arguments is_inf_bits : simpl never.
Arguments f32_of_i32 : simpl never.
Arguments f32_of_u32 : simpl never.
Arguments i32_of_f32 : simpl never.
Arguments u32_of_f32 : simpl never.
Arguments z_of_f32_trunc : simpl never.

Lemma eval_pure P G f E M e : is_pure P e = true -> eval P G (S f) E M e = peval P G E M e.
Proof. intros H. cbn [eval]. rewrite H. reflexivity. Qed.
Lemma run_tmpl_pure hs t a b c d : is_pure (mkprog [] [] [] hs) t = true ->
  run_tmpl hs t a b c d = peval (mkprog [] [] [] hs) [] env4 (mem4 a b c d) t.
Proof. intros H. unfold run_tmpl. apply eval_pure. exact H. Qed.

Ltac is_lit z := lazymatch z with Z0 => idtac | Zpos _ => idtac | Zneg _ => idtac end.
Ltac norm_lits :=
  repeat match goal with
         | |- context [wrap ?z] => is_lit z; let v := eval vm_compute in (wrap z) in change (wrap z) with v
         | |- context [neg32 ?z] => is_lit z; let v := eval vm_compute in (neg32 z) in change (neg32 z) with v
         | |- context [sgn ?z] => is_lit z; let v := eval vm_compute in (sgn z) in change (sgn z) with v
         | |- context [sub32 ?x ?y] => is_lit x; is_lit y; let v := eval vm_compute in (sub32 x y) in change (sub32 x y) with v
         | |- context [sint_result ?z] => is_lit z; let v := eval vm_compute in (sint_result z) in change (sint_result z) with v
         end.
Ltac simp := repeat (progress (cbn; norm_lits)).
Ltac ev := unfold run1, run2, run3; rewrite run_tmpl_pure by reflexivity; simp.
Ltac unstick := unfold binop_val, unop_val, lift2, lift1, lift3v, binop_scalar, unop_scalar, m_arith, m_cmp, m_bit, arith_conv,
                 arith_int, arith_uint, promote, is_mat, cast_val, cast_scalar, m_select, to_bool, intrinsic; simp.
Ltac no_if t := lazymatch t with context [if _ then _ else _] => fail | _ => idtac end.
Ltac atom_cases :=
  repeat (match goal with
  | |- context [?x =? ?y] => no_if x; no_if y; destruct (Z.eqb_spec x y)
  | |- context [?x <? ?y] => no_if x; no_if y; destruct (Z.ltb_spec x y)
  | |- context [?x <=? ?y] => no_if x; no_if y; destruct (Z.leb_spec x y)
  end; cbn [orb andb negb]; cbv iota).
Ltac unfold_bits :=
  unfold in32, sint_result, in_i32, div_i32, rem_i32, div_u32, rem_u32, neg32, abs_i32, add32, sub32, mul32, not32,
         lt_i32, le_i32, lt_u32, le_u32, min_i32, max_i32, min_u32, max_u32, sign_i32, sgn, wrap,
         INT_MIN_BITS, ALL_ONES, M32, H32 in *.

(* ---- integer facts ---- *)
Lemma quot_nonneg_bound x y : 0 <= x -> 0 < y -> 0 <= x ÷ y <= x.
Proof.
  intros Hx Hy. rewrite Z.quot_div_nonneg by lia. split.
  - apply Z.div_pos; lia.
  - apply Z.div_le_upper_bound; nia.
Qed.
Lemma quot_range x y : -2147483648 <= x < 2147483648 -> -2147483648 <= y < 2147483648 -> y <> 0 ->
  ~ (x = -2147483648 /\ y = -1) -> -2147483648 <= x ÷ y < 2147483648.
Proof.
  intros Hx Hy Hy0 Hn.
  destruct (Z_lt_le_dec x 0) as [xn|xp]; destruct (Z_lt_le_dec y 0) as [yn|yp].
  - assert (E : x ÷ y = (- x) ÷ (- y)) by (rewrite Z.quot_opp_opp; lia). rewrite E.
    pose proof (quot_nonneg_bound (- x) (- y) ltac:(lia) ltac:(lia)).
    destruct (Z.eq_dec y (-1)) as [e|e].
    + subst y. change (- -1) with 1 in *. rewrite Z.quot_1_r in *. lia.
    + assert ((- x) ÷ (- y) * 2 <= - x).
      { rewrite Z.quot_div_nonneg by lia. pose proof (Z.mul_div_le (- x) (- y) ltac:(lia)). nia. }
      lia.
  - assert (E : x ÷ y = - ((- x) ÷ y)) by (rewrite Z.quot_opp_l; lia). rewrite E.
    pose proof (quot_nonneg_bound (- x) y ltac:(lia) ltac:(lia)). lia.
  - assert (E : x ÷ y = - (x ÷ (- y))) by (rewrite Z.quot_opp_r; lia). rewrite E.
    pose proof (quot_nonneg_bound x (- y) ltac:(lia) ltac:(lia)). lia.
  - pose proof (quot_nonneg_bound x y ltac:(lia) ltac:(lia)). lia.
Qed.
Lemma rem_eq x y : x - (x ÷ y) * y = Z.rem x y.
Proof. pose proof (Z.quot_rem' x y). lia. Qed.
(* the product (x ÷ y) * y lies between 0 and x: no signed overflow in naga_mod *)
Lemma quot_mul_range x y : -2147483648 <= x < 2147483648 -> y <> 0 ->
  -2147483648 <= (x ÷ y) * y < 2147483648.
Proof.
  intros Hx Hy. pose proof (Z.quot_rem' x y) as E.
  destruct (Z_lt_le_dec x 0).
  - pose proof (Z.rem_nonpos x y ltac:(lia) ltac:(lia)). 
    assert (x <= Z.rem x y). { pose proof (Z.rem_bound_neg_pos). pose proof (Z.rem_abs x y Hy). pose proof (Z.rem_le). 
      assert (Z.abs (Z.rem x y) <= Z.abs x). { rewrite <- Z.rem_abs by lia. apply Z.rem_le; lia. } lia. }
    lia.
  - pose proof (Z.rem_nonneg x y ltac:(lia) ltac:(lia)).
    assert (Z.rem x y <= x). { assert (Z.abs (Z.rem x y) <= Z.abs x). { rewrite <- Z.rem_abs by lia. 
       destruct (Z.eq_dec x 0); [subst; rewrite Z.rem_0_l by lia; lia|]. apply Z.rem_le; lia. } lia. }
    lia.
Qed.
Ltac fin := unfold_bits; atom_cases; intros; try discriminate; try reflexivity; try (exfalso; lia); try (f_equal; f_equal; lia).

Lemma sint_ok z : - 2147483648 <= z < 2147483648 -> sint_result z = Done (VI32 (wrap z)).
Proof. intros H. unfold sint_result, in_i32, H32. destruct (Z.leb_spec (Z.opp 2147483648) z); destruct (Z.ltb_spec z 2147483648); try lia. reflexivity. Qed.
Lemma sgn_rng u : in32 u -> - 2147483648 <= sgn u < 2147483648.
Proof. intros H. pose proof (sgn_range u H). unfold H32 in *. lia. Qed.
Lemma sgn_eq0 b : in32 b -> sgn b = 0 -> b = 0.
Proof. unfold in32, sgn, M32, H32. intros H. destruct (Z.ltb_spec b 2147483648); lia. Qed.
Lemma sgn_eqm1 b : in32 b -> sgn b = -1 -> b = 4294967295.
Proof. unfold in32, sgn, M32, H32. intros H. destruct (Z.ltb_spec b 2147483648); lia. Qed.
Lemma sgn_eqmin a : in32 a -> sgn a = -2147483648 -> a = 2147483648.
Proof. unfold in32, sgn, M32, H32. intros H. destruct (Z.ltb_spec a 2147483648); lia. Qed.

Lemma guard_false a b : in32 a -> in32 b -> (a =? 2147483648) && (b =? 4294967295) || (b =? 0) = false ->
  b <> 0 /\ sgn b <> 0 /\ ~ (sgn a = -2147483648 /\ sgn b = -1) /\ (a =? INT_MIN_BITS) && (b =? ALL_ONES) = false.
Proof.
  intros Ha Hb E. unfold INT_MIN_BITS, ALL_ONES, H32, M32. change (4294967296 - 1) with 4294967295.
  destruct (Z.eqb_spec b 0); [rewrite orb_true_r in E; discriminate|]. rewrite orb_false_r in E.
  repeat split; auto.
  - intro H. apply n. apply sgn_eq0; assumption.
  - intros [H1 H2]. apply sgn_eqmin in H1; [|assumption]. apply sgn_eqm1 in H2; [|assumption]. subst. discriminate.
Qed.


(* ---- entries whose template evaluates directly to the Bits32/F32 operation ---- *)
Lemma msl_add_i32_correct : forall a b, in32 a -> in32 b -> run2 [] (t_wrap_i32 BAdd 1) (VI32 a) (VI32 b) = Done (VI32 (add32 a b)).
Proof. intros; ev; reflexivity. Qed.

Lemma msl_add_u32_correct : forall a b, in32 a -> in32 b -> run2 [] (t_bin BAdd) (VU32 a) (VU32 b) = Done (VU32 (add32 a b)).
Proof. intros; ev; reflexivity. Qed.

Lemma msl_sub_i32_correct : forall a b, in32 a -> in32 b -> run2 [] (t_wrap_i32 BSub 1) (VI32 a) (VI32 b) = Done (VI32 (sub32 a b)).
Proof. intros; ev; reflexivity. Qed.

Lemma msl_sub_u32_correct : forall a b, in32 a -> in32 b -> run2 [] (t_bin BSub) (VU32 a) (VU32 b) = Done (VU32 (sub32 a b)).
Proof. intros; ev; reflexivity. Qed.

Lemma msl_mul_i32_correct : forall a b, in32 a -> in32 b -> run2 [] (t_wrap_i32 BMul 1) (VI32 a) (VI32 b) = Done (VI32 (mul32 a b)).
Proof. intros; ev; reflexivity. Qed.

Lemma msl_mul_u32_correct : forall a b, in32 a -> in32 b -> run2 [] (t_bin BMul) (VU32 a) (VU32 b) = Done (VU32 (mul32 a b)).
Proof. intros; ev; reflexivity. Qed.

Lemma msl_add_f32_correct : forall a b, in32 a -> in32 b -> run2 [] (t_bin BAdd) (VF32 a) (VF32 b) = Done (VF32 (fadd a b)).
Proof. intros; ev; reflexivity. Qed.

Lemma msl_sub_f32_correct : forall a b, in32 a -> in32 b -> run2 [] (t_bin BSub) (VF32 a) (VF32 b) = Done (VF32 (fsub a b)).
Proof. intros; ev; reflexivity. Qed.

Lemma msl_mul_f32_correct : forall a b, in32 a -> in32 b -> run2 [] (t_bin BMul) (VF32 a) (VF32 b) = Done (VF32 (fmul a b)).
Proof. intros; ev; reflexivity. Qed.

Lemma msl_div_f32_correct : forall a b, in32 a -> in32 b -> run2 [] (t_bin BDiv) (VF32 a) (VF32 b) = Done (VF32 (fdiv a b)).
Proof. intros; ev; reflexivity. Qed.

Lemma msl_eq_i32_correct : forall a b, in32 a -> in32 b -> run2 [] (t_bin BEq) (VI32 a) (VI32 b) = Done (VBool (a =? b)).
Proof. intros; ev; reflexivity. Qed.

Lemma msl_ne_i32_correct : forall a b, in32 a -> in32 b -> run2 [] (t_bin BNe) (VI32 a) (VI32 b) = Done (VBool (negb (a =? b))).
Proof. intros; ev; reflexivity. Qed.

Lemma msl_lt_i32_correct : forall a b, in32 a -> in32 b -> run2 [] (t_bin BLt) (VI32 a) (VI32 b) = Done (VBool (lt_i32 a b)).
Proof. intros; ev; reflexivity. Qed.

Lemma msl_le_i32_correct : forall a b, in32 a -> in32 b -> run2 [] (t_bin BLe) (VI32 a) (VI32 b) = Done (VBool (le_i32 a b)).
Proof. intros; ev; reflexivity. Qed.

Lemma msl_gt_i32_correct : forall a b, in32 a -> in32 b -> run2 [] (t_bin BGt) (VI32 a) (VI32 b) = Done (VBool (lt_i32 b a)).
Proof. intros; ev; reflexivity. Qed.

Lemma msl_ge_i32_correct : forall a b, in32 a -> in32 b -> run2 [] (t_bin BGe) (VI32 a) (VI32 b) = Done (VBool (le_i32 b a)).
Proof. intros; ev; reflexivity. Qed.

Lemma msl_eq_u32_correct : forall a b, in32 a -> in32 b -> run2 [] (t_bin BEq) (VU32 a) (VU32 b) = Done (VBool (a =? b)).
Proof. intros; ev; reflexivity. Qed.

Lemma msl_ne_u32_correct : forall a b, in32 a -> in32 b -> run2 [] (t_bin BNe) (VU32 a) (VU32 b) = Done (VBool (negb (a =? b))).
Proof. intros; ev; reflexivity. Qed.

Lemma msl_lt_u32_correct : forall a b, in32 a -> in32 b -> run2 [] (t_bin BLt) (VU32 a) (VU32 b) = Done (VBool (lt_u32 a b)).
Proof. intros; ev; reflexivity. Qed.

Lemma msl_le_u32_correct : forall a b, in32 a -> in32 b -> run2 [] (t_bin BLe) (VU32 a) (VU32 b) = Done (VBool (le_u32 a b)).
Proof. intros; ev; reflexivity. Qed.

Lemma msl_gt_u32_correct : forall a b, in32 a -> in32 b -> run2 [] (t_bin BGt) (VU32 a) (VU32 b) = Done (VBool (lt_u32 b a)).
Proof. intros; ev; reflexivity. Qed.

Lemma msl_ge_u32_correct : forall a b, in32 a -> in32 b -> run2 [] (t_bin BGe) (VU32 a) (VU32 b) = Done (VBool (le_u32 b a)).
Proof. intros; ev; reflexivity. Qed.

Lemma msl_eq_f32_correct : forall a b, in32 a -> in32 b -> run2 [] (t_bin BEq) (VF32 a) (VF32 b) = Done (VBool (feq a b)).
Proof. intros; ev; reflexivity. Qed.

Lemma msl_ne_f32_correct : forall a b, in32 a -> in32 b -> run2 [] (t_bin BNe) (VF32 a) (VF32 b) = Done (VBool (fne a b)).
Proof. intros; ev; reflexivity. Qed.

Lemma msl_lt_f32_correct : forall a b, in32 a -> in32 b -> run2 [] (t_bin BLt) (VF32 a) (VF32 b) = Done (VBool (flt a b)).
Proof. intros; ev; reflexivity. Qed.

Lemma msl_le_f32_correct : forall a b, in32 a -> in32 b -> run2 [] (t_bin BLe) (VF32 a) (VF32 b) = Done (VBool (fle a b)).
Proof. intros; ev; reflexivity. Qed.

Lemma msl_gt_f32_correct : forall a b, in32 a -> in32 b -> run2 [] (t_bin BGt) (VF32 a) (VF32 b) = Done (VBool (fgt a b)).
Proof. intros; ev; reflexivity. Qed.

Lemma msl_ge_f32_correct : forall a b, in32 a -> in32 b -> run2 [] (t_bin BGe) (VF32 a) (VF32 b) = Done (VBool (fge a b)).
Proof. intros; ev; reflexivity. Qed.

Lemma msl_eq_bool_correct : forall a b, run2 [] (t_bin BEq) (VBool a) (VBool b) = Done (VBool (Bool.eqb a b)).
Proof. intros a b; destruct a, b; reflexivity. Qed.

Lemma msl_ne_bool_correct : forall a b, run2 [] (t_bin BNe) (VBool a) (VBool b) = Done (VBool (negb (Bool.eqb a b))).
Proof. intros a b; destruct a, b; reflexivity. Qed.

Lemma msl_and_i32_correct : forall a b, in32 a -> in32 b -> run2 [] (t_bin BAnd) (VI32 a) (VI32 b) = Done (VI32 (and32 a b)).
Proof. intros; ev; reflexivity. Qed.

Lemma msl_or_i32_correct : forall a b, in32 a -> in32 b -> run2 [] (t_bin BOr) (VI32 a) (VI32 b) = Done (VI32 (or32 a b)).
Proof. intros; ev; reflexivity. Qed.

Lemma msl_xor_i32_correct : forall a b, in32 a -> in32 b -> run2 [] (t_bin BXor) (VI32 a) (VI32 b) = Done (VI32 (xor32 a b)).
Proof. intros; ev; reflexivity. Qed.

Lemma msl_shl_i32_correct : forall a b, in32 a -> in32 b -> run2 [] (t_bin BShl) (VI32 a) (VU32 b) = Done (VI32 (shl32 a b)).
Proof. intros; ev; reflexivity. Qed.

Lemma msl_shr_i32_correct : forall a b, in32 a -> in32 b -> run2 [] (t_bin BShr) (VI32 a) (VU32 b) = Done (VI32 (shr_i32 a b)).
Proof. intros; ev; reflexivity. Qed.

Lemma msl_not_i32_correct : forall a, in32 a -> run1 [] (EUn UBitNot va) (VI32 a) = Done (VI32 (not32 a)).
Proof. intros; ev; reflexivity. Qed.

Lemma msl_and_u32_correct : forall a b, in32 a -> in32 b -> run2 [] (t_bin BAnd) (VU32 a) (VU32 b) = Done (VU32 (and32 a b)).
Proof. intros; ev; reflexivity. Qed.

Lemma msl_or_u32_correct : forall a b, in32 a -> in32 b -> run2 [] (t_bin BOr) (VU32 a) (VU32 b) = Done (VU32 (or32 a b)).
Proof. intros; ev; reflexivity. Qed.

Lemma msl_xor_u32_correct : forall a b, in32 a -> in32 b -> run2 [] (t_bin BXor) (VU32 a) (VU32 b) = Done (VU32 (xor32 a b)).
Proof. intros; ev; reflexivity. Qed.

Lemma msl_shl_u32_correct : forall a b, in32 a -> in32 b -> run2 [] (t_bin BShl) (VU32 a) (VU32 b) = Done (VU32 (shl32 a b)).
Proof. intros; ev; reflexivity. Qed.

Lemma msl_shr_u32_correct : forall a b, in32 a -> in32 b -> run2 [] (t_bin BShr) (VU32 a) (VU32 b) = Done (VU32 (shr_u32 a b)).
Proof. intros; ev; reflexivity. Qed.

Lemma msl_not_u32_correct : forall a, in32 a -> run1 [] (EUn UBitNot va) (VU32 a) = Done (VU32 (not32 a)).
Proof. intros; ev; reflexivity. Qed.

Lemma msl_and_bool_correct : forall a b, run2 [] (t_bin BAnd) (VBool a) (VBool b) = Done (VBool (andb a b)).
Proof. intros; ev; reflexivity. Qed.

Lemma msl_or_bool_correct : forall a b, run2 [] (t_bin BOr) (VBool a) (VBool b) = Done (VBool (orb a b)).
Proof. intros; ev; reflexivity. Qed.

Lemma msl_lnot_bool_correct : forall a, run1 [] (EUn UNot va) (VBool a) = Done (VBool (negb a)).
Proof. intros; ev; reflexivity. Qed.

Lemma msl_neg_f32_correct : forall a, in32 a -> run1 [] (EUn UNeg va) (VF32 a) = Done (VF32 (fneg a)).
Proof. intros; ev; reflexivity. Qed.

Lemma msl_select_i32_correct : forall a b c, run3 [] t_ternary (VI32 a) (VI32 b) (VBool c) = Done (if c then VI32 b else VI32 a).
Proof. intros a b c; destruct c; reflexivity. Qed.

Lemma msl_select_u32_correct : forall a b c, run3 [] t_ternary (VU32 a) (VU32 b) (VBool c) = Done (if c then VU32 b else VU32 a).
Proof. intros a b c; destruct c; reflexivity. Qed.

Lemma msl_select_f32_correct : forall a b c, run3 [] t_ternary (VF32 a) (VF32 b) (VBool c) = Done (if c then VF32 b else VF32 a).
Proof. intros a b c; destruct c; reflexivity. Qed.

Lemma msl_select_bool_correct : forall a b c, run3 [] t_ternary (VBool a) (VBool b) (VBool c) = Done (if c then VBool b else VBool a).
Proof. intros a b c; destruct c; reflexivity. Qed.

Lemma msl_abs_u32_correct : forall a, in32 a -> run1 [] (t_call1 "metal::abs") (VU32 a) = Done (VU32 a).
Proof. intros; ev; reflexivity. Qed.

Lemma msl_abs_f32_correct : forall a, in32 a -> run1 [] (t_call1 "metal::abs") (VF32 a) = Done (VF32 (fabs a)).
Proof. intros; ev; reflexivity. Qed.

Lemma msl_min_i32_correct : forall a b, in32 a -> in32 b -> run2 [] (t_call2 "metal::min") (VI32 a) (VI32 b) = Done (VI32 (min_i32 a b)).
Proof. intros; ev; reflexivity. Qed.

Lemma msl_max_i32_correct : forall a b, in32 a -> in32 b -> run2 [] (t_call2 "metal::max") (VI32 a) (VI32 b) = Done (VI32 (max_i32 a b)).
Proof. intros; ev; reflexivity. Qed.

Lemma msl_clamp_i32_correct : forall a b c, in32 a -> in32 b -> in32 c -> run3 [] (t_call3 "metal::clamp") (VI32 a) (VI32 b) (VI32 c) = Done (VI32 (clamp_i32 a b c)).
Proof. intros; ev; reflexivity. Qed.

Lemma msl_min_u32_correct : forall a b, in32 a -> in32 b -> run2 [] (t_call2 "metal::min") (VU32 a) (VU32 b) = Done (VU32 (min_u32 a b)).
Proof. intros; ev; reflexivity. Qed.

Lemma msl_max_u32_correct : forall a b, in32 a -> in32 b -> run2 [] (t_call2 "metal::max") (VU32 a) (VU32 b) = Done (VU32 (max_u32 a b)).
Proof. intros; ev; reflexivity. Qed.

Lemma msl_clamp_u32_correct : forall a b c, in32 a -> in32 b -> in32 c -> run3 [] (t_call3 "metal::clamp") (VU32 a) (VU32 b) (VU32 c) = Done (VU32 (clamp_u32 a b c)).
Proof. intros; ev; reflexivity. Qed.

Lemma msl_min_f32_correct : forall a b, in32 a -> in32 b -> run2 [] (t_call2 "metal::min") (VF32 a) (VF32 b) = Done (VF32 (fmin a b)).
Proof. intros; ev; reflexivity. Qed.

Lemma msl_max_f32_correct : forall a b, in32 a -> in32 b -> run2 [] (t_call2 "metal::max") (VF32 a) (VF32 b) = Done (VF32 (fmax a b)).
Proof. intros; ev; reflexivity. Qed.

Lemma msl_clamp_f32_correct : forall a b c, in32 a -> in32 b -> in32 c -> run3 [] (t_call3 "metal::clamp") (VF32 a) (VF32 b) (VF32 c) = Done (VF32 (fmin (fmax a b) c)).
Proof. intros; ev; reflexivity. Qed.

Lemma msl_popcount_i32_correct : forall a, in32 a -> run1 [] (t_call1 "metal::popcount") (VI32 a) = Done (VI32 (count_one_bits a)).
Proof. intros; ev; reflexivity. Qed.

Lemma msl_clz_i32_correct : forall a, in32 a -> run1 [] (t_call1 "metal::clz") (VI32 a) = Done (VI32 (count_leading_zeros a)).
Proof. intros; ev; reflexivity. Qed.

Lemma msl_ctz_i32_correct : forall a, in32 a -> run1 [] (t_call1 "metal::ctz") (VI32 a) = Done (VI32 (count_trailing_zeros a)).
Proof. intros; ev; reflexivity. Qed.

Lemma msl_reversebits_i32_correct : forall a, in32 a -> run1 [] (t_call1 "metal::reverse_bits") (VI32 a) = Done (VI32 (reverse_bits a)).
Proof. intros; ev; reflexivity. Qed.

Lemma msl_popcount_u32_correct : forall a, in32 a -> run1 [] (t_call1 "metal::popcount") (VU32 a) = Done (VU32 (count_one_bits a)).
Proof. intros; ev; reflexivity. Qed.

Lemma msl_clz_u32_correct : forall a, in32 a -> run1 [] (t_call1 "metal::clz") (VU32 a) = Done (VU32 (count_leading_zeros a)).
Proof. intros; ev; reflexivity. Qed.

Lemma msl_ctz_u32_correct : forall a, in32 a -> run1 [] (t_call1 "metal::ctz") (VU32 a) = Done (VU32 (count_trailing_zeros a)).
Proof. intros; ev; reflexivity. Qed.

Lemma msl_reversebits_u32_correct : forall a, in32 a -> run1 [] (t_call1 "metal::reverse_bits") (VU32 a) = Done (VU32 (reverse_bits a)).
Proof. intros; ev; reflexivity. Qed.

Lemma msl_floor_f32_correct : forall a, in32 a -> run1 [] (t_call1 "metal::floor") (VF32 a) = Done (VF32 (ffloor a)).
Proof. intros; ev; reflexivity. Qed.

Lemma msl_ceil_f32_correct : forall a, in32 a -> run1 [] (t_call1 "metal::ceil") (VF32 a) = Done (VF32 (fceil a)).
Proof. intros; ev; reflexivity. Qed.

Lemma msl_trunc_f32_correct : forall a, in32 a -> run1 [] (t_call1 "metal::trunc") (VF32 a) = Done (VF32 (ftrunc a)).
Proof. intros; ev; reflexivity. Qed.

Lemma msl_sqrt_f32_correct : forall a, in32 a -> run1 [] (t_call1 "metal::sqrt") (VF32 a) = Done (VF32 (fsqrt a)).
Proof. intros; ev; reflexivity. Qed.

Lemma msl_saturate_f32_correct : forall a, in32 a -> run1 [] (t_call1 "metal::saturate") (VF32 a) = Done (VF32 (fmin (fmax a 0) 1065353216)).
Proof. intros; ev; reflexivity. Qed.

Lemma msl_fma_f32_correct : forall a b c, in32 a -> in32 b -> in32 c -> run3 [] (t_call3 "metal::fma") (VF32 a) (VF32 b) (VF32 c) = Done (VF32 (ffma a b c)).
Proof. intros; ev; reflexivity. Qed.

Lemma msl_conv_i32_u32_correct : forall a, in32 a -> run1 [] (ECast (tyv 1 SUint) va) (VI32 a) = Done (VU32 a).
Proof. intros; ev; reflexivity. Qed.

Lemma msl_conv_i32_f32_correct : forall a, in32 a -> run1 [] (ECast (tyv 1 SFloat) va) (VI32 a) = Done (VF32 (f32_of_i32 a)).
Proof. intros; ev; reflexivity. Qed.

Lemma msl_conv_i32_bool_correct : forall a, in32 a -> run1 [] (ECast (tyv 1 SBool) va) (VI32 a) = Done (VBool (bool_of_32 a)).
Proof. intros; ev; reflexivity. Qed.

Lemma msl_conv_u32_i32_correct : forall a, in32 a -> run1 [] (ECast (tyv 1 SInt) va) (VU32 a) = Done (VI32 a).
Proof. intros; ev; reflexivity. Qed.

Lemma msl_conv_u32_f32_correct : forall a, in32 a -> run1 [] (ECast (tyv 1 SFloat) va) (VU32 a) = Done (VF32 (f32_of_u32 a)).
Proof. intros; ev; reflexivity. Qed.

Lemma msl_conv_u32_bool_correct : forall a, in32 a -> run1 [] (ECast (tyv 1 SBool) va) (VU32 a) = Done (VBool (bool_of_32 a)).
Proof. intros; ev; reflexivity. Qed.

Lemma msl_conv_f32_bool_correct : forall a, in32 a -> run1 [] (ECast (tyv 1 SBool) va) (VF32 a) = Done (VBool (negb (feq a 0))).
Proof. intros; ev; reflexivity. Qed.

Lemma msl_conv_bool_i32_correct : forall a, run1 [] (ECast (tyv 1 SInt) va) (VBool a) = Done (VI32 (u32_of_bool a)).
Proof. intros; ev; reflexivity. Qed.

Lemma msl_conv_bool_u32_correct : forall a, run1 [] (ECast (tyv 1 SUint) va) (VBool a) = Done (VU32 (u32_of_bool a)).
Proof. intros; ev; reflexivity. Qed.

Lemma msl_conv_bool_f32_correct : forall a, run1 [] (ECast (tyv 1 SFloat) va) (VBool a) = Done (VF32 (if a then 1065353216 else 0)).
Proof. intros; ev; reflexivity. Qed.

Lemma msl_bitcast_i32_u32_correct : forall a, in32 a -> run1 [] (EAsType (tyv 1 SUint) va) (VI32 a) = Done (VU32 a).
Proof. intros; ev; reflexivity. Qed.

Lemma msl_bitcast_i32_f32_correct : forall a, in32 a -> run1 [] (EAsType (tyv 1 SFloat) va) (VI32 a) = Done (VF32 a).
Proof. intros; ev; reflexivity. Qed.

Lemma msl_bitcast_u32_i32_correct : forall a, in32 a -> run1 [] (EAsType (tyv 1 SInt) va) (VU32 a) = Done (VI32 a).
Proof. intros; ev; reflexivity. Qed.

Lemma msl_bitcast_u32_f32_correct : forall a, in32 a -> run1 [] (EAsType (tyv 1 SFloat) va) (VU32 a) = Done (VF32 a).
Proof. intros; ev; reflexivity. Qed.

Lemma msl_bitcast_f32_i32_correct : forall a, in32 a -> run1 [] (EAsType (tyv 1 SInt) va) (VF32 a) = Done (VI32 a).
Proof. intros; ev; reflexivity. Qed.

Lemma msl_bitcast_f32_u32_correct : forall a, in32 a -> run1 [] (EAsType (tyv 1 SUint) va) (VF32 a) = Done (VU32 a).
Proof. intros; ev; reflexivity. Qed.

(* ---- helper functions, from their bodies ---- *)
Lemma msl_div_i32_correct : forall a b, in32 a -> in32 b ->
  run2 [h_div_i32 1] (t_call2 "naga_div") (VI32 a) (VI32 b) = Done (VI32 (div_i32 a b)).
Proof.
  intros a b Ha Hb. ev. 
  destruct ((a =? 2147483648) && (b =? 4294967295) || (b =? 0)) eqn:E; unstick.
  - rewrite Z.quot_1_r. rewrite sint_ok by (apply sgn_rng; assumption). rewrite wrap_sgn by assumption.
    unfold div_i32, INT_MIN_BITS, ALL_ONES, H32, M32. change (4294967296 - 1) with 4294967295.
    destruct (Z.eqb_spec b 0); [reflexivity|]. rewrite orb_false_r in E. rewrite E. reflexivity.
  - destruct (guard_false a b Ha Hb E) as (Hb0 & Hs0 & Hn & Hg).
    destruct (Z.eqb_spec b 0); [contradiction|].
    rewrite sint_ok by (apply quot_range; auto using sgn_rng).
    unfold div_i32. destruct (Z.eqb_spec b 0); [contradiction|]. rewrite Hg. reflexivity.
Qed.

Lemma bv_i32 o x y : binop_val o (VI32 x) (VI32 y) = binop_scalar o (VI32 x) (VI32 y).
Proof. reflexivity. Qed.
Lemma bs_div_i32 x y : binop_scalar BDiv (VI32 x) (VI32 y) = if y =? 0 then Fail "UB: division by zero" else sint_result (sgn x ÷ sgn y).
Proof. reflexivity. Qed.
Lemma bs_mul_i32 x y : binop_scalar BMul (VI32 x) (VI32 y) = sint_result (sgn x * sgn y).
Proof. reflexivity. Qed.
Lemma bs_sub_i32 x y : binop_scalar BSub (VI32 x) (VI32 y) = sint_result (sgn x - sgn y).
Proof. reflexivity. Qed.
Lemma bs_add_i32 x y : binop_scalar BAdd (VI32 x) (VI32 y) = sint_result (sgn x + sgn y).
Proof. reflexivity. Qed.

Lemma sgn_wrap z : - 2147483648 <= z < 2147483648 -> sgn (wrap z) = z.
Proof.
  intros H. unfold sgn, wrap, M32, H32.
  destruct (Z_lt_le_dec z 0).
  - replace (z mod 4294967296) with (z + 4294967296).
    + destruct (Z.ltb_spec (z + 4294967296) 2147483648); lia.
    + rewrite <- (Z.mod_small (z + 4294967296) 4294967296) at 1 by lia.
      replace (z + 4294967296) with (z + 1 * 4294967296) by lia. apply Z.mod_add. lia.
  - rewrite Z.mod_small by lia. destruct (Z.ltb_spec z 2147483648); lia.
Qed.
Lemma rem_range x y : - 2147483648 <= x < 2147483648 -> y <> 0 -> - 2147483648 <= Z.rem x y < 2147483648.
Proof.
  intros Hx Hy. pose proof (quot_mul_range x y Hx Hy). pose proof (Z.quot_rem' x y).
  destruct (Z_lt_le_dec x 0).
  - pose proof (Z.rem_nonpos x y ltac:(lia) ltac:(lia)).
    assert (Z.abs (Z.rem x y) <= Z.abs x). { rewrite <- Z.rem_abs by lia. apply Z.rem_le; lia. } lia.
  - pose proof (Z.rem_nonneg x y ltac:(lia) ltac:(lia)).
    assert (Z.abs (Z.rem x y) <= Z.abs x).
    { rewrite <- Z.rem_abs by lia. destruct (Z.eq_dec x 0); [subst; rewrite Z.rem_0_l by lia; lia|]. apply Z.rem_le; lia. } lia.
Qed.

Lemma msl_mod_i32_correct : forall a b, in32 a -> in32 b ->
  run2 [h_mod_i32 1] (t_call2 "naga_mod") (VI32 a) (VI32 b) = Done (VI32 (rem_i32 a b)).
Proof.
  intros a b Ha Hb. pose proof (sgn_rng a Ha) as Ra. ev.
  destruct ((a =? 2147483648) && (b =? 4294967295) || (b =? 0)) eqn:E; simp.
  - rewrite Z.quot_1_r. rewrite sint_ok by assumption. cbn [rbind].
    rewrite bv_i32, bs_mul_i32. rewrite wrap_sgn by assumption. change (sgn 1) with 1. rewrite Z.mul_1_r.
    rewrite sint_ok by assumption. cbn [rbind]. rewrite bv_i32, bs_sub_i32. rewrite wrap_sgn by assumption.
    rewrite Z.sub_diag. rewrite sint_ok by lia. change (wrap 0) with 0.
    unfold rem_i32, INT_MIN_BITS, ALL_ONES, H32, M32. change (4294967296 - 1) with 4294967295.
    destruct (Z.eqb_spec b 0); [reflexivity|]. rewrite orb_false_r in E. rewrite E. reflexivity.
  - destruct (guard_false a b Ha Hb E) as (Hb0 & Hs0 & Hn & Hg). pose proof (sgn_rng b Hb) as Rb.
    destruct (Z.eqb_spec b 0); [contradiction|].
    pose proof (quot_range (sgn a) (sgn b) Ra Rb Hs0 Hn) as Rq.
    rewrite sint_ok by assumption. cbn [rbind].
    rewrite bv_i32, bs_mul_i32. rewrite sgn_wrap by assumption.
    pose proof (quot_mul_range (sgn a) (sgn b) Ra Hs0) as Rm.
    rewrite sint_ok by assumption. cbn [rbind]. rewrite bv_i32, bs_sub_i32. rewrite sgn_wrap by assumption.
    rewrite rem_eq. rewrite sint_ok by (apply rem_range; assumption).
    unfold rem_i32. destruct (Z.eqb_spec b 0); [contradiction|]. rewrite Hg. reflexivity.
Qed.

(* ---- bit counting facts, integer builtins, refuted entries ---- *)
Lemma clz_nat_range n a : 0 <= clz_nat n a <= Z.of_nat n.
Proof. induction n; cbn [clz_nat]; [lia|]. destruct (Z.testbit a (Z.of_nat n)); lia. Qed.

Lemma clz_nat_full n a : clz_nat n a = Z.of_nat n -> forall j, 0 <= j < Z.of_nat n -> Z.testbit a j = false.
Proof.
  induction n; intros H j Hj; [lia|].
  cbn [clz_nat] in H. destruct (Z.testbit a (Z.of_nat n)) eqn:T; [lia|].
  destruct (Z.eq_dec j (Z.of_nat n)); [subst; exact T|].
  apply IHn; lia.
Qed.

Lemma in32_zero_bits a : in32 a -> (forall j, 0 <= j < 32 -> Z.testbit a j = false) -> a = 0.
Proof.
  intros [H0 H1] Hb. apply Z.bits_inj_0. intros n.
  destruct (Z_lt_le_dec n 0); [apply Z.testbit_neg_r; lia|].
  destruct (Z_lt_le_dec n 32); [apply Hb; lia|].
  destruct (Z.eq_dec a 0); [subst; apply Z.testbit_0_l|].
  apply Z.bits_above_log2; [lia|]. apply Z.log2_lt_pow2; [lia|].
  apply Z.lt_le_trans with (2 ^ 32); [unfold M32 in H1; lia|]. apply Z.pow_le_mono_r; lia.
Qed.

Lemma clz_range a : 0 <= count_leading_zeros a <= 32.
Proof. unfold count_leading_zeros. pose proof (clz_nat_range 32 a). cbn in *. lia. Qed.

Lemma clz_nonzero a : in32 a -> a <> 0 -> count_leading_zeros a <= 31.
Proof.
  intros Ha Hn. pose proof (clz_range a). destruct (Z.eq_dec (count_leading_zeros a) 32); [|lia].
  exfalso. apply Hn. apply in32_zero_bits; [exact Ha|]. intros j Hj.
  apply (clz_nat_full 32 a); [exact e| cbn; lia].
Qed.

Lemma ctz_from_range f a : forall i, 0 <= i -> i + Z.of_nat f = 32 -> i <= ctz_from f i a <= 32.
Proof.
  induction f; intros i Hi He; cbn [ctz_from]; [lia|].
  destruct (Z.testbit a i); [lia|]. specialize (IHf (i + 1) ltac:(lia) ltac:(lia)). lia.
Qed.

Lemma ctz_from_full f a : forall i, 0 <= i -> i + Z.of_nat f = 32 -> ctz_from f i a = 32 ->
  forall j, i <= j < 32 -> Z.testbit a j = false.
Proof.
  induction f; intros i Hi He H j Hj; [lia|].
  cbn [ctz_from] in H. destruct (Z.testbit a i) eqn:T; [lia|].
  destruct (Z.eq_dec j i); [subst; exact T|]. apply (IHf (i + 1)); lia.
Qed.

Lemma ctz_range a : 0 <= count_trailing_zeros a <= 32.
Proof. unfold count_trailing_zeros. apply (ctz_from_range 32 a 0); cbn; lia. Qed.

Lemma ctz_nonzero a : in32 a -> a <> 0 -> count_trailing_zeros a <= 31.
Proof.
  intros Ha Hn. pose proof (ctz_range a). destruct (Z.eq_dec (count_trailing_zeros a) 32); [|lia].
  exfalso. apply Hn. apply in32_zero_bits; [exact Ha|]. intros j Hj.
  apply (ctz_from_full 32 a 0); cbn; try lia. exact e.
Qed.

Lemma ctz_zero : count_trailing_zeros 0 = 32. Proof. reflexivity. Qed.
Lemma clz_zero : count_leading_zeros 0 = 32. Proof. reflexivity. Qed.
Ltac bits := unfold_bits; atom_cases; intros; try discriminate; try reflexivity; try (exfalso; lia); try (f_equal; f_equal; lia).

Lemma msl_div_u32_correct : forall a b, in32 a -> in32 b ->
  run2 [h_div_u32 1] (t_call2 "naga_div") (VU32 a) (VU32 b) = Done (VU32 (div_u32 a b)).
Proof.
  intros a b Ha Hb. ev. unfold div_u32. destruct (Z.eqb_spec b 0); simp.
  - rewrite Z.div_1_r. reflexivity.
  - destruct (Z.eqb_spec b 0); [contradiction|reflexivity].
Qed.
Lemma msl_mod_u32_correct : forall a b, in32 a -> in32 b ->
  run2 [h_mod_u32 1] (t_call2 "naga_mod") (VU32 a) (VU32 b) = Done (VU32 (rem_u32 a b)).
Proof.
  intros a b Ha Hb. ev. unfold rem_u32. destruct (Z.eqb_spec b 0); simp.
  - rewrite Z.mod_1_r. reflexivity.
  - destruct (Z.eqb_spec b 0); [contradiction|reflexivity].
Qed.
Lemma msl_neg_i32_correct : forall a, in32 a ->
  run1 [h_neg_i32 1] (t_call1 "naga_neg") (VI32 a) = Done (VI32 (neg32 a)).
Proof. intros a Ha. ev. reflexivity. Qed.
Lemma msl_abs_i32_correct : forall a, in32 a ->
  run1 [h_abs_i32 1] (t_call1 "naga_abs") (VI32 a) = Done (VI32 (abs_i32 a)).
Proof.
  intros a Ha. ev. unfold abs_i32, le_i32. change (sgn 0) with 0.
  destruct (Z.leb_spec 0 (sgn a)); destruct (Z.ltb_spec (sgn a) 0); try lia; reflexivity.
Qed.
Lemma msl_sign_i32_correct : forall a, in32 a -> run1 [] (t_sign_i32 1) (VI32 a) = Done (VI32 (sign_i32 a)).
Proof.
  intros a Ha. ev. unfold sign_i32, lt_i32, ALL_ONES, M32. change (sgn 0) with 0. change (4294967296 - 1) with 4294967295.
  assert (S0 : sgn a = 0 <-> a = 0). { unfold sgn, in32, M32, H32 in *. destruct (Z.ltb_spec a 2147483648); lia. }
  destruct (Z.eqb_spec a 0) as [e|e].
  - subst a. reflexivity.
  - destruct (Z.ltb_spec 0 (sgn a)); destruct (Z.ltb_spec (sgn a) 0); try lia; try reflexivity.
Qed.
(* metal::sign: MSL 3.1 gives 0.0 for NaN, the shared IR reading returns the NaN; WGSL leaves NaN behaviour open *)
Lemma msl_sign_f32_correct_nonnan : forall a, in32 a -> is_nan_bits a = false ->
  run1 [] (t_call1 "metal::sign") (VF32 a) =
  Done (VF32 (if is_nan_bits a then a else if flt 0 a then 1065353216 else if flt a 0 then 3212836864 else a)).
Proof. intros a Ha Hn. ev. unfold fsign, f32_one, f32_mone. rewrite Hn. reflexivity. Qed.
Lemma sgn_small z : 0 <= z < 2147483648 -> sgn z = z.
Proof. intros H. unfold sgn, H32. destruct (Z.ltb_spec z 2147483648); lia. Qed.

Lemma msl_firsttrailingbit_i32_correct : forall a, in32 a -> run1 [] t_ftb (VI32 a) = Done (VI32 (first_trailing_bit a)).
Proof.
  intros a Ha. ev. pose proof (ctz_range a) as R.
  rewrite (sgn_small (count_trailing_zeros a)) by lia. rewrite sint_ok by lia. cbn [rbind].
  rewrite bv_i32. unfold binop_scalar, m_arith. cbn [arith_conv promote rbind arith_int].
  change (33 =? 0) with false. change (wrap (count_trailing_zeros a + 1) =? INT_MIN_BITS) with (wrap (count_trailing_zeros a + 1) =? 2147483648).
  rewrite (wrap_id (count_trailing_zeros a + 1)) by (unfold in32, M32; lia).
  destruct (Z.eqb_spec (count_trailing_zeros a + 1) 2147483648); [lia|]. cbn [andb].
  rewrite (sgn_small (count_trailing_zeros a + 1)) by lia. change (sgn 33) with 33.
  cbn [rbind]. rewrite bv_i32, bs_sub_i32.
  assert (Rr : 0 <= Z.rem (count_trailing_zeros a + 1) 33 < 33) by (apply Z.rem_bound_pos; lia).
  rewrite (wrap_id (Z.rem _ _)) by (unfold in32, M32; lia). rewrite sgn_small by lia. change (sgn 1) with 1.
  rewrite sint_ok by lia. f_equal. f_equal.
  unfold first_trailing_bit, ALL_ONES, M32.
  destruct (Z.eqb_spec a 0) as [e0|n0].
  - subst a. reflexivity.
  - pose proof (ctz_nonzero a Ha n0). rewrite Z.rem_small by lia. unfold wrap, M32. rewrite Z.mod_small; lia.
Qed.

Lemma msl_firsttrailingbit_u32_correct : forall a, in32 a -> run1 [] t_ftb (VU32 a) = Done (VU32 (first_trailing_bit a)).
Proof.
  intros a Ha. ev. pose proof (ctz_range a) as R. f_equal. f_equal.
  unfold first_trailing_bit, ALL_ONES, add32, sub32, wrap, M32.
  destruct (Z.eqb_spec a 0) as [e0|n0].
  - subst a. reflexivity.
  - pose proof (ctz_nonzero a Ha n0). rewrite (Z.mod_small (count_trailing_zeros a + 1)) by lia.
    rewrite (Z.mod_small (count_trailing_zeros a + 1) 33) by lia. rewrite Z.mod_small; lia.
Qed.
Lemma not32_nonzero a : in32 a -> a <> 4294967295 -> not32 a <> 0.
Proof. unfold not32, ALL_ONES, in32, M32. lia. Qed.

Lemma msl_firstleadingbit_i32_correct : forall a, in32 a ->
  run1 [] (t_flb_i32 1) (VI32 a) = Done (VI32 (first_leading_bit_i32 a)).
Proof.
  intros a Ha. ev. unfold first_leading_bit_i32, lt_i32, ALL_ONES, M32. change (4294967296 - 1) with 4294967295. change (sgn 0) with 0.
  destruct (Z.ltb_spec (sgn a) 0) as [Hs|Hs]; cbn [lift1 int1m rbind].
  - pose proof (clz_range (not32 a)) as R. rewrite bv_i32, bs_sub_i32. change (sgn 31) with 31.
    rewrite sgn_small by lia. rewrite sint_ok by lia. cbn [rbind].
    destruct (Z.eqb_spec a 0) as [e0|n0]; [subst; discriminate Hs || (exfalso; vm_compute in Hs; lia)|].
    cbn [rbind orb]. destruct (Z.eqb_spec a 4294967295) as [e1|n1]; cbn [rbind intrinsic String.eqb Ascii.eqb Bool.eqb lift3v m_select to_bool]; simp.
    + reflexivity.
    + pose proof (clz_nonzero (not32 a) (not32_in a Ha) (not32_nonzero a Ha n1)). rewrite wrap_id by (unfold in32, M32; lia). reflexivity.
  - pose proof (clz_range a) as R. rewrite bv_i32, bs_sub_i32. change (sgn 31) with 31.
    rewrite sgn_small by lia. rewrite sint_ok by lia. cbn [rbind].
    destruct (Z.eqb_spec a 0) as [e0|n0]; cbn [rbind orb]; simp; [reflexivity|].
    destruct (Z.eqb_spec a 4294967295) as [e1|n1]; simp.
    + reflexivity.
    + pose proof (clz_nonzero a Ha n0). rewrite wrap_id by (unfold in32, M32; lia). reflexivity.
Qed.
(* firstLeadingBit on u32: naga tests `v == -1` also for unsigned v, so 0xFFFFFFFF yields -1 instead of 31 *)
Lemma msl_firstleadingbit_u32_refuted : exists a, in32 a /\
  run1 [] (t_flb_u32 1) (VU32 a) <> Done (VU32 (first_leading_bit_u32 a)).
Proof. exists 4294967295. split; [unfold in32, M32; lia|]. vm_compute. discriminate. Qed.

Lemma msl_firstleadingbit_u32_correct_except_allones : forall a, in32 a -> a <> 4294967295 ->
  run1 [] (t_flb_u32 1) (VU32 a) = Done (VU32 (first_leading_bit_u32 a)).
Proof.
  intros a Ha Hn. ev. unfold first_leading_bit_u32, ALL_ONES, M32. change (4294967296 - 1) with 4294967295.
  destruct (Z.eqb_spec a 0) as [e0|n0]; cbn [rbind orb]; simp; [reflexivity|].
  destruct (Z.eqb_spec a 4294967295) as [e1|n1]; [contradiction|]. simp.
  pose proof (clz_range a). pose proof (clz_nonzero a Ha n0). unfold sub32. rewrite wrap_id by (unfold in32, M32; lia). reflexivity.
Qed.

Lemma min_u32_Zmin x y : min_u32 x y = Z.min x y.
Proof. unfold min_u32, lt_u32. destruct (Z.ltb_spec y x); lia. Qed.

Lemma clamp_oc b c : in32 b -> in32 c ->
  let o := min_u32 b 32 in let k := min_u32 c (sub32 32 o) in
  o = Z.min b 32 /\ k = Z.min c (32 - Z.min b 32) /\ o + k <= 32 /\ Z.min o 32 = o /\ Z.min k (32 - o) = k.
Proof.
  intros Hb Hc o k. unfold in32, M32 in *. subst o k. rewrite !min_u32_Zmin.
  assert (E : sub32 32 (Z.min b 32) = 32 - Z.min b 32). { unfold sub32, wrap, M32. apply Z.mod_small. lia. }
  rewrite E. lia.
Qed.

Ltac oc_tac b c Hb Hc :=
  destruct (clamp_oc b c Hb Hc) as (Eo & Ek & Hle & Ho & Hk); cbv zeta in *;
  match goal with |- context [?x + ?y <=? 32] => destruct (Z.leb_spec (x + y) 32); [|lia] end.

Lemma msl_extractbits_u32_correct : forall a b c, in32 a -> in32 b -> in32 c ->
  run3 [] t_extract (VU32 a) (VU32 b) (VU32 c) = Done (VU32 (extract_bits_u32 a b c)).
Proof.
  intros a b c Ha Hb Hc. ev. oc_tac b c Hb Hc. f_equal. f_equal.
  unfold extract_bits_u32. cbv zeta. rewrite Ho, Hk, Ek, Eo. reflexivity.
Qed.
Lemma msl_extractbits_i32_correct : forall a b c, in32 a -> in32 b -> in32 c ->
  run3 [] t_extract (VI32 a) (VU32 b) (VU32 c) = Done (VI32 (extract_bits_i32 a b c)).
Proof.
  intros a b c Ha Hb Hc. ev. oc_tac b c Hb Hc. f_equal. f_equal.
  unfold extract_bits_i32. cbv zeta. rewrite Ho, Hk, Ek, Eo. reflexivity.
Qed.
Lemma msl_insertbits_u32_correct : forall a b c d, in32 a -> in32 b -> in32 c -> in32 d ->
  run_tmpl [] t_insert (VU32 a) (VU32 b) (VU32 c) (VU32 d) = Done (VU32 (insert_bits a b c d)).
Proof.
  intros a b c d Ha Hb Hc Hd. rewrite run_tmpl_pure by reflexivity; simp. oc_tac c d Hc Hd. f_equal. f_equal.
  unfold insert_bits. cbv zeta. rewrite Ho, Hk, Ek, Eo. reflexivity.
Qed.
Lemma msl_insertbits_i32_correct : forall a b c d, in32 a -> in32 b -> in32 c -> in32 d ->
  run_tmpl [] t_insert (VI32 a) (VI32 b) (VU32 c) (VU32 d) = Done (VI32 (insert_bits a b c d)).
Proof.
  intros a b c d Ha Hb Hc Hd. rewrite run_tmpl_pure by reflexivity; simp. oc_tac c d Hc Hd. f_equal. f_equal.
  unfold insert_bits. cbv zeta. rewrite Ho, Hk, Ek, Eo. reflexivity.
Qed.

(* metal::round rounds halfway cases away from zero; WGSL round is ties-to-even *)
Lemma msl_round_f32_refuted : exists a, in32 a /\
  run1 [] (t_call1 "metal::round") (VF32 a) <> Done (VF32 (fround a)).
Proof. exists 1056964608. split; [unfold in32, M32; lia|]. vm_compute. discriminate. Qed.


(* float -> integer: naga clamps to [-2^31, 2147483520] / [0, 4294967040] (the largest binary32 values that fit) and
   then converts; WGSL saturates to INT_MAX / UINT_MAX, so every input >= 2^31 (resp. 2^32) gives 2147483520 instead
   of 2147483647 (resp. 4294967040 instead of 4294967295) *)
Lemma msl_conv_f32_i32_refuted : exists a, in32 a /\
  run1 [h_f2i32 1] (t_call1 "naga_f2i32") (VF32 a) <> Done (VI32 (i32_of_f32 a)).
Proof. exists 1325400064. split; [unfold in32, M32; lia|]. vm_compute. discriminate. Qed.
Lemma msl_conv_f32_u32_refuted : exists a, in32 a /\
  run1 [h_f2u32 1] (t_call1 "naga_f2u32") (VF32 a) <> Done (VU32 (u32_of_f32 a)).
Proof. exists 1333788672. split; [unfold in32, M32; lia|]. vm_compute. discriminate. Qed.

(* integer dot product: naga's helper multiplies and adds in signed int arithmetic - undefined on overflow in C++14,
   where WGSL wraps *)
Lemma msl_dot_i32_refuted : exists a1 a2 b1 b2, in32 a1 /\ in32 a2 /\ in32 b1 /\ in32 b2 /\
  run2 [h_dot SInt 2] (t_call2 "naga_dot_int2") (VVec [VI32 a1; VI32 a2]) (VVec [VI32 b1; VI32 b2]) = Fail "UB: signed overflow" /\
  dot_vals [VI32 a1; VI32 a2] [VI32 b1; VI32 b2] = Done (VI32 (add32 (mul32 a1 b1) (mul32 a2 b2))).
Proof. exists 2147483647, 1, 2, 0. repeat split; try (unfold in32, M32; lia); vm_compute; reflexivity. Qed.

Lemma msl_dot_u32_2_correct : forall a1 a2 b1 b2, in32 a1 -> in32 a2 -> in32 b1 -> in32 b2 ->
  run2 [h_dot SUint 2] (t_call2 "naga_dot_uint2") (VVec [VU32 a1; VU32 a2]) (VVec [VU32 b1; VU32 b2]) =
  dot_vals [VU32 a1; VU32 a2] [VU32 b1; VU32 b2].
Proof. intros. ev. reflexivity. Qed.
Lemma msl_dot_u32_3_correct : forall a1 a2 a3 b1 b2 b3, in32 a1 -> in32 a2 -> in32 a3 -> in32 b1 -> in32 b2 -> in32 b3 ->
  run2 [h_dot SUint 3] (t_call2 "naga_dot_uint3") (VVec [VU32 a1; VU32 a2; VU32 a3]) (VVec [VU32 b1; VU32 b2; VU32 b3]) =
  dot_vals [VU32 a1; VU32 a2; VU32 a3] [VU32 b1; VU32 b2; VU32 b3].
Proof. intros. ev. reflexivity. Qed.
Lemma msl_dot_u32_4_correct : forall a1 a2 a3 a4 b1 b2 b3 b4,
  in32 a1 -> in32 a2 -> in32 a3 -> in32 a4 -> in32 b1 -> in32 b2 -> in32 b3 -> in32 b4 ->
  run2 [h_dot SUint 4] (t_call2 "naga_dot_uint4") (VVec [VU32 a1; VU32 a2; VU32 a3; VU32 a4]) (VVec [VU32 b1; VU32 b2; VU32 b3; VU32 b4]) =
  dot_vals [VU32 a1; VU32 a2; VU32 a3; VU32 a4] [VU32 b1; VU32 b2; VU32 b3; VU32 b4].
Proof. intros. ev. reflexivity. Qed.
Lemma msl_dot_f32_correct : forall la lb, run2 [] (t_call2 "metal::dot") (VVec la) (VVec lb) = dot_vals la lb.
Proof. intros. ev. reflexivity. Qed.
Lemma msl_any_bool_correct : forall l, run1 [] (t_call1 "metal::any") (VVec (map VBool l)) = Done (VBool (existsb (fun b => b) l)).
Proof.
  intros. ev. assert (E : rmap (fun x => match x with VBool b => Done b | _ => Fail "expected bool" end) (map VBool l) = Done l).
  { induction l; cbn; [reflexivity|]. rewrite IHl. reflexivity. }
  rewrite E. reflexivity.
Qed.
Lemma msl_all_bool_correct : forall l, run1 [] (t_call1 "metal::all") (VVec (map VBool l)) = Done (VBool (forallb (fun b => b) l)).
Proof.
  intros. ev. assert (E : rmap (fun x => match x with VBool b => Done b | _ => Fail "expected bool" end) (map VBool l) = Done l).
  { induction l; cbn; [reflexivity|]. rewrite IHl. reflexivity. }
  rewrite E. reflexivity.
Qed.
