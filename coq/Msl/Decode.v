(* Decoder: the JSON AST written by lib/mslread.py -> Msl/Syntax. *)
From Coq Require Import List ZArith String Bool.
Import ListNotations.
Require Import Naga.Base.Json Naga.Msl.Syntax.
Open Scope string_scope.
Open Scope Z_scope.
Infix "==" := String.eqb (at level 70).

Inductive res (A : Type) := Ok (a : A) | Err (msg : string).
Arguments Ok {A} a.
Arguments Err {A} msg.
Definition bind {A B} (r : res A) (f : A -> res B) : res B := match r with Ok a => f a | Err m => Err m end.
Notation "x <- e1 ;; e2" := (bind e1 (fun x => e2)) (at level 61, e1 at next level, right associativity).

Fixpoint map_res {A B} (f : A -> res B) (l : list A) : res (list B) :=
  match l with
  | [] => Ok []
  | x :: l' => y <- f x ;; ys <- map_res f l' ;; Ok (y :: ys)
  end.

Definition dec_sty (s : string) : res sty :=
  if s == "int" then Ok SInt else if s == "uint" then Ok SUint else if s == "float" then Ok SFloat
  else if s == "bool" then Ok SBool else if s == "char" then Ok SChar else Err ("scalar type " ++ s).

Definition jnat (j : json) : res nat :=
  match j with JNum z => if z <? 0 then Err "negative number" else Ok (Z.to_nat z) | _ => Err "expected number" end.

Fixpoint dec_ty (fuel : nat) (j : json) : res ty :=
  match fuel with
  | O => Err "type nesting too deep"
  | S f =>
    match j with
    | JArr [JStr "s"; JStr s] => x <- dec_sty s ;; Ok (TyS x)
    | JArr [JStr "atomic"; JStr s] => x <- dec_sty s ;; Ok (TyAtomic x)
    | JArr [JStr "v"; n; JStr s; JBool p] => k <- jnat n ;; x <- dec_sty s ;; Ok (TyV k x p)
    | JArr [JStr "m"; c; r] => a <- jnat c ;; b <- jnat r ;; Ok (TyM a b)
    | JArr [JStr "a"; t; n] => t' <- dec_ty f t ;; k <- jnat n ;; Ok (TyA t' k)
    | JArr [JStr "n"; JStr s] => Ok (TyN s)
    | _ => Err "bad type"
    end
  end.
Definition dty := dec_ty 16.

Definition dec_unop (s : string) : res unop :=
  if s == "-" then Ok UNeg else if s == "!" then Ok UNot else if s == "~" then Ok UBitNot else Err ("unary operator " ++ s).

Definition dec_binop (s : string) : res binop :=
  if s == "+" then Ok BAdd else if s == "-" then Ok BSub else if s == "*" then Ok BMul else if s == "/" then Ok BDiv
  else if s == "%" then Ok BMod else if s == "==" then Ok BEq else if s == "!=" then Ok BNe else if s == "<" then Ok BLt
  else if s == "<=" then Ok BLe else if s == ">" then Ok BGt else if s == ">=" then Ok BGe else if s == "&" then Ok BAnd
  else if s == "|" then Ok BOr else if s == "^" then Ok BXor else if s == "&&" then Ok BLAnd else if s == "||" then Ok BLOr
  else if s == "<<" then Ok BShl else if s == ">>" then Ok BShr else Err ("binary operator " ++ s).

Fixpoint dec_expr (fuel : nat) (j : json) : res expr :=
  match fuel with
  | O => Err "expression nesting too deep"
  | S f =>
    match j with
    | JArr [JStr "int"; JNum z] => Ok (EInt z)
    | JArr [JStr "uint"; JNum z] => Ok (EUint z)
    | JArr [JStr "float"; JNum z] => Ok (EFloat z)
    | JArr [JStr "bool"; JBool b] => Ok (EBool b)
    | JArr [JStr "var"; JStr x] => Ok (EVar x)
    | JArr [JStr "un"; JStr o; e] => o' <- dec_unop o ;; e' <- dec_expr f e ;; Ok (EUn o' e')
    | JArr [JStr "bin"; JStr o; l; r] => o' <- dec_binop o ;; l' <- dec_expr f l ;; r' <- dec_expr f r ;; Ok (EBin o' l' r')
    | JArr [JStr "cond"; c; a; b] => c' <- dec_expr f c ;; a' <- dec_expr f a ;; b' <- dec_expr f b ;; Ok (ECond c' a' b')
    | JArr [JStr "cast"; t; e] => t' <- dty t ;; e' <- dec_expr f e ;; Ok (ECast t' e')
    | JArr [JStr "astype"; t; e] => t' <- dty t ;; e' <- dec_expr f e ;; Ok (EAsType t' e')
    | JArr [JStr "ctor"; t; JArr args] => t' <- dty t ;; as' <- map_res (dec_expr f) args ;; Ok (ECtor t' as')
    | JArr [JStr "zero"] => Ok EZero
    | JArr [JStr "dc"] => Ok EDC
    | JArr [JStr "member"; e; JStr m] => e' <- dec_expr f e ;; Ok (EMember e' m)
    | JArr [JStr "index"; e; i] => e' <- dec_expr f e ;; i' <- dec_expr f i ;; Ok (EIndex e' i')
    | JArr [JStr "call"; JStr fn; JArr args] => as' <- map_res (dec_expr f) args ;; Ok (ECall fn as')
    | JArr [JStr "addr"; e] => e' <- dec_expr f e ;; Ok (EAddr e')
    | _ => Err "bad expression"
    end
  end.
Definition dexpr := dec_expr 200.

Definition dec_assign_op (s : string) : res (option binop) :=
  if s == "=" then Ok None
  else match s with
       | String c1 r =>
         (* strip the trailing '=' *)
         let body := String.substring 0 (String.length s - 1) s in
         o <- dec_binop body ;; Ok (Some o)
       | _ => Err "assignment operator"
       end.

Fixpoint dec_stmt (fuel : nat) (j : json) : res stmt :=
  match fuel with
  | O => Err "statement nesting too deep"
  | S f =>
    let block (l : list json) := map_res (dec_stmt f) l in
    match j with
    | JArr [JStr "decl"; t; JStr x; JNull] => t' <- dty t ;; Ok (SDecl t' x None)
    | JArr [JStr "decl"; t; JStr x; e] => t' <- dty t ;; e' <- dexpr e ;; Ok (SDecl t' x (Some e'))
    | JArr [JStr "assign"; JStr o; l; r] => o' <- dec_assign_op o ;; l' <- dexpr l ;; r' <- dexpr r ;; Ok (SAssign o' l' r')
    | JArr [JStr "if"; c; JArr th; JArr el] => c' <- dexpr c ;; a <- block th ;; b <- block el ;; Ok (SIf c' a b)
    | JArr [JStr "while"; JArr b] => b' <- block b ;; Ok (SWhile b')
    | JArr [JStr "switch"; e; JArr cases] =>
      e' <- dexpr e ;;
      cs <- map_res (fun c => match c with
                              | JArr [JArr labels; JArr body] =>
                                ls <- map_res (fun l => match l with JNull => Ok None | _ => x <- dexpr l ;; Ok (Some x) end) labels ;;
                                b <- block body ;; Ok (ls, b)
                              | _ => Err "bad switch case" end) cases ;;
      Ok (SSwitch e' cs)
    | JArr [JStr "break"] => Ok SBreak
    | JArr [JStr "continue"] => Ok SContinue
    | JArr [JStr "return"; JNull] => Ok (SReturn None)
    | JArr [JStr "return"; e] => e' <- dexpr e ;; Ok (SReturn (Some e'))
    | JArr [JStr "block"; JArr b] => b' <- block b ;; Ok (SBlock b')
    | JArr [JStr "expr"; e] => e' <- dexpr e ;; Ok (SExpr e')
    | JArr [JStr "barrier"] => Ok SBarrier
    | _ => Err "bad statement"
    end
  end.
Definition dstmt := dec_stmt 100.

Definition of_opt {A} (msg : string) (o : option A) : res A := match o with Some a => Ok a | None => Err msg end.

Definition dec_attr (j : json) : res pattr :=
  match j with
  | JNull => Ok ANone
  | JArr [JStr "buffer"; JNum n] => Ok (ABuffer n)
  | JArr [JStr "builtin"; JStr s] => Ok (ABuiltin s)
  | _ => Err "bad parameter attribute"
  end.

Definition dec_param (j : json) : res param :=
  n <- of_opt "param name" (field_str "name" j) ;;
  tj <- of_opt "param ty" (field "ty" j) ;; t <- dty tj ;;
  m <- of_opt "param mode" (field_str "mode" j) ;;
  sp <- of_opt "param space" (field_str "space" j) ;;
  aj <- of_opt "param attr" (field "attr" j) ;; a <- dec_attr aj ;;
  Ok (mkparam n t (m == "ref") sp a).

Definition dec_fdef (j : json) : res fdef :=
  n <- of_opt "function name" (field_str "name" j) ;;
  rj <- of_opt "function ret" (field "ret" j) ;;
  r <- match rj with JNull => Ok None | _ => t <- dty rj ;; Ok (Some t) end ;;
  ps <- of_opt "function params" (field_arr "params" j) ;; ps' <- map_res dec_param ps ;;
  b <- of_opt "function body" (field_arr "body" j) ;; b' <- map_res dstmt b ;;
  k <- of_opt "function kernel" (field_bool "kernel" j) ;;
  Ok (mkfdef n r ps' b' k).

Definition dec_sdef (j : json) : res sdef :=
  n <- of_opt "struct name" (field_str "name" j) ;;
  ms <- of_opt "struct members" (field_arr "members" j) ;;
  ms' <- map_res (fun m => match m with JArr [JStr x; t] => t' <- dty t ;; Ok (x, t') | _ => Err "bad member" end) ms ;;
  Ok (mksdef n ms').

Definition dec_prog (j : json) : res prog :=
  ss <- of_opt "structs" (field_arr "structs" j) ;; ss' <- map_res dec_sdef ss ;;
  ts <- of_opt "typedefs" (field_arr "typedefs" j) ;;
  ts' <- map_res (fun t => n <- of_opt "typedef name" (field_str "name" t) ;; tj <- of_opt "typedef ty" (field "ty" t) ;;
                          t' <- dty tj ;; Ok (n, t')) ts ;;
  cs <- of_opt "consts" (field_arr "consts" j) ;;
  cs' <- map_res (fun c => n <- of_opt "const name" (field_str "name" c) ;; tj <- of_opt "const ty" (field "ty" c) ;;
                          t' <- dty tj ;; ij <- of_opt "const init" (field "init" c) ;; i <- dexpr ij ;; Ok (n, t', i)) cs ;;
  fs <- of_opt "funcs" (field_arr "funcs" j) ;; fs' <- map_res dec_fdef fs ;;
  Ok (mkprog ss' ts' cs' fs').
