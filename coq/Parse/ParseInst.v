(* Obligations tying the hand-written tables of the parser model to tables regenerated from /repo on
   every run (Gen/LexTables.v: const block of token.go; Gen/ParseTables.v: switch tables of parser.go). *)
From Coq Require Import List String ZArith Bool.
Import ListNotations.
Require Import Naga.Parse.Ast Naga.Parse.ParserModel Naga.Gen.LexTables Naga.Gen.ParseTables.
Open Scope string_scope.

Definition is_some {A} (o : option A) : bool := match o with Some _ => true | None => false end.
Definition mem_str (s : string) (l : list string) : bool := existsb (String.eqb s) l.

(* every token kind of token.go is a constructor of Ast.tk, with the same position in the const block *)
Lemma gen_token_kinds_known :
  forallb (fun nz => match tk_of_name (fst nz) with
                     | Some k => Z.eqb (Z.of_N (tk_code k)) (snd nz)
                     | None => false end) token_kinds = true.
Proof. vm_compute. reflexivity. Qed.

(* ... and there are no other constructors *)
Lemma gen_token_kinds_complete :
  forallb (fun k => mem_str (tk_name k) (map fst token_kinds)) all_tk = true
  /\ List.length all_tk = List.length token_kinds.
Proof. vm_compute. split; reflexivity. Qed.

(* the three switch tables of parser.go are the model's classification functions *)
Lemma gen_type_keywords :
  forallb (fun k => Bool.eqb (is_type_keyword k) (mem_str (tk_name k) go_type_keywords)) all_tk = true.
Proof. vm_compute. reflexivity. Qed.

Lemma gen_assign_ops :
  forallb (fun k => Bool.eqb (is_assign_op k) (mem_str (tk_name k) go_assign_ops)) all_tk = true.
Proof. vm_compute. reflexivity. Qed.

Lemma gen_sync_keywords :
  forallb (fun k => Bool.eqb (is_sync_kw k) (mem_str (tk_name k) go_sync_keywords)) all_tk = true.
Proof. vm_compute. reflexivity. Qed.

(* all_tk lists every constructor (so the forallb's above speak about all kinds): TkFacts.all_tk_complete *)
