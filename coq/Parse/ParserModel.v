(* Gallina transliteration of the WGSL parser, wgsl/internal/parser/parser.go (all of it:
   expressions, types, statements, declarations, directives, error recovery).

   State.  The Go parser holds the token slice, an index `current`, the list of recorded errors and
   the flag inForHeader.  It only ever looks at tokens[current] (peek), moves forward (advance) and
   overwrites tokens[current] (the template-close splits), so the model keeps the SUFFIX
   tokens[current:] (`toks`); the index of the current token is  total - length toks  where `total`
   is the length of the whole token list (never changed).

   Results.  `Ok v s'`, `Err e s'` (the state at the failure matters: attributes() drops expression
   errors and carries on, Parse() resynchronises from there) and `Oof` (fuel exhausted; shown
   impossible in ParserProofs.v).  Nothing is left unmodelled, so there is no `Unsupported` result;
   the only deviation: a token list without a final EOF token makes the Go code index out of range,
   the model treats the end of the list like EOF (the lexer always appends EOF).

   Fuel.  Go recursion that happens only after a token was consumed (parenthesised expression, call
   arguments, index, template arguments, nested blocks, else-if) goes through the handles E/T/TA/P
   (expressions) and S (statements), which are the same functions with one unit of fuel less;
   loops run on a local counter initialised to  total + 1  (every iteration consumes a token and
   length toks <= total in every state reached from init_state).

   Definitions only.  Written with a small set of combinators so that the proofs can be syntax
   directed:  ret, bind, fail, if_tok/if_match (test the current token AND consume it),
   if_check/if_peek (test only), take, expect_*. *)
From Coq Require Import List String NArith Bool Arith Ascii.
Import ListNotations.
Require Import Naga.Parse.Ast.
Open Scope string_scope.

Record pstate := mkst { toks : list token; total : nat; errs : list perr; infor : bool }.

Inductive res (A : Type) :=
| Ok (a : A) (s : pstate)
| Err (e : perr) (s : pstate)
| Oof.
Arguments Ok {A}. Arguments Err {A}. Arguments Oof {A}.

Definition parser (A : Type) := pstate -> res A.

Definition ret {A} (a : A) : parser A := fun s => Ok a s.
Definition bind {A B} (p : parser A) (f : A -> parser B) : parser B :=
  fun s => match p s with Ok a s' => f a s' | Err e s' => Err e s' | Oof => Oof end.
Notation "'do' x <- p ;; q" := (bind p (fun x => q)) (at level 200, x name, p at level 100, q at level 200).

(* ---- Parser helper methods *)
Definition eof_tok : token := mktoken TkEOF "".
Definition len (s : pstate) : nat := List.length (toks s).
Definition cur_idx (s : pstate) : nat := total s - len s.
Definition peek (s : pstate) : token := match toks s with [] => eof_tok | t :: _ => t end.
Definition at_end (s : pstate) : bool := tk_eqb (tkind (peek s)) TkEOF.                (* isAtEnd *)
Definition check (k : tk) (s : pstate) : bool := negb (at_end s) && tk_eqb (tkind (peek s)) k.
Definition set_toks (l : list token) (s : pstate) : pstate := mkst l (total s) (errs s) (infor s).
Definition adv (s : pstate) : pstate := if at_end s then s else set_toks (tl (toks s)) s. (* advance *)
Definition set_head (t : token) (s : pstate) : pstate := set_toks (t :: tl (toks s)) s.
Definition add_err (e : perr) (s : pstate) : pstate := mkst (toks s) (total s) (errs s ++ [e]) (infor s).
Definition set_infor (b : bool) (s : pstate) : pstate := mkst (toks s) (total s) (errs s) b.

Definition fail {A} (k : ekind) : parser A := fun s => Err (PErr k (cur_idx s)) s.
Definition oof {A} : parser A := fun _ => Oof.

(* if the current token (not EOF) satisfies pred: consume it and continue with pt, else pe *)
Definition if_tok {A} (pred : token -> bool) (pt : token -> parser A) (pe : parser A) : parser A :=
  fun s => if negb (at_end s) && pred (peek s) then pt (peek s) (adv s) else pe s.
Definition kind_is (k : tk) (t : token) : bool := tk_eqb (tkind t) k.
Definition if_match {A} (k : tk) (pt pe : parser A) : parser A := if_tok (kind_is k) (fun _ => pt) pe.
(* tests without consuming *)
Definition if_check {A} (k : tk) (pt pe : parser A) : parser A := fun s => if check k s then pt s else pe s.
Definition if_peek {A} (pred : token -> bool) (pt pe : parser A) : parser A :=
  fun s => if pred (peek s) then pt s else pe s.
Definition matchp (k : tk) : parser bool := if_match k (ret true) (ret false).         (* match *)
Definition take_pred (pred : token -> bool) (ek : ekind) : parser token := if_tok pred (fun t => ret t) (fail ek).
Definition take (k : tk) (ek : ekind) : parser token := take_pred (kind_is k) ek.
(* fuel for a loop or a recursion: the length of the whole token list + 1 (at least the number of
   remaining tokens + 1 in every state reached from init_state) *)
Definition with_fuel {A} (f : nat -> parser A) : parser A := fun s => f (S (total s)) s.

Definition gt_tok : token := mktoken TkGreater ">".
Definition eq_tok : token := mktoken TkEqual "=".
Definition ge_tok : token := mktoken TkGreaterEqual ">=".

(* expectTemplateClose: a `>`, or the first character of >>, >= and >>= (the token is split) *)
Definition expect_template_close : parser unit :=
  fun s => if check TkGreater s then Ok tt (adv s)
           else if check TkGreaterGreater s then Ok tt (set_head gt_tok s)
           else if check TkGreaterEqual s then Ok tt (set_head eq_tok s)
           else if check TkGreaterGreaterEqual s then Ok tt (set_head ge_tok s)
           else Err (PErr (EExpected TkGreater) (cur_idx s)) s.
(* expect: silent; a wanted `>` is a template close (`_ = p.expectTemplateClose()`) *)
Definition expect_silent (k : tk) : parser unit :=
  fun s => if check k s then Ok tt (adv s)
           else if tk_eqb k TkGreater
                then match expect_template_close s with Ok _ s' => Ok tt s' | _ => Ok tt s end
           else Ok tt s.
(* expectErr: a wanted `>` is a template close *)
Definition expect_err (k : tk) : parser unit :=
  fun s => if check k s then Ok tt (adv s)
           else if tk_eqb k TkGreater then expect_template_close s
           else Err (PErr (EExpected k) (cur_idx s)) s.
Definition expect_semicolon : parser unit :=
  fun s => if infor s then Ok tt s else expect_err TkSemicolon s.
(* expectErr whose error is appended to p.errors instead of being returned (attributes()) *)
Definition expect_record (k : tk) : parser unit :=
  fun s => match expect_err k s with Err e s' => Ok tt (add_err e s') | r => r end.

(* ---- token classes *)
Definition is_type_keyword (k : tk) : bool :=
  match k with
  | TkBool | TkF16 | TkF32 | TkF64 | TkI32 | TkI64 | TkU32 | TkU64
  | TkVec2 | TkVec3 | TkVec4
  | TkMat2x2 | TkMat2x3 | TkMat2x4 | TkMat3x2 | TkMat3x3 | TkMat3x4 | TkMat4x2 | TkMat4x3 | TkMat4x4
  | TkArray | TkAtomic | TkPtr
  | TkSampler | TkSamplerComparison
  | TkTexture1d | TkTexture2d | TkTexture2dArray | TkTexture3d
  | TkTextureCube | TkTextureCubeArray | TkTextureMultisampled2d
  | TkTextureStorage1d | TkTextureStorage2d | TkTextureStorage2dArray | TkTextureStorage3d
  | TkTextureDepth2d | TkTextureDepth2dArray | TkTextureDepthCube
  | TkTextureDepthCubeArray | TkTextureDepthMultisampled2d => true
  | _ => false
  end.
Definition is_assign_op (k : tk) : bool :=
  match k with
  | TkEqual | TkPlusEqual | TkMinusEqual | TkStarEqual | TkSlashEqual | TkPercentEqual | TkAmpEqual
  | TkPipeEqual | TkCaretEqual | TkLessLessEqual | TkGreaterGreaterEqual => true
  | _ => false
  end.
Definition is_sync_kw (k : tk) : bool :=
  match k with TkFn | TkStruct | TkVar | TkConst | TkLet | TkAlias => true | _ => false end.
Definition is_unary_op (k : tk) : bool :=
  match k with TkMinus | TkBang | TkTilde | TkAmpersand | TkStar => true | _ => false end.
Definition is_oror k := tk_eqb k TkPipePipe.
Definition is_andand k := tk_eqb k TkAmpAmp.
Definition is_pipe k := tk_eqb k TkPipe.
Definition is_caret k := tk_eqb k TkCaret.
Definition is_amp k := tk_eqb k TkAmpersand.
Definition is_eqop k := tk_eqb k TkEqualEqual || tk_eqb k TkBangEqual.
Definition is_cmp k := tk_eqb k TkLess || tk_eqb k TkGreater || tk_eqb k TkLessEqual || tk_eqb k TkGreaterEqual.
Definition is_shift k := tk_eqb k TkLessLess || tk_eqb k TkGreaterGreater.
Definition is_shl k := tk_eqb k TkLessLess.
Definition is_add k := tk_eqb k TkPlus || tk_eqb k TkMinus.
Definition is_mul k := tk_eqb k TkStar || tk_eqb k TkSlash || tk_eqb k TkPercent.
Definition is_numlit (t : token) := tk_eqb (tkind t) TkIntLiteral || tk_eqb (tkind t) TkFloatLiteral.
Definition is_boollit (t : token) :=
  tk_eqb (tkind t) TkTrue || tk_eqb (tkind t) TkFalse || tk_eqb (tkind t) TkBoolLiteral.
Definition is_ident (t : token) := kind_is TkIdent t.
Definition is_named_ident (name : string) (t : token) := kind_is TkIdent t && String.eqb (tlex t) name.
Definition is_type_name (t : token) := is_type_keyword (tkind t) || kind_is TkIdent t.
Definition is_attr_name (t : token) := kind_is TkIdent t || kind_is TkDiagnostic t.
Definition is_incdec (t : token) := kind_is TkPlusPlus t || kind_is TkMinusMinus t.
Definition is_alpha_us (c : ascii) : bool :=
  let n := nat_of_ascii c in
  Nat.eqb n 95 || (Nat.leb 97 n && Nat.leb n 122) || (Nat.leb 65 n && Nat.leb n 90).
Definition is_directive_name (t : token) : bool :=                                       (* isDirectiveName *)
  match tlex t with String c _ => is_alpha_us c | EmptyString => false end.

(* ---- loops shared by several productions *)

(* for !check(close) && !isAtEnd() { x := item(); append; if !match(',') { break } } *)
Fixpoint sep_loop {A} (k : nat) (close : tk) (item : parser A) : parser (list A) :=
  match k with
  | 0 => oof
  | S k' => fun s =>
      if check close s || at_end s then Ok [] s
      else (do x <- item ;;
            if_match TkComma (do rest <- sep_loop k' close item ;; ret (x :: rest)) (ret [x])) s
  end.
Definition sep_list {A} (close : tk) (item : parser A) : parser (list A) :=
  with_fuel (fun k => sep_loop k close item).

(* for !check(stop1) && ... && !isAtEnd() { x := item(); append } *)
Definition any_check (stops : list tk) (s : pstate) : bool := existsb (fun k => check k s) stops.
Fixpoint many_loop {A} (k : nat) (stops : list tk) (item : parser A) : parser (list A) :=
  match k with
  | 0 => oof
  | S k' => fun s =>
      if any_check stops s || at_end s then Ok [] s
      else (do x <- item ;; do rest <- many_loop k' stops item ;; ret (x :: rest)) s
  end.
Definition many_until {A} (stops : list tk) (item : parser A) : parser (list A) :=
  with_fuel (fun k => many_loop k stops item).

(* left := sub(); for check(op...) { op := advance(); right := sub(); left = Binary{left, op, right} } *)
Fixpoint binloop (k : nat) (isop : tk -> bool) (sub : parser expr) (left : expr) : parser expr :=
  match k with
  | 0 => oof
  | S k' => if_tok (fun t => isop (tkind t))
              (fun op => do right <- sub ;; binloop k' isop sub (EBinary left (tkind op) right))
              (ret left)
  end.
Definition binlevel (isop : tk -> bool) (sub : parser expr) : parser expr :=
  do left <- sub ;; with_fuel (fun k => binloop k isop sub left).

(* ================================================================ expressions and types *)
Section Expr.
  (* p.expression(), p.typeSpec(), p.templateArgExpr(), p.primary() with one unit of fuel less;
     every use is preceded by the consumption of a token *)
  Context (E : parser expr) (T : parser ty) (TA : parser expr) (P : parser expr).

  Definition opt_ident : parser string := if_tok is_ident (fun t => ret (tlex t)) (ret "").

  (* array< elem [, size [,]] > : the part after the element type *)
  Definition array_size : parser (option expr) :=
    if_match TkComma
      (if_check TkGreater (ret None)
         (do sz <- TA ;; do _ <- matchp TkComma ;; ret (Some sz)))
      (ret None).

  Definition typeSpec_body : parser ty :=                                                (* typeSpec *)
    if_match TkArray
      (if_match TkLess
         (do elem <- T ;; do size <- array_size ;; do _ <- expect_template_close ;; ret (TyArray elem size))
         (ret (TyNamed "array" [])))
    (if_tok (is_named_ident "binding_array")
      (fun _ =>
         do _ <- expect_err TkLess ;; do elem <- T ;;
         do size <- if_match TkComma (do sz <- P ;; ret (Some sz)) (ret None) ;;
         do _ <- expect_err TkGreater ;; ret (TyBindingArray elem size))
    (if_match TkPtr
      (do _ <- expect_err TkLess ;; do sp <- take TkIdent EAddressSpace ;; do _ <- expect_err TkComma ;;
       do pt <- T ;; do acc <- if_match TkComma opt_ident (ret "") ;;
       do _ <- expect_err TkGreater ;; ret (TyPtr (tlex sp) pt acc))
    (if_tok is_type_name
      (fun name =>
         do ps <- if_match TkLess (do ps <- sep_list TkGreater T ;; do _ <- expect_silent TkGreater ;; ret ps) (ret []) ;;
         ret (TyNamed (tlex name) ps))
      (fail EType)))).

  Section WithTypeSpec.
    Context (TB : parser ty).   (* p.typeSpec() at the SAME fuel: called by primary() without consuming *)

    Definition call_args : parser (list expr) :=
      do args <- sep_list TkRightParen E ;; do _ <- expect_err TkRightParen ;; ret args.

    Definition primary_body : parser expr :=                                             (* primary *)
      if_tok is_numlit (fun t => ret (ELit (tkind t) (tlex t)))
      (if_tok is_boollit (fun t => ret (ELit TkBoolLiteral (tlex t)))
      (if_tok (is_named_ident "bitcast")
         (fun _ => do _ <- expect_err TkLess ;; do t <- T ;; do _ <- expect_err TkGreater ;;
                   do _ <- expect_err TkLeftParen ;; do arg <- E ;; do _ <- matchp TkComma ;;
                   do _ <- expect_err TkRightParen ;; ret (EBitcast t arg))
      (if_tok is_ident (fun t => ret (EIdent (tlex t)))
      (if_match TkLeftParen (do e <- E ;; do _ <- expect_err TkRightParen ;; ret e)
      (if_peek (fun t => is_type_keyword (tkind t)) (do t <- TB ;; ret (EConstruct t []))
         (fail EUnexpectedExpr)))))).

    (* `expr(args)`: a call if expr is an identifier, constructor arguments if it is a type
       constructor, otherwise the arguments are parsed and DROPPED (postfix(), lines 1684-1694) *)
    Definition apply_call (e : expr) (args : list expr) : expr :=
      match e with
      | EIdent f => ECall f args
      | EConstruct t _ => EConstruct t args
      | _ => e
      end.

    Fixpoint postfix_loop (k : nat) (e : expr) : parser expr :=
      match k with
      | 0 => oof
      | S k' =>
          if_match TkLeftParen (do args <- call_args ;; postfix_loop k' (apply_call e args))
          (if_match TkLeftBracket
             (do i <- E ;; do _ <- expect_err TkRightBracket ;; postfix_loop k' (EIndex e i))
          (if_match TkDot (do m <- take TkIdent EMemberName ;; postfix_loop k' (EMember e (tlex m)))
          (ret e)))
      end.
    Definition postfix : parser expr := do e <- primary_body ;; with_fuel (fun k => postfix_loop k e).

    Fixpoint unary_loop (k : nat) : parser expr :=                                       (* unary *)
      match k with
      | 0 => oof
      | S k' => if_tok (fun t => is_unary_op (tkind t))
                  (fun op => do operand <- unary_loop k' ;; ret (EUnary (tkind op) operand))
                  postfix
      end.
    Definition unary : parser expr := with_fuel unary_loop.

    Definition multiplicative := binlevel is_mul unary.
    Definition additive := binlevel is_add multiplicative.
    Definition shift := binlevel is_shift additive.
    Definition comparison := binlevel is_cmp shift.
    Definition equality := binlevel is_eqop comparison.
    Definition bitwiseAnd := binlevel is_amp equality.
    Definition bitwiseXor := binlevel is_caret bitwiseAnd.
    Definition bitwiseOr := binlevel is_pipe bitwiseXor.
    Definition logicalAnd := binlevel is_andand bitwiseOr.
    Definition logicalOr := binlevel is_oror logicalAnd.                                 (* expression *)
    Definition templateShift := binlevel is_shl additive.                                (* templateArgExpr *)
  End WithTypeSpec.
End Expr.

(* The four handles at fuel n.  (Each right-hand side is a function of the state, `fun s => ... s`, so that
   the extracted code builds the parsers of the lower fuel levels on demand.) *)
Fixpoint pE (n : nat) : parser expr :=
  match n with
  | 0 => oof
  | S m => fun s => logicalOr (pE m) (pT m) (typeSpec_body (pT m) (pTA m) (pP m)) s
  end
with pT (n : nat) : parser ty :=
  match n with
  | 0 => oof
  | S m => fun s => typeSpec_body (pT m) (pTA m) (pP m) s
  end
with pTA (n : nat) : parser expr :=
  match n with
  | 0 => oof
  | S m => fun s => templateShift (pE m) (pT m) (typeSpec_body (pT m) (pTA m) (pP m)) s
  end
with pP (n : nat) : parser expr :=
  match n with
  | 0 => oof
  | S m => fun s => primary_body (pE m) (pT m) (typeSpec_body (pT m) (pTA m) (pP m)) s
  end.

(* entry points used by statements and declarations *)
Definition expression : parser expr := with_fuel pE.
Definition typeSpec : parser ty := with_fuel pT.

(* ================================================================ statements *)
Definition opt_type : parser (option ty) := if_match TkColon (do t <- typeSpec ;; ret (Some t)) (ret None).
Definition opt_init : parser (option expr) := if_match TkEqual (do e <- expression ;; ret (Some e)) (ret None).

(* varDecl after `var` *)
Definition varDecl_rest (attrs : list attr) : parser vardecl :=
  do sa <- if_match TkLess
          (do sp <- opt_ident ;; do acc <- if_match TkComma opt_ident (ret "") ;;
           do _ <- expect_silent TkGreater ;; ret (sp, acc))
          (ret ("", "")) ;;
  do name <- take TkIdent EVariableName ;;
  do t <- opt_type ;; do init <- opt_init ;; do _ <- expect_semicolon ;;
  ret (mkvar (tlex name) t init (fst sa) (snd sa) attrs).

(* constDecl after `const`, letDecl/letStmt after `let` *)
Definition constDecl_rest (ek : ekind) (isconst : bool) : parser constdecl :=
  do name <- take TkIdent ek ;; do t <- opt_type ;; do _ <- expect_err TkEqual ;;
  do init <- expression ;; do _ <- expect_semicolon ;; ret (mkconst (tlex name) t init isconst).

(* constAssertDecl after `const_assert` *)
Definition constAssert_rest : parser expr :=
  if_match TkLeftParen
    (do c <- expression ;; do _ <- expect_err TkRightParen ;; do _ <- expect_semicolon ;; ret c)
    (do c <- expression ;; do _ <- expect_semicolon ;; ret c).

(* p.inForHeader = true; s, err := p.statement(); p.inForHeader = false *)
Definition in_for_header {A} (p : parser A) : parser A :=
  fun s => match p (set_infor true s) with
           | Ok a s' => Ok a (set_infor false s')
           | Err e s' => Err e (set_infor false s')
           | Oof => Oof
           end.

Definition is_zero (n : nat) : bool := match n with 0 => true | _ => false end.

(* the selector loop of switchCaseClause after `case` *)
Fixpoint case_loop (k : nat) (sels : list expr) (isd df : bool) : parser (list expr * bool * bool) :=
  match k with
  | 0 => oof
  | S k' =>
      let after sels isd df := if_match TkComma (case_loop k' sels isd df) (ret (sels, isd, df)) in
      if_match TkDefault (after sels true (df || is_zero (List.length sels)))
      (if_check TkColon (ret (sels, isd, df))
      (if_check TkLeftBrace (ret (sels, isd, df))
      (do e <- expression ;; after (sels ++ [e])%list isd df)))
  end.

Section Stmt.
  Context (S_ : parser stmt).   (* p.statement() with one unit of fuel less *)

  Definition block_body : parser (list stmt) :=                                          (* block *)
    do _ <- expect_err TkLeftBrace ;; do b <- many_until [TkRightBrace] S_ ;;
    do _ <- expect_err TkRightBrace ;; ret b.

  Definition returnStmt_rest : parser stmt :=
    do v <- if_check TkSemicolon (ret None)
           (if_check TkRightBrace (ret None) (do e <- expression ;; ret (Some e))) ;;
    do _ <- expect_semicolon ;; ret (SReturn v).

  Definition ifStmt_rest : parser stmt :=
    do c <- expression ;; do body <- block_body ;;
    do els <- if_match TkElse
             (if_check TkIf (do s <- S_ ;; ret (Some s)) (do b <- block_body ;; ret (Some (SBlock b))))
             (ret None) ;;
    ret (SIf c body els).

  Definition forStmt_rest : parser stmt :=
    do _ <- expect_err TkLeftParen ;;
    do init <- if_check TkSemicolon (ret None) (do s <- in_for_header S_ ;; ret (Some s)) ;;
    do _ <- expect_err TkSemicolon ;;
    do cond <- if_check TkSemicolon (ret None) (do e <- expression ;; ret (Some e)) ;;
    do _ <- expect_err TkSemicolon ;;
    do upd <- if_check TkRightParen (ret None) (do s <- in_for_header S_ ;; ret (Some s)) ;;
    do _ <- expect_err TkRightParen ;;
    do body <- block_body ;; ret (SFor init cond upd body).

  Definition whileStmt_rest : parser stmt :=
    do c <- expression ;; do body <- block_body ;; ret (SWhile c body).

  Definition loopStmt_rest : parser stmt :=
    do _ <- expect_err TkLeftBrace ;;
    do body <- many_until [TkRightBrace; TkContinuing] S_ ;;
    do cont <- if_match TkContinuing (do b <- block_body ;; ret (Some b)) (ret None) ;;
    do _ <- expect_err TkRightBrace ;; ret (SLoop body cont).

  Definition switchCaseClause : parser scase :=
    do hd <- if_match TkDefault (ret ([], true, false))
            (if_match TkCase (with_fuel (fun k => case_loop k [] false false))
               (fail ECaseOrDefault)) ;;
    do _ <- matchp TkColon ;;
    do body <- block_body ;;
    ret (SCase (fst (fst hd)) (snd (fst hd)) (snd hd) body).

  Definition switchStmt_rest : parser stmt :=
    do sel <- expression ;; do _ <- expect_err TkLeftBrace ;;
    do cases <- many_until [TkRightBrace] switchCaseClause ;;
    do _ <- expect_err TkRightBrace ;; ret (SSwitch sel cases).

  Definition breakStmt_rest : parser stmt :=
    if_match TkIf (do c <- expression ;; do _ <- expect_semicolon ;; ret (SBreakIf c))
                  (do _ <- expect_semicolon ;; ret SBreak).

  Definition exprOrAssignStmt : parser stmt :=
    do e <- expression ;;
    if_tok is_incdec
      (fun t => do _ <- expect_semicolon ;;
                ret (SAssign e (if kind_is TkMinusMinus t then TkMinusEqual else TkPlusEqual)
                             (ELit TkIntLiteral "1")))
    (if_tok (fun t => is_assign_op (tkind t))
      (fun op => do r <- expression ;; do _ <- expect_semicolon ;; ret (SAssign e (tkind op) r))
      (do _ <- expect_semicolon ;; ret (SExpr e))).

  Definition statement_body : parser stmt :=                                             (* statement *)
    if_match TkReturn returnStmt_rest
    (if_match TkIf ifStmt_rest
    (if_match TkFor forStmt_rest
    (if_match TkWhile whileStmt_rest
    (if_match TkLoop loopStmt_rest
    (if_match TkBreak breakStmt_rest
    (if_match TkContinue (do _ <- expect_semicolon ;; ret SContinue)
    (if_match TkDiscard (do _ <- expect_semicolon ;; ret SDiscard)
    (if_match TkSwitch switchStmt_rest
    (if_match TkVar (do v <- varDecl_rest [] ;; ret (SVar v))
    (if_match TkLet (do c <- constDecl_rest EVariableName false ;; ret (SConst c))
    (if_match TkConst (do c <- constDecl_rest EConstName true ;; ret (SConst c))
    (if_match TkConstAssert (do c <- constAssert_rest ;; ret (SConstAssert c))
    (if_check TkLeftBrace (do b <- block_body ;; ret (SBlock b))
    exprOrAssignStmt))))))))))))).
End Stmt.

Fixpoint stmt_n (n : nat) : parser stmt :=
  match n with 0 => oof | S m => fun s => statement_body (stmt_n m) s end.
Definition statement : parser stmt := with_fuel stmt_n.
Definition block : parser (list stmt) := block_body statement.

(* ================================================================ attributes and declarations *)

(* the argument loop of attributes(): an expression error ends the loop and is DROPPED *)
Fixpoint attr_args_loop (k : nat) : parser (list expr) :=
  match k with
  | 0 => oof
  | S k' => fun s =>
      if check TkRightParen s || at_end s then Ok [] s
      else match expression s with
           | Ok x s1 => if_match TkComma (do rest <- attr_args_loop k' ;; ret (x :: rest)) (ret [x]) s1
           | Err _ s1 => Ok [] s1
           | Oof => Oof
           end
  end.

Fixpoint attr_loop (k : nat) : parser (list attr) :=                                     (* attributes *)
  match k with
  | 0 => oof
  | S k' =>
      if_match TkAt
        (if_tok is_attr_name
           (fun name =>
              do args <- if_match TkLeftParen
                        (do a <- with_fuel attr_args_loop ;; do _ <- expect_record TkRightParen ;; ret a)
                        (ret []) ;;
              do rest <- attr_loop k' ;; ret (mkattr (tlex name) args :: rest))
           (attr_loop k'))
        (ret [])
  end.
Definition attributes : parser (list attr) := with_fuel attr_loop.

Definition param_p : parser param :=                                                     (* parameter *)
  do attrs <- attributes ;; do name <- take TkIdent EParamName ;; do _ <- expect_err TkColon ;;
  do t <- typeSpec ;; ret (mkparam (tlex name) t attrs).

Definition structMember : parser member :=
  do attrs <- attributes ;; do name <- take TkIdent EMemberName ;; do _ <- expect_err TkColon ;;
  do t <- typeSpec ;; ret (mkmember (tlex name) t attrs).

Definition functionDecl_rest (attrs : list attr) : parser decl :=
  do name <- take TkIdent EFunctionName ;; do _ <- expect_err TkLeftParen ;;
  do params <- sep_list TkRightParen param_p ;; do _ <- expect_err TkRightParen ;;
  do rt <- if_match TkArrow (do ra <- attributes ;; do t <- typeSpec ;; ret (Some t, ra)) (ret (None, [])) ;;
  do body <- block ;;
  ret (DFunction (tlex name) params (fst rt) (snd rt) attrs body).

Definition structDecl_rest : parser decl :=
  do name <- take TkIdent EStructName ;; do _ <- expect_err TkLeftBrace ;;
  do ms <- many_until [TkRightBrace] (do m <- structMember ;; do _ <- matchp TkComma ;; ret m) ;;
  do _ <- expect_err TkRightBrace ;; ret (DStruct (tlex name) ms).

Definition overrideDecl_rest (attrs : list attr) : parser decl :=
  do name <- take TkIdent EOverrideName ;; do t <- opt_type ;; do init <- opt_init ;;
  do _ <- expect_semicolon ;; ret (DOverride (tlex name) t init attrs).

Definition aliasDecl_rest : parser decl :=
  do name <- take TkIdent EAliasName ;; do _ <- expect_err TkEqual ;; do t <- typeSpec ;;
  do _ <- expect_semicolon ;; ret (DAlias (tlex name) t).

(* enable name (, name)* ,? ;   after `enable` *)
Fixpoint enable_loop (k : nat) : parser unit :=
  match k with
  | 0 => oof
  | S k' => if_tok is_directive_name
              (fun _ => if_match TkComma (if_check TkSemicolon (ret tt) (enable_loop k')) (ret tt))
              (fail EExtensionName)
  end.
Definition enable_rest : parser unit := do _ <- with_fuel enable_loop ;; expect_err TkSemicolon.

(* diagnostic ( severity , rule (. name)? ,? ) ;   after `diagnostic` *)
Definition diagnostic_rest : parser unit :=
  do _ <- expect_err TkLeftParen ;; do _ <- take_pred is_directive_name ESeverityName ;;
  do _ <- expect_err TkComma ;; do _ <- take_pred is_directive_name ERuleName ;;
  do _ <- if_match TkDot (do _ <- take_pred is_directive_name ERuleName ;; ret tt) (ret tt) ;;
  do _ <- matchp TkComma ;; do _ <- expect_err TkRightParen ;; expect_err TkSemicolon.

Definition declaration : parser (option decl) :=
  do attrs <- attributes ;;
  if_match TkFn (do d <- functionDecl_rest attrs ;; ret (Some d))
  (if_match TkStruct (do d <- structDecl_rest ;; ret (Some d))
  (if_match TkVar (do v <- varDecl_rest attrs ;; ret (Some (DVar v)))
  (if_match TkConst (do c <- constDecl_rest EConstName true ;; ret (Some (DConst c)))
  (if_match TkLet (do c <- constDecl_rest EVariableName false ;; ret (Some (DConst c)))
  (if_match TkAlias (do d <- aliasDecl_rest ;; ret (Some d))
  (if_match TkConstAssert (do c <- constAssert_rest ;; ret (Some (DConstAssert c)))
  (if_match TkEnable (do _ <- enable_rest ;; ret None)
  (if_match TkDiagnostic (do _ <- diagnostic_rest ;; ret None)
  (if_match TkOverride (do d <- overrideDecl_rest attrs ;; ret (Some d))
  (fail EUnexpectedDecl)))))))))).

(* ---- error recovery and the top-level loop (Parse) *)
Fixpoint sync_loop (prev : tk) (l : list token) : list token :=
  match l with
  | [] => []
  | t :: l' =>
      if tk_eqb (tkind t) TkEOF then l
      else if tk_eqb prev TkSemicolon then l
      else if is_sync_kw (tkind t) then l
      else sync_loop (tkind t) l'
  end.
Definition synchronize (s : pstate) : pstate :=
  if at_end s then s
  else match toks s with
       | [] => s
       | t :: l' => set_toks (sync_loop (tkind t) l') s
       end.

Fixpoint drop_semis (l : list token) : list token :=                   (* for p.match(TokenSemicolon) {} *)
  match l with
  | t :: l' => if tk_eqb (tkind t) TkSemicolon then drop_semis l' else l
  | [] => []
  end.
Definition skip_semis (s : pstate) : pstate := set_toks (drop_semis (toks s)) s.

Fixpoint parse_loop (k : nat) : parser (list decl) :=
  match k with
  | 0 => oof
  | S k' => fun s =>
      let s1 := skip_semis s in
      if at_end s1 then Ok [] s1
      else match declaration s1 with
           | Ok (Some d) s2 => (do ds <- parse_loop k' ;; ret (d :: ds)) s2
           | Ok None s2 => parse_loop k' s2
           | Err e s2 =>
               let s3 := synchronize (add_err e s2) in
               (* `for !p.isAtEnd()`: at the end of input the loop is left, otherwise it goes round *)
               if at_end s3 then Ok [] s3 else parse_loop k' s3
           | Oof => Oof
           end
  end.

Definition init_state (ts : list token) : pstate := mkst ts (List.length ts) [] false.

Inductive parse_result :=
| Parsed (ds : list decl) (errors : list perr)   (* Parse(): module and p.errors (error iff non-empty) *)
| OutOfFuel.

Definition parse (ts : list token) : parse_result :=
  match with_fuel parse_loop (init_state ts) with
  | Ok ds s => Parsed ds (errs s)
  | Err e s => Parsed [] (errs s ++ [e])%list    (* unreachable: parse_loop returns no Err *)
  | Oof => OutOfFuel
  end.
