(* C19 at the parser: token renderings of an expression and the parser's answer on them.

   `prints d e ts`  :  ts is a rendering of the expression e in a position of precedence depth d
   (0 = `||` ... 9 = `* / %`, 10 = unary, 11 = postfix), where
     - a binary operator of level d joins a left part of depth d and a right part of depth d+1
       (left associative chain), tighter sub-expressions need nothing,
     - ANY sub-expression may be wrapped in parentheses, any number of times (PR_paren),
     - call arguments are separated by commas, with or without a trailing comma (AL_cons + AL_nil).
   Theorem parse_prints: the parser maps every rendering of e (followed by any token that cannot continue
   an expression of that depth) to exactly e.  Hence redundant parentheses and trailing commas do not
   change the AST, and the canonical printer `render` (parentheses only where the precedence requires
   them) is inverted by the parser: precedence and associativity are as the tree says.

   Fragment: identifiers, literals, unary and binary operators, calls f(args), indexing, member access,
   parentheses.  Not covered: type constructors and bitcast (they go through typeSpec and the
   template-close splitting). *)
From Coq Require Import List String NArith Bool Arith Lia.
Import ListNotations.
Require Import Naga.Parse.Ast Naga.Parse.TkFacts Naga.Parse.ParserModel Naga.Parse.ParserProofs.
Open Scope list_scope.
Open Scope nat_scope.

(* ---- operator levels *)
Definition level_of (k : tk) : option nat :=
  match k with
  | TkPipePipe => Some 0
  | TkAmpAmp => Some 1
  | TkPipe => Some 2
  | TkCaret => Some 3
  | TkAmpersand => Some 4
  | TkEqualEqual | TkBangEqual => Some 5
  | TkLess | TkGreater | TkLessEqual | TkGreaterEqual => Some 6
  | TkLessLess | TkGreaterGreater => Some 7
  | TkPlus | TkMinus => Some 8
  | TkStar | TkSlash | TkPercent => Some 9
  | _ => None
  end.
Definition isop (d : nat) (k : tk) : bool :=
  match level_of k with Some d' => Nat.eqb d d' | None => false end.

Fixpoint lv (j d : nat) (U : parser expr) : parser expr :=
  match j with 0 => U | S j' => binlevel (isop d) (lv j' (S d) U) end.

Lemma binloop_ext : forall f g, (forall k, f k = g k) ->
  forall n sub1 sub2, (forall s, sub1 s = sub2 s) -> forall l s, binloop n f sub1 l s = binloop n g sub2 l s.
Proof.
  intros f g Hfg n. induction n as [|n IH]; intros sub1 sub2 Hs l s; [reflexivity|].
  cbn [binloop]. unfold if_tok. rewrite Hfg.
  destruct (negb (at_end s) && g (tkind (peek s))); [|reflexivity].
  unfold bind. rewrite Hs. destruct (sub2 (adv s)); try reflexivity. apply IH. exact Hs.
Qed.

Lemma binlevel_ext : forall f g sub1 sub2, (forall k, f k = g k) -> (forall s, sub1 s = sub2 s) ->
  forall s, binlevel f sub1 s = binlevel g sub2 s.
Proof.
  intros f g sub1 sub2 Hfg Hs s. unfold binlevel, bind, with_fuel. rewrite Hs.
  destruct (sub2 s); try reflexivity. apply binloop_ext; assumption.
Qed.

Lemma is_oror_isop : forall k, is_oror k = isop 0 k. Proof. destruct k; reflexivity. Qed.
Lemma is_andand_isop : forall k, is_andand k = isop 1 k. Proof. destruct k; reflexivity. Qed.
Lemma is_pipe_isop : forall k, is_pipe k = isop 2 k. Proof. destruct k; reflexivity. Qed.
Lemma is_caret_isop : forall k, is_caret k = isop 3 k. Proof. destruct k; reflexivity. Qed.
Lemma is_amp_isop : forall k, is_amp k = isop 4 k. Proof. destruct k; reflexivity. Qed.
Lemma is_eqop_isop : forall k, is_eqop k = isop 5 k. Proof. destruct k; reflexivity. Qed.
Lemma is_cmp_isop : forall k, is_cmp k = isop 6 k. Proof. destruct k; reflexivity. Qed.
Lemma is_shift_isop : forall k, is_shift k = isop 7 k. Proof. destruct k; reflexivity. Qed.
Lemma is_add_isop : forall k, is_add k = isop 8 k. Proof. destruct k; reflexivity. Qed.
Lemma is_mul_isop : forall k, is_mul k = isop 9 k. Proof. destruct k; reflexivity. Qed.

(* the precedence chain of the model is the generic chain over the level table *)
Lemma logicalOr_lv : forall E T TB s, logicalOr E T TB s = lv 10 0 (unary E T TB) s.
Proof.
  intros. unfold logicalOr, logicalAnd, bitwiseOr, bitwiseXor, bitwiseAnd, equality, comparison, shift, additive, multiplicative.
  cbn [lv].
  apply binlevel_ext; [apply is_oror_isop|intros].
  apply binlevel_ext; [apply is_andand_isop|intros].
  apply binlevel_ext; [apply is_pipe_isop|intros].
  apply binlevel_ext; [apply is_caret_isop|intros].
  apply binlevel_ext; [apply is_amp_isop|intros].
  apply binlevel_ext; [apply is_eqop_isop|intros].
  apply binlevel_ext; [apply is_cmp_isop|intros].
  apply binlevel_ext; [apply is_shift_isop|intros].
  apply binlevel_ext; [apply is_add_isop|intros].
  apply binlevel_ext; [apply is_mul_isop|intros]. reflexivity.
Qed.

(* ---- what may follow a complete expression of depth d *)
Definition hd_kind (l : list token) : tk := match l with [] => TkEOF | t :: _ => tkind t end.
Definition no_postfix (k : tk) : bool :=
  negb (tk_eqb k TkLeftParen || tk_eqb k TkLeftBracket || tk_eqb k TkDot).
Definition follow (d : nat) (rest : list token) : Prop :=
  (forall d', d <= d' -> isop d' (hd_kind rest) = false) /\ no_postfix (hd_kind rest) = true.

Definition starts_expr (t : token) : bool :=
  is_numlit t || is_boollit t || is_ident t || kind_is TkLeftParen t || is_unary_op (tkind t).

(* ---- renderings *)
Inductive prints : nat -> expr -> list token -> Prop :=
| P_bin : forall d e0 t0 e ts, d <= 9 -> prints (S d) e0 t0 -> btail d e0 e ts -> prints d e (t0 ++ ts)
| P_un_op : forall op e ts, is_unary_op (tkind op) = true -> prints 10 e ts ->
    prints 10 (EUnary (tkind op) e) (op :: ts)
| P_un_post : forall e ts, prints 11 e ts -> prints 10 e ts
| P_post : forall e0 t0 e ts, prim e0 t0 -> ptail e0 e ts -> prints 11 e (t0 ++ ts)
with btail : nat -> expr -> expr -> list token -> Prop :=
| BT_nil : forall d acc, btail d acc acc []
| BT_cons : forall d acc op r tr e ts, isop d (tkind op) = true -> prints (S d) r tr ->
    btail d (EBinary acc (tkind op) r) e ts -> btail d acc e (op :: tr ++ ts)
with prim : expr -> list token -> Prop :=
| PR_num : forall t, is_numlit t = true -> prim (ELit (tkind t) (tlex t)) [t]
| PR_bool : forall t, is_boollit t = true -> prim (ELit TkBoolLiteral (tlex t)) [t]
| PR_ident : forall t, is_ident t = true -> String.eqb (tlex t) "bitcast" = false -> prim (EIdent (tlex t)) [t]
| PR_paren : forall lp rp e ts, tkind lp = TkLeftParen -> tkind rp = TkRightParen -> prints 0 e ts ->
    prim e (lp :: ts ++ [rp])
with ptail : expr -> expr -> list token -> Prop :=
| PT_nil : forall acc, ptail acc acc []
| PT_call : forall f lp args ta rp e ts, tkind lp = TkLeftParen -> tkind rp = TkRightParen ->
    alist args ta -> ptail (ECall f args) e ts -> ptail (EIdent f) e (lp :: ta ++ rp :: ts)
| PT_index : forall acc lb i ti rb e ts, tkind lb = TkLeftBracket -> tkind rb = TkRightBracket ->
    prints 0 i ti -> ptail (EIndex acc i) e ts -> ptail acc e (lb :: ti ++ rb :: ts)
| PT_member : forall acc dot m e ts, tkind dot = TkDot -> is_ident m = true ->
    ptail (EMember acc (tlex m)) e ts -> ptail acc e (dot :: m :: ts)
with alist : list expr -> list token -> Prop :=
| AL_nil : alist [] []
| AL_one : forall a ta, prints 0 a ta -> alist [a] ta
| AL_cons : forall a ta c l tl, tkind c = TkComma -> prints 0 a ta -> alist l tl -> alist (a :: l) (ta ++ c :: tl).

Scheme prints_ind' := Minimality for prints Sort Prop
  with btail_ind' := Minimality for btail Sort Prop
  with prim_ind' := Minimality for prim Sort Prop
  with ptail_ind' := Minimality for ptail Sort Prop
  with alist_ind' := Minimality for alist Sort Prop.
Combined Scheme prints_mutind from prints_ind', btail_ind', prim_ind', ptail_ind', alist_ind'.

(* ---- facts about the token classes *)
Lemma isop_level : forall d k, isop d k = true -> level_of k = Some d.
Proof.
  unfold isop. intros d k H. destruct (level_of k) as [d'|]; [|discriminate].
  apply Nat.eqb_eq in H. congruence.
Qed.
Lemma isop_other : forall d d' k, isop d k = true -> d <> d' -> isop d' k = false.
Proof.
  intros d d' k H Hne. apply isop_level in H. unfold isop. rewrite H. apply Nat.eqb_neq. congruence.
Qed.
Lemma isop_no_postfix : forall d k, isop d k = true -> no_postfix k = true.
Proof. intros d k H. apply isop_level in H. destruct k; try discriminate; reflexivity. Qed.
Lemma isop_not_eof : forall d k, isop d k = true -> tk_eqb k TkEOF = false.
Proof. intros d k H. apply isop_level in H. destruct k; try discriminate; reflexivity. Qed.
Lemma unary_not_eof : forall k, is_unary_op k = true -> tk_eqb k TkEOF = false.
Proof. destruct k; try discriminate; reflexivity. Qed.

Lemma kind_is_eq : forall k t, kind_is k t = true -> tkind t = k.
Proof. intros k t H. apply tk_eqb_eq in H. exact H. Qed.

(* the first token of a rendering starts an expression *)
Lemma starts_expr_facts : forall t, starts_expr t = true ->
  tk_eqb (tkind t) TkEOF = false /\ tk_eqb (tkind t) TkRightParen = false.
Proof.
  intros t H. unfold starts_expr, is_numlit, is_boollit, is_ident, kind_is in H.
  destruct (tkind t); try discriminate; split; reflexivity.
Qed.

Lemma prints_first_all :
  (forall d e ts, prints d e ts -> exists t l, ts = t :: l /\ starts_expr t = true) /\
  (forall d acc e ts, btail d acc e ts -> True) /\
  (forall e ts, prim e ts -> exists t l, ts = t :: l /\ starts_expr t = true /\ is_unary_op (tkind t) = false) /\
  (forall acc e ts, ptail acc e ts -> True) /\
  (forall args ts, alist args ts -> True).
Proof.
  apply prints_mutind; intros; auto.
  - destruct H1 as [t [l [-> Hs]]]. exists t, (l ++ ts). split; [reflexivity|exact Hs].
  - exists op, ts. split; [reflexivity|]. unfold starts_expr. rewrite H. repeat rewrite orb_true_r. reflexivity.
  - destruct H0 as [t [l [-> [Hs _]]]]. exists t, (l ++ ts). split; [reflexivity|exact Hs].
  - exists t, []. split; [reflexivity|]. unfold starts_expr. rewrite H. split; [reflexivity|].
    unfold is_numlit in H. destruct (tkind t); try discriminate; reflexivity.
  - exists t, []. split; [reflexivity|]. unfold starts_expr. rewrite H. split; [repeat rewrite orb_true_r; reflexivity|].
    unfold is_boollit in H. destruct (tkind t); try discriminate; reflexivity.
  - exists t, []. split; [reflexivity|]. unfold starts_expr. rewrite H. split; [repeat rewrite orb_true_r; reflexivity|].
    apply kind_is_eq in H. rewrite H. reflexivity.
  - exists lp, (ts ++ [rp]). split; [reflexivity|]. unfold starts_expr, kind_is. rewrite H.
    split; [simpl; repeat rewrite orb_true_r; reflexivity|reflexivity].
Qed.

Lemma prints_first : forall d e ts, prints d e ts -> exists t l, ts = t :: l /\ starts_expr t = true.
Proof. apply prints_first_all. Qed.
Lemma prim_first : forall e ts, prim e ts ->
  exists t l, ts = t :: l /\ starts_expr t = true /\ is_unary_op (tkind t) = false.
Proof. apply prints_first_all. Qed.

Lemma prints11_first : forall d e ts, prints d e ts -> d = 11 ->
  exists t l, ts = t :: l /\ is_unary_op (tkind t) = false.
Proof.
  intros d e ts H. destruct H; intros Hd; try lia; try discriminate.
  destruct (prim_first _ _ H) as [t [l [-> [_ Hnu]]]]. exists t, (l ++ ts). split; [reflexivity|exact Hnu].
Qed.

Lemma follow_weaken : forall d rest, follow d rest -> follow (S d) rest.
Proof. intros d rest [H1 H2]. split; [intros d' Hd; apply H1; lia|exact H2]. Qed.

Lemma follow_op : forall d op l, isop d (tkind op) = true -> follow (S d) (op :: l).
Proof.
  intros d op l H. split; simpl.
  - intros d' Hd. eapply isop_other; [exact H|lia].
  - eapply isop_no_postfix; exact H.
Qed.

Lemma btail_follow : forall d acc e ts rest, btail d acc e ts -> follow d rest -> follow (S d) (ts ++ rest).
Proof.
  intros d acc e ts rest H Hf. destruct H.
  - simpl. apply follow_weaken. exact Hf.
  - simpl. apply follow_op. assumption.
Qed.

Lemma follow_kind : forall d rest k, hd_kind rest = k -> level_of k = None -> no_postfix k = true -> follow d rest.
Proof. intros d rest k Hk Hl Hn. split; rewrite Hk; [intros; unfold isop; rewrite Hl; reflexivity|exact Hn]. Qed.

(* ---- running the model on explicit token lists *)
Section Run.
  Variables (N : nat) (er : list perr) (inf : bool).
  Definition st (l : list token) : pstate := mkst l N er inf.

  Lemma at_end_cons : forall t l, at_end (st (t :: l)) = tk_eqb (tkind t) TkEOF.
  Proof. reflexivity. Qed.
  Lemma adv_cons : forall t l, tk_eqb (tkind t) TkEOF = false -> adv (st (t :: l)) = st l.
  Proof. intros t l H. unfold adv. rewrite at_end_cons, H. reflexivity. Qed.
  Lemma check_cons : forall k t l, tk_eqb (tkind t) TkEOF = false -> check k (st (t :: l)) = tk_eqb (tkind t) k.
  Proof. intros k t l H. unfold check. rewrite at_end_cons, H. reflexivity. Qed.
  Lemma check_hd : forall k rest, check k (st rest) = negb (tk_eqb (hd_kind rest) TkEOF) && tk_eqb (hd_kind rest) k.
  Proof. intros k [|t l]; reflexivity. Qed.

  Lemma if_tok_hit : forall A pr (pt : token -> parser A) pe t l,
    pr t = true -> tk_eqb (tkind t) TkEOF = false -> if_tok pr pt pe (st (t :: l)) = pt t (st l).
  Proof.
    intros A pr pt pe t l Hp He. unfold if_tok. rewrite at_end_cons, He. simpl negb. simpl peek at 1.
    change (peek (st (t :: l))) with t. rewrite Hp. simpl. rewrite (adv_cons t l He). reflexivity.
  Qed.
  Lemma if_tok_miss : forall A pr (pt : token -> parser A) pe t l,
    pr t = false -> if_tok pr pt pe (st (t :: l)) = pe (st (t :: l)).
  Proof.
    intros A pr pt pe t l Hp. unfold if_tok. change (peek (st (t :: l))) with t. rewrite Hp, andb_false_r. reflexivity.
  Qed.
  Lemma if_tok_miss_hd : forall A kp (pt : token -> parser A) pe rest,
    kp (hd_kind rest) = false -> if_tok (fun t => kp (tkind t)) pt pe (st rest) = pe (st rest).
  Proof.
    intros A kp pt pe [|t l] H.
    - reflexivity.
    - apply if_tok_miss. exact H.
  Qed.
  Lemma if_match_hit : forall A k (pt pe : parser A) t l,
    tkind t = k -> tk_eqb k TkEOF = false -> if_match k pt pe (st (t :: l)) = pt (st l).
  Proof.
    intros A k pt pe t l Hk He. unfold if_match. rewrite if_tok_hit; [reflexivity| |rewrite Hk; exact He].
    unfold kind_is. rewrite Hk. apply tk_eqb_refl.
  Qed.
  Lemma if_match_miss_hd : forall A k (pt pe : parser A) rest,
    tk_eqb (hd_kind rest) k = false -> if_match k pt pe (st rest) = pe (st rest).
  Proof.
    intros A k pt pe rest H. unfold if_match, kind_is.
    apply (if_tok_miss_hd A (fun x => tk_eqb x k)). exact H.
  Qed.
  Lemma expect_err_hit : forall k t l, tkind t = k -> tk_eqb k TkEOF = false ->
    expect_err k (st (t :: l)) = Ok tt (st l).
  Proof.
    intros k t l Hk He. unfold expect_err. rewrite check_cons by (rewrite Hk; exact He).
    rewrite Hk, tk_eqb_refl. rewrite adv_cons by (rewrite Hk; exact He). reflexivity.
  Qed.
  Lemma bind_ok : forall A B (p : parser A) (f : A -> parser B) s a s', p s = Ok a s' -> bind p f s = f a s'.
  Proof. intros. unfold bind. rewrite H. reflexivity. Qed.
  Lemma with_fuel_st : forall A (f : nat -> parser A) l, with_fuel f (st l) = f (S N) (st l).
  Proof. reflexivity. Qed.
End Run.

(* ---- the parser on renderings *)
Section Main.
  Variables (N : nat) (er : list perr) (inf : bool).
  Notation st := (st N er inf).

  Definition TBn (n : nat) : parser ty := typeSpec_body (pT n) (pTA n) (pP n).
  Definition Un (n : nat) : parser expr := unary (pE n) (pT n) (TBn n).
  (* the parser of depth d at fuel n; k is the counter of the unary loop (only used for d = 10) *)
  Definition LVk (d n k : nat) : parser expr :=
    if d <=? 9 then lv (10 - d) d (Un n)
    else if d =? 10 then unary_loop (pE n) (pT n) (TBn n) k
    else postfix (pE n) (pT n) (TBn n).
  Definition subl (d n : nat) : parser expr := lv (9 - d) (S d) (Un n).

  Lemma pE_S : forall n k s, pE (S n) s = LVk 0 n k s.
  Proof. intros. cbn [pE]. rewrite logicalOr_lv. reflexivity. Qed.

  Lemma LVk_bin : forall d n k, d <= 9 -> LVk d n k = binlevel (isop d) (subl d n).
  Proof.
    intros d n k Hd. unfold LVk, subl. destruct (d <=? 9) eqn:E; [|apply Nat.leb_gt in E; lia].
    replace (10 - d) with (S (9 - d)) by lia. reflexivity.
  Qed.

  Lemma subl_LVk : forall d n l, d <= 9 -> subl d n (st l) = LVk (S d) n (S N) (st l).
  Proof.
    intros d n l Hd. unfold subl, LVk.
    destruct (S d <=? 9) eqn:E.
    - reflexivity.
    - apply Nat.leb_gt in E. assert (d = 9) by lia. subst d. reflexivity.
  Qed.

  Definition P1 (d : nat) (e : expr) (ts : list token) : Prop :=
    forall n rest k, follow d rest -> List.length (ts ++ rest) <= n -> List.length (ts ++ rest) <= N ->
      List.length (ts ++ rest) < k -> LVk d n k (st (ts ++ rest)) = Ok e (st rest).
  Definition P2 (d : nat) (acc e : expr) (ts : list token) : Prop :=
    forall n rest k, follow d rest -> d <= 9 -> List.length (ts ++ rest) <= n -> List.length (ts ++ rest) <= N ->
      List.length (ts ++ rest) < k -> binloop k (isop d) (subl d n) acc (st (ts ++ rest)) = Ok e (st rest).
  Definition P3 (e : expr) (ts : list token) : Prop :=
    forall n rest, List.length (ts ++ rest) <= n -> List.length (ts ++ rest) <= N ->
      primary_body (pE n) (pT n) (TBn n) (st (ts ++ rest)) = Ok e (st rest).
  Definition P4 (acc e : expr) (ts : list token) : Prop :=
    forall n rest k, no_postfix (hd_kind rest) = true -> List.length (ts ++ rest) <= n -> List.length (ts ++ rest) <= N ->
      List.length (ts ++ rest) < k -> postfix_loop (pE n) k acc (st (ts ++ rest)) = Ok e (st rest).
  Definition P5 (args : list expr) (ts : list token) : Prop :=
    forall n rest k, hd_kind rest = TkRightParen -> List.length (ts ++ rest) <= n -> List.length (ts ++ rest) <= N ->
      List.length (ts ++ rest) < k -> sep_loop k TkRightParen (pE (S n)) (st (ts ++ rest)) = Ok args (st rest).

  Lemma no_postfix_split : forall k, no_postfix k = true ->
    tk_eqb k TkLeftParen = false /\ tk_eqb k TkLeftBracket = false /\ tk_eqb k TkDot = false.
  Proof.
    intros k H. unfold no_postfix in H. apply negb_true_iff in H.
    apply orb_false_elim in H. destruct H as [H H3]. apply orb_false_elim in H. tauto.
  Qed.

  Lemma app_len_cons : forall (t : token) l rest, List.length ((t :: l) ++ rest) = S (List.length (l ++ rest)).
  Proof. reflexivity. Qed.

  Ltac lens := repeat (first [rewrite app_length in * | progress cbn [List.length] in *]); lia.

  Theorem parse_prints_all :
    (forall d e ts, prints d e ts -> P1 d e ts) /\
    (forall d acc e ts, btail d acc e ts -> P2 d acc e ts) /\
    (forall e ts, prim e ts -> P3 e ts) /\
    (forall acc e ts, ptail acc e ts -> P4 acc e ts) /\
    (forall args ts, alist args ts -> P5 args ts).
  Proof.
    apply prints_mutind.
    - (* P_bin *)
      intros d e0 t0 e ts Hd Hp0 IH0 Hbt IHt n rest k Hf Hn HN Hk.
      rewrite <- app_assoc in *. rewrite (LVk_bin d n k Hd). unfold binlevel.
      erewrite bind_ok; [|rewrite subl_LVk by exact Hd; apply IH0; [eapply btail_follow; eassumption|assumption|assumption|lens]].
      rewrite with_fuel_st. apply IHt; try assumption; lens.
    - (* P_un_op *)
      intros op e ts Hop Hp IH n rest k Hf Hn HN Hk.
      unfold LVk. simpl (10 <=? 9). simpl (10 =? 10). cbn [app] in *. simpl List.length in *.
      destruct k as [|k]; [lia|]. cbn [unary_loop].
      rewrite (if_tok_hit N er inf _ (fun t => is_unary_op (tkind t))); [|exact Hop|apply unary_not_eof; exact Hop].
      erewrite bind_ok; [reflexivity|].
      specialize (IH n rest k Hf ltac:(lia) ltac:(lia) ltac:(lia)). unfold LVk in IH. exact IH.
    - (* P_un_post *)
      intros e ts Hp IH n rest k Hf Hn HN Hk.
      destruct (prints11_first _ _ _ Hp eq_refl) as [t [l [-> Hnu]]].
      unfold LVk. simpl (10 <=? 9). simpl (10 =? 10). cbn [app] in *.
      destruct k as [|k]; [simpl in Hk; lia|]. cbn [unary_loop].
      rewrite (if_tok_miss N er inf _ (fun t0 => is_unary_op (tkind t0))) by exact Hnu.
      specialize (IH n rest (S k) (follow_weaken _ _ Hf) Hn HN Hk).
      unfold LVk in IH. simpl (11 <=? 9) in IH. simpl (11 =? 10) in IH. exact IH.
    - (* P_post *)
      intros e0 t0 e ts Hpr IH0 Hpt IHt n rest k Hf Hn HN Hk.
      rewrite <- app_assoc in *. unfold LVk. simpl (11 <=? 9). simpl (11 =? 10). unfold postfix.
      erewrite bind_ok; [|apply IH0; assumption].
      rewrite with_fuel_st. apply IHt; [exact (proj2 Hf)| | |]; lens.
    - (* BT_nil *)
      intros d acc n rest k Hf Hd Hn HN Hk. cbn [app] in *.
      destruct k as [|k]; [lia|]. cbn [binloop].
      rewrite (if_tok_miss_hd N er inf _ (isop d)); [reflexivity|apply (proj1 Hf); lia].
    - (* BT_cons *)
      intros d acc op r tr e ts Hop Hpr IHr Hbt IHt n rest k Hf Hd Hn HN Hk.
      cbn [app] in *. rewrite <- app_assoc in *. simpl List.length in *.
      destruct k as [|k]; [lia|]. cbn [binloop].
      rewrite (if_tok_hit N er inf _ (fun t => isop d (tkind t))); [|exact Hop|eapply isop_not_eof; exact Hop].
      erewrite bind_ok; [|rewrite subl_LVk by exact Hd; apply IHr; [eapply btail_follow; eassumption|lens|lens|lens]].
      apply IHt; try assumption; lens.
    - (* PR_num *)
      intros t Hnum n rest Hn HN. cbn [app]. unfold primary_body.
      assert (He : tk_eqb (tkind t) TkEOF = false).
      { unfold is_numlit in Hnum. destruct (tkind t); try discriminate; reflexivity. }
      rewrite (if_tok_hit N er inf _ is_numlit) by assumption. reflexivity.
    - (* PR_bool *)
      intros t Hb n rest Hn HN. cbn [app]. unfold primary_body.
      assert (He : tk_eqb (tkind t) TkEOF = false /\ is_numlit t = false).
      { unfold is_boollit in Hb. unfold is_numlit. destruct (tkind t); try discriminate; split; reflexivity. }
      rewrite (if_tok_miss N er inf _ is_numlit) by apply He.
      rewrite (if_tok_hit N er inf _ is_boollit); [reflexivity|assumption|apply He].
    - (* PR_ident *)
      intros t Hi Hnb n rest Hn HN. cbn [app]. unfold primary_body.
      pose proof (kind_is_eq _ _ Hi) as Hk.
      rewrite (if_tok_miss N er inf _ is_numlit) by (unfold is_numlit; rewrite Hk; reflexivity).
      rewrite (if_tok_miss N er inf _ is_boollit) by (unfold is_boollit; rewrite Hk; reflexivity).
      rewrite (if_tok_miss N er inf _ (is_named_ident "bitcast")) by (unfold is_named_ident; rewrite Hnb; apply andb_false_r).
      rewrite (if_tok_hit N er inf _ is_ident); [reflexivity|exact Hi|rewrite Hk; reflexivity].
    - (* PR_paren *)
      intros lp rp e ts Hlp Hrp Hp IH n rest Hn HN. cbn [app] in *. rewrite <- app_assoc in *. simpl List.length in *.
      unfold primary_body.
      rewrite (if_tok_miss N er inf _ is_numlit) by (unfold is_numlit; rewrite Hlp; reflexivity).
      rewrite (if_tok_miss N er inf _ is_boollit) by (unfold is_boollit; rewrite Hlp; reflexivity).
      rewrite (if_tok_miss N er inf _ (is_named_ident "bitcast")) by (unfold is_named_ident, kind_is; rewrite Hlp; reflexivity).
      rewrite (if_tok_miss N er inf _ is_ident) by (unfold is_ident, kind_is; rewrite Hlp; reflexivity).
      rewrite if_match_hit by (try exact Hlp; reflexivity).
      destruct n as [|n]; [lia|].
      erewrite bind_ok; [|rewrite (pE_S n (S (List.length (ts ++ rp :: rest)))); apply (IH n (rp :: rest));
        [apply (follow_kind 0 _ TkRightParen); [simpl; exact Hrp|reflexivity|reflexivity]|lia|lia|lia]].
      cbn [app]. erewrite bind_ok; [reflexivity|]. apply expect_err_hit; [exact Hrp|reflexivity].
    - (* PT_nil *)
      intros acc n rest k Hnp Hn HN Hk. cbn [app] in *.
      destruct (no_postfix_split _ Hnp) as [H1 [H2 H3]].
      destruct k as [|k]; [lia|]. cbn [postfix_loop].
      rewrite if_match_miss_hd by exact H1. rewrite if_match_miss_hd by exact H2. rewrite if_match_miss_hd by exact H3.
      reflexivity.
    - (* PT_call *)
      intros f lp args ta rp e ts Hlp Hrp Hal IHa Hpt IHt n rest k Hnp Hn HN Hk.
      cbn [app] in *. rewrite <- app_assoc in *. cbn [app] in *. simpl List.length in *.
      destruct k as [|k]; [lia|]. cbn [postfix_loop].
      rewrite if_match_hit by (try exact Hlp; reflexivity).
      destruct n as [|n]; [lia|].
      unfold call_args, sep_list.
      erewrite bind_ok; [|erewrite bind_ok; [|rewrite with_fuel_st; apply (IHa n (rp :: ts ++ rest)); [exact Hrp|lens|lens|lens]]].
      2:{ erewrite bind_ok; [reflexivity|]. apply expect_err_hit; [exact Hrp|reflexivity]. }
      cbn [apply_call]. apply IHt; [exact Hnp|lens|lens|lens].
    - (* PT_index *)
      intros acc lb i ti rb e ts Hlb Hrb Hpi IHi Hpt IHt n rest k Hnp Hn HN Hk.
      cbn [app] in *. rewrite <- app_assoc in *. cbn [app] in *. simpl List.length in *.
      destruct k as [|k]; [lia|]. cbn [postfix_loop].
      rewrite if_match_miss_hd by (simpl; rewrite Hlb; reflexivity).
      rewrite if_match_hit by (try exact Hlb; reflexivity).
      destruct n as [|n]; [lia|].
      erewrite bind_ok; [|rewrite (pE_S n (S (List.length (ti ++ rb :: ts ++ rest)))); apply (IHi n (rb :: ts ++ rest));
        [apply (follow_kind 0 _ TkRightBracket); [simpl; exact Hrb|reflexivity|reflexivity]|lens|lens|lens]].
      erewrite bind_ok; [|apply expect_err_hit; [exact Hrb|reflexivity]].
      apply IHt; [exact Hnp|lens|lens|lens].
    - (* PT_member *)
      intros acc dot m e ts Hdot Hm Hpt IHt n rest k Hnp Hn HN Hk.
      cbn [app] in *. simpl List.length in *.
      destruct k as [|k]; [lia|]. cbn [postfix_loop].
      rewrite if_match_miss_hd by (simpl; rewrite Hdot; reflexivity).
      rewrite if_match_miss_hd by (simpl; rewrite Hdot; reflexivity).
      rewrite if_match_hit by (try exact Hdot; reflexivity).
      pose proof (kind_is_eq _ _ Hm) as Hmk.
      erewrite bind_ok; [|unfold take, take_pred; rewrite if_tok_hit; [reflexivity|exact Hm|rewrite Hmk; reflexivity]].
      apply IHt; [exact Hnp|lens|lens|lens].
    - (* AL_nil *)
      intros n rest k Hrp Hn HN Hk. cbn [app] in *.
      destruct k as [|k]; [lia|]. cbn [sep_loop].
      rewrite check_hd, Hrp. reflexivity.
    - (* AL_one *)
      intros a ta Hp IH n rest k Hrp Hn HN Hk.
      destruct (prints_first _ _ _ Hp) as [t [l [-> Hs]]]. destruct (starts_expr_facts _ Hs) as [Hne Hnr].
      destruct k as [|k]; [cbn [app] in Hk; simpl in Hk; lia|]. cbn [sep_loop].
      cbn [app]. rewrite check_cons by exact Hne. rewrite Hnr. rewrite at_end_cons, Hne. cbn [orb].
      change (t :: l ++ rest) with ((t :: l) ++ rest).
      erewrite bind_ok; [|rewrite (pE_S n (S (List.length ((t :: l) ++ rest)))); apply (IH n rest);
        [apply (follow_kind 0 _ TkRightParen); [exact Hrp|reflexivity|reflexivity]|lens|lens|lens]].
      rewrite if_match_miss_hd by (rewrite Hrp; reflexivity). reflexivity.
    - (* AL_cons *)
      intros a ta c l tl Hc Hp IH Hal IHl n rest k Hrp Hn HN Hk.
      destruct (prints_first _ _ _ Hp) as [t [l0 [-> Hs]]]. destruct (starts_expr_facts _ Hs) as [Hne Hnr].
      rewrite <- app_assoc in *. cbn [app] in *. simpl List.length in *.
      destruct k as [|k]; [lia|]. cbn [sep_loop].
      rewrite check_cons by exact Hne. rewrite Hnr. rewrite at_end_cons, Hne. cbn [orb].
      change (t :: l0 ++ c :: tl ++ rest) with ((t :: l0) ++ c :: tl ++ rest).
      erewrite bind_ok; [|rewrite (pE_S n (S (List.length ((t :: l0) ++ c :: tl ++ rest)))); apply (IH n (c :: tl ++ rest));
        [apply (follow_kind 0 _ TkComma); [simpl; exact Hc|reflexivity|reflexivity]|lens|lens|lens]].
      rewrite if_match_hit by (try exact Hc; reflexivity).
      erewrite bind_ok; [reflexivity|]. apply IHl; [exact Hrp|lens|lens|lens].
  Qed.
End Main.

(* ================================================================ corollaries *)

(* every rendering of e, at an expression position, is parsed to e *)
Theorem parse_prints : forall N er inf e ts rest,
  prints 0 e ts -> follow 0 rest -> List.length (ts ++ rest) <= N ->
  expression (st N er inf (ts ++ rest)) = Ok e (st N er inf rest).
Proof.
  intros N er inf e ts rest Hp Hf HN. unfold expression. rewrite with_fuel_st.
  rewrite (pE_S N (S N)). apply (proj1 (parse_prints_all N er inf) 0 e ts Hp); [exact Hf|exact HN|exact HN|lia].
Qed.

(* a rendering of depth d+1 is a rendering of depth d *)
Lemma prints_step : forall d e ts, prints (S d) e ts -> d <= 10 -> prints d e ts.
Proof.
  intros d e ts H Hd. destruct (Nat.eq_dec d 10) as [->|Hne].
  - apply P_un_post. exact H.
  - rewrite <- (app_nil_r ts). apply (P_bin d e ts e []); [lia|exact H|apply BT_nil].
Qed.

Lemma prints_down : forall d d' e ts, prints d e ts -> d' <= d -> d <= 11 -> prints d' e ts.
Proof.
  intros d d' e ts H Hle Hd. induction Hle as [|d0 Hle IH].
  - exact H.
  - apply IH; [apply prints_step; [exact H|lia]|lia].
Qed.

(* redundant parentheses: a rendering of any depth, wrapped in ( ), is a rendering of every depth *)
Theorem prints_wrap : forall d d' e ts lp rp,
  prints d e ts -> d <= 11 -> d' <= 11 -> tkind lp = TkLeftParen -> tkind rp = TkRightParen ->
  prints d' e (lp :: ts ++ [rp]).
Proof.
  intros d d' e ts lp rp H Hd Hd' Hlp Hrp.
  apply (prints_down 11 d'); [|exact Hd'|lia].
  rewrite <- (app_nil_r (lp :: ts ++ [rp])).
  apply (P_post e (lp :: ts ++ [rp]) e []); [|apply PT_nil].
  apply PR_paren; [exact Hlp|exact Hrp|]. apply (prints_down d 0); [exact H|lia|exact Hd].
Qed.

Theorem redundant_parens_same_ast : forall N er inf e ts rest lp rp,
  prints 0 e ts -> follow 0 rest -> tkind lp = TkLeftParen -> tkind rp = TkRightParen ->
  List.length (lp :: ts ++ rp :: rest) <= N ->
  expression (st N er inf (ts ++ rest)) = Ok e (st N er inf rest) /\
  expression (st N er inf (lp :: ts ++ rp :: rest)) = Ok e (st N er inf rest).
Proof.
  intros N er inf e ts rest lp rp Hp Hf Hlp Hrp HN. split.
  - apply parse_prints; [exact Hp|exact Hf|]. simpl in HN. rewrite app_length in *. simpl in HN. lia.
  - change (lp :: ts ++ rp :: rest) with ((lp :: ts) ++ [rp] ++ rest). rewrite app_assoc.
    apply parse_prints; [|exact Hf|].
    + apply (prints_wrap 0 0 e ts lp rp Hp); try lia; assumption.
    + rewrite <- app_assoc. exact HN.
Qed.

(* trailing comma in a call argument list: `f(a1, ..., an)` and `f(a1, ..., an,)` *)
Fixpoint join (c : token) (l : list (list token)) : list token :=
  match l with
  | [] => []
  | [x] => x
  | x :: l' => x ++ c :: join c l'
  end.

Lemma alist_join : forall c args tas, tkind c = TkComma -> Forall2 (prints 0) args tas -> args <> [] ->
  alist args (join c tas) /\ alist args (join c tas ++ [c]).
Proof.
  intros c args tas Hc H. induction H as [|a ta args' tas' Ha Hrest IH]; intros Hne; [contradiction|].
  destruct Hrest as [|a' ta' args'' tas'' Ha' Hrest'].
  - cbn [join]. split; [apply AL_one; exact Ha|apply AL_cons; [exact Hc|exact Ha|apply AL_nil]].
  - assert (Hne' : a' :: args'' <> []) by discriminate. destruct (IH Hne') as [IH1 IH2].
    change (join c (ta :: ta' :: tas'')) with (ta ++ c :: join c (ta' :: tas'')).
    split.
    + apply AL_cons; [exact Hc|exact Ha|exact IH1].
    + rewrite <- app_assoc. cbn [app]. apply AL_cons; [exact Hc|exact Ha|exact IH2].
Qed.

Lemma prints_call : forall fid lp rp f args ta,
  is_ident fid = true -> tlex fid = f -> String.eqb f "bitcast" = false ->
  tkind lp = TkLeftParen -> tkind rp = TkRightParen -> alist args ta ->
  prints 11 (ECall f args) (fid :: lp :: ta ++ [rp]).
Proof.
  intros fid lp rp f args ta Hid Hf Hnb Hlp Hrp Hal.
  change (fid :: lp :: ta ++ [rp]) with ([fid] ++ (lp :: ta ++ rp :: [])).
  apply (P_post (EIdent f) [fid] (ECall f args)).
  - rewrite <- Hf. apply PR_ident; [exact Hid|rewrite Hf; exact Hnb].
  - apply (PT_call f lp args ta rp (ECall f args) []); [exact Hlp|exact Hrp|exact Hal|apply PT_nil].
Qed.

Theorem trailing_comma_same_ast : forall N er inf fid lp rp c f args tas rest,
  is_ident fid = true -> tlex fid = f -> String.eqb f "bitcast" = false ->
  tkind lp = TkLeftParen -> tkind rp = TkRightParen -> tkind c = TkComma ->
  Forall2 (prints 0) args tas -> args <> [] -> follow 0 rest ->
  List.length (fid :: lp :: join c tas ++ c :: rp :: rest) <= N ->
  expression (st N er inf (fid :: lp :: join c tas ++ rp :: rest)) = Ok (ECall f args) (st N er inf rest) /\
  expression (st N er inf (fid :: lp :: join c tas ++ c :: rp :: rest)) = Ok (ECall f args) (st N er inf rest).
Proof.
  intros N er inf fid lp rp c f args tas rest Hid Hf Hnb Hlp Hrp Hc Hall Hne Hfo HN.
  destruct (alist_join c args tas Hc Hall Hne) as [H1 H2].
  assert (Hlen : List.length (join c tas ++ rp :: rest) <= List.length (join c tas ++ c :: rp :: rest)).
  { repeat rewrite app_length. simpl. lia. }
  assert (E1 : fid :: lp :: join c tas ++ rp :: rest = (fid :: lp :: join c tas ++ [rp]) ++ rest).
  { cbn [app]. rewrite <- app_assoc. reflexivity. }
  assert (E2 : fid :: lp :: join c tas ++ c :: rp :: rest = (fid :: lp :: (join c tas ++ [c]) ++ [rp]) ++ rest).
  { cbn [app]. repeat rewrite <- app_assoc. reflexivity. }
  split.
  - rewrite E1. apply parse_prints; [apply (prints_down 11 0); [eapply prints_call; eassumption|lia|lia]|exact Hfo|].
    rewrite <- E1. cbn [List.length] in *. lia.
  - rewrite E2. apply parse_prints; [apply (prints_down 11 0); [eapply prints_call; eassumption|lia|lia]|exact Hfo|].
    rewrite <- E2. exact HN.
Qed.

(* ================================================================ the canonical printer and the round trip *)
Definition tok_of_kind (k : tk) : token := mktoken k "".   (* the parser never looks at the lexeme of these *)
Definition ident_tok (n : string) : token := mktoken TkIdent n.

Definition prec (e : expr) : nat :=
  match e with
  | EBinary _ op _ => match level_of op with Some c => c | None => 11 end
  | EUnary _ _ => 10
  | _ => 11
  end.

(* parentheses exactly where the depth of the position exceeds the precedence of the expression *)
Fixpoint render (d : nat) (e : expr) {struct e} : list token :=
  let body :=
    match e with
    | EIdent n => [ident_tok n]
    | ELit k v => [mktoken k v]
    | EBinary l op r =>
        match level_of op with
        | Some c => render c l ++ tok_of_kind op :: render (S c) r
        | None => []
        end
    | EUnary op x => tok_of_kind op :: render 10 x
    | ECall f args =>
        ident_tok f :: tok_of_kind TkLeftParen :: join (tok_of_kind TkComma) (map (render 0) args) ++ [tok_of_kind TkRightParen]
    | EIndex b i => render 11 b ++ tok_of_kind TkLeftBracket :: render 0 i ++ [tok_of_kind TkRightBracket]
    | EMember b m => render 11 b ++ [tok_of_kind TkDot; ident_tok m]
    | EConstruct _ _ | EBitcast _ _ => []
    end in
  if prec e <? d then tok_of_kind TkLeftParen :: body ++ [tok_of_kind TkRightParen] else body.

(* the ASTs of the fragment (what the parser can build from such token lists) *)
Fixpoint wf_expr (e : expr) : Prop :=
  match e with
  | EIdent n => String.eqb n "bitcast" = false
  | ELit k v => k = TkIntLiteral \/ k = TkFloatLiteral \/ k = TkBoolLiteral
  | EBinary l op r => level_of op <> None /\ wf_expr l /\ wf_expr r
  | EUnary op x => is_unary_op op = true /\ wf_expr x
  | ECall f args => String.eqb f "bitcast" = false /\
                    (fix all (l : list expr) : Prop := match l with [] => True | a :: l' => wf_expr a /\ all l' end) args
  | EIndex b i => wf_expr b /\ wf_expr i
  | EMember b m => wf_expr b
  | EConstruct _ _ | EBitcast _ _ => False
  end.

Section ExprInd.
  Variable P : expr -> Prop.
  Hypothesis HIdent : forall n, P (EIdent n).
  Hypothesis HLit : forall k v, P (ELit k v).
  Hypothesis HBinary : forall l op r, P l -> P r -> P (EBinary l op r).
  Hypothesis HUnary : forall op x, P x -> P (EUnary op x).
  Hypothesis HCall : forall f args, Forall P args -> P (ECall f args).
  Hypothesis HIndex : forall b i, P b -> P i -> P (EIndex b i).
  Hypothesis HMember : forall b m, P b -> P (EMember b m).
  Hypothesis HConstruct : forall t args, P (EConstruct t args).
  Hypothesis HBitcast : forall t x, P (EBitcast t x).
  Fixpoint expr_nested_ind (e : expr) : P e :=
    match e with
    | EIdent n => HIdent n
    | ELit k v => HLit k v
    | EBinary l op r => HBinary l op r (expr_nested_ind l) (expr_nested_ind r)
    | EUnary op x => HUnary op x (expr_nested_ind x)
    | ECall f args =>
        HCall f args ((fix go (l : list expr) : Forall P l :=
                         match l with [] => Forall_nil P | a :: l' => Forall_cons a (expr_nested_ind a) (go l') end) args)
    | EIndex b i => HIndex b i (expr_nested_ind b) (expr_nested_ind i)
    | EMember b m => HMember b m (expr_nested_ind b)
    | EConstruct t args => HConstruct t args
    | EBitcast t x => HBitcast t x
    end.
End ExprInd.

Lemma prints_bin_inv : forall d e ts, prints d e ts -> d <= 9 ->
  exists e0 t0 ts', ts = t0 ++ ts' /\ prints (S d) e0 t0 /\ btail d e0 e ts'.
Proof. intros d e ts H. destruct H; intros Hd; try lia. eauto 8. Qed.

Lemma prints_post_inv : forall d e ts, prints d e ts -> d = 11 ->
  exists e0 t0 ts', ts = t0 ++ ts' /\ prim e0 t0 /\ ptail e0 e ts'.
Proof. intros d e ts H. destruct H; intros Hd; try lia; try discriminate. eauto 8. Qed.

Lemma btail_snoc : forall d e0 l ts op r tr, btail d e0 l ts -> isop d (tkind op) = true -> prints (S d) r tr ->
  btail d e0 (EBinary l (tkind op) r) (ts ++ op :: tr).
Proof.
  intros d e0 l ts op r tr H Hop Hr. induction H.
  - cbn [app]. rewrite <- (app_nil_r tr). apply (BT_cons d acc op r tr (EBinary acc (tkind op) r) []); [exact Hop|exact Hr|apply BT_nil].
  - cbn [app]. rewrite <- app_assoc. eapply BT_cons; [eassumption|eassumption|]. apply IHbtail; assumption.
Qed.

Lemma ptail_snoc_index : forall e0 b ts lb i ti rb, ptail e0 b ts ->
  tkind lb = TkLeftBracket -> tkind rb = TkRightBracket -> prints 0 i ti ->
  ptail e0 (EIndex b i) (ts ++ lb :: ti ++ [rb]).
Proof.
  intros e0 b ts lb i ti rb H Hlb Hrb Hi. induction H.
  - cbn [app]. apply (PT_index acc lb i ti rb (EIndex acc i) []); [assumption|assumption|assumption|apply PT_nil].
  - cbn [app]. rewrite <- app_assoc. cbn [app]. eapply PT_call; [eassumption|eassumption|eassumption|]. apply IHptail.
  - cbn [app]. rewrite <- app_assoc. cbn [app]. eapply PT_index; [eassumption|eassumption|eassumption|]. apply IHptail.
  - cbn [app]. eapply PT_member; [eassumption|eassumption|]. apply IHptail.
Qed.

Lemma ptail_snoc_member : forall e0 b ts dot m, ptail e0 b ts ->
  tkind dot = TkDot -> is_ident m = true -> ptail e0 (EMember b (tlex m)) (ts ++ [dot; m]).
Proof.
  intros e0 b ts dot m H Hd Hm. induction H.
  - cbn [app]. apply PT_member; [assumption|assumption|apply PT_nil].
  - cbn [app]. rewrite <- app_assoc. cbn [app]. eapply PT_call; [eassumption|eassumption|eassumption|]. apply IHptail.
  - cbn [app]. rewrite <- app_assoc. cbn [app]. eapply PT_index; [eassumption|eassumption|eassumption|]. apply IHptail.
  - cbn [app]. eapply PT_member; [eassumption|eassumption|]. apply IHptail.
Qed.

Lemma level_of_isop : forall op c, level_of op = Some c -> isop c op = true /\ c <= 9.
Proof.
  intros op c H. unfold isop. rewrite H. split; [apply Nat.eqb_refl|].
  destruct op; try discriminate; inversion H; lia.
Qed.

(* wrap a rendering of depth `prec e` for a position of depth d *)
Lemma place : forall d e body, prints (prec e) e body -> prec e <= 11 -> d <= 11 ->
  prints d e (if prec e <? d then tok_of_kind TkLeftParen :: body ++ [tok_of_kind TkRightParen] else body).
Proof.
  intros d e body H Hp Hd. destruct (prec e <? d) eqn:E.
  - apply (prints_wrap (prec e) d); try assumption; reflexivity.
  - apply Nat.ltb_ge in E. apply (prints_down (prec e) d); assumption.
Qed.

Theorem render_prints : forall e, wf_expr e -> forall d, d <= 11 -> prints d e (render d e).
Proof.
  intros e. induction e using expr_nested_ind; intros Hwf d Hd.
  - (* EIdent *)
    cbn [render]. apply place; [|simpl; lia|exact Hd]. cbn [prec].
    rewrite <- (app_nil_r [ident_tok n]). apply (P_post (EIdent n) [ident_tok n] (EIdent n) []); [|apply PT_nil].
    apply (PR_ident (ident_tok n)); [reflexivity|exact Hwf].
  - (* ELit *)
    cbn [render]. apply place; [|simpl; lia|exact Hd]. cbn [prec].
    rewrite <- (app_nil_r [mktoken k v]). apply (P_post (ELit k v) [mktoken k v] (ELit k v) []); [|apply PT_nil].
    simpl in Hwf. destruct Hwf as [->|[->| ->]].
    + apply (PR_num (mktoken TkIntLiteral v)). reflexivity.
    + apply (PR_num (mktoken TkFloatLiteral v)). reflexivity.
    + apply (PR_bool (mktoken TkBoolLiteral v)). reflexivity.
  - (* EBinary *)
    simpl in Hwf. destruct Hwf as [Hop [Hl Hr]].
    cbn [render]. destruct (level_of op) as [c|] eqn:Hc; [|contradiction].
    destruct (level_of_isop op c Hc) as [Hi Hc9].
    apply place; [|cbn [prec]; rewrite Hc; lia|exact Hd]. cbn [prec]. rewrite Hc.
    specialize (IHe1 Hl c ltac:(lia)). specialize (IHe2 Hr (S c) ltac:(lia)).
    destruct (prints_bin_inv _ _ _ IHe1 Hc9) as [e0 [t0 [ts' [Heq [Hp0 Hbt]]]]].
    rewrite Heq. rewrite <- app_assoc.
    apply (P_bin c e0 t0 (EBinary e1 op e2)); [exact Hc9|exact Hp0|].
    apply (btail_snoc c e0 e1 ts' (tok_of_kind op) e2); [exact Hbt|exact Hi|exact IHe2].
  - (* EUnary *)
    simpl in Hwf. destruct Hwf as [Hop Hx]. cbn [render]. apply place; [|simpl; lia|exact Hd]. cbn [prec].
    apply (P_un_op (tok_of_kind op)); [exact Hop|apply IHe; [exact Hx|lia]].
  - (* ECall *)
    simpl in Hwf. destruct Hwf as [Hnb Hall]. cbn [render]. apply place; [|simpl; lia|exact Hd]. cbn [prec].
    assert (Hf2 : Forall2 (prints 0) args (map (render 0) args)).
    { clear Hd. induction args as [|a args IHa]; [constructor|].
      inversion H; subst. destruct Hall as [Ha Hall']. constructor; [apply H2; [exact Ha|lia]|apply IHa; assumption]. }
    apply (prints_call (ident_tok f) (tok_of_kind TkLeftParen) (tok_of_kind TkRightParen) f args); try reflexivity; [exact Hnb|].
    destruct args as [|a args'].
    + apply AL_nil.
    + apply (alist_join (tok_of_kind TkComma) (a :: args') _ eq_refl Hf2). discriminate.
  - (* EIndex *)
    simpl in Hwf. destruct Hwf as [Hb Hi]. cbn [render]. apply place; [|simpl; lia|exact Hd]. cbn [prec].
    specialize (IHe1 Hb 11 (le_n _)). specialize (IHe2 Hi 0 ltac:(lia)).
    destruct (prints_post_inv _ _ _ IHe1 eq_refl) as [e0 [t0 [ts' [Heq [Hp0 Hpt]]]]].
    rewrite Heq. rewrite <- app_assoc.
    apply (P_post e0 t0 (EIndex e1 e2)); [exact Hp0|].
    apply ptail_snoc_index; [exact Hpt|reflexivity|reflexivity|exact IHe2].
  - (* EMember *)
    simpl in Hwf. cbn [render]. apply place; [|simpl; lia|exact Hd]. cbn [prec].
    specialize (IHe Hwf 11 (le_n _)).
    destruct (prints_post_inv _ _ _ IHe eq_refl) as [e0 [t0 [ts' [Heq [Hp0 Hpt]]]]].
    rewrite Heq. rewrite <- app_assoc.
    apply (P_post e0 t0 (EMember e m)); [exact Hp0|].
    apply (ptail_snoc_member e0 e ts' (tok_of_kind TkDot) (ident_tok m)); [exact Hpt|reflexivity|reflexivity].
  - contradiction.
  - contradiction.
Qed.

(* ROUND TRIP: the parser inverts the printer, at every expression position *)
Theorem parse_render : forall N er inf e rest,
  wf_expr e -> follow 0 rest -> List.length (render 0 e ++ rest) <= N ->
  expression (st N er inf (render 0 e ++ rest)) = Ok e (st N er inf rest).
Proof.
  intros N er inf e rest Hwf Hf HN. apply parse_prints; [apply render_prints; [exact Hwf|lia]|exact Hf|exact HN].
Qed.
