(* C11 at the parser: a missing closing delimiter / semicolon is an error at the right token; and three
   classes of malformed input that the parser (model and implementation) accepts silently. *)
From Coq Require Import List String NArith Bool Arith Lia.
Import ListNotations.
Require Import Naga.Parse.Ast Naga.Parse.TkFacts Naga.Parse.ParserModel Naga.Parse.ParserProofs Naga.Parse.ParserPrint.
Open Scope list_scope.
Open Scope nat_scope.

Section Diag.
  Variables (N : nat) (er : list perr).
  Notation st := (st N er false).

  Lemma expect_err_miss : forall k rest, tk_eqb (hd_kind rest) k = false -> tk_eqb k TkGreater = false ->
    expect_err k (st rest) = Err (PErr (EExpected k) (N - List.length rest)) (st rest).
  Proof.
    intros k rest H Hg. unfold expect_err. rewrite check_hd, H, andb_false_r, Hg. reflexivity.
  Qed.

  Lemma bind_err : forall A B (p : parser A) (f : A -> parser B) s e s', p s = Err e s' -> bind p f s = Err e s'.
  Proof. intros. unfold bind. rewrite H. reflexivity. Qed.

  Lemma lv_err : forall j d U s e s', U s = Err e s' -> lv j d U s = Err e s'.
  Proof.
    induction j as [|j IH]; intros d U s e s' H; [exact H|].
    cbn [lv]. unfold binlevel. apply bind_err. apply IH. exact H.
  Qed.

  Lemma pE_pred : forall n k s, 0 < n -> pE n s = LVk 0 (pred n) k s.
  Proof. intros n k s H. destruct n; [lia|]. apply pE_S. Qed.

  (* `( e` followed by a token that can neither continue e nor close the parenthesis *)
  Theorem missing_close_paren_is_error : forall e ts rest lp,
    prints 0 e ts -> follow 0 rest -> tkind lp = TkLeftParen ->
    tk_eqb (hd_kind rest) TkRightParen = false ->
    List.length (lp :: ts ++ rest) <= N ->
    expression (st (lp :: ts ++ rest)) =
      Err (PErr (EExpected TkRightParen) (N - List.length rest)) (st rest).
  Proof.
    intros e ts rest lp Hp Hf Hlp Hnr HN. simpl List.length in HN.
    unfold expression. rewrite with_fuel_st. cbn [pE]. rewrite logicalOr_lv.
    apply lv_err. unfold unary. rewrite with_fuel_st. cbn [unary_loop].
    rewrite (if_tok_miss N er false _ (fun t => is_unary_op (tkind t))) by (rewrite Hlp; reflexivity).
    unfold postfix. apply bind_err. unfold primary_body.
    rewrite (if_tok_miss N er false _ is_numlit) by (unfold is_numlit; rewrite Hlp; reflexivity).
    rewrite (if_tok_miss N er false _ is_boollit) by (unfold is_boollit; rewrite Hlp; reflexivity).
    rewrite (if_tok_miss N er false _ (is_named_ident "bitcast")) by (unfold is_named_ident, kind_is; rewrite Hlp; reflexivity).
    rewrite (if_tok_miss N er false _ is_ident) by (unfold is_ident, kind_is; rewrite Hlp; reflexivity).
    rewrite if_match_hit by (try exact Hlp; reflexivity).
    erewrite bind_ok.
    2:{ rewrite (pE_pred N (S (List.length (ts ++ rest)))) by lia.
        apply (proj1 (parse_prints_all N er false) 0 e ts Hp); [exact Hf|lia|lia|lia]. }
    apply bind_err. apply expect_err_miss; [exact Hnr|reflexivity].
  Qed.
End Diag.

Section Diag2.
  Variables (N : nat) (er : list perr).
  Notation st := (st N er false).

  (* `let x = e` followed by a token that can neither continue e nor end the statement *)
  Theorem missing_semicolon_is_error : forall e ts rest lett x eq,
    tkind lett = TkLet -> is_ident x = true -> tkind eq = TkEqual ->
    prints 0 e ts -> follow 0 rest -> tk_eqb (hd_kind rest) TkSemicolon = false ->
    List.length (lett :: x :: eq :: ts ++ rest) <= N ->
    statement (st (lett :: x :: eq :: ts ++ rest)) =
      Err (PErr (EExpected TkSemicolon) (N - List.length rest)) (st rest).
  Proof.
    intros e ts rest lett x eq Hlet Hx Heq Hp Hf Hns HN. simpl List.length in HN.
    pose proof (kind_is_eq _ _ Hx) as Hxk.
    unfold statement. rewrite with_fuel_st. cbn [stmt_n]. unfold statement_body.
    do 10 (rewrite if_match_miss_hd by (simpl; rewrite Hlet; reflexivity)).
    rewrite if_match_hit by (try exact Hlet; reflexivity).
    apply bind_err. unfold constDecl_rest.
    erewrite bind_ok; [|unfold take, take_pred; rewrite if_tok_hit; [reflexivity|exact Hx|rewrite Hxk; reflexivity]].
    erewrite bind_ok; [|unfold opt_type; rewrite if_match_miss_hd by (simpl; rewrite Heq; reflexivity); reflexivity].
    erewrite bind_ok; [|apply expect_err_hit; [exact Heq|reflexivity]].
    erewrite bind_ok; [|apply parse_prints; [exact Hp|exact Hf|lia]].
    apply bind_err. unfold expect_semicolon. cbn [infor ParserPrint.st].
    apply expect_err_miss; [exact Hns|reflexivity].
  Qed.
End Diag2.

(* ---- accepted although malformed: witnesses (the model agrees with naga on them, see checks) *)
Definition tkn (k : tk) (lx : string) : token := mktoken k lx.

(* var x : vec3 < f32 = 1 ;      -- the template list is never closed (Parser.expect is silent) *)
Definition w_unclosed_template : list token :=
  [tkn TkVar "var"; tkn TkIdent "x"; tkn TkColon ":"; tkn TkVec3 "vec3"; tkn TkLess "<"; tkn TkF32 "f32";
   tkn TkEqual "="; tkn TkIntLiteral "1"; tkn TkSemicolon ";"; tkn TkEOF ""]%string.

(* @ workgroup_size ( 8 , 4 * ) fn main ( ) { }   -- the malformed argument `4 *` is dropped *)
Definition w_attr_arg_dropped : list token :=
  [tkn TkAt "@"; tkn TkIdent "workgroup_size"; tkn TkLeftParen "("; tkn TkIntLiteral "8"; tkn TkComma ",";
   tkn TkIntLiteral "4"; tkn TkStar "*"; tkn TkRightParen ")"; tkn TkFn "fn"; tkn TkIdent "main";
   tkn TkLeftParen "("; tkn TkRightParen ")"; tkn TkLeftBrace "{"; tkn TkRightBrace "}"; tkn TkEOF ""]%string.

(* fn f ( ) { a [ 0 ] ( 1 , nosuch ) ; }   -- call arguments after a non-callable expression are dropped *)
Definition w_call_args_dropped : list token :=
  [tkn TkFn "fn"; tkn TkIdent "f"; tkn TkLeftParen "("; tkn TkRightParen ")"; tkn TkLeftBrace "{";
   tkn TkIdent "a"; tkn TkLeftBracket "["; tkn TkIntLiteral "0"; tkn TkRightBracket "]";
   tkn TkLeftParen "("; tkn TkIntLiteral "1"; tkn TkComma ","; tkn TkIdent "nosuch"; tkn TkRightParen ")";
   tkn TkSemicolon ";"; tkn TkRightBrace "}"; tkn TkEOF ""]%string.

Lemma unclosed_template_accepted :
  parse w_unclosed_template =
    Parsed [DVar (mkvar "x" (Some (TyNamed "vec3" [TyNamed "f32" []])) (Some (ELit TkIntLiteral "1")) "" "" [])] [].
Proof. vm_compute. reflexivity. Qed.

Lemma attr_arg_dropped_accepted :
  parse w_attr_arg_dropped =
    Parsed [DFunction "main" [] None [] [mkattr "workgroup_size" [ELit TkIntLiteral "8"]] []] [].
Proof. vm_compute. reflexivity. Qed.

Lemma call_args_dropped_accepted :
  parse w_call_args_dropped =
    Parsed [DFunction "f" [] None [] [] [SExpr (EIndex (EIdent "a") (ELit TkIntLiteral "0"))]] [].
Proof. vm_compute. reflexivity. Qed.
