(* AST of the WGSL front end (wgsl/internal/parser/ast.go) and token kinds (token.go) as Gallina data.
   Source positions (Span) are not modelled: no parser decision depends on them.
   Definitions only; see ParserModel.v for the parser, ParserProofs.v for the theorems. *)
From Coq Require Import List String NArith Bool.
Import ListNotations.
Open Scope string_scope.

(* ---- token kinds: one constructor per constant of token.go (TokenX -> TkX).  The table
   tk_names below is compared with the const block regenerated from /repo (Gen/LexTables.v
   token_kinds) by the obligations of ParseInst.v on every run. *)
Inductive tk :=
| TkEOF
| TkError
| TkIdent
| TkIntLiteral
| TkFloatLiteral
| TkBoolLiteral
| TkPlus
| TkMinus
| TkStar
| TkSlash
| TkPercent
| TkAmpersand
| TkPipe
| TkCaret
| TkTilde
| TkBang
| TkEqual
| TkLess
| TkGreater
| TkDot
| TkComma
| TkColon
| TkSemicolon
| TkAt
| TkArrow
| TkPlusPlus
| TkMinusMinus
| TkEqualEqual
| TkBangEqual
| TkLessEqual
| TkGreaterEqual
| TkAmpAmp
| TkPipePipe
| TkLessLess
| TkGreaterGreater
| TkPlusEqual
| TkMinusEqual
| TkStarEqual
| TkSlashEqual
| TkPercentEqual
| TkAmpEqual
| TkPipeEqual
| TkCaretEqual
| TkLessLessEqual
| TkGreaterGreaterEqual
| TkLeftParen
| TkRightParen
| TkLeftBrace
| TkRightBrace
| TkLeftBracket
| TkRightBracket
| TkAlias
| TkBreak
| TkCase
| TkConst
| TkConstAssert
| TkContinue
| TkContinuing
| TkDefault
| TkDiagnostic
| TkDiscard
| TkElse
| TkEnable
| TkFalse
| TkFn
| TkFor
| TkIf
| TkLet
| TkLoop
| TkOverride
| TkReturn
| TkStruct
| TkSwitch
| TkTrue
| TkVar
| TkWhile
| TkNull
| TkSelf
| TkSuper
| TkTrait
| TkType
| TkUsing
| TkBool
| TkF16
| TkF32
| TkF64
| TkI32
| TkI64
| TkU32
| TkU64
| TkVec2
| TkVec3
| TkVec4
| TkMat2x2
| TkMat2x3
| TkMat2x4
| TkMat3x2
| TkMat3x3
| TkMat3x4
| TkMat4x2
| TkMat4x3
| TkMat4x4
| TkArray
| TkAtomic
| TkPtr
| TkSampler
| TkSamplerComparison
| TkTexture1d
| TkTexture2d
| TkTexture2dArray
| TkTexture3d
| TkTextureCube
| TkTextureCubeArray
| TkTextureMultisampled2d
| TkTextureStorage1d
| TkTextureStorage2d
| TkTextureStorage2dArray
| TkTextureStorage3d
| TkTextureDepth2d
| TkTextureDepth2dArray
| TkTextureDepthCube
| TkTextureDepthCubeArray
| TkTextureDepthMultisampled2d.

Definition tk_code (k : tk) : N :=
  match k with
  | TkEOF => 0
  | TkError => 1
  | TkIdent => 2
  | TkIntLiteral => 3
  | TkFloatLiteral => 4
  | TkBoolLiteral => 5
  | TkPlus => 6
  | TkMinus => 7
  | TkStar => 8
  | TkSlash => 9
  | TkPercent => 10
  | TkAmpersand => 11
  | TkPipe => 12
  | TkCaret => 13
  | TkTilde => 14
  | TkBang => 15
  | TkEqual => 16
  | TkLess => 17
  | TkGreater => 18
  | TkDot => 19
  | TkComma => 20
  | TkColon => 21
  | TkSemicolon => 22
  | TkAt => 23
  | TkArrow => 24
  | TkPlusPlus => 25
  | TkMinusMinus => 26
  | TkEqualEqual => 27
  | TkBangEqual => 28
  | TkLessEqual => 29
  | TkGreaterEqual => 30
  | TkAmpAmp => 31
  | TkPipePipe => 32
  | TkLessLess => 33
  | TkGreaterGreater => 34
  | TkPlusEqual => 35
  | TkMinusEqual => 36
  | TkStarEqual => 37
  | TkSlashEqual => 38
  | TkPercentEqual => 39
  | TkAmpEqual => 40
  | TkPipeEqual => 41
  | TkCaretEqual => 42
  | TkLessLessEqual => 43
  | TkGreaterGreaterEqual => 44
  | TkLeftParen => 45
  | TkRightParen => 46
  | TkLeftBrace => 47
  | TkRightBrace => 48
  | TkLeftBracket => 49
  | TkRightBracket => 50
  | TkAlias => 51
  | TkBreak => 52
  | TkCase => 53
  | TkConst => 54
  | TkConstAssert => 55
  | TkContinue => 56
  | TkContinuing => 57
  | TkDefault => 58
  | TkDiagnostic => 59
  | TkDiscard => 60
  | TkElse => 61
  | TkEnable => 62
  | TkFalse => 63
  | TkFn => 64
  | TkFor => 65
  | TkIf => 66
  | TkLet => 67
  | TkLoop => 68
  | TkOverride => 69
  | TkReturn => 70
  | TkStruct => 71
  | TkSwitch => 72
  | TkTrue => 73
  | TkVar => 74
  | TkWhile => 75
  | TkNull => 76
  | TkSelf => 77
  | TkSuper => 78
  | TkTrait => 79
  | TkType => 80
  | TkUsing => 81
  | TkBool => 82
  | TkF16 => 83
  | TkF32 => 84
  | TkF64 => 85
  | TkI32 => 86
  | TkI64 => 87
  | TkU32 => 88
  | TkU64 => 89
  | TkVec2 => 90
  | TkVec3 => 91
  | TkVec4 => 92
  | TkMat2x2 => 93
  | TkMat2x3 => 94
  | TkMat2x4 => 95
  | TkMat3x2 => 96
  | TkMat3x3 => 97
  | TkMat3x4 => 98
  | TkMat4x2 => 99
  | TkMat4x3 => 100
  | TkMat4x4 => 101
  | TkArray => 102
  | TkAtomic => 103
  | TkPtr => 104
  | TkSampler => 105
  | TkSamplerComparison => 106
  | TkTexture1d => 107
  | TkTexture2d => 108
  | TkTexture2dArray => 109
  | TkTexture3d => 110
  | TkTextureCube => 111
  | TkTextureCubeArray => 112
  | TkTextureMultisampled2d => 113
  | TkTextureStorage1d => 114
  | TkTextureStorage2d => 115
  | TkTextureStorage2dArray => 116
  | TkTextureStorage3d => 117
  | TkTextureDepth2d => 118
  | TkTextureDepth2dArray => 119
  | TkTextureDepthCube => 120
  | TkTextureDepthCubeArray => 121
  | TkTextureDepthMultisampled2d => 122
  end%N.

Definition all_tk : list tk := [
  TkEOF; TkError; TkIdent; TkIntLiteral; TkFloatLiteral; TkBoolLiteral;
  TkPlus; TkMinus; TkStar; TkSlash; TkPercent; TkAmpersand;
  TkPipe; TkCaret; TkTilde; TkBang; TkEqual; TkLess;
  TkGreater; TkDot; TkComma; TkColon; TkSemicolon; TkAt;
  TkArrow; TkPlusPlus; TkMinusMinus; TkEqualEqual; TkBangEqual; TkLessEqual;
  TkGreaterEqual; TkAmpAmp; TkPipePipe; TkLessLess; TkGreaterGreater; TkPlusEqual;
  TkMinusEqual; TkStarEqual; TkSlashEqual; TkPercentEqual; TkAmpEqual; TkPipeEqual;
  TkCaretEqual; TkLessLessEqual; TkGreaterGreaterEqual; TkLeftParen; TkRightParen; TkLeftBrace;
  TkRightBrace; TkLeftBracket; TkRightBracket; TkAlias; TkBreak; TkCase;
  TkConst; TkConstAssert; TkContinue; TkContinuing; TkDefault; TkDiagnostic;
  TkDiscard; TkElse; TkEnable; TkFalse; TkFn; TkFor;
  TkIf; TkLet; TkLoop; TkOverride; TkReturn; TkStruct;
  TkSwitch; TkTrue; TkVar; TkWhile; TkNull; TkSelf;
  TkSuper; TkTrait; TkType; TkUsing; TkBool; TkF16;
  TkF32; TkF64; TkI32; TkI64; TkU32; TkU64;
  TkVec2; TkVec3; TkVec4; TkMat2x2; TkMat2x3; TkMat2x4;
  TkMat3x2; TkMat3x3; TkMat3x4; TkMat4x2; TkMat4x3; TkMat4x4;
  TkArray; TkAtomic; TkPtr; TkSampler; TkSamplerComparison; TkTexture1d;
  TkTexture2d; TkTexture2dArray; TkTexture3d; TkTextureCube; TkTextureCubeArray; TkTextureMultisampled2d;
  TkTextureStorage1d; TkTextureStorage2d; TkTextureStorage2dArray; TkTextureStorage3d; TkTextureDepth2d; TkTextureDepth2dArray;
  TkTextureDepthCube; TkTextureDepthCubeArray; TkTextureDepthMultisampled2d].

Definition tk_name (k : tk) : string :=
  match k with
  | TkEOF => "TokenEOF"
  | TkError => "TokenError"
  | TkIdent => "TokenIdent"
  | TkIntLiteral => "TokenIntLiteral"
  | TkFloatLiteral => "TokenFloatLiteral"
  | TkBoolLiteral => "TokenBoolLiteral"
  | TkPlus => "TokenPlus"
  | TkMinus => "TokenMinus"
  | TkStar => "TokenStar"
  | TkSlash => "TokenSlash"
  | TkPercent => "TokenPercent"
  | TkAmpersand => "TokenAmpersand"
  | TkPipe => "TokenPipe"
  | TkCaret => "TokenCaret"
  | TkTilde => "TokenTilde"
  | TkBang => "TokenBang"
  | TkEqual => "TokenEqual"
  | TkLess => "TokenLess"
  | TkGreater => "TokenGreater"
  | TkDot => "TokenDot"
  | TkComma => "TokenComma"
  | TkColon => "TokenColon"
  | TkSemicolon => "TokenSemicolon"
  | TkAt => "TokenAt"
  | TkArrow => "TokenArrow"
  | TkPlusPlus => "TokenPlusPlus"
  | TkMinusMinus => "TokenMinusMinus"
  | TkEqualEqual => "TokenEqualEqual"
  | TkBangEqual => "TokenBangEqual"
  | TkLessEqual => "TokenLessEqual"
  | TkGreaterEqual => "TokenGreaterEqual"
  | TkAmpAmp => "TokenAmpAmp"
  | TkPipePipe => "TokenPipePipe"
  | TkLessLess => "TokenLessLess"
  | TkGreaterGreater => "TokenGreaterGreater"
  | TkPlusEqual => "TokenPlusEqual"
  | TkMinusEqual => "TokenMinusEqual"
  | TkStarEqual => "TokenStarEqual"
  | TkSlashEqual => "TokenSlashEqual"
  | TkPercentEqual => "TokenPercentEqual"
  | TkAmpEqual => "TokenAmpEqual"
  | TkPipeEqual => "TokenPipeEqual"
  | TkCaretEqual => "TokenCaretEqual"
  | TkLessLessEqual => "TokenLessLessEqual"
  | TkGreaterGreaterEqual => "TokenGreaterGreaterEqual"
  | TkLeftParen => "TokenLeftParen"
  | TkRightParen => "TokenRightParen"
  | TkLeftBrace => "TokenLeftBrace"
  | TkRightBrace => "TokenRightBrace"
  | TkLeftBracket => "TokenLeftBracket"
  | TkRightBracket => "TokenRightBracket"
  | TkAlias => "TokenAlias"
  | TkBreak => "TokenBreak"
  | TkCase => "TokenCase"
  | TkConst => "TokenConst"
  | TkConstAssert => "TokenConstAssert"
  | TkContinue => "TokenContinue"
  | TkContinuing => "TokenContinuing"
  | TkDefault => "TokenDefault"
  | TkDiagnostic => "TokenDiagnostic"
  | TkDiscard => "TokenDiscard"
  | TkElse => "TokenElse"
  | TkEnable => "TokenEnable"
  | TkFalse => "TokenFalse"
  | TkFn => "TokenFn"
  | TkFor => "TokenFor"
  | TkIf => "TokenIf"
  | TkLet => "TokenLet"
  | TkLoop => "TokenLoop"
  | TkOverride => "TokenOverride"
  | TkReturn => "TokenReturn"
  | TkStruct => "TokenStruct"
  | TkSwitch => "TokenSwitch"
  | TkTrue => "TokenTrue"
  | TkVar => "TokenVar"
  | TkWhile => "TokenWhile"
  | TkNull => "TokenNull"
  | TkSelf => "TokenSelf"
  | TkSuper => "TokenSuper"
  | TkTrait => "TokenTrait"
  | TkType => "TokenType"
  | TkUsing => "TokenUsing"
  | TkBool => "TokenBool"
  | TkF16 => "TokenF16"
  | TkF32 => "TokenF32"
  | TkF64 => "TokenF64"
  | TkI32 => "TokenI32"
  | TkI64 => "TokenI64"
  | TkU32 => "TokenU32"
  | TkU64 => "TokenU64"
  | TkVec2 => "TokenVec2"
  | TkVec3 => "TokenVec3"
  | TkVec4 => "TokenVec4"
  | TkMat2x2 => "TokenMat2x2"
  | TkMat2x3 => "TokenMat2x3"
  | TkMat2x4 => "TokenMat2x4"
  | TkMat3x2 => "TokenMat3x2"
  | TkMat3x3 => "TokenMat3x3"
  | TkMat3x4 => "TokenMat3x4"
  | TkMat4x2 => "TokenMat4x2"
  | TkMat4x3 => "TokenMat4x3"
  | TkMat4x4 => "TokenMat4x4"
  | TkArray => "TokenArray"
  | TkAtomic => "TokenAtomic"
  | TkPtr => "TokenPtr"
  | TkSampler => "TokenSampler"
  | TkSamplerComparison => "TokenSamplerComparison"
  | TkTexture1d => "TokenTexture1d"
  | TkTexture2d => "TokenTexture2d"
  | TkTexture2dArray => "TokenTexture2dArray"
  | TkTexture3d => "TokenTexture3d"
  | TkTextureCube => "TokenTextureCube"
  | TkTextureCubeArray => "TokenTextureCubeArray"
  | TkTextureMultisampled2d => "TokenTextureMultisampled2d"
  | TkTextureStorage1d => "TokenTextureStorage1d"
  | TkTextureStorage2d => "TokenTextureStorage2d"
  | TkTextureStorage2dArray => "TokenTextureStorage2dArray"
  | TkTextureStorage3d => "TokenTextureStorage3d"
  | TkTextureDepth2d => "TokenTextureDepth2d"
  | TkTextureDepth2dArray => "TokenTextureDepth2dArray"
  | TkTextureDepthCube => "TokenTextureDepthCube"
  | TkTextureDepthCubeArray => "TokenTextureDepthCubeArray"
  | TkTextureDepthMultisampled2d => "TokenTextureDepthMultisampled2d"
  end.
Definition tk_eqb (a b : tk) : bool := N.eqb (tk_code a) (tk_code b).

Fixpoint find_tk (name : string) (l : list tk) : option tk :=
  match l with
  | [] => None
  | k :: l' => if String.eqb name (tk_name k) then Some k else find_tk name l'
  end.
Definition tk_of_name (name : string) : option tk := find_tk name all_tk.

(* ---- tokens: kind + lexeme (Go string = bytes; carried as UTF-8 bytes) *)
Record token := mktoken { tkind : tk; tlex : string }.

(* ---- expressions and types (mutually recursive: array sizes are expressions, constructors name types) *)
Inductive ty :=
| TyNamed (name : string) (params : list ty)                (* NamedType *)
| TyArray (elem : ty) (size : option expr)                  (* ArrayType *)
| TyBindingArray (elem : ty) (size : option expr)           (* BindingArrayType *)
| TyPtr (space : string) (pointee : ty) (access : string)   (* PtrType *)
with expr :=
| EIdent (name : string)                                    (* Ident *)
| ELit (kind : tk) (value : string)                         (* Literal *)
| EBinary (l : expr) (op : tk) (r : expr)                   (* BinaryExpr *)
| EUnary (op : tk) (e : expr)                               (* UnaryExpr *)
| ECall (f : string) (args : list expr)                     (* CallExpr (Func is always an *Ident) *)
| EIndex (e : expr) (i : expr)                              (* IndexExpr *)
| EMember (e : expr) (m : string)                           (* MemberExpr *)
| EConstruct (t : ty) (args : list expr)                    (* ConstructExpr *)
| EBitcast (t : ty) (e : expr).                             (* BitcastExpr *)

Record attr := mkattr { aname : string; aargs : list expr }.

Record vardecl := mkvar { vname : string; vty : option ty; vinit : option expr;
                          vspace : string; vaccess : string; vattrs : list attr }.
(* ConstDecl: const (cisconst = true) and let (false) *)
Record constdecl := mkconst { cname : string; cty : option ty; cinit : expr; cisconst : bool }.

Inductive stmt :=
| SBlock (body : list stmt)
| SReturn (v : option expr)
| SIf (c : expr) (body : list stmt) (els : option stmt)
| SFor (init : option stmt) (cond : option expr) (update : option stmt) (body : list stmt)
| SWhile (c : expr) (body : list stmt)
| SLoop (body : list stmt) (continuing : option (list stmt))
| SBreak
| SBreakIf (c : expr)
| SContinue
| SDiscard
| SAssign (l : expr) (op : tk) (r : expr)
| SExpr (e : expr)
| SSwitch (sel : expr) (cases : list scase)
| SVar (v : vardecl)
| SConst (c : constdecl)
| SConstAssert (e : expr)
with scase :=
| SCase (sels : list expr) (isdefault : bool) (defaultfirst : bool) (body : list stmt).

Record param := mkparam { pname : string; pty : ty; pattrs : list attr }.
Record member := mkmember { mname : string; mty : ty; mattrs : list attr }.

Inductive decl :=
| DFunction (name : string) (params : list param) (ret : option ty) (retattrs : list attr)
            (attrs : list attr) (body : list stmt)
| DStruct (name : string) (members : list member)
| DVar (v : vardecl)
| DConst (c : constdecl)
| DAlias (name : string) (t : ty)
| DConstAssert (e : expr)
| DOverride (name : string) (t : option ty) (init : option expr) (attrs : list attr).

(* ---- parse errors: a class (one per message format of parser.go) and the index of the token the
   error points at (ParseError.Token) *)
Inductive ekind :=
| EExpected (k : tk)          (* "expected %s, got %s" (expectErr, expectTemplateClose) *)
| EExpectedKeyword (k : tk)   (* "expected 'fn'" and friends: unreachable through declaration() *)
| EFunctionName | EParamName | EMemberName | EVariableName | EStructName | EConstName
| EOverrideName | EAliasName | EType | EAddressSpace
| EExtensionName | ESeverityName | ERuleName
| ECaseOrDefault
| EUnexpectedDecl             (* "unexpected token %s, expected declaration" *)
| EUnexpectedExpr.            (* "unexpected token %s in expression" *)

Inductive perr := PErr (kind : ekind) (idx : nat).
Definition perr_idx (e : perr) : nat := match e with PErr _ i => i end.
