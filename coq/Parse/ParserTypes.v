(* C19 at the parser, TYPE expressions: template lists and the splitting of the lexer's `>>`, `>=`, `>>=`.

   The lexer is maximal-munch: the two closers of `array<vec3<f32>>` arrive as ONE token `>>`, the closer and
   the `=` of `var v: vec2<f32>= e;` as `>=`, and `ptr<function, vec2<f32>>= e` ends in `>>=`.  The parser undoes
   this on demand (expectTemplateClose: consume ONE `>` character of the current token and leave the remainder as
   the current token).  This file proves that the spelling is meaning-neutral for every type of the fragment.

   `rend t ts c` :  the tokens ts followed by c template closers (c characters `>`, not yet cut into tokens) are
   a rendering of the type t.  Closers that are ADJACENT in the text stay "owed" (the number c) until something
   else follows them; `closers c cs` then cuts c adjacent closers into tokens in any way: each token is `>` (one
   closer) or `>>` (two).  `closers_eq c cs`: the same when an `=` follows immediately, the last token being
   `>=` (one closer and the `=`) or `>>=` (two closers and the `=`).

   Fragment of types: names (scalars, aliases, structs, any type keyword other than array/ptr), name<T>
   (vecN, matCxR, atomic, ...), array<T>, array<T, n> with n ANY rendering (ParserPrint.prints) of an additive
   expression - literals, identifiers, + - * / %, calls, indexing, parenthesised anything -, ptr<space, T>,
   ptr<space, T, access>, nested without bound.  Trailing commas exactly where the parser takes them:
   array<T, n,> and ptr<space, T,> before any closer spelling; name<T,> and array<T,> only before a closer that is
   a token `>` of its own (after `,` the parser tests `check(TokenGreater)` and only then stops; `vec2<f32,>>` is a
   parse error - see the report; such spellings are NOT renderings here).

   Main theorem parse_rend: for every rendering, every way of cutting the owed closers, and every continuation,
   pT n (typeSpec at fuel n) returns exactly t and leaves exactly the continuation, provided the fuel n and the
   loop counter N (= the length of the token list, in every state of a real run) are at least the number of tokens
   of the rendering; typeSpec_rend* discharge the fuel hypothesis for the entry point typeSpec (fuel = length of the
   whole token list + 1).  Contexts with `=`: opt_type followed by opt_init (var / override) and by
   expect_err TkEqual (let / const): var_type_init_*, let_type_init_*. *)
From Coq Require Import List String NArith Bool Arith Lia.
Import ListNotations.
Require Import Naga.Parse.Ast Naga.Parse.TkFacts Naga.Parse.ParserModel Naga.Parse.ParserProofs Naga.Parse.ParserPrint.
Open Scope list_scope.
Open Scope nat_scope.

(* ---- one template close on a token list: what expectTemplateClose does to tokens[current:] *)
Definition close1 (l : list token) : option (list token) :=
  match l with
  | t :: l' =>
      match tkind t with
      | TkGreater => Some l'
      | TkGreaterGreater => Some (gt_tok :: l')
      | TkGreaterEqual => Some (eq_tok :: l')
      | TkGreaterGreaterEqual => Some (ge_tok :: l')
      | _ => None
      end
  | [] => None
  end.

(* c successive closes *)
Inductive cl : nat -> list token -> list token -> Prop :=
| cl_0 : forall l, cl 0 l l
| cl_S : forall c l l1 l', cl c l l1 -> close1 l1 = Some l' -> cl (S c) l l'.

Lemma cl_front : forall c l1 l', cl c l1 l' -> forall l, close1 l = Some l1 -> cl (S c) l l'.
Proof.
  intros c l1 l' H. induction H as [l|c l l1 l' Hc IH Hl]; intros l0 Hf.
  - eapply cl_S; [apply cl_0|exact Hf].
  - eapply cl_S; [apply IH; exact Hf|exact Hl].
Qed.

(* ---- cutting c adjacent closers into tokens *)
Inductive closers : nat -> list token -> Prop :=
| C_nil : closers 0 []
| C_one : forall g c cs, tkind g = TkGreater -> closers c cs -> closers (S c) (g :: cs)
| C_two : forall g c cs, tkind g = TkGreaterGreater -> closers c cs -> closers (S (S c)) (g :: cs).

(* ... when an `=` follows immediately *)
Inductive closers_eq : nat -> list token -> Prop :=
| CE_sep : forall c cs e, closers c cs -> tkind e = TkEqual -> closers_eq c (cs ++ [e])
| CE_ge : forall c cs g, closers c cs -> tkind g = TkGreaterEqual -> closers_eq (S c) (cs ++ [g])
| CE_gge : forall c cs g, closers c cs -> tkind g = TkGreaterGreaterEqual -> closers_eq (S (S c)) (cs ++ [g]).

Lemma closers_cl : forall c cs, closers c cs -> forall rest, cl c (cs ++ rest) rest.
Proof.
  intros c cs H. induction H; intros rest.
  - apply cl_0.
  - cbn [app]. eapply cl_front; [apply IHclosers|]. simpl. rewrite H. reflexivity.
  - cbn [app]. eapply cl_front; [|simpl; rewrite H; reflexivity].
    eapply cl_front; [apply IHclosers|reflexivity].
Qed.

Lemma cl_trans : forall c2 l1 l2, cl c2 l1 l2 -> forall c1 l0, cl c1 l0 l1 -> cl (c2 + c1) l0 l2.
Proof.
  intros c2 l1 l2 H. induction H as [l|c l l1 l' Hc IH Hl]; intros c1 l0 Hf.
  - exact Hf.
  - cbn [Nat.add]. eapply cl_S; [apply IH; exact Hf|exact Hl].
Qed.

(* with an `=`: afterwards the current token is an `=` (the token itself, or the remainder of the split) *)
Lemma closers_eq_cl : forall c cs, closers_eq c cs -> forall rest,
  exists e, tkind e = TkEqual /\ cl c (cs ++ rest) (e :: rest).
Proof.
  intros c cs H rest. destruct H.
  - exists e. split; [exact H0|]. rewrite <- app_assoc. apply closers_cl. exact H.
  - exists eq_tok. split; [reflexivity|]. rewrite <- app_assoc. cbn [app].
    eapply cl_S; [apply closers_cl; exact H|]. simpl. rewrite H0. reflexivity.
  - exists eq_tok. split; [reflexivity|]. rewrite <- app_assoc. cbn [app].
    eapply cl_S; [eapply cl_S; [apply closers_cl; exact H|]|]; [simpl; rewrite H0; reflexivity|reflexivity].
Qed.

(* ---- renderings of types *)
(* a type name that typeSpec treats as a (possibly generic) named type *)
Definition plain_name (t : token) : bool :=
  is_type_name t && negb (tk_eqb (tkind t) TkArray) && negb (tk_eqb (tkind t) TkPtr)
  && negb (is_named_ident "binding_array" t).

Inductive rend : ty -> list token -> nat -> Prop :=
| R_named : forall nm, plain_name nm = true -> rend (TyNamed (tlex nm) []) [nm] 0
| R_param : forall nm lt T ts c, plain_name nm = true -> tkind lt = TkLess -> rend T ts c ->
    rend (TyNamed (tlex nm) [T]) (nm :: lt :: ts) (S c)
| R_param_tc : forall nm lt T ts c cs cm g, plain_name nm = true -> tkind lt = TkLess -> rend T ts c ->
    closers c cs -> tkind cm = TkComma -> tkind g = TkGreater ->
    rend (TyNamed (tlex nm) [T]) (nm :: lt :: ts ++ cs ++ [cm; g]) 0
| R_array : forall ar lt T ts c, tkind ar = TkArray -> tkind lt = TkLess -> rend T ts c ->
    rend (TyArray T None) (ar :: lt :: ts) (S c)
| R_array_tc : forall ar lt T ts c cs cm g, tkind ar = TkArray -> tkind lt = TkLess -> rend T ts c ->
    closers c cs -> tkind cm = TkComma -> tkind g = TkGreater ->
    rend (TyArray T None) (ar :: lt :: ts ++ cs ++ [cm; g]) 0
| R_array_n : forall ar lt T ts c cs cm e te, tkind ar = TkArray -> tkind lt = TkLess -> rend T ts c ->
    closers c cs -> tkind cm = TkComma -> prints 8 e te ->
    rend (TyArray T (Some e)) (ar :: lt :: ts ++ cs ++ cm :: te) 1
| R_array_n_tc : forall ar lt T ts c cs cm e te cm2, tkind ar = TkArray -> tkind lt = TkLess -> rend T ts c ->
    closers c cs -> tkind cm = TkComma -> prints 8 e te -> tkind cm2 = TkComma ->
    rend (TyArray T (Some e)) (ar :: lt :: ts ++ cs ++ cm :: te ++ [cm2]) 1
| R_ptr : forall pt lt sp cm T ts c, tkind pt = TkPtr -> tkind lt = TkLess -> is_ident sp = true ->
    tkind cm = TkComma -> rend T ts c ->
    rend (TyPtr (tlex sp) T "") (pt :: lt :: sp :: cm :: ts) (S c)
| R_ptr_tc : forall pt lt sp cm T ts c cs cm2, tkind pt = TkPtr -> tkind lt = TkLess -> is_ident sp = true ->
    tkind cm = TkComma -> rend T ts c -> closers c cs -> tkind cm2 = TkComma ->
    rend (TyPtr (tlex sp) T "") (pt :: lt :: sp :: cm :: ts ++ cs ++ [cm2]) 1
| R_ptr_acc : forall pt lt sp cm T ts c cs cm2 acc, tkind pt = TkPtr -> tkind lt = TkLess -> is_ident sp = true ->
    tkind cm = TkComma -> rend T ts c -> closers c cs -> tkind cm2 = TkComma -> is_ident acc = true ->
    rend (TyPtr (tlex sp) T (tlex acc)) (pt :: lt :: sp :: cm :: ts ++ cs ++ [cm2; acc]) 1.

(* nesting depth of a type = the fuel typeSpec needs for its own recursion *)
Fixpoint tdepth (t : ty) : nat :=
  match t with
  | TyNamed _ ps => S (fold_right (fun p m => Nat.max (tdepth p) m) 0 ps)
  | TyArray e _ => S (tdepth e)
  | TyBindingArray e _ => S (tdepth e)
  | TyPtr _ p _ => S (tdepth p)
  end.

Lemma rend_depth : forall t ts c, rend t ts c -> tdepth t <= List.length ts.
Proof.
  intros t ts c H. induction H; cbn [tdepth fold_right List.length]; repeat rewrite app_length; cbn [List.length]; lia.
Qed.

(* ---- token class facts *)
Definition closer_kind (k : tk) : bool :=
  match k with TkGreater | TkGreaterGreater | TkGreaterEqual | TkGreaterGreaterEqual => true | _ => false end.
Definition stop_kind (k : tk) : bool := closer_kind k || tk_eqb k TkComma.

Lemma close1_kind : forall l l', close1 l = Some l' -> closer_kind (hd_kind l) = true.
Proof. intros [|t l0] l' H; [discriminate|]. simpl in *. destruct (tkind t); try discriminate; reflexivity. Qed.

Lemma cl_S_kind : forall c l l', cl (S c) l l' -> closer_kind (hd_kind l) = true.
Proof.
  intros c. induction c as [|c IH]; intros l l' H; inversion H; subst.
  - inversion H1; subst. eapply close1_kind; eassumption.
  - eapply IH; eassumption.
Qed.

Lemma stop_follow8 : forall l, stop_kind (hd_kind l) = true -> follow 8 l /\ is_shl (hd_kind l) = false.
Proof.
  intros l H. unfold follow. unfold stop_kind, closer_kind in H.
  destruct (hd_kind l); try discriminate; (split; [split; [intros d' Hd; unfold isop; simpl; try reflexivity; apply Nat.eqb_neq; lia|reflexivity]|reflexivity]).
Qed.

Lemma plain_name_facts : forall t, plain_name t = true ->
  tk_eqb (tkind t) TkEOF = false /\ tk_eqb (tkind t) TkArray = false /\ tk_eqb (tkind t) TkPtr = false /\
  is_named_ident "binding_array" t = false /\ is_type_name t = true /\ tk_eqb (tkind t) TkGreater = false.
Proof.
  intros t H. unfold plain_name in H.
  apply andb_true_iff in H. destruct H as [H H4]. apply andb_true_iff in H. destruct H as [H H3].
  apply andb_true_iff in H. destruct H as [H1 H2].
  apply negb_true_iff in H2, H3, H4. repeat split; try assumption.
  - unfold is_type_name, kind_is in H1. destruct (tkind t); try discriminate; reflexivity.
  - unfold is_type_name, kind_is in H1. destruct (tkind t); try discriminate; reflexivity.
Qed.

Lemma rend_first : forall t ts c, rend t ts c -> exists t0 l, ts = t0 :: l /\
  tk_eqb (tkind t0) TkEOF = false /\ tk_eqb (tkind t0) TkGreater = false.
Proof.
  intros t ts c H. destruct H;
    try (destruct (plain_name_facts _ H) as [? [_ [_ [_ [_ ?]]]]]; eexists; eexists; split; [reflexivity|split; assumption]);
    eexists; eexists; (split; [reflexivity|]); rewrite H; split; reflexivity.
Qed.

(* ---- the closing helpers of the model on a token list *)
Section Close.
  Variables (N : nat) (er : list perr) (inf : bool).
  Notation st := (st N er inf).

  Lemma etc_close : forall l l', close1 l = Some l' -> expect_template_close (st l) = Ok tt (st l').
  Proof.
    intros [|[k lx] l0] l' H; [discriminate|]. simpl in H.
    destruct k; try discriminate; inversion H; subst; reflexivity.
  Qed.
  Lemma expect_err_close : forall l l', close1 l = Some l' -> expect_err TkGreater (st l) = Ok tt (st l').
  Proof.
    intros [|[k lx] l0] l' H; [discriminate|]. simpl in H.
    destruct k; try discriminate; inversion H; subst; reflexivity.
  Qed.
  Lemma expect_silent_close : forall l l', close1 l = Some l' -> expect_silent TkGreater (st l) = Ok tt (st l').
  Proof.
    intros [|[k lx] l0] l' H; [discriminate|]. simpl in H.
    destruct k; try discriminate; inversion H; subst; reflexivity.
  Qed.
End Close.

(* ---- the parser on renderings *)
Lemma starts_expr_not_gt : forall t, starts_expr t = true -> tk_eqb (tkind t) TkGreater = false.
Proof.
  intros t H. unfold starts_expr, is_numlit, is_boollit, is_ident, kind_is in H.
  destruct (tkind t); try discriminate; reflexivity.
Qed.

Lemma closers_hd : forall c cs, closers c cs -> forall k x r, tk_eqb (tkind x) k = false ->
  tk_eqb TkGreater k = false -> tk_eqb TkGreaterGreater k = false -> tk_eqb (hd_kind (cs ++ x :: r)) k = false.
Proof. intros c cs H k x r Hx H1 H2. destruct H; simpl; try rewrite H; assumption. Qed.

Lemma closer_not : forall k, closer_kind k = true ->
  tk_eqb k TkComma = false /\ tk_eqb k TkLess = false /\ tk_eqb k TkIdent = false /\ tk_eqb k TkEOF = false.
Proof. intros k H. destruct k; try discriminate; repeat split; reflexivity. Qed.

Section Main.
  Variables (N : nat) (er : list perr) (inf : bool).
  Notation st := (st N er inf).

  Ltac lens := repeat (first [rewrite app_length in * | progress cbn [List.length app] in *]); lia.

  Ltac norm := repeat first [rewrite <- app_assoc in * | progress cbn [app] in *].

  Lemma additive_LVk : forall m k s, additive (pE m) (pT m) (TBn m) s = LVk 8 m k s.
  Proof.
    intros. unfold additive, multiplicative, LVk. simpl (8 <=? 9). simpl (10 - 8). cbn [lv].
    apply binlevel_ext; [apply is_add_isop|intros]. apply binlevel_ext; [apply is_mul_isop|intros]. reflexivity.
  Qed.

  (* templateArgExpr on a rendering of an additive expression followed by `,` or a closer *)
  Lemma TA_run : forall m e te l, prints 8 e te -> stop_kind (hd_kind l) = true ->
    List.length (te ++ l) <= m -> List.length (te ++ l) <= N ->
    pTA (S m) (st (te ++ l)) = Ok e (st l).
  Proof.
    intros m e te l Hp Hs Hm HN. destruct (stop_follow8 l Hs) as [Hf Hshl].
    cbn [pTA]. unfold templateShift, binlevel.
    erewrite bind_ok; [|change (typeSpec_body (pT m) (pTA m) (pP m)) with (TBn m); rewrite (additive_LVk m (S N));
      apply (proj1 (parse_prints_all N er inf) 8 e te Hp m l (S N)); [exact Hf|exact Hm|exact HN|lia]].
    rewrite with_fuel_st. cbn [binloop].
    rewrite (if_tok_miss_hd N er inf _ is_shl) by exact Hshl. reflexivity.
  Qed.

  Lemma sep_loop_step : forall A k (item : parser A) t0 r,
    tk_eqb (tkind t0) TkEOF = false -> tk_eqb (tkind t0) TkGreater = false ->
    sep_loop (S k) TkGreater item (st (t0 :: r)) =
    (do x <- item ;; if_match TkComma (do rest <- sep_loop k TkGreater item ;; ret (x :: rest)) (ret [x])) (st (t0 :: r)).
  Proof.
    intros A k item t0 r He Hg. cbn [sep_loop]. rewrite check_cons by exact He. rewrite at_end_cons, He, Hg. reflexivity.
  Qed.

  Lemma sep_loop_close : forall A k (item : parser A) g r, 1 <= k -> tkind g = TkGreater ->
    sep_loop k TkGreater item (st (g :: r)) = Ok [] (st (g :: r)).
  Proof.
    intros A k item g r Hk Hg. destruct k as [|k]; [lia|]. cbn [sep_loop].
    rewrite check_cons by (rewrite Hg; reflexivity). rewrite Hg. reflexivity.
  Qed.

  Lemma opt_ident_miss : forall l, tk_eqb (hd_kind l) TkIdent = false -> opt_ident (st l) = Ok EmptyString (st l).
  Proof.
    intros l H. unfold opt_ident, is_ident, kind_is.
    rewrite (if_tok_miss_hd N er inf _ (fun x => tk_eqb x TkIdent)) by exact H. reflexivity.
  Qed.

  (* the first tests of typeSpec on a plain type name *)
  Lemma enter_named : forall T TA P nm r, plain_name nm = true ->
    typeSpec_body T TA P (st (nm :: r)) =
    (do ps <- if_match TkLess (do ps <- sep_list TkGreater T ;; do _ <- expect_silent TkGreater ;; ret ps) (ret []) ;;
     ret (TyNamed (tlex nm) ps)) (st r).
  Proof.
    intros T TA P nm r Hn. destruct (plain_name_facts _ Hn) as [He [Ha [Hp [Hb [Ht _]]]]].
    unfold typeSpec_body.
    rewrite if_match_miss_hd by exact Ha.
    rewrite (if_tok_miss N er inf _ (is_named_ident "binding_array")) by exact Hb.
    rewrite if_match_miss_hd by exact Hp.
    rewrite (if_tok_hit N er inf _ is_type_name) by assumption. reflexivity.
  Qed.

  Lemma enter_array : forall T TA P ar lt r, tkind ar = TkArray -> tkind lt = TkLess ->
    typeSpec_body T TA P (st (ar :: lt :: r)) =
    (do elem <- T ;; do size <- array_size TA ;; do _ <- expect_template_close ;; ret (TyArray elem size)) (st r).
  Proof.
    intros T TA P ar lt r Ha Hl. unfold typeSpec_body.
    rewrite if_match_hit by (try exact Ha; reflexivity).
    rewrite if_match_hit by (try exact Hl; reflexivity). reflexivity.
  Qed.

  Lemma enter_ptr : forall T TA P pt lt sp cm r, tkind pt = TkPtr -> tkind lt = TkLess -> is_ident sp = true ->
    tkind cm = TkComma ->
    typeSpec_body T TA P (st (pt :: lt :: sp :: cm :: r)) =
    (do p <- T ;; do acc <- if_match TkComma opt_ident (ret EmptyString) ;;
     do _ <- expect_err TkGreater ;; ret (TyPtr (tlex sp) p acc)) (st r).
  Proof.
    intros T TA P pt lt sp cm r Hp Hl Hs Hc. unfold typeSpec_body.
    rewrite if_match_miss_hd by (simpl; rewrite Hp; reflexivity).
    rewrite (if_tok_miss N er inf _ (is_named_ident "binding_array")) by (unfold is_named_ident, kind_is; rewrite Hp; reflexivity).
    rewrite if_match_hit by (try exact Hp; reflexivity).
    erewrite bind_ok; [|apply expect_err_hit; [exact Hl|reflexivity]].
    pose proof (kind_is_eq _ _ Hs) as Hsk.
    erewrite bind_ok; [|unfold take, take_pred; rewrite if_tok_hit; [reflexivity|exact Hs|rewrite Hsk; reflexivity]].
    erewrite bind_ok; [|apply expect_err_hit; [exact Hc|reflexivity]]. reflexivity.
  Qed.

  Theorem parse_rend : forall t ts c, rend t ts c -> forall n l l',
    cl c l l' -> (c = 0 -> tk_eqb (hd_kind l) TkLess = false) ->
    List.length (ts ++ l) <= n -> List.length (ts ++ l) <= N ->
    pT n (st (ts ++ l)) = Ok t (st l').
  Proof.
    intros t ts c H.
    induction H as
      [ nm Hn
      | nm lt T ts c Hn Hlt Hr IH
      | nm lt T ts c cs cm g Hn Hlt Hr IH Hcs Hcm Hg
      | ar lt T ts c Har Hlt Hr IH
      | ar lt T ts c cs cm g Har Hlt Hr IH Hcs Hcm Hg
      | ar lt T ts c cs cm e te Har Hlt Hr IH Hcs Hcm Hp
      | ar lt T ts c cs cm e te cm2 Har Hlt Hr IH Hcs Hcm Hp Hcm2
      | pt lt sp cm T ts c Hpt Hlt Hsp Hcm Hr IH
      | pt lt sp cm T ts c cs cm2 Hpt Hlt Hsp Hcm Hr IH Hcs Hcm2
      | pt lt sp cm T ts c cs cm2 acc Hpt Hlt Hsp Hcm Hr IH Hcs Hcm2 Hacc ];
      intros n l l' Hcl H0 Hn' HN.
    - (* name *)
      inversion Hcl; subst. destruct n as [|m]; [simpl in Hn'; lia|]. cbn [pT app].
      rewrite enter_named by exact Hn.
      erewrite bind_ok; [reflexivity|]. rewrite if_match_miss_hd by (apply H0; reflexivity). reflexivity.
    - (* name<T> *)
      inversion Hcl as [|c' la l1 lb Hc1 Hclose]; subst.
      destruct (closer_not _ (close1_kind _ _ Hclose)) as [Hk1 _].
      destruct n as [|m]; [simpl in Hn'; lia|]. cbn [pT app].
      rewrite enter_named by exact Hn.
      erewrite bind_ok; [reflexivity|].
      rewrite if_match_hit by (try exact Hlt; reflexivity).
      destruct (rend_first _ _ _ Hr) as [t0 [l0 [-> [He Hg0]]]].
      erewrite bind_ok; [|unfold sep_list; rewrite with_fuel_st; cbn [app]; rewrite sep_loop_step by assumption;
        erewrite bind_ok; [|apply (IH m l l1 Hc1); [intros ->; inversion Hc1; subst; destruct (closer_not _ (close1_kind _ _ Hclose)) as [_ [Hx _]]; exact Hx|lens|lens]];
        rewrite if_match_miss_hd by exact Hk1; reflexivity].
      erewrite bind_ok; [reflexivity|]. apply expect_silent_close. exact Hclose.
    - (* name<T,> *)
      inversion Hcl; subst.
      destruct n as [|m]; [simpl in Hn'; lia|]. cbn [pT app].
      rewrite enter_named by exact Hn.
      erewrite bind_ok; [reflexivity|].
      rewrite if_match_hit by (try exact Hlt; reflexivity).
      norm.
      destruct (rend_first _ _ _ Hr) as [t0 [l0 [-> [He Hg0]]]].
      assert (HN1 : 1 <= N) by lens.
      erewrite bind_ok; [|unfold sep_list; rewrite with_fuel_st; cbn [app]; rewrite sep_loop_step by assumption;
        erewrite bind_ok; [|apply (IH m (cs ++ cm :: g :: l') (cm :: g :: l') (closers_cl _ _ Hcs _));
           [intros _; apply (closers_hd _ _ Hcs); [rewrite Hcm; reflexivity|reflexivity|reflexivity]|lens|lens]];
        rewrite if_match_hit by (try exact Hcm; reflexivity);
        erewrite bind_ok; [reflexivity|]; apply sep_loop_close; assumption].
      erewrite bind_ok; [reflexivity|]. apply expect_silent_close. simpl. rewrite Hg. reflexivity.
    - (* array<T> *)
      inversion Hcl as [|c' la l1 lb Hc1 Hclose]; subst.
      destruct (closer_not _ (close1_kind _ _ Hclose)) as [Hk1 [Hk2 _]].
      destruct n as [|m]; [simpl in Hn'; lia|]. cbn [pT app].
      rewrite enter_array by assumption.
      erewrite bind_ok; [|apply (IH m l l1 Hc1); [intros ->; inversion Hc1; subst; exact Hk2|lens|lens]].
      erewrite bind_ok; [|unfold array_size; rewrite if_match_miss_hd by exact Hk1; reflexivity].
      erewrite bind_ok; [reflexivity|]. apply etc_close. exact Hclose.
    - (* array<T,> *)
      inversion Hcl; subst.
      destruct n as [|m]; [simpl in Hn'; lia|]. cbn [pT app].
      rewrite enter_array by assumption. norm.
      erewrite bind_ok; [|apply (IH m (cs ++ cm :: g :: l') (cm :: g :: l') (closers_cl _ _ Hcs _));
           [intros _; apply (closers_hd _ _ Hcs); [rewrite Hcm; reflexivity|reflexivity|reflexivity]|lens|lens]].
      erewrite bind_ok; [|unfold array_size; rewrite if_match_hit by (try exact Hcm; reflexivity);
        unfold if_check; rewrite check_cons by (rewrite Hg; reflexivity); rewrite Hg; reflexivity].
      erewrite bind_ok; [reflexivity|]. apply etc_close. simpl. rewrite Hg. reflexivity.
    - (* array<T, n> *)
      inversion Hcl as [|c' la l1 lb Hc1 Hclose]; subst. inversion Hc1; subst.
      pose proof (close1_kind _ _ Hclose) as Hck. destruct (closer_not _ Hck) as [Hk1 _].
      destruct n as [|m]; [simpl in Hn'; lia|]. cbn [pT app].
      rewrite enter_array by assumption. norm.
      erewrite bind_ok; [|apply (IH m (cs ++ cm :: te ++ l1) (cm :: te ++ l1) (closers_cl _ _ Hcs _));
           [intros _; apply (closers_hd _ _ Hcs); [rewrite Hcm; reflexivity|reflexivity|reflexivity]|lens|lens]].
      destruct (prints_first _ _ _ Hp) as [t1 [l2 [Ete Hs]]]. destruct (starts_expr_facts _ Hs) as [Hne _].
      destruct m as [|m']; [exfalso; lens|].
      erewrite bind_ok; [|unfold array_size; rewrite if_match_hit by (try exact Hcm; reflexivity);
        unfold if_check; rewrite Ete; cbn [app]; rewrite check_cons by exact Hne; rewrite (starts_expr_not_gt _ Hs); rewrite <- Ete;
        change (t1 :: l2 ++ l1) with ((t1 :: l2) ++ l1); rewrite <- Ete;
        erewrite bind_ok; [|apply TA_run; [exact Hp|unfold stop_kind; rewrite Hck; reflexivity|lens|lens]];
        erewrite bind_ok; [reflexivity|]; unfold matchp; rewrite if_match_miss_hd by exact Hk1; reflexivity].
      erewrite bind_ok; [reflexivity|]. apply etc_close. exact Hclose.
    - (* array<T, n,> *)
      inversion Hcl as [|c' la l1 lb Hc1 Hclose]; subst. inversion Hc1; subst.
      destruct n as [|m]; [simpl in Hn'; lia|]. cbn [pT app].
      rewrite enter_array by assumption. norm.
      erewrite bind_ok; [|apply (IH m (cs ++ cm :: te ++ cm2 :: l1) (cm :: te ++ cm2 :: l1) (closers_cl _ _ Hcs _));
           [intros _; apply (closers_hd _ _ Hcs); [rewrite Hcm; reflexivity|reflexivity|reflexivity]|lens|lens]].
      destruct (prints_first _ _ _ Hp) as [t1 [l2 [Ete Hs]]]. destruct (starts_expr_facts _ Hs) as [Hne _].
      destruct m as [|m']; [exfalso; lens|].
      erewrite bind_ok; [|unfold array_size; rewrite if_match_hit by (try exact Hcm; reflexivity);
        unfold if_check; rewrite Ete; cbn [app]; rewrite check_cons by exact Hne; rewrite (starts_expr_not_gt _ Hs);
        change (t1 :: l2 ++ cm2 :: l1) with ((t1 :: l2) ++ cm2 :: l1); rewrite <- Ete;
        erewrite bind_ok; [|apply TA_run; [exact Hp|simpl; rewrite Hcm2; reflexivity|lens|lens]];
        erewrite bind_ok; [reflexivity|]; unfold matchp; rewrite if_match_hit by (try exact Hcm2; reflexivity); reflexivity].
      erewrite bind_ok; [reflexivity|]. apply etc_close. exact Hclose.
    - (* ptr<space, T> *)
      inversion Hcl as [|c' la l1 lb Hc1 Hclose]; subst.
      destruct (closer_not _ (close1_kind _ _ Hclose)) as [Hk1 [Hk2 _]].
      destruct n as [|m]; [simpl in Hn'; lia|]. cbn [pT app].
      rewrite enter_ptr by assumption.
      erewrite bind_ok; [|apply (IH m l l1 Hc1); [intros ->; inversion Hc1; subst; exact Hk2|lens|lens]].
      erewrite bind_ok; [|rewrite if_match_miss_hd by exact Hk1; reflexivity].
      erewrite bind_ok; [reflexivity|]. apply expect_err_close. exact Hclose.
    - (* ptr<space, T,> *)
      inversion Hcl as [|c' la l1 lb Hc1 Hclose]; subst. inversion Hc1; subst.
      destruct (closer_not _ (close1_kind _ _ Hclose)) as [_ [_ [Hk3 _]]].
      destruct n as [|m]; [simpl in Hn'; lia|]. cbn [pT app].
      rewrite enter_ptr by assumption. norm.
      erewrite bind_ok; [|apply (IH m (cs ++ cm2 :: l1) (cm2 :: l1) (closers_cl _ _ Hcs _));
           [intros _; apply (closers_hd _ _ Hcs); [rewrite Hcm2; reflexivity|reflexivity|reflexivity]|lens|lens]].
      erewrite bind_ok; [|rewrite if_match_hit by (try exact Hcm2; reflexivity); apply opt_ident_miss; exact Hk3].
      erewrite bind_ok; [reflexivity|]. apply expect_err_close. exact Hclose.
    - (* ptr<space, T, access> *)
      inversion Hcl as [|c' la l1 lb Hc1 Hclose]; subst. inversion Hc1; subst.
      destruct n as [|m]; [simpl in Hn'; lia|]. cbn [pT app].
      rewrite enter_ptr by assumption. norm.
      erewrite bind_ok; [|apply (IH m (cs ++ cm2 :: acc :: l1) (cm2 :: acc :: l1) (closers_cl _ _ Hcs _));
           [intros _; apply (closers_hd _ _ Hcs); [rewrite Hcm2; reflexivity|reflexivity|reflexivity]|lens|lens]].
      pose proof (kind_is_eq _ _ Hacc) as Hak.
      erewrite bind_ok; [|rewrite if_match_hit by (try exact Hcm2; reflexivity); unfold opt_ident;
        rewrite if_tok_hit; [reflexivity|exact Hacc|rewrite Hak; reflexivity]].
      erewrite bind_ok; [reflexivity|]. apply expect_err_close. exact Hclose.
  Qed.
End Main.

(* ================================================================ corollaries for the entry point typeSpec *)

Lemma closers_zero : forall cs, closers 0 cs -> cs = [].
Proof. intros cs H. inversion H. reflexivity. Qed.

(* EVERY rendering of t, with the owed closers cut into `>` / `>>` tokens in any way, followed by anything
   (a `<` excepted after a bare name), is parsed by typeSpec to exactly t, leaving exactly what follows.
   The fuel of typeSpec (length of the whole token list + 1) suffices: hypothesis `length <= N` (N = total). *)
Theorem typeSpec_rend : forall N er inf t ts c cs rest,
  rend t ts c -> closers c cs -> (c = 0 -> tk_eqb (hd_kind rest) TkLess = false) ->
  List.length (ts ++ cs ++ rest) <= N ->
  typeSpec (st N er inf (ts ++ cs ++ rest)) = Ok t (st N er inf rest).
Proof.
  intros N er inf t ts c cs rest Hr Hcs H0 HN. unfold typeSpec. rewrite with_fuel_st.
  apply (parse_rend N er inf t ts c Hr (S N) (cs ++ rest) rest (closers_cl _ _ Hcs _)); [|lia|exact HN].
  intros ->. rewrite (closers_zero _ Hcs). apply H0. reflexivity.
Qed.

(* the same when an `=` follows without a blank: the last closer(s) arrive inside `>=` / `>>=`; afterwards the
   current token is an `=` *)
Theorem typeSpec_rend_eq : forall N er inf t ts c cs rest,
  rend t ts c -> closers_eq c cs -> List.length (ts ++ cs ++ rest) <= N ->
  exists e, tkind e = TkEqual /\
  typeSpec (st N er inf (ts ++ cs ++ rest)) = Ok t (st N er inf (e :: rest)).
Proof.
  intros N er inf t ts c cs rest Hr Hcs HN. destruct (closers_eq_cl _ _ Hcs rest) as [e [He Hcl]].
  exists e. split; [exact He|]. unfold typeSpec. rewrite with_fuel_st.
  apply (parse_rend N er inf t ts c Hr (S N) (cs ++ rest) (e :: rest) Hcl); [|lia|exact HN].
  intros ->. inversion Hcs as [c0 cs0 e0 Hc0 He0| |]; subst. rewrite (closers_zero _ Hc0). simpl. rewrite He0. reflexivity.
Qed.

(* ---- declaration contexts.  `var x: T = e;` / `override x: T = e;` run opt_type then opt_init (varDecl_rest,
   overrideDecl_rest); `let x: T = e;` / `const x: T = e;` run opt_type, expect_err TkEqual, expression
   (constDecl_rest).  The tails after the name: *)
Definition var_tail : parser (option ty * option expr) :=
  do t <- opt_type ;; do i <- opt_init ;; ret (t, i).
Definition let_tail : parser (option ty * expr) :=
  do t <- opt_type ;; do _ <- expect_err TkEqual ;; do i <- expression ;; ret (t, i).

Section Decl.
  Variables (N : nat) (er : list perr) (inf : bool).
  Notation st := (st N er inf).

  (* `: T = e` in all spellings of the closers and of the `=` (separate, `>=`, `>>=`) *)
  Theorem var_tail_rend : forall colon t ts c cs e te rest,
    tkind colon = TkColon -> rend t ts c -> closers_eq c cs -> prints 0 e te -> follow 0 rest ->
    List.length (colon :: ts ++ cs ++ te ++ rest) <= N ->
    var_tail (st (colon :: ts ++ cs ++ te ++ rest)) = Ok (Some t, Some e) (st rest).
  Proof.
    intros colon t ts c cs e te rest Hco Hr Hcs Hp Hf HN.
    destruct (typeSpec_rend_eq N er inf t ts c cs (te ++ rest) Hr Hcs) as [q [Hq Hty]]; [simpl in HN; lia|].
    assert (Hlen : List.length (te ++ rest) <= N).
    { simpl in HN. repeat rewrite app_length in HN. rewrite app_length. lia. }
    unfold var_tail.
    erewrite bind_ok; [|unfold opt_type; rewrite if_match_hit by (try exact Hco; reflexivity);
      erewrite bind_ok; [reflexivity|exact Hty]].
    erewrite bind_ok; [reflexivity|]. unfold opt_init. rewrite if_match_hit by (try exact Hq; reflexivity).
    erewrite bind_ok; [reflexivity|]. apply parse_prints; assumption.
  Qed.

  Theorem let_tail_rend : forall colon t ts c cs e te rest,
    tkind colon = TkColon -> rend t ts c -> closers_eq c cs -> prints 0 e te -> follow 0 rest ->
    List.length (colon :: ts ++ cs ++ te ++ rest) <= N ->
    let_tail (st (colon :: ts ++ cs ++ te ++ rest)) = Ok (Some t, e) (st rest).
  Proof.
    intros colon t ts c cs e te rest Hco Hr Hcs Hp Hf HN.
    destruct (typeSpec_rend_eq N er inf t ts c cs (te ++ rest) Hr Hcs) as [q [Hq Hty]]; [simpl in HN; lia|].
    assert (Hlen : List.length (te ++ rest) <= N).
    { simpl in HN. repeat rewrite app_length in HN. rewrite app_length. lia. }
    unfold let_tail.
    erewrite bind_ok; [|unfold opt_type; rewrite if_match_hit by (try exact Hco; reflexivity);
      erewrite bind_ok; [reflexivity|exact Hty]].
    erewrite bind_ok; [|apply expect_err_hit; [exact Hq|reflexivity]].
    erewrite bind_ok; [reflexivity|]. apply parse_prints; assumption.
  Qed.
End Decl.

(* the tails are what the declaration parsers run after the name *)
Lemma varDecl_rest_tail : forall attrs s,
  varDecl_rest attrs s =
  (do sa <- if_match TkLess
          (do sp <- opt_ident ;; do acc <- if_match TkComma opt_ident (ret EmptyString) ;;
           do _ <- expect_silent TkGreater ;; ret (sp, acc))
          (ret (EmptyString, EmptyString)) ;;
   do name <- take TkIdent EVariableName ;;
   do ti <- var_tail ;; do _ <- expect_semicolon ;;
   ret (mkvar (tlex name) (fst ti) (snd ti) (fst sa) (snd sa) attrs)) s.
Proof.
  intros attrs s. unfold varDecl_rest, var_tail, bind.
  destruct (if_match TkLess _ _ s) as [sa s1| |]; try reflexivity.
  destruct (take TkIdent EVariableName s1) as [nm s2| |]; try reflexivity.
  destruct (opt_type s2) as [t s3| |]; try reflexivity.
  destruct (opt_init s3) as [i s4| |]; reflexivity.
Qed.

Lemma constDecl_rest_tail : forall ek isc s,
  constDecl_rest ek isc s =
  (do name <- take TkIdent ek ;; do ti <- let_tail ;; do _ <- expect_semicolon ;;
   ret (mkconst (tlex name) (fst ti) (snd ti) isc)) s.
Proof.
  intros ek isc s. unfold constDecl_rest, let_tail, bind.
  destruct (take TkIdent ek s) as [nm s2| |]; try reflexivity.
  destruct (opt_type s2) as [t s3| |]; try reflexivity.
  destruct (expect_err TkEqual s3) as [u s4| |]; try reflexivity.
  destruct (expression s4) as [i s5| |]; reflexivity.
Qed.

(* literal and identifier element counts are renderings of every depth *)
Lemma prints_lit : forall t d, is_numlit t = true -> d <= 11 -> prints d (ELit (tkind t) (tlex t)) [t].
Proof.
  intros t d Ht Hd. apply (prints_down 11 d); [|exact Hd|lia]. change [t] with ([t] ++ []).
  apply (P_post (ELit (tkind t) (tlex t)) [t] _ []); [apply PR_num; exact Ht|apply PT_nil].
Qed.
Lemma prints_ident : forall t d, is_ident t = true -> String.eqb (tlex t) "bitcast" = false -> d <= 11 ->
  prints d (EIdent (tlex t)) [t].
Proof.
  intros t d Ht Hb Hd. apply (prints_down 11 d); [|exact Hd|lia]. change [t] with ([t] ++ []).
  apply (P_post (EIdent (tlex t)) [t] _ []); [apply PR_ident; assumption|apply PT_nil].
Qed.
