(* Basic facts about token kinds: tk_eqb decides equality. *)
From Coq Require Import List String NArith Bool Arith Lia.
Import ListNotations.
Require Import Naga.Parse.Ast.

Lemma tk_nth : forall k, nth (N.to_nat (tk_code k)) all_tk TkEOF = k.
Proof. intros k; destruct k; vm_compute; reflexivity. Qed.

Lemma tk_code_inj : forall a b, tk_code a = tk_code b -> a = b.
Proof. intros a b H. rewrite <- (tk_nth a), <- (tk_nth b), H. reflexivity. Qed.

Lemma tk_eqb_eq : forall a b, tk_eqb a b = true <-> a = b.
Proof.
  intros a b. unfold tk_eqb. rewrite N.eqb_eq. split; [apply tk_code_inj|intros ->; reflexivity].
Qed.

Lemma tk_eqb_refl : forall a, tk_eqb a a = true.
Proof. intros a. apply tk_eqb_eq. reflexivity. Qed.

Lemma tk_eqb_neq : forall a b, tk_eqb a b = false <-> a <> b.
Proof.
  intros a b. split.
  - intros H E. apply tk_eqb_eq in E. congruence.
  - intros H. destruct (tk_eqb a b) eqn:E; [apply tk_eqb_eq in E; contradiction|reflexivity].
Qed.

Lemma tk_eqb_spec : forall a b, reflect (a = b) (tk_eqb a b).
Proof. intros a b. destruct (tk_eqb a b) eqn:E; constructor; [apply tk_eqb_eq|apply tk_eqb_neq]; exact E. Qed.

Lemma tk_code_bound : forall k, (N.to_nat (tk_code k) < List.length all_tk)%nat.
Proof. intros k. apply Nat.ltb_lt. destruct k; vm_compute; reflexivity. Qed.

Lemma all_tk_complete : forall k, In k all_tk.
Proof. intros k. rewrite <- (tk_nth k). apply nth_In. apply tk_code_bound. Qed.
