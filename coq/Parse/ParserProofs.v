(* Termination / progress / error-position theorems for the parser model (properties C10, C11).

   Judgement  snd_ strict m p :  on every well-formed state with fewer than m remaining tokens, p
     - does not run out of fuel,
     - never moves backwards (Ok and Err: remaining tokens do not increase, `total` unchanged),
     - consumes at least one token on success when strict = true,
     - reports an error at the index of the token that is current when it fails (>= the start index).
   The lemmas follow the structure of ParserModel.v combinator by combinator; which loop relies on which
   consumption argument is stated at each loop lemma. *)
From Coq Require Import List String NArith Bool Arith Lia.
Import ListNotations.
Require Import Naga.Parse.Ast Naga.Parse.TkFacts Naga.Parse.ParserModel.

Definition wfst (s : pstate) : Prop := len s <= total s.

Definition post {A} (strict : bool) (s : pstate) (r : res A) : Prop :=
  match r with
  | Ok _ s' => total s' = total s /\ (if strict then len s' < len s else len s' <= len s)
  | Err e s' => total s' = total s /\ len s' <= len s /\ perr_idx e = cur_idx s'
  | Oof => False
  end.

Definition snd_ (strict : bool) (m : nat) {A} (p : parser A) : Prop :=
  forall s, len s < m -> wfst s -> post strict s (p s).

Lemma post_weaken : forall A b s (r : res A), post true s r -> post b s r.
Proof. intros A b s r; destruct r, b; simpl; intuition lia. Qed.

Lemma snd_weaken : forall A m (p : parser A) b, snd_ true m p -> snd_ b m p.
Proof. intros A m p b H s Hl Hw. apply post_weaken. apply H; assumption. Qed.

Lemma snd_le : forall A b m m' (p : parser A), snd_ b m p -> m' <= m -> snd_ b m' p.
Proof. intros A b m m' p H Hle s Hl Hw. apply H; [lia|assumption]. Qed.

Lemma snd_use : forall A b m m' (p : parser A), snd_ true m p -> m' <= m -> snd_ b m' p.
Proof. intros. apply snd_weaken. eapply snd_le; eauto. Qed.

Lemma snd_eta : forall A b m (p : parser A), snd_ b m p -> snd_ b m (fun s => p s).
Proof. intros A b m p H. exact H. Qed.

(* ---- state helpers *)
Lemma at_end_nil : forall s, toks s = [] -> at_end s = true.
Proof. intros s H. unfold at_end, peek. rewrite H. reflexivity. Qed.

Lemma adv_len : forall s, at_end s = false -> len (adv s) = pred (len s) /\ 0 < len s.
Proof.
  intros s H. unfold adv. rewrite H. unfold len, set_toks. simpl.
  destruct (toks s) eqn:E; [rewrite (at_end_nil s E) in H; discriminate|simpl; lia].
Qed.

Lemma adv_total : forall s, total (adv s) = total s.
Proof. intros s. unfold adv. destruct (at_end s); reflexivity. Qed.

Lemma adv_len_le : forall s, len (adv s) <= len s.
Proof.
  intros s. unfold adv. destruct (at_end s) eqn:E; [lia|].
  unfold len, set_toks; simpl. destruct (toks s); simpl; lia.
Qed.

Lemma check_not_end : forall k s, check k s = true -> at_end s = false.
Proof. intros k s H. unfold check in H. destruct (at_end s); [discriminate|reflexivity]. Qed.

Lemma set_head_len : forall t s, at_end s = false -> len (set_head t s) = len s.
Proof.
  intros t s H. unfold set_head, len, set_toks. simpl.
  destruct (toks s) eqn:E; [rewrite (at_end_nil s E) in H; discriminate|reflexivity].
Qed.

(* ---- combinators *)
Lemma snd_ret : forall A m (a : A), snd_ false m (ret a).
Proof. intros A m a s _ _. simpl. split; [reflexivity|lia]. Qed.

Lemma snd_fail : forall A b m k, snd_ b m (@fail A k).
Proof. intros A b m k s _ _. simpl. repeat split; lia. Qed.

Lemma snd_oof_0 : forall A b, snd_ b 0 (@oof A).
Proof. intros A b s Hl. lia. Qed.

(* p not strict: the continuation runs at the same bound *)
Lemma snd_bind : forall A B b m (p : parser A) (f : A -> parser B),
  snd_ false m p -> (forall a, snd_ b m (f a)) -> snd_ b m (bind p f).
Proof.
  intros A B b m p f Hp Hf s Hl Hw. unfold bind. specialize (Hp s Hl Hw).
  destruct (p s) as [a s1|e s1|]; simpl in Hp; [|exact Hp|contradiction].
  destruct Hp as [Ht Hle]. assert (Hl1 : len s1 < m) by lia.
  assert (Hw1 : wfst s1) by (unfold wfst in *; lia).
  specialize (Hf a s1 Hl1 Hw1). destruct (f a s1) as [c s2|e s2|]; simpl in *; [|intuition lia|contradiction].
  destruct b; intuition lia.
Qed.

(* p strict: the continuation only has to be sound one level below, and the whole is strict *)
Lemma snd_bind_strict : forall A B b m (p : parser A) (f : A -> parser B),
  snd_ true m p -> (forall a, snd_ false (pred m) (f a)) -> snd_ b m (bind p f).
Proof.
  intros A B b m p f Hp Hf s Hl Hw. apply post_weaken. unfold bind. specialize (Hp s Hl Hw).
  destruct (p s) as [a s1|e s1|]; simpl in Hp; [|exact Hp|contradiction].
  destruct Hp as [Ht Hlt]. assert (Hl1 : len s1 < pred m) by lia.
  assert (Hw1 : wfst s1) by (unfold wfst in *; lia).
  specialize (Hf a s1 Hl1 Hw1). destruct (f a s1) as [c s2|e s2|]; simpl in *; [|intuition lia|contradiction].
  intuition lia.
Qed.

Lemma snd_if_tok : forall A b m pred_ (pt : token -> parser A) pe,
  (forall t, snd_ false (pred m) (pt t)) -> snd_ b m pe -> snd_ b m (if_tok pred_ pt pe).
Proof.
  intros A b m pred_ pt pe Ht He s Hl Hw. unfold if_tok.
  destruct (negb (at_end s) && pred_ (peek s)) eqn:E; [|apply He; assumption].
  apply andb_prop in E. destruct E as [E _]. apply negb_true_iff in E.
  destruct (adv_len s E) as [Hal Hpos]. pose proof (adv_total s) as Hat.
  assert (Hl1 : len (adv s) < pred m) by lia.
  assert (Hw1 : wfst (adv s)) by (unfold wfst in *; lia).
  specialize (Ht (peek s) (adv s) Hl1 Hw1). apply post_weaken.
  destruct (pt (peek s) (adv s)) as [c s2|e s2|]; simpl in *; [|intuition lia|contradiction].
  intuition lia.
Qed.

Lemma snd_if_match : forall A b m k (pt pe : parser A),
  snd_ false (pred m) pt -> snd_ b m pe -> snd_ b m (if_match k pt pe).
Proof. intros. unfold if_match. apply snd_if_tok; auto. Qed.

Lemma snd_if_check : forall A b m k (pt pe : parser A),
  snd_ b m pt -> snd_ b m pe -> snd_ b m (if_check k pt pe).
Proof. intros A b m k pt pe Ht He s Hl Hw. unfold if_check. destruct (check k s); [apply Ht|apply He]; assumption. Qed.

Lemma snd_if_peek : forall A b m pr (pt pe : parser A),
  snd_ b m pt -> snd_ b m pe -> snd_ b m (if_peek pr pt pe).
Proof. intros A b m pr pt pe Ht He s Hl Hw. unfold if_peek. destruct (pr (peek s)); [apply Ht|apply He]; assumption. Qed.

Lemma snd_matchp : forall m k, snd_ false m (matchp k).
Proof. intros. unfold matchp. apply snd_if_match; apply snd_ret. Qed.

Lemma snd_take_pred : forall b m pr ek, snd_ b m (take_pred pr ek).
Proof. intros. unfold take_pred. apply snd_if_tok; [intros; apply snd_ret|apply snd_fail]. Qed.

Lemma snd_take : forall b m k ek, snd_ b m (take k ek).
Proof. intros. apply snd_take_pred. Qed.

Lemma snd_expect_template_close : forall m, snd_ false m expect_template_close.
Proof.
  intros m s Hl Hw. unfold expect_template_close.
  destruct (check TkGreater s) eqn:E1.
  { simpl. rewrite adv_total. split; [reflexivity|apply adv_len_le]. }
  destruct (check TkGreaterGreater s) eqn:E2.
  { apply check_not_end in E2. simpl. rewrite (set_head_len _ _ E2). split; [reflexivity|lia]. }
  destruct (check TkGreaterEqual s) eqn:E3.
  { apply check_not_end in E3. simpl. rewrite (set_head_len _ _ E3). split; [reflexivity|lia]. }
  destruct (check TkGreaterGreaterEqual s) eqn:E4.
  { apply check_not_end in E4. simpl. rewrite (set_head_len _ _ E4). split; [reflexivity|lia]. }
  simpl. repeat split; lia.
Qed.

Lemma snd_expect_err : forall m k, snd_ false m (expect_err k).
Proof.
  intros m k s Hl Hw. unfold expect_err.
  destruct (check k s) eqn:E.
  - simpl. rewrite adv_total. split; [reflexivity|apply adv_len_le].
  - destruct (tk_eqb k TkGreater).
    + exact (snd_expect_template_close m s Hl Hw).
    + simpl. repeat split; lia.
Qed.

(* expectErr of anything but `>` consumes a token on success *)
Lemma snd_expect_err_strict : forall b m k, tk_eqb k TkGreater = false -> snd_ b m (expect_err k).
Proof.
  intros b m k Hk s Hl Hw. apply post_weaken. unfold expect_err. rewrite Hk.
  destruct (check k s) eqn:E.
  - simpl. rewrite adv_total. apply check_not_end in E. destruct (adv_len s E). split; [reflexivity|lia].
  - simpl. repeat split; lia.
Qed.

Lemma snd_expect_silent : forall m k, snd_ false m (expect_silent k).
Proof.
  intros m k s Hl Hw. unfold expect_silent.
  destruct (check k s) eqn:E.
  - simpl. rewrite adv_total. split; [reflexivity|apply adv_len_le].
  - destruct (tk_eqb k TkGreater).
    + pose proof (snd_expect_template_close m s Hl Hw) as H.
      destruct (expect_template_close s) as [a s1|e s1|]; simpl in *; [exact H|split; [reflexivity|lia]|contradiction].
    + simpl. split; [reflexivity|lia].
Qed.

Lemma snd_expect_semicolon : forall m, snd_ false m expect_semicolon.
Proof.
  intros m s Hl Hw. unfold expect_semicolon. destruct (infor s).
  - simpl. split; [reflexivity|lia].
  - exact (snd_expect_err m TkSemicolon s Hl Hw).
Qed.

Lemma snd_expect_record : forall m k, snd_ false m (expect_record k).
Proof.
  intros m k s Hl Hw. unfold expect_record. pose proof (snd_expect_err m k s Hl Hw) as H.
  destruct (expect_err k s) as [a s1|e s1|]; simpl in *; [exact H| |contradiction].
  unfold add_err, len in *. simpl. intuition lia.
Qed.

(* with_fuel: the counter handed to a loop exceeds the number of remaining tokens *)
Lemma snd_with_fuel : forall A b m (f : nat -> parser A),
  (forall k s, len s < k -> len s < m -> wfst s -> post b s (f k s)) -> snd_ b m (with_fuel f).
Proof. intros A b m f H s Hl Hw. unfold with_fuel. apply H; [unfold wfst in Hw; lia|assumption|assumption]. Qed.

(* ---- loops *)

(* sep_loop: an iteration that goes round has consumed the separating comma *)
Lemma sep_loop_post : forall A m close (item : parser A), snd_ false m item ->
  forall k s, len s < k -> len s < m -> wfst s -> post false s (sep_loop k close item s).
Proof.
  intros A m close item Hi k. induction k as [|k IH]; intros s Hk Hl Hw; [lia|].
  cbn [sep_loop]. destruct (check close s || at_end s); [simpl; split; [reflexivity|lia]|].
  revert s Hl Hw Hk.
  change (forall s, len s < m -> wfst s -> len s < S k ->
          post false s (bind item (fun x => if_match TkComma (bind (sep_loop k close item) (fun rest => ret (x :: rest))) (ret [x])) s)).
  intros s Hl Hw Hk.
  assert (Hgen : snd_ false (Nat.min m (S k)) (bind item (fun x => if_match TkComma (bind (sep_loop k close item) (fun rest => ret (x :: rest))) (ret [x])))).
  { apply snd_bind; [eapply snd_le; [exact Hi|lia]|]. intros x. apply snd_if_match; [|apply snd_ret].
    apply snd_bind; [|intros; apply snd_ret].
    intros s' Hl' Hw'. apply IH; [lia|lia|assumption]. }
  apply Hgen; [lia|assumption].
Qed.

Lemma snd_sep_list : forall A m close (item : parser A), snd_ false m item -> snd_ false m (sep_list close item).
Proof. intros. unfold sep_list. apply snd_with_fuel. intros. eapply sep_loop_post; eauto. Qed.

(* many_loop: relies on the item consuming at least one token when it succeeds *)
Lemma many_loop_post : forall A m stops (item : parser A), snd_ true m item ->
  forall k s, len s < k -> len s < m -> wfst s -> post false s (many_loop k stops item s).
Proof.
  intros A m stops item Hi k. induction k as [|k IH]; intros s Hk Hl Hw; [lia|].
  cbn [many_loop]. destruct (any_check stops s || at_end s); [simpl; split; [reflexivity|lia]|].
  assert (Hgen : snd_ false (Nat.min m (S k)) (bind item (fun x => bind (many_loop k stops item) (fun rest => ret (x :: rest))))).
  { apply snd_bind_strict; [eapply snd_le; [exact Hi|lia]|]. intros x.
    apply snd_bind; [|intros; apply snd_ret].
    intros s' Hl' Hw'. apply IH; [lia|lia|assumption]. }
  apply Hgen; [lia|assumption].
Qed.

Lemma snd_many_until : forall A m stops (item : parser A), snd_ true m item -> snd_ false m (many_until stops item).
Proof. intros. unfold many_until. apply snd_with_fuel. intros. eapply many_loop_post; eauto. Qed.

(* binloop: every iteration consumes the operator token *)
Lemma binloop_post : forall m isop (sub : parser expr), snd_ false m sub ->
  forall k left s, len s < k -> len s < m -> wfst s -> post false s (binloop k isop sub left s).
Proof.
  intros m isop sub Hs k. induction k as [|k IH]; intros left s Hk Hl Hw; [lia|].
  cbn [binloop].
  assert (Hgen : snd_ false (Nat.min m (S k))
            (if_tok (fun t => isop (tkind t))
               (fun op => bind sub (fun right => binloop k isop sub (EBinary left (tkind op) right))) (ret left))).
  { apply snd_if_tok; [|apply snd_ret]. intros t. apply snd_bind; [eapply snd_le; [exact Hs|lia]|].
    intros r s' Hl' Hw'. apply IH; [lia|lia|assumption]. }
  apply Hgen; [lia|assumption].
Qed.

Lemma snd_binlevel : forall b m isop (sub : parser expr), snd_ b m sub -> snd_ b m (binlevel isop sub).
Proof.
  intros b m isop sub Hs. unfold binlevel.
  assert (Hf : snd_ false m sub) by (destruct b; [apply snd_weaken|]; exact Hs).
  assert (Hloop : forall left, snd_ false m (with_fuel (fun k => binloop k isop sub left))).
  { intros left. apply snd_with_fuel. intros. eapply binloop_post; eauto. }
  destruct b.
  - apply snd_bind_strict; [exact Hs|]. intros left. eapply snd_le; [apply Hloop|lia].
  - apply snd_bind; [exact Hs|exact Hloop].
Qed.

(* ---- syntax-directed automation *)
Ltac use_hyp :=
  match goal with
  | H : snd_ true ?m1 ?p |- snd_ _ ?m2 ?p => apply (snd_use _ _ m1 m2 p H); lia
  | H : snd_ false ?m1 ?p |- snd_ false ?m2 ?p => apply (snd_le _ _ m1 m2 p H); lia
  | H : forall x, snd_ true ?m1 (?p x) |- snd_ _ ?m2 (?p ?y) => apply (snd_use _ _ m1 m2 (p y) (H y)); lia
  | H : forall x, snd_ false ?m1 (?p x) |- snd_ false ?m2 (?p ?y) => apply (snd_le _ _ m1 m2 (p y) (H y)); lia
  | H : forall x y z, snd_ false ?m1 (?p x y z) |- snd_ false ?m2 (?p ?a ?b ?c) =>
      apply (snd_le _ _ m1 m2 (p a b c) (H a b c)); lia
  | H : forall m, snd_ true m ?p |- snd_ _ _ ?p => apply snd_weaken; apply H
  | H : forall m, snd_ false m ?p |- snd_ false _ ?p => apply H
  end.

Ltac ps_user := fail.

Ltac ps :=
  lazymatch goal with
  | |- forall _, _ => intro; ps
  | |- snd_ false _ (ret _) => apply snd_ret
  | |- snd_ true _ (ret _) => fail
  | |- snd_ _ _ (fail _) => apply snd_fail
  | |- snd_ _ _ (bind _ _) =>
      first [ apply snd_bind_strict; [solve [ps] | intro; ps ]
            | apply snd_bind; [solve [ps] | intro; ps ] ]
  | |- snd_ _ _ (if_match _ _ _) => apply snd_if_match; ps
  | |- snd_ _ _ (if_tok _ _ _) => apply snd_if_tok; [intro; ps | ps]
  | |- snd_ _ _ (if_check _ _ _) => apply snd_if_check; ps
  | |- snd_ _ _ (if_peek _ _ _) => apply snd_if_peek; ps
  | |- snd_ false _ (matchp _) => apply snd_matchp
  | |- snd_ _ _ (take _ _) => apply snd_take
  | |- snd_ _ _ (take_pred _ _) => apply snd_take_pred
  | |- snd_ true _ (expect_err _) => apply snd_expect_err_strict; reflexivity
  | |- snd_ false _ (expect_err _) => apply snd_expect_err
  | |- snd_ false _ (expect_silent _) => apply snd_expect_silent
  | |- snd_ false _ expect_template_close => apply snd_expect_template_close
  | |- snd_ false _ expect_semicolon => apply snd_expect_semicolon
  | |- snd_ false _ (expect_record _) => apply snd_expect_record
  | |- snd_ false _ (sep_list _ _) => apply snd_sep_list; ps
  | |- snd_ false _ (many_until _ _) => apply snd_many_until; ps
  | |- snd_ _ _ (binlevel _ _) => apply snd_binlevel; ps
  | |- snd_ _ _ (fun s => ?p s) => apply snd_eta; ps
  | |- _ => first [ use_hyp | ps_user ]
  end.

(* ---- expressions and types *)
Lemma snd_opt_ident : forall m, snd_ false m opt_ident.
Proof. intros. unfold opt_ident. ps. Qed.

Lemma snd_array_size : forall m TA, snd_ true (pred m) TA -> snd_ false m (array_size TA).
Proof. intros m TA H. unfold array_size. ps. Qed.

Ltac ps_user ::=
  lazymatch goal with
  | |- snd_ false _ opt_ident => apply snd_opt_ident
  | |- snd_ false _ (array_size _) => apply snd_array_size; ps
  end.

Lemma snd_typeSpec_body : forall m T TA P,
  snd_ true (pred m) T -> snd_ true (pred m) TA -> snd_ true (pred m) P ->
  snd_ true m (typeSpec_body T TA P).
Proof. intros m T TA P HT HTA HP. unfold typeSpec_body. ps. Qed.

Lemma snd_call_args : forall m E, snd_ true m E -> snd_ false m (call_args E).
Proof. intros m E HE. unfold call_args. ps. Qed.

Lemma snd_primary_body : forall m E T TB,
  snd_ true (pred m) E -> snd_ true (pred m) T -> snd_ true m TB ->
  snd_ true m (primary_body E T TB).
Proof. intros m E T TB HE HT HTB. unfold primary_body. ps. Qed.

Ltac ps_user ::=
  lazymatch goal with
  | |- snd_ false _ opt_ident => apply snd_opt_ident
  | |- snd_ false _ (array_size _) => apply snd_array_size; ps
  | |- snd_ false _ (call_args _) => apply snd_call_args; ps
  | |- snd_ true _ (primary_body _ _ _) => apply snd_primary_body; ps
  end.

(* postfix loop: every iteration consumes `(`, `[` or `.` *)
Lemma postfix_loop_post : forall m E, snd_ true (pred m) E ->
  forall k e s, len s < k -> len s < m -> wfst s -> post false s (postfix_loop E k e s).
Proof.
  intros m E HE k. induction k as [|k IH]; intros e s Hk Hl Hw; [lia|].
  assert (IH' : forall e, snd_ false (Nat.min (pred m) k) (postfix_loop E k e)).
  { intros e' s' Hl' Hw'. apply IH; [lia|lia|assumption]. }
  cbn [postfix_loop].
  assert (Hgen : snd_ false (Nat.min m (S k))
    (if_match TkLeftParen (bind (call_args E) (fun args => postfix_loop E k (apply_call e args)))
      (if_match TkLeftBracket
         (bind E (fun i => bind (expect_err TkRightBracket) (fun _ => postfix_loop E k (EIndex e i))))
         (if_match TkDot (bind (take TkIdent EMemberName) (fun m0 => postfix_loop E k (EMember e (tlex m0))))
            (ret e))))).
  { ps. }
  apply Hgen; [lia|assumption].
Qed.

Lemma snd_postfix : forall m E T TB,
  snd_ true (pred m) E -> snd_ true (pred m) T -> snd_ true m TB -> snd_ true m (postfix E T TB).
Proof.
  intros m E T TB HE HT HTB. unfold postfix.
  apply snd_bind_strict; [ps|]. intros e. apply snd_with_fuel. intros k s Hk Hl Hw.
  eapply (postfix_loop_post (pred m)); [eapply snd_use; [exact HE|lia]|exact Hk|exact Hl|exact Hw].
Qed.

(* unary: every iteration consumes a prefix operator *)
Lemma unary_loop_post : forall m E T TB,
  snd_ true (pred m) E -> snd_ true (pred m) T -> snd_ true m TB ->
  forall k s, len s < k -> len s < m -> wfst s -> post true s (unary_loop E T TB k s).
Proof.
  intros m E T TB HE HT HTB k. induction k as [|k IH]; intros s Hk Hl Hw; [lia|].
  assert (IH' : snd_ true (Nat.min m k) (unary_loop E T TB k)).
  { intros s' Hl' Hw'. apply IH; [lia|lia|assumption]. }
  pose proof (snd_postfix m E T TB HE HT HTB) as Hpf.
  cbn [unary_loop].
  assert (Hgen : snd_ true (Nat.min m (S k))
     (if_tok (fun t => is_unary_op (tkind t))
        (fun op => bind (unary_loop E T TB k) (fun operand => ret (EUnary (tkind op) operand)))
        (postfix E T TB))).
  { ps. }
  apply Hgen; [lia|assumption].
Qed.

Lemma snd_unary : forall m E T TB,
  snd_ true (pred m) E -> snd_ true (pred m) T -> snd_ true m TB -> snd_ true m (unary E T TB).
Proof.
  intros m E T TB HE HT HTB. unfold unary. apply snd_with_fuel. intros. eapply unary_loop_post; eauto.
Qed.

Lemma snd_logicalOr : forall m E T TB,
  snd_ true (pred m) E -> snd_ true (pred m) T -> snd_ true m TB -> snd_ true m (logicalOr E T TB).
Proof.
  intros m E T TB HE HT HTB. pose proof (snd_unary m E T TB HE HT HTB) as Hu.
  unfold logicalOr, logicalAnd, bitwiseOr, bitwiseXor, bitwiseAnd, equality, comparison, shift, additive, multiplicative.
  ps.
Qed.

Lemma snd_templateShift : forall m E T TB,
  snd_ true (pred m) E -> snd_ true (pred m) T -> snd_ true m TB -> snd_ true m (templateShift E T TB).
Proof.
  intros m E T TB HE HT HTB. pose proof (snd_unary m E T TB HE HT HTB) as Hu.
  unfold templateShift, additive, multiplicative. ps.
Qed.

(* the four handles at fuel n are sound on states with fewer than n remaining tokens *)
Lemma snd_handles : forall n,
  snd_ true n (pE n) /\ snd_ true n (pT n) /\ snd_ true n (pTA n) /\ snd_ true n (pP n).
Proof.
  induction n as [|n [HE [HT [HTA HP]]]].
  - repeat split; intros s Hl; lia.
  - assert (HTB : snd_ true (S n) (typeSpec_body (pT n) (pTA n) (pP n))) by (apply snd_typeSpec_body; assumption).
    repeat split; cbn [pE pT pTA pP]; apply snd_eta.
    + apply snd_logicalOr; assumption.
    + exact HTB.
    + apply snd_templateShift; assumption.
    + apply snd_primary_body; assumption.
Qed.

Lemma snd_expression : forall m, snd_ true m expression.
Proof.
  intros m. unfold expression. apply snd_with_fuel. intros k s Hk Hl Hw.
  destruct (snd_handles k) as [H _]. apply H; assumption.
Qed.

Lemma snd_typeSpec : forall m, snd_ true m typeSpec.
Proof.
  intros m. unfold typeSpec. apply snd_with_fuel. intros k s Hk Hl Hw.
  destruct (snd_handles k) as [_ [H _]]. apply H; assumption.
Qed.

(* ---- statements *)
Ltac ps_user ::=
  lazymatch goal with
  | |- snd_ false _ opt_ident => apply snd_opt_ident
  | |- snd_ false _ (array_size _) => apply snd_array_size; ps
  | |- snd_ false _ (call_args _) => apply snd_call_args; ps
  | |- snd_ true _ (primary_body _ _ _) => apply snd_primary_body; ps
  | |- snd_ _ _ expression => apply snd_weaken; apply snd_expression
  | |- snd_ _ _ typeSpec => apply snd_weaken; apply snd_typeSpec
  end.

Lemma snd_opt_type : forall m, snd_ false m opt_type.
Proof. intros. unfold opt_type. ps. Qed.
Lemma snd_opt_init : forall m, snd_ false m opt_init.
Proof. intros. unfold opt_init. ps. Qed.

Ltac ps_user ::=
  lazymatch goal with
  | |- snd_ false _ opt_ident => apply snd_opt_ident
  | |- snd_ false _ (array_size _) => apply snd_array_size; ps
  | |- snd_ false _ (call_args _) => apply snd_call_args; ps
  | |- snd_ true _ (primary_body _ _ _) => apply snd_primary_body; ps
  | |- snd_ _ _ expression => apply snd_weaken; apply snd_expression
  | |- snd_ _ _ typeSpec => apply snd_weaken; apply snd_typeSpec
  | |- snd_ false _ opt_type => apply snd_opt_type
  | |- snd_ false _ opt_init => apply snd_opt_init
  end.

(* what follows `var` / `const` / `let` / `const_assert` need not consume (the keyword did): not strict *)
Lemma snd_varDecl_rest : forall b m attrs, snd_ b m (varDecl_rest attrs).
Proof. intros. apply snd_weaken. unfold varDecl_rest. ps. Qed.
Lemma snd_constDecl_rest : forall b m ek c, snd_ b m (constDecl_rest ek c).
Proof. intros. apply snd_weaken. unfold constDecl_rest. ps. Qed.
Lemma snd_constAssert_rest : forall b m, snd_ b m constAssert_rest.
Proof. intros. apply snd_weaken. unfold constAssert_rest. ps. Qed.

Lemma snd_in_for_header : forall A b m (p : parser A), snd_ b m p -> snd_ b m (in_for_header p).
Proof.
  intros A b m p Hp s Hl Hw. unfold in_for_header.
  specialize (Hp (set_infor true s) Hl Hw).
  destruct (p (set_infor true s)) as [a s1|e s1|]; simpl in *; exact Hp.
Qed.

(* selector loop of a case clause: an iteration that goes round has consumed a comma *)
Lemma case_loop_post : forall m k sels isd df s, len s < k -> len s < m -> wfst s ->
  post false s (case_loop k sels isd df s).
Proof.
  intros m k. induction k as [|k IH]; intros sels isd df s Hk Hl Hw; [lia|].
  assert (IH' : forall sels isd df, snd_ false (Nat.min m k) (case_loop k sels isd df)).
  { intros sels' isd' df' s' Hl' Hw'. apply IH; [lia|lia|assumption]. }
  cbn [case_loop].
  assert (Hgen : snd_ false (Nat.min m (S k))
    (if_match TkDefault
       (if_match TkComma (case_loop k sels true (df || is_zero (List.length sels))) (ret (sels, true, df || is_zero (List.length sels))))
       (if_check TkColon (ret (sels, isd, df))
          (if_check TkLeftBrace (ret (sels, isd, df))
             (bind expression (fun e => if_match TkComma (case_loop k (sels ++ [e])%list isd df) (ret ((sels ++ [e])%list, isd, df)))))))).
  { ps. }
  apply Hgen; [lia|assumption].
Qed.

Ltac ps_user ::=
  lazymatch goal with
  | |- snd_ false _ opt_ident => apply snd_opt_ident
  | |- snd_ false _ (array_size _) => apply snd_array_size; ps
  | |- snd_ false _ (call_args _) => apply snd_call_args; ps
  | |- snd_ true _ (primary_body _ _ _) => apply snd_primary_body; ps
  | |- snd_ _ _ expression => apply snd_weaken; apply snd_expression
  | |- snd_ _ _ typeSpec => apply snd_weaken; apply snd_typeSpec
  | |- snd_ false _ opt_type => apply snd_opt_type
  | |- snd_ false _ opt_init => apply snd_opt_init
  | |- snd_ false _ (varDecl_rest _) => apply snd_varDecl_rest
  | |- snd_ false _ (constDecl_rest _ _) => apply snd_constDecl_rest
  | |- snd_ false _ constAssert_rest => apply snd_constAssert_rest
  end.

Section StmtSnd.
  Context (m : nat) (S_ : parser stmt).
  Hypothesis HS : snd_ true (pred m) S_.

  Lemma snd_block_body_gen : forall m', m' <= m -> snd_ true m' (block_body S_).
  Proof. intros m' Hm. unfold block_body. ps. Qed.

  Lemma snd_switchCaseClause : forall m', m' <= m -> snd_ true m' (switchCaseClause S_).
  Proof.
    intros m' Hm. pose proof (snd_block_body_gen m' Hm) as Hb. unfold switchCaseClause.
    assert (Hc : snd_ false (pred m') (with_fuel (fun k => case_loop k [] false false))).
    { apply snd_with_fuel. intros. eapply case_loop_post; eauto. }
    ps.
  Qed.

  Lemma snd_returnStmt_rest : forall m', snd_ false m' returnStmt_rest.
  Proof. intros. unfold returnStmt_rest. ps. Qed.
  Lemma snd_whileStmt_rest : forall m', m' <= m -> snd_ false m' (whileStmt_rest S_).
  Proof. intros m' Hm. pose proof (snd_block_body_gen m' Hm). unfold whileStmt_rest. ps. Qed.
  Lemma snd_breakStmt_rest : forall m', snd_ false m' breakStmt_rest.
  Proof. intros. unfold breakStmt_rest. ps. Qed.
  Lemma snd_exprOrAssignStmt : forall m', snd_ true m' exprOrAssignStmt.
  Proof. intros. unfold exprOrAssignStmt. ps. Qed.
  Lemma snd_ifStmt_rest : forall m', m' <= pred m -> snd_ false m' (ifStmt_rest S_).
  Proof.
    intros m' Hm. assert (Hb : snd_ true m' (block_body S_)) by (apply snd_block_body_gen; lia).
    assert (Hb1 : snd_ true (pred m') (block_body S_)) by (apply snd_block_body_gen; lia).
    unfold ifStmt_rest. ps.
  Qed.
  Lemma snd_forStmt_rest : forall m', m' <= pred m -> snd_ false m' (forStmt_rest S_).
  Proof.
    intros m' Hm. assert (Hb : snd_ true (pred m') (block_body S_)) by (apply snd_block_body_gen; lia).
    assert (Hfh : snd_ true (pred m') (in_for_header S_)).
    { apply snd_in_for_header. eapply snd_le; [exact HS|lia]. }
    unfold forStmt_rest. ps.
  Qed.
  Lemma snd_loopStmt_rest : forall m', m' <= pred m -> snd_ false m' (loopStmt_rest S_).
  Proof.
    intros m' Hm. assert (Hb : snd_ true (pred (pred m')) (block_body S_)) by (apply snd_block_body_gen; lia).
    unfold loopStmt_rest. ps.
  Qed.
  Lemma snd_switchStmt_rest : forall m', m' <= pred m -> snd_ false m' (switchStmt_rest S_).
  Proof.
    intros m' Hm. assert (Hsw : snd_ true (pred m') (switchCaseClause S_)) by (apply snd_switchCaseClause; lia).
    unfold switchStmt_rest. ps.
  Qed.

  Lemma snd_statement_body : snd_ true m (statement_body S_).
  Proof.
    pose proof (snd_block_body_gen m (le_n _)) as Hb.
    pose proof (snd_returnStmt_rest (pred m)) as H1.
    pose proof (snd_ifStmt_rest (pred m) (le_n _)) as H2.
    pose proof (snd_forStmt_rest (pred m) (le_n _)) as H3.
    pose proof (snd_whileStmt_rest (pred m) (Nat.le_pred_l _)) as H4.
    pose proof (snd_loopStmt_rest (pred m) (le_n _)) as H5.
    pose proof (snd_breakStmt_rest (pred m)) as H6.
    pose proof (snd_switchStmt_rest (pred m) (le_n _)) as H7.
    pose proof (snd_exprOrAssignStmt m) as H8.
    unfold statement_body.
    ps.
  Qed.
End StmtSnd.

Lemma snd_stmt_n : forall n, snd_ true n (stmt_n n).
Proof.
  induction n as [|n IH]; [intros s Hl; lia|].
  cbn [stmt_n]. apply snd_eta. apply (snd_statement_body (S n) (stmt_n n)). exact IH.
Qed.

Lemma snd_statement : forall m, snd_ true m statement.
Proof.
  intros m. unfold statement. apply snd_with_fuel. intros k s Hk Hl Hw. apply (snd_stmt_n k); assumption.
Qed.

Lemma snd_block : forall m, snd_ true m block.
Proof.
  intros m. unfold block. apply (snd_block_body_gen (S m) statement); [|lia].
  apply snd_statement.
Qed.

(* ---- attributes and declarations *)

(* attribute arguments: an iteration that goes round has consumed a comma; a failing expression ends the loop *)
Lemma attr_args_loop_post : forall m k s, len s < k -> len s < m -> wfst s -> post false s (attr_args_loop k s).
Proof.
  intros m k. induction k as [|k IH]; intros s Hk Hl Hw; [lia|].
  assert (IH' : snd_ false (Nat.min m k) (attr_args_loop k)).
  { intros s' Hl' Hw'. apply IH; [lia|lia|assumption]. }
  cbn [attr_args_loop]. destruct (check TkRightParen s || at_end s); [simpl; split; [reflexivity|lia]|].
  pose proof (snd_expression m s Hl Hw) as He.
  destruct (expression s) as [x s1|e s1|]; simpl in He; [| |contradiction].
  - destruct He as [Ht Hlt].
    assert (Hgen : snd_ false (Nat.min m k)
       (if_match TkComma (bind (attr_args_loop k) (fun rest => ret (x :: rest))) (ret [x]))) by ps.
    assert (Hl1 : len s1 < Nat.min m k) by lia. assert (Hw1 : wfst s1) by (unfold wfst in *; lia).
    specialize (Hgen s1 Hl1 Hw1).
    destruct (if_match TkComma (bind (attr_args_loop k) (fun rest => ret (x :: rest))) (ret [x]) s1); simpl in *; intuition lia.
  - simpl. intuition lia.
Qed.

(* attributes: every iteration consumes `@` *)
Lemma attr_loop_post : forall m k s, len s < k -> len s < m -> wfst s -> post false s (attr_loop k s).
Proof.
  intros m k. induction k as [|k IH]; intros s Hk Hl Hw; [lia|].
  assert (IH' : snd_ false (Nat.min m k) (attr_loop k)).
  { intros s' Hl' Hw'. apply IH; [lia|lia|assumption]. }
  assert (Ha : forall m', snd_ false m' (with_fuel attr_args_loop)).
  { intros m'. apply snd_with_fuel. intros. eapply attr_args_loop_post; eauto. }
  cbn [attr_loop].
  assert (Hgen : snd_ false (Nat.min m (S k))
    (if_match TkAt
       (if_tok is_attr_name
          (fun name => bind (if_match TkLeftParen
                               (bind (with_fuel attr_args_loop) (fun a => bind (expect_record TkRightParen) (fun _ => ret a)))
                               (ret []))
                        (fun args => bind (attr_loop k) (fun rest => ret (mkattr (tlex name) args :: rest))))
          (attr_loop k))
       (ret []))).
  { ps. }
  apply Hgen; [lia|assumption].
Qed.

Lemma snd_attributes : forall m, snd_ false m attributes.
Proof. intros m. unfold attributes. apply snd_with_fuel. intros. eapply attr_loop_post; eauto. Qed.

Ltac ps_user ::=
  lazymatch goal with
  | |- snd_ false _ opt_ident => apply snd_opt_ident
  | |- snd_ _ _ expression => apply snd_weaken; apply snd_expression
  | |- snd_ _ _ typeSpec => apply snd_weaken; apply snd_typeSpec
  | |- snd_ false _ opt_type => apply snd_opt_type
  | |- snd_ false _ opt_init => apply snd_opt_init
  | |- snd_ false _ (varDecl_rest _) => apply snd_varDecl_rest
  | |- snd_ false _ (constDecl_rest _ _) => apply snd_constDecl_rest
  | |- snd_ false _ constAssert_rest => apply snd_constAssert_rest
  | |- snd_ false _ attributes => apply snd_attributes
  | |- snd_ _ _ block => apply snd_weaken; apply snd_block
  end.

Lemma snd_param_p : forall m, snd_ true m param_p.
Proof. intros. unfold param_p. ps. Qed.
Lemma snd_structMember : forall m, snd_ true m structMember.
Proof. intros. unfold structMember. ps. Qed.

(* enable: every iteration consumes a name *)
Lemma enable_loop_post : forall m k s, len s < k -> len s < m -> wfst s -> post false s (enable_loop k s).
Proof.
  intros m k. induction k as [|k IH]; intros s Hk Hl Hw; [lia|].
  assert (IH' : snd_ false (Nat.min m k) (enable_loop k)).
  { intros s' Hl' Hw'. apply IH; [lia|lia|assumption]. }
  cbn [enable_loop].
  assert (Hgen : snd_ false (Nat.min m (S k))
    (if_tok is_directive_name
       (fun _ => if_match TkComma (if_check TkSemicolon (ret tt) (enable_loop k)) (ret tt))
       (fail EExtensionName))) by ps.
  apply Hgen; [lia|assumption].
Qed.

Lemma snd_declaration : forall m, snd_ true m declaration.
Proof.
  intros m.
  pose proof snd_param_p as Hp. pose proof snd_structMember as Hm.
  assert (He : forall m', snd_ false m' (with_fuel enable_loop)).
  { intros m'. apply snd_with_fuel. intros. eapply enable_loop_post; eauto. }
  unfold declaration, functionDecl_rest, structDecl_rest, overrideDecl_rest, aliasDecl_rest, enable_rest, diagnostic_rest.
  ps.
Qed.

(* ---- error recovery and the top-level loop *)
Lemma sync_loop_len : forall l prev, List.length (sync_loop prev l) <= List.length l.
Proof.
  induction l as [|t l IH]; intros prev; simpl; [lia|].
  destruct (tk_eqb (tkind t) TkEOF); [simpl; lia|].
  destruct (tk_eqb prev TkSemicolon); [simpl; lia|].
  destruct (is_sync_kw (tkind t)); [simpl; lia|].
  specialize (IH (tkind t)). lia.
Qed.

(* synchronize consumes at least one token unless the parser is at the end of input *)
Lemma synchronize_len : forall s, total (synchronize s) = total s /\ len (synchronize s) <= len s /\
  (at_end s = false -> len (synchronize s) < len s).
Proof.
  intros s. unfold synchronize. destruct (at_end s) eqn:E; [repeat split; try lia; discriminate|].
  destruct (toks s) as [|t l] eqn:Et; [rewrite (at_end_nil s Et) in E; discriminate|].
  unfold len, set_toks; simpl. rewrite Et. simpl. pose proof (sync_loop_len l (tkind t)). repeat split; lia.
Qed.

Lemma drop_semis_len : forall l, List.length (drop_semis l) <= List.length l.
Proof. induction l as [|t l IH]; simpl; [lia|]. destruct (tk_eqb (tkind t) TkSemicolon); simpl; lia. Qed.

Lemma skip_semis_len : forall s, total (skip_semis s) = total s /\ len (skip_semis s) <= len s.
Proof. intros s. unfold skip_semis, len, set_toks; simpl. split; [reflexivity|apply drop_semis_len]. Qed.

(* Parse(): every iteration consumes a token (a successful declaration is strict, synchronize after an error
   advances unless at the end of input, where the loop is left) and no error escapes *)
Lemma parse_loop_ok : forall k s, len s < k -> wfst s ->
  exists ds s', parse_loop k s = Ok ds s' /\ total s' = total s /\ len s' <= len s.
Proof.
  induction k as [|k IH]; intros s Hk Hw; [lia|].
  cbn [parse_loop]. destruct (skip_semis_len s) as [Ht1 Hl1].
  set (s1 := skip_semis s) in *.
  assert (Hw1 : wfst s1) by (unfold wfst in *; lia).
  destruct (at_end s1) eqn:E1; [exists [], s1; split; [reflexivity|split; [exact Ht1|exact Hl1]]|].
  pose proof (snd_declaration (S (len s1)) s1 (Nat.lt_succ_diag_r _) Hw1) as Hd.
  destruct (declaration s1) as [[d|] s2|e s2|]; simpl in Hd; [| | |contradiction].
  - destruct Hd as [Ht2 Hl2]. assert (Hw2 : wfst s2) by (unfold wfst in *; lia).
    destruct (IH s2 ltac:(lia) Hw2) as [ds [s' [Hp [Ht Hl]]]].
    exists (d :: ds), s'. unfold bind. rewrite Hp. simpl. repeat split; lia.
  - destruct Hd as [Ht2 Hl2]. assert (Hw2 : wfst s2) by (unfold wfst in *; lia).
    destruct (IH s2 ltac:(lia) Hw2) as [ds [s' [Hp [Ht Hl]]]].
    exists ds, s'. rewrite Hp. repeat split; lia.
  - destruct Hd as [Ht2 [Hl2 _]].
    set (s3 := synchronize (add_err e s2)).
    destruct (synchronize_len (add_err e s2)) as [Ht3 [Hl3 Hlt3]]. fold s3 in Ht3, Hl3, Hlt3.
    assert (Hae : len (add_err e s2) = len s2 /\ total (add_err e s2) = total s2) by (split; reflexivity).
    destruct (at_end s3) eqn:E3.
    + exists [], s3. repeat split; lia.
    + assert (Hne : at_end (add_err e s2) = false).
      { destruct (at_end (add_err e s2)) eqn:E4; [|reflexivity].
        unfold s3, synchronize in E3. rewrite E4 in E3. congruence. }
      specialize (Hlt3 Hne). assert (Hw3 : wfst s3) by (unfold wfst in *; lia).
      destruct (IH s3 ltac:(lia) Hw3) as [ds [s' [Hp [Ht Hl]]]].
      exists ds, s'. rewrite Hp. repeat split; lia.
Qed.

(* ================================================================ C10: the parser terminates *)
Theorem parse_never_out_of_fuel : forall ts, parse ts <> OutOfFuel.
Proof.
  intros ts. unfold parse, with_fuel.
  destruct (parse_loop_ok (S (total (init_state ts))) (init_state ts)) as [ds [s' [Hp _]]].
  - simpl. unfold len. simpl. lia.
  - unfold wfst, len. simpl. lia.
  - rewrite Hp. discriminate.
Qed.

Theorem parse_total : forall ts, exists ds es, parse ts = Parsed ds es.
Proof.
  intros ts. unfold parse, with_fuel.
  destruct (parse_loop_ok (S (total (init_state ts))) (init_state ts)) as [ds [s' [Hp _]]].
  - simpl. unfold len. simpl. lia.
  - unfold wfst, len. simpl. lia.
  - rewrite Hp. eauto.
Qed.

(* progress: each sub-parser, when it succeeds, has consumed at least one token; when it fails, the error is at
   the index of the current token at the failure, which is not before the start *)
Definition progresses {A} (p : parser A) : Prop :=
  forall s, wfst s ->
    match p s with
    | Ok _ s' => len s' < len s
    | Err e s' => cur_idx s <= perr_idx e /\ perr_idx e = cur_idx s' /\ len s' <= len s
    | Oof => False
    end.

Lemma snd_progresses : forall A (p : parser A), (forall m, snd_ true m p) -> progresses p.
Proof.
  intros A p H s Hw. specialize (H (S (len s)) s (Nat.lt_succ_diag_r _) Hw).
  destruct (p s) as [a s1|e s1|]; simpl in *; [lia| |contradiction].
  destruct H as [Ht [Hl He]]. unfold cur_idx in *. unfold wfst in Hw. repeat split; lia.
Qed.

Theorem parse_progress :
  progresses expression /\ progresses typeSpec /\ progresses statement /\ progresses block /\ progresses declaration.
Proof.
  repeat split; apply snd_progresses.
  - apply snd_expression. - apply snd_typeSpec. - apply snd_statement. - apply snd_block. - apply snd_declaration.
Qed.
