(* C16 — GLSL keywords and reserved words, transcribed by hand from The OpenGL Shading
   Language 4.60 section 3.6 "Keywords" (keywords; "reserved for future use"); the keyword
   and reserved lists of GLSL ES 3.20 section 3.9 are subsets of the union below.
   Section 3.7 "Identifiers": identifiers starting with "gl_" are reserved, and identifiers
   containing two consecutive underscores are reserved (gl_prefix below; "__" is has_dunder).
   This list is part of the trusted base (my transcription of an external specification). *)
From Coq Require Import List ZArith String Ascii.
Import ListNotations.
Require Import Naga.Namer.Namer Naga.Namer.SpecBase.

(* GLSL 4.60 section 3.6, keywords *)
Definition glsl_spec_keywords : list str := map z_of_string [
  "const"; "uniform"; "buffer"; "shared"; "attribute"; "varying"; "coherent"; "volatile";
  "restrict"; "readonly"; "writeonly"; "atomic_uint"; "layout"; "centroid"; "flat"; "smooth";
  "noperspective"; "patch"; "sample"; "invariant"; "precise"; "break"; "continue"; "do"; "for";
  "while"; "switch"; "case"; "default"; "if"; "else"; "subroutine"; "in"; "out"; "inout"; "int";
  "void"; "bool"; "true"; "false"; "float"; "double"; "discard"; "return"; "vec2"; "vec3"; "vec4";
  "ivec2"; "ivec3"; "ivec4"; "bvec2"; "bvec3"; "bvec4"; "uint"; "uvec2"; "uvec3"; "uvec4"; "dvec2";
  "dvec3"; "dvec4"; "mat2"; "mat3"; "mat4"; "mat2x2"; "mat2x3"; "mat2x4"; "mat3x2"; "mat3x3";
  "mat3x4"; "mat4x2"; "mat4x3"; "mat4x4"; "dmat2"; "dmat3"; "dmat4"; "dmat2x2"; "dmat2x3";
  "dmat2x4"; "dmat3x2"; "dmat3x3"; "dmat3x4"; "dmat4x2"; "dmat4x3"; "dmat4x4"; "lowp"; "mediump";
  "highp"; "precision"; "sampler1D"; "sampler1DShadow"; "sampler1DArray"; "sampler1DArrayShadow";
  "isampler1D"; "isampler1DArray"; "usampler1D"; "usampler1DArray"; "sampler2D"; "sampler2DShadow";
  "sampler2DArray"; "sampler2DArrayShadow"; "isampler2D"; "isampler2DArray"; "usampler2D";
  "usampler2DArray"; "sampler2DRect"; "sampler2DRectShadow"; "isampler2DRect"; "usampler2DRect";
  "sampler2DMS"; "isampler2DMS"; "usampler2DMS"; "sampler2DMSArray"; "isampler2DMSArray";
  "usampler2DMSArray"; "sampler3D"; "isampler3D"; "usampler3D"; "samplerCube"; "samplerCubeShadow";
  "isamplerCube"; "usamplerCube"; "samplerCubeArray"; "samplerCubeArrayShadow";
  "isamplerCubeArray"; "usamplerCubeArray"; "samplerBuffer"; "isamplerBuffer"; "usamplerBuffer";
  "image1D"; "iimage1D"; "uimage1D"; "image1DArray"; "iimage1DArray"; "uimage1DArray"; "image2D";
  "iimage2D"; "uimage2D"; "image2DArray"; "iimage2DArray"; "uimage2DArray"; "image2DRect";
  "iimage2DRect"; "uimage2DRect"; "image2DMS"; "iimage2DMS"; "uimage2DMS"; "image2DMSArray";
  "iimage2DMSArray"; "uimage2DMSArray"; "image3D"; "iimage3D"; "uimage3D"; "imageCube";
  "iimageCube"; "uimageCube"; "imageCubeArray"; "iimageCubeArray"; "uimageCubeArray";
  "imageBuffer"; "iimageBuffer"; "uimageBuffer"; "struct"
]%string.

(* GLSL 4.60 section 3.6, reserved for future use *)
Definition glsl_spec_reserved : list str := map z_of_string [
  "common"; "partition"; "active"; "asm"; "class"; "union"; "enum"; "typedef"; "template"; "this";
  "resource"; "goto"; "inline"; "noinline"; "public"; "static"; "extern"; "external"; "interface";
  "long"; "short"; "half"; "fixed"; "unsigned"; "superp"; "input"; "output"; "hvec2"; "hvec3";
  "hvec4"; "fvec2"; "fvec3"; "fvec4"; "filter"; "sizeof"; "cast"; "namespace"; "using";
  "sampler3DRect"
]%string.

Definition glsl_spec : list str := glsl_spec_keywords ++ glsl_spec_reserved.

(* section 3.7: "gl_" *)
Definition gl_prefix : str := [103; 108; 95].
Definition has_gl_prefix (s : str) : bool := has_prefix gl_prefix s.
