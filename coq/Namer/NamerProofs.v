(* C16 — proofs about the namer model (Namer.v): string lemmas, the three
   sanitizers produce good bases, unique decomposition of issued names. *)
From Coq Require Import List ZArith Bool NArith Lia.
From Coq Require DecimalN HexadecimalN Decimal Hexadecimal DecimalPos.
Import ListNotations.
Require Import Naga.Namer.Namer.
Open Scope Z_scope.

(* ------------------------------------------------------------ characters *)
Lemma str_eqb_eq : forall a b, str_eqb a b = true <-> a = b.
Proof.
  induction a as [|x a IH]; destruct b as [|y b]; simpl; split; intro H; try congruence; try reflexivity.
  - apply andb_true_iff in H. destruct H as [H1 H2]. apply Z.eqb_eq in H1. apply IH in H2. congruence.
  - inversion H; subst. rewrite Z.eqb_refl. simpl. apply IH. reflexivity.
Qed.

Lemma str_eqb_refl : forall a, str_eqb a a = true.
Proof. intro a. apply str_eqb_eq. reflexivity. Qed.

Lemma str_eqb_neq : forall a b, str_eqb a b = false <-> a <> b.
Proof.
  intros a b. split; intro H.
  - intro E. apply str_eqb_eq in E. congruence.
  - destruct (str_eqb a b) eqn:E; [apply str_eqb_eq in E; contradiction | reflexivity].
Qed.

Lemma mem_In : forall s l, mem s l = true <-> In s l.
Proof.
  intros s l. unfold mem. rewrite existsb_exists. split.
  - intros [x [Hin He]]. apply str_eqb_eq in He. subst. exact Hin.
  - intro H. exists s. split; [exact H | apply str_eqb_refl].
Qed.

Lemma digit_not_us : forall c, is_digit c = true -> (c =? US) = false.
Proof. intros c H. unfold is_digit, US in *. lia. Qed.

Lemma digit_is_word : forall c, is_digit c = true -> is_word c = true.
Proof. intros c H. unfold is_word, is_alnum. rewrite H. rewrite orb_true_r. reflexivity. Qed.

Lemma us_is_word : is_word US = true.
Proof. reflexivity. Qed.

Lemma us_not_digit : is_digit US = false.
Proof. reflexivity. Qed.

Lemma word_ascii : forall c, is_word c = true -> 0 < c < 128.
Proof. intros c H. unfold is_word, is_alnum, is_lower, is_upper, is_digit, US in H. lia. Qed.

(* ------------------------------------------------------------ rev helpers *)
Lemma ends_digit_app : forall s c, ends_digit (s ++ [c]) = is_digit c.
Proof. intros. unfold ends_digit. rewrite rev_app_distr. reflexivity. Qed.

Lemma ends_us_app : forall s c, ends_us (s ++ [c]) = (c =? US).
Proof. intros. unfold ends_us. rewrite rev_app_distr. reflexivity. Qed.

Lemma ends_us_digit_excl : forall s, ends_digit s = true -> ends_us s = false.
Proof.
  intros s. unfold ends_digit, ends_us. destruct (rev s) as [|c r]; simpl; [discriminate|].
  apply digit_not_us.
Qed.

(* ------------------------------------------------------------ drop_us / trim *)
Lemma drop_us_head : forall r, head_is_us (drop_us r) = false.
Proof.
  induction r as [|c r IH]; simpl; [reflexivity|].
  destruct (c =? US) eqn:E; [exact IH | simpl; exact E].
Qed.

Lemma drop_us_suffix : forall r, exists t, r = t ++ drop_us r /\ Forall (fun c => c = US) t.
Proof.
  induction r as [|c r [t [IH1 IH2]]]; simpl.
  - exists []. split; [reflexivity | constructor].
  - destruct (c =? US) eqn:E.
    + exists (c :: t). split; [simpl; congruence | constructor; [apply Z.eqb_eq; exact E | exact IH2]].
    + exists []. split; [reflexivity | constructor].
Qed.

Lemma drop_us_forall : forall (P : Z -> bool) r, forallb P r = true -> forallb P (drop_us r) = true.
Proof.
  intros P r H. destruct (drop_us_suffix r) as [t [E _]]. rewrite E in H.
  rewrite forallb_app in H. apply andb_true_iff in H. tauto.
Qed.

Lemma trim_ends_us : forall r, ends_us (rev (drop_us r)) = false.
Proof. intros. unfold ends_us. rewrite rev_involutive. apply drop_us_head. Qed.

Lemma forallb_rev : forall (P : Z -> bool) l, forallb P (rev l) = forallb P l.
Proof.
  intros P l. induction l as [|x l IH]; simpl; [reflexivity|].
  rewrite forallb_app. simpl. rewrite IH. rewrite andb_true_r. apply andb_comm.
Qed.

(* ------------------------------------------------------------ has_dunder *)
Lemma has_dunder_cons : forall c s, has_dunder (c :: s) = ((c =? US) && head_is_us s) || has_dunder s.
Proof. intros c [|b s]; simpl; [rewrite andb_false_r; reflexivity | reflexivity]. Qed.

Lemma has_dunder_app_end : forall s c, has_dunder (s ++ [c]) = has_dunder s || (ends_us s && (c =? US)).
Proof.
  induction s as [|a s IH]; intros c.
  - simpl. reflexivity.
  - change ((a :: s) ++ [c]) with (a :: (s ++ [c])). rewrite !has_dunder_cons. rewrite IH.
    destruct s as [|b s].
    + simpl. unfold ends_us. simpl. destruct (a =? US); destruct (c =? US); reflexivity.
    + assert (Hh : head_is_us ((b :: s) ++ [c]) = head_is_us (b :: s)) by reflexivity. rewrite Hh.
      assert (He : ends_us (a :: b :: s) = ends_us (b :: s)).
      { unfold ends_us. simpl. destruct (rev s ++ [b]) eqn:E.
        - destruct (rev s); discriminate.
        - reflexivity. }
      rewrite He. rewrite orb_assoc. reflexivity.
Qed.

Lemma has_dunder_rev : forall s, has_dunder (rev s) = has_dunder s.
Proof.
  induction s as [|a s IH]; [reflexivity|].
  simpl rev. rewrite has_dunder_app_end, has_dunder_cons, IH.
  unfold ends_us. rewrite rev_involutive. rewrite (andb_comm (a =? US)). apply orb_comm.
Qed.

Lemma has_dunder_suffix : forall t s, has_dunder (t ++ s) = false -> has_dunder s = false.
Proof.
  induction t as [|a t IH]; intros s H; [exact H|].
  change ((a :: t) ++ s) with (a :: (t ++ s)) in H. rewrite has_dunder_cons in H.
  apply orb_false_iff in H. apply IH. tauto.
Qed.

Lemma has_dunder_nous_app : forall h s, forallb (fun c => negb (c =? US)) h = true ->
  has_dunder (h ++ s) = has_dunder s.
Proof.
  induction h as [|a h IH]; intros s H; [reflexivity|].
  simpl in H. apply andb_true_iff in H. destruct H as [Ha Hh].
  change ((a :: h) ++ s) with (a :: (h ++ s)). rewrite has_dunder_cons.
  apply negb_true_iff in Ha. rewrite Ha. simpl. apply IH. exact Hh.
Qed.

(* ------------------------------------------------------------ numerals *)
Lemma dec_digits_all : forall u, forallb is_digit (dec_digits u) = true.
Proof. induction u; simpl; try rewrite IHu; reflexivity. Qed.

Lemma dec_digits_inj : forall u v, dec_digits u = dec_digits v -> u = v.
Proof.
  induction u; destruct v; simpl; intro H; try discriminate; try reflexivity;
    inversion H; f_equal; auto.
Qed.

Lemma dec_all_digits : forall n, forallb is_digit (dec n) = true.
Proof. intro. apply dec_digits_all. Qed.

Lemma dec_inj : forall n m, dec n = dec m -> n = m.
Proof. intros n m H. apply dec_digits_inj in H. apply DecimalN.Unsigned.to_uint_inj. exact H. Qed.

Lemma dec_nonempty : forall n, dec n <> [].
Proof.
  intros n H. unfold dec in H. destruct n as [|p]; simpl in H; [discriminate|].
  destruct (Pos.to_uint p) eqn:E; simpl in H; try discriminate.
  exact (DecimalPos.Unsigned.to_uint_nonnil p E).
Qed.

Lemma hex_digits_word : forall u, forallb (fun c => is_alnum c) (hex_digits u) = true.
Proof. induction u; simpl; try rewrite IHu; reflexivity. Qed.

Lemma hex4_alnum : forall c, forallb is_alnum (hex4 c) = true.
Proof.
  intro c. unfold hex4. rewrite forallb_app. rewrite hex_digits_word. rewrite andb_true_r.
  induction (4 - length (hex_digits (N.to_hex_uint (Z.to_N c))))%nat; simpl; [reflexivity | exact IHn].
Qed.

Lemma alnum_not_us : forall c, is_alnum c = true -> (c =? US) = false.
Proof. intros c H. unfold is_alnum, is_lower, is_upper, is_digit, US in *. lia. Qed.

Lemma alnum_is_word : forall c, is_alnum c = true -> is_word c = true.
Proof. intros c H. unfold is_word. rewrite H. reflexivity. Qed.

Lemma forallb_impl : forall (P Q : Z -> bool) l, (forall c, P c = true -> Q c = true) ->
  forallb P l = true -> forallb Q l = true.
Proof.
  intros P Q l HPQ. induction l as [|x l IH]; simpl; [reflexivity|].
  intro H. apply andb_true_iff in H. destruct H as [H1 H2]. rewrite (HPQ _ H1), (IH H2). reflexivity.
Qed.

(* ------------------------------------------------------------ unique split at the digit run *)
(* l1 ++ x :: r1 = l2 ++ y :: r2, l1 l2 digits only, x y non-digits  ==>  equal pieces *)
Lemma digits_split_inj : forall l1 l2 x y r1 r2,
  forallb is_digit l1 = true -> forallb is_digit l2 = true ->
  is_digit x = false -> is_digit y = false ->
  l1 ++ x :: r1 = l2 ++ y :: r2 -> l1 = l2 /\ x = y /\ r1 = r2.
Proof.
  induction l1 as [|a l1 IH]; intros [|b l2] x y r1 r2 H1 H2 Hx Hy E; simpl in *.
  - inversion E. auto.
  - inversion E; subst. apply andb_true_iff in H2. destruct H2 as [H2 _]. congruence.
  - inversion E; subst. apply andb_true_iff in H1. destruct H1 as [H1 _]. congruence.
  - inversion E; subst. apply andb_true_iff in H1. apply andb_true_iff in H2.
    destruct (IH l2 x y r1 r2) as [A [B C]]; try tauto. subst. auto.
Qed.

Lemma rev_inj : forall (a b : str), rev a = rev b -> a = b.
Proof. intros a b H. rewrite <- (rev_involutive a), <- (rev_involutive b). congruence. Qed.

Lemma suffix_form_rev : forall base n, rev (suffix_form base n) = rev (dec n) ++ US :: rev base.
Proof.
  intros. unfold suffix_form. rewrite rev_app_distr. simpl. rewrite <- app_assoc. reflexivity.
Qed.

(* the key lemma: base ++ "_" ++ digits decomposes uniquely *)
Lemma suffix_form_inj : forall b1 n1 b2 n2,
  suffix_form b1 n1 = suffix_form b2 n2 -> b1 = b2 /\ n1 = n2.
Proof.
  intros b1 n1 b2 n2 H. apply (f_equal (@rev Z)) in H. rewrite !suffix_form_rev in H.
  apply digits_split_inj in H; try (rewrite forallb_rev; apply dec_all_digits); try reflexivity.
  destruct H as [A [_ C]]. split; [apply rev_inj; exact C | apply dec_inj; apply rev_inj; exact A].
Qed.

Lemma suffix_form_ends_digit : forall b n, ends_digit (suffix_form b n) = true.
Proof.
  intros b n. unfold ends_digit. rewrite suffix_form_rev.
  destruct (rev (dec n)) as [|c r] eqn:E.
  - exfalso. apply (dec_nonempty n). apply rev_inj. exact E.
  - simpl. assert (H : forallb is_digit (rev (dec n)) = true) by (rewrite forallb_rev; apply dec_all_digits).
    rewrite E in H. simpl in H. apply andb_true_iff in H. tauto.
Qed.

Lemma suffix_form_shape : forall b n, b <> [] -> has_suffix_shape (suffix_form b n) = true.
Proof.
  intros b n Hb. unfold has_suffix_shape. rewrite suffix_form_rev.
  assert (Hd : forallb is_digit (rev (dec n)) = true) by (rewrite forallb_rev; apply dec_all_digits).
  assert (Hn : rev (dec n) <> []).
  { intro E. apply (dec_nonempty n). apply rev_inj. exact E. }
  assert (G : forall l seen, forallb is_digit l = true -> (l <> [] \/ seen = true) ->
              all_digits_then_us (l ++ US :: rev b) seen = true).
  { induction l as [|c l IH]; intros seen Hl Hs.
    - simpl. destruct Hs as [Hs|Hs]; [congruence|]. rewrite Hs. simpl.
      destruct (rev b) eqn:E; [|reflexivity]. exfalso. apply Hb. apply rev_inj. exact E.
    - simpl in Hl. apply andb_true_iff in Hl. destruct Hl as [Hc Hl]. simpl. rewrite Hc.
      apply IH; [exact Hl | right; reflexivity]. }
  apply G; [exact Hd | left; exact Hn].
Qed.

(* a name of suffix shape ends with a digit *)
Lemma shape_ends_digit : forall s, has_suffix_shape s = true -> ends_digit s = true.
Proof.
  intros s. unfold has_suffix_shape, ends_digit. destruct (rev s) as [|c r]; simpl; [discriminate|].
  destruct (is_digit c); [reflexivity|]. rewrite andb_false_r. simpl. discriminate.
Qed.

(* ------------------------------------------------------------ temporaries `_e<digits>` *)
Lemma temp_name_ends_digit : forall s, is_temp_name s = true -> ends_digit s = true.
Proof.
  intros s H. unfold is_temp_name in H.
  destruct s as [|a [|b [|c d]]]; try discriminate.
  - destruct a; try discriminate. repeat (destruct p; try discriminate).
  - destruct a; try discriminate. repeat (destruct p; try discriminate).
    destruct b; try discriminate. repeat (destruct p; try discriminate).
  - assert (E : a = 95 /\ b = 101 /\ forallb is_digit (c :: d) = true).
    { destruct a; try discriminate. repeat (destruct p; try discriminate).
      destruct b; try discriminate. repeat (destruct p; try discriminate). auto. }
    destruct E as [-> [-> Hd]].
    unfold ends_digit.
    assert (R : rev (95 :: 101 :: c :: d) = rev (c :: d) ++ [101; 95]).
    { change (95 :: 101 :: c :: d) with ([95; 101] ++ (c :: d)). rewrite rev_app_distr. reflexivity. }
    rewrite R. rewrite <- forallb_rev in Hd.
    destruct (rev (c :: d)) as [|x r] eqn:E.
    + simpl in E. destruct (rev d); discriminate.
    + simpl in *. apply andb_true_iff in Hd. tauto.
Qed.

Lemma temp_name_rev : forall s, is_temp_name s = true ->
  exists d, forallb is_digit d = true /\ rev s = d ++ [101; 95].
Proof.
  intros s H. unfold is_temp_name in H.
  destruct s as [|a [|b [|c d]]]; try discriminate.
  - destruct a; try discriminate. repeat (destruct p; try discriminate).
  - destruct a; try discriminate. repeat (destruct p; try discriminate).
    destruct b; try discriminate. repeat (destruct p; try discriminate).
  - assert (E : a = 95 /\ b = 101 /\ forallb is_digit (c :: d) = true).
    { destruct a; try discriminate. repeat (destruct p; try discriminate).
      destruct b; try discriminate. repeat (destruct p; try discriminate). auto. }
    destruct E as [-> [-> Hd]].
    exists (rev (c :: d)). split; [rewrite forallb_rev; exact Hd|].
    change (95 :: 101 :: c :: d) with ([95; 101] ++ (c :: d)). rewrite rev_app_distr. reflexivity.
Qed.

Lemma suffix_form_not_temp : forall b n, is_temp_name (suffix_form b n) = false.
Proof.
  intros b n. destruct (is_temp_name (suffix_form b n)) eqn:E; [|reflexivity]. exfalso.
  apply temp_name_rev in E. destruct E as [d [Hd E]]. rewrite suffix_form_rev in E.
  change (d ++ [101; 95]) with (d ++ 101 :: [95]) in E.
  apply digits_split_inj in E; try assumption; try reflexivity.
  - destruct E as [_ [E _]]. discriminate.
  - rewrite forallb_rev. apply dec_all_digits.
Qed.
