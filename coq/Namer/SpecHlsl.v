(* C16 — HLSL keywords and reserved words, transcribed (by hand, no tool) from Microsoft's
   "HLSL reference > Language syntax > Appendix: Keywords" and "Appendix: Reserved Words"
   (Direct3D HLSL documentation).  The documentation states that the words asm, decl, pass,
   technique and the legacy texture type names are recognised case-insensitively.
   This list is part of the trusted base (my transcription of an external specification). *)
From Coq Require Import List ZArith String Ascii.
Import ListNotations.
Require Import Naga.Namer.Namer Naga.Namer.SpecBase.

(* Appendix: Keywords *)
Definition hlsl_spec_keywords : list str := map z_of_string [
  "AppendStructuredBuffer"; "asm"; "asm_fragment"; "BlendState"; "bool"; "break"; "Buffer";
  "ByteAddressBuffer"; "case"; "cbuffer"; "centroid"; "class"; "column_major"; "compile";
  "compile_fragment"; "CompileShader"; "const"; "continue"; "ComputeShader";
  "ConsumeStructuredBuffer"; "default"; "DepthStencilState"; "DepthStencilView"; "discard"; "do";
  "double"; "DomainShader"; "dword"; "else"; "export"; "extern"; "false"; "float"; "for";
  "fxgroup"; "GeometryShader"; "groupshared"; "half"; "Hullshader"; "if"; "in"; "inline"; "inout";
  "InputPatch"; "int"; "interface"; "line"; "lineadj"; "linear"; "LineStream"; "matrix";
  "min16float"; "min10float"; "min16int"; "min12int"; "min16uint"; "namespace"; "nointerpolation";
  "noperspective"; "NULL"; "out"; "OutputPatch"; "packoffset"; "pass"; "pixelfragment";
  "PixelShader"; "point"; "PointStream"; "precise"; "RasterizerState"; "RenderTargetView";
  "return"; "register"; "row_major"; "RWBuffer"; "RWByteAddressBuffer"; "RWStructuredBuffer";
  "RWTexture1D"; "RWTexture1DArray"; "RWTexture2D"; "RWTexture2DArray"; "RWTexture3D"; "sample";
  "sampler"; "SamplerState"; "SamplerComparisonState"; "shared"; "snorm"; "stateblock";
  "stateblock_state"; "static"; "string"; "struct"; "switch"; "StructuredBuffer"; "tbuffer";
  "technique"; "technique10"; "technique11"; "texture"; "Texture1D"; "Texture1DArray"; "Texture2D";
  "Texture2DArray"; "Texture2DMS"; "Texture2DMSArray"; "Texture3D"; "TextureCube";
  "TextureCubeArray"; "true"; "typedef"; "triangle"; "triangleadj"; "TriangleStream"; "uint";
  "uniform"; "unorm"; "unsigned"; "vector"; "vertexfragment"; "VertexShader"; "void"; "volatile";
  "while"
]%string.

(* Appendix: Reserved Words *)
Definition hlsl_spec_reserved : list str := map z_of_string [
  "auto"; "case"; "catch"; "char"; "class"; "const_cast"; "default"; "delete"; "dynamic_cast";
  "enum"; "explicit"; "friend"; "goto"; "long"; "mutable"; "new"; "operator"; "private";
  "protected"; "public"; "reinterpret_cast"; "short"; "signed"; "sizeof"; "static_cast";
  "template"; "this"; "throw"; "try"; "typename"; "union"; "unsigned"; "using"; "virtual"
]%string.

(* case-insensitive keywords *)
Definition hlsl_spec_ci : list str := map z_of_string [
  "asm"; "decl"; "pass"; "technique"; "Texture1D"; "Texture2D"; "Texture3D"; "TextureCube"
]%string.

Definition hlsl_spec : list str := hlsl_spec_keywords ++ hlsl_spec_reserved.

(* "Scalar data types" (HLSL reference, Shader Model 6.0 / 6.2 additions): fixed-width scalar type names.
   They are not in the Keywords / Reserved Words appendices above; naga's table lacks them
   (theorem c16_hlsl_sized_types_refuted). *)
Definition hlsl_sized_types : list str := map z_of_string [
  "int16_t"; "int32_t"; "int64_t"; "uint16_t"; "uint32_t"; "uint64_t"; "float16_t"; "float32_t"; "float64_t"
]%string.
