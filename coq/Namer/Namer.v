(* C16 — model of the three identifier namers of the text backends.

   Go sources modelled (read at the pinned tree; re-tied on every run by the
   op-sequence correspondence against the `verif` hooks):
     hlsl/internal/codegen/namer.go      namer.sanitize / call / reserve / namespace / newNamer
     msl/internal/codegen/writer.go      sanitizeName / namer.call  (struct members: fresh newNamer())
     glsl/internal/codegen/writer.go     sanitizeName / namer.call  (struct members: fresh newNamer())
     internal/backend/hlsl_namer.go      EndsWithDigit, IsASCIIAlphanumeric

   Strings are lists of code points (Z): a label is what Go's `for _, c := range s`
   yields for a valid UTF-8 string; an issued name is ASCII (theorem).
   Definitions only (proofs: NamerProofs.v). *)
From Coq Require Import List ZArith Bool NArith.
From Coq Require DecimalN HexadecimalN Decimal Hexadecimal.
Import ListNotations.
Open Scope Z_scope.

Definition str := list Z.

(* ---------------------------------------------------------------- characters *)
Definition US : Z := 95.                      (* '_' *)
Definition is_digit (c : Z) : bool := (48 <=? c) && (c <=? 57).
Definition is_lower (c : Z) : bool := (97 <=? c) && (c <=? 122).
Definition is_upper (c : Z) : bool := (65 <=? c) && (c <=? 90).
Definition is_alnum (c : Z) : bool := is_lower c || is_upper c || is_digit c.
Definition is_word (c : Z) : bool := is_alnum c || (c =? US).
(* ':' '<' '>' ',' — "C++-ish type separators" in all three sanitizers *)
Definition is_sep (c : Z) : bool := (c =? 58) || (c =? 60) || (c =? 62) || (c =? 44).
Definition to_lower (c : Z) : Z := if is_upper c then c + 32 else c.
Definition lower (s : str) : str := map to_lower s.

Fixpoint str_eqb (a b : str) : bool :=
  match a, b with
  | [], [] => true
  | x :: a', y :: b' => (x =? y) && str_eqb a' b'
  | _, _ => false
  end.

Definition mem (s : str) (l : list str) : bool := existsb (str_eqb s) l.

(* ---------------------------------------------------------------- numerals *)
Fixpoint dec_digits (u : Decimal.uint) : str :=
  match u with
  | Decimal.Nil => []
  | Decimal.D0 u => 48 :: dec_digits u | Decimal.D1 u => 49 :: dec_digits u
  | Decimal.D2 u => 50 :: dec_digits u | Decimal.D3 u => 51 :: dec_digits u
  | Decimal.D4 u => 52 :: dec_digits u | Decimal.D5 u => 53 :: dec_digits u
  | Decimal.D6 u => 54 :: dec_digits u | Decimal.D7 u => 55 :: dec_digits u
  | Decimal.D8 u => 56 :: dec_digits u | Decimal.D9 u => 57 :: dec_digits u
  end.
(* fmt "%d" of a non-negative counter *)
Definition dec (n : N) : str := dec_digits (N.to_uint n).

Fixpoint hex_digits (u : Hexadecimal.uint) : str :=
  match u with
  | Hexadecimal.Nil => []
  | Hexadecimal.D0 u => 48 :: hex_digits u | Hexadecimal.D1 u => 49 :: hex_digits u
  | Hexadecimal.D2 u => 50 :: hex_digits u | Hexadecimal.D3 u => 51 :: hex_digits u
  | Hexadecimal.D4 u => 52 :: hex_digits u | Hexadecimal.D5 u => 53 :: hex_digits u
  | Hexadecimal.D6 u => 54 :: hex_digits u | Hexadecimal.D7 u => 55 :: hex_digits u
  | Hexadecimal.D8 u => 56 :: hex_digits u | Hexadecimal.D9 u => 57 :: hex_digits u
  | Hexadecimal.Da u => 97 :: hex_digits u | Hexadecimal.Db u => 98 :: hex_digits u
  | Hexadecimal.Dc u => 99 :: hex_digits u | Hexadecimal.Dd u => 100 :: hex_digits u
  | Hexadecimal.De u => 101 :: hex_digits u | Hexadecimal.Df u => 102 :: hex_digits u
  end.
(* fmt "%04x" of a rune (runes from `range` are >= 0) *)
Definition hex4 (c : Z) : str :=
  let h := hex_digits (N.to_hex_uint (Z.to_N c)) in
  repeat 48 (4 - length h) ++ h.

(* ---------------------------------------------------------------- string helpers *)
Fixpoint drop_digits (s : str) : str :=
  match s with
  | c :: s' => if is_digit c then drop_digits s' else s
  | [] => []
  end.

(* on a reversed string: drop leading '_'  ==  strings.TrimRight(s, "_") *)
Fixpoint drop_us (r : str) : str :=
  match r with
  | c :: r' => if c =? US then drop_us r' else r
  | [] => []
  end.
Definition trim_right_us (s : str) : str := rev (drop_us (rev s)).

Fixpoint has_dunder (s : str) : bool :=       (* strings.Contains(s, "__") *)
  match s with
  | a :: ((b :: _) as s') => ((a =? US) && (b =? US)) || has_dunder s'
  | _ => false
  end.

Definition ends_digit (s : str) : bool :=     (* backend.EndsWithDigit *)
  match rev s with c :: _ => is_digit c | [] => false end.

Definition head_is_us (r : str) : bool := match r with c :: _ => c =? US | [] => false end.
Definition nonempty (r : str) : bool := match r with [] => false | _ => true end.

Definition unnamed : str := [117; 110; 110; 97; 109; 101; 100].   (* "unnamed" *)

(* the reversed text of  "u%04x_"  pushed on the reversed buffer b *)
Definition push_escape (c : Z) (b : str) : str := US :: rev (hex4 c) ++ 117 :: b.
(* `if buf.Len() > 0 && !HasSuffix(buf, "_") { buf.WriteByte('_') }` *)
Definition sep_if_needed (b : str) : str := if nonempty b && negb (head_is_us b) then US :: b else b.

(* ---------------------------------------------------------------- HLSL sanitize *)
(* one iteration of the "Filter characters" loop of namer.sanitize; b = reversed buf *)
Definition hlsl_step (b : str) (c : Z) : str :=
  if is_sep c then sep_if_needed b
  else if is_word c then
    (if (c =? US) && head_is_us b then b else c :: b)
  else push_escape c (sep_if_needed b).

Fixpoint has_prefix (p s : str) : bool :=
  match p, s with
  | [], _ => true
  | x :: p', y :: s' => (x =? y) && has_prefix p' s'
  | _, [] => false
  end.
Definition gen_ : str := [103; 101; 110; 95].  (* "gen_" *)
Definition prefix_check (prefixes : list str) (s : str) : str :=
  if existsb (fun p => has_prefix p s) prefixes then gen_ ++ s else s.

Definition hlsl_sanitize (prefixes : list str) (label : str) : str :=
  match label with
  | [] => unnamed
  | _ =>
    let s := trim_right_us (drop_digits label) in
    match s with
    | [] => unnamed
    | _ =>
      if has_dunder s || negb (forallb is_word s) then
        let r := rev (drop_us (fold_left hlsl_step s [])) in
        match r with [] => unnamed | _ => prefix_check prefixes r end
      else prefix_check prefixes s
    end
  end.

(* ---------------------------------------------------------------- MSL sanitize *)
Definition msl_step (b : str) (c0 : Z) : str :=
  let c := if is_sep c0 then US else c0 in
  let had := nonempty b && head_is_us b in
  if had && (c =? US) then b
  else if is_word c then
    (if negb (nonempty b) && is_digit c then b else c :: b)
  else push_escape c (if nonempty b && negb had then US :: b else b).

Definition msl_valid (s : str) : bool :=
  match s with
  | c :: _ => negb (is_digit c) && forallb is_word s
  | [] => true
  end.

(* sanitizeName followed by call's `if sanitized == "" { sanitized = fallbackName }` *)
Definition msl_sanitize (label : str) : str :=
  match label with
  | [] => unnamed
  | _ =>
    let r := if msl_valid label && negb (has_dunder label) then trim_right_us label
             else rev (drop_us (fold_left msl_step label [])) in
    match r with [] => unnamed | _ => r end
  end.

(* ---------------------------------------------------------------- GLSL sanitize *)
Definition glsl_step (b : str) (c : Z) : str :=
  if is_word c then
    (if (c =? US) && nonempty b && head_is_us b then b else c :: b)
  else if is_sep c || (c =? 32) then
    (if negb (nonempty b) || negb (head_is_us b) then US :: b else b)
  else push_escape c (sep_if_needed b).

Definition glsl_sanitize (label : str) : str :=
  match label with
  | [] => unnamed
  | _ =>
    let r := rev (drop_us (fold_left glsl_step (drop_digits label) [])) in
    match r with [] => unnamed | _ => r end
  end.

(* ---------------------------------------------------------------- the namer *)
(* A backend: its sanitizer and its keyword test. *)
Record backend := { sanitize : str -> str; is_kw : str -> bool }.

(* the `unique` / `perBase` map: base -> number of collisions so far *)
Definition umap := list (str * N).
Fixpoint lookup (k : str) (m : umap) : option N :=
  match m with
  | [] => None
  | (k', v) :: m' => if str_eqb k k' then Some v else lookup k m'
  end.

Definition first_form (B : backend) (base : str) : str :=
  if ends_digit base || is_kw B base then base ++ [US] else base.
Definition suffix_form (base : str) (n : N) : str := base ++ US :: dec n.

(* namer.call *)
Definition call (B : backend) (m : umap) (label : str) : str * umap :=
  let base := sanitize B label in
  match lookup base m with
  | Some c => (suffix_form base (N.succ c), (base, N.succ c) :: m)
  | None => (first_form B base, (base, 0%N) :: m)
  end.

(* namer.reserve (HLSL only) *)
Definition reserve (B : backend) (m : umap) (label : str) : umap :=
  let base := sanitize B label in
  match lookup base m with Some _ => m | None => (base, 0%N) :: m end.

(* A scope = one instance of the `unique` map together with the names issued
   from it (bookkeeping for the theorems; the Go code keeps only the map). *)
Record frame := { fmap : umap; issued : list str }.

Inductive op :=
| Call (label : str)
| Reserve (label : str)
| Enter            (* namespace(body): outer := unique; unique := {}   /  memberNamer := newNamer() *)
| Leave.           (* ... unique = outer *)

(* cur: innermost scope; stack: suspended outer scopes; closed: finished namespaces *)
Record nstate := { cur : frame; stack : list frame; closed : list frame }.

Definition step (B : backend) (st : nstate) (o : op) : nstate * option str :=
  match o with
  | Call l =>
    let '(n, m') := call B (fmap (cur st)) l in
    ({| cur := {| fmap := m'; issued := n :: issued (cur st) |}; stack := stack st; closed := closed st |}, Some n)
  | Reserve l =>
    ({| cur := {| fmap := reserve B (fmap (cur st)) l; issued := issued (cur st) |};
        stack := stack st; closed := closed st |}, None)
  | Enter =>
    ({| cur := {| fmap := []; issued := [] |}; stack := cur st :: stack st; closed := closed st |}, None)
  | Leave =>
    match stack st with
    | outer :: rest => ({| cur := outer; stack := rest; closed := cur st :: closed st |}, None)
    | [] => (st, None)          (* unbalanced Leave: no-op (cannot happen in Go: namespace(body) is a call) *)
    end
  end.

Fixpoint run (B : backend) (st : nstate) (ops : list op) : nstate * list (option str) :=
  match ops with
  | [] => (st, [])
  | o :: ops' =>
    let '(st', out) := step B st o in
    let '(st'', outs) := run B st' ops' in
    (st'', out :: outs)
  end.

Definition init_state (m : umap) : nstate :=
  {| cur := {| fmap := m; issued := [] |}; stack := []; closed := [] |}.

(* newNamer() of HLSL: `n.unique[n.sanitize(name)] = 0` for every helper name *)
Definition hlsl_init (B : backend) (helpers : list str) : umap :=
  fold_left (fun m h => (sanitize B h, 0%N) :: m) helpers [].

(* ---------------------------------------------------------------- the three backends,
   parameterised by the tables regenerated from /repo (Gen/Keywords.v) *)
Definition hlsl_is_kw (kws ci : list str) (name : str) : bool :=
  mem name kws || mem (lower name) (map lower ci).
Definition hlsl_backend (kws ci : list str) (prefixes : list str) : backend :=
  {| sanitize := hlsl_sanitize prefixes; is_kw := hlsl_is_kw kws ci |}.
Definition msl_backend (kws : list str) : backend :=
  {| sanitize := msl_sanitize; is_kw := fun s => mem s kws |}.
Definition glsl_backend (kws : list str) : backend :=
  {| sanitize := glsl_sanitize; is_kw := fun s => mem s kws |}.

(* all names a state has issued, scope by scope *)
Definition scopes (st : nstate) : list (list str) :=
  issued (cur st) :: map issued (stack st) ++ map issued (closed st).

(* ---------------------------------------------------------------- target identifier grammar *)
(* [A-Za-z_][A-Za-z0-9_]*  *)
Definition ident_ok (s : str) : bool :=
  match s with
  | c :: _ => negb (is_digit c) && forallb is_word s
  | [] => false
  end.

(* generated temporaries `_e<digits>` (baked expressions, all three backends) *)
Definition is_temp_name (s : str) : bool :=
  match s with
  | 95 :: 101 :: ((_ :: _) as d) => forallb is_digit d
  | _ => false
  end.

(* x ++ "_" ++ <one or more digits>: the shape of a collision-suffixed name *)
Fixpoint all_digits_then_us (r : str) (seen : bool) : bool :=
  match r with
  | c :: r' => if is_digit c then all_digits_then_us r' true
               else (c =? US) && seen && nonempty r'
  | [] => false
  end.
Definition has_suffix_shape (s : str) : bool := all_digits_then_us (rev s) false.
Definition ends_us (s : str) : bool := head_is_us (rev s).
