(* C16 — the namer invariant, by induction over ALL sequences of namer
   operations, for any backend whose sanitizer yields good bases and whose
   keyword test rejects names ending in '_' and names of shape x_<digits>. *)
From Coq Require Import List ZArith Bool NArith Lia.
Import ListNotations.
Require Import Naga.Namer.Namer Naga.Namer.NamerProofs Naga.Namer.SanitizeProofs.
Open Scope Z_scope.

Section Inv.
Variable B : backend.
Hypothesis HS : forall l, good_base (sanitize B l).
Hypothesis HK1 : forall s, has_dunder s = false -> ends_us s = true -> is_kw B s = false.

(* what one issued name looks like *)
Definition issuable (n : str) : Prop :=
  exists base, good_base base /\ (n = first_form B base \/ exists k, n = suffix_form base k).

Definition name_ok (n : str) : Prop :=
  n <> [] /\ forallb is_word n = true /\ has_dunder n = false /\ is_temp_name n = false.

Lemma good_base_app_us : forall b, good_base b -> has_dunder (b ++ [US]) = false.
Proof.
  intros b [_ [_ [He Hd]]]. rewrite has_dunder_app_end, Hd, He. reflexivity.
Qed.

Lemma first_form_cases : forall b,
  (first_form B b = b /\ ends_digit b = false /\ is_kw B b = false) \/
  (first_form B b = b ++ [US] /\ (ends_digit b = true \/ is_kw B b = true)).
Proof.
  intro b. unfold first_form. destruct (ends_digit b) eqn:D; simpl.
  - right. auto.
  - destruct (is_kw B b) eqn:K; [right | left]; auto.
Qed.

Lemma first_form_ok : forall b, good_base b -> name_ok (first_form B b).
Proof.
  intros b G. destruct (first_form_cases b) as [[E [D K]] | [E _]]; rewrite E.
  - destruct G as [G1 [G2 [G3 G4]]]. repeat split; try assumption.
    destruct (is_temp_name b) eqn:T; [|reflexivity]. apply temp_name_ends_digit in T. congruence.
  - pose proof (good_base_app_us b G) as Hd. destruct G as [G1 [G2 [G3 G4]]]. repeat split.
    + destruct b; discriminate.
    + rewrite forallb_app, G2. reflexivity.
    + exact Hd.
    + destruct (is_temp_name (b ++ [US])) eqn:T; [|reflexivity]. apply temp_name_ends_digit in T.
      rewrite ends_digit_app in T. discriminate.
Qed.

Lemma suffix_form_ok : forall b k, good_base b -> name_ok (suffix_form b k).
Proof.
  intros b k G. pose proof G as [G1 [G2 [G3 G4]]]. repeat split.
  - unfold suffix_form. destruct b; discriminate.
  - unfold suffix_form. rewrite forallb_app, G2. simpl.
    apply (forallb_impl is_digit is_word _ digit_is_word). apply dec_all_digits.
  - unfold suffix_form. change (US :: dec k) with ([US] ++ dec k). rewrite app_assoc.
    rewrite <- has_dunder_rev. rewrite rev_app_distr.
    rewrite has_dunder_nous_app.
    + rewrite has_dunder_rev. apply good_base_app_us. exact G.
    + rewrite forallb_rev. apply (forallb_impl is_digit); [|apply dec_all_digits].
      intros c Hc. rewrite (digit_not_us _ Hc). reflexivity.
  - apply suffix_form_not_temp.
Qed.

Lemma issuable_ok : forall n, issuable n -> name_ok n.
Proof.
  intros n [b [G [E | [k E]]]]; subst; [apply first_form_ok | apply suffix_form_ok]; exact G.
Qed.

(* an issued name can only be a table keyword if it is a collision-suffixed name x_<digits> *)
Lemma issuable_kw : forall n, issuable n -> is_kw B n = true -> has_suffix_shape n = true.
Proof.
  intros n [b [G [E | [k E]]]] K; subst.
  - exfalso. destruct (first_form_cases b) as [[E [_ K']] | [E _]]; rewrite E in K; [congruence|].
    rewrite HK1 in K; [discriminate | apply good_base_app_us; exact G | apply ends_us_app].
  - apply suffix_form_shape. destruct G as [G _]. exact G.
Qed.

(* ---------------------------------------------------------- unique decomposition *)
Lemma first_form_inj : forall b1 b2, good_base b1 -> good_base b2 ->
  first_form B b1 = first_form B b2 -> b1 = b2.
Proof.
  intros b1 b2 G1 G2 E.
  destruct (first_form_cases b1) as [[E1 _] | [E1 _]]; destruct (first_form_cases b2) as [[E2 _] | [E2 _]];
    rewrite E1, E2 in E.
  - exact E.
  - exfalso. destruct G1 as [_ [_ [He _]]]. rewrite E in He. rewrite ends_us_app in He. discriminate.
  - exfalso. destruct G2 as [_ [_ [He _]]]. rewrite <- E in He. rewrite ends_us_app in He. discriminate.
  - apply app_inj_tail in E. tauto.
Qed.

Lemma first_form_not_digit_end : forall b, ends_digit (first_form B b) = false.
Proof.
  intro b. destruct (first_form_cases b) as [[E [D _]] | [E _]]; rewrite E; [exact D|].
  apply ends_digit_app.
Qed.

Lemma first_ne_suffix : forall b1 b2 k, first_form B b1 <> suffix_form b2 k.
Proof.
  intros b1 b2 k E. pose proof (first_form_not_digit_end b1) as H. rewrite E in H.
  rewrite suffix_form_ends_digit in H. discriminate.
Qed.

(* ---------------------------------------------------------- frames *)
Definition from_base (m : umap) (n : str) : Prop :=
  exists base c, lookup base m = Some c /\
    (n = first_form B base \/ exists k, (1 <= k <= c)%N /\ n = suffix_form base k).

Definition map_ok (m : umap) : Prop := forall base c, lookup base m = Some c -> good_base base.

Definition frame_ok (f : frame) : Prop :=
  NoDup (issued f) /\ (forall n, In n (issued f) -> from_base (fmap f) n) /\ map_ok (fmap f).

Lemma lookup_cons_eq : forall k v m, lookup k ((k, v) :: m) = Some v.
Proof. intros. simpl. rewrite str_eqb_refl. reflexivity. Qed.

Lemma lookup_cons_ne : forall k k' v m, k <> k' -> lookup k ((k', v) :: m) = lookup k m.
Proof. intros k k' v m H. simpl. apply str_eqb_neq in H. rewrite H. reflexivity. Qed.

Lemma map_ok_cons : forall m base c, map_ok m -> good_base base -> map_ok ((base, c) :: m).
Proof.
  intros m base c Hm G b v H. destruct (str_eqb b base) eqn:E.
  - apply str_eqb_eq in E. subst. exact G.
  - simpl in H. rewrite E in H. apply (Hm _ _ H).
Qed.

Lemma from_base_issuable : forall m n, map_ok m -> from_base m n -> issuable n.
Proof.
  intros m n Hm [b [c [L H]]]. exists b. split; [apply (Hm _ _ L)|].
  destruct H as [H | [k [_ H]]]; [left | right; exists k]; exact H.
Qed.

Lemma call_frame_ok : forall f l n m',
  frame_ok f -> call B (fmap f) l = (n, m') ->
  frame_ok {| fmap := m'; issued := n :: issued f |}.
Proof.
  intros f l n m' [Hnd [Hfrom Hmap]] Hc. unfold call in Hc.
  set (base := sanitize B l) in *. pose proof (HS l) as G. fold base in G.
  destruct (lookup base (fmap f)) as [c|] eqn:L; inversion Hc; subst; clear Hc; unfold frame_ok; simpl.
  - (* collision: base_(c+1) *)
    split; [|split].
    + constructor; [|exact Hnd]. intro Hin. destruct (Hfrom _ Hin) as [b' [c' [L' H]]].
      destruct H as [H | [k [Hk H]]].
      * symmetry in H. exact (first_ne_suffix _ _ _ H).
      * apply suffix_form_inj in H. destruct H as [Hb Hk']. subst b'. rewrite L in L'. inversion L'; subst. lia.
    + intros n [Hn | Hn].
      * subst n. exists base, (N.succ c). split; [apply lookup_cons_eq|]. right. exists (N.succ c). split; [lia | reflexivity].
      * destruct (Hfrom _ Hn) as [b' [c' [L' H]]]. destruct (str_eqb b' base) eqn:E.
        -- apply str_eqb_eq in E. subst b'. rewrite L in L'. inversion L'; subst c'.
           exists base, (N.succ c). split; [apply lookup_cons_eq|].
           destruct H as [H | [k [Hk H]]]; [left; exact H | right; exists k; split; [lia | exact H]].
        -- exists b', c'. split; [|exact H]. simpl. rewrite E. exact L'.
    + apply map_ok_cons; assumption.
  - (* first use *)
    split; [|split].
    + constructor; [|exact Hnd]. intro Hin. destruct (Hfrom _ Hin) as [b' [c' [L' H]]].
      destruct H as [H | [k [Hk H]]].
      * apply first_form_inj in H; [|exact G | apply (Hmap _ _ L')]. subst b'. congruence.
      * exact (first_ne_suffix _ _ _ H).
    + intros n [Hn | Hn].
      * subst n. exists base, 0%N. split; [apply lookup_cons_eq | left; reflexivity].
      * destruct (Hfrom _ Hn) as [b' [c' [L' H]]]. exists b', c'. split; [|exact H].
        rewrite lookup_cons_ne; [exact L'|]. intro E. subst b'. congruence.
    + apply map_ok_cons; assumption.
Qed.

Lemma reserve_frame_ok : forall f l,
  frame_ok f -> frame_ok {| fmap := reserve B (fmap f) l; issued := issued f |}.
Proof.
  intros f l [Hnd [Hfrom Hmap]]. unfold reserve. set (base := sanitize B l).
  destruct (lookup base (fmap f)) eqn:L; [split; [|split]; assumption|].
  split; [exact Hnd | split].
  - simpl. intros n Hn. destruct (Hfrom _ Hn) as [b' [c' [L' H]]]. exists b', c'. split; [|exact H].
    rewrite lookup_cons_ne; [exact L'|]. intro E. subst b'. congruence.
  - simpl. apply map_ok_cons; [exact Hmap | apply HS].
Qed.

(* ---------------------------------------------------------- states *)
Definition frames (st : nstate) : list frame := cur st :: stack st ++ closed st.
Definition state_ok (st : nstate) : Prop := forall f, In f (frames st) -> frame_ok f.

Lemma empty_frame_ok : frame_ok {| fmap := []; issued := [] |}.
Proof. split; [constructor | split]; [intros n [] | intros b c H; discriminate]. Qed.

Lemma step_ok : forall st o st' out, state_ok st -> step B st o = (st', out) -> state_ok st'.
Proof.
  intros st o st' out Hst Hs. destruct o as [l | l | |]; simpl in Hs.
  - destruct (call B (fmap (cur st)) l) as [n m'] eqn:C. inversion Hs; subst; clear Hs.
    intros f [Hf | Hf]; simpl in *.
    + subst f. eapply call_frame_ok; [|exact C]. apply Hst. left. reflexivity.
    + apply Hst. right. exact Hf.
  - inversion Hs; subst; clear Hs. intros f [Hf | Hf]; simpl in *.
    + subst f. apply reserve_frame_ok. apply Hst. left. reflexivity.
    + apply Hst. right. exact Hf.
  - inversion Hs; subst; clear Hs. intros f [Hf | Hf]; simpl in *.
    + subst f. apply empty_frame_ok.
    + apply Hst. unfold frames. destruct Hf as [Hf | Hf]; [left; exact Hf | right; exact Hf].
  - destruct (stack st) as [|outer rest] eqn:S; inversion Hs; subst; clear Hs; [exact Hst|].
    intros f Hf. apply Hst. unfold frames in *. rewrite S. simpl in *.
    rewrite in_app_iff in Hf. simpl in Hf. rewrite in_app_iff. tauto.
Qed.

Theorem run_ok : forall ops st st' outs, state_ok st -> run B st ops = (st', outs) -> state_ok st'.
Proof.
  induction ops as [|o ops IH]; intros st st' outs Hst Hr; simpl in Hr.
  - inversion Hr; subst. exact Hst.
  - destruct (step B st o) as [st1 out] eqn:S. destruct (run B st1 ops) as [st2 outs2] eqn:R.
    inversion Hr; subst. eapply IH; [|exact R]. eapply step_ok; [exact Hst | exact S].
Qed.

(* every name handed out is recorded in a scope and stays there *)
Definition recorded (st : nstate) (n : str) : Prop := exists f, In f (frames st) /\ In n (issued f).

Lemma step_recorded_mono : forall st o st' out n, step B st o = (st', out) -> recorded st n -> recorded st' n.
Proof.
  intros st o st' out n Hs [f [Hf Hn]]. destruct o as [l | l | |]; simpl in Hs.
  - destruct (call B (fmap (cur st)) l) as [n' m'] eqn:C. inversion Hs; subst; clear Hs.
    destruct Hf as [Hf | Hf].
    + subst f. eexists. split; [left; reflexivity|]. simpl. right. exact Hn.
    + exists f. split; [right; exact Hf | exact Hn].
  - inversion Hs; subst; clear Hs. destruct Hf as [Hf | Hf].
    + subst f. eexists. split; [left; reflexivity|]. simpl. exact Hn.
    + exists f. split; [right; exact Hf | exact Hn].
  - inversion Hs; subst; clear Hs. exists f. split; [|exact Hn]. right. exact Hf.
  - destruct (stack st) as [|outer rest] eqn:S; inversion Hs; subst; clear Hs; [exists f; auto|].
    exists f. split; [|exact Hn]. unfold frames in *. rewrite S in Hf. simpl in *.
    rewrite in_app_iff in Hf. simpl. rewrite in_app_iff. simpl. tauto.
Qed.

Lemma step_out_recorded : forall st o st' n, step B st o = (st', Some n) -> recorded st' n.
Proof.
  intros st o st' n Hs. destruct o as [l | l | |]; simpl in Hs.
  - destruct (call B (fmap (cur st)) l) as [n' m'] eqn:C. inversion Hs; subst; clear Hs.
    eexists. split; [left; reflexivity|]. simpl. left. reflexivity.
  - inversion Hs.
  - inversion Hs.
  - destruct (stack st); inversion Hs.
Qed.

Lemma run_recorded_mono : forall ops st st' outs n, run B st ops = (st', outs) -> recorded st n -> recorded st' n.
Proof.
  induction ops as [|o ops IH]; intros st st' outs n Hr Hn; simpl in Hr.
  - inversion Hr; subst. exact Hn.
  - destruct (step B st o) as [st1 out] eqn:S. destruct (run B st1 ops) as [st2 outs2] eqn:R.
    inversion Hr; subst. eapply IH; [exact R|]. eapply step_recorded_mono; eassumption.
Qed.

Theorem run_outs_recorded : forall ops st st' outs n,
  run B st ops = (st', outs) -> In (Some n) outs -> recorded st' n.
Proof.
  induction ops as [|o ops IH]; intros st st' outs n Hr Hin; simpl in Hr.
  - inversion Hr; subst. destruct Hin.
  - destruct (step B st o) as [st1 out] eqn:S. destruct (run B st1 ops) as [st2 outs2] eqn:R.
    inversion Hr; subst. destruct Hin as [Hin | Hin].
    + subst out. eapply run_recorded_mono; [exact R|]. eapply step_out_recorded. exact S.
    + eapply IH; eassumption.
Qed.

(* ---------------------------------------------------------- main statements *)
Theorem namer_distinct : forall ops st st' outs f,
  state_ok st -> run B st ops = (st', outs) -> In f (frames st') -> NoDup (issued f).
Proof. intros. eapply run_ok in H0; [|exact H]. destruct (H0 f H1) as [A _]. exact A. Qed.

Theorem namer_names_ok : forall ops st st' outs n,
  state_ok st -> run B st ops = (st', outs) -> In (Some n) outs -> name_ok n.
Proof.
  intros ops st st' outs n Hst Hr Hin. pose proof (run_ok _ _ _ _ Hst Hr) as Hok.
  destruct (run_outs_recorded _ _ _ _ _ Hr Hin) as [f [Hf Hn]].
  destruct (Hok f Hf) as [_ [Hfrom Hmap]]. apply issuable_ok. eapply from_base_issuable; eauto.
Qed.

Theorem namer_issuable : forall ops st st' outs n,
  state_ok st -> run B st ops = (st', outs) -> In (Some n) outs -> issuable n.
Proof.
  intros ops st st' outs n Hst Hr Hin. pose proof (run_ok _ _ _ _ Hst Hr) as Hok.
  destruct (run_outs_recorded _ _ _ _ _ Hr Hin) as [f [Hf Hn]].
  destruct (Hok f Hf) as [_ [Hfrom Hmap]]. eapply from_base_issuable; eauto.
Qed.

(* an issued name that ends in a digit is a collision-suffixed name x_<digits> *)
Lemma issuable_digit_shape : forall n, issuable n -> ends_digit n = true -> has_suffix_shape n = true.
Proof.
  intros n [b [G [E | [k E]]]] D; subst.
  - rewrite first_form_not_digit_end in D. discriminate.
  - apply suffix_form_shape. destruct G as [G _]. exact G.
Qed.

(* identifier grammar, given that the sanitized labels do not start with a digit *)
Fixpoint labels (ops : list op) : list str :=
  match ops with
  | Call l :: r => l :: labels r
  | Reserve l :: r => l :: labels r
  | _ :: r => labels r
  | [] => []
  end.

Lemma first_form_head : forall b, b <> [] -> starts_nondigit (first_form B b) = starts_nondigit b.
Proof. intros b Hb. unfold first_form. destruct (ends_digit b || is_kw B b); destruct b; try reflexivity; contradiction. Qed.

Lemma suffix_form_head : forall b k, b <> [] -> starts_nondigit (suffix_form b k) = starts_nondigit b.
Proof. intros b k Hb. unfold suffix_form. destruct b; [contradiction | reflexivity]. Qed.

Lemma ident_ok_intro : forall n, forallb is_word n = true -> starts_nondigit n = true -> ident_ok n = true.
Proof. intros n H1 H2. unfold ident_ok. destruct n; [discriminate|]. simpl in H2. rewrite H2. exact H1. Qed.

Definition map_first (m : umap) : Prop := forall base c, lookup base m = Some c -> starts_nondigit base = true.
Definition frame_first (f : frame) : Prop :=
  map_first (fmap f) /\ forall n, In n (issued f) -> starts_nondigit n = true.
Definition state_first (st : nstate) : Prop := forall f, In f (frames st) -> frame_first f.

Lemma step_first : forall st o st' out, state_first st ->
  (forall l, In l (labels [o]) -> starts_nondigit (sanitize B l) = true) ->
  step B st o = (st', out) -> state_first st'.
Proof.
  intros st o st' out Hst Hl Hs. destruct o as [l | l | |]; simpl in Hs.
  - assert (Hb : starts_nondigit (sanitize B l) = true) by (apply Hl; left; reflexivity).
    pose proof (HS l) as [Hne _].
    unfold call in Hs. destruct (lookup (sanitize B l) (fmap (cur st))) as [c|] eqn:L; inversion Hs; subst; clear Hs;
      intros f [Hf | Hf]; try (apply Hst; right; exact Hf); subst f; destruct (Hst (cur st) (or_introl eq_refl)) as [Hm Hi]; split; simpl.
    + intros b v H. destruct (str_eqb b (sanitize B l)) eqn:E; [apply str_eqb_eq in E; subst; exact Hb|].
      simpl in H. rewrite E in H. apply (Hm _ _ H).
    + intros n [Hn | Hn]; [subst n; rewrite suffix_form_head; assumption | apply Hi; exact Hn].
    + intros b v H. destruct (str_eqb b (sanitize B l)) eqn:E; [apply str_eqb_eq in E; subst; exact Hb|].
      simpl in H. rewrite E in H. apply (Hm _ _ H).
    + intros n [Hn | Hn]; [subst n; rewrite first_form_head; assumption | apply Hi; exact Hn].
  - assert (Hb : starts_nondigit (sanitize B l) = true) by (apply Hl; left; reflexivity).
    inversion Hs; subst; clear Hs. intros f [Hf | Hf]; [|apply Hst; right; exact Hf]. subst f.
    destruct (Hst (cur st) (or_introl eq_refl)) as [Hm Hi]. split; simpl; [|exact Hi].
    unfold reserve. destruct (lookup (sanitize B l) (fmap (cur st))); [exact Hm|].
    intros b v H. destruct (str_eqb b (sanitize B l)) eqn:E; [apply str_eqb_eq in E; subst; exact Hb|].
    simpl in H. rewrite E in H. apply (Hm _ _ H).
  - inversion Hs; subst; clear Hs. intros f [Hf | Hf].
    + subst f. split; [intros b c H; discriminate | intros n []].
    + apply Hst. unfold frames. simpl in Hf. destruct Hf as [Hf | Hf]; [left | right]; exact Hf.
  - destruct (stack st) as [|outer rest] eqn:S; inversion Hs; subst; clear Hs; [exact Hst|].
    intros f Hf. apply Hst. unfold frames in *. rewrite S. simpl in *.
    rewrite in_app_iff in Hf. simpl in Hf. rewrite in_app_iff. tauto.
Qed.

Lemma run_first : forall ops st st' outs, state_first st ->
  (forall l, In l (labels ops) -> starts_nondigit (sanitize B l) = true) ->
  run B st ops = (st', outs) -> state_first st'.
Proof.
  induction ops as [|o ops IH]; intros st st' outs Hst Hl Hr; simpl in Hr.
  - inversion Hr; subst. exact Hst.
  - destruct (step B st o) as [st1 out] eqn:S. destruct (run B st1 ops) as [st2 outs2] eqn:R.
    inversion Hr; subst. eapply IH; [| |exact R].
    + eapply step_first; [exact Hst | | exact S]. intros l Hin. apply Hl.
      destruct o; simpl in *; tauto.
    + intros l Hin. apply Hl. destruct o; simpl; tauto.
Qed.

Theorem namer_ident_ok : forall ops st st' outs n,
  state_ok st -> state_first st ->
  (forall l, In l (labels ops) -> starts_nondigit (sanitize B l) = true) ->
  run B st ops = (st', outs) -> In (Some n) outs -> ident_ok n = true.
Proof.
  intros ops st st' outs n Hok Hfirst Hl Hr Hin.
  destruct (namer_names_ok _ _ _ _ _ Hok Hr Hin) as [_ [Hw _]].
  destruct (run_outs_recorded _ _ _ _ _ Hr Hin) as [f [Hf Hn]].
  destruct (run_first _ _ _ _ Hfirst Hl Hr f Hf) as [_ Hi].
  apply ident_ok_intro; [exact Hw | apply Hi; exact Hn].
Qed.

(* ---------------------------------------------------------- namespace restores *)
Fixpoint flat (ops : list op) : bool :=
  match ops with
  | Enter :: _ => false
  | Leave :: _ => false
  | _ :: r => flat r
  | [] => true
  end.

Lemma run_flat_stack : forall ops st st' outs, flat ops = true -> run B st ops = (st', outs) ->
  stack st' = stack st /\ closed st' = closed st.
Proof.
  induction ops as [|o ops IH]; intros st st' outs Hf Hr; simpl in Hr.
  - inversion Hr; subst. auto.
  - destruct (step B st o) as [st1 out] eqn:S. destruct (run B st1 ops) as [st2 outs2] eqn:R.
    inversion Hr; subst. destruct o as [l | l | |]; simpl in Hf; try discriminate.
    + simpl in S. destruct (call B (fmap (cur st)) l). inversion S; subst.
      destruct (IH _ _ _ Hf R) as [A C]. simpl in *. auto.
    + simpl in S. inversion S; subst. destruct (IH _ _ _ Hf R) as [A C]. simpl in *. auto.
Qed.

Lemma run_app : forall a b st, run B st (a ++ b) =
  let '(st1, o1) := run B st a in let '(st2, o2) := run B st1 b in (st2, o1 ++ o2).
Proof.
  induction a as [|o a IH]; intros b st; simpl.
  - destruct (run B st b). reflexivity.
  - destruct (step B st o) as [st1 out]. rewrite IH. destruct (run B st1 a) as [st2 o2].
    destruct (run B st2 b). reflexivity.
Qed.

(* namespace(body) leaves the outer `unique` map (and what was issued from it) untouched *)
Theorem namespace_restores : forall body st st' outs,
  flat body = true -> run B st (Enter :: body ++ [Leave]) = (st', outs) ->
  cur st' = cur st /\ stack st' = stack st.
Proof.
  intros body st st' outs Hf Hr. simpl in Hr. rewrite run_app in Hr.
  set (st0 := {| cur := {| fmap := []; issued := [] |}; stack := cur st :: stack st; closed := closed st |}) in *.
  destruct (run B st0 body) as [st1 o1] eqn:R1.
  destruct (run_flat_stack _ _ _ _ Hf R1) as [A C]. simpl in A.
  simpl in Hr. rewrite A in Hr. inversion Hr; subst. simpl. auto.
Qed.

End Inv.

(* the initial states are ok *)
Lemma init_state_ok : forall B m, map_ok m -> state_ok B (init_state m).
Proof.
  intros B m Hm f [Hf | Hf]; [|destruct Hf]. subst f. split; [constructor | split]; [intros n [] | exact Hm].
Qed.

Lemma hlsl_init_map_ok : forall B helpers, (forall l, good_base (sanitize B l)) -> map_ok (hlsl_init B helpers).
Proof.
  intros B helpers HS. unfold hlsl_init.
  assert (G : forall hs m, map_ok m -> map_ok (fold_left (fun m h => (sanitize B h, 0%N) :: m) hs m)).
  { induction hs as [|h hs IH]; intros m Hm; simpl; [exact Hm|]. apply IH. apply map_ok_cons; [exact Hm | apply HS]. }
  apply G. intros b c H. discriminate.
Qed.

Lemma init_state_first : forall m, map_first m -> state_first (init_state m).
Proof.
  intros m Hm f [Hf | Hf]; [|destruct Hf]. subst f. split; [exact Hm | intros n []].
Qed.

Lemma hlsl_init_map_first : forall B helpers,
  (forall h, In h helpers -> starts_nondigit (sanitize B h) = true) -> map_first (hlsl_init B helpers).
Proof.
  intros B helpers. unfold hlsl_init.
  assert (G : forall hs m, (forall h, In h hs -> starts_nondigit (sanitize B h) = true) -> map_first m ->
              map_first (fold_left (fun m h => (sanitize B h, 0%N) :: m) hs m)).
  { induction hs as [|h hs IH]; intros m Hh Hm; simpl; [exact Hm|]. apply IH; [intros; apply Hh; right; assumption|].
    intros b c H. simpl in H. destruct (str_eqb b (sanitize B h)) eqn:E.
    - apply str_eqb_eq in E. subst. apply Hh. left. reflexivity.
    - apply (Hm _ _ H). }
  intro Hh. apply G; [exact Hh|]. intros b c H. discriminate.
Qed.
