(* C16 — spec keyword lists are written as Coq strings and converted to code points. *)
From Coq Require Import List ZArith String Ascii NArith.
Import ListNotations.
Require Import Naga.Namer.Namer.

Definition z_of_string (s : string) : str := map (fun a => Z.of_N (N_of_ascii a)) (list_ascii_of_string s).
