(* C16 — the three namers instantiated with the keyword tables regenerated from
   /repo (Gen/Keywords.v), the obligations on those tables (gen_*: re-checked by
   coqc on every run; a keyword deleted from a Go table breaks gen_*_spec_covered),
   and the invariant theorems for each backend. *)
From Coq Require Import List ZArith Bool NArith Lia String.
Import ListNotations.
Require Import Naga.Namer.Namer Naga.Namer.NamerProofs Naga.Namer.SanitizeProofs Naga.Namer.NamerInv.
Require Import Naga.Gen.Keywords.
Require Import Naga.Namer.SpecBase Naga.Namer.SpecHlsl Naga.Namer.SpecMsl Naga.Namer.SpecGlsl.
Open Scope Z_scope.

Definition HLSL : backend := hlsl_backend hlsl_keywords hlsl_ci_keywords [].
Definition MSL : backend := msl_backend msl_keywords.
Definition GLSL : backend := glsl_backend glsl_keywords.
Definition hlsl_start : nstate := init_state (hlsl_init HLSL hlsl_helpers).
Definition plain_start : nstate := init_state [].

(* ------------------------------------------------------------ obligations on the regenerated tables *)
(* Issued names never contain "__".  Among table words without "__":
   none may end in '_' (else `kw_` could be a keyword), and the words of shape
   x_<digits> are exactly the collision-suffixed names that can be keywords. *)
Definition kw_end_ok (k : str) : bool := has_dunder k || negb (ends_us k).
Definition shape_exceptions (T : list str) : list str :=
  filter (fun k => negb (has_dunder k) && has_suffix_shape k) T.
Definition ascii_only (k : str) : bool := forallb (fun c => (0 <? c) && (c <? 128)) k.

Lemma gen_hlsl_kw_end : forallb kw_end_ok hlsl_keywords = true.
Proof. vm_compute. reflexivity. Qed.
Lemma gen_hlsl_ci_end : forallb kw_end_ok (map lower hlsl_ci_keywords) = true.
Proof. vm_compute. reflexivity. Qed.
(* strings.ToLower is modelled on ASCII only *)
Lemma gen_hlsl_ci_ascii : forallb ascii_only hlsl_ci_keywords = true.
Proof. vm_compute. reflexivity. Qed.
Lemma gen_msl_kw_end : forallb kw_end_ok msl_keywords = true.
Proof. vm_compute. reflexivity. Qed.
Lemma gen_glsl_kw_end : forallb kw_end_ok glsl_keywords = true.
Proof. vm_compute. reflexivity. Qed.

(* table words of shape x_<digits> (no "__"): HLSL and GLSL have none; MSL has three *)
Lemma gen_hlsl_no_shape_kw : shape_exceptions hlsl_keywords = [].
Proof. vm_compute. reflexivity. Qed.
Lemma gen_hlsl_ci_no_shape_kw : shape_exceptions (map lower hlsl_ci_keywords) = [].
Proof. vm_compute. reflexivity. Qed.
Lemma gen_glsl_no_shape_kw : shape_exceptions glsl_keywords = [].
Proof. vm_compute. reflexivity. Qed.
Definition msl_exceptions : list str :=
  map z_of_string ["M_PI_2"; "M_PI_4"; "M_SQRT1_2"]%string.
Lemma gen_msl_shape_kw : shape_exceptions msl_keywords = msl_exceptions.
Proof. vm_compute. reflexivity. Qed.

(* a word of the language specification is escaped by the namer: it is in the
   table, or it ends in a digit (then `call` appends '_') and is not of shape x_<digits> *)
Definition escaped (B : backend) (k : str) : bool :=
  is_kw B k || (ends_digit k && negb (has_suffix_shape k)).

Lemma gen_hlsl_spec_covered : forallb (escaped HLSL) hlsl_spec = true.
Proof. vm_compute. reflexivity. Qed.
Lemma gen_hlsl_spec_ci_covered :
  forallb (fun k => mem (lower k) (map lower hlsl_ci_keywords)) hlsl_spec_ci = true.
Proof. vm_compute. reflexivity. Qed.
Lemma gen_msl_spec_covered : forallb (escaped MSL) msl_spec = true.
Proof. vm_compute. reflexivity. Qed.
Lemma gen_glsl_spec_covered : forallb (escaped GLSL) glsl_spec = true.
Proof. vm_compute. reflexivity. Qed.
Lemma gen_msl_spec_not_exception : forallb (fun k => negb (mem k msl_exceptions)) msl_spec = true.
Proof. vm_compute. reflexivity. Qed.
(* the helper names newNamer() reserves are keywords of the table as well *)
Lemma gen_hlsl_helpers_kw : forallb (is_kw HLSL) hlsl_helpers = true.
Proof. vm_compute. reflexivity. Qed.

(* ------------------------------------------------------------ from tables to the hypotheses of NamerInv *)
Lemma table_prop : forall (P : str -> bool) T s, forallb P T = true -> mem s T = true -> P s = true.
Proof.
  intros P T s H M. apply mem_In in M. rewrite forallb_forall in H. apply H. exact M.
Qed.

Lemma to_lower_digit : forall c, is_digit (to_lower c) = is_digit c.
Proof. intro c. unfold to_lower, is_upper, is_digit. destruct ((65 <=? c) && (c <=? 90)) eqn:E; [lia | reflexivity]. Qed.
Lemma to_lower_us : forall c, (to_lower c =? US) = (c =? US).
Proof. intro c. unfold to_lower, is_upper, US. destruct ((65 <=? c) && (c <=? 90)) eqn:E; [lia | reflexivity]. Qed.

Lemma ends_us_lower : forall s, ends_us (lower s) = ends_us s.
Proof.
  intro s. unfold ends_us, lower. rewrite <- map_rev. destruct (rev s); simpl; [reflexivity | apply to_lower_us].
Qed.

Lemma shape_lower : forall s, has_suffix_shape (lower s) = has_suffix_shape s.
Proof.
  intro s. unfold has_suffix_shape, lower. rewrite <- map_rev. generalize (rev s) false.
  induction l as [|c r IH]; intro seen; simpl; [reflexivity|].
  rewrite to_lower_digit, to_lower_us. rewrite IH. destruct r; reflexivity.
Qed.

Lemma has_dunder_lower : forall s, has_dunder (lower s) = has_dunder s.
Proof.
  induction s as [|a s IH]; [reflexivity|]. unfold lower in *. simpl map. rewrite !has_dunder_cons, IH, to_lower_us.
  destruct s; simpl; [reflexivity | rewrite to_lower_us; reflexivity].
Qed.

Lemma kw_end_ends : forall k, kw_end_ok k = true -> has_dunder k = false -> ends_us k = false.
Proof. intros k H D. unfold kw_end_ok in H. rewrite D in H. simpl in H. apply negb_true_iff in H. exact H. Qed.

Lemma shape_exc_in : forall T k, In k T -> has_dunder k = false -> has_suffix_shape k = true -> In k (shape_exceptions T).
Proof. intros T k Hin D S. unfold shape_exceptions. apply filter_In. split; [exact Hin|]. rewrite D, S. reflexivity. Qed.

(* HK1 for the three backends *)
Lemma HLSL_HK1 : forall s, has_dunder s = false -> ends_us s = true -> is_kw HLSL s = false.
Proof.
  intros s D E. destruct (is_kw HLSL s) eqn:K; [|reflexivity]. exfalso.
  simpl in K. unfold hlsl_is_kw in K. apply orb_true_iff in K. destruct K as [K | K].
  - pose proof (kw_end_ends _ (table_prop _ _ _ gen_hlsl_kw_end K) D). congruence.
  - assert (D' : has_dunder (lower s) = false) by (rewrite has_dunder_lower; exact D).
    pose proof (kw_end_ends _ (table_prop _ _ _ gen_hlsl_ci_end K) D') as X. rewrite ends_us_lower in X. congruence.
Qed.
Lemma MSL_HK1 : forall s, has_dunder s = false -> ends_us s = true -> is_kw MSL s = false.
Proof.
  intros s D E. destruct (is_kw MSL s) eqn:K; [|reflexivity]. exfalso.
  pose proof (kw_end_ends _ (table_prop _ _ _ gen_msl_kw_end K) D). congruence.
Qed.
Lemma GLSL_HK1 : forall s, has_dunder s = false -> ends_us s = true -> is_kw GLSL s = false.
Proof.
  intros s D E. destruct (is_kw GLSL s) eqn:K; [|reflexivity]. exfalso.
  pose proof (kw_end_ends _ (table_prop _ _ _ gen_glsl_kw_end K) D). congruence.
Qed.

(* a table keyword without "__" of shape x_<digits> is one of the listed exceptions *)
Lemma HLSL_HK2 : forall s, has_dunder s = false -> has_suffix_shape s = true -> is_kw HLSL s = true -> In s [].
Proof.
  intros s D S K. simpl in K. unfold hlsl_is_kw in K. apply orb_true_iff in K. destruct K as [K | K].
  - rewrite <- gen_hlsl_no_shape_kw. apply shape_exc_in; try assumption. apply mem_In. exact K.
  - exfalso. assert (X : In (lower s) (shape_exceptions (map lower hlsl_ci_keywords))).
    { apply shape_exc_in; [apply mem_In; exact K | rewrite has_dunder_lower; exact D | rewrite shape_lower; exact S]. }
    rewrite gen_hlsl_ci_no_shape_kw in X. exact X.
Qed.
Lemma MSL_HK2 : forall s, has_dunder s = false -> has_suffix_shape s = true -> is_kw MSL s = true -> In s msl_exceptions.
Proof.
  intros s D S K. rewrite <- gen_msl_shape_kw. apply shape_exc_in; try assumption. apply mem_In. exact K.
Qed.
Lemma GLSL_HK2 : forall s, has_dunder s = false -> has_suffix_shape s = true -> is_kw GLSL s = true -> In s [].
Proof.
  intros s D S K. rewrite <- gen_glsl_no_shape_kw. apply shape_exc_in; try assumption. apply mem_In. exact K.
Qed.

Lemma HLSL_good : forall l, good_base (sanitize HLSL l).
Proof. intro l. apply hlsl_sanitize_good. Qed.
Lemma MSL_good : forall l, good_base (sanitize MSL l).
Proof. intro l. apply msl_sanitize_good. Qed.
Lemma GLSL_good : forall l, good_base (sanitize GLSL l).
Proof. intro l. apply glsl_sanitize_good. Qed.

Lemma hlsl_start_ok : state_ok HLSL hlsl_start.
Proof. apply init_state_ok. apply hlsl_init_map_ok. exact HLSL_good. Qed.
Lemma plain_start_ok : forall B, state_ok B plain_start.
Proof. intro B. apply init_state_ok. intros b c H. discriminate. Qed.

(* ------------------------------------------------------------ what holds of every issued name *)
Record issued_ok (B : backend) (spec exc : list str) (n : str) : Prop := {
  io_nonempty : n <> [];
  io_ascii_word : forallb is_word n = true;          (* only [A-Za-z0-9_] *)
  io_not_table_kw : is_kw B n = false \/ In n exc;   (* not a word of naga's table (HLSL: case-insensitively for the CI set),
                                                        except the listed collision-suffixed table words (MSL) *)
  io_not_spec_kw : ~ In n spec;                        (* not a keyword / reserved word of the language specification *)
  io_no_dunder : has_dunder n = false;                 (* no "__" *)
  io_not_temp : is_temp_name n = false;                (* not `_e<digits>` *)
  io_digit_end_shape : ends_digit n = true -> has_suffix_shape n = true
     (* a name ending in a digit is x_<digits>: never `_vs2fs_location0`, `_pad3`, `arg0`, `float4`, ... *)
}.

Section Main.
Variable B : backend.
Variable spec exc : list str.
Hypothesis HS : forall l, good_base (sanitize B l).
Hypothesis HK1 : forall s, has_dunder s = false -> ends_us s = true -> is_kw B s = false.
Hypothesis HK2 : forall s, has_dunder s = false -> has_suffix_shape s = true -> is_kw B s = true -> In s exc.
Hypothesis Hspec : forallb (escaped B) spec = true.
Hypothesis Hexc : forallb (fun k => negb (mem k exc)) spec = true.

Lemma not_spec : forall n, issuable B n -> ~ In n spec.
Proof.
  intros n Hi Hin. pose proof Hspec as Hc. rewrite forallb_forall in Hc. specialize (Hc n Hin).
  unfold escaped in Hc. apply orb_true_iff in Hc. destruct Hc as [K | Hc].
  - pose proof (issuable_kw B HK1 n Hi K) as S.
    destruct (issuable_ok B n Hi) as [_ [_ [D _]]].
    pose proof (HK2 n D S K) as E. pose proof Hexc as Hx. rewrite forallb_forall in Hx. specialize (Hx n Hin).
    apply negb_true_iff in Hx. apply mem_In in E. congruence.
  - apply andb_true_iff in Hc. destruct Hc as [D S].
    apply negb_true_iff in S. rewrite (issuable_digit_shape B n Hi D) in S. discriminate.
Qed.

Theorem inv_main : forall st0 ops st outs,
  state_ok B st0 -> run B st0 ops = (st, outs) ->
  (forall f, In f (frames st) -> NoDup (issued f)) /\
  (forall n, In (Some n) outs -> recorded st n /\ issued_ok B spec exc n).
Proof.
  intros st0 ops st outs H0 Hr. split.
  - intros f Hf. eapply namer_distinct; eauto.
  - intros n Hin. split; [eapply run_outs_recorded; eauto|].
    assert (Hi : issuable B n) by (eapply namer_issuable; eauto).
    destruct (issuable_ok B n Hi) as [A1 [A2 [A3 A4]]].
    constructor; try assumption.
    + destruct (is_kw B n) eqn:K; [right | left; reflexivity].
      apply HK2; [exact A3 | apply (issuable_kw B HK1 n Hi K) | exact K].
    + apply not_spec. exact Hi.
    + apply (issuable_digit_shape B). exact Hi.
Qed.
End Main.

Lemma no_exc : forall spec : list str, forallb (fun k => negb (mem k [])) spec = true.
Proof. intro spec. apply forallb_forall. intros. reflexivity. Qed.

Definition hlsl_inv := inv_main HLSL hlsl_spec [] HLSL_good HLSL_HK1 HLSL_HK2 gen_hlsl_spec_covered (no_exc _).
Definition msl_inv := inv_main MSL msl_spec msl_exceptions MSL_good MSL_HK1 MSL_HK2 gen_msl_spec_covered gen_msl_spec_not_exception.
Definition glsl_inv := inv_main GLSL glsl_spec [] GLSL_good GLSL_HK1 GLSL_HK2 gen_glsl_spec_covered (no_exc _).

(* HLSL: case-insensitive keywords and helper names *)
Lemma hlsl_not_ci : forall n k, is_kw HLSL n = false -> In k hlsl_spec_ci -> lower n <> lower k.
Proof.
  intros n k Hk Hin E. pose proof gen_hlsl_spec_ci_covered as C. rewrite forallb_forall in C.
  specialize (C k Hin). rewrite <- E in C. simpl in Hk. unfold hlsl_is_kw in Hk.
  apply orb_false_iff in Hk. destruct Hk as [_ Hk]. congruence.
Qed.

Lemma hlsl_not_helper : forall n, is_kw HLSL n = false -> ~ In n hlsl_helpers.
Proof.
  intros n Hk Hin. pose proof gen_hlsl_helpers_kw as C. rewrite forallb_forall in C.
  specialize (C n Hin). congruence.
Qed.

(* identifier grammar *)
Lemma hlsl_start_first : state_first hlsl_start.
Proof.
  apply init_state_first. apply hlsl_init_map_first. intros h Hin.
  assert (C : forallb (fun h => starts_nondigit (sanitize HLSL h)) hlsl_helpers = true) by (vm_compute; reflexivity).
  rewrite forallb_forall in C. apply C. exact Hin.
Qed.
Lemma plain_start_first : state_first plain_start.
Proof. apply init_state_first. intros b c H. discriminate. Qed.
