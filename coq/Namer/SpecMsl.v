(* C16 — words that cannot be used as identifiers in naga's MSL output, transcribed by hand:
   ISO/IEC 14882:2014 (C++14) [lex.key] Table 4 (keywords) and Table 5 (alternative tokens);
   Metal Shading Language Specification: 4 (address space attributes device, constant, thread,
   threadgroup, threadgroup_imageblock, ray_data, object_data), 5.1 (function qualifiers kernel,
   vertex, fragment; an entry point cannot be called main), 2.1 (half), and the two names the
   emitted prelude brings into the global scope: namespace `metal` (#include <metal_stdlib>)
   and `uint` (using metal::uint;).
   This list is part of the trusted base (my transcription of external specifications). *)
From Coq Require Import List ZArith String Ascii.
Import ListNotations.
Require Import Naga.Namer.Namer Naga.Namer.SpecBase.

(* C++14 [lex.key] Table 4 *)
Definition cpp14_keywords : list str := map z_of_string [
  "alignas"; "alignof"; "asm"; "auto"; "bool"; "break"; "case"; "catch"; "char"; "char16_t";
  "char32_t"; "class"; "const"; "constexpr"; "const_cast"; "continue"; "decltype"; "default";
  "delete"; "do"; "double"; "dynamic_cast"; "else"; "enum"; "explicit"; "export"; "extern";
  "false"; "float"; "for"; "friend"; "goto"; "if"; "inline"; "int"; "long"; "mutable"; "namespace";
  "new"; "noexcept"; "nullptr"; "operator"; "private"; "protected"; "public"; "register";
  "reinterpret_cast"; "return"; "short"; "signed"; "sizeof"; "static"; "static_assert";
  "static_cast"; "struct"; "switch"; "template"; "this"; "thread_local"; "throw"; "true"; "try";
  "typedef"; "typeid"; "typename"; "union"; "unsigned"; "using"; "virtual"; "void"; "volatile";
  "wchar_t"; "while"
]%string.

(* C++14 [lex.key] Table 5 *)
Definition cpp14_alt_tokens : list str := map z_of_string [
  "and"; "and_eq"; "bitand"; "bitor"; "compl"; "not"; "not_eq"; "or"; "or_eq"; "xor"; "xor_eq"
]%string.

(* Metal qualifiers / names in scope *)
Definition metal_words : list str := map z_of_string [
  "kernel"; "vertex"; "fragment"; "device"; "constant"; "thread"; "threadgroup";
  "threadgroup_imageblock"; "ray_data"; "object_data"; "half"; "uint"; "metal"; "main"
]%string.

Definition msl_spec : list str := cpp14_keywords ++ cpp14_alt_tokens ++ metal_words.
