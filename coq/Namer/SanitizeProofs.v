(* C16 — the three sanitizers return good bases for EVERY label:
   non-empty, only [A-Za-z0-9_], no trailing '_', no "__"; and the first
   character is not a digit (HLSL: for labels without ':' '<' '>' ','; the
   unconditional statement is refuted in Props/C16.v). *)
From Coq Require Import List ZArith Bool NArith Lia.
Import ListNotations.
Require Import Naga.Namer.Namer Naga.Namer.NamerProofs.
Open Scope Z_scope.

Definition good_base (s : str) : Prop :=
  s <> [] /\ forallb is_word s = true /\ ends_us s = false /\ has_dunder s = false.

Definition starts_nondigit (s : str) : bool :=
  match s with c :: _ => negb (is_digit c) | [] => false end.

(* reversed buffer invariant *)
Definition bufok (b : str) : Prop := forallb is_word b = true /\ has_dunder b = false.
(* the first character written (= last of the reversed buffer) is not a digit *)
Definition lnd (b : str) : bool := match rev b with c :: _ => negb (is_digit c) | [] => true end.

Lemma unnamed_good : good_base unnamed.
Proof. unfold good_base. repeat split; try reflexivity. discriminate. Qed.

Lemma bufok_nil : bufok [].
Proof. split; reflexivity. Qed.

Lemma bufok_cons : forall b c, bufok b -> is_word c = true -> (c =? US) && head_is_us b = false -> bufok (c :: b).
Proof.
  intros b c [H1 H2] Hc Hu. split.
  - simpl. rewrite Hc, H1. reflexivity.
  - rewrite has_dunder_cons, Hu, H2. reflexivity.
Qed.

Lemma bufok_sep : forall b, bufok b -> bufok (sep_if_needed b).
Proof.
  intros b H. unfold sep_if_needed. destruct (nonempty b && negb (head_is_us b)) eqn:E; [|exact H].
  apply bufok_cons; [exact H | reflexivity|]. apply andb_true_iff in E. destruct E as [_ E].
  apply negb_true_iff in E. rewrite E. reflexivity.
Qed.

Lemma bufok_escape : forall c b, bufok b -> bufok (push_escape c b).
Proof.
  intros c b [H1 H2]. unfold push_escape.
  assert (Hh : forallb is_alnum (rev (hex4 c)) = true) by (rewrite forallb_rev; apply hex4_alnum).
  split.
  - simpl. rewrite forallb_app. simpl. rewrite H1.
    rewrite (forallb_impl is_alnum is_word _ alnum_is_word Hh). reflexivity.
  - assert (Hn : forallb (fun x => negb (x =? US)) (rev (hex4 c)) = true).
    { apply (forallb_impl is_alnum); [|exact Hh]. intros x Hx. rewrite (alnum_not_us _ Hx). reflexivity. }
    rewrite has_dunder_cons.
    assert (Hd : has_dunder (rev (hex4 c) ++ 117 :: b) = false).
    { rewrite has_dunder_nous_app by exact Hn. rewrite has_dunder_cons. simpl. exact H2. }
    rewrite Hd. rewrite orb_false_r.
    destruct (rev (hex4 c)) as [|x r] eqn:E; simpl.
    + reflexivity.
    + simpl in Hn. apply andb_true_iff in Hn. destruct Hn as [Hx _]. apply negb_true_iff in Hx.
      rewrite Hx. reflexivity.
Qed.

Lemma hlsl_step_ok : forall b c, bufok b -> bufok (hlsl_step b c).
Proof.
  intros b c H. unfold hlsl_step.
  destruct (is_sep c); [apply bufok_sep; exact H|].
  destruct (is_word c) eqn:W.
  - destruct ((c =? US) && head_is_us b) eqn:E; [exact H | apply bufok_cons; assumption].
  - apply bufok_escape. apply bufok_sep. exact H.
Qed.

Lemma msl_step_ok : forall b c, bufok b -> bufok (msl_step b c).
Proof.
  intros b c0 H. unfold msl_step.
  set (c := if is_sep c0 then US else c0).
  destruct (nonempty b && head_is_us b && (c =? US)) eqn:E; [exact H|].
  destruct (is_word c) eqn:W.
  - destruct (negb (nonempty b) && is_digit c); [exact H|].
    apply bufok_cons; try assumption.
    destruct (c =? US) eqn:Ec; [|reflexivity]. simpl.
    destruct b; [reflexivity|]. simpl in *. rewrite andb_true_r in E. exact E.
  - apply bufok_escape.
    destruct (nonempty b && negb (nonempty b && head_is_us b)) eqn:E2; [|exact H].
    apply bufok_cons; [exact H | reflexivity|].
    apply andb_true_iff in E2. destruct E2 as [E3 E4]. rewrite E3 in E4. simpl in E4.
    apply negb_true_iff in E4. rewrite E4. reflexivity.
Qed.

Lemma glsl_step_ok : forall b c, bufok b -> bufok (glsl_step b c).
Proof.
  intros b c H. unfold glsl_step.
  destruct (is_word c) eqn:W.
  - destruct ((c =? US) && nonempty b && head_is_us b) eqn:E; [exact H|].
    apply bufok_cons; try assumption.
    destruct (c =? US); [|reflexivity]. simpl in *. destruct b; [reflexivity|]. simpl in *. exact E.
  - destruct (is_sep c || (c =? 32)).
    + destruct (negb (nonempty b) || negb (head_is_us b)) eqn:E; [|exact H].
      apply bufok_cons; [exact H | reflexivity|]. simpl.
      destruct b; [reflexivity|]. simpl in *. apply negb_true_iff in E. exact E.
    + apply bufok_escape. apply bufok_sep. exact H.
Qed.

Lemma fold_ok : forall (stepf : str -> Z -> str), (forall b c, bufok b -> bufok (stepf b c)) ->
  forall s b, bufok b -> bufok (fold_left stepf s b).
Proof. intros stepf Hs. induction s as [|c s IH]; intros b Hb; simpl; [exact Hb | apply IH, Hs, Hb]. Qed.

Lemma finish_good : forall b, bufok b -> rev (drop_us b) <> [] -> good_base (rev (drop_us b)).
Proof.
  intros b [H1 H2] Hn. repeat split.
  - exact Hn.
  - rewrite forallb_rev. apply drop_us_forall. exact H1.
  - apply trim_ends_us.
  - rewrite has_dunder_rev. destruct (drop_us_suffix b) as [t [E _]]. rewrite E in H2.
    apply has_dunder_suffix in H2. exact H2.
Qed.

(* ------------------------------------------------------------ prefixes *)
Lemma trim_prefix : forall s, exists t, s = trim_right_us s ++ t.
Proof.
  intro s. unfold trim_right_us. destruct (drop_us_suffix (rev s)) as [t [E _]].
  exists (rev t). rewrite <- rev_app_distr. rewrite <- E. rewrite rev_involutive. reflexivity.
Qed.

Lemma forallb_prefix : forall (P : Z -> bool) p t, forallb P (p ++ t) = true -> forallb P p = true.
Proof. intros P p t H. rewrite forallb_app in H. apply andb_true_iff in H. tauto. Qed.

Lemma has_dunder_prefix : forall p t, has_dunder (p ++ t) = false -> has_dunder p = false.
Proof.
  intros p t H. rewrite <- has_dunder_rev. rewrite <- has_dunder_rev in H. rewrite rev_app_distr in H.
  apply has_dunder_suffix in H. exact H.
Qed.

Lemma drop_digits_sub : forall (P : Z -> bool) s, forallb P s = true -> forallb P (drop_digits s) = true.
Proof.
  intros P. induction s as [|c s IH]; simpl; [reflexivity|]. intro H.
  destruct (is_digit c); [apply IH; apply andb_true_iff in H; tauto | exact H].
Qed.

Lemma drop_digits_head : forall s, drop_digits s = [] \/ starts_nondigit (drop_digits s) = true.
Proof.
  induction s as [|c s IH]; simpl; [left; reflexivity|].
  destruct (is_digit c) eqn:E; [exact IH | right; simpl; rewrite E; reflexivity].
Qed.

Lemma trim_head : forall s c r, trim_right_us s = c :: r -> exists r', s = c :: r'.
Proof. intros s c r H. destruct (trim_prefix s) as [t E]. rewrite H in E. simpl in E. eauto. Qed.

(* ------------------------------------------------------------ first character *)
Lemma lnd_app : forall p b, b <> [] -> lnd (p ++ b) = lnd b.
Proof.
  intros p b Hb. unfold lnd. rewrite rev_app_distr. destruct (rev b) as [|x r] eqn:E.
  - exfalso. apply Hb. apply rev_inj. exact E.
  - reflexivity.
Qed.

Lemma escape_ext : forall c b, push_escape c b = (US :: rev (hex4 c) ++ [117]) ++ b.
Proof. intros. unfold push_escape. simpl. rewrite <- app_assoc. reflexivity. Qed.

Lemma sep_ext : forall b, exists p, sep_if_needed b = p ++ b.
Proof. intro b. unfold sep_if_needed. destruct (nonempty b && negb (head_is_us b)); [exists [US] | exists []]; reflexivity. Qed.

Lemma hlsl_step_ext : forall b c, exists p, hlsl_step b c = p ++ b.
Proof.
  intros b c. unfold hlsl_step. destruct (is_sep c); [apply sep_ext|].
  destruct (is_word c).
  - destruct ((c =? US) && head_is_us b); [exists [] | exists [c]]; reflexivity.
  - destruct (sep_ext b) as [p E]. rewrite E, escape_ext. rewrite app_assoc. eauto.
Qed.

Lemma msl_step_ext : forall b c, exists p, msl_step b c = p ++ b.
Proof.
  intros b c0. unfold msl_step. set (c := if is_sep c0 then US else c0).
  destruct (nonempty b && head_is_us b && (c =? US)); [exists []; reflexivity|].
  destruct (is_word c).
  - destruct (negb (nonempty b) && is_digit c); [exists [] | exists [c]]; reflexivity.
  - rewrite escape_ext. destruct (nonempty b && negb (nonempty b && head_is_us b)).
    + exists ((US :: rev (hex4 c) ++ [117]) ++ [US]). rewrite <- app_assoc. reflexivity.
    + eauto.
Qed.

Lemma glsl_step_ext : forall b c, exists p, glsl_step b c = p ++ b.
Proof.
  intros b c. unfold glsl_step. destruct (is_word c).
  - destruct ((c =? US) && nonempty b && head_is_us b); [exists [] | exists [c]]; reflexivity.
  - destruct (is_sep c || (c =? 32)).
    + destruct (negb (nonempty b) || negb (head_is_us b)); [exists [US] | exists []]; reflexivity.
    + destruct (sep_ext b) as [p E]. rewrite E, escape_ext. rewrite app_assoc. eauto.
Qed.

Definition started (b : str) : Prop := b <> [] /\ lnd b = true.

Lemma started_ext : forall b b', started b -> (exists p, b' = p ++ b) -> started b'.
Proof.
  intros b b' [Hn Hl] [p E]. subst. split.
  - destruct p; simpl; [exact Hn | discriminate].
  - rewrite lnd_app by exact Hn. exact Hl.
Qed.

Lemma fold_started : forall (stepf : str -> Z -> str), (forall b c, exists p, stepf b c = p ++ b) ->
  forall s b, started b -> started (fold_left stepf s b).
Proof.
  intros stepf Hs. induction s as [|c s IH]; intros b Hb; simpl; [exact Hb|].
  apply IH. apply (started_ext b); [exact Hb | apply Hs].
Qed.

Lemma lnd_escape_nil : forall c, lnd (push_escape c []) = true.
Proof.
  intro c. unfold lnd, push_escape. change (US :: rev (hex4 c) ++ [117]) with ([US] ++ (rev (hex4 c) ++ [117])).
  rewrite rev_app_distr. rewrite rev_app_distr. reflexivity.
Qed.

Lemma escape_nonempty : forall c b, push_escape c b <> [].
Proof. intros. unfold push_escape. discriminate. Qed.

(* MSL: the slow path skips digits while the buffer is empty *)
Lemma msl_step_lnd : forall b c, lnd b = true -> lnd (msl_step b c) = true.
Proof.
  intros b c0 H. destruct b as [|x b].
  - unfold msl_step. set (c := if is_sep c0 then US else c0). simpl.
    destruct (is_word c).
    + destruct (is_digit c) eqn:D; [reflexivity|]. unfold lnd. simpl. rewrite D. reflexivity.
    + apply lnd_escape_nil.
  - destruct (msl_step_ext (x :: b) c0) as [p E]. rewrite E. rewrite lnd_app by discriminate. exact H.
Qed.

Lemma msl_fold_lnd : forall s b, lnd b = true -> lnd (fold_left msl_step s b) = true.
Proof. induction s as [|c s IH]; intros b H; simpl; [exact H | apply IH, msl_step_lnd, H]. Qed.

Lemma glsl_first_step : forall c, is_digit c = false -> started (glsl_step [] c).
Proof.
  intros c D. unfold glsl_step. simpl. destruct (is_word c).
  - rewrite andb_false_r. split; [discriminate|]. unfold lnd. simpl. rewrite D. reflexivity.
  - destruct (is_sep c || (c =? 32)).
    + split; [discriminate | reflexivity].
    + split; [apply escape_nonempty | apply lnd_escape_nil].
Qed.

Lemma hlsl_first_step : forall c, is_digit c = false -> is_sep c = false -> started (hlsl_step [] c).
Proof.
  intros c D S. unfold hlsl_step. rewrite S. simpl. destruct (is_word c).
  - rewrite andb_false_r. split; [discriminate|]. unfold lnd. simpl. rewrite D. reflexivity.
  - split; [apply escape_nonempty | apply lnd_escape_nil].
Qed.

(* from the reversed buffer to the first character of the result *)
Lemma finish_first : forall b, lnd b = true -> rev (drop_us b) <> [] -> starts_nondigit (rev (drop_us b)) = true.
Proof.
  intros b Hl Hn. destruct (drop_us_suffix b) as [t [E _]].
  assert (Hd : drop_us b <> []). { intro Z0. rewrite Z0 in Hn. apply Hn. reflexivity. }
  rewrite E in Hl. rewrite lnd_app in Hl by exact Hd. unfold lnd in Hl.
  destruct (rev (drop_us b)); [contradiction | exact Hl].
Qed.

Lemma unnamed_first : starts_nondigit unnamed = true.
Proof. reflexivity. Qed.

(* ------------------------------------------------------------ GLSL *)
Theorem glsl_sanitize_good : forall l, good_base (glsl_sanitize l).
Proof.
  intro l. unfold glsl_sanitize. destruct l as [|c l]; [apply unnamed_good|].
  set (b := fold_left glsl_step (drop_digits (c :: l)) []).
  assert (Hb : bufok b) by (apply fold_ok; [apply glsl_step_ok | apply bufok_nil]).
  destruct (rev (drop_us b)) eqn:E; [apply unnamed_good|]. rewrite <- E. apply finish_good; [exact Hb|].
  rewrite E. discriminate.
Qed.

Theorem glsl_sanitize_first : forall l, starts_nondigit (glsl_sanitize l) = true.
Proof.
  intro l. unfold glsl_sanitize. destruct l as [|c l]; [reflexivity|].
  set (s := drop_digits (c :: l)).
  assert (Hl : lnd (fold_left glsl_step s []) = true).
  { destruct (drop_digits_head (c :: l)) as [E|E]; fold s in E.
    - rewrite E. reflexivity.
    - destruct s as [|x s']; [discriminate|]. simpl in E. apply negb_true_iff in E. simpl.
      apply (fold_started glsl_step glsl_step_ext). apply glsl_first_step. exact E. }
  destruct (rev (drop_us (fold_left glsl_step s []))) eqn:E; [reflexivity|].
  rewrite <- E. apply finish_first; [exact Hl | rewrite E; discriminate].
Qed.

(* ------------------------------------------------------------ MSL *)
Theorem msl_sanitize_good : forall l, good_base (msl_sanitize l).
Proof.
  intro l. unfold msl_sanitize. destruct l as [|c l]; [apply unnamed_good|].
  destruct (msl_valid (c :: l) && negb (has_dunder (c :: l))) eqn:V.
  - apply andb_true_iff in V. destruct V as [V1 V2]. apply negb_true_iff in V2.
    unfold msl_valid in V1. apply andb_true_iff in V1. destruct V1 as [_ V1].
    destruct (trim_right_us (c :: l)) eqn:E; [apply unnamed_good|]. rewrite <- E.
    destruct (trim_prefix (c :: l)) as [t Et]. repeat split.
    + rewrite E. discriminate.
    + rewrite Et in V1. apply forallb_prefix in V1. exact V1.
    + apply trim_ends_us.
    + rewrite Et in V2. apply has_dunder_prefix in V2. exact V2.
  - set (b := fold_left msl_step (c :: l) []).
    assert (Hb : bufok b) by (apply fold_ok; [apply msl_step_ok | apply bufok_nil]).
    destruct (rev (drop_us b)) eqn:E; [apply unnamed_good|]. rewrite <- E. apply finish_good; [exact Hb|].
    rewrite E. discriminate.
Qed.

Theorem msl_sanitize_first : forall l, starts_nondigit (msl_sanitize l) = true.
Proof.
  intro l. unfold msl_sanitize. destruct l as [|c l]; [reflexivity|].
  destruct (msl_valid (c :: l) && negb (has_dunder (c :: l))) eqn:V.
  - apply andb_true_iff in V. destruct V as [V1 _]. unfold msl_valid in V1.
    apply andb_true_iff in V1. destruct V1 as [V1 _].
    destruct (trim_right_us (c :: l)) eqn:E; [reflexivity|].
    apply trim_head in E. destruct E as [r' E]. inversion E; subst. exact V1.
  - destruct (rev (drop_us (fold_left msl_step (c :: l) []))) eqn:E; [reflexivity|].
    rewrite <- E. apply finish_first; [apply msl_fold_lnd; reflexivity | rewrite E; discriminate].
Qed.

(* ------------------------------------------------------------ HLSL (reservedPrefixes = []) *)
Lemma prefix_check_nil : forall s, prefix_check [] s = s.
Proof. reflexivity. Qed.

Theorem hlsl_sanitize_good : forall l, good_base (hlsl_sanitize [] l).
Proof.
  intro l. unfold hlsl_sanitize. destruct l as [|c l]; [apply unnamed_good|].
  set (s := trim_right_us (drop_digits (c :: l))).
  destruct s as [|x s'] eqn:Es; [apply unnamed_good|].
  destruct (has_dunder (x :: s') || negb (forallb is_word (x :: s'))) eqn:N.
  - set (b := fold_left hlsl_step (x :: s') []).
    assert (Hb : bufok b) by (apply fold_ok; [apply hlsl_step_ok | apply bufok_nil]).
    destruct (rev (drop_us b)) eqn:E; [apply unnamed_good|]. rewrite prefix_check_nil.
    rewrite <- E. apply finish_good; [exact Hb | rewrite E; discriminate].
  - rewrite prefix_check_nil. apply orb_false_iff in N. destruct N as [N1 N2]. apply negb_false_iff in N2.
    repeat split; try assumption; [discriminate|].
    rewrite <- Es. unfold s. apply trim_ends_us.
Qed.

Definition no_sep (l : str) : bool := forallb (fun c => negb (is_sep c)) l.

Theorem hlsl_sanitize_first : forall l, no_sep l = true -> starts_nondigit (hlsl_sanitize [] l) = true.
Proof.
  intros l NS. unfold hlsl_sanitize. destruct l as [|c l]; [reflexivity|].
  set (d := drop_digits (c :: l)).
  assert (NSd : no_sep d = true) by (apply drop_digits_sub; exact NS).
  set (s := trim_right_us d).
  destruct s as [|x s'] eqn:Es; [reflexivity|].
  assert (Hx : is_digit x = false /\ no_sep (x :: s') = true).
  { destruct (trim_prefix d) as [t Et]. fold s in Et. rewrite Es in Et.
    split.
    - destruct (drop_digits_head (c :: l)) as [E|E]; fold d in E.
      + rewrite E in Et. discriminate.
      + rewrite Et in E. simpl in E. apply negb_true_iff in E. exact E.
    - rewrite Et in NSd. unfold no_sep in *. change (x :: s' ++ t) with ((x :: s') ++ t) in NSd.
      apply forallb_prefix in NSd. exact NSd. }
  destruct Hx as [Dx NSx].
  destruct (has_dunder (x :: s') || negb (forallb is_word (x :: s'))) eqn:N.
  - assert (Hl : lnd (fold_left hlsl_step (x :: s') []) = true).
    { simpl. apply (fold_started hlsl_step hlsl_step_ext). apply hlsl_first_step; [exact Dx|].
      unfold no_sep in NSx. simpl in NSx. apply andb_true_iff in NSx. destruct NSx as [A _].
      apply negb_true_iff in A. exact A. }
    destruct (rev (drop_us (fold_left hlsl_step (x :: s') []))) eqn:E; [reflexivity|].
    rewrite prefix_check_nil. rewrite <- E. apply finish_first; [exact Hl | rewrite E; discriminate].
  - rewrite prefix_check_nil. simpl. rewrite Dx. reflexivity.
Qed.
