(* C12 — a reusable backend object as a record of named fields, and Reset.

   state   = association list  field name -> value  (the flattened fields of
             the Go struct, in declaration order);
   is_cfg  = the fields that are configuration: set by the constructor, never
             re-initialised (the reviewed allowlist state/immutable_fields.txt);
   is_reset= the fields that Reset (and the prologue of Compile) re-initialise
             unconditionally;
   canon   = the value a re-initialised field receives; it may depend on the
             configuration (ModuleBuilder.version := options.Version) but on
             nothing else.

   reset_canonical: if every field is re-initialised or configuration, then two
   states of the same configuration reset to the very same state. *)
From Coq Require Import List String Bool.
Import ListNotations.

Section Reset.
  Context {value : Type}.

  Definition field := string.
  Definition state := list (field * value).

  Variable is_cfg : field -> bool.
  Variable is_reset : field -> bool.
  (* canonical value of a re-initialised field, given the configuration part of the state *)
  Variable canon : state -> field -> value.

  Definition fields_of (s : state) : list field := map fst s.

  Definition cfg_of (s : state) : state := filter (fun fv => is_cfg (fst fv)) s.

  Definition reset (s : state) : state :=
    map (fun fv => if is_reset (fst fv) then (fst fv, canon (cfg_of s) (fst fv)) else fv) s.

  (* same fields in the same order, same values on configuration fields *)
  Definition same_config (s s' : state) : Prop :=
    Forall2 (fun a b => fst a = fst b /\ (is_cfg (fst a) = true -> snd a = snd b)) s s'.

  Definition all_reset (fields : list field) : bool :=
    forallb (fun f => is_reset f || is_cfg f) fields.

  (* reset never touches a configuration field *)
  Definition reset_spares_config (fields : list field) : bool :=
    forallb (fun f => negb (is_reset f && is_cfg f)) fields.

  Lemma same_config_refl : forall s, same_config s s.
  Proof. induction s; constructor; auto. Qed.

  Lemma same_config_sym : forall s s', same_config s s' -> same_config s' s.
  Proof.
    induction 1 as [|a b s s' [Hf Hv] _ IH]; constructor; auto.
    split; [congruence|]. intro Hc. symmetry. apply Hv. rewrite Hf. exact Hc.
  Qed.

  Lemma same_config_trans : forall s1 s2 s3, same_config s1 s2 -> same_config s2 s3 -> same_config s1 s3.
  Proof.
    intros s1 s2 s3 H12. revert s3.
    induction H12 as [|a b s s' [Hf Hv] _ IH]; intros s3 H23; inversion H23 as [|b' c s2' s3' [Hf' Hv'] Ht]; subst; constructor.
    - split; [congruence|]. intro Hc. rewrite (Hv Hc). apply Hv'. rewrite <- Hf. exact Hc.
    - apply IH. exact Ht.
  Qed.

  Lemma same_config_fields : forall s s', same_config s s' -> fields_of s = fields_of s'.
  Proof. induction 1 as [|a b s s' [Hf _] _ IH]; simpl; congruence. Qed.

  Lemma same_config_cfg_of : forall s s', same_config s s' -> cfg_of s = cfg_of s'.
  Proof.
    induction 1 as [|[fa va] [fb vb] s s' [Hf Hv] _ IH]; simpl in *; [reflexivity|].
    subst fb. destruct (is_cfg fa) eqn:Hc; [|exact IH].
    rewrite (Hv eq_refl), IH. reflexivity.
  Qed.

  Lemma reset_with_cfg : forall c c' s s',
    c = c' ->
    forallb (fun f => is_reset f || is_cfg f) (fields_of s) = true ->
    same_config s s' ->
    map (fun fv => if is_reset (fst fv) then (fst fv, canon c (fst fv)) else fv) s =
    map (fun fv => if is_reset (fst fv) then (fst fv, canon c' (fst fv)) else fv) s'.
  Proof.
    intros c c' s s' Hcc Hall Hsc. subst c'.
    induction Hsc as [|[fa va] [fb vb] s s' [Hf Hv] _ IH]; simpl in *; [reflexivity|].
    subst fb. apply andb_true_iff in Hall. destruct Hall as [Hh Ht].
    rewrite (IH Ht). destruct (is_reset fa) eqn:Hr; [reflexivity|].
    simpl in Hh. rewrite (Hv Hh). reflexivity.
  Qed.

  (* every mutable field is cleared  ==>  reset is canonical on a configuration class *)
  Theorem reset_canonical : forall s s',
    all_reset (fields_of s) = true -> same_config s s' -> reset s = reset s'.
  Proof.
    intros s s' Hall Hsc. unfold reset.
    apply reset_with_cfg; auto. apply same_config_cfg_of. exact Hsc.
  Qed.

  Lemma reset_fields : forall s, fields_of (reset s) = fields_of s.
  Proof.
    intro s. unfold reset, fields_of. rewrite map_map. apply map_ext.
    intros [f v]. simpl. destruct (is_reset f); reflexivity.
  Qed.

  Lemma reset_same_config : forall s,
    reset_spares_config (fields_of s) = true -> same_config s (reset s).
  Proof.
    intros s. unfold reset. generalize (cfg_of s) as c. intros c H.
    induction s as [|[f v] s IH]; simpl in *; constructor.
    - apply andb_true_iff in H. destruct H as [Hh _].
      destruct (is_reset f) eqn:Hr; simpl; split; auto.
      intro Hc. rewrite Hc in Hh. discriminate.
    - apply IH. apply andb_true_iff in H. tauto.
  Qed.

  (* the converse direction, to show the hypothesis is needed: a field that is neither reset nor
     configuration keeps whatever the previous compilation left in it *)
  Lemma unreset_field_survives : forall s f v,
    is_reset f = false -> In (f, v) s -> In (f, v) (reset s).
  Proof.
    intros s f v Hr Hin. unfold reset. apply in_map_iff. exists (f, v). simpl. rewrite Hr. auto.
  Qed.
End Reset.
