(* C12 — the general theorems instantiated with the field tables regenerated from
   spirv/internal/codegen (Backend, ModuleBuilder), plus a small faithful model of the
   one way the pinned tree breaks their hypothesis (a configuration field written
   during compilation), with a computed counterexample. *)
From Coq Require Import List String Bool.
Import ListNotations.
Require Import Naga.State.Tie Naga.State.Reset Naga.State.History Naga.State.GenObligations.
Require Import Naga.Gen.BackendState.

Section Generic.
  Variables (fields : list string) (acts : list act) (cfg scratch : list string).
  Hypothesis Hall : all_mutable_fields_reset fields acts cfg scratch = true.
  Hypothesis Hspare : reset_spares_cfg fields acts cfg = true.

  Context {value : Type}.
  Variable canon : @state value -> field -> value.

  Definition g_is_cfg := field_allowed cfg.
  Definition g_is_reset := field_reset acts.
  Definition g_fields := observable fields scratch.
  Definition g_reset : @state value -> @state value := reset g_is_cfg g_is_reset canon.

  (* a state of this object type: exactly the (observable) fields of the Go struct *)
  Definition wf (s : @state value) : Prop := fields_of s = g_fields.
  Definition Rg (s s' : @state value) : Prop := wf s /\ same_config g_is_cfg s s'.

  Lemma Rg_sym : forall s s', Rg s s' -> Rg s' s.
  Proof.
    intros s s' [Hw Hs]. split; [|apply same_config_sym; exact Hs].
    unfold wf in *. rewrite <- (same_config_fields _ _ _ Hs). exact Hw.
  Qed.

  Lemma Rg_trans : forall s1 s2 s3, Rg s1 s2 -> Rg s2 s3 -> Rg s1 s3.
  Proof. intros s1 s2 s3 [Hw H12] [_ H23]. split; auto. eapply same_config_trans; eauto. Qed.

  Theorem g_reset_canonical : forall s s', Rg s s' -> g_reset s = g_reset s'.
  Proof.
    intros s s' [Hw Hs]. apply reset_canonical; auto.
    rewrite Hw. apply tie_all_reset. exact Hall.
  Qed.

  Lemma g_reset_keeps : forall s, Rg s s -> Rg s (g_reset s).
  Proof.
    intros s [Hw _]. split; auto. apply reset_same_config.
    rewrite Hw. apply tie_spares. exact Hspare.
  Qed.

  Variables module output : Type.
  Variable body : @state value -> module -> @state value * output.
  (* the translation proper leaves the configuration fields (and the set of fields) alone;
     tied to the Go code by config_fields_not_written_* (no method assigns a configuration field) *)
  Hypothesis body_frames_config : forall s m, wf s -> same_config g_is_cfg s (fst (body s m)).

  Lemma g_body_keeps : forall s m, Rg s s -> Rg s (fst (body s m)).
  Proof. intros s m [Hw _]. split; auto. Qed.

  Theorem g_history_pointwise : forall ops s0 fresh, Rg s0 fresh ->
    snd (run _ _ _ g_reset body s0 ops) =
    map (fun m => snd (compile _ _ _ g_reset body fresh m)) (compiles _ ops).
  Proof.
    intros. eapply history_outputs_pointwise with (R := Rg); eauto using Rg_sym, Rg_trans, g_reset_canonical, g_reset_keeps, g_body_keeps.
  Qed.

  Theorem g_history_independent : forall history m s0, wf s0 ->
    last_output _ (snd (run _ _ _ g_reset body s0 (history ++ [OCompile _ m]))) =
    last_output _ (snd (run _ _ _ g_reset body s0 [OCompile _ m])).
  Proof.
    intros history m s0 Hw.
    eapply history_independent with (R := Rg); eauto using Rg_sym, Rg_trans, g_reset_canonical, g_reset_keeps, g_body_keeps.
    split; auto. apply same_config_refl.
  Qed.
End Generic.

(* ---- codegen.Backend as extracted from /repo on this run ---- *)

Theorem spirv_backend_reset_canonical :
  forall (value : Type) (canon : @state value -> field -> value) (s s' : @state value),
  Rg backend_fields backend_cfg backend_scratch s s' ->
  g_reset backend_acts backend_cfg canon s = g_reset backend_acts backend_cfg canon s'.
Proof.
  intros. eapply g_reset_canonical; eauto.
  apply all_mutable_fields_reset_backend.
Qed.

Theorem modulebuilder_reset_canonical :
  forall (value : Type) (canon : @state value -> field -> value) (s s' : @state value),
  Rg modulebuilder_fields modulebuilder_cfg modulebuilder_scratch s s' ->
  g_reset modulebuilder_acts modulebuilder_cfg canon s = g_reset modulebuilder_acts modulebuilder_cfg canon s'.
Proof.
  intros. eapply g_reset_canonical; eauto.
  apply all_mutable_fields_reset_modulebuilder.
Qed.

(* For EVERY translation body that leaves the configuration fields alone, and every history of
   Compile / Reset calls on one Backend, each Compile returns what a fresh Backend of the same
   options returns. *)
Theorem spirv_backend_history_pointwise :
  forall (value module output : Type) (canon : @state value -> field -> value)
         (body : @state value -> module -> @state value * output),
  (forall s m, wf backend_fields backend_scratch s -> same_config (g_is_cfg backend_cfg) s (fst (body s m))) ->
  forall ops s0 fresh, Rg backend_fields backend_cfg backend_scratch s0 fresh ->
  snd (run _ _ _ (g_reset backend_acts backend_cfg canon) body s0 ops) =
  map (fun m => snd (compile _ _ _ (g_reset backend_acts backend_cfg canon) body fresh m)) (compiles _ ops).
Proof.
  intros. eapply g_history_pointwise; eauto.
  - apply all_mutable_fields_reset_backend.
  - apply reset_spares_cfg_backend.
Qed.

Theorem spirv_backend_history_independent :
  forall (value module output : Type) (canon : @state value -> field -> value)
         (body : @state value -> module -> @state value * output),
  (forall s m, wf backend_fields backend_scratch s -> same_config (g_is_cfg backend_cfg) s (fst (body s m))) ->
  forall history m s0, wf backend_fields backend_scratch s0 ->
  last_output _ (snd (run _ _ _ (g_reset backend_acts backend_cfg canon) body s0 (history ++ [OCompile _ m]))) =
  last_output _ (snd (run _ _ _ (g_reset backend_acts backend_cfg canon) body s0 [OCompile _ m])).
Proof.
  intros. eapply g_history_independent; eauto.
  - apply all_mutable_fields_reset_backend.
  - apply reset_spares_cfg_backend.
Qed.

(* ---- the hypothesis is needed, and the pinned tree violates it ----

   requireSpirvVersion14 (backend.go) assigns b.options.Version when a module needs SPIR-V 1.4.
   Model: one configuration field "options.Version", one re-initialised field "builder.version"
   whose canonical value is the configured version; a module is `true` when it needs 1.4.
   The output is the emitted header version. *)
Open Scope string_scope.

Definition leak_is_cfg (f : string) : bool := String.eqb f "options.Version".
Definition leak_is_reset (f : string) : bool := String.eqb f "builder.version".
Definition leak_get (s : @state nat) (f : string) : nat :=
  match find (fun fv => String.eqb (fst fv) f) s with Some fv => snd fv | None => 0 end.
Definition leak_canon (c : @state nat) (f : string) : nat := leak_get c "options.Version".
Definition leak_reset := @reset nat leak_is_cfg leak_is_reset leak_canon.
Definition leak_set (s : @state nat) (f : string) (v : nat) : @state nat :=
  map (fun fv => if String.eqb (fst fv) f then (f, v) else fv) s.

(* body as on the pinned tree: a module that needs 1.4 raises builder.version AND options.Version *)
Definition leak_body (s : @state nat) (needs14 : bool) : @state nat * nat :=
  if needs14 && Nat.ltb (leak_get s "builder.version") 14
  then let s' := leak_set (leak_set s "builder.version" 14) "options.Version" 14 in (s', 14)
  else (s, leak_get s "builder.version").

Definition leak_fresh : @state nat := [("options.Version", 11); ("builder.version", 0)].

(* a Backend configured for SPIR-V 1.1: compiling a module that needs 1.4 first changes what the next
   module compiles to (1.4 instead of 1.1) *)
Theorem spirv_reuse_history_independent_refuted :
  exists history m,
    last_output _ (snd (run _ _ _ leak_reset leak_body leak_fresh (history ++ [OCompile _ m]))) <>
    last_output _ (snd (run _ _ _ leak_reset leak_body leak_fresh [OCompile _ m])).
Proof. exists [OCompile _ true], false. vm_compute. discriminate. Qed.

(* with the write to options.Version removed (the proposed repair) the model satisfies the hypothesis
   of the general theorem, hence is history independent for all histories *)
Definition fixed_body (s : @state nat) (needs14 : bool) : @state nat * nat :=
  if needs14 && Nat.ltb (leak_get s "builder.version") 14
  then (leak_set s "builder.version" 14, 14)
  else (s, leak_get s "builder.version").

Lemma leak_set_same_config : forall s v, same_config leak_is_cfg s (leak_set s "builder.version" v).
Proof.
  induction s as [|[f x] t IH]; intro v; simpl.
  - constructor.
  - constructor; [|apply IH].
    destruct (String.eqb f "builder.version") eqn:E; simpl.
    + apply String.eqb_eq in E. subst f. split; [reflexivity|]. intro Hc. vm_compute in Hc. discriminate Hc.
    + split; auto.
Qed.

Definition leak_wf (s : @state nat) : Prop := forallb (fun f => leak_is_reset f || leak_is_cfg f) (fields_of s) = true.

Theorem fixed_model_history_independent : forall history m s0, leak_wf s0 ->
  last_output _ (snd (run _ _ _ leak_reset fixed_body s0 (history ++ [OCompile _ m]))) =
  last_output _ (snd (run _ _ _ leak_reset fixed_body s0 [OCompile _ m])).
Proof.
  intros history m s0 Hwf.
  eapply history_independent with (R := fun s s' => leak_wf s /\ same_config leak_is_cfg s s').
  - intros s s' [Ha Hs]. split; [|apply same_config_sym; auto]. unfold leak_wf in *. rewrite <- (same_config_fields _ _ _ Hs). exact Ha.
  - intros s1 s2 s3 [Ha H12] [_ H23]. split; auto. eapply same_config_trans; eauto.
  - intros s s' [Ha Hs]. apply reset_canonical; auto.
  - intros s [Ha _]. split; auto. apply reset_same_config.
    unfold reset_spares_config. clear. induction (fields_of s) as [|f t IH]; simpl; auto.
    rewrite IH, andb_true_r. unfold leak_is_reset, leak_is_cfg.
    destruct (String.eqb f "builder.version") eqn:E; simpl; auto.
    apply String.eqb_eq in E. subst f. reflexivity.
  - intros s b [Ha _]. split; auto. unfold fixed_body.
    destruct (b && Nat.ltb (leak_get s "builder.version") 14); simpl.
    + apply leak_set_same_config.
    + apply same_config_refl.
  - split; auto. apply same_config_refl.
Qed.

Example leak_fresh_wf : leak_wf leak_fresh.
Proof. vm_compute. reflexivity. Qed.
