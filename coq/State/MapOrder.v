(* C12 — Go randomises the order of `for k, v := range m`.  An enumeration of a
   map is modelled as an arbitrary permutation of its entries.  Two ways of
   producing output from a map walk that do not depend on that order:

   (b) collect-then-sort: the output is a function of `sort (entries)`;
   (a) order-insensitive accumulation: the walk folds a left-commutative update
       (set/map insertion, |=, integer +=, "found" flags) over the entries.  *)
From Coq Require Import List Bool Permutation Sorting.Sorted.
Import ListNotations.

Section Sorting.
  Variable A : Type.
  Variable leb : A -> A -> bool.
  Hypothesis leb_total : forall a b, leb a b = true \/ leb b a = true.
  Hypothesis leb_trans : forall a b c, leb a b = true -> leb b c = true -> leb a c = true.

  Definition le (a b : A) : Prop := leb a b = true.

  Fixpoint insert (x : A) (l : list A) : list A :=
    match l with
    | [] => [x]
    | y :: t => if leb x y then x :: l else y :: insert x t
    end.

  Fixpoint isort (l : list A) : list A :=
    match l with [] => [] | x :: t => insert x (isort t) end.

  Lemma insert_perm : forall x l, Permutation (x :: l) (insert x l).
  Proof.
    induction l as [|y t IH]; simpl; auto.
    destruct (leb x y); auto.
    eapply perm_trans; [apply perm_swap|]. constructor. exact IH.
  Qed.

  Lemma isort_perm : forall l, Permutation l (isort l).
  Proof.
    induction l as [|x t IH]; simpl; auto.
    eapply perm_trans; [|apply insert_perm]. constructor. exact IH.
  Qed.

  Lemma insert_sorted : forall x l, StronglySorted le l -> StronglySorted le (insert x l).
  Proof.
    induction l as [|y t IH]; intro Hs; simpl.
    - constructor; constructor.
    - inversion Hs as [|? ? Ht Hall]; subst.
      destruct (leb x y) eqn:E.
      + constructor; auto. constructor; auto.
        eapply Forall_impl; [|exact Hall]. intros z Hz. eapply leb_trans; eauto.
      + constructor; auto.
        assert (Hyx : le y x) by (destruct (leb_total x y) as [H|H]; [congruence|exact H]).
        eapply Permutation_Forall; [apply insert_perm|]. constructor; auto.
  Qed.

  Lemma isort_sorted : forall l, StronglySorted le (isort l).
  Proof. induction l; simpl; [constructor|apply insert_sorted; auto]. Qed.

  (* a sorted list is determined by its multiset when the order is antisymmetric on its elements *)
  Lemma sorted_perm_unique : forall l1 l2,
    (forall a b, In a l1 -> In b l1 -> le a b -> le b a -> a = b) ->
    StronglySorted le l1 -> StronglySorted le l2 -> Permutation l1 l2 -> l1 = l2.
  Proof.
    induction l1 as [|a t1 IH]; intros l2 Hanti H1 H2 HP.
    - apply Permutation_nil in HP. auto.
    - destruct l2 as [|b t2]; [apply Permutation_sym, Permutation_nil in HP; discriminate|].
      inversion H1 as [|? ? Hs1 Ha]; subst. inversion H2 as [|? ? Hs2 Hb]; subst.
      assert (Hab : a = b).
      { assert (Hina : In a (b :: t2)) by (eapply Permutation_in; [exact HP|left; auto]).
        assert (Hinb : In b (a :: t1)) by (eapply Permutation_in; [apply Permutation_sym; exact HP|left; auto]).
        destruct Hina as [->|Hina]; auto. destruct Hinb as [->|Hinb]; auto.
        apply Hanti; [left; auto|right; auto| |].
        - rewrite Forall_forall in Ha. apply Ha; auto.
        - rewrite Forall_forall in Hb. apply Hb; auto. }
      subst b. f_equal. apply IH; auto.
      + intros x y Hx Hy. apply Hanti; right; auto.
      + eapply Permutation_cons_inv; eauto.
  Qed.

  Theorem sort_enumeration_invariant : forall l1 l2,
    (forall a b, In a l1 -> In b l1 -> le a b -> le b a -> a = b) ->
    Permutation l1 l2 -> isort l1 = isort l2.
  Proof.
    intros l1 l2 Hanti HP. apply sorted_perm_unique; try apply isort_sorted.
    - intros a b Ha Hb. apply Hanti; eapply Permutation_in; try apply Permutation_sym, isort_perm; auto.
    - eapply perm_trans; [apply Permutation_sym, isort_perm|].
      eapply perm_trans; [exact HP|apply isort_perm].
  Qed.

  (* (b) output built by folding over the sorted keys does not depend on the enumeration order *)
  Theorem sorted_iteration_deterministic : forall (output : Type) (emit : list A -> output) l1 l2,
    (forall a b, In a l1 -> In b l1 -> le a b -> le b a -> a = b) ->
    Permutation l1 l2 -> emit (isort l1) = emit (isort l2).
  Proof. intros. f_equal. apply sort_enumeration_invariant; auto. Qed.
End Sorting.

(* entries of a map: keys are unique, so sorting entries by key is antisymmetric on them *)
Section MapEntries.
  Variables K V : Type.
  Variable kleb : K -> K -> bool.
  Hypothesis kleb_antisym : forall a b, kleb a b = true -> kleb b a = true -> a = b.

  Definition entry_leb (a b : K * V) : bool := kleb (fst a) (fst b).

  Lemma nodup_keys_functional : forall (l : list (K * V)) k v1 v2,
    NoDup (map fst l) -> In (k, v1) l -> In (k, v2) l -> v1 = v2.
  Proof.
    induction l as [|[k0 v0] t IH]; intros k v1 v2 Hnd H1 H2; [inversion H1|].
    simpl in Hnd. inversion Hnd as [|? ? Hnot Hnd']; subst.
    destruct H1 as [E1|H1]; destruct H2 as [E2|H2].
    - congruence.
    - inversion E1; subst. exfalso. apply Hnot. apply in_map_iff. exists (k, v2). auto.
    - inversion E2; subst. exfalso. apply Hnot. apply in_map_iff. exists (k, v1). auto.
    - eapply IH; eauto.
  Qed.

  Lemma entries_antisym : forall l, NoDup (map fst l) ->
    forall a b, In a l -> In b l -> entry_leb a b = true -> entry_leb b a = true -> a = b.
  Proof.
    intros l Hnd [ka va] [kb vb] Ha Hb H1 H2. unfold entry_leb in *. simpl in *.
    pose proof (kleb_antisym _ _ H1 H2). subst kb. f_equal. eapply nodup_keys_functional; eauto.
  Qed.

  Theorem sorted_map_walk_deterministic :
    (forall a b, kleb a b = true \/ kleb b a = true) ->
    (forall a b c, kleb a b = true -> kleb b c = true -> kleb a c = true) ->
    forall (output : Type) (emit : list (K * V) -> output) (e1 e2 : list (K * V)),
    NoDup (map fst e1) -> Permutation e1 e2 ->
    emit (isort _ entry_leb e1) = emit (isort _ entry_leb e2).
  Proof.
    intros Htot Htr output emit e1 e2 Hnd HP.
    apply sorted_iteration_deterministic; auto.
    - intros [a ?] [b ?]. unfold entry_leb. simpl. apply Htot.
    - intros [a ?] [b ?] [c ?]. unfold entry_leb. simpl. apply Htr.
    - apply entries_antisym. exact Hnd.
  Qed.
End MapEntries.

Section Accumulate.
  Variables A B : Type.
  Variable f : A -> B -> B.

  (* (a) order-insensitive accumulation *)
  Theorem fold_comm_perm_invariant :
    (forall a b s, f a (f b s) = f b (f a s)) ->
    forall l1 l2 s, Permutation l1 l2 -> fold_right f s l1 = fold_right f s l2.
  Proof.
    intros Hc l1 l2 s HP. induction HP; simpl; try congruence; try apply Hc.
  Qed.

  (* Go's loop is a left fold *)
  Corollary fold_left_comm_perm_invariant :
    (forall a b s, f a (f b s) = f b (f a s)) ->
    forall l1 l2 s, Permutation l1 l2 ->
    fold_left (fun s a => f a s) l1 s = fold_left (fun s a => f a s) l2 s.
  Proof.
    intros Hc l1 l2 s HP. rewrite <- !fold_left_rev_right.
    apply fold_comm_perm_invariant; auto.
    apply Permutation_rev'. exact HP.
  Qed.

  (* with idempotence the result depends only on the SET of elements: duplicates in the
     enumeration (a value reachable under two keys) do not matter either *)
  Lemma fold_absorb : (forall a b s, f a (f b s) = f b (f a s)) -> (forall a s, f a (f a s) = f a s) ->
    forall l a s, In a l -> f a (fold_right f s l) = fold_right f s l.
  Proof.
    intros Hc Hi. induction l as [|b t IH]; intros a s Hin; [inversion Hin|]. simpl.
    destruct Hin as [->|Hin]; [apply Hi|]. rewrite Hc. rewrite IH; auto.
  Qed.

  Theorem fold_comm_idem_perm_invariant :
    (forall a b s, f a (f b s) = f b (f a s)) -> (forall a s, f a (f a s) = f a s) ->
    forall l1 l2 s, incl l1 l2 -> incl l2 l1 -> fold_right f s l1 = fold_right f s l2.
  Proof.
    intros Hc Hi.
    assert (Hsub : forall l1 l2 s, incl l1 l2 -> fold_right f (fold_right f s l2) l1 = fold_right f s l2).
    { induction l1 as [|a t IH]; intros l2 s Hincl; simpl; auto.
      rewrite IH by (intros x Hx; apply Hincl; right; auto).
      apply fold_absorb; auto. apply Hincl. left. auto. }
    assert (Hcomm : forall l1 l2 s, fold_right f (fold_right f s l2) l1 = fold_right f (fold_right f s l1) l2).
    { induction l1 as [|a t IH]; intros l2 s; simpl; auto.
      rewrite IH. clear IH. induction l2 as [|b u IHu]; simpl; auto.
      rewrite <- IHu. apply Hc. }
    intros l1 l2 s H12 H21.
    pose proof (Hsub l1 l2 s H12) as H1. pose proof (Hsub l2 l1 s H21) as H2.
    etransitivity; [symmetry; exact H2|]. etransitivity; [|exact H1]. symmetry. apply Hcomm.
  Qed.
End Accumulate.

(* the "found" idiom: `for k := range m { if p(k) { found = true; break } }` *)
Theorem existsb_perm_invariant : forall (A : Type) (p : A -> bool) l1 l2,
  Permutation l1 l2 -> existsb p l1 = existsb p l2.
Proof.
  intros A p l1 l2 HP. induction HP; simpl; try congruence.
  destruct (p x), (p y); reflexivity.
Qed.

(* the hypothesis of (a) is needed: a non-commutative update (append to the output) is order dependent *)
Example append_is_order_dependent :
  exists l1 l2 : list nat, Permutation l1 l2 /\ fold_right (fun a s => a :: s) [] l1 <> fold_right (fun a s => a :: s) [] l2.
Proof. exists [1; 2], [2; 1]. split; [apply perm_swap|discriminate]. Qed.
