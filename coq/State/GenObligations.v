(* C12 — obligations over the tables regenerated from /repo on every run
   (Gen/BackendState.v, Gen/MapWalks.v).  Each is a closed boolean computation
   checked by the kernel with vm_compute; when the Go source changes so that one
   of them becomes false this file stops compiling and checks/c12.py reports
   which field / site is responsible and searches for a failing history. *)
From Coq Require Import List String Bool.
Import ListNotations.
Require Import Naga.State.Tie Naga.State.Reset.
Require Import Naga.Gen.BackendState Naga.Gen.MapWalks.
Open Scope string_scope.

(* Compile begins with Reset: compile s m = body (reset s) m *)
Lemma compile_begins_with_reset : compile_first_stmt = "b.Reset()".
Proof. vm_compute. reflexivity. Qed.

(* every field of codegen.Backend is re-initialised by Reset / the prologue of Compile,
   or is reviewed configuration (state/immutable_fields.txt).  A new field that Reset forgets,
   a removed clear(..), an assignment turned into an update: false. *)
Lemma all_mutable_fields_reset_backend :
  all_mutable_fields_reset backend_fields backend_acts backend_cfg backend_scratch = true.
Proof. vm_compute. reflexivity. Qed.

(* ... and every field of ModuleBuilder by ModuleBuilder.Reset (to which Backend delegates) *)
Lemma all_mutable_fields_reset_modulebuilder :
  all_mutable_fields_reset modulebuilder_fields modulebuilder_acts modulebuilder_cfg modulebuilder_scratch = true.
Proof. vm_compute. reflexivity. Qed.

Lemma reset_spares_cfg_backend : reset_spares_cfg backend_fields backend_acts backend_cfg = true.
Proof. vm_compute. reflexivity. Qed.

Lemma reset_spares_cfg_modulebuilder : reset_spares_cfg modulebuilder_fields modulebuilder_acts modulebuilder_cfg = true.
Proof. vm_compute. reflexivity. Qed.

(* no method writes a configuration field, except writes recorded as findings
   (backend_known_config_writes comes from known_findings.jsonl; checks/c12.py reports each of them) *)
Lemma config_fields_not_written_backend :
  config_fields_not_written backend_cfg backend_written backend_known_config_writes = true.
Proof. vm_compute. reflexivity. Qed.

Lemma config_fields_not_written_modulebuilder :
  config_fields_not_written modulebuilder_cfg modulebuilder_written modulebuilder_known_config_writes = true.
Proof. vm_compute. reflexivity. Qed.

(* no hidden state shared between compilations: package-level variables are never written *)
Lemma no_written_package_globals : subset_reviewed written_globals global_allow global_known = true.
Proof. vm_compute. reflexivity. Qed.

(* back-end code that writes into ir-typed shared storage is reviewed (state/irwrite_allowlist.txt) *)
Lemma backend_ir_writes_reviewed : subset_reviewed irwrite_sites irwrite_allow irwrite_known = true.
Proof. vm_compute. reflexivity. Qed.

(* every map walk is order-insensitive accumulation (a), collect-then-sort (b), or reviewed *)
Lemma class_c_sites_reviewed : subset_reviewed (class_c_sites map_walk_sites) mapwalk_allow mapwalk_known = true.
Proof. vm_compute. reflexivity. Qed.

(* the tables are not empty (a broken extractor must not make the obligations vacuous) *)
Lemma tables_nonempty :
  (Nat.leb 30 (List.length backend_fields) && Nat.leb 15 (List.length modulebuilder_fields) &&
   Nat.leb 40 (List.length map_walk_sites) && Nat.leb 20 all_globals_count && Nat.leb 25 (List.length backend_acts)) = true.
Proof. vm_compute. reflexivity. Qed.

(* ---- from the boolean obligations to the hypotheses of Reset.v ---- *)

Lemma tie_all_reset : forall fields acts cfg scratch,
  all_mutable_fields_reset fields acts cfg scratch = true ->
  all_reset (field_allowed cfg) (field_reset acts) (observable fields scratch) = true.
Proof.
  intros fields acts cfg scratch. unfold all_mutable_fields_reset, all_reset, observable.
  induction fields as [|f t IH]; simpl; auto.
  intro H. apply andb_true_iff in H. destruct H as [Hf Ht].
  destruct (field_allowed scratch f) eqn:Es; simpl; auto.
  rewrite orb_false_r in Hf. rewrite Hf. simpl. auto.
Qed.

Lemma tie_spares : forall fields acts cfg scratch,
  reset_spares_cfg fields acts cfg = true ->
  reset_spares_config (field_allowed cfg) (field_reset acts) (observable fields scratch) = true.
Proof.
  intros fields acts cfg scratch. unfold reset_spares_cfg, reset_spares_config, observable.
  induction fields as [|f t IH]; simpl; auto.
  intro H. apply andb_true_iff in H. destruct H as [Hf Ht].
  destruct (field_allowed scratch f); simpl; auto. rewrite Hf. simpl. auto.
Qed.
