(* C12 — histories of calls on one reused backend object, and sequences of
   different backends on one module.

   compile s m = body (reset s) m : Compile begins with Reset (R obligation
   compile_begins_with_reset), then runs the translation proper.

   Hypotheses (tied to the Go code by regenerated obligations and monitors, not
   proved of it): reset is canonical on a configuration class (Reset.v, from
   all_mutable_fields_reset), and neither reset nor body leaves the class
   (configuration fields are never written).

   Conclusions, for ALL histories: the output of every Compile call in a
   history equals the output of the same call on a fresh object. *)
From Coq Require Import List Permutation.
Import ListNotations.

Section History.
  Variables state module output : Type.
  Variable reset : state -> state.
  Variable body : state -> module -> state * output.

  Definition compile (s : state) (m : module) : state * output := body (reset s) m.

  (* "well-formed states of the same configuration": a partial equivalence relation
     (R s s = s is a state of this backend type) *)
  Variable R : state -> state -> Prop.
  Hypothesis R_sym : forall s s', R s s' -> R s' s.
  Hypothesis R_trans : forall s1 s2 s3, R s1 s2 -> R s2 s3 -> R s1 s3.
  Hypothesis reset_canonical : forall s s', R s s' -> reset s = reset s'.
  Hypothesis reset_keeps_config : forall s, R s s -> R s (reset s).
  Hypothesis body_keeps_config : forall s m, R s s -> R s (fst (body s m)).

  Lemma R_left : forall s s', R s s' -> R s s.
  Proof. intros. eapply R_trans; eauto. Qed.

  (* operations a client can perform on a backend object *)
  Inductive op := OCompile (m : module) | OReset.

  Fixpoint run (s : state) (ops : list op) : state * list output :=
    match ops with
    | [] => (s, [])
    | OReset :: rest => run (reset s) rest
    | OCompile m :: rest =>
        let '(s1, o) := compile s m in
        let '(s2, os) := run s1 rest in (s2, o :: os)
    end.

  Fixpoint compiles (ops : list op) : list module :=
    match ops with
    | [] => []
    | OReset :: rest => compiles rest
    | OCompile m :: rest => m :: compiles rest
    end.

  Lemma compile_keeps_config : forall s m, R s s -> R s (fst (compile s m)).
  Proof.
    intros s m Hs. unfold compile. pose proof (reset_keeps_config s Hs) as Hr.
    eapply R_trans; [exact Hr|]. apply body_keeps_config. eapply R_left, R_sym, Hr.
  Qed.

  Lemma compile_canonical : forall s s' m, R s s' -> compile s m = compile s' m.
  Proof. intros. unfold compile. rewrite (reset_canonical s s'); auto. Qed.

  Lemma run_keeps_config : forall ops s, R s s -> R s (fst (run s ops)).
  Proof.
    induction ops as [|[m|] rest IH]; intros s Hs; simpl.
    - exact Hs.
    - pose proof (compile_keeps_config s m Hs) as Hc.
      destruct (compile s m) as [s1 o] eqn:E. simpl in Hc.
      assert (H1 : R s1 s1) by (eapply R_left, R_sym, Hc).
      specialize (IH s1 H1). destruct (run s1 rest) as [s2 os]. simpl in *.
      eapply R_trans; eauto.
    - pose proof (reset_keeps_config s Hs) as Hr.
      eapply R_trans; [exact Hr | apply IH]. eapply R_left, R_sym, Hr.
  Qed.

  (* every output in ANY history is the output of that compilation on a fresh object
     of the same configuration *)
  Theorem history_outputs_pointwise : forall ops s0 fresh,
    R s0 fresh ->
    snd (run s0 ops) = map (fun m => snd (compile fresh m)) (compiles ops).
  Proof.
    induction ops as [|[m|] rest IH]; intros s0 fresh HR; simpl.
    - reflexivity.
    - pose proof (compile_keeps_config s0 m (R_left _ _ HR)) as Hc.
      rewrite (compile_canonical s0 fresh m HR) in *.
      destruct (compile fresh m) as [s1 o] eqn:E. simpl in Hc.
      assert (HR1 : R s1 fresh) by (apply R_sym; eapply R_trans; [apply R_sym; exact HR | exact Hc]).
      specialize (IH s1 fresh HR1). destruct (run s1 rest) as [s2 os]. simpl in *.
      rewrite IH. reflexivity.
    - apply IH. eapply R_trans; [apply R_sym; apply reset_keeps_config; eapply R_left; exact HR | exact HR].
  Qed.

  Definition last_output (os : list output) : option output := last (map Some os) None.

  Lemma last_map_Some_app : forall (l : list output) o, last (map Some (l ++ [o])) None = Some o.
  Proof. induction l as [|a [|b l] IH]; intro o; simpl in *; auto. Qed.

  (* the statement of the property: what was compiled before does not matter *)
  Theorem history_independent : forall history m s0, R s0 s0 ->
    last_output (snd (run s0 (history ++ [OCompile m]))) = last_output (snd (run s0 [OCompile m])).
  Proof.
    intros history m s0 H0.
    rewrite (history_outputs_pointwise (history ++ [OCompile m]) s0 s0 H0).
    rewrite (history_outputs_pointwise [OCompile m] s0 s0 H0).
    assert (Hc : forall h, compiles (h ++ [OCompile m]) = compiles h ++ [m]).
    { induction h as [|[x|] h IH]; simpl; auto. rewrite IH. reflexivity. }
    rewrite Hc. rewrite map_app. simpl. unfold last_output.
    rewrite last_map_Some_app. reflexivity.
  Qed.

  (* compiling the same module twice on one object gives the same bytes *)
  Corollary compile_idempotent_output : forall s m, R s s ->
    snd (compile (fst (compile s m)) m) = snd (compile s m).
  Proof.
    intros s m Hs. rewrite (compile_canonical (fst (compile s m)) s m); auto.
    apply R_sym. apply compile_keeps_config. exact Hs.
  Qed.
End History.

(* One module handed to a sequence of (stateless) backends. *)
Section Frame.
  Variables module output backend : Type.
  (* a backend call may, in principle, return an altered module *)
  Variable call : backend -> module -> module * output.

  Fixpoint run_backends (m : module) (bs : list backend) : module * list output :=
    match bs with
    | [] => (m, [])
    | b :: rest =>
        let '(m1, o) := call b m in
        let '(m2, os) := run_backends m1 rest in (m2, o :: os)
    end.

  Definition read_only : Prop := forall b m, fst (call b m) = m.

  (* steps that never write the module leave it equal, whatever the sequence *)
  Theorem module_frame : read_only -> forall bs m, fst (run_backends m bs) = m.
  Proof.
    intros Hro. induction bs as [|b rest IH]; intro m; simpl; auto.
    pose proof (Hro b m) as H1. destruct (call b m) as [m1 o]. simpl in H1. subst m1.
    specialize (IH m). destruct (run_backends m rest) as [m2 os]. simpl in *. exact IH.
  Qed.

  (* ... and every backend then produces what it produces when run alone on the module *)
  Theorem backend_order_independent : read_only -> forall bs m,
    snd (run_backends m bs) = map (fun b => snd (call b m)) bs.
  Proof.
    intros Hro. induction bs as [|b rest IH]; intro m; simpl; auto.
    pose proof (Hro b m) as H1. destruct (call b m) as [m1 o] eqn:E. simpl in H1. subst m1.
    specialize (IH m). destruct (run_backends m rest) as [m2 os]. simpl in *.
    rewrite IH. reflexivity.
  Qed.

  Theorem module_frame_and_outputs : read_only -> forall bs m,
    fst (run_backends m bs) = m /\ snd (run_backends m bs) = map (fun b => snd (call b m)) bs.
  Proof. intros. split; [apply module_frame | apply backend_order_independent]; assumption. Qed.

  (* in particular the set of outputs is invariant under reordering the backends *)
  Corollary backend_permutation : read_only -> forall bs bs' m,
    Permutation bs bs' ->
    Permutation (combine bs (snd (run_backends m bs))) (combine bs' (snd (run_backends m bs'))).
  Proof.
    intros Hro bs bs' m HP.
    rewrite !(backend_order_independent Hro).
    assert (Hc : forall l, combine l (map (fun b => snd (call b m)) l) = map (fun b => (b, snd (call b m))) l).
    { induction l; simpl; congruence. }
    rewrite !Hc. apply Permutation_map. exact HP.
  Qed.
End Frame.
