(* C12 — N compilations running concurrently: threads with private state and
   one shared module, atomic steps interleaved by an arbitrary schedule.

   A schedule is a list of thread ids; executing it lets the named thread take
   its next step.  Under the hypothesis that steps only READ the shared state
   (R/monitors: no back end writes the module; no written package-level
   variable), for EVERY schedule each thread ends in the state it reaches when
   it runs alone, and the shared state is unchanged.

   Sequential consistency of the interleaving model is what Go guarantees for
   data-race-free programs; race freedom itself is observed by the race
   detector (monitor iv), not proved. *)
From Coq Require Import List Arith Permutation.
Import ListNotations.

Section Schedule.
  Variables local shared : Type.
  (* step i l sh : thread i, in private state l, takes one step reading sh *)
  Variable step : nat -> local -> shared -> local * shared.

  Definition locals := nat -> local.
  Definition upd (ls : locals) (i : nat) (l : local) : locals :=
    fun j => if Nat.eqb j i then l else ls j.

  Definition exec1 (c : locals * shared) (i : nat) : locals * shared :=
    let '(l', sh') := step i (fst c i) (snd c) in (upd (fst c) i l', sh').

  Definition exec (sched : list nat) (c : locals * shared) : locals * shared :=
    fold_left exec1 sched c.

  Fixpoint iter (n : nat) (f : local -> local) (x : local) : local :=
    match n with 0 => x | S k => iter k f (f x) end.

  Definition count (i : nat) (sched : list nat) : nat := count_occ Nat.eq_dec sched i.

  Definition read_only : Prop := forall i l sh, snd (step i l sh) = sh.

  (* module_frame for schedules: the shared module is never changed *)
  Theorem shared_frame : read_only -> forall sched ls sh, snd (exec sched (ls, sh)) = sh.
  Proof.
    intros Hro. induction sched as [|i rest IH]; intros ls sh; auto.
    unfold exec. simpl. unfold exec1 at 2. simpl. pose proof (Hro i (ls i) sh) as H.
    destruct (step i (ls i) sh) as [l' sh']. simpl in H. subst sh'. apply IH.
  Qed.

  (* what thread i does alone: its step function iterated on its own state *)
  Definition alone (i : nat) (sh : shared) (n : nat) (l : local) : local :=
    iter n (fun x => fst (step i x sh)) l.

  Theorem schedule_thread_state : read_only -> forall sched ls sh i,
    fst (exec sched (ls, sh)) i = alone i sh (count i sched) (ls i).
  Proof.
    intros Hro. induction sched as [|i0 rest IH]; intros ls sh i; auto.
    unfold exec. simpl. unfold exec1 at 2. simpl. pose proof (Hro i0 (ls i0) sh) as H.
    destruct (step i0 (ls i0) sh) as [l' sh'] eqn:E. simpl in H. subst sh'.
    fold (exec rest (upd ls i0 l', sh)). rewrite IH. unfold count. simpl.
    destruct (Nat.eq_dec i0 i) as [->|Hne].
    - unfold upd. rewrite Nat.eqb_refl. unfold alone. simpl. rewrite E. reflexivity.
    - unfold upd. destruct (Nat.eqb i i0) eqn:Eb; [apply Nat.eqb_eq in Eb; congruence|]. reflexivity.
  Qed.

  (* the statement of the property: every interleaving gives each thread the result of its
     sequential run (the schedule in which it runs alone), and leaves the module alone *)
  Theorem schedule_independent : read_only -> forall sched ls sh i,
    fst (exec sched (ls, sh)) i = fst (exec (repeat i (count i sched)) (ls, sh)) i
    /\ snd (exec sched (ls, sh)) = sh.
  Proof.
    intros Hro sched ls sh i. split; [|apply shared_frame; auto].
    rewrite !schedule_thread_state by auto. f_equal.
    unfold count. induction (count_occ Nat.eq_dec sched i) as [|n IHn]; simpl; auto.
    destruct (Nat.eq_dec i i); [|congruence]. f_equal. exact IHn.
  Qed.

  (* two schedules that give every thread the same number of steps are indistinguishable *)
  Corollary schedules_equivalent : read_only -> forall s1 s2 ls sh,
    (forall i, count i s1 = count i s2) ->
    (forall i, fst (exec s1 (ls, sh)) i = fst (exec s2 (ls, sh)) i)
    /\ snd (exec s1 (ls, sh)) = snd (exec s2 (ls, sh)).
  Proof.
    intros Hro s1 s2 ls sh Hc. split.
    - intro i. rewrite !schedule_thread_state by auto. rewrite Hc. reflexivity.
    - rewrite !shared_frame by auto. reflexivity.
  Qed.

  Corollary permuted_schedules_equivalent : read_only -> forall s1 s2 ls sh,
    Permutation s1 s2 ->
    forall i, fst (exec s1 (ls, sh)) i = fst (exec s2 (ls, sh)) i.
  Proof.
    intros Hro s1 s2 ls sh HP. apply schedules_equivalent; auto.
    intro i. unfold count. apply Permutation_count_occ. exact HP.
  Qed.

  (* commutation of two adjacent independent steps (the induction above in one step) *)
  Lemma steps_commute : read_only -> forall i j ls sh k,
    i <> j -> fst (exec [i; j] (ls, sh)) k = fst (exec [j; i] (ls, sh)) k.
  Proof.
    intros Hro i j ls sh k Hne. apply permuted_schedules_equivalent; auto. apply perm_swap.
  Qed.
End Schedule.
