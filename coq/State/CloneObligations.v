(* C12 — obligations over Gen/CloneRegions.v (regenerated from /repo on every run) and their
   use as the hypothesis of State/CloneFrame.v.

   Gen/CloneRegions.v lists, for msl applyPipelineConstants and ir.CloneModuleForOverrides,
   the storage regions of the module that the clone function re-allocates (extracted from its
   assignments `clone.X = make(..)` / `append(T(nil), ..)` / `&localCopy`), and the reviewed list
   of regions that the override-resolution pass writes afterwards (state/clone_writes.txt).
   A re-allocation turned into a re-slice of the caller's array, or a dropped copy, makes
   clone_covers_writes_* false; checks/c12.py then names the region and searches a history. *)
From Coq Require Import List String Bool.
Import ListNotations.
Require Import Naga.State.Tie Naga.State.CloneFrame Naga.State.History.
Require Import Naga.Gen.CloneRegions.
Open Scope string_scope.

Lemma clone_covers_writes_msl : clone_covers_writes msl_clone_copied msl_clone_writes msl_clone_known = true.
Proof. vm_compute. reflexivity. Qed.

Lemma clone_covers_writes_ir : clone_covers_writes ir_clone_copied ir_clone_writes ir_clone_known = true.
Proof. vm_compute. reflexivity. Qed.

(* the tables are not empty (a broken extractor must not make the obligations vacuous) *)
Lemma clone_tables_nonempty :
  (Nat.leb 8 (List.length msl_clone_copied) && Nat.leb 8 (List.length ir_clone_copied) &&
   Nat.leb 4 (List.length msl_clone_writes) && Nat.leb 8 (List.length ir_clone_writes)) = true.
Proof. vm_compute. reflexivity. Qed.

(* from the boolean obligation to the hypothesis of clone_frame *)
Lemma tie_clone_writes : forall copied writes known r,
  clone_covers_writes copied writes known = true ->
  In r (clone_sound_writes writes known) -> mem r copied = true.
Proof.
  intros copied writes known r H Hin. unfold clone_covers_writes in H. unfold clone_sound_writes in Hin.
  apply in_map_iff in Hin. destruct Hin as [[w c] [Hw Hf]]. simpl in Hw. subst w.
  apply filter_In in Hf. destruct Hf as [Hin Hk]. simpl in Hk.
  rewrite forallb_forall in H. specialize (H _ Hin). simpl in H.
  apply negb_true_iff in Hk. rewrite Hk, orb_false_r in H. exact H.
Qed.

(* History.module_frame_and_outputs for a sequence of operations each of which is read-only on the module at hand *)
Section FrameForall.
  Variables module output backend : Type.
  Variable call : backend -> module -> module * output.

  Lemma run_backends_frame_forall : forall bs m, Forall (fun b => fst (call b m) = m) bs ->
    fst (run_backends _ _ _ call m bs) = m /\
    snd (run_backends _ _ _ call m bs) = map (fun b => snd (call b m)) bs.
  Proof.
    induction bs as [|b rest IH]; intros m Hall; simpl; [split; reflexivity|].
    inversion Hall as [|x l Hb Hrest]; subst.
    destruct (call b m) as [m1 o] eqn:E. simpl in Hb. subst m1.
    destruct (IH m Hrest) as [H1 H2].
    destruct (run_backends _ _ _ call m rest) as [m2 os]. simpl in *.
    split; [exact H1 | rewrite H2; reflexivity].
  Qed.
End FrameForall.

Section Instances.
  Context {value output : Type}.

  (* msl.Compile with Options.PipelineConstants, for EVERY pass that writes only regions on the reviewed
     list (minus regions excused by a recorded finding): the caller's module is unchanged. *)
  Theorem msl_pipeline_constants_frame : forall (p : @pass value) (o : @store value),
    (forall r, In r (writes p) -> In r (clone_sound_writes msl_clone_writes msl_clone_known)) ->
    forall r, fst (run_pass (fun x => mem x msl_clone_copied) p (clone o)) r = o r.
  Proof.
    intros p o Hw r. apply clone_frame_caller. intros r0 Hr0.
    eapply tie_clone_writes; [apply clone_covers_writes_msl | apply Hw; exact Hr0].
  Qed.

  (* ir.CloneModuleForOverrides + ir.ProcessOverrides (and glsl.Compile with PipelineConstants, which calls them) *)
  Theorem ir_process_overrides_frame_partial : forall (p : @pass value) (o : @store value),
    (forall r, In r (writes p) -> In r (clone_sound_writes ir_clone_writes ir_clone_known)) ->
    forall r, fst (run_pass (fun x => mem x ir_clone_copied) p (clone o)) r = o r.
  Proof.
    intros p o Hw r. apply clone_frame_caller. intros r0 Hr0.
    eapply tie_clone_writes; [apply clone_covers_writes_ir | apply Hw; exact Hr0].
  Qed.

  (* as operations on one module (History.Frame): histories that mix plain back ends with
     msl.Compile-with-constants leave the module equal and every operation yields its run-alone output *)
  Variable emit : @store value -> output.

  Definition msl_pc_call (p : @pass value) (o : @store value) : @store value * output :=
    pc_call (fun x => mem x msl_clone_copied) emit p o.

  Theorem msl_pipeline_constants_history : forall (ops : list (@pass value)),
    Forall (fun p => forall r, In r (writes p) -> In r (clone_sound_writes msl_clone_writes msl_clone_known)) ops ->
    forall o,
    fst (run_backends _ _ _ msl_pc_call o ops) = o /\
    snd (run_backends _ _ _ msl_pc_call o ops) = map (fun p => snd (msl_pc_call p o)) ops.
  Proof.
    intros ops Hall o. apply run_backends_frame_forall.
    eapply Forall_impl; [|exact Hall]. intros p Hp.
    unfold msl_pc_call. apply pc_call_read_only. intros r Hr.
    eapply tie_clone_writes; [apply clone_covers_writes_msl | apply Hp; exact Hr].
  Qed.
End Instances.

(* ---- the hypothesis is needed, and ir.CloneModuleForOverrides violates it on the pinned tree ----
   Hand-written model of the shape of the defect (independent of the regenerated tables): the clone
   re-allocates the top-level statement list "Body" but not the block nested in it; handle renumbering
   writes both. *)
Definition shallow_copied (r : string) : bool := String.eqb r "Body".
Definition renumber : @pass nat := [("Body", fun v => S (v "Body")); ("Body.nested", fun v => S (v "Body.nested"))].

Theorem shallow_clone_frame_refuted :
  exists o : @store nat, fst (run_pass shallow_copied renumber (clone o)) "Body.nested" <> o "Body.nested".
Proof. exists (fun _ => 0). vm_compute. discriminate. Qed.

(* the same pass after a clone that also copies the nested block leaves the caller's module alone *)
Theorem deep_clone_frame : forall (o : @store nat) r,
  fst (run_pass (fun r => String.eqb r "Body" || String.eqb r "Body.nested") renumber (clone o)) r = o r.
Proof.
  intros o r. apply clone_frame_caller. intros r0 Hr0. simpl in Hr0.
  destruct Hr0 as [H|[H|[]]]; subst r0; reflexivity.
Qed.
