(* C12 — operations that take pipeline constants work on a CLONE of the caller's
   module (msl applyPipelineConstants: `m := *module` + re-allocated arenas;
   glsl.Compile: ir.CloneModuleForOverrides + ir.ProcessOverrides) and then write
   the clone in place (override initialisers replaced by literals, references
   replaced, global expressions folded, function arenas rebuilt, statement
   handles renumbered).  The clones are shallow: a storage region (a slice's
   backing array, a map, a pointee) is either re-allocated by the clone function
   ("copied") or IS the caller's region.

   Model.  A store maps region names to contents.  A clone state is a pair
   (caller's store, private store); the clone reads/writes region r in the
   private store when r is copied, in the caller's store otherwise.  A pass is a
   list of writes whose values may depend on everything the clone can see.

   clone_view_independent : what the clone sees after the pass (hence the back
     end's output) does not depend on WHICH regions were copied: it is the
     result of running the pass in place on a private full copy;
   clone_frame            : if every region the pass writes is copied, the
     caller's store is unchanged (hypothesis read_only of History.module_frame
     for these operations);
   clone_frame_needed     : a write of a new value to a region that is not copied
     changes the caller's store (the hypothesis is necessary).

   The hypothesis "written regions are copied" is tied to the Go code by the
   regenerated tables of Gen/CloneRegions.v (State/CloneObligations.v) and by the
   module-digest monitors of checks/c12.py. *)
From Coq Require Import List String Bool.
Import ListNotations.

Section CloneFrame.
  Context {value : Type}.
  Definition region := string.
  Definition store := region -> value.

  Variable copied : region -> bool.

  Definition upd (s : store) (r : region) (v : value) : store :=
    fun r' => if String.eqb r' r then v else s r'.

  (* (caller's store, clone's private store) *)
  Definition cstate := (store * store)%type.

  Definition clone (o : store) : cstate := (o, o).

  (* the module as the clone sees it *)
  Definition view (s : cstate) : store := fun r => if copied r then snd s r else fst s r.

  Definition cwrite (s : cstate) (r : region) (v : value) : cstate :=
    if copied r then (fst s, upd (snd s) r v) else (upd (fst s) r v, snd s).

  (* one step: write to region r the value computed from the current view *)
  Definition pass := list (region * (store -> value)).

  Fixpoint run_pass (p : pass) (s : cstate) : cstate :=
    match p with
    | [] => s
    | (r, f) :: rest => run_pass rest (cwrite s r (f (view s)))
    end.

  Fixpoint run_in_place (p : pass) (o : store) : store :=
    match p with
    | [] => o
    | (r, f) :: rest => run_in_place rest (upd o r (f o))
    end.

  Definition writes (p : pass) : list region := map fst p.

  Lemma view_cwrite : forall s r v r', view (cwrite s r v) r' = upd (view s) r v r'.
  Proof.
    intros s r v r'. unfold view, cwrite, upd.
    destruct (copied r) eqn:Hr; simpl; destruct (String.eqb r' r) eqn:E; try reflexivity.
    - apply String.eqb_eq in E. subst r'. rewrite Hr. reflexivity.
    - apply String.eqb_eq in E. subst r'. rewrite Hr. reflexivity.
  Qed.

  (* steps are functions of the CONTENTS of the view (extensional) *)
  Definition extensional (p : pass) : Prop :=
    Forall (fun rf => forall a b : store, (forall r, a r = b r) -> snd rf a = snd rf b) p.

  Lemma run_in_place_ext : forall p, extensional p -> forall o o', (forall r, o r = o' r) ->
    forall r, run_in_place p o r = run_in_place p o' r.
  Proof.
    induction p as [|[r0 f] rest IH]; intros Hext o o' Hoo r; simpl; [apply Hoo|].
    inversion Hext as [|x l Hf Hrest]; subst. simpl in Hf.
    apply IH; auto. intro r1. unfold upd.
    destruct (String.eqb r1 r0); [apply Hf; exact Hoo | apply Hoo].
  Qed.

  (* the clone's view after the pass = the pass run in place on a full private copy,
     whatever was copied *)
  Theorem clone_view_independent : forall p, extensional p -> forall s r,
    view (run_pass p s) r = run_in_place p (view s) r.
  Proof.
    induction p as [|[r0 f] rest IH]; intros Hext s r; simpl; [reflexivity|].
    inversion Hext as [|x l Hf Hrest]; subst. simpl in Hf.
    rewrite (IH Hrest).
    apply run_in_place_ext; auto.
    intro r1. rewrite view_cwrite. reflexivity.
  Qed.

  Lemma cwrite_copied_frame : forall s r v, copied r = true -> fst (cwrite s r v) = fst s.
  Proof. intros s r v H. unfold cwrite. rewrite H. reflexivity. Qed.

  (* every written region is copied  ==>  the caller's module is unchanged *)
  Theorem clone_frame : forall p, (forall r, In r (writes p) -> copied r = true) ->
    forall s, fst (run_pass p s) = fst s.
  Proof.
    induction p as [|[r0 f] rest IH]; intros Hw s; simpl; [reflexivity|].
    rewrite IH.
    - apply cwrite_copied_frame. apply Hw. simpl. auto.
    - intros r Hr. apply Hw. simpl. auto.
  Qed.

  Corollary clone_frame_caller : forall p o, (forall r, In r (writes p) -> copied r = true) ->
    forall r, fst (run_pass p (clone o)) r = o r.
  Proof. intros p o Hw r. rewrite clone_frame; auto. Qed.

  (* the hypothesis is needed: one write of a different value to a shared region is seen by the caller *)
  Theorem clone_frame_needed : forall o r v, copied r = false -> v <> o r ->
    fst (run_pass [(r, fun _ => v)] (clone o)) r <> o r.
  Proof.
    intros o r v Hc Hv. simpl. unfold cwrite. rewrite Hc. simpl. unfold upd.
    rewrite String.eqb_refl. exact Hv.
  Qed.
End CloneFrame.

(* An operation on the caller's module in the sense of History.Frame: clone, run the pass,
   hand the clone's view to a back end.  With writes inside the copied regions it is read-only,
   so History.module_frame / backend_order_independent apply to sequences that contain it. *)
Section AsBackendCall.
  Context {value output : Type}.
  Variable copied : region -> bool.
  Variable emit : @store value -> output.

  Definition pc_call (p : @pass value) (o : @store value) : @store value * output :=
    let s := run_pass copied p (clone o) in (fst s, emit (view copied s)).

  Theorem pc_call_read_only : forall p, (forall r, In r (writes p) -> copied r = true) ->
    forall o, fst (pc_call p o) = o.
  Proof. intros p Hw o. unfold pc_call. simpl. rewrite clone_frame; auto. Qed.
End AsBackendCall.
