(* C12 — vocabulary shared by the regenerated tables (Gen/BackendState.v,
   Gen/MapWalks.v) and the obligations over them (State/GenObligations.v).
   Definitions only. *)
From Coq Require Import List String Bool.
Import ListNotations.
Open Scope string_scope.

Definition mem (x : string) (l : list string) : bool := existsb (String.eqb x) l.

(* path p covers flattened field f: f = p or f = p.<more> *)
Definition covers (p f : string) : bool := String.eqb p f || String.prefix (p ++ ".") f.

(* one syntactic action of Reset / the prologue of Compile on a receiver field *)
Record act := mk_act { a_path : string; a_how : string; a_uncond : bool }.

(* the actions that re-initialise a field whatever it held before:
   assign   b.f = e            (e does not mention b.f)
   clear    clear(b.f)
   truncate b.f = b.f[:0]
   delegate if b.f != nil { b.f.Reset(..) } else { b.f = New..(..) }
   ("update": b.f = g(b.f), b.f++, b.f += e is NOT a re-initialisation) *)
Definition resetting (how : string) : bool := mem how ["assign"; "clear"; "truncate"; "delegate"].

Definition field_reset (acts : list act) (f : string) : bool :=
  existsb (fun a => a_uncond a && resetting (a_how a) && covers (a_path a) f) acts.

Definition field_allowed (allow : list string) (f : string) : bool :=
  existsb (fun p => covers p f) allow.

(* every field is re-initialised, or reviewed configuration, or reviewed scratch storage *)
Definition all_mutable_fields_reset (fields : list string) (acts : list act) (cfg scratch : list string) : bool :=
  forallb (fun f => field_reset acts f || field_allowed cfg f || field_allowed scratch f) fields.

Definition unreset_fields (fields : list string) (acts : list act) (cfg scratch : list string) : list string :=
  filter (fun f => negb (field_reset acts f || field_allowed cfg f || field_allowed scratch f)) fields.

Definition observable (fields scratch : list string) : list string :=
  filter (fun f => negb (field_allowed scratch f)) fields.

(* Reset itself does not touch configuration *)
Definition reset_spares_cfg (fields : list string) (acts : list act) (cfg : list string) : bool :=
  forallb (fun f => negb (field_reset acts f && field_allowed cfg f)) fields.

(* no method writes a configuration field (written: paths written outside constructors and Reset);
   known: writes that are recorded findings *)
Definition config_fields_not_written (cfg written known : list string) : bool :=
  forallb (fun w => negb (existsb (fun c => covers c w || covers w c) cfg) || mem w known) written.

Definition config_writes (cfg written : list string) : list string :=
  filter (fun w => existsb (fun c => covers c w || covers w c) cfg) written.

Inductive walk_class := ClassA | ClassB | ClassC.

Definition is_class_c (c : walk_class) : bool := match c with ClassC => true | _ => false end.

Definition class_c_sites (sites : list (string * walk_class)) : list string :=
  map fst (filter (fun s => is_class_c (snd s)) sites).

Definition subset_reviewed (sites allow known : list string) : bool :=
  forallb (fun s => mem s allow || mem s known) sites.

Definition unreviewed (sites allow known : list string) : list string :=
  filter (fun s => negb (mem s allow || mem s known)) sites.

(* ---- clone functions of the operations that take pipeline constants (State/CloneFrame.v) ----
   copied : regions the clone function re-allocates (regenerated from the Go source);
   writes : (region, finding class) written by the pass that follows (reviewed, state/clone_writes.txt);
   known  : classes of open findings module-mutated:<operation>:<class>.
   Every written region is re-allocated by the clone, or its class is a recorded finding. *)
Definition clone_covers_writes (copied : list string) (writes : list (string * string)) (known : list string) : bool :=
  forallb (fun w => mem (fst w) copied || mem (snd w) known) writes.

Definition clone_shared_written (copied : list string) (writes : list (string * string)) (known : list string) : list string :=
  map fst (filter (fun w => negb (mem (fst w) copied || mem (snd w) known)) writes).

(* the written regions no finding excuses: for these the frame theorem applies *)
Definition clone_sound_writes (writes : list (string * string)) (known : list string) : list string :=
  map fst (filter (fun w => negb (mem (snd w) known)) writes).
