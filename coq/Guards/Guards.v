(* Guard lemmas for C15: the bounds-check forms the back ends emit keep every
   dynamically indexed access inside the object, for EVERY 32-bit index.
   Indices and lengths are 32-bit patterns (Base/Bits32). *)
From Coq Require Import ZArith List Lia Bool.
Import ListNotations.
Require Import Naga.Base.Bits32.
Open Scope Z_scope.

(* 'restrict' policy: index := min(index, len - 1) as unsigned numbers *)
Definition restrict_index (i len : Z) : Z := min_u32 i (len - 1).

Lemma restrict_in_bounds i len : in32 i -> 0 < len -> 0 <= restrict_index i len < len.
Proof.
  unfold restrict_index, min_u32, lt_u32, in32. intros Hi Hl.
  destruct (Z.ltb_spec (len - 1) i); lia.
Qed.

Lemma restrict_identity i len : 0 <= i < len -> restrict_index i len = i.
Proof. unfold restrict_index, min_u32, lt_u32. intros H. destruct (Z.ltb_spec (len - 1) i); lia. Qed.

(* a signed index reinterpreted as unsigned: negative values become huge and are clamped too *)
Lemma restrict_negative_clamped i len :
  in32 i -> 0 < len -> len <= H32 -> sgn i < 0 -> restrict_index i len = len - 1.
Proof.
  unfold restrict_index, min_u32, lt_u32, sgn, in32, H32, M32. intros Hi Hl Hlen Hneg.
  destruct (Z.ltb_spec i 2147483648); [lia|].
  destruct (Z.ltb_spec (len - 1) i); lia.
Qed.

(* 'read-zero-skip-write' policy *)
Definition rzsw_read {A} (zero : A) (a : list A) (i : Z) : A :=
  if (0 <=? i) && (i <? Z.of_nat (length a)) then nth (Z.to_nat i) a zero else zero.

Definition rzsw_write {A} (a : list A) (i : Z) (v : A) : list A :=
  if (0 <=? i) && (i <? Z.of_nat (length a))
  then firstn (Z.to_nat i) a ++ v :: skipn (S (Z.to_nat i)) a
  else a.

Lemma rzsw_read_in {A} (zero : A) a i :
  0 <= i < Z.of_nat (length a) -> rzsw_read zero a i = nth (Z.to_nat i) a zero.
Proof.
  unfold rzsw_read. intros H.
  destruct (Z.leb_spec 0 i); [|lia]. destruct (Z.ltb_spec i (Z.of_nat (length a))); [reflexivity|lia].
Qed.

Lemma rzsw_read_out {A} (zero : A) a i :
  ~ (0 <= i < Z.of_nat (length a)) -> rzsw_read zero a i = zero.
Proof.
  unfold rzsw_read. intros H.
  destruct (Z.leb_spec 0 i); destruct (Z.ltb_spec i (Z.of_nat (length a))); try reflexivity; lia.
Qed.

Lemma rzsw_write_out {A} (a : list A) i v :
  ~ (0 <= i < Z.of_nat (length a)) -> rzsw_write a i v = a.
Proof.
  unfold rzsw_write. intros H.
  destruct (Z.leb_spec 0 i); destruct (Z.ltb_spec i (Z.of_nat (length a))); try reflexivity; lia.
Qed.

Lemma rzsw_write_length {A} (a : list A) i v : length (rzsw_write a i v) = length a.
Proof.
  unfold rzsw_write.
  destruct (Z.leb_spec 0 i); destruct (Z.ltb_spec i (Z.of_nat (length a))); cbn [andb]; try reflexivity.
  rewrite app_length, firstn_length. cbn [length]. rewrite skipn_length. lia.
Qed.

Lemma nth_firstn_lt {A} (d : A) : forall (a : list A) n j, (j < n)%nat -> nth j (firstn n a) d = nth j a d.
Proof.
  induction a as [|x a IH]; intros n j H; [destruct n, j; reflexivity|].
  destruct n; [lia|]. destruct j; [reflexivity|]. cbn. apply IH. lia.
Qed.

Lemma nth_skipn_add {A} (d : A) : forall (a : list A) n k, nth k (skipn n a) d = nth (n + k) a d.
Proof.
  induction a as [|x a IH]; intros n k; [destruct n, k; reflexivity|].
  destruct n; [reflexivity|]. cbn. apply IH.
Qed.

(* the only element a guarded write changes is element i *)
Lemma rzsw_write_frame {A} (zero : A) (a : list A) i v j :
  j <> Z.to_nat i -> nth j (rzsw_write a i v) zero = nth j a zero.
Proof.
  unfold rzsw_write. intros Hj.
  destruct (Z.leb_spec 0 i); destruct (Z.ltb_spec i (Z.of_nat (length a))); cbn [andb]; try reflexivity.
  set (n := Z.to_nat i) in *. assert (Hn : (n < length a)%nat) by (subst n; lia).
  destruct (Nat.lt_ge_cases j n) as [Hlt|Hge].
  - rewrite app_nth1 by (rewrite firstn_length; lia). apply nth_firstn_lt. exact Hlt.
  - rewrite app_nth2 by (rewrite firstn_length; lia). rewrite firstn_length.
    replace (Nat.min n (length a)) with n by lia.
    destruct (j - n)%nat as [|k] eqn:E; [lia|]. cbn [nth].
    rewrite nth_skipn_add. f_equal. lia.
Qed.

(* runtime-sized array at byte [offset] of a buffer of [bytes] bytes with element [stride]:
   the length expression (bytes - offset) / stride never lets an element cross the end *)
Definition runtime_len (bytes offset stride : Z) : Z := (bytes - offset) / stride.

Lemma runtime_len_in_buffer bytes offset stride i :
  0 < stride -> 0 <= offset <= bytes -> 0 <= i < runtime_len bytes offset stride ->
  offset + i * stride + stride <= bytes.
Proof.
  unfold runtime_len. intros Hs Ho Hi.
  assert (H : stride * ((bytes - offset) / stride) <= bytes - offset) by (apply Z.mul_div_le; lia).
  nia.
Qed.

Lemma runtime_len_maximal bytes offset stride :
  0 < stride -> 0 <= offset <= bytes ->
  bytes < offset + (runtime_len bytes offset stride + 1) * stride.
Proof.
  unfold runtime_len. intros Hs Ho.
  pose proof (Z.mod_pos_bound (bytes - offset) stride Hs) as Hm.
  pose proof (Z.div_mod (bytes - offset) stride ltac:(lia)) as Hd.
  nia.
Qed.

(* workgroup zero-initialisation by a strided loop: invocation [lid] of [n] clears elements
   lid, lid + n, lid + 2n, ... ; together the n invocations clear every element exactly once *)
Definition cleared_by (n lid len j : Z) : Prop := 0 <= j < len /\ j mod n = lid.

Lemma zero_init_covers n len j :
  0 < n -> 0 <= j < len -> exists lid, 0 <= lid < n /\ cleared_by n lid len j.
Proof.
  intros Hn Hj. exists (j mod n). split; [apply Z.mod_pos_bound; lia|]. split; [exact Hj | reflexivity].
Qed.

Lemma zero_init_disjoint n len j l1 l2 : cleared_by n l1 len j -> cleared_by n l2 len j -> l1 = l2.
Proof. intros [_ H1] [_ H2]. lia. Qed.

(* ---- MSL, ReadZeroSkipWrite / Restrict on a runtime-sized storage array ----
   naga emits (msl/internal/codegen/expressions.go, writeRuntimeArrayMaxIndex / buildRZSWBoundsCheck)
       uint(i) < 1 + (_buffer_sizes.sizeN - offset - elemSize) / stride
   in C++ unsigned 32-bit arithmetic.  Element i of the array occupies the bytes
   [offset + i*stride, offset + i*stride + elemSize) of the bound buffer. *)
Definition msl_rt_count (bytes offset esize stride : Z) : Z := 1 + (bytes - offset - esize) / stride.
Definition msl_rt_count_u32 (bytes offset esize stride : Z) : Z :=
  wrap (1 + wrap (wrap (bytes - offset) - esize) / stride).
Definition elem_in_buffer (bytes offset esize stride i : Z) : Prop := offset + i * stride + esize <= bytes.

(* with the STRIDE in the denominator the guard admits exactly the elements that lie inside the buffer,
   for all sizes / offsets / element sizes / strides *)
Lemma msl_rt_guard_exact bytes offset esize stride i :
  0 < stride -> 0 < esize -> 0 <= offset -> offset + esize <= bytes -> 0 <= i ->
  (i < msl_rt_count bytes offset esize stride <-> elem_in_buffer bytes offset esize stride i).
Proof.
  unfold msl_rt_count, elem_in_buffer. intros Hs He Ho Hb Hi.
  set (a := bytes - offset - esize). assert (Ha : 0 <= a) by (subst a; lia).
  pose proof (Z.div_mod a stride ltac:(lia)) as Hd.
  pose proof (Z.mod_pos_bound a stride Hs) as Hm.
  assert (Hq : 0 <= a / stride) by (apply Z.div_pos; lia).
  split; intros H.
  - assert (i <= a / stride) by lia. assert (i * stride <= (a / stride) * stride) by nia. subst a. nia.
  - assert (i * stride <= a) by (subst a; lia).
    destruct (Z_lt_le_dec i (1 + a / stride)) as [|Hge]; [assumption|exfalso].
    assert ((1 + a / stride) * stride <= i * stride) by nia. nia.
Qed.

(* the unsigned 32-bit computation is the mathematical one as long as the buffer holds one element
   (WebGPU's minimum-binding-size validation) and its size is a 32-bit number *)
Lemma msl_rt_count_u32_exact bytes offset esize stride :
  0 < stride -> 0 < esize -> 0 <= offset -> offset + esize <= bytes -> bytes < M32 ->
  msl_rt_count_u32 bytes offset esize stride = msl_rt_count bytes offset esize stride.
Proof.
  unfold msl_rt_count_u32, msl_rt_count, wrap, M32. intros Hs He Ho Hb Hlt.
  rewrite (Z.mod_small (bytes - offset)) by lia.
  rewrite (Z.mod_small (bytes - offset - esize)) by lia.
  set (a := bytes - offset - esize). assert (Ha : 0 <= a < 4294967296) by (subst a; lia).
  assert (Hq : 0 <= a / stride <= a).
  { split; [apply Z.div_pos; lia|]. apply Z.div_le_upper_bound; [lia|]. nia. }
  apply Z.mod_small. lia.
Qed.

(* buffers made of whole strides (the WGSL view): the count is arrayLength = (bytes - offset) / stride *)
Lemma msl_rt_count_whole_strides bytes offset esize stride :
  0 < stride -> 0 < esize <= stride -> 0 <= offset -> offset + esize <= bytes -> (bytes - offset) mod stride = 0 ->
  msl_rt_count bytes offset esize stride = runtime_len bytes offset stride.
Proof.
  unfold msl_rt_count, runtime_len. intros Hs He Ho Hb Hm.
  pose proof (Z.div_mod (bytes - offset) stride ltac:(lia)) as Hd. rewrite Hm in Hd.
  set (k := (bytes - offset) / stride) in *.
  assert (Hk : 1 <= k) by nia.
  replace (bytes - offset - esize) with ((k - 1) * stride + (stride - esize)) by lia.
  rewrite Z.div_add_l by lia. rewrite (Z.div_small (stride - esize) stride) by lia. lia.
Qed.

(* Restrict on the same array: min(i, count - 1) is an element inside the buffer, for every 32-bit index *)
Lemma msl_rt_restrict_in_buffer bytes offset esize stride i :
  0 < stride -> 0 < esize -> 0 <= offset -> offset + esize <= bytes -> in32 i ->
  elem_in_buffer bytes offset esize stride (restrict_index i (msl_rt_count bytes offset esize stride)).
Proof.
  intros Hs He Ho Hb Hi.
  assert (Hc : 0 < msl_rt_count bytes offset esize stride).
  { unfold msl_rt_count. assert (0 <= (bytes - offset - esize) / stride) by (apply Z.div_pos; lia). lia. }
  pose proof (restrict_in_bounds i _ Hi Hc) as Hr.
  apply msl_rt_guard_exact; lia.
Qed.

(* the variant with the ELEMENT SIZE in the denominator (a plausible slip: both numbers are at hand) admits an
   element outside the buffer as soon as elemSize < stride: array<vec3<f32>>, 48 bytes = 3 elements, index 3 *)
Definition msl_rt_count_esize_denominator (bytes offset esize stride : Z) : Z := 1 + (bytes - offset - esize) / esize.

Lemma msl_rt_guard_esize_denominator_refuted :
  exists bytes offset esize stride i,
    0 < stride /\ 0 < esize <= stride /\ 0 <= offset /\ offset + esize <= bytes /\ (bytes - offset) mod stride = 0 /\ 0 <= i /\
    i < msl_rt_count_esize_denominator bytes offset esize stride /\ ~ elem_in_buffer bytes offset esize stride i.
Proof. exists 48, 0, 12, 16, 3. unfold msl_rt_count_esize_denominator, elem_in_buffer. cbn. lia. Qed.

(* the guard relies on the binding holding at least one element: below that the unsigned subtraction wraps
   and the guard admits (almost) every index *)
Lemma msl_rt_guard_needs_min_binding_size :
  exists bytes offset esize stride i,
    0 < stride /\ 0 < esize <= stride /\ 0 <= offset /\ 0 <= bytes < offset + esize /\ in32 i /\
    i < msl_rt_count_u32 bytes offset esize stride /\ ~ elem_in_buffer bytes offset esize stride i.
Proof. exists 0, 0, 4, 4, 5. unfold msl_rt_count_u32, elem_in_buffer, wrap, in32, M32. cbn. lia. Qed.

(* ---- which module-scope variables does an entry point use?  (workgroup zero-initialisation, SPIR-V:
   collectUsedGlobalVars / collectGlobalVarsFromStatements in spirv/internal/codegen/backend.go)
   Statements as a tree: sequence, alternative (if / switch arms), loop with body and continuing block,
   a reference to global g, a call of function f.  [uses n] = g is referenced by code reachable through at most n
   nested calls; [collect n] = the walk that descends into every sub-statement and every callee. *)
Inductive cstmt :=
| CSkip | CRef (g : nat) | CCall (f : nat) | CSeq (a b : cstmt) | CAlt (a b : cstmt) | CLoop (body continuing : cstmt).

Section Collect.
Variable funcs : nat -> cstmt.

Inductive uses : nat -> cstmt -> nat -> Prop :=
| u_ref n g : uses n (CRef g) g
| u_call n f g : uses n (funcs f) g -> uses (S n) (CCall f) g
| u_seq_l n a b g : uses n a g -> uses n (CSeq a b) g
| u_seq_r n a b g : uses n b g -> uses n (CSeq a b) g
| u_alt_l n a b g : uses n a g -> uses n (CAlt a b) g
| u_alt_r n a b g : uses n b g -> uses n (CAlt a b) g
| u_loop_body n a b g : uses n a g -> uses n (CLoop a b) g
| u_loop_continuing n a b g : uses n b g -> uses n (CLoop a b) g.

Fixpoint collect_stmt (rec : cstmt -> list nat) (s : cstmt) : list nat :=
  match s with
  | CSkip => []
  | CRef g => [g]
  | CCall f => rec (funcs f)
  | CSeq a b | CAlt a b | CLoop a b => collect_stmt rec a ++ collect_stmt rec b
  end.

Fixpoint collect (n : nat) (s : cstmt) : list nat :=
  match n with
  | O => collect_stmt (fun _ => []) s
  | S n' => collect_stmt (collect n') s
  end.

(* the walk that forgets the continuing block *)
Fixpoint collect_stmt_no_continuing (rec : cstmt -> list nat) (s : cstmt) : list nat :=
  match s with
  | CSkip => []
  | CRef g => [g]
  | CCall f => rec (funcs f)
  | CSeq a b | CAlt a b => collect_stmt_no_continuing rec a ++ collect_stmt_no_continuing rec b
  | CLoop a _ => collect_stmt_no_continuing rec a
  end.

Fixpoint collect_no_continuing (n : nat) (s : cstmt) : list nat :=
  match n with
  | O => collect_stmt_no_continuing (fun _ => []) s
  | S n' => collect_stmt_no_continuing (collect_no_continuing n') s
  end.

Lemma collect_stmt_complete (rec : cstmt -> list nat) n :
  (forall f g, uses n (funcs f) g -> In g (rec (funcs f))) ->
  forall s g, uses (S n) s g -> In g (collect_stmt rec s).
Proof.
  intros Hrec s. induction s as [| g0 | f | a IHa b IHb | a IHa b IHb | a IHa b IHb]; intros g Hu; cbn [collect_stmt].
  - inversion Hu.
  - inversion Hu; subst. left. reflexivity.
  - inversion Hu; subst. apply Hrec. assumption.
  - apply in_or_app. inversion Hu; subst; [left; apply IHa | right; apply IHb]; auto.
  - apply in_or_app. inversion Hu; subst; [left; apply IHa | right; apply IHb]; auto.
  - apply in_or_app. inversion Hu; subst; [left; apply IHa | right; apply IHb]; auto.
Qed.

Lemma collect_zero_complete s g : uses O s g -> In g (collect O s).
Proof.
  induction s as [| g0 | f | a IHa b IHb | a IHa b IHb | a IHa b IHb]; intros Hu; cbn [collect collect_stmt].
  - inversion Hu.
  - inversion Hu; subst. left. reflexivity.
  - inversion Hu.
  - apply in_or_app. inversion Hu; subst; [left; apply IHa | right; apply IHb]; assumption.
  - apply in_or_app. inversion Hu; subst; [left; apply IHa | right; apply IHb]; assumption.
  - apply in_or_app. inversion Hu; subst; [left; apply IHa | right; apply IHb]; assumption.
Qed.

(* every variable used through at most n nested calls is collected: in particular the ones referenced only from a
   function called only from a continuing block *)
Theorem collect_complete : forall n s g, uses n s g -> In g (collect n s).
Proof.
  induction n as [|n IH]; intros s g Hu; [apply collect_zero_complete; assumption|].
  cbn [collect]. apply (collect_stmt_complete (collect n) n); [| assumption].
  intros f g' H. apply IH. assumption.
Qed.
End Collect.

(* the walk without the continuing block misses a variable: `loop { ... continuing { i = advance(i); } }`
   with advance() the only user of global 7 *)
Lemma collect_no_continuing_refuted :
  exists funcs n s g, uses funcs n s g /\ ~ In g (collect_no_continuing funcs n s).
Proof.
  exists (fun _ => CRef 7%nat), 1%nat, (CLoop CSkip (CCall 0%nat)), 7%nat. split.
  - apply u_loop_continuing. apply u_call. apply u_ref.
  - cbn. intros H. exact H.
Qed.
