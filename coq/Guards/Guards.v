(* Guard lemmas for C15: the bounds-check forms the back ends emit keep every
   dynamically indexed access inside the object, for EVERY 32-bit index.
   Indices and lengths are 32-bit patterns (Base/Bits32). *)
From Coq Require Import ZArith List Lia Bool.
Import ListNotations.
Require Import Naga.Base.Bits32.
Open Scope Z_scope.

(* 'restrict' policy: index := min(index, len - 1) as unsigned numbers *)
Definition restrict_index (i len : Z) : Z := min_u32 i (len - 1).

Lemma restrict_in_bounds i len : in32 i -> 0 < len -> 0 <= restrict_index i len < len.
Proof.
  unfold restrict_index, min_u32, lt_u32, in32. intros Hi Hl.
  destruct (Z.ltb_spec (len - 1) i); lia.
Qed.

Lemma restrict_identity i len : 0 <= i < len -> restrict_index i len = i.
Proof. unfold restrict_index, min_u32, lt_u32. intros H. destruct (Z.ltb_spec (len - 1) i); lia. Qed.

(* a signed index reinterpreted as unsigned: negative values become huge and are clamped too *)
Lemma restrict_negative_clamped i len :
  in32 i -> 0 < len -> len <= H32 -> sgn i < 0 -> restrict_index i len = len - 1.
Proof.
  unfold restrict_index, min_u32, lt_u32, sgn, in32, H32, M32. intros Hi Hl Hlen Hneg.
  destruct (Z.ltb_spec i 2147483648); [lia|].
  destruct (Z.ltb_spec (len - 1) i); lia.
Qed.

(* 'read-zero-skip-write' policy *)
Definition rzsw_read {A} (zero : A) (a : list A) (i : Z) : A :=
  if (0 <=? i) && (i <? Z.of_nat (length a)) then nth (Z.to_nat i) a zero else zero.

Definition rzsw_write {A} (a : list A) (i : Z) (v : A) : list A :=
  if (0 <=? i) && (i <? Z.of_nat (length a))
  then firstn (Z.to_nat i) a ++ v :: skipn (S (Z.to_nat i)) a
  else a.

Lemma rzsw_read_in {A} (zero : A) a i :
  0 <= i < Z.of_nat (length a) -> rzsw_read zero a i = nth (Z.to_nat i) a zero.
Proof.
  unfold rzsw_read. intros H.
  destruct (Z.leb_spec 0 i); [|lia]. destruct (Z.ltb_spec i (Z.of_nat (length a))); [reflexivity|lia].
Qed.

Lemma rzsw_read_out {A} (zero : A) a i :
  ~ (0 <= i < Z.of_nat (length a)) -> rzsw_read zero a i = zero.
Proof.
  unfold rzsw_read. intros H.
  destruct (Z.leb_spec 0 i); destruct (Z.ltb_spec i (Z.of_nat (length a))); try reflexivity; lia.
Qed.

Lemma rzsw_write_out {A} (a : list A) i v :
  ~ (0 <= i < Z.of_nat (length a)) -> rzsw_write a i v = a.
Proof.
  unfold rzsw_write. intros H.
  destruct (Z.leb_spec 0 i); destruct (Z.ltb_spec i (Z.of_nat (length a))); try reflexivity; lia.
Qed.

Lemma rzsw_write_length {A} (a : list A) i v : length (rzsw_write a i v) = length a.
Proof.
  unfold rzsw_write.
  destruct (Z.leb_spec 0 i); destruct (Z.ltb_spec i (Z.of_nat (length a))); cbn [andb]; try reflexivity.
  rewrite app_length, firstn_length. cbn [length]. rewrite skipn_length. lia.
Qed.

Lemma nth_firstn_lt {A} (d : A) : forall (a : list A) n j, (j < n)%nat -> nth j (firstn n a) d = nth j a d.
Proof.
  induction a as [|x a IH]; intros n j H; [destruct n, j; reflexivity|].
  destruct n; [lia|]. destruct j; [reflexivity|]. cbn. apply IH. lia.
Qed.

Lemma nth_skipn_add {A} (d : A) : forall (a : list A) n k, nth k (skipn n a) d = nth (n + k) a d.
Proof.
  induction a as [|x a IH]; intros n k; [destruct n, k; reflexivity|].
  destruct n; [reflexivity|]. cbn. apply IH.
Qed.

(* the only element a guarded write changes is element i *)
Lemma rzsw_write_frame {A} (zero : A) (a : list A) i v j :
  j <> Z.to_nat i -> nth j (rzsw_write a i v) zero = nth j a zero.
Proof.
  unfold rzsw_write. intros Hj.
  destruct (Z.leb_spec 0 i); destruct (Z.ltb_spec i (Z.of_nat (length a))); cbn [andb]; try reflexivity.
  set (n := Z.to_nat i) in *. assert (Hn : (n < length a)%nat) by (subst n; lia).
  destruct (Nat.lt_ge_cases j n) as [Hlt|Hge].
  - rewrite app_nth1 by (rewrite firstn_length; lia). apply nth_firstn_lt. exact Hlt.
  - rewrite app_nth2 by (rewrite firstn_length; lia). rewrite firstn_length.
    replace (Nat.min n (length a)) with n by lia.
    destruct (j - n)%nat as [|k] eqn:E; [lia|]. cbn [nth].
    rewrite nth_skipn_add. f_equal. lia.
Qed.

(* runtime-sized array at byte [offset] of a buffer of [bytes] bytes with element [stride]:
   the length expression (bytes - offset) / stride never lets an element cross the end *)
Definition runtime_len (bytes offset stride : Z) : Z := (bytes - offset) / stride.

Lemma runtime_len_in_buffer bytes offset stride i :
  0 < stride -> 0 <= offset <= bytes -> 0 <= i < runtime_len bytes offset stride ->
  offset + i * stride + stride <= bytes.
Proof.
  unfold runtime_len. intros Hs Ho Hi.
  assert (H : stride * ((bytes - offset) / stride) <= bytes - offset) by (apply Z.mul_div_le; lia).
  nia.
Qed.

Lemma runtime_len_maximal bytes offset stride :
  0 < stride -> 0 <= offset <= bytes ->
  bytes < offset + (runtime_len bytes offset stride + 1) * stride.
Proof.
  unfold runtime_len. intros Hs Ho.
  pose proof (Z.mod_pos_bound (bytes - offset) stride Hs) as Hm.
  pose proof (Z.div_mod (bytes - offset) stride ltac:(lia)) as Hd.
  nia.
Qed.

(* workgroup zero-initialisation by a strided loop: invocation [lid] of [n] clears elements
   lid, lid + n, lid + 2n, ... ; together the n invocations clear every element exactly once *)
Definition cleared_by (n lid len j : Z) : Prop := 0 <= j < len /\ j mod n = lid.

Lemma zero_init_covers n len j :
  0 < n -> 0 <= j < len -> exists lid, 0 <= lid < n /\ cleared_by n lid len j.
Proof.
  intros Hn Hj. exists (j mod n). split; [apply Z.mod_pos_bound; lia|]. split; [exact Hj | reflexivity].
Qed.

Lemma zero_init_disjoint n len j l1 l2 : cleared_by n l1 len j -> cleared_by n l2 len j -> l1 = l2.
Proof. intros [_ H1] [_ H2]. lia. Qed.
