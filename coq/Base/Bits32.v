(* 32-bit machine integers as unbounded Z with the wrap written explicitly, and
   the WGSL run-time meaning of every integer/bit operator and builtin
   (WGSL spec, "Arithmetic Expressions", "Bit Expressions", "Integer Built-in
   Functions").  A 32-bit value (i32 or u32) is represented by its bit pattern:
   a Z in [0, 2^32); [sgn] gives the signed reading.  This file is the single
   definition of "what WGSL says" shared by C01/C03-06/C13-15. *)
From Coq Require Import ZArith Bool List Lia.
Import ListNotations.
Open Scope Z_scope.

Definition M32 : Z := 4294967296.            (* 2^32 *)
Definition H32 : Z := 2147483648.            (* 2^31 *)

Definition wrap (z : Z) : Z := z mod M32.
Definition sgn (u : Z) : Z := if u <? H32 then u else u - M32.   (* bit pattern -> signed value *)
Definition in32 (u : Z) : Prop := 0 <= u < M32.
Definition in32b (u : Z) : bool := (0 <=? u) && (u <? M32).

Definition INT_MIN_BITS : Z := H32.          (* 0x80000000 *)
Definition ALL_ONES : Z := M32 - 1.

(* ---- arithmetic (both signednesses share add/sub/mul on bit patterns) ---- *)
Definition add32 a b := wrap (a + b).
Definition sub32 a b := wrap (a - b).
Definition mul32 a b := wrap (a * b).
Definition neg32 a := wrap (- a).

(* WGSL: e1 / e2 for i32: e2 = 0 -> e1; e1 = MIN and e2 = -1 -> e1; else truncated quotient *)
Definition div_i32 a b :=
  if b =? 0 then a
  else if (a =? INT_MIN_BITS) && (b =? ALL_ONES) then a
  else wrap (Z.quot (sgn a) (sgn b)).
Definition div_u32 a b := if b =? 0 then a else a / b.

(* WGSL: e1 % e2 for i32: e2 = 0 -> 0; MIN % -1 -> 0; else remainder with the sign of e1 *)
Definition rem_i32 a b :=
  if b =? 0 then 0
  else if (a =? INT_MIN_BITS) && (b =? ALL_ONES) then 0
  else wrap (Z.rem (sgn a) (sgn b)).
Definition rem_u32 a b := if b =? 0 then 0 else a mod b.

(* ---- bitwise ---- *)
Definition not32 a := ALL_ONES - a.
Definition and32 a b := Z.land a b.
Definition or32 a b := Z.lor a b.
Definition xor32 a b := Z.lxor a b.

(* WGSL run-time shifts: the shift amount is taken modulo the bit width *)
Definition shl32 a b := wrap (Z.shiftl a (b mod 32)).
Definition shr_u32 a b := Z.shiftr a (b mod 32).
Definition shr_i32 a b := wrap (Z.shiftr (sgn a) (b mod 32)).

(* ---- comparisons ---- *)
Definition lt_i32 a b := sgn a <? sgn b.
Definition le_i32 a b := sgn a <=? sgn b.
Definition lt_u32 (a b : Z) := a <? b.
Definition le_u32 (a b : Z) := a <=? b.

(* ---- integer builtins ---- *)
Definition abs_i32 a := if sgn a <? 0 then neg32 a else a.      (* abs(MIN) = MIN *)
Definition min_i32 a b := if lt_i32 b a then b else a.
Definition max_i32 a b := if lt_i32 a b then b else a.
Definition min_u32 a b := if lt_u32 b a then b else a.
Definition max_u32 a b := if lt_u32 a b then b else a.
Definition clamp_i32 e lo hi := min_i32 (max_i32 e lo) hi.
Definition clamp_u32 e lo hi := min_u32 (max_u32 e lo) hi.
Definition sign_i32 a := if sgn a <? 0 then ALL_ONES else if a =? 0 then 0 else 1.

Fixpoint popcount_nat (n : nat) (a : Z) : Z :=
  match n with O => 0 | S n' => (if Z.testbit a (Z.of_nat n') then 1 else 0) + popcount_nat n' a end.
Definition count_one_bits a := popcount_nat 32 a.

(* number of leading zero bits of a 32-bit pattern (32 for 0) *)
Fixpoint clz_nat (n : nat) (a : Z) : Z :=
  match n with
  | O => 0
  | S n' => if Z.testbit a (Z.of_nat n') then 0 else 1 + clz_nat n' a
  end.
Definition count_leading_zeros a := clz_nat 32 a.

Fixpoint ctz_from (fuel : nat) (i : Z) (a : Z) : Z :=
  match fuel with
  | O => 32
  | S f => if Z.testbit a i then i else ctz_from f (i + 1) a
  end.
Definition count_trailing_zeros a := ctz_from 32 0 a.

Fixpoint reverse_nat (n : nat) (a : Z) : Z :=
  match n with
  | O => 0
  | S n' => (if Z.testbit a (Z.of_nat n') then Z.shiftl 1 (31 - Z.of_nat n') else 0) + reverse_nat n' a
  end.
Definition reverse_bits a := reverse_nat 32 a.

(* firstLeadingBit: u32: index of the most significant 1 bit, all-ones (-1) for 0;
   i32: for negative e, the most significant 0 bit; -1 for 0 and -1 *)
Definition first_leading_bit_u32 a := if a =? 0 then ALL_ONES else 31 - count_leading_zeros a.
Definition first_leading_bit_i32 a :=
  if (a =? 0) || (a =? ALL_ONES) then ALL_ONES
  else if sgn a <? 0 then 31 - count_leading_zeros (not32 a) else 31 - count_leading_zeros a.
Definition first_trailing_bit a := if a =? 0 then ALL_ONES else count_trailing_zeros a.

(* extractBits / insertBits: o = min(offset,32), c = min(count, 32 - o) *)
Definition extract_bits_u32 e offset count :=
  let o := Z.min offset 32 in let c := Z.min count (32 - o) in
  if c =? 0 then 0 else Z.land (Z.shiftr e o) (Z.ones c).
Definition extract_bits_i32 e offset count :=
  let o := Z.min offset 32 in let c := Z.min count (32 - o) in
  if c =? 0 then 0
  else let v := Z.land (Z.shiftr e o) (Z.ones c) in
       if Z.testbit v (c - 1) then wrap (v - Z.shiftl 1 c) else v.
Definition insert_bits e newbits offset count :=
  let o := Z.min offset 32 in let c := Z.min count (32 - o) in
  if c =? 0 then e
  else let mask := wrap (Z.shiftl (Z.ones c) o) in
       Z.lor (Z.land e (not32 mask)) (Z.land (wrap (Z.shiftl newbits o)) mask).

(* ---- conversions between integer kinds and bool ---- *)
Definition i32_of_u32 (a : Z) := a.          (* value conversion = reinterpretation of the bits *)
Definition u32_of_i32 (a : Z) := a.
Definition u32_of_bool (b : bool) := if b then 1 else 0.
Definition bool_of_32 (a : Z) := negb (a =? 0).

(* ---- basic facts ---- *)
Lemma wrap_in32 z : in32 (wrap z).
Proof. unfold in32, wrap, M32. apply Z.mod_pos_bound. lia. Qed.

Lemma wrap_id u : in32 u -> wrap u = u.
Proof. unfold in32, wrap. intros H. apply Z.mod_small. exact H. Qed.

Lemma sgn_range u : in32 u -> - H32 <= sgn u < H32.
Proof. unfold in32, sgn, M32, H32. intros H. destruct (Z.ltb_spec u 2147483648); lia. Qed.

Lemma wrap_sgn u : in32 u -> wrap (sgn u) = u.
Proof.
  unfold in32, sgn, wrap, M32, H32. intros H. destruct (Z.ltb_spec u 2147483648).
  - apply Z.mod_small. lia.
  - replace (u - 4294967296) with (u + (-1) * 4294967296) by lia. rewrite Z.mod_add by lia. apply Z.mod_small. lia.
Qed.

Lemma sgn_inj a b : in32 a -> in32 b -> sgn a = sgn b -> a = b.
Proof. intros Ha Hb H. rewrite <- (wrap_sgn a Ha), <- (wrap_sgn b Hb), H. reflexivity. Qed.

Lemma add32_in a b : in32 (add32 a b). Proof. apply wrap_in32. Qed.
Lemma sub32_in a b : in32 (sub32 a b). Proof. apply wrap_in32. Qed.
Lemma mul32_in a b : in32 (mul32 a b). Proof. apply wrap_in32. Qed.
Lemma neg32_in a : in32 (neg32 a). Proof. apply wrap_in32. Qed.
Lemma not32_in a : in32 a -> in32 (not32 a).
Proof. unfold in32, not32, ALL_ONES, M32. lia. Qed.

Lemma div_i32_in a b : in32 a -> in32 (div_i32 a b).
Proof. intros Ha. unfold div_i32. destruct (b =? 0); [exact Ha|]. destruct (_ && _); [exact Ha | apply wrap_in32]. Qed.
Lemma rem_i32_in a b : in32 (rem_i32 a b).
Proof. unfold rem_i32. destruct (b =? 0); [unfold in32, M32; lia|]. destruct (_ && _); [unfold in32, M32; lia | apply wrap_in32]. Qed.
Lemma div_u32_in a b : in32 a -> in32 b -> in32 (div_u32 a b).
Proof.
  unfold in32, div_u32, M32. intros Ha Hb. destruct (Z.eqb_spec b 0); [exact Ha|].
  split; [apply Z.div_pos; lia|]. apply Z.le_lt_trans with a; [|lia]. apply Z.div_le_upper_bound; nia.
Qed.
Lemma rem_u32_in a b : in32 a -> in32 b -> in32 (rem_u32 a b).
Proof.
  unfold in32, rem_u32, M32. intros Ha Hb. destruct (Z.eqb_spec b 0); [lia|].
  pose proof (Z.mod_pos_bound a b ltac:(lia)). lia.
Qed.
