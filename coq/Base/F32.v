(* IEEE-754 binary32 on bit patterns, through Flocq (BinarySingleNaN: one NaN,
   which is what WGSL needs - NaN payloads are unspecified).  Every operation
   takes and returns 32-bit patterns (Z in [0,2^32)); NaN results are the
   canonical quiet NaN 0x7FC00000.  Correctly rounded: add sub mul div sqrt fma,
   conversions, floor ceil trunc round(nearest-even); comparisons; min/max. *)
From Coq Require Import ZArith Bool List Lia.
From Flocq Require Import Core.Zaux IEEE754.BinarySingleNaN IEEE754.Bits.
Require Flocq.IEEE754.Binary.
Open Scope Z_scope.

Definition f32 := binary_float 24 128.
Definition QNAN : Z := 2143289344.   (* 0x7FC00000 *)

Lemma prec_gt_0_24 : FLX.Prec_gt_0 24. Proof. reflexivity. Qed.
Lemma prec_lt_emax_24 : Prec_lt_emax 24 128. Proof. reflexivity. Qed.
Global Existing Instance prec_gt_0_24.
Global Existing Instance prec_lt_emax_24.

(* bits -> float, float -> bits *)
Definition of_bits (b : Z) : f32 := Binary.B2BSN 24 128 (b32_of_bits (b mod 4294967296)).
Definition to_bits (x : f32) : Z :=
  match x with
  | B754_nan => QNAN
  | B754_zero s => if s then 2147483648 else 0
  | B754_infinity s => if s then 4286578688 else 2139095040
  | B754_finite s m e _ =>
    let sign := if s then 2147483648 else 0 in
    if Z.pos m <? 8388608 then sign + Z.pos m                        (* subnormal: e = -149 *)
    else sign + (e + 150) * 8388608 + (Z.pos m - 8388608)
  end.

Definition is_nan_bits (b : Z) : bool := match of_bits b with B754_nan => true | _ => false end.
Definition is_inf_bits (b : Z) : bool := match of_bits b with B754_infinity _ => true | _ => false end.

Definition fadd a b := to_bits (Bplus mode_NE (of_bits a) (of_bits b)).
Definition fsub a b := to_bits (Bminus mode_NE (of_bits a) (of_bits b)).
Definition fmul a b := to_bits (Bmult mode_NE (of_bits a) (of_bits b)).
Definition fdiv a b := to_bits (Bdiv mode_NE (of_bits a) (of_bits b)).
Definition fsqrt a := to_bits (Bsqrt mode_NE (of_bits a)).
Definition ffma a b c := to_bits (Bfma mode_NE (of_bits a) (of_bits b) (of_bits c)).
Definition fneg a := to_bits (Bopp (of_bits a)).
Definition fabs a := to_bits (Babs (of_bits a)).
Definition ffloor a := to_bits (Bnearbyint mode_DN (of_bits a)).
Definition fceil a := to_bits (Bnearbyint mode_UP (of_bits a)).
Definition ftrunc a := to_bits (Bnearbyint mode_ZR (of_bits a)).
Definition fround a := to_bits (Bnearbyint mode_NE (of_bits a)).     (* WGSL round: ties to even *)

Definition feq a b := Beqb (of_bits a) (of_bits b).
Definition flt a b := Bltb (of_bits a) (of_bits b).
Definition fle a b := Bleb (of_bits a) (of_bits b).
Definition fne a b := negb (feq a b).                                (* true when unordered *)
Definition fgt a b := flt b a.
Definition fge a b := fle b a.

(* WGSL min/max: if one operand is NaN the result is implementation-chosen among
   the operands; we take the non-NaN one (what SPIR-V NMin/NMax and HLSL/MSL do) *)
Definition fmin a b := if is_nan_bits a then b else if is_nan_bits b then a else if flt b a then b else a.
Definition fmax a b := if is_nan_bits a then b else if is_nan_bits b then a else if flt a b then b else a.

(* conversions *)
Definition f32_of_z (z : Z) : Z := to_bits (binary_normalize 24 128 _ _ mode_NE z 0 false).
(* WGSL f32 -> i32/u32: truncate toward zero, clamp to the target range, NaN -> 0 *)
Definition z_of_f32_trunc (a : Z) : option Z :=
  match of_bits a with
  | B754_nan => None
  | B754_infinity s => None
  | B754_zero _ => Some 0
  | B754_finite s m e _ => Some (cond_Zopp s (if 0 <=? e then Z.pos m * 2 ^ e else Z.pos m / 2 ^ (- e)))
  end.
Definition i32_of_f32 (a : Z) : Z :=
  match of_bits a with
  | B754_nan => 0
  | B754_infinity s => if s then 2147483648 else 2147483647
  | _ => match z_of_f32_trunc a with
         | Some z => (Z.max (-2147483648) (Z.min 2147483647 z)) mod 4294967296
         | None => 0
         end
  end.
Definition u32_of_f32 (a : Z) : Z :=
  match of_bits a with
  | B754_nan => 0
  | B754_infinity s => if s then 0 else 4294967295
  | _ => match z_of_f32_trunc a with
         | Some z => Z.max 0 (Z.min 4294967295 z)
         | None => 0
         end
  end.
Definition f32_of_i32 (bits : Z) : Z := f32_of_z (if bits <? 2147483648 then bits else bits - 4294967296).
Definition f32_of_u32 (bits : Z) : Z := f32_of_z bits.
