(* A generic JSON-like tree: the wire format between the Go/Python harness and
   every extracted Coq tool.  Numbers are integers (floats travel as bit
   patterns).  Each extracted tool exposes  entry : json -> json. *)
From Coq Require Import List ZArith String Bool.
Import ListNotations.
Open Scope Z_scope.

Inductive json :=
| JNull
| JBool (b : bool)
| JNum (z : Z)
| JStr (s : string)
| JArr (l : list json)
| JObj (fields : list (string * json)).

Fixpoint assoc (k : string) (l : list (string * json)) : option json :=
  match l with
  | [] => None
  | (k', v) :: l' => if String.eqb k k' then Some v else assoc k l'
  end.

Definition field (k : string) (j : json) : option json :=
  match j with JObj fs => assoc k fs | _ => None end.

Definition as_num (j : json) : option Z := match j with JNum z => Some z | _ => None end.
Definition as_bool (j : json) : option bool := match j with JBool b => Some b | _ => None end.
Definition as_str (j : json) : option string := match j with JStr s => Some s | _ => None end.
Definition as_arr (j : json) : option (list json) := match j with JArr l => Some l | _ => None end.

Definition field_num k j := match field k j with Some v => as_num v | None => None end.
Definition field_bool k j := match field k j with Some v => as_bool v | None => None end.
Definition field_str k j := match field k j with Some v => as_str v | None => None end.
Definition field_arr k j := match field k j with Some v => as_arr v | None => None end.

(* Go reflection dump: {"_t": "TypeName", ...} *)
Definition tag (j : json) : option string := field_str "_t" j.

Fixpoint map_opt {A B} (f : A -> option B) (l : list A) : option (list B) :=
  match l with
  | [] => Some []
  | x :: l' => match f x, map_opt f l' with Some y, Some ys => Some (y :: ys) | _, _ => None end
  end.

Definition nums (j : json) : option (list Z) :=
  match j with JArr l => map_opt as_num l | _ => None end.

Definition jnums (l : list Z) : json := JArr (map JNum l).
Definition jstrs (l : list string) : json := JArr (map JStr l).
