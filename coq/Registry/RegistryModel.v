(* C09: model of internal/registry/registry.go -- TypeRegistry.GetOrCreate and its key
   normalisation (buildKey / appendTypeKey).  Keys are modelled at TOKEN level: the Go code
   appends literal separators, decimal numbers (strconv.AppendInt/AppendUint) and names to a
   byte buffer; here a key is the list of those pieces.  (Byte-level unambiguity -- decimal
   digits and WGSL identifiers never contain the separators ':' ',' ')' -- is assumed, not
   proved.)  Struct member BINDINGS are not part of the key (as in the Go code);
   ValuePointer types fall into the Go `default:` branch whose key ignores every field;
   image-class types are carried as a bare tag by IR/Syntax.v.  SetName/Append (used only
   for aliases of ray-query/acceleration-structure types) are not modelled. *)
From Coq Require Import List ZArith String Bool.
Import ListNotations.
Require Import Naga.IR.Syntax.
Open Scope string_scope.
Open Scope Z_scope.

Inductive tok := KSym (s : string) | KNum (z : Z) | KStr (s : string).

Definition tok_eq_dec : forall a b : tok, {a = b} + {a <> b}.
Proof. decide equality; try apply string_dec; apply Z.eq_dec. Defined.

Definition key := list tok.
Definition key_eq_dec : forall a b : key, {a = b} + {a <> b} := list_eq_dec tok_eq_dec.

Definition kind_num (k : scalar_kind) : Z :=
  match k with Sint => 0 | Uint => 1 | Float => 2 | SBool => 3 | AbstractInt => 4 | AbstractFloat => 5 end.

Definition space_num (s : addr_space) : Z :=
  match s with
  | SpFunction => 0 | SpPrivate => 1 | SpWorkGroup => 2 | SpUniform => 3 | SpStorage => 4
  | SpPushConstant => 5 | SpHandle => 6 | SpImmediate => 7 | SpTaskPayload => 8
  end.

Definition scalar_key (s : scalar) : key := [KSym "scalar:"; KNum (kind_num (skind s)); KSym ":"; KNum (swidth s)].

Definition size_key (runtime : string) (o : option Z) : tok := match o with Some n => KNum n | None => KSym runtime end.

Definition member_key (mb : struct_member) : key :=
  [KSym ":m("; KStr (m_name mb); KSym ","; KNum (Z.of_nat (m_type mb)); KSym ","; KNum (m_offset mb); KSym ")"].

Definition type_key (t : type_inner) : key :=
  match t with
  | TScalar s => scalar_key s
  | TVector n s => KSym "vec:" :: KNum n :: KSym ":" :: scalar_key s
  | TMatrix c r s => KSym "mat:" :: KNum c :: KSym "x" :: KNum r :: KSym ":" :: scalar_key s
  | TArray b sz st => [KSym "array:"; KNum (Z.of_nat b); KSym ":"; size_key "runtime" sz; KSym ":"; KNum st]
  | TStruct ms span => KSym "struct:" :: KNum (Z.of_nat (List.length ms)) :: KSym ":" :: KNum span :: flat_map member_key ms
  | TPointer b sp => [KSym "ptr:"; KNum (Z.of_nat b); KSym ":"; KNum (space_num sp)]
  | TValuePointer _ _ _ => [KSym "unknown:"; KSym "ir.ValuePointerType"]
  | TAtomic s => [KSym "atomic:"; KNum (kind_num (skind s)); KSym ":"; KNum (swidth s)]
  | TBindingArray b sz => [KSym "binding_array:"; KNum (Z.of_nat b); KSym ":"; size_key "unbounded" sz]
  | TOther tag => [KSym "other:"; KStr tag]
  end.

Definition build_key (name : string) (t : type_inner) : key :=
  if String.eqb name "" then type_key t else KSym "named:" :: KStr name :: KSym ":" :: type_key t.

(* what the key retains of a type: everything but struct member bindings *)
Definition strip_binding (mb : struct_member) : struct_member := mkmember (m_name mb) (m_type mb) None (m_offset mb).
Definition norm (t : type_inner) : type_inner :=
  match t with TStruct ms span => TStruct (map strip_binding ms) span | _ => t end.

(* types whose key determines them (never a ValuePointer: those are not registered) *)
Definition registrable (t : type_inner) : bool := match t with TValuePointer _ _ _ => false | _ => true end.

Record registry := mkreg { r_types : list ty; r_map : list (key * nat) }.
Definition empty_registry : registry := mkreg [] [].

Fixpoint lookup (k : key) (m : list (key * nat)) : option nat :=
  match m with
  | [] => None
  | (k', h) :: m' => if key_eq_dec k k' then Some h else lookup k m'
  end.

Definition get_or_create (r : registry) (name : string) (t : type_inner) : registry * nat :=
  let k := build_key name t in
  match lookup k (r_map r) with
  | Some h => (r, h)
  | None => let h := List.length (r_types r) in (mkreg (r_types r ++ [mkty name t]) ((k, h) :: r_map r), h)
  end.

(* a history: the sequence of GetOrCreate requests *)
Fixpoint run (r : registry) (reqs : list (string * type_inner)) : registry * list nat :=
  match reqs with
  | [] => (r, [])
  | (n, t) :: reqs' =>
    let '(r1, h) := get_or_create r n t in
    let '(r2, hs) := run r1 reqs' in (r2, h :: hs)
  end.
