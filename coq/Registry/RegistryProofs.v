(* C09: history invariant of the type registry model (Registry/RegistryModel.v) -- for ALL
   sequences of GetOrCreate requests: keys determine types up to struct member bindings,
   handles are stable, equal keys are deduplicated, no two arena entries share a key. *)
From Coq Require Import List ZArith String Bool Arith Lia.
Import ListNotations.
Require Import Naga.IR.Syntax Naga.Registry.RegistryModel.
Open Scope Z_scope.

Lemma kind_num_inj a b : kind_num a = kind_num b -> a = b.
Proof. destruct a, b; cbn; intros; try reflexivity; discriminate. Qed.

Lemma space_num_inj a b : space_num a = space_num b -> a = b.
Proof. destruct a, b; cbn; intros; try reflexivity; discriminate. Qed.

Lemma size_key_inj r a b : size_key r a = size_key r b -> a = b.
Proof. destruct a, b; cbn; intros H; inversion H; reflexivity. Qed.

Lemma scalar_parts_inj s s' : kind_num (skind s) = kind_num (skind s') -> swidth s = swidth s' -> s = s'.
Proof. destruct s, s'; cbn. intros H1 ->. apply kind_num_inj in H1. now subst. Qed.

Lemma members_key_inj : forall ms ms',
  flat_map member_key ms = flat_map member_key ms' -> map strip_binding ms = map strip_binding ms'.
Proof.
  induction ms as [| a ms IH]; destruct ms' as [| b ms']; cbn; intros H; try reflexivity; try discriminate.
  inversion H. apply Nat2Z.inj in H2. f_equal; [| now apply IH].
  unfold strip_binding. now rewrite H1, H2, H3.
Qed.

Theorem type_key_inj : forall t t', registrable t = true -> registrable t' = true ->
  type_key t = type_key t' -> norm t = norm t'.
Proof.
  intros t t' Hr Hr' H.
  destruct t, t'; cbn in Hr, Hr', H |- *; try discriminate; inversion H; subst; clear H;
    repeat match goal with
           | Hn : Z.of_nat _ = Z.of_nat _ |- _ => apply Nat2Z.inj in Hn; subst
           | Hs : size_key _ _ = size_key _ _ |- _ => apply size_key_inj in Hs; subst
           | Hs : space_num _ = space_num _ |- _ => apply space_num_inj in Hs; subst
           end; try reflexivity.
  - f_equal. now apply scalar_parts_inj.
  - f_equal. now apply scalar_parts_inj.
  - f_equal. now apply scalar_parts_inj.
  - f_equal. now apply members_key_inj.
  - f_equal. now apply scalar_parts_inj.
Qed.

Lemma type_key_not_named t n rest : type_key t <> KSym "named:" :: KStr n :: rest.
Proof. destruct t; cbn; discriminate. Qed.

(* the key determines the name and the type up to struct member bindings *)
Theorem build_key_inj : forall n t n' t', registrable t = true -> registrable t' = true ->
  build_key n t = build_key n' t' -> n = n' /\ norm t = norm t'.
Proof.
  intros n t n' t' Hr Hr' H. unfold build_key in H.
  destruct (String.eqb n "") eqn:E1, (String.eqb n' "") eqn:E2.
  - apply String.eqb_eq in E1, E2. subst. split; [reflexivity | now apply type_key_inj].
  - exfalso. eapply type_key_not_named; eauto.
  - exfalso. symmetry in H. eapply type_key_not_named; eauto.
  - inversion H; subst. split; [reflexivity | now apply type_key_inj].
Qed.

(* ---- the history invariant ---- *)
Definition ty_key (t : ty) : key := build_key (ty_name t) (ty_inner t).

Definition Inv (r : registry) : Prop :=
  (forall k h, lookup k (r_map r) = Some h -> exists t, nth_error (r_types r) h = Some t /\ ty_key t = k) /\
  (forall h t, nth_error (r_types r) h = Some t -> lookup (ty_key t) (r_map r) = Some h).

Lemma inv_empty : Inv empty_registry.
Proof. split; cbn; intros; [discriminate | destruct h; discriminate]. Qed.

Open Scope nat_scope.

Lemma inv_step r n t : Inv r -> Inv (fst (get_or_create r n t)).
Proof.
  intros [Ha Hb]. unfold get_or_create. destruct (lookup (build_key n t) (r_map r)) as [h |] eqn:Hl; cbn [fst]; [now split |].
  split; cbn [r_types r_map].
  - intros k h Hk. cbn in Hk. destruct (key_eq_dec k (build_key n t)) as [-> | Hne].
    + inversion Hk; subst. exists (mkty n t). split; [| reflexivity].
      rewrite nth_error_app2 by lia. now rewrite Nat.sub_diag.
    + destruct (Ha k h Hk) as (t0 & Hn & Hk0). exists t0. split; [| assumption].
      rewrite nth_error_app1; [assumption |]. apply nth_error_Some. congruence.
  - intros h t0 Hn. cbn. destruct (Nat.lt_ge_cases h (List.length (r_types r))) as [Hlt | Hge].
    + rewrite nth_error_app1 in Hn by assumption. pose proof (Hb h t0 Hn) as Hl0.
      destruct (key_eq_dec (ty_key t0) (build_key n t)) as [Heq | Hne]; [| assumption].
      rewrite Heq in Hl0. congruence.
    + rewrite nth_error_app2 in Hn by assumption. destruct (h - List.length (r_types r)) as [| d] eqn:Hd.
      * cbn in Hn. inversion Hn; subst. unfold ty_key. cbn [ty_name ty_inner].
        destruct (key_eq_dec (build_key n t) (build_key n t)); [| contradiction]. f_equal. lia.
      * cbn in Hn. destruct d; discriminate.
Qed.

Lemma get_or_create_spec r n t : Inv r ->
  let '(r', h) := get_or_create r n t in
  (exists suffix, r_types r' = (r_types r ++ suffix)%list) /\
  exists t0, nth_error (r_types r') h = Some t0 /\ ty_key t0 = build_key n t.
Proof.
  intros [Ha Hb]. unfold get_or_create. destruct (lookup (build_key n t) (r_map r)) as [h |] eqn:Hl.
  - split; [exists []; now rewrite app_nil_r |]. now apply Ha.
  - cbn. split; [eexists; reflexivity |]. exists (mkty n t). split; [| reflexivity].
    rewrite nth_error_app2 by lia. now rewrite Nat.sub_diag.
Qed.

(* for every sequence of requests: the invariant is kept, the arena only grows (handles are
   stable), and every returned handle denotes a type with the requested key *)
Theorem registry_history : forall reqs r r' hs, Inv r -> run r reqs = (r', hs) ->
  Inv r' /\ (exists suffix, r_types r' = (r_types r ++ suffix)%list) /\
  Forall2 (fun req h => exists t0, nth_error (r_types r') h = Some t0 /\ ty_key t0 = build_key (fst req) (snd req)) reqs hs.
Proof.
  induction reqs as [| [n t] reqs IH]; intros r r' hs Hi Hr; cbn in Hr.
  - inversion Hr; subst. split; [assumption |]. split; [exists []; now rewrite app_nil_r | constructor].
  - pose proof (get_or_create_spec r n t Hi) as Hs. pose proof (inv_step r n t Hi) as Hi1.
    destruct (get_or_create r n t) as [r1 h]. cbn [fst] in Hi1. destruct (run r1 reqs) as [r2 hs2] eqn:Hrun.
    inversion Hr; subst. destruct (IH _ _ _ Hi1 Hrun) as (Hi2 & [suf2 Hp2] & Hf). destruct Hs as ([suf1 Hp1] & t0 & Hn & Hk).
    split; [assumption |]. split; [exists (suf1 ++ suf2)%list; now rewrite Hp2, Hp1, app_assoc |].
    constructor; [| assumption]. exists t0. split; [| assumption]. cbn [fst snd]. rewrite Hp2.
    rewrite nth_error_app1; [assumption |]. apply nth_error_Some. congruence.
Qed.

(* consequences: no two arena entries share a key; structurally equal (up to bindings) registrable
   types with equal names sit at one handle *)
Corollary registry_keys_distinct : forall reqs r' hs, run empty_registry reqs = (r', hs) ->
  forall i j a b, nth_error (r_types r') i = Some a -> nth_error (r_types r') j = Some b -> ty_key a = ty_key b -> i = j.
Proof.
  intros reqs r' hs Hr i j a b Ha Hb Hk. destruct (registry_history _ _ _ _ inv_empty Hr) as ([_ Hinv] & _ & _).
  pose proof (Hinv i a Ha) as H1. pose proof (Hinv j b Hb) as H2. rewrite Hk in H1. congruence.
Qed.

Lemma members_key_norm : forall ms ms', map strip_binding ms = map strip_binding ms' ->
  flat_map member_key ms = flat_map member_key ms' /\ List.length ms = List.length ms'.
Proof.
  induction ms as [| x xs IH]; destruct ms' as [| y ys]; intros H; try discriminate; [now split |].
  cbn [map] in H. inversion H. destruct (IH ys H4) as [H5 H6]. split; [| cbn [List.length]; now rewrite H6].
  cbn [flat_map]. rewrite H5. unfold member_key. now rewrite H1, H2, H3.
Qed.

Lemma norm_key a b : norm a = norm b -> type_key a = type_key b.
Proof.
  destruct a, b; cbn; intros H; try discriminate; try (inversion H; subst; reflexivity).
  inversion H. destruct (members_key_norm _ _ H1) as [H3 H4]. now rewrite H3, H4.
Qed.

Corollary registry_dedup : forall reqs r' hs, run empty_registry reqs = (r', hs) ->
  forall i j a b, nth_error (r_types r') i = Some a -> nth_error (r_types r') j = Some b ->
  ty_name a = ty_name b -> norm (ty_inner a) = norm (ty_inner b) -> i = j.
Proof.
  intros reqs r' hs Hr i j a b Ha Hb Hn Hi. eapply registry_keys_distinct; eauto.
  unfold ty_key, build_key. now rewrite Hn, (norm_key _ _ Hi).
Qed.

(* the same request later in a history returns the same handle *)
Corollary registry_idempotent : forall r n t, Inv r ->
  let '(r1, h1) := get_or_create r n t in let '(r2, h2) := get_or_create r1 n t in r2 = r1 /\ h2 = h1.
Proof.
  intros r n t Hi. pose proof (inv_step r n t Hi) as Hi1. pose proof (get_or_create_spec r n t Hi) as Hs.
  destruct (get_or_create r n t) as [r1 h1]. cbn [fst] in Hi1. destruct Hs as (_ & t0 & Hn & Hk).
  unfold get_or_create. destruct Hi1 as [_ Hb]. rewrite <- Hk, (Hb h1 t0 Hn). now split.
Qed.
