(* Tool `hlslrun` (property C03): execute a compute entry point of an HLSL AST
   (lib/hlslread.py) under Hlsl/Sem.v.
   Input  {"ast": <program>, "ep": name, "fuel": n,
           "buffers":  {"<register>": [byte, ...]},        [RW]ByteAddressBuffer contents, key = text of register(...) without blanks
           "cbuffers": {"<register>": value},              IR/Values JSON codec, WGSL-shaped (see Sem.shape_cbuffer)
           "builtins": {"SV_DispatchThreadID": value, ...}}
   Output {"ok":true,"buffers":{"<register>":[bytes]},"globals":[[name,value]...]}
        | {"ok":false,"kind":"fail"|"outoffuel"|"decode","msg":...}
   mode "template": {"template": expr, "helpers": [func...], "args": [[name, type, value]...], "fuel": n} -> {"ok":true,"value":v}
   (evaluates one expression with the named operands bound: used by the search when the op-table tie breaks).
   mode "rows": {"rows": [{"op","ty","shape","template","helpers"}...]} -> {"ok":true,"stray":[[op,ty,shape]...],
        "catalogue":[[op,ty,status]...]}: the probed rows that are not catalogue entries (Hlsl/OpTable.v decides the same
        question inside Coq; this copy only names the culprits for the report). *)
From Coq Require Import List ZArith String Bool.
Import ListNotations.
Require Import Naga.Base.Json Naga.IR.Values Naga.Hlsl.Syntax Naga.Hlsl.Decode Naga.Hlsl.Ops Naga.Hlsl.Sem Naga.Hlsl.Catalogue.
Require Extraction.
Require Import ExtrOcamlBasic.
Open Scope string_scope.
Open Scope list_scope.
Open Scope bool_scope.

Definition err (kind msg : string) : json := JObj [("ok", JBool false); ("kind", JStr kind); ("msg", JStr msg)].

Definition obj_fields (j : json) : option (list (string * json)) := match j with JObj fs => Some fs | _ => None end.

Definition dec_bytes (kv : string * json) : option (string * list Z) :=
  match nums (snd kv) with Some l => Some (fst kv, l) | None => None end.
Definition dec_val (kv : string * json) : option (string * value) :=
  match value_of_json 64 (snd kv) with Some v => Some (fst kv, v) | None => None end.

Definition of_result (r : result json) : json :=
  match r with
  | Done j => j
  | OutOfFuel => err "outoffuel" ""
  | Fail msg => err "fail" msg
  end.

Definition run_program (j : json) : json :=
  match field "ast" j, field_str "ep" j, field_num "fuel" j, field "buffers" j, field "cbuffers" j, field "builtins" j with
  | Some astj, Some ep, Some fuel, Some bj, Some cj, Some uj =>
    match dec_program astj with
    | Err msg => err "decode" msg
    | Ok p =>
      match obj_fields bj, obj_fields cj, obj_fields uj with
      | Some bf, Some cf, Some uf =>
        match map_opt dec_bytes bf, map_opt dec_val cf, map_opt dec_val uf with
        | Some bufs, Some cbufs, Some builtins =>
          of_result
            (st <~ run_entry p (Z.to_nat fuel) ep bufs cbufs builtins ;;
             let regs := flat_map (fun g => match gv_kind g with GBuffer _ reg => [(gv_name g, reg)] | _ => [] end) (pr_globals p) in
             Done (JObj [("ok", JBool true);
                         ("buffers", JObj (flat_map (fun nr => match assoc_s (fst nr) (st_bufs st) with
                                                               | Some (_, bytes) => [(snd nr, jnums bytes)]
                                                               | None => [] end) regs));
                         ("globals", JArr (map (fun e => match e with (n, _, v) => JArr [JStr n; json_of_value v] end) (st_globals st)))]))
        | _, _, _ => err "decode" "bad buffers/cbuffers/builtins encoding"
        end
      | _, _, _ => err "decode" "buffers/cbuffers/builtins must be objects"
      end
    end
  | _, _, _, _, _, _ => err "decode" "missing ast/ep/fuel/buffers/cbuffers/builtins"
  end.

Definition dec_arg (j : json) : option (string * htype * value) :=
  match j with
  | JArr [JStr n; t; v] =>
    match dec_type 16 t, value_of_json 64 v with
    | Ok t', Some v' => Some (n, t', v')
    | _, _ => None
    end
  | _ => None
  end.

Definition run_template (j : json) : json :=
  match field "template" j, field_arr "helpers" j, field_arr "args" j, field_num "fuel" j with
  | Some tj, Some hs, Some ajs, Some fuel =>
    match dec_expr 400 tj, map_res dec_func hs, map_opt dec_arg ajs with
    | Ok e, Ok funcs, Some args =>
      let p := mkprogram [] [] [] funcs in
      of_result (r <~ eval_pure p (Z.to_nat fuel) (mkstate args [] []) e ;;
                 Done (JObj [("ok", JBool true); ("value", json_of_value r)]))
    | Err m, _, _ => err "decode" m
    | _, Err m, _ => err "decode" m
    | _, _, _ => err "decode" "args"
    end
  | _, _, _, _ => err "decode" "missing template/helpers/args/fuel"
  end.

Definition status_name (s : status) : string :=
  match s with Proved => "Proved" | Refuted => "Refuted" | Shapes => "Shapes" | Validated => "Validated" | Unmodelled => "Unmodelled" end.

Definition row_stray (j : json) : res (option (list json)) :=
  match field_str "op" j, field_str "ty" j, field_str "shape" j, field "template" j, field_arr "helpers" j with
  | Some op, Some ty, Some sh, Some tj, Some hs =>
    match dec_expr 400 tj, map_res dec_func hs with
    | Ok e, Ok funcs =>
      if existsb (fun c => String.eqb (e_op c) op && String.eqb (e_ty c) ty && expr_eqb (e_template c) e && funcs_eqb (e_helpers c) funcs) catalogue
      then Ok None else Ok (Some [JStr op; JStr ty; JStr sh])
    | Err m, _ => Err m
    | _, Err m => Err m
    end
  | _, _, _, _, _ => Err "row record"
  end.

Definition run_rows (rows : list json) : json :=
  match map_res row_stray rows with
  | Err m => err "decode" m
  | Ok l =>
    JObj [("ok", JBool true);
          ("stray", JArr (flat_map (fun o => match o with Some x => [JArr x] | None => [] end) l));
          ("catalogue", JArr (map (fun c => JArr [JStr (e_op c); JStr (e_ty c); JStr (status_name (e_status c))]) catalogue))]
  end.

Definition entry (j : json) : json :=
  match field_arr "rows" j with
  | Some rows => run_rows rows
  | None =>
    match field "template" j with
    | Some _ => run_template j
    | None => run_program j
    end
  end.
Extraction "model.ml" entry.
