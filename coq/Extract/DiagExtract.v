(* Executable C11 leaf models behind the generic JSON driver: entry : json -> json. *)
From Coq Require Import List ZArith String Bool.
Import ListNotations.
Require Import Naga.Base.Json Naga.Diag.SwizzleModel Naga.Diag.BalanceModel Naga.Diag.LeafModel.
Require Extraction.
Require Import ExtrOcamlBasic.
Open Scope Z_scope.
Open Scope string_scope.

Definition jopt_nums (o : option (list Z)) : json := match o with Some l => jnums l | None => JNull end.

Definition tk_of_code (c : Z) : tk :=
  if Z.eqb c 1 then TOpen Paren else if Z.eqb c 2 then TClose Paren
  else if Z.eqb c 3 then TOpen Bracket else if Z.eqb c 4 then TClose Bracket
  else if Z.eqb c 5 then TOpen Brace else if Z.eqb c 6 then TClose Brace else TOther.

Definition attr_of_json (j : json) : option attr :=
  match j with
  | JArr [JStr n; JArr args] =>
      Some {| aname := n; aargs := map (fun a => match a with JNum 1 => ALit | _ => AOther end) args |}
  | _ => None
  end.

Definition strs (j : json) : option (list string) := match j with JArr l => map_opt as_str l | _ => None end.

Definition znat (n : nat) : json := JNum (Z.of_nat n).

Definition do_swizzle (j : json) : json :=
  match field "name" j, field_num "w" j with
  | Some nm, Some w =>
      match nums nm with
      | Some name => JObj [("model", jopt_nums (swizzle_model name w)); ("spec", jopt_nums (swizzle_spec name w))]
      | None => JNull
      end
  | _, _ => JNull
  end.

Definition do_balance (j : json) : json :=
  match field "toks" j with
  | Some tj =>
      match nums tj with
      | Some codes =>
          let l := map tk_of_code codes in
          JObj [("balanced", JBool (balanced l));
                ("first_bad", match first_bad l with Some k => znat k | None => JNum (-1) end)]
      | None => JNull
      end
  | None => JNull
  end.

Definition do_pairing (j : json) : json :=
  match field_arr "attrs" j with
  | Some l =>
      match map_opt attr_of_json l with
      | Some attrs => JObj [("model_error", JBool (pairing_model attrs)); ("spec_error", JBool (pairing_spec attrs))]
      | None => JNull
      end
  | None => JNull
  end.

Definition jverdict (v : size_verdict) : json :=
  match v with
  | SizeError => JObj [("verdict", JStr "error")]
  | SizeConst n => JObj [("verdict", JStr "const"); ("n", JNum n)]
  | SizeDynamic => JObj [("verdict", JStr "dynamic")]
  end.

Definition do_array_size (j : json) : json :=
  match field "v" j with
  | Some (JNum v) => JObj [("model", jverdict (array_size_model (Some v))); ("spec", jverdict (array_size_spec v))]
  | _ => JObj [("model", jverdict (array_size_model None))]
  end.

Definition do_wg (j : json) : json :=
  match field "names" j with
  | Some nj => match strs nj with Some names => JObj [("model_error", JBool (wg_model names))] | None => JNull end
  | None => JNull
  end.

Definition do_div (j : json) : json :=
  match field_bool "div" j, field_num "l" j, field_num "r" j with
  | Some op, Some l, Some r =>
      match const_div_model op l r with
      | None => JObj [("model_error", JBool true)]
      | Some v => JObj [("model_error", JBool false); ("value", JNum v)]
      end
  | _, _, _ => JNull
  end.

Definition do_pos (j : json) : json :=
  match field "lines" j, field_num "line" j, field_num "col" j with
  | Some lj, Some line, Some col =>
      match nums lj with
      | Some lines =>
          let insrc := pos_in_source lines line col in
          let inspan := match field "span" j with
                        | Some sj => match nums sj with
                                     | Some [sl; sc; el; ec] => JBool (pos_within_span sl sc el ec line col)
                                     | _ => JNull
                                     end
                        | None => JNull
                        end in
          JObj [("in_source", JBool insrc); ("in_span", inspan)]
      | None => JNull
      end
  | _, _, _ => JNull
  end.

Definition entry (j : json) : json :=
  match field_str "op" j with
  | Some op =>
      if String.eqb op "swizzle" then do_swizzle j
      else if String.eqb op "balance" then do_balance j
      else if String.eqb op "pairing" then do_pairing j
      else if String.eqb op "array_size" then do_array_size j
      else if String.eqb op "wg" then do_wg j
      else if String.eqb op "div" then do_div j
      else if String.eqb op "pos" then do_pos j
      else JNull
  | None => JNull
  end.

Extraction "model.ml" entry.
