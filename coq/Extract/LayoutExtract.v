(* C07 — extraction of the layout models (spec, naga lowerer, HLSL offsets, GLSL std140/430,
   MSL emitter + C++ layout) behind the generic JSON driver. *)
From Coq Require Import List ZArith String.
Require Import Naga.Base.Json Naga.Layout.Codec.
Require Extraction.
Require Import ExtrOcamlBasic.
Extraction "model.ml" entry.
