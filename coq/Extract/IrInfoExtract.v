(* Tool: decode an IR dump and report sizes (self-test of IR/Decode.v on real dumps). *)
From Coq Require Import List ZArith String.
Import ListNotations.
Require Import Naga.Base.Json Naga.IR.Syntax Naga.IR.Decode.
Require Extraction.
Require Import ExtrOcamlBasic.
Open Scope string_scope.
Open Scope list_scope.
Definition count_other (f : func) : Z :=
  Z.of_nat (List.length (filter (fun e => match e with EOther _ _ => true | _ => false end) (f_exprs f))).
Definition entry (j : json) : json :=
  match dec_module j with
  | Err m => JObj [("ok", JBool false); ("err", JStr m)]
  | Ok m =>
    let fs := m_functions m ++ map ep_func (m_entry_points m) in
    JObj [("ok", JBool true); ("types", JNum (Z.of_nat (List.length (m_types m))));
          ("functions", JNum (Z.of_nat (List.length fs)));
          ("exprs", JNum (fold_left Z.add (map (fun f => Z.of_nat (List.length (f_exprs f))) fs) 0%Z));
          ("other_exprs", JNum (fold_left Z.add (map count_other fs) 0%Z));
          ("stmts", JNum (fold_left Z.add (map (fun f => Z.of_nat (block_size (f_body f))) fs) 0%Z))]
  end.
Extraction "model.ml" entry.
