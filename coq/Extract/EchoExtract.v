(* Self-test of the generic JSON driver: entry echoes its input and adds sums. *)
From Coq Require Import List ZArith String.
Import ListNotations.
Require Import Naga.Base.Json.
Require Extraction.
Require Import ExtrOcamlBasic.
Open Scope Z_scope.
Definition entry (j : json) : json :=
  JObj [("echo"%string, j);
        ("sum"%string, match nums j with Some l => JNum (fold_left Z.add l 0) | None => JNull end)].
Extraction "model.ml" entry.
