(* Tool `mslrun`: execute a compute entry point of emitted MSL (as parsed by lib/mslread.py) under Msl/Sem.v.
   {"mode":"run","ast":<program>,"ep":name,"buffers":{"<slot>":value},"sizes":{"sizeN":bytes},"builtins":{"<attr>":value},"fuel":n}
     -> {"ok":true,"buffers":{"<slot>":value}} | {"ok":false,"kind":"fail"|"outoffuel"|"decode","msg":..}
   {"mode":"layout","ast":<program>}
     -> {"ok":true,"structs":[{"name":..,"size":..,"align":..,"members":[[name,offset,size,elem_size|null]..]}],
         "typedefs":[[name,elem_size|null]]}
   values use the codec of IR/Values.v. *)
From Coq Require Import List ZArith String Bool.
Import ListNotations.
Require Import Naga.Base.Json Naga.IR.Values Naga.Msl.Syntax Naga.Msl.Decode Naga.Msl.Sem Naga.Msl.Run Naga.Msl.Layout.
Require Extraction.
Require Import ExtrOcamlBasic.
Open Scope string_scope.
Open Scope list_scope.

Definition err (kind msg : string) : json := JObj [("ok", JBool false); ("kind", JStr kind); ("msg", JStr msg)].

(* decimal string -> Z (slot numbers are object keys) *)
Fixpoint z_of_digits (s : string) (acc : Z) : option Z :=
  match s with
  | EmptyString => Some acc
  | String c r =>
    let n := Z.of_nat (Ascii.nat_of_ascii c) in
    if andb (48 <=? n)%Z (n <=? 57)%Z then z_of_digits r (acc * 10 + (n - 48))%Z else None
  end.

Fixpoint digits_of_nat (fuel n : nat) (acc : string) : string :=
  match fuel with
  | O => acc
  | S f => let d := Ascii.ascii_of_nat (48 + Nat.modulo n 10) in
           let acc' := String d acc in
           if Nat.eqb (Nat.div n 10) 0 then acc' else digits_of_nat f (Nat.div n 10) acc'
  end.
Definition string_of_z (z : Z) : string := digits_of_nat 20 (Z.to_nat z) "".

Definition obj_fields (j : option json) : list (string * json) := match j with Some (JObj fs) => fs | _ => [] end.

Definition jopt_z (o : option Z) : json := match o with Some z => JNum z | None => JNull end.

Definition run_mode (j : json) (P : prog) : json :=
  match field_str "ep" j, field_num "fuel" j with
  | Some ep, Some fuel =>
    let bufs := map_opt (fun kv => match z_of_digits (fst kv) 0%Z, value_of_json 64 (snd kv) with
                                   | Some k, Some v => Some (k, v) | _, _ => None end) (obj_fields (field "buffers" j)) in
    let sizes := map_opt (fun kv => match snd kv with JNum z => Some (fst kv, z) | _ => None end) (obj_fields (field "sizes" j)) in
    let blt := map_opt (fun kv => match value_of_json 64 (snd kv) with Some v => Some (fst kv, v) | None => None end)
                       (obj_fields (field "builtins" j)) in
    match bufs, sizes, blt with
    | Some bs, Some ss, Some bl =>
      match run_kernel (Z.to_nat fuel) P ep bs ss bl with
      | Done outs => JObj [("ok", JBool true);
                           ("buffers", JObj (map (fun o => (string_of_z (fst o), json_of_value (snd o))) outs))]
      | OutOfFuel => err "outoffuel" ""
      | Fail msg => err "fail" msg
      end
    | _, _, _ => err "decode" "bad buffers/sizes/builtins"
    end
  | _, _ => err "decode" "missing ep/fuel"
  end.

Definition layout_mode (P : prog) : json :=
  JObj [("ok", JBool true);
        ("structs", JArr (map (fun sd =>
           match struct_layout P sd with
           | Some (ms, size, al) =>
             JObj [("name", JStr (sd_name sd)); ("size", JNum size); ("align", JNum al);
                   ("members", JArr (map (fun m => let '(n, o, s) := m in
                       JArr [JStr n; JNum o; JNum s;
                             jopt_z (match lookup n (sd_members sd) with Some t => elem_size P t | None => None end)]) ms))]
           | None => JObj [("name", JStr (sd_name sd)); ("size", JNull)]
           end) (p_structs P)));
        ("typedefs", JArr (map (fun td => JArr [JStr (fst td); jopt_z (elem_size P (snd td))]) (p_typedefs P)))].

Definition entry (j : json) : json :=
  match field "ast" j with
  | None => err "decode" "missing ast"
  | Some a =>
    match dec_prog a with
    | Err msg => err "decode" msg
    | Ok P =>
      match field_str "mode" j with
      | Some "layout" => layout_mode P
      | _ => run_mode j P
      end
    end
  end.
Extraction "model.ml" entry.
