(* Extracted tool `cfshape`: the recogniser of the control-flow encodings (Target/Shapes.v) run on the control
   skeleton of every function body naga emitted (lib/cfskel.py).  entry : {"body": [...]} -> {"ok", "events"}. *)
Require Import Naga.Base.Json Naga.Target.Shapes.
Require Extraction.
Require Import ExtrOcamlBasic.
Extraction "model.ml" entry.
