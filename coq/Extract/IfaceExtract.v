(* Tool (C17): entry : json -> json
     {"ir": <IR dump>, "runs": [<run>...]} -> {"ok":true, "results":[...]}   where a run is one of the following without "ir"
     {"mode":"spv", "ir": <IR dump>, "words": [...], "fps": bool}
        -> {"ok":true, "decoded":bool, "version":n, "mismatches":[{"kind","name","index"}],
            "expected":{"globals":[...], "eps":[...]}}
     {"mode":"text", "ir": <IR dump>, ...}  (expected slots for the text back ends, see Iface/TextBindings.v)
   Errors: {"ok":false, "err": msg}. *)
From Coq Require Import List ZArith String Bool.
Import ListNotations.
Require Import Naga.Base.Json Naga.IR.Syntax Naga.IR.Decode Naga.Spv.Binary.
Require Import Naga.Iface.Reach Naga.Iface.SpvSpec Naga.Iface.SpvIface Naga.Iface.TextBindings.
Require Extraction.
Require Import ExtrOcamlBasic.
Local Open Scope string_scope.
Local Open Scope list_scope.
Local Open Scope Z_scope.

Definition jopt (o : option Z) : json := match o with Some z => JNum z | None => JNull end.
Definition jtri (t : tri) : json := match t with Must => JStr "must" | MustNot => JStr "mustnot" | Any => JStr "any" end.
Definition jnat (n : nat) : json := JNum (Z.of_nat n).

Definition j_io (x : io_exp) : json :=
  JObj [("class", JNum (io_class x)); ("loc", jopt (io_loc x)); ("builtin", jopt (io_builtin x));
        ("flat", jtri (io_flat x)); ("nopersp", JBool (io_nopersp x)); ("centroid", JBool (io_centroid x));
        ("sample", JBool (io_sample x)); ("invariant", jtri (io_invariant x)); ("index", jopt (io_index x))].

Definition j_mode (md : Z * list Z) : json := JArr [JNum (fst md); jnums (snd md)].

Definition j_ep (ep : entry_point) (ox : option ep_exp) : json :=
  match ox with
  | Some x => JObj [("name", JStr (xe_name x)); ("model", JNum (xe_model x)); ("modes", JArr (map j_mode (xe_modes x)));
                    ("ios", JArr (map j_io (xe_ios x))); ("globals", JArr (map jnat (xe_globals x)))]
  | None => JObj [("name", JStr (ep_name ep)); ("unsupported", JBool true)]
  end.

Definition j_gv (x : gv_exp) : json :=
  JObj [("handle", jnat (gx_handle x)); ("class", JNum (gx_class x));
        ("group", jopt (option_map fst (gx_bind x))); ("binding", jopt (option_map snd (gx_bind x)));
        ("nonwritable", jtri (gx_nonwritable x))].

Definition j_mm (x : mismatch) : json :=
  JObj [("kind", JStr (mm_kind x)); ("name", JStr (mm_name x)); ("index", JNum (mm_index x)); ("detail", JStr (mm_detail x))].

Definition expected_json (fps : bool) (m : module) : json :=
  JObj [("globals", JArr (map j_gv (globals_expected m)));
        ("eps", JArr (map (fun ep => j_ep ep (ep_expected fps m ep)) (filter compilable (m_entry_points m))))].

Definition run_spv (j : json) (m : module) : json :=
  let fps := match field_bool "fps" j with Some b => b | None => false end in
  match field "words" j with
  | Some wj =>
    match nums wj with
    | Some ws =>
      match decode ws with
      | Some (h, is) =>
        JObj [("ok", JBool true); ("decoded", JBool true); ("version", JNum (version h));
              ("mismatches", JArr (map j_mm (check_spv_iface fps m (h, is))));
              ("expected", expected_json fps m)]
      | None => JObj [("ok", JBool true); ("decoded", JBool false); ("expected", expected_json fps m)]
      end
    | None => JObj [("ok", JBool false); ("err", JStr "words is not a list of numbers")]
    end
  | None => JObj [("ok", JBool true); ("decoded", JBool false); ("expected", expected_json fps m)]
  end.

Definition entry (j : json) : json :=
  match field "ir" j with
  | None => JObj [("ok", JBool false); ("err", JStr "no ir")]
  | Some ij =>
    match dec_module ij with
    | Err e => JObj [("ok", JBool false); ("err", JStr e)]
    | Ok m =>
      let one (r : json) : json :=
          match field_str "mode" r with
          | Some md => if String.eqb md "text" then run_text r m else run_spv r m
          | None => run_spv r m
          end in
      match field_arr "runs" j with
      | Some rs => JObj [("ok", JBool true); ("results", JArr (map one rs))]     (* several runs on one decoded module *)
      | None => one j
      end
    end
  end.

Extraction "model.ml" entry.
