(* Extracted tool `parsemodel`: the parser model run on the token list of the real lexer.
   input  {"toks": [[kind number, lexeme]...]}   (kind numbers as in /repo's token.go: translated to the
           model's constructors through their Go NAMES, Gen/LexTables.v token_kinds + Ast.tk_of_name)
   output {"ok":true, "decls":[...], "errs":[[token index, class]...]}  the AST in the shape of the Go
           reflection dump of parser.Module.Declarations without Span fields (token kinds by name)
          | {"ok":false, "why": "outoffuel" | "badkind" | "badinput"} *)
From Coq Require Import List ZArith String Bool.
Import ListNotations.
Require Import Naga.Base.Json Naga.Parse.Ast Naga.Parse.ParserModel Naga.Gen.LexTables.
Require Extraction.
Require Import ExtrOcamlBasic.
Open Scope string_scope.

Fixpoint name_of_num (z : Z) (l : list (string * Z)) : option string :=
  match l with [] => None | (n, v) :: l' => if Z.eqb z v then Some n else name_of_num z l' end.
Definition tk_of_num (z : Z) : option tk :=
  match name_of_num z token_kinds with Some n => tk_of_name n | None => None end.

Definition dec_tok (j : json) : option token :=
  match j with
  | JArr [JNum k; JStr lx] => match tk_of_num k with Some t => Some (mktoken t lx) | None => None end
  | _ => None
  end.

Definition obj (t : string) (fs : list (string * json)) : json := JObj (("_t", JStr t) :: fs).
Definition jopt {A} (f : A -> json) (o : option A) : json := match o with Some a => f a | None => JNull end.
Definition jkind (k : tk) : json := JStr (tk_name k).

Fixpoint j_ty (t : ty) : json :=
  match t with
  | TyNamed n ps => obj "NamedType" [("Name", JStr n); ("TypeParams", JArr (map j_ty ps))]
  | TyArray e sz => obj "ArrayType" [("Element", j_ty e); ("Size", match sz with Some x => j_expr x | None => JNull end)]
  | TyBindingArray e sz => obj "BindingArrayType" [("Element", j_ty e); ("Size", match sz with Some x => j_expr x | None => JNull end)]
  | TyPtr sp p acc => obj "PtrType" [("AddressSpace", JStr sp); ("PointeeType", j_ty p); ("AccessMode", JStr acc)]
  end
with j_expr (e : expr) : json :=
  match e with
  | EIdent n => obj "Ident" [("Name", JStr n)]
  | ELit k v => obj "Literal" [("Kind", jkind k); ("Value", JStr v)]
  | EBinary l op r => obj "BinaryExpr" [("Left", j_expr l); ("Op", jkind op); ("Right", j_expr r)]
  | EUnary op x => obj "UnaryExpr" [("Op", jkind op); ("Operand", j_expr x)]
  | ECall f args => obj "CallExpr" [("Func", obj "Ident" [("Name", JStr f)]); ("Args", JArr (map j_expr args))]
  | EIndex x i => obj "IndexExpr" [("Expr", j_expr x); ("Index", j_expr i)]
  | EMember x m => obj "MemberExpr" [("Expr", j_expr x); ("Member", JStr m)]
  | EConstruct t args => obj "ConstructExpr" [("Type", j_ty t); ("Args", JArr (map j_expr args))]
  | EBitcast t x => obj "BitcastExpr" [("Type", j_ty t); ("Expr", j_expr x)]
  end.

Definition j_attr (a : attr) : json := obj "Attribute" [("Name", JStr (aname a)); ("Args", JArr (map j_expr (aargs a)))].
Definition j_attrs (l : list attr) : json := JArr (map j_attr l).

Definition j_var (v : vardecl) : json :=
  obj "VarDecl" [("Name", JStr (vname v)); ("Type", jopt j_ty (vty v)); ("Init", jopt j_expr (vinit v));
                 ("AddressSpace", JStr (vspace v)); ("AccessMode", JStr (vaccess v)); ("Attributes", j_attrs (vattrs v))].
Definition j_const (c : constdecl) : json :=
  obj "ConstDecl" [("Name", JStr (cname c)); ("Type", jopt j_ty (cty c)); ("Init", j_expr (cinit c)); ("IsConst", JBool (cisconst c))].
Definition j_cassert (e : expr) : json := obj "ConstAssertDecl" [("Condition", j_expr e)].

Definition j_block_of (l : list json) : json := obj "BlockStmt" [("Statements", JArr l)].

Fixpoint j_stmt (s : stmt) : json :=
  match s with
  | SBlock b => j_block_of (map j_stmt b)
  | SReturn v => obj "ReturnStmt" [("Value", jopt j_expr v)]
  | SIf c b e => obj "IfStmt" [("Condition", j_expr c); ("Body", j_block_of (map j_stmt b));
                               ("Else", match e with Some x => j_stmt x | None => JNull end)]
  | SFor i c u b => obj "ForStmt" [("Init", match i with Some x => j_stmt x | None => JNull end); ("Condition", jopt j_expr c);
                                   ("Update", match u with Some x => j_stmt x | None => JNull end);
                                   ("Body", j_block_of (map j_stmt b))]
  | SWhile c b => obj "WhileStmt" [("Condition", j_expr c); ("Body", j_block_of (map j_stmt b))]
  | SLoop b c => obj "LoopStmt" [("Body", j_block_of (map j_stmt b));
                                 ("Continuing", match c with Some x => j_block_of (map j_stmt x) | None => JNull end)]
  | SBreak => obj "BreakStmt" []
  | SBreakIf c => obj "BreakIfStmt" [("Condition", j_expr c)]
  | SContinue => obj "ContinueStmt" []
  | SDiscard => obj "DiscardStmt" []
  | SAssign l op r => obj "AssignStmt" [("Left", j_expr l); ("Op", jkind op); ("Right", j_expr r)]
  | SExpr e => obj "ExprStmt" [("Expr", j_expr e)]
  | SSwitch sel cs => obj "SwitchStmt" [("Selector", j_expr sel); ("Cases", JArr (map j_case cs))]
  | SVar v => j_var v
  | SConst c => j_const c
  | SConstAssert e => j_cassert e
  end
with j_case (c : scase) : json :=
  match c with
  | SCase sels isd df b =>
      obj "SwitchCaseClause" [("Selectors", JArr (map j_expr sels)); ("IsDefault", JBool isd); ("DefaultFirst", JBool df);
                              ("Body", j_block_of (map j_stmt b))]
  end.

Definition j_param (p : param) : json :=
  obj "Parameter" [("Name", JStr (pname p)); ("Type", j_ty (pty p)); ("Attributes", j_attrs (pattrs p))].
Definition j_member (m : member) : json :=
  obj "StructMember" [("Name", JStr (mname m)); ("Type", j_ty (mty m)); ("Attributes", j_attrs (mattrs m))].

Definition j_decl (d : decl) : json :=
  match d with
  | DFunction n ps rt ra at_ b =>
      obj "FunctionDecl" [("Name", JStr n); ("Params", JArr (map j_param ps)); ("ReturnType", jopt j_ty rt);
                          ("ReturnAttrs", j_attrs ra); ("Attributes", j_attrs at_); ("Body", j_block_of (map j_stmt b))]
  | DStruct n ms => obj "StructDecl" [("Name", JStr n); ("Members", JArr (map j_member ms))]
  | DVar v => j_var v
  | DConst c => j_const c
  | DAlias n t => obj "AliasDecl" [("Name", JStr n); ("Type", j_ty t)]
  | DConstAssert e => j_cassert e
  | DOverride n t i at_ => obj "OverrideDecl" [("Name", JStr n); ("Type", jopt j_ty t); ("Init", jopt j_expr i); ("Attributes", j_attrs at_)]
  end.

Definition ekind_name (k : ekind) : string :=
  match k with
  | EExpected t => "expected:" ++ tk_name t
  | EExpectedKeyword t => "expected_keyword:" ++ tk_name t
  | EFunctionName => "function_name" | EParamName => "param_name" | EMemberName => "member_name"
  | EVariableName => "variable_name" | EStructName => "struct_name" | EConstName => "const_name"
  | EOverrideName => "override_name" | EAliasName => "alias_name" | EType => "type" | EAddressSpace => "address_space"
  | EExtensionName => "extension_name" | ESeverityName => "severity_name" | ERuleName => "rule_name"
  | ECaseOrDefault => "case_or_default" | EUnexpectedDecl => "unexpected_decl" | EUnexpectedExpr => "unexpected_expr"
  end.
Definition j_err (e : perr) : json :=
  match e with PErr k i => JArr [JNum (Z.of_nat i); JStr (ekind_name k)] end.

Definition bad (why : string) : json := JObj [("ok", JBool false); ("why", JStr why)].

Definition entry (j : json) : json :=
  match field_arr "toks" j with
  | None => bad "badinput"
  | Some l =>
      match map_opt dec_tok l with
      | None => bad "badkind"
      | Some ts =>
          match parse ts with
          | Parsed ds es => JObj [("ok", JBool true); ("decls", JArr (map j_decl ds)); ("errs", JArr (map j_err es))]
          | OutOfFuel => bad "outoffuel"
          end
      end
  end.

Extraction "model.ml" entry.
