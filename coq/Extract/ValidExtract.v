(* Tool (C08): decode an IR dump, run the validator model and the WGSL-side
   specifications (control-flow placement, per-entry-point binding rule). *)
From Coq Require Import List ZArith String Bool.
Import ListNotations.
Require Import Naga.Base.Json Naga.IR.Syntax Naga.IR.Decode.
Require Import Naga.Valid.ValidatorModel Naga.Valid.ValidatorModelFixed Naga.Valid.CfLegal Naga.Valid.Reach Naga.Valid.BindingRule.
Require Extraction.
Require Import ExtrOcamlBasic.
Open Scope string_scope.
Open Scope list_scope.

Definition class_name (c : vclass) : string :=
  match c with
  | VScalarWidth => "VScalarWidth"
  | VVectorSize => "VVectorSize"
  | VVectorWidth => "VVectorWidth"
  | VMatrixCols => "VMatrixCols"
  | VMatrixRows => "VMatrixRows"
  | VMatrixScalar => "VMatrixScalar"
  | VArrayBase => "VArrayBase"
  | VArrayCircular => "VArrayCircular"
  | VMemberEmptyName => "VMemberEmptyName"
  | VMemberDupName => "VMemberDupName"
  | VMemberType => "VMemberType"
  | VMemberCircular => "VMemberCircular"
  | VPointerBase => "VPointerBase"
  | VConstType => "VConstType"
  | VGlobalDupName => "VGlobalDupName"
  | VGlobalType => "VGlobalType"
  | VGlobalDupBinding => "VGlobalDupBinding"
  | VGlobalInit => "VGlobalInit"
  | VFuncDupName => "VFuncDupName"
  | VArgType => "VArgType"
  | VResultType => "VResultType"
  | VLocalType => "VLocalType"
  | VLocalInit => "VLocalInit"
  | VExprOperand => "VExprOperand"
  | VExprConstant => "VExprConstant"
  | VExprType => "VExprType"
  | VSplatSize => "VSplatSize"
  | VSwizzleSize => "VSwizzleSize"
  | VSwizzlePattern => "VSwizzlePattern"
  | VExprArgIndex => "VExprArgIndex"
  | VExprGlobal => "VExprGlobal"
  | VExprLocal => "VExprLocal"
  | VExprFunction => "VExprFunction"
  | VEmitStart => "VEmitStart"
  | VEmitEnd => "VEmitEnd"
  | VEmitEmpty => "VEmitEmpty"
  | VStmtOperand => "VStmtOperand"
  | VStmtFunction => "VStmtFunction"
  | VSwitchMultiDefault => "VSwitchMultiDefault"
  | VSwitchNoDefault => "VSwitchNoDefault"
  | VBreakOutsideLoop => "VBreakOutsideLoop"
  | VBreakInContinuing => "VBreakInContinuing"
  | VContinueOutsideLoop => "VContinueOutsideLoop"
  | VContinueInContinuing => "VContinueInContinuing"
  | VReturnInContinuing => "VReturnInContinuing"
  | VKillInContinuing => "VKillInContinuing"
  | VEpEmptyName => "VEpEmptyName"
  | VEpDupName => "VEpDupName"
  | VEpVertexNoResult => "VEpVertexNoResult"
  | VEpVertexNoPosition => "VEpVertexNoPosition"
  | VEpWorkgroupZero => "VEpWorkgroupZero"
  | VEpDupBinding => "VEpDupBinding"
  end.

Definition jerr (e : verror) : json :=
  JObj [("c", JStr (class_name (ve_class e))); ("f", JStr (ve_func e)); ("s", JNum (ve_stmt e));
        ("e", match ve_expr e with Some h => JNum (Z.of_nat h) | None => JNull end)].

Definition jfn (m : module) (f : func) : json :=
  JObj [("name", JStr (f_name f));
        ("cf_legal", JBool (cf_legal_bodyb (f_body f)));
        ("breaks_in_loop", JBool (breaks_in_loop_blockb false (f_body f)));
        ("continuing_flat", JBool (continuing_flat_blockb false (f_body f)));
        ("cf_model_errors", JArr (map jerr (cf_errors (vblock (env_of m f) O false 0%Z (f_body f)))))].

Definition jep (m : module) (ep : entry_point) : json :=
  JObj [("name", JStr (ep_name ep));
        ("cf_legal", JBool (cf_legal_bodyb (f_body (ep_func ep))));
        ("reached", match reached_opt m (ep_func ep) with
                    | Some l => JArr (map (fun n => JNum (Z.of_nat n)) l) | None => JNull end);
        ("used_globals", JArr (map (fun n => JNum (Z.of_nat n)) (used_globals m (ep_func ep))));
        ("bindings", JArr (map (fun p => JArr [JNum (fst p); JNum (snd p)]) (ep_bindings m ep)));
        ("bindings_distinct", JBool (nodup_pairsb (ep_bindings m ep)))].

Definition entry (j : json) : json :=
  match dec_module j with
  | Err msg => JObj [("ok", JBool false); ("err", JStr msg)]
  | Ok m =>
    JObj [("ok", JBool true);
          ("errors", JArr (map jerr (validate_model m)));
          ("errors_fixed", JArr (map jerr (validate_model_fx m)));
          ("errors_fixed2", JArr (map jerr (validate_model_fx2 m)));
          ("no_discard_in_continuing",
           JBool (forallb (fun f => no_discard_in_cont_blockb false (f_body f)) (m_functions m)));
          ("functions", JArr (map (jfn m) (m_functions m)));
          ("entry_points", JArr (map (jep m) (m_entry_points m)));
          ("binding_rule_ok", JBool (binding_rule_okb m));
          ("module_bindings_distinct", JBool (nodup_pairsb (module_bindings m)))]
  end.
Extraction "model.ml" entry.
