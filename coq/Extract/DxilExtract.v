(* C18: extraction of the DXIL models/readers behind the generic JSON driver.
   entry : json -> json dispatches on "mode". *)
From Coq Require Import List ZArith String Bool.
Import ListNotations.
Require Import Naga.Base.Json.
Require Import Naga.Dxil.BitsModel Naga.Dxil.BitstreamModel Naga.Dxil.DxbcModel Naga.Dxil.Md5Model Naga.Dxil.MetaModel Naga.Dxil.CheckModel.
Require Import Naga.Dxil.Md5Table.
Require Extraction.
Require Import ExtrOcamlBasic.
Open Scope Z_scope.
Open Scope string_scope.

(* the RFC 1321 step table (the specification); Dxil/GenObligations.v obliges the table
   regenerated from hash.go to be equal to it *)
Definition steps := rfc_steps.

Definition jerr (m : string) : json := JObj [("ok", JBool false); ("err", JStr m)].

Definition bytes_field (k : string) (j : json) : option (list Z) :=
  match field k j with Some v => nums v | None => None end.

(* ---- bitstream tree <-> json ---- *)
Fixpoint json_of_item (it : item) {struct it} : json :=
  match it with
  | Rec code ops => JArr [JStr "R"; JNum code; jnums ops]
  | Blk id nw body => JArr [JStr "B"; JNum id; JNum (Z.of_nat nw); JArr (map json_of_item body)]
  end.

Definition rerr_name (e : rerr) : json :=
  match e with
  | EFuel => JStr "fuel" | ETruncated => JStr "truncated_or_noncanonical_vbr" | EEndAtTop => JStr "end_block_at_top_level"
  | EDefineAbbrev => JStr "define_abbrev_not_in_format" | EUndefAbbrev id => JArr [JStr "undefined_abbrev_id"; JNum id]
  | EBadAbbrevWidth w => JArr [JStr "bad_abbrev_width"; JNum w]
  | EBadPadding => JStr "nonzero_or_missing_alignment_padding"
  | EBlockLen d a => JArr [JStr "block_length_mismatch"; JNum d; JNum a]
  | EMagic => JStr "bad_magic" | EUnaligned => JStr "length_not_multiple_of_4"
  end.

Definition json_of_res (want_tree : bool) (r : res (list item)) : json :=
  match r with
  | Ok l => let '(nr, nb, d) := items_stats l in
            JObj ([("ok", JBool true); ("records", JNum nr); ("blocks", JNum nb); ("depth", JNum d)] ++
                  (if want_tree then [("tree", JArr (map json_of_item l))] else []))
  | Err e p => JObj [("ok", JBool false); ("err", rerr_name e); ("pos", JNum p)]
  end.

(* json -> item (fuel = nesting bound) *)
Fixpoint item_of_json (fuel : nat) (j : json) : option item :=
  match fuel with
  | O => None
  | S f =>
    match j with
    | JArr [JStr k; JNum code; ops] =>
      if String.eqb k "R" then match nums ops with Some l => Some (Rec code l) | None => None end else None
    | JArr [JStr k; JNum id; JNum nw; JArr body] =>
      if String.eqb k "B" then
        match map_opt (item_of_json f) body with Some l => Some (Blk id (Z.to_nat nw) l) | None => None end
      else None
    | _ => None
    end
  end.

(* ---- writer ops ---- *)
Definition op_of_json (j : json) : option wop :=
  match j with
  | JArr (JStr k :: args) =>
    match args with
    | [] => if String.eqb k "align" then Some OAlign else if String.eqb k "exit" then Some OExit else None
    | [JNum a] => if String.eqb k "char6" then Some (OChar6 a) else None
    | [JNum a; JNum b] =>
      if String.eqb k "bits" then Some (OBits a b) else if String.eqb k "fixed" then Some (OFixed a b)
      else if String.eqb k "vbr" then Some (OVbr a b) else if String.eqb k "enter" then Some (OEnter a b) else None
    | [JNum a; vals] =>
      if String.eqb k "record" then match nums vals with Some l => Some (ORecord a l) | None => None end else None
    | [JNum a; vals; blob] =>
      if String.eqb k "blob" then match nums vals, nums blob with Some l, Some bl => Some (OBlob a l bl) | _, _ => None end else None
    | _ => None
    end
  | _ => None
  end.

Definition do_run (j : json) : json :=
  match field_num "aw" j, field_arr "ops" j with
  | Some aw, Some ops =>
    match map_opt op_of_json ops with
    | Some l =>
      match run_ops_lens (new_writer aw) l [] with
      | Some (s, lens) => JObj [("ok", JBool true); ("bytes", jnums (writer_bytes s)); ("lens", jnums lens)]
      | None => JObj [("ok", JBool false); ("err", JStr "panic_or_hang")]
      end
    | None => jerr "bad ops"
    end
  | _, _ => jerr "bad run job"
  end.

Definition do_dec (j : json) : json :=
  match bytes_field "bytes" j with
  | Some b => json_of_res true (dec_bytes b)
  | None => jerr "bad dec job"
  end.

(* tree -> bytes through the writer machine and through the abstract encoder *)
Definition do_enc (j : json) : json :=
  match field_arr "tree" j with
  | Some l =>
    match map_opt (item_of_json 64) l with
    | Some t =>
      JObj [("ok", JBool true);
            ("machine", match serialize_tree t with Some b => jnums b | None => JNull end);
            ("abstract_bits", JNum (Z.of_nat (List.length (enc_stream t))));
            ("agree", match serialize_tree t with Some b => JBool (all_false (map (fun p => xorb (fst p) (snd p)) (combine (bits_of_bytes b) (enc_stream t))) && (Nat.eqb (List.length (bits_of_bytes b)) (List.length (enc_stream t)))) | None => JBool false end);
            ("roundtrip", match serialize_tree t with Some b => json_of_res true (dec_bytes b) | None => JNull end)]
    | None => jerr "bad tree"
    end
  | None => jerr "bad enc job"
  end.

(* ---- container ---- *)
Definition prog_part_of_json (mk : Z -> Z -> Z -> list Z -> part) (j : json) : option part :=
  match field_num "shader_kind" j, field_num "major" j, field_num "minor" j, bytes_field "data" j with
  | Some k, Some ma, Some mi, Some d => Some (mk k ma mi d)
  | _, _, _, _ => None
  end.

Definition part_of_json (j : json) : option part :=
  match field_str "kind" j with
  | Some k =>
    if String.eqb k "raw" then
      match field_num "fourcc" j, bytes_field "data" j with Some fc, Some d => Some (mkPart fc d) | _, _ => None end
    else if String.eqb k "dxil" then prog_part_of_json dxil_part j
    else if String.eqb k "stat" then prog_part_of_json stat_part j
    else if String.eqb k "features" then match field_num "features" j with Some f => Some (features_part f) | None => None end
    else if String.eqb k "hash" then Some hash_part
    else None
  | None => None
  end.

Definition do_container (j : json) : json :=
  match field_arr "parts" j, field_arr "post" j with
  | Some pl, Some post =>
    match map_opt part_of_json pl, map_opt as_str post with
    | Some ps0, Some steps_l =>
      (* "shaderhash" (WriteShaderHashPart) is applied first when requested *)
      let ps := if existsb (String.eqb "shaderhash") steps_l then write_shader_hash_parts steps ps0 else ps0 in
      let b :=
        fold_left (fun (b : list Z) (s : string) =>
          if String.eqb s "bypass" then set_bypass_hash b
          else if String.eqb s "retail" then compute_retail_hash steps b
          else b) steps_l (container_bytes ps) in
      JObj [("ok", JBool true); ("bytes", jnums b)]
    | _, _ => jerr "bad parts"
    end
  | _, _ => jerr "bad container job"
  end.

Definition json_of_program (p : option program) : json :=
  match p with
  | Some g => JObj [("kind", JNum (pg_kind g)); ("major", JNum (pg_major g)); ("minor", JNum (pg_minor g));
                    ("dxil_minor", JNum (pg_dxil_minor g)); ("bitcode_size", JNum (zlen (pg_bitcode g)))]
  | None => JNull
  end.

Definition do_parse (j : json) : json :=
  match bytes_field "bytes" j with
  | Some b =>
    match parse b with
    | Some (digest, ps) =>
      JObj [("ok", JBool true); ("digest", jnums digest);
            ("parts", JArr (map (fun p => JObj [("fourcc", JNum (p_fourcc p)); ("data", jnums (p_data p))]) ps));
            ("rebuilt_equal", JBool (list_eqb (build digest ps) b))]
    | None => JObj [("ok", JBool false)]
    end
  | None => jerr "bad parse job"
  end.

(* the signature elements the consistency rules compare, for reports and coverage counting *)
Definition json_of_pe (e : psv_elem) : json :=
  JObj [("rows", JNum (pe_rows e)); ("start_row", JNum (pe_start_row e)); ("cols", JNum (pe_cols e)); ("start_col", JNum (pe_start_col e));
        ("allocated", JBool (pe_alloc e)); ("kind", JNum (pe_kind e)); ("ctype", JNum (pe_ctype e)); ("semidx", JNum (pe_semidx e));
        ("stream", JNum (pe_stream e))].

Definition json_of_se (e : sig_elem) : json :=
  JObj [("stream", JNum (se_stream e)); ("semidx", JNum (se_semidx e)); ("sysval", JNum (se_sysval e)); ("ctype", JNum (se_ctype e));
        ("reg", JNum (se_reg e)); ("mask", JNum (se_mask e))].

Definition json_of_sigs (ps : list part) : json :=
  let els fc := match find_part fc ps with Some p => JArr (map json_of_se (sig_part_elems (p_data p))) | None => JNull end in
  match find_part FourCC_PSV0 ps with
  | Some pv =>
    let s := psv_sigs_of (p_data pv) in
    JObj [("vin", JNum (ps_vin s)); ("vouts", jnums (ps_vouts s));
          ("ins", JArr (map json_of_pe (ps_ins s))); ("outs", JArr (map json_of_pe (ps_outs s)));
          ("isg", els FourCC_ISG1); ("osg", els FourCC_OSG1); ("psg", els FourCC_PSG1)]
  | None => JNull
  end.

Definition json_of_sig_result (r : option psv_info * option string) : list (string * json) :=
  [("sig", match snd r with
           | None => JObj [("ok", JBool true)]
           | Some e => JObj [("ok", JBool false); ("err", JStr e)]
           end);
   ("psv", match fst r with
           | Some i => JObj [("stage", JNum (psv_stage i)); ("sig_in", JNum (psv_sig_in i)); ("sig_out", JNum (psv_sig_out i));
                             ("resources", JNum (psv_nres i)); ("entry", jnums (psv_entry_name i)); ("threads", jnums (psv_threads i))]
           | None => JNull
           end)].

(* interface parts only: the verified container parser, the program header, the structural walks
   and the element-level consistency rules (no digest, no bitstream) *)
Definition do_sig (j : json) : json :=
  match bytes_field "bytes" j with
  | Some b =>
    match parse b with
    | None => JObj [("ok", JBool false); ("err", JStr "not a canonical DXBC container")]
    | Some (_, ps) =>
      let dx := opt_bind (find_part FourCC_DXIL ps) (fun p => parse_program (p_data p)) in
      JObj ([("ok", JBool true);
             ("parts", JArr (map (fun p => JArr [JNum (p_fourcc p); JNum (zlen (p_data p))]) ps));
             ("order_ok", JBool (expected_order (map p_fourcc ps)));
             ("dxil", json_of_program dx)] ++
            json_of_sig_result (sig_check ps (match dx with Some a => pg_kind a | None => -1 end)) ++
            [("sigs", json_of_sigs ps)])
    end
  | None => jerr "bad sig job"
  end.

Definition do_check (j : json) : json :=
  match bytes_field "bytes" j with
  | Some b =>
    match check_container steps b with
    | None => JObj [("ok", JBool false); ("err", JStr "not a canonical DXBC container")]
    | Some r =>
      JObj ([("ok", JBool true);
            ("parts", JArr (map (fun p => JArr [JNum (fst p); JNum (snd p)]) (r_parts r)));
            ("order_ok", JBool (r_order_ok r));
            ("digest", JStr (match r_digest r with DRetail => "retail" | DBypass => "bypass" | DBad => "bad" end));
            ("dxil", json_of_program (r_dxil r));
            ("stat", json_of_program (r_stat r));
            ("stat_same_bitcode", JBool (r_stat_same_bitcode r));
            ("hash_part_ok", JBool (r_hash_part_ok r));
            ("sfi0_ok", JBool (r_sfi0_ok r));
            ("stream", json_of_res (match field_bool "want_tree" j with Some true => true | _ => false end) (r_stream r));
            ("meta", match r_meta r with
                     | None => JNull
                     | Some None => JObj [("ok", JBool false); ("err", JStr "module does not have the shape serialize.go emits (unknown or short record, block/function count)")]
                     | Some (Some None) => JObj [("ok", JBool true)]
                     | Some (Some (Some rf)) =>
                       JObj [("ok", JBool false);
                             ("err", JStr (let k := r_what rf in
                                           if Z.eqb k 1 then "type id out of range" else if Z.eqb k 2 then "value id out of range"
                                           else if Z.eqb k 3 then "basic block index out of range" else if Z.eqb k 4 then "metadata node id out of range"
                                           else if Z.eqb k 5 then "attribute group/entry not defined" else "count mismatch"));
                             ("at", JArr [JNum (r_what rf); JNum (r_idx rf); JNum (r_bound rf)])]
                     end);
            ("sigs", match parse b with Some (_, ps) => json_of_sigs ps | None => JNull end)] ++
            json_of_sig_result (r_sig r))
    end
  | None => jerr "bad check job"
  end.

Definition do_hash (j : json) : json :=
  match bytes_field "bytes" j with
  | Some b => JObj [("ok", JBool true); ("retail", jnums (retail_md5 steps b)); ("md5", jnums (md5 steps b))]
  | None => jerr "bad hash job"
  end.

Definition do_scalar (j : json) : json :=
  JObj [("ok", JBool true);
        ("signed", match bytes_field "signed" j with Some l => jnums (map encode_signed_vbr l) | None => JNull end);
        ("signed_back", match bytes_field "signed" j with Some l => jnums (map (fun v => decode_signed_vbr (encode_signed_vbr v)) l) | None => JNull end);
        ("char6", match bytes_field "char6" j with
                  | Some l => jnums (map (fun c => match encode_char6 c with Some e => e | None => -1 end) l) | None => JNull end)].

Definition entry (j : json) : json :=
  match field_str "mode" j with
  | Some m =>
    if String.eqb m "run" then do_run j
    else if String.eqb m "dec" then do_dec j
    else if String.eqb m "enc" then do_enc j
    else if String.eqb m "container" then do_container j
    else if String.eqb m "parse" then do_parse j
    else if String.eqb m "check" then do_check j
    else if String.eqb m "sig" then do_sig j
    else if String.eqb m "hash" then do_hash j
    else if String.eqb m "scalar" then do_scalar j
    else jerr "unknown mode"
  | None => jerr "no mode"
  end.

Extraction "model.ml" entry.
