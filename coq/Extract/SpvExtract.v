(* Extracted C02 validator: entry takes a SPIR-V module as a JSON array of 32-bit words
   and returns {"decoded": bool, "violations": [{"rule","idx","a","b","op"}], "stats": {...}}. *)
From Coq Require Import List ZArith String.
Import ListNotations.
Require Import Naga.Base.Json Naga.Spv.Binary Naga.Spv.Validate Naga.Spv.ValidateMain Naga.Spv.SpecNames.
Require Extraction.
Require Import ExtrOcamlBasic.
Open Scope string_scope.
Open Scope Z_scope.

Definition op_at (is : list instr) (idx : Z) : Z :=
  if idx <? 0 then -1 else match nth_error is (Z.to_nat idx) with Some i => opcode i | None => -1 end.

Definition jviolation (is : list instr) (v : violation) : json :=
  JObj [("rule", JStr (v_rule v)); ("idx", JNum (v_idx v)); ("a", JNum (v_a v)); ("b", JNum (v_b v));
        ("op", JNum (op_at is (v_idx v)))].

(* {"consts": [[go type, name, value]...]} -> constants of spirv.go that differ from the specification *)
Definition const_row (j : json) : option (string * string * Z) :=
  match j with
  | JArr [JStr t; JStr n; JNum v] => Some (t, n, v)
  | _ => None
  end.
Definition entry_consts (l : list json) : json :=
  match map_opt const_row l with
  | None => JObj [("error", JStr "bad consts table")]
  | Some rows =>
    JObj [("mismatches", JArr (map (fun m => match m with (t, n, v, s) =>
                                      JObj [("type", JStr t); ("name", JStr n); ("naga", JNum v); ("spec", JNum s)] end)
                                   (const_mismatches rows)));
          ("unknown", JArr (flat_map (fun r => match r with (t, n, _) =>
                                        match spec_value t n with Some _ => [] | None => [JStr n] end end) rows))]
  end.

Definition entry (j : json) : json :=
  match field_arr "consts" j with Some l => entry_consts l | None =>
  match nums j with
  | None => JObj [("decoded", JBool false); ("error", JStr "input is not an array of numbers")]
  | Some ws =>
    match decode ws with
    | None => JObj [("decoded", JBool false); ("error", JStr "not a SPIR-V word stream (short header, word count 0 or overrun)")]
    | Some m =>
      let st := spv_stats m in
      JObj [("decoded", JBool true);
            ("violations", JArr (map (jviolation (snd m)) (spv_validate m)));
            ("stats", JObj [("instrs", JNum (st_instrs st)); ("opaque", JNum (st_opaque st));
                            ("unchecked", JNum (st_unchecked st)); ("functions", JNum (st_functions st));
                            ("blocks", JNum (st_blocks st)); ("ids", JNum (st_ids st));
                            ("version", JNum (vmm (fst m)))])]
    end
  end end.
Extraction "model.ml" entry.
