(* Tool `wgslrun`: execute a generated WGSL-core program (AST of lib/wgslgen.py) under Wgsl/Sem.v.
   Input  {"ast": <program>, "globals": [value|null, ...], "args": [value, ...], "fuel": n}
   Output {"ok":true,"globals":[value...]} | {"ok":false,"kind":...,"msg":...}   (IR/Values JSON codec) *)
From Coq Require Import List ZArith String.
Import ListNotations.
Require Import Naga.Base.Json Naga.IR.Decode Naga.IR.Values Naga.Wgsl.Sem Naga.Wgsl.Decode.
Require Extraction.
Require Import ExtrOcamlBasic.
Open Scope string_scope.
Open Scope list_scope.

Definition opt_value (j : json) : option (option value) :=
  match j with
  | JNull => Some None
  | _ => match value_of_json 64 j with Some v => Some (Some v) | None => None end
  end.

Definition err (kind msg : string) : json := JObj [("ok", JBool false); ("kind", JStr kind); ("msg", JStr msg)].

Definition entry (j : json) : json :=
  match field "ast" j, field_arr "globals" j, field_arr "args" j, field_num "fuel" j with
  | Some aj, Some gs, Some args, Some fuel =>
    match dec_wprog aj with
    | Err msg => err "decode" msg
    | Ok p =>
      match map_opt opt_value gs, map_opt (value_of_json 64) args with
      | Some gvals, Some avals =>
        match wgsl_run (Z.to_nat fuel) p gvals avals with
        | Done gs' => JObj [("ok", JBool true); ("globals", JArr (map json_of_value gs'))]
        | OutOfFuel => err "outoffuel" ""
        | Fail msg => err "fail" msg
        end
      | _, _ => err "decode" "bad value encoding in globals/args"
      end
    end
  | _, _, _, _ => err "decode" "missing ast/globals/args/fuel"
  end.
Extraction "model.ml" entry.
