(* Tool `inlinemodel` (C13): the Gallina model of ir.InlineUserFunctions (Passes/Inline.v) applied to an
   IR dump, printed in the canonical form of Passes/Show.v, so that the harness can compare
   "model applied to BEFORE" with "Go's AFTER" structurally (same protocol as tool passmodel).
   Input  {"pass": "inline" | "id" | "inline_class", "ir": <reflection dump>}
   Output "inline":        {"ok":true, "show": <canonical json>}  |  {"ok":true, "unsupported": reason}
                           reason = cycle | arity | type-range | arg-index   (Go returns an error)
                                  | arg-handle                                 (Go panics / reads an unfilled slot)
          "id":            {"ok":true, "show": <canonical json of the decoded module>}
          "inline_class":  {"ok":true, "call_sites": n, "simple_call_sites": k, "stale": [kinds of callee statements whose
                           operands the pass leaves in the callee's numbering, Passes/InlineStale.v]}  |  {"ok":true, "unsupported": reason}
          {"ok":false, "err": msg} when the dump does not decode *)
From Coq Require Import List ZArith String Bool Arith.
Import ListNotations.
Require Import Naga.Base.Json Naga.IR.Syntax Naga.IR.Decode.
Require Import Naga.Passes.Remap Naga.Passes.Compact Naga.Passes.Show Naga.Passes.Inline Naga.Passes.InlineStale.
Require Extraction.
Require Import ExtrOcamlBasic.
Open Scope string_scope.
Open Scope list_scope.

Definition err_name (e : inl_err) : string :=
  match e with
  | IECycle => "cycle" | IEArity => "arity" | IETypeRange => "type-range"
  | IEArgIndex => "arg-index" | IEArgHandle => "arg-handle"
  end.

Definition entry (j : json) : json :=
  match field_str "pass" j, field "ir" j with
  | Some p, Some irj =>
    match dec_module irj with
    | Err msg => JObj [("ok", JBool false); ("err", JStr msg)]
    | Ok m =>
      if String.eqb p "id" then JObj [("ok", JBool true); ("show", show_module m)]
      else if String.eqb p "inline" then
        match inline_r m with
        | IOk m' => JObj [("ok", JBool true); ("show", show_module m')]
        | IErr e => JObj [("ok", JBool true); ("unsupported", JStr (err_name e))]
        end
      else if String.eqb p "inline_class" then
        match inline_r m, inline_simple_class m with
        | IOk _, Some (n, k) => JObj [("ok", JBool true); ("call_sites", jn n); ("simple_call_sites", jn k);
                                      ("stale", JArr (map JStr (inline_stale m)))]
        | IErr e, _ => JObj [("ok", JBool true); ("unsupported", JStr (err_name e))]
        | _, None => JObj [("ok", JBool true); ("unsupported", JStr "?")]
        end
      else JObj [("ok", JBool false); ("err", JStr ("unknown pass " ++ p))]
    end
  | _, _ => JObj [("ok", JBool false); ("err", JStr "missing pass/ir")]
  end.
Extraction "model.ml" entry.
