(* Executable C14 spec + implementation model behind the generic JSON driver.
   Everything numeric:  ty = 0 bool | 1 i32 | 2 u32 | 3 f32
     LIT   = [0, 0|1] | [1, v, sfx(0 none,1 i,2 u)] | [2, f64bits, sfx(0 none,1 f)]
     EXPR  = [0, LIT] | [1, i] | [2, ty, LIT] | [3, uop, EXPR] | [4, bop, EXPR, EXPR]
     DECL  = {"name": s, "id": n|null, "ty": ty|null, "init": EXPR|null}
     FTREE = [0, [ty,bits]] | [1, i] | [2, i, [ty,bits]] | [3, uop, F] | [4, bop, F, F] | [5]
   input  {"decls":[DECL], "consts":[[key, f64bits]], "globals":[{"ty":ty,"init":EXPR}],
           "wg":[EXPR], "fn":[{"ty":ty|null,"e":EXPR|null,"tree":FTREE}], "conv":[f64bits]}
   output see [entry]. *)
From Coq Require Import List ZArith String Bool.
Import ListNotations.
Require Import Naga.Base.Json Naga.Base.Bits32 Naga.Overrides.F64 Naga.Overrides.Spec Naga.Overrides.Model.
Require Extraction.
Require Import ExtrOcamlBasic.
Open Scope string_scope.
Open Scope Z_scope.

Definition dec_ty (z : Z) : option ty :=
  match z with 0 => Some TBool | 1 => Some TI32 | 2 => Some TU32 | 3 => Some TF32 | _ => None end.
Definition enc_ty (t : ty) : Z := match t with TBool => 0 | TI32 => 1 | TU32 => 2 | TF32 => 3 end.
Definition dec_uop (z : Z) : option uop :=
  match z with 0 => Some UNeg | 1 => Some UNot | 2 => Some UBitNot | _ => None end.
Definition enc_uop (o : uop) : Z := match o with UNeg => 0 | UNot => 1 | UBitNot => 2 end.
Definition bops : list bop := [Add; Sub; Mul; Div; Mod; Eq; Ne; Lt; Le; Gt; Ge; BAnd; BXor; BOr; LAnd; LOr; Shl; Shr].
Definition dec_bop (z : Z) : option bop := if z <? 0 then None else nth_error bops (Z.to_nat z).
Definition enc_bop (o : bop) : Z :=
  match o with Add => 0 | Sub => 1 | Mul => 2 | Div => 3 | Mod => 4 | Eq => 5 | Ne => 6 | Lt => 7 | Le => 8
             | Gt => 9 | Ge => 10 | BAnd => 11 | BXor => 12 | BOr => 13 | LAnd => 14 | LOr => 15 | Shl => 16 | Shr => 17 end.

Definition dec_lit (j : json) : option lit :=
  match j with
  | JArr [JNum 0; JNum b] => Some (LBool (negb (b =? 0)))
  | JArr [JNum 1; JNum v; JNum s] => Some (LInt v (match s with 1 => SI | 2 => SU | _ => SNone end))
  | JArr [JNum 2; JNum b; JNum s] => Some (LFloat b (match s with 1 => FF | _ => FNone end))
  | _ => None
  end.

Fixpoint dec_expr (j : json) : option expr :=
  match j with
  | JArr [JNum 0; l] => option_map ELit (dec_lit l)
  | JArr [JNum 1; JNum i] => Some (ERef (Z.to_nat i))
  | JArr [JNum 2; JNum t; l] => match dec_ty t, dec_lit l with Some t', Some l' => Some (EConst t' l') | _, _ => None end
  | JArr [JNum 3; JNum o; e] => match dec_uop o, dec_expr e with Some o', Some e' => Some (EUn o' e') | _, _ => None end
  | JArr [JNum 4; JNum o; a; b] =>
      match dec_bop o, dec_expr a, dec_expr b with Some o', Some a', Some b' => Some (EBin o' a' b') | _, _, _ => None end
  | _ => None
  end.

Definition dec_glit (j : json) : option glit :=
  match j with
  | JArr [JNum 0; JNum b] => Some (GBool (negb (b =? 0)))
  | JArr [JNum 1; JNum b] => Some (GI32 b)
  | JArr [JNum 2; JNum b] => Some (GU32 b)
  | JArr [JNum 3; JNum b] => Some (GF32 (f32_of_bits b))
  | _ => None
  end.
Definition enc_glit (l : glit) : json :=
  match l with
  | GBool b => jnums [0; if b then 1 else 0]
  | GI32 z => jnums [1; z]
  | GU32 z => jnums [2; z]
  | GF32 f => jnums [3; f32_bits f]
  end.
Definition enc_value (v : value) : json :=
  match v with
  | VBool b => jnums [0; if b then 1 else 0]
  | VI32 z => jnums [1; z]
  | VU32 z => jnums [2; z]
  | VF32 f => jnums [3; f32_bits f]
  end.

Fixpoint dec_ftree (j : json) : fexpr :=
  match j with
  | JArr [JNum 0; l] => match dec_glit l with Some l' => FLit l' | None => FOther end
  | JArr [JNum 1; JNum i] => FOvr (Z.to_nat i)
  | JArr [JNum 2; JNum i; l] => match dec_glit l with Some l' => FConst (Z.to_nat i) l' | None => FOther end
  | JArr [JNum 3; JNum o; e] => match dec_uop o with Some o' => FUn o' (dec_ftree e) | None => FOther end
  | JArr [JNum 4; JNum o; a; b] => match dec_bop o with Some o' => FBin o' (dec_ftree a) (dec_ftree b) | None => FOther end
  | _ => FOther
  end.
Fixpoint enc_ftree (e : fexpr) : json :=
  match e with
  | FLit l => JArr [JNum 0; enc_glit l]
  | FOvr i => JArr [JNum 1; JNum (Z.of_nat i)]
  | FConst i l => JArr [JNum 2; JNum (Z.of_nat i); enc_glit l]
  | FUn o a => JArr [JNum 3; JNum (enc_uop o); enc_ftree a]
  | FBin o a b => JArr [JNum 4; JNum (enc_bop o); enc_ftree a; enc_ftree b]
  | FOther => JArr [JNum 5]
  end.
Fixpoint enc_gexpr (e : gexpr) : json :=
  match e with
  | GLit l => JArr [JNum 0; enc_glit l]
  | GOvr i => JArr [JNum 1; JNum (Z.of_nat i)]
  | GUn o a => JArr [JNum 3; JNum (enc_uop o); enc_gexpr a]
  | GBin o a b => JArr [JNum 4; JNum (enc_bop o); enc_gexpr a; enc_gexpr b]
  end.

Definition opt_num (j : option json) : option Z := match j with Some (JNum z) => Some z | _ => None end.
Definition dec_decl (j : json) : option decl :=
  match field_str "name" j with
  | Some n =>
      let ty := match opt_num (field "ty" j) with Some t => dec_ty t | None => None end in
      let init := match field "init" j with Some JNull | None => Some None
                                          | Some e => option_map Some (dec_expr e) end in
      match init with
      | Some i => Some (mkDecl n (opt_num (field "id" j)) ty i)
      | None => None
      end
  | None => None
  end.
Definition dec_pair (j : json) : option (string * Z) :=
  match j with JArr [JStr k; JNum v] => Some (k, v) | _ => None end.

Definition enc_err (e : err) : json :=
  JStr (match e with EMissing => "missing" | EConv => "conv" | EDiag => "diag" | EType => "type" | EUnsupported => "unsupported" end).
Definition enc_res {A} (f : A -> json) (r : res A) : json :=
  match r with Ok a => JArr [JStr "ok"; f a] | Err e => JArr [JStr "err"; enc_err e] end.
Definition enc_opt {A} (f : A -> json) (o : option A) : json := match o with Some a => f a | None => JNull end.

Definition conv_row (b : Z) : json :=
  let f := f64_of_bits b in
  JObj [("i32", JNum (go_int32 f)); ("u32", JNum (go_uint32 f));
        ("i64not", JNum (f64_bits (f64_of_Z (Z.lnot (go_int64 f)))));
        ("f32", JNum (f32_bits (f32_of_f64 f)));
        ("eq1", JBool (f64_eq f f64_one)); ("eq0", JBool (f64_eq f f64_zero));
        ("rt", JNum (f64_bits f))].

Definition loc_name (l : loc) : string :=
  match l with
  | LNestedBlocks => "nested-block" | LStmtPtrs => "statement-pointer" | LCallArgs => "call-arguments"
  | LExprPtrs => "expression-pointer"
  | LOverrides => "overrides" | LOverrideInitPtr => "override-init" | LOverrideIdPtr => "override-id" | LGlobalExprs => "global-expressions"
  | LConstants => "constants" | LGlobalVars => "global-variables" | LTypes => "types" | LFunctions => "functions"
  | LFnExprs => "fn-expressions" | LFnExprTypes => "fn-expression-types" | LFnLocalVars => "fn-local-vars"
  | LFnLocalInitPtr => "fn-local-init" | LFnNamedExprs => "fn-named-expressions" | LFnBodyTop => "fn-body"
  end.

Definition dec_value (j : json) : option value := option_map value_of_glit (dec_glit j).
(* [0, bop, a, b] | [1, uop, a] with a, b = [ty, bits] *)
Definition optest (j : json) : json :=
  match j with
  | JArr [JNum 0; JNum o; a; b] =>
      match dec_bop o, dec_value a, dec_value b with
      | Some o', Some a', Some b' =>
          JObj [("spec", enc_res enc_value (spec_binop o' a' b'));
                ("model", enc_value (model_binop o' (result_ty o' (type_of a')) a' b'))]
      | _, _, _ => JNull
      end
  | JArr [JNum 1; JNum o; a] =>
      match dec_uop o, dec_value a with
      | Some o', Some a' =>
          JObj [("spec", enc_res enc_value (spec_unop o' a'));
                ("model", enc_value (model_unop o' (type_of a') a'))]
      | _, _ => JNull
      end
  | _ => JNull
  end.

Definition list_of (k : string) (j : json) : list json := match field_arr k j with Some l => l | None => [] end.

Definition entry (j : json) : json :=
  match map_opt dec_decl (list_of "decls" j), map_opt dec_pair (list_of "consts" j) with
  | Some ds, Some m =>
      let gs := lower ds in
      let spec := subst_overrides ds m in
      let vals := match spec with Ok vs => vs | Err _ => [] end in
      let resolved := resolve_all m gs in
      let rvals := match resolved with Some vs => vs | None => [] end in
      let lits := match process gs m with Some ls => ls | None => [] end in
      let gl_model g :=
        match opt_num (field "ty" g), field "init" g with
        | Some t, Some e =>
            match dec_ty t, dec_expr e with
            | Some t', Some e' =>
                JObj [("lowered", enc_opt enc_gexpr (lower_init e'));
                      ("model", enc_opt (fun ge => enc_glit (process_global lits t' ge)) (lower_init e'));
                      ("spec", enc_res enc_value (subst_expr vals (Some t') e'))]
            | _, _ => JNull
            end
        | _, _ => JNull
        end in
      let wg_model e :=
        match dec_expr e with
        | Some e' => JObj [("model", JNum (lower_wg e')); ("spec", enc_res enc_value (subst_expr vals None e'))]
        | None => JNull
        end in
      let fn_model f :=
        let t := match opt_num (field "ty" f) with Some t => dec_ty t | None => None end in
        JObj [("model", match field "tree" f with Some tr => enc_ftree (fold_f lits (dec_ftree tr)) | None => JNull end);
              ("spec", match field "e" f with
                       | Some e => match dec_expr e with Some e' => enc_res enc_value (subst_expr vals t e') | None => JNull end
                       | None => JNull end)] in
      JObj [("lowered", JArr (map (fun g => JObj [("ty", JNum (enc_ty (g_ty g))); ("init", enc_opt enc_gexpr (g_init g))]) gs));
            ("model_po", enc_opt (fun ls => JArr (map enc_glit ls)) (process gs m));
            ("model_msl", JArr (map (enc_opt enc_glit) (msl_resolve gs m)));
            ("spec", enc_res (fun vs => JArr (map enc_value vs)) spec);
            ("spec_each", JArr ((fix go (env : list value) (ds : list decl) : list json :=
                                   match ds with
                                   | [] => []
                                   | d :: ds' => let r := spec_one env m d in
                                                 enc_res enc_value r ::
                                                 match r with Ok v => go ((env ++ [v])%list) ds' | Err _ => [] end
                                   end) [] ds));
            ("globals", JArr (map gl_model (list_of "globals" j)));
            ("wg", JArr (map wg_model (list_of "wg" j)));
            ("fn", JArr (map fn_model (list_of "fn" j)));
            ("leaked", jstrs (map loc_name leaked));
            ("optest", JArr (map optest (list_of "optest" j)));
            ("conv", JArr (map (fun b => match b with JNum z => conv_row z | _ => JNull end) (list_of "conv" j)))]
  | _, _ => JObj [("error", JStr "cannot decode input")]
  end.

Extraction "model.ml" entry.
