(* Tool `spvrun`: execute an entry point of a SPIR-V module under Spv/Sem.v.
   Input  {"words":[...], "ep":"name", "buffers":{"<set>:<binding>": value, ...},
           "builtins":{"GlobalInvocationId": value, "LocalInvocationId": ..., "WorkgroupId": ..., "NumWorkgroups": ...,
                       "LocalInvocationIndex": ...}, "fuel": n}
          values use the codec of IR/Values.v ({"i":bits} {"u":bits} {"f":bits} {"b":bool} {"vec":[..]} {"mat":[..]} {"arr":[..]} {"st":[..]})
   Output {"ok":true,"buffers":{"set:binding": value, ...}}
        | {"ok":false,"kind":"fail"|"ub"|"outoffuel"|"decode","msg":...}
          kind "ub": the execution depends on something the SPIR-V specification leaves undefined
          (msg starts with "UB: "), implementation-chosen ("IMPL: ") or unspecified for NaN ("NAN: ").
   Second mode {"template": <texp json>, "args": [value...]} evaluates a catalogue template (Spv/Catalogue.v)
   -> {"ok":true,"value":v} | {"ok":false,...}: used by the search when the probe table leaves the catalogue. *)
From Coq Require Import List ZArith String Bool.
Import ListNotations.
Require Import Naga.Base.Json Naga.IR.Values Naga.Spv.Binary Naga.Spv.Ops Naga.Spv.Sem Naga.Spv.Catalogue.
Require Extraction.
Require Import ExtrOcamlBasic.
Open Scope string_scope.
Open Scope list_scope.
Open Scope bool_scope.

Definition err (kind msg : string) : json := JObj [("ok", JBool false); ("kind", JStr kind); ("msg", JStr msg)].

Definition starts_with (p s : string) : bool := String.eqb p (substring 0 (String.length p) s).

Definition fail_json (msg : string) : json :=
  if starts_with "UB: " msg || starts_with "IMPL: " msg || starts_with "NAN: " msg then err "ub" msg
  else if starts_with "decode" msg then err "decode" msg
  else err "fail" msg.

Fixpoint named_values (fs : list (string * json)) : option (list (string * value)) :=
  match fs with
  | [] => Some []
  | (k, j) :: r =>
    match value_of_json 64 j, named_values r with
    | Some v, Some vs => Some ((k, v) :: vs)
    | _, _ => None
    end
  end.

Definition obj_fields (k : string) (j : json) : option (list (string * json)) :=
  match field k j with
  | Some (JObj fs) => Some fs
  | None => Some []
  | _ => None
  end.

Definition run_module (j : json) : json :=
  match field "words" j, field_str "ep" j, obj_fields "buffers" j, obj_fields "builtins" j, field_num "fuel" j with
  | Some wj, Some ep, Some bufs, Some bis, Some fuel =>
    match nums wj, named_values bufs, named_values bis with
    | Some ws, Some bvals, Some ivals =>
      match run_words (Z.to_nat (Z.max 0 (Z.min fuel 100000000))) ws ep bvals ivals with
      | Done out => JObj [("ok", JBool true); ("buffers", JObj (map (fun kv => (fst kv, json_of_value (snd kv))) out))]
      | OutOfFuel => err "outoffuel" ""
      | Fail msg => fail_json msg
      end
    | _, _, _ => err "decode" "bad words / value encoding in buffers or builtins"
    end
  | _, _, _, _, _ => err "decode" "missing words/ep/buffers/builtins/fuel"
  end.

Definition run_template (tj : json) (j : json) : json :=
  match texp_of_json 64 tj, field_arr "args" j with
  | Some t, Some aj =>
    match map_opt (value_of_json 64) aj with
    | Some args =>
      match teval args t with
      | Done v => JObj [("ok", JBool true); ("value", json_of_value v)]
      | OutOfFuel => err "outoffuel" ""
      | Fail msg => fail_json msg
      end
    | None => err "decode" "bad value encoding in args"
    end
  | _, _ => err "decode" "bad template"
  end.

Definition entry (j : json) : json :=
  match field "template" j with
  | Some tj => run_template tj j
  | None => run_module j
  end.
Extraction "model.ml" entry.
