(* Tool `glslrun` (property C05): execute `main` of a GLSL program (JSON AST from lib/glslread.py) under Glsl/Sem.v.
   Input  {"ast": <program>, "buffers": {"<block name>": value, ...}, "builtins": {"gl_GlobalInvocationID": value, ...},
           "shared_zero": bool, "fuel": n}
          values use the codec of IR/Values.v.
   Output {"ok":true,"buffers":{"<block name>": value, ...}}
        | {"ok":false,"kind":"fail"|"outoffuel"|"decode","msg":...}
          (msg prefix "UB: " undefined behaviour reached, "TYPE: " ill-typed program, "OOF: " outside the modelled fragment) *)
From Coq Require Import List ZArith String.
Import ListNotations.
Require Import Naga.Base.Json Naga.IR.Values Naga.Glsl.Syntax Naga.Glsl.Decode Naga.Glsl.Sem.
Require Extraction.
Require Import ExtrOcamlBasic.
Open Scope string_scope.
Open Scope list_scope.

Definition err (kind msg : string) : json := JObj [("ok", JBool false); ("kind", JStr kind); ("msg", JStr msg)].

Definition named_values (j : json) : option (list (string * value)) :=
  match j with
  | JObj fs => map_opt (fun kv => match value_of_json 64 (snd kv) with Some v => Some (fst kv, v) | None => None end) fs
  | _ => None
  end.

Definition entry (j : json) : json :=
  match field "ast" j, field "buffers" j, field "builtins" j, field_num "fuel" j with
  | Some astj, Some bj, Some bij, Some fuel =>
    match dec_prog astj with
    | Err msg => err "decode" msg
    | Ok p =>
      match named_values bj, named_values bij with
      | Some bufs, Some bis =>
        let sz := match field_bool "shared_zero" j with Some b => b | None => false end in
        match run_main p (Z.to_nat fuel) bufs bis sz with
        | Done out => JObj [("ok", JBool true); ("buffers", JObj (map (fun kv => (fst kv, json_of_value (snd kv))) out))]
        | OutOfFuel => err "outoffuel" ""
        | Fail msg => err "fail" msg
        end
      | _, _ => err "decode" "bad value encoding in buffers/builtins"
      end
    end
  | _, _, _, _ => err "decode" "missing ast/buffers/builtins/fuel"
  end.
Extraction "model.ml" entry.
