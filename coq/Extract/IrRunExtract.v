(* Tool `irrun`: execute an entry point of an IR dump under IR/Sem.v.
   Input  {"ir": <reflection dump>, "ep": index, "globals": [value|null, ...], "args": [value, ...], "fuel": n}
          values use the codec of IR/Values.v: {"i":bits} {"u":bits} {"f":bits} {"b":bool} {"vec":[..]} {"mat":[..]} {"arr":[..]} {"st":[..]}
   Output {"ok":true,"globals":[value...],"ret":value|null} | {"ok":false,"kind":"fail"|"outoffuel"|"decode","msg":...} *)
From Coq Require Import List ZArith String.
Import ListNotations.
Require Import Naga.Base.Json Naga.IR.Syntax Naga.IR.Decode Naga.IR.Values Naga.IR.Sem.
Require Extraction.
Require Import ExtrOcamlBasic.
Open Scope string_scope.
Open Scope list_scope.

Definition opt_value (j : json) : option (option value) :=
  match j with
  | JNull => Some None
  | _ => match value_of_json 64 j with Some v => Some (Some v) | None => None end
  end.

Definition err (kind msg : string) : json := JObj [("ok", JBool false); ("kind", JStr kind); ("msg", JStr msg)].

Definition entry (j : json) : json :=
  match field "ir" j, field_num "ep" j, field_arr "globals" j, field_arr "args" j, field_num "fuel" j with
  | Some irj, Some ep, Some gs, Some args, Some fuel =>
    match dec_module irj with
    | Err msg => err "decode" msg
    | Ok m =>
      match map_opt opt_value gs, map_opt (value_of_json 64) args with
      | Some gvals, Some avals =>
        match run_entry (Z.to_nat fuel) m (Z.to_nat ep) gvals avals with
        | Done (gs', ret) =>
          JObj [("ok", JBool true); ("globals", JArr (map json_of_value gs'));
                ("ret", match ret with Some v => json_of_value v | None => JNull end)]
        | OutOfFuel => err "outoffuel" ""
        | Fail msg => err "fail" msg
        end
      | _, _ => err "decode" "bad value encoding in globals/args"
      end
    end
  | _, _, _, _, _ => err "decode" "missing ir/ep/globals/args/fuel"
  end.
Extraction "model.ml" entry.
