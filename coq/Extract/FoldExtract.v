(* Extraction of the fold models (C06): entry : json -> json for ocaml/common/driver.ml *)
From Coq Require Import List ZArith String.
Import ListNotations.
Require Import Naga.Base.Json Naga.Fold.FoldModel Naga.Fold.FoldJson.
Require Extraction.
Require Import ExtrOcamlBasic.
Definition null_float_ops : float_ops :=
  {| f_bin_ast := fun _ _ _ => None; f_bin := fun _ _ _ => None; f_neg := fun _ => None; f_as := fun _ _ => None;
     f_math := fun _ _ => None; f_conc := fun _ _ => None; f_ai_to_af := fun v => LAI v |}.
Definition entry (j : json) : json := entry_with null_float_ops j.
Extraction "model.ml" entry.
