(* Extraction of the fold models (C06): entry : json -> json for ocaml/common/driver.ml *)
From Coq Require Import List ZArith String.
Import ListNotations.
Require Import Naga.Base.Json Naga.Fold.FoldModel Naga.Fold.FoldJson Naga.Fold.FoldFloat.
Require Extraction.
Require Import ExtrOcamlBasic.
Open Scope string_scope.

Definition lits_of_json (j : json) : option (list lit) :=
  match j with
  | JArr l => map_opt (fun x => match x with JArr [JStr "lit"; JStr k; JNum n] => lit_of_json k n | _ => None end) l
  | _ => None
  end.

(* {"fn":"dot","xs":[lit..],"ys":[lit..]} -> tryFoldDot on literal vectors *)
Definition entry (j : json) : json :=
  match field_str "fn" j with
  | Some fn =>
    if String.eqb fn "dot" then
      match match field "xs" j with Some x => lits_of_json x | None => None end,
            match field "ys" j with Some y => lits_of_json y | None => None end with
      | Some xs, Some ys =>
        JObj [("r", jopt_lit (match xs with
                              | x :: _ => if is_integer_literal x then fold_dot_int xs ys
                                          else if is_float_literal x then fold_dot_float xs ys else None
                              | [] => None
                              end))]
      | _, _ => JObj [("err", JStr "request")]
      end
    else if String.eqb fn "round_to_f16" then
      match field_num "bits" j with
      | Some b => JObj [("r", JNum (round_to_f16_bits b)); ("ieee", JNum (ieee_round_to_f16_bits b))]
      | None => JObj [("err", JStr "request")]
      end
    else if String.eqb fn "f32_rt" then
      match field_str "op" j, field_num "a" j, field_num "b" j with
      | Some o, Some a, Some b =>
        match assoc_str o binops with
        | Some op => JObj [("r", jopt_lit (f32_rt op a b))]
        | None => JObj [("err", JStr "op")]
        end
      | _, _, _ => JObj [("err", JStr "request")]
      end
    else if String.eqb fn "mod_const_binary" then
      (* integer path (ModEvalModel), else the float fallback of lowerConstantBinaryExpr *)
      match entry_with flocq_float_ops j with
      | JObj (("r", JNull) :: rest) =>
        match match field "e" j with Some e => expr_of_json 64 e | None => None end with
        | Some e => match mod_const_float_fallback e with
                    | Some b => JObj (("r", json_of_lit (LF32 b)) :: ("bits", JNum b) :: ("kind", JStr "float") :: ("float_fallback", JBool true) :: rest)
                    | None => JObj (("r", JNull) :: rest)
                    end
        | None => JObj (("r", JNull) :: rest)
        end
      | a => a
      end
    else entry_with flocq_float_ops j
  | None => JObj [("err", JStr "request")]
  end.
Extraction "model.ml" entry.
