(* C16: executable namer model.  entry : json -> json
     in : {"backend": "hlsl"|"msl"|"glsl", "ops": [["c",[cp..]], ["r",[cp..]], ["{"], ["}"]]}
     out: {"out": [[cp..] | null, ...]}
   The keyword tables are the regenerated Gen/Keywords.v (same ones the theorems use). *)
From Coq Require Import List ZArith String.
Import ListNotations.
Require Import Naga.Base.Json.
Require Import Naga.Namer.Namer Naga.Namer.NamerInst.
Require Extraction.
Require Import ExtrOcamlBasic.
Open Scope Z_scope.

Definition op_of_json (j : json) : option op :=
  match j with
  | JArr (JStr k :: rest) =>
    if String.eqb k "c" then match rest with [l] => option_map Call (nums l) | _ => None end
    else if String.eqb k "r" then match rest with [l] => option_map Reserve (nums l) | _ => None end
    else if String.eqb k "{" then Some Enter
    else if String.eqb k "}" then Some Leave
    else None
  | _ => None
  end.

Definition out_json (o : option str) : json :=
  match o with Some n => jnums n | None => JNull end.

Definition entry (j : json) : json :=
  match field_str "backend" j, field_arr "ops" j with
  | Some b, Some l =>
    match map_opt op_of_json l with
    | Some ops =>
      let res :=
        if String.eqb b "hlsl" then Some (snd (run HLSL hlsl_start ops))
        else if String.eqb b "msl" then Some (snd (run MSL plain_start ops))
        else if String.eqb b "glsl" then Some (snd (run GLSL plain_start ops))
        else None in
      match res with
      | Some outs => JObj [("out"%string, JArr (map out_json outs))]
      | None => JObj [("err"%string, JStr "bad backend")]
      end
    | None => JObj [("err"%string, JStr "bad op")]
    end
  | _, _ => JObj [("err"%string, JStr "bad job")]
  end.

Extraction "model.ml" entry.
