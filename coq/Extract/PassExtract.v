(* Tool `passmodel` (C13): apply the Gallina model of an IR pass to an IR dump and
   print the result in a canonical form, so that the harness can compare
   "model applied to BEFORE" with "Go's AFTER" structurally.
   Input  {"pass": name, "ir": <reflection dump>}     name = "id" prints the decoded module itself
   Output {"ok":true, "show": <canonical json>, "wf": [violations of the hypothesis of the theorems]}
        | {"ok":false, "err": msg} *)
From Coq Require Import List ZArith String Bool Arith.
Import ListNotations.
Require Import Naga.Base.Json Naga.IR.Syntax Naga.IR.Decode Naga.Passes.Remap Naga.Passes.Compact Naga.Passes.Show.
Require Extraction.
Require Import ExtrOcamlBasic.
Open Scope string_scope.
Open Scope list_scope.

Definition apply_pass (p : string) (tuo : list nat) (m : module) : option (module * list nat) :=
  if String.eqb p "id" then Some (m, tuo)
  else if String.eqb p "compact_expressions" then Some (compact_expressions m, tuo)
  else if String.eqb p "compact_unused" then Some (compact_unused m, tuo)
  else if String.eqb p "compact_constants" then Some (compact_constants m, tuo)
  else if String.eqb p "compact_types" then Some (compact_types (m, tuo))
  else if String.eqb p "reorder_types" then Some (reorder_types (m, tuo))
  else if String.eqb p "dedup_emits" then Some (dedup_emits m, tuo)
  else if String.eqb p "lower_pipeline" then Some (lower_pipeline (m, tuo))
  else if String.eqb p "unused_pipeline" then Some (unused_pipeline (m, tuo))
  else None.

Definition entry (j : json) : json :=
  match field_str "pass" j, field "ir" j with
  | Some p, Some irj =>
    match dec_module irj with
    | Err msg => JObj [("ok", JBool false); ("err", JStr msg)]
    | Ok m =>
      let tuo := match field "TypeUseOrder" irj with
                 | Some (JArr l) => flat_map (fun x => match x with JNum z => [Z.to_nat z] | _ => [] end) l
                 | _ => [] end in
      match apply_pass p tuo m with
      | Some (m', tuo') => JObj [("ok", JBool true); ("show", show_module m'); ("type_use_order", JArr (map jn tuo'))]
      | None => JObj [("ok", JBool false); ("err", JStr ("unknown pass " ++ p))]
      end
    end
  | _, _ => JObj [("ok", JBool false); ("err", JStr "missing pass/ir")]
  end.
Extraction "model.ml" entry.
