(* Tool `passmodel` (C13): apply the Gallina model of an IR pass to an IR dump and
   print the result in a canonical form, so that the harness can compare
   "model applied to BEFORE" with "Go's AFTER" structurally.
   Input  {"pass": name, "ir": <reflection dump>}     name = "id" prints the decoded module itself
   Output {"ok":true, "show": <canonical json>, "wf": [violations of the hypothesis of the theorems]}
        | {"ok":false, "err": msg} *)
From Coq Require Import List ZArith String Bool Arith.
Import ListNotations.
Require Import Naga.Base.Json Naga.IR.Syntax Naga.IR.Decode Naga.IR.Values Naga.IR.Sem.
Require Import Naga.Passes.Remap Naga.Passes.Compact Naga.Passes.Show Naga.Passes.Lenient.
Require Import Naga.Passes.RenameSound Naga.Passes.CompactExprProofs Naga.Passes.CompactExprIdem Naga.Passes.CompactUnusedProofs.
Require Extraction.
Require Import ExtrOcamlBasic.
Open Scope string_scope.
Open Scope list_scope.

Definition apply_pass (p : string) (tuo : list nat) (m : module) : option (module * list nat) :=
  if String.eqb p "id" then Some (m, tuo)
  else if String.eqb p "compact_expressions" then Some (compact_expressions m, tuo)
  else if String.eqb p "compact_unused" then Some (compact_unused m, tuo)
  else if String.eqb p "compact_constants" then Some (compact_constants m, tuo)
  else if String.eqb p "compact_types" then Some (compact_types (m, tuo))
  else if String.eqb p "reorder_types" then Some (reorder_types (m, tuo))
  else if String.eqb p "dedup_emits" then Some (dedup_emits m, tuo)
  else if String.eqb p "lower_pipeline" then Some (lower_pipeline (m, tuo))
  else if String.eqb p "unused_pipeline" then Some (unused_pipeline (m, tuo))
  else None.

(* hypotheses of the theorems of Props/C13.v, evaluated on the module at hand *)
Definition hyp_report (m : module) : json :=
  JObj [("module_wf", JBool (module_wfb m));
        ("module_known", JBool (module_known m));
        ("calls_closed", JBool (calls_closedb m (used_functions m)));
        ("calls_in_range", JBool (calls_in_rangeb m));
        ("no_global_removed", JBool (all_true (used_globals m (used_functions m))));
        (* hypothesis gexprs_closedb of c13_compact_unused_sound (Passes/CompactUnusedFull.v), restated here so that
           the tool does not depend on the proof files *)
        ("gexprs_closed", JBool (forallb (fun e => match e with EGlobalVariable _ => false | _ => true end) (m_global_exprs m)));
        ("lazy_funcs", jn (count_lazy m))].

Definition opt_value (j : json) : option (option value) :=
  match j with
  | JNull => Some None
  | _ => match value_of_json 64 j with Some v => Some (Some v) | None => None end
  end.

(* ExprPhi incomings straight from the dump (IR/Decode.v keeps ExprPhi as EOther without operands) *)
Definition phi_of_expr (j : json) : option (list phi_in) :=
  match field "Kind" j with
  | Some k =>
    match tag k, field_arr "Incoming" k with
    | Some t, Some ins =>
      if String.eqb t "ExprPhi" then
        Some (flat_map (fun i => match field_num "PredKey" i, field_num "CaseIdx" i, field_num "Value" i with
                                 | Some a, Some b, Some c => [mkphi (Z.to_nat a) (Z.to_nat b) (Z.to_nat c)]
                                 | _, _, _ => [] end) ins)
      else None
    | _, _ => None
    end
  | None => None
  end.

Fixpoint phi_table_from (i : nat) (es : list json) : phi_table :=
  match es with
  | [] => []
  | e :: es' => match phi_of_expr e with Some ins => (i, ins) :: phi_table_from (S i) es' | None => phi_table_from (S i) es' end
  end.

Definition phi_table_of_func (fj : json) : phi_table :=
  match field_arr "Expressions" fj with Some es => phi_table_from 0 es | None => [] end.

Definition phi_tables (irj : json) : list phi_table :=
  (match field_arr "Functions" irj with Some fs => map phi_table_of_func fs | None => [] end)
  ++ (match field_arr "EntryPoints" irj with
      | Some eps => map (fun e => match field "Function" e with Some fj => phi_table_of_func fj | None => [] end) eps
      | None => [] end).

Definition rerr (kind msg : string) : json := JObj [("ok", JBool false); ("kind", JStr kind); ("msg", JStr msg)].

(* {"pass":"run", "ir":dump, "ep":i, "globals":[..], "args":[..], "fuel":n, "lenient":bool}: as tool irrun,
   optionally on [lenient m] *)
Definition run_entry_json (j irj : json) : json :=
  match field_num "ep" j, field_arr "globals" j, field_arr "args" j, field_num "fuel" j with
  | Some ep, Some gs, Some args, Some fuel =>
    match dec_module irj with
    | Err msg => rerr "decode" msg
    | Ok m0 =>
      let m := match field_bool "lenient" j with Some true => lenient (phi_tables irj) m0 | _ => m0 end in
      match map_opt opt_value gs, map_opt (value_of_json 64) args with
      | Some gvals, Some avals =>
        match run_entry (Z.to_nat fuel) m (Z.to_nat ep) gvals avals with
        | Done (gs', ret) =>
          JObj [("ok", JBool true); ("globals", JArr (map json_of_value gs'));
                ("ret", match ret with Some v => json_of_value v | None => JNull end)]
        | OutOfFuel => rerr "outoffuel" ""
        | Fail msg => rerr "fail" msg
        end
      | _, _ => rerr "decode" "bad value encoding in globals/args"
      end
    end
  | _, _, _, _ => rerr "decode" "missing ep/globals/args/fuel"
  end.

(* {"pass":"runs", "ir":dump, "ep":i, "fuel":n, "lenient":bool, "inputs":[{"globals":[..], "args":[..]}, ...]}:
   the module is decoded once and run on every input; {"ok":true, "results":[<as "run">, ...]} *)
Definition run_one (m : module) (ep fuel : Z) (inp : json) : json :=
  match field_arr "globals" inp, field_arr "args" inp with
  | Some gs, Some args =>
    match map_opt opt_value gs, map_opt (value_of_json 64) args with
    | Some gvals, Some avals =>
      match run_entry (Z.to_nat fuel) m (Z.to_nat ep) gvals avals with
      | Done (gs', ret) =>
        JObj [("ok", JBool true); ("globals", JArr (map json_of_value gs'));
              ("ret", match ret with Some v => json_of_value v | None => JNull end)]
      | OutOfFuel => rerr "outoffuel" ""
      | Fail msg => rerr "fail" msg
      end
    | _, _ => rerr "decode" "bad value encoding in globals/args"
    end
  | _, _ => rerr "decode" "missing globals/args"
  end.

Definition runs_entry_json (j irj : json) : json :=
  match field_num "ep" j, field_arr "inputs" j, field_num "fuel" j with
  | Some ep, Some inputs, Some fuel =>
    match dec_module irj with
    | Err msg => rerr "decode" msg
    | Ok m0 =>
      let m := match field_bool "lenient" j with Some true => lenient (phi_tables irj) m0 | _ => m0 end in
      JObj [("ok", JBool true); ("results", JArr (map (run_one m ep fuel) inputs))]
    end
  | _, _, _ => rerr "decode" "missing ep/inputs/fuel"
  end.

Definition entry (j : json) : json :=
  match field_str "pass" j, field "ir" j with
  | Some p, Some irj =>
    if String.eqb p "run" then run_entry_json j irj else
    if String.eqb p "runs" then runs_entry_json j irj else
    match dec_module irj with
    | Err msg => JObj [("ok", JBool false); ("err", JStr msg)]
    | Ok m =>
      let tuo := match field "TypeUseOrder" irj with
                 | Some (JArr l) => flat_map (fun x => match x with JNum z => [Z.to_nat z] | _ => [] end) l
                 | _ => [] end in
      if String.eqb p "hyp" then JObj [("ok", JBool true); ("hyp", hyp_report m)] else
      match apply_pass p tuo m with
      | Some (m', tuo') => JObj [("ok", JBool true); ("show", show_module m'); ("type_use_order", JArr (map jn tuo'))]
      | None => JObj [("ok", JBool false); ("err", JStr ("unknown pass " ++ p))]
      end
    end
  | _, _ => JObj [("ok", JBool false); ("err", JStr "missing pass/ir")]
  end.
Extraction "model.ml" entry.
