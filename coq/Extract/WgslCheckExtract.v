(* Tool `wgslcheck`: the extracted type checker Wgsl/Typecheck.wgsl_check on an AST of lib/wgslgen.py.
   Input  {"ast": <program>}
   Output {"ok":true,"valid":true} | {"ok":true,"valid":false,"rule":<rule name>,"where":<declaration>}
        | {"ok":false,"kind":"decode","msg":...} *)
From Coq Require Import List ZArith String.
Import ListNotations.
Require Import Naga.Base.Json Naga.IR.Decode Naga.Wgsl.Sem Naga.Wgsl.Decode Naga.Wgsl.Typecheck.
Require Extraction.
Require Import ExtrOcamlBasic.
Open Scope string_scope.
Open Scope list_scope.

Definition entry (j : json) : json :=
  match field "ast" j with
  | Some aj =>
    match dec_wprog aj with
    | Err msg => JObj [("ok", JBool false); ("kind", JStr "decode"); ("msg", JStr msg)]
    | Ok p =>
      match wgsl_check p with
      | None => JObj [("ok", JBool true); ("valid", JBool true)]
      | Some (r, w) => JObj [("ok", JBool true); ("valid", JBool false); ("rule", JStr (rule_name r)); ("where", JStr w)]
      end
    end
  | None => JObj [("ok", JBool false); ("kind", JStr "decode"); ("msg", JStr "missing ast")]
  end.
Extraction "model.ml" entry.
