(* Tool (C09): decode an IR dump, run the verified well-formedness checker IR/Wf.v. *)
From Coq Require Import List ZArith String.
Import ListNotations.
Require Import Naga.Base.Json Naga.IR.Syntax Naga.IR.Decode Naga.IR.Infer Naga.IR.Wf.
Require Extraction.
Require Import ExtrOcamlBasic.
Open Scope string_scope.
Open Scope list_scope.
Definition jviol (v : wf_violation) : json :=
  JArr [JStr (v_clause v); JNum (Z.of_nat (v_fn v)); JNum (Z.of_nat (v_handle v))].
Definition znat (n : nat) : json := JNum (Z.of_nat n).
Definition count_inferred (m : module) (f : func) : nat :=
  List.length (filter (fun o => match o with Some _ => true | None => false end) (infer_all m f)).
Definition sum (l : list nat) : nat := fold_left Nat.add l 0.
Definition entry (j : json) : json :=
  match dec_module j with
  | Err e => JObj [("ok", JBool false); ("err", JStr e)]
  | Ok m =>
    let fs := all_funcs m in
    JObj [("ok", JBool true);
          ("violations", JArr (map jviol (wf_module m)));
          ("notes", JArr (map jviol (wf_notes m)));
          ("types", znat (List.length (m_types m)));
          ("functions", znat (List.length fs));
          ("exprs", znat (sum (map (fun f => List.length (f_exprs f)) fs)));
          ("inferred", znat (sum (map (count_inferred m) fs)));
          ("stmts", znat (sum (map (fun f => block_size (f_body f)) fs)));
          ("fn_names", JArr (map (fun f => JStr (f_name f)) fs))]
  end.
Extraction "model.ml" entry.
