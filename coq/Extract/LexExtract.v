(* Extraction of the lexer model (with the tables regenerated from /repo).
   ExtrOcamlBasic only: bool/option/unit/prod/list/sumbool/sumor map to OCaml's;
   Z, positive, nat stay the Coq datatypes.  No Extract Constant. *)
Require Import Naga.Lex.LexModel Naga.Lex.LexInst Naga.Gen.LexTables.
Require Extraction.
Require Import ExtrOcamlBasic.
Extraction "lexmodel.ml" lex_go.
