(* C07 — naga's lowerer against the WGSL layout: for every host-shareable type tree
   whose @align/@size arguments are decimal literals and in which no nested structure
   has its alignment changed by @align, the lowered layout IS the WGSL layout; and
   concrete trees outside these hypotheses on which the faithful model deviates. *)
From Coq Require Import List ZArith Bool Lia ZifyBool.
Import ListNotations.
Require Import Naga.Layout.Spec Naga.Layout.Constraints Naga.Layout.Naga Naga.Layout.Arith Naga.Layout.SpecProofs.
Open Scope Z_scope.

Definition sinfo (i : Z * Z * Z * Z) : Z * Z :=
  match i with (ta, ts, ea, es) => (if 0 <? ea then ea else ta, if 0 <? es then es else ts) end.

Lemma u32_small : forall x, 0 <= x < 2 ^ 32 -> u32 x = x.
Proof. intros. unfold u32. apply Z.mod_small; auto. Qed.

Lemma fits_from_cons : forall cur a s r, fits_from cur ((a, s) :: r) = true ->
  cur + a - 1 < 2 ^ 32 /\ round_up a cur + s < 2 ^ 32 /\ fits_from (round_up a cur + s) r = true.
Proof. intros cur a s r H. cbn [fits_from] in H. andb_split H. repeat split; auto; lia. Qed.

Lemma hs_width : forall s, hs_scalar s = true -> nwidth s = sw s.
Proof. destruct s; intros; try discriminate; reflexivity. Qed.
Lemma float_width : forall s, float_scalar s = true -> nwidth s = sw s.
Proof. destruct s; intros; try discriminate; reflexivity. Qed.

(* lowerStruct's loop computes the spec's offsets, end and maximum alignment *)
Lemma nloop_spec : forall nl cur m,
  infos_pos (map sinfo nl) -> fits_from cur (map sinfo nl) = true -> 0 <= cur ->
  nloop cur m nl = (offsets_from cur (map sinfo nl), end_from cur (map sinfo nl),
                    fold_right (fun i acc => Z.max (fst i) acc) m (rev (map sinfo nl))).
Proof.
  induction nl as [|[[[ta ts] ea] es] r IH]; intros cur m Hpos Hfit Hcur.
  - reflexivity.
  - cbn [map] in *. remember (sinfo (ta, ts, ea, es)) as si eqn:Esi. destruct si as [a s].
    inversion Hpos as [|x y [Ha Hs] Hr]; subst x y. cbn [fst snd] in Ha, Hs.
    destruct (fits_from_cons _ _ _ _ Hfit) as [F1 [F2 F3]].
    pose proof (pow2_pos _ Ha) as Hapos.
    cbn [nloop]. cbn [sinfo] in Esi. inversion Esi as [[Ea Es]]. rewrite <- Ea, <- Es.
    rewrite (nround_eq a cur Ha Hcur F1).
    pose proof (round_up_ge a cur Hapos).
    rewrite (u32_small (round_up a cur + s)) by lia.
    rewrite (IH (round_up a cur + s) (if m <? a then a else m) Hr F3) by lia.
    cbn [offsets_from end_from rev]. f_equal.
    rewrite fold_right_app. cbn [fold_right fst]. f_equal. destruct (m <? a) eqn:L; lia.
Qed.

Lemma fold_max_base : forall (l : list (Z * Z)) m, 1 <= m ->
  fold_right (fun i acc => Z.max (fst i) acc) m l = Z.max m (fold_right (fun i acc => Z.max (fst i) acc) 1 l).
Proof. induction l as [|i r IH]; intros m Hm; cbn [fold_right]. lia. rewrite (IH m Hm). lia. Qed.

Lemma fold_max_app_comm : forall (l1 l2 : list (Z * Z)) m,
  fold_right (fun i acc => Z.max (fst i) acc) m (l1 ++ l2) =
  fold_right (fun i acc => Z.max (fst i) acc) m (l2 ++ l1).
Proof.
  intros. rewrite !fold_right_app.
  revert l2 m. induction l1 as [|i r IH]; intros l2 m; cbn [fold_right]; auto.
  rewrite IH. clear IH. induction l2 as [|j q IH2]; cbn [fold_right]; auto.
  rewrite <- IH2. lia.
Qed.

Lemma fold_max_rev_eq : forall (l : list (Z * Z)) m,
  fold_right (fun i acc => Z.max (fst i) acc) m (rev l) = fold_right (fun i acc => Z.max (fst i) acc) m l.
Proof.
  induction l as [|i r IH]; intros m; cbn [rev]; auto.
  rewrite fold_max_app_comm. cbn [app fold_right]. rewrite IH. reflexivity.
Qed.

Lemma nloop_spec' : forall nl,
  infos_pos (map sinfo nl) -> fits_from 0 (map sinfo nl) = true ->
  nloop 0 1 nl = (offsets_from 0 (map sinfo nl), end_from 0 (map sinfo nl), struct_align (map sinfo nl)).
Proof.
  intros nl Hp Hf. rewrite nloop_spec by (auto; lia). rewrite fold_max_rev_eq. reflexivity.
Qed.

Lemma noffsets_spec : forall nl, infos_pos (map sinfo nl) -> fits_from 0 (map sinfo nl) = true ->
  noffsets nl = offsets_from 0 (map sinfo nl).
Proof. intros. unfold noffsets. rewrite nloop_spec' by auto. reflexivity. Qed.

Lemma nspan_spec : forall nl, infos_pos (map sinfo nl) -> fits_from 0 (map sinfo nl) = true ->
  end_from 0 (map sinfo nl) + struct_align (map sinfo nl) - 1 < 2 ^ 32 ->
  nspan nl = struct_size (map sinfo nl).
Proof.
  intros nl Hp Hf He. unfold nspan. rewrite nloop_spec' by auto. unfold struct_size.
  apply nround_eq; auto. apply struct_align_pow2; auto.
  pose proof (offsets_chain _ 0 Hp) as Hc.
  apply (chain_le_end _ _ _ _ (infos_pos_sizes _ Hp) Hc).
Qed.

(* explicit attribute as the lowerer reads it *)
Lemma nattr_dec : forall oa d, dec_attr oa = true ->
  (forall a, oa = Some a -> 0 < aval a < 2 ^ 32) ->
  (if 0 <? nattr oa then nattr oa else d) = attr_or oa d.
Proof.
  intros [a|] d Hd Hr; cbn [nattr attr_or]; [|reflexivity].
  cbn [dec_attr] in Hd. destruct (aform_of a); try discriminate.
  specialize (Hr a eq_refl). rewrite u32_small by lia.
  destruct (0 <? aval a) eqn:E; lia.
Qed.

Lemma sinfo_ninfo : forall m, nals (mty m) = als (mty m) ->
  dec_attr (mal m) = true -> dec_attr (msz m) = true ->
  align_attr_ok (mal m) (mty m) = true -> size_attr_ok (msz m) (mty m) = true ->
  attr_or (mal m) 1 < 2 ^ 32 -> attr_or (msz m) 1 < 2 ^ 32 ->
  sinfo (ninfo m) = member_info m.
Proof.
  intros [oa os t] E Da Ds Aa As Fa Fs. cbn [mty mal msz] in *.
  unfold ninfo, member_info, align_of, size_of. cbn [mty mal msz]. rewrite E.
  destruct (als t) as [a s]. cbn [sinfo fst snd]. f_equal; apply nattr_dec; auto.
  - intros x ->. cbn [align_attr_ok attr_or] in *. andb_split Aa.
    pose proof (pow2_pos _ (pow2b_pow2 _ Aa)). lia.
  - intros x ->. cbn [size_attr_ok attr_or] in *. lia.
Qed.

(* the struct case of typeAlignmentAndSize takes the maximum over member TYPES *)
Lemma nals_struct_align : forall ms acc, 1 <= acc ->
  Forall (fun m => nals (mty m) = als (mty m)) ms ->
  fold_left (fun acc i => match i with (a, _, _, _) => if acc <? a then a else acc end) (ninfos ms) acc
  = Z.max acc (natural_struct_align ms).
Proof.
  induction ms as [|m r IH]; intros acc Hacc HF; cbn [ninfos map fold_left natural_struct_align fold_right].
  - lia.
  - inversion HF as [|x y E Hr]; subst x y.
    fold (natural_struct_align r). set (N := natural_struct_align r) in *.
    unfold ninfo. rewrite E. unfold align_of. destruct (als (mty m)) as [a s]. cbn [fst].
    change (map (fun m0 => let '(a0, s0) := nals (mty m0) in (a0, s0, nattr (mal m0), nattr (msz m0))) r) with (ninfos r).
    rewrite IH; auto.
    + destruct (acc <? a) eqn:L; lia.
    + destruct (acc <? a) eqn:L; lia.
Qed.

Lemma nals_struct_unfold : forall ms,
  nals (TStruct ms) =
  (fold_left (fun acc i => match i with (a, _, _, _) => if acc <? a then a else acc end) (ninfos ms) 1,
   nspan (ninfos ms)).
Proof.
  intros. cbn [nals].
  assert (E : map (fun m => match m with Mem oa os t' => let '(a, s) := nals t' in (a, s, nattr oa, nattr os) end) ms
              = ninfos ms).
  { apply map_ext. intros [oa os t]. unfold ninfo. cbn [mty mal msz]. reflexivity. }
  rewrite E. reflexivity.
Qed.

(* members of a structure satisfying the hypotheses *)
Lemma hyp_members : forall ms,
  wf (TStruct ms) = true -> plain_attrs (TStruct ms) = true -> fits (TStruct ms) = true ->
  Forall (fun m => nals (mty m) = als (mty m)) ms ->
  map sinfo (ninfos ms) = infos_of ms.
Proof.
  intros ms Hwf Hpl Hfit HF. unfold ninfos, infos_of. rewrite map_map. apply map_ext_in.
  intros m Hin. pose proof (wf_struct_members _ Hwf) as Hm. rewrite Forall_forall in Hm, HF.
  destruct (Hm m Hin) as [W [A S]].
  cbn [plain_attrs] in Hpl. rewrite forallb_forall in Hpl. specialize (Hpl m Hin).
  cbn [fits] in Hfit. andb_split Hfit. rewrite forallb_forall in Hfit. specialize (Hfit m Hin).
  destruct m as [oa os t]. cbn beta iota in Hpl, Hfit. andb_split Hpl. andb_split Hfit.
  apply sinfo_ninfo; cbn [mty mal msz] in *; auto; try lia. apply (HF _ Hin).
Qed.

Lemma nals_eq : forall t,
  wf t = true -> plain_attrs t = true -> align_inert t = true -> fits t = true ->
  nals t = als t.
Proof.
  induction t using ty_ind'; intros Hwf Hpl Hin Hfit.
  - cbn [nals als]. cbn [wf] in Hwf. destruct s; try discriminate; reflexivity.
  - cbn [nals als]. cbn [wf] in Hwf. unfold dim_ok in Hwf. andb_split Hwf.
    unfold vec_factor, vec_align, vec_size. rewrite (hs_width _ Hwf0).
    assert (n = 2 \/ n = 3 \/ n = 4) as [ -> | [ -> | -> ] ] by lia; cbn [Z.eqb Pos.eqb orb];
      destruct s; cbn [sw]; reflexivity.
  - cbn [nals als]. cbn [wf] in Hwf. unfold dim_ok in Hwf. andb_split Hwf.
    unfold mat_factor, vec_align, vec_size. rewrite (float_width _ Hwf0).
    assert (c = 2 \/ c = 3 \/ c = 4) as [ -> | [ -> | -> ] ] by lia;
    assert (r = 2 \/ r = 3 \/ r = 4) as [ -> | [ -> | -> ] ] by lia; cbn [Z.eqb Pos.eqb orb];
      destruct s; try discriminate; cbn [sw]; vm_compute; reflexivity.
  - cbn [nals als]. cbn [wf] in Hwf. destruct s; try discriminate; reflexivity.
  - cbn [wf plain_attrs align_inert fits] in *. andb_split Hwf. andb_split Hfit.
    specialize (IHt Hwf Hpl Hin Hfit). cbn [nals als]. rewrite IHt.
    destruct (wf_als _ Hwf) as [P S]. unfold stride_of, align_of, size_of in *.
    destruct (als t) as [a s]. cbn [fst snd] in *.
    rewrite nround_eq by (auto; lia).
    pose proof (pow2_pos _ P). pose proof (round_up_nonneg a s).
    rewrite u32_small by nia. f_equal. lia.
  - cbn [wf plain_attrs align_inert fits] in *. andb_split Hwf. andb_split Hfit.
    specialize (IHt Hwf Hpl Hin Hfit). cbn [nals als]. rewrite IHt.
    destruct (wf_als _ Hwf) as [P S]. unfold stride_of, align_of, size_of in *.
    destruct (als t) as [a s]. cbn [fst snd] in *.
    rewrite nround_eq by (auto; lia). reflexivity.
  - assert (HF : Forall (fun m => nals (mty m) = als (mty m)) ms).
    { pose proof (wf_struct_members _ Hwf) as Hm. rewrite Forall_forall in *. intros m Hinm.
      destruct (Hm m Hinm) as [W _]. apply H; auto.
      - cbn [plain_attrs] in Hpl. rewrite forallb_forall in Hpl. specialize (Hpl m Hinm).
        destruct m; cbn beta iota in Hpl. andb_split Hpl. auto.
      - cbn [align_inert] in Hin. andb_split Hin. rewrite forallb_forall in Hin0. specialize (Hin0 m Hinm).
        destruct m; auto.
      - cbn [fits] in Hfit. andb_split Hfit. rewrite forallb_forall in Hfit. specialize (Hfit m Hinm).
        destruct m; cbn beta iota in Hfit. andb_split Hfit. auto. }
    pose proof (hyp_members _ Hwf Hpl Hfit HF) as HS.
    pose proof (wf_infos_pos _ Hwf) as Hpos.
    rewrite nals_struct_unfold, als_struct.
    cbn [fits] in Hfit. andb_split Hfit. cbn [align_inert] in Hin. andb_split Hin.
    unfold no_align_raise in Hin. f_equal.
    + rewrite nals_struct_align by (auto; lia).
      assert (1 <= natural_struct_align ms).
      { unfold natural_struct_align. clear. induction ms; cbn [fold_right]; lia. }
      lia.
    + rewrite nspan_spec; rewrite HS; auto; lia.
Qed.

(* ---- the layout the IR carries ---- *)

Lemma ir_type_size_leaf : forall t, wf t = true ->
  match t with TArray _ _ | TRArray _ | TStruct _ => True | _ => ir_type_size t = size_of t end.
Proof.
  intros t Hwf. destruct t; auto; unfold size_of; cbn [ir_type_size als snd]; cbn [wf] in Hwf.
  - destruct s; try discriminate; reflexivity.
  - unfold dim_ok in Hwf. andb_split Hwf. unfold vec_size. rewrite (hs_width _ Hwf0).
    apply u32_small. destruct s; cbn [sw]; lia.
  - unfold dim_ok in Hwf. andb_split Hwf. unfold ir_vector_alignment, vec_align, vec_size.
    rewrite (float_width _ Hwf0).
    assert (c = 2 \/ c = 3 \/ c = 4) as [ -> | [ -> | -> ] ] by lia;
    assert (r = 2 \/ r = 3 \/ r = 4) as [ -> | [ -> | -> ] ] by lia; cbn [Z.eqb Pos.eqb];
      destruct s; try discriminate; vm_compute; reflexivity.
  - destruct s; try discriminate; reflexivity.
Qed.

Lemma nstride_eq : forall e, wf e = true -> nals e = als e ->
  size_of e + align_of e - 1 < 2 ^ 32 -> nstride e = stride_of e.
Proof.
  intros e Hwf E Hf. unfold nstride, stride_of, align_of, size_of in *. rewrite E.
  destruct (wf_als _ Hwf) as [P S]. unfold align_of, size_of in *. destruct (als e) as [a s]. cbn [fst snd] in *.
  apply nround_eq; auto; lia.
Qed.

Lemma forallb_mem : forall (f : member -> bool) ms m, forallb f ms = true -> In m ms -> f m = true.
Proof. intros f ms m H Hin. rewrite forallb_forall in H. auto. Qed.

Lemma naga_layout_eq_inert : forall t,
  wf t = true -> plain_attrs t = true -> align_inert t = true -> fits t = true ->
  naga_layout t = spec_layout t.
Proof.
  induction t using ty_ind'; intros Hwf Hpl Hin Hfit;
    try (cbn [naga_layout spec_layout]; f_equal; apply (ir_type_size_leaf _ Hwf)).
  - cbn [wf plain_attrs align_inert fits] in *. andb_split Hwf. andb_split Hfit.
    cbn [naga_layout spec_layout]. rewrite IHt by auto.
    rewrite nstride_eq; auto; try lia. apply nals_eq; auto.
  - cbn [wf plain_attrs align_inert fits] in *. andb_split Hwf. andb_split Hfit.
    cbn [naga_layout spec_layout]. rewrite IHt by auto.
    rewrite nstride_eq; auto; try lia. apply nals_eq; auto.
  - pose proof (wf_struct_members _ Hwf) as Hm.
    assert (Hsub : forall m, In m ms -> wf (mty m) = true /\ plain_attrs (mty m) = true /\
                                      align_inert (mty m) = true /\ fits (mty m) = true).
    { intros m Hinm. rewrite Forall_forall in Hm. destruct (Hm m Hinm) as [W _].
      cbn [plain_attrs] in Hpl. pose proof (forallb_mem _ _ _ Hpl Hinm) as A.
      cbn [align_inert] in Hin. andb_split Hin. pose proof (forallb_mem _ _ _ Hin0 Hinm) as B.
      cbn [fits] in Hfit. andb_split Hfit. pose proof (forallb_mem _ _ _ Hfit Hinm) as C.
      destruct m; cbn beta iota in A, B, C. andb_split A. andb_split C. cbn [mty]. auto. }
    assert (HF : Forall (fun m => nals (mty m) = als (mty m)) ms).
    { rewrite Forall_forall. intros m Hinm. destruct (Hsub m Hinm) as [A [B [C D]]]. apply nals_eq; auto. }
    pose proof (hyp_members _ Hwf Hpl Hfit HF) as HS.
    pose proof (wf_infos_pos _ Hwf) as Hpos.
    cbn [naga_layout spec_layout].
    cbn [fits] in Hfit. andb_split Hfit.
    rewrite nspan_spec, noffsets_spec; rewrite ?HS; auto; try lia.
    unfold size_of. rewrite als_struct. cbn [snd]. unfold member_offsets. f_equal.
    apply map_ext_in. intros m Hinm. destruct (Hsub m Hinm) as [A [B [C D]]].
    rewrite Forall_forall in H. specialize (H m Hinm). destruct m. cbn [mty] in *. auto.
Qed.

(* ---- root statement: the root structure's own alignment is never consulted ---- *)

Lemma inert_members : forall ms m, In m ms ->
  wf (TStruct ms) = true -> plain_attrs (TStruct ms) = true ->
  inner_align_inert (TStruct ms) = true -> fits (TStruct ms) = true ->
  wf (mty m) = true /\ plain_attrs (mty m) = true /\ align_inert (mty m) = true /\ fits (mty m) = true.
Proof.
  intros ms m Hinm Hwf Hpl Hin Hfit.
  pose proof (wf_struct_members _ Hwf) as Hm. rewrite Forall_forall in Hm. destruct (Hm m Hinm) as [W _].
  cbn [plain_attrs] in Hpl. pose proof (forallb_mem _ _ _ Hpl Hinm) as A.
  cbn [inner_align_inert] in Hin. pose proof (forallb_mem _ _ _ Hin Hinm) as B.
  cbn [fits] in Hfit. andb_split Hfit. pose proof (forallb_mem _ _ _ Hfit Hinm) as C.
  destruct m; cbn beta iota in A, B, C. andb_split A. andb_split C. cbn [mty] in *. auto.
Qed.

Lemma root_members_infos : forall ms,
  wf (TStruct ms) = true -> plain_attrs (TStruct ms) = true ->
  inner_align_inert (TStruct ms) = true -> fits (TStruct ms) = true ->
  map sinfo (ninfos ms) = infos_of ms.
Proof.
  intros ms Hwf Hpl Hin Hfit. apply hyp_members; auto.
  rewrite Forall_forall. intros m Hinm.
  destruct (inert_members _ _ Hinm Hwf Hpl Hin Hfit) as [A [B [C D]]]. apply nals_eq; auto.
Qed.

Lemma root_offsets_span : forall ms,
  wf (TStruct ms) = true -> plain_attrs (TStruct ms) = true ->
  inner_align_inert (TStruct ms) = true -> fits (TStruct ms) = true ->
  noffsets (ninfos ms) = member_offsets ms /\ nspan (ninfos ms) = size_of (TStruct ms).
Proof.
  intros ms Hwf Hpl Hin Hfit.
  pose proof (root_members_infos _ Hwf Hpl Hin Hfit) as HS.
  pose proof (wf_infos_pos _ Hwf) as Hpos.
  cbn [fits] in Hfit. andb_split Hfit.
  rewrite nspan_spec, noffsets_spec; rewrite ?HS; auto; try lia.
  unfold size_of. rewrite als_struct. auto.
Qed.

Theorem naga_layout_eq_spec_partial : forall t,
  wf t = true -> plain_attrs t = true -> inner_align_inert t = true -> fits t = true ->
  naga_layout t = spec_layout t.
Proof.
  intros t Hwf Hpl Hin Hfit. destruct t; try (apply naga_layout_eq_inert; auto; fail).
  destruct (root_offsets_span _ Hwf Hpl Hin Hfit) as [Ho Hs].
  cbn [naga_layout spec_layout]. rewrite Ho, Hs. f_equal.
  apply map_ext_in. intros m Hinm.
  destruct (inert_members _ _ Hinm Hwf Hpl Hin Hfit) as [A [B [C D]]].
  destruct m. cbn [mty] in *. apply naga_layout_eq_inert; auto.
Qed.

(* ir.TypeSize answers SizeOf *)
Theorem ir_type_size_eq : forall t,
  wf t = true -> plain_attrs t = true -> inner_align_inert t = true -> fits t = true ->
  ir_type_size t = size_of t.
Proof.
  intros t Hwf Hpl Hin Hfit.
  destruct t; try (apply (ir_type_size_leaf _ Hwf)).
  - cbn [wf plain_attrs inner_align_inert align_inert fits] in *. andb_split Hwf. andb_split Hfit.
    cbn [ir_type_size]. rewrite nstride_eq; auto; try lia; [|apply nals_eq; auto].
    rewrite array_size_is_count_times_stride. apply u32_small.
    destruct (wf_als _ Hwf) as [P S]. pose proof (pow2_pos _ P).
    pose proof (round_up_nonneg (align_of t) (size_of t)). unfold stride_of in *. nia.
  - cbn [wf plain_attrs inner_align_inert align_inert fits] in *. andb_split Hwf. andb_split Hfit.
    cbn [ir_type_size]. rewrite nstride_eq; auto; try lia; [|apply nals_eq; auto].
    unfold size_of, stride_of, align_of, size_of. cbn [als]. destruct (wf_als _ Hwf) as [P S].
    unfold align_of, size_of in *. destruct (als t) as [a s]. cbn [fst snd] in *.
    pose proof (pow2_pos _ P). pose proof (round_up_nonneg a s). pose proof (round_up_lt a s).
    rewrite Z.mul_1_l. apply u32_small. lia.
  - cbn [ir_type_size]. apply (root_offsets_span _ Hwf Hpl Hin Hfit).
Qed.

(* ---- refutations: the faithful model deviates outside the hypotheses ---- *)

Definition dec (v : Z) : option attr := Some (mkattr FDec v).
Definition hex (v : Z) : option attr := Some (mkattr FHex v).
Definition cex (v : Z) : option attr := Some (mkattr FExpr v).

(* struct A { @align(16) x: f32 }   struct B { y: f32, a: A } *)
Definition wit_nested_align : ty :=
  TStruct [Mem None None (TScalar SF32);
           Mem None None (TStruct [Mem (dec 16) None (TScalar SF32)])].

(* struct S { a: f32, @align(0x10) b: f32, c: f32 } *)
Definition wit_hex_align : ty :=
  TStruct [Mem None None (TScalar SF32); Mem (hex 16) None (TScalar SF32); Mem None None (TScalar SF32)].
(* const K = 16; struct S { a: f32, @size(K) b: f32, c: f32 } *)
Definition wit_expr_size : ty :=
  TStruct [Mem None None (TScalar SF32); Mem None (cex 16) (TScalar SF32); Mem None None (TScalar SF32)].

Theorem naga_layout_refuted_nested_align :
  exists t, wf t = true /\ plain_attrs t = true /\ fits t = true /\ naga_layout t <> spec_layout t.
Proof. exists wit_nested_align. vm_compute. repeat split; try reflexivity. discriminate. Qed.

Theorem naga_layout_refuted_nonliteral_attr :
  (exists t, wf t = true /\ inner_align_inert t = true /\ fits t = true /\ naga_layout t <> spec_layout t) /\
  (exists t, wf t = true /\ inner_align_inert t = true /\ fits t = true /\ naga_layout t <> spec_layout t).
Proof.
  split; [exists wit_hex_align | exists wit_expr_size]; vm_compute; repeat split; try reflexivity; discriminate.
Qed.
