(* C07 — HLSL: byte-address arithmetic for storage buffers, transliterated from
   /repo/hlsl/internal/codegen/storage.go
      computeSubAccess (580-636): struct member -> Members[i].Offset; array -> Stride * i;
        vector -> Scalar.Width * i; matrix -> alignmentFromVectorSize(Rows) * Width * i
      alignmentFromVectorSize (511-520)
      writeStorageAddress (655-677): the chain's literals joined with '+'
   Offsets and strides are the ones stored in the IR (Layout/Naga.v).  Definitions only. *)
From Coq Require Import List ZArith Bool.
Import ListNotations.
Require Import Naga.Layout.Spec Naga.Layout.Naga.
Open Scope Z_scope.

Definition hlsl_alignment_from_vector_size (n : Z) : Z :=
  if n =? 2 then 2 else if (n =? 3) || (n =? 4) then 4 else 1.

(* sum of the literals of the access chain for the component reached by path p *)
Fixpoint hlsl_access_offset (p : list Z) (t : ty) : option Z :=
  match p with
  | [] => Some 0
  | i :: q =>
      if i <? 0 then None else
      match t with
      | TStruct ms =>
          match nth_error ms (Z.to_nat i), nth_error (noffsets (ninfos ms)) (Z.to_nat i) with
          | Some m, Some o => option_map (Z.add o) (hlsl_access_offset q (mty m))
          | _, _ => None
          end
      | TArray e n =>
          if i <? n then option_map (Z.add (u32 (nstride e * i))) (hlsl_access_offset q e) else None
      | TRArray e => option_map (Z.add (u32 (nstride e * i))) (hlsl_access_offset q e)
      | TMat c r s =>
          if i <? c then option_map (Z.add (u32 (u32 (hlsl_alignment_from_vector_size r * nwidth s) * i)))
                                    (hlsl_access_offset q (TVec r s)) else None
      | TVec n s =>
          if i <? n then option_map (Z.add (u32 (nwidth s * i))) (hlsl_access_offset q (TScalar s)) else None
      | _ => None
      end
  end.

(* ------------------------------------------------------------------------
   Constant buffers: the HLSL packing rules for cbuffer members ("Packing Rules
   for Constant Variables", Direct3D HLSL documentation): members are packed into
   16-byte registers on 4-byte boundaries; a scalar or vector that would straddle a
   register boundary starts at the next register; every array element, every matrix
   row (a row_major matrix: one register per row) and every structure starts at a
   register boundary; a structure's size is a multiple of 16; the last element of
   an array / last row of a matrix is NOT padded, the following member may share
   its register.  Used on the struct definitions naga emits for `cbuffer`s
   (hlsl/internal/codegen/types.go writeStructDefinition: `int _padN_k` members,
   matCx2 members decomposed into C float2 columns). *)
Inductive htype :=
| HS                                   (* 32-bit scalar *)
| HV (n : Z)                           (* vector of n 32-bit components *)
| HM (rows cols : Z)                   (* row_major matrix: `rows` registers of `cols` components *)
| HA (e : htype) (n : Z)
| HStruct (fs : list (bool * htype)).  (* true = padding / continuation member *)

Definition hplace_small (cur size : Z) : Z :=
  let o := round_up 4 cur in
  if 16 <? o mod 16 + size then round_up 16 o else o.

Fixpoint hsize (h : htype) : Z :=
  match h with
  | HS => 4
  | HV n => 4 * n
  | HM r c => (r - 1) * 16 + c * 4
  | HA e n => (n - 1) * round_up 16 (hsize e) + hsize e
  | HStruct fs =>
      round_up 16
        ((fix go (cur : Z) (l : list (bool * htype)) : Z :=
            match l with
            | [] => cur
            | (_, f) :: r =>
                let s := hsize f in
                let o := match f with HS | HV _ => hplace_small cur s | _ => round_up 16 cur end in
                go (o + s) r
            end) 0 fs)
  end.

Definition hplace (cur : Z) (f : htype) : Z :=
  match f with HS | HV _ => hplace_small cur (hsize f) | _ => round_up 16 cur end.

Fixpoint hoffsets (cur : Z) (fs : list (bool * htype)) : list Z :=
  match fs with
  | [] => []
  | (_, f) :: r => let o := hplace cur f in o :: hoffsets (o + hsize f) r
  end.

(* ---- the struct definitions naga emits for constant buffers, transliterated from
   /repo/hlsl/internal/codegen/types.go writeStructDefinition (79-178) and hlslTypeSize
   (1339-1385): `int _padN_k` members for (member.Offset - lastOffset) / 4, lastOffset =
   member.Offset + hlslTypeSize(member type); matCx2 members decomposed into C float2
   columns; arrays of matCx2 use the __matCx2 typedef (a struct of C float2); end padding
   up to Span. *)
Definition hlsl_type_size_fix (rec : ty -> Z) (t : ty) : Z :=
  match t with
  | TScalar s => nwidth s
  | TAtomic s => nwidth s
  | TVec n s => u32 (n * nwidth s)
  | TMat c r s => u32 (u32 ((c - 1) * u32 (hlsl_alignment_from_vector_size r * nwidth s)) + u32 (r * nwidth s))
  | TArray e n => if n =? 0 then 0 else u32 (u32 ((n - 1) * nstride e) + rec e)
  | TRArray e => rec e
  | TStruct ms => nspan (ninfos ms)
  end.
Fixpoint hlsl_type_size (t : ty) : Z :=
  match t with
  | TArray e n => if n =? 0 then 0 else u32 (u32 ((n - 1) * nstride e) + hlsl_type_size e)
  | TRArray e => hlsl_type_size e
  | _ => hlsl_type_size_fix (fun _ => 0) t
  end.

Definition ints (k : Z) : list (bool * htype) := repeat (true, HS) (Z.to_nat k).
Definition mat_columns (c : Z) : list (bool * htype) :=
  match Z.to_nat c with
  | O => []
  | S k => (false, HV 2) :: repeat (true, HV 2) k
  end.

Fixpoint hlsl_fields (last : Z) (ms : list member) (offs : list Z) (span : Z) (defs : list htype)
  : list (bool * htype) :=
  match ms, offs, defs with
  | m :: r, o :: ro, d :: rd =>
      let pad := if last <? o then ints (u32 (o - last) / 4) else [] in
      let field := match mty m with
                   | TMat c 2 _ => mat_columns c
                   | _ => [(false, d)]
                   end in
      pad ++ field ++ hlsl_fields (u32 (o + hlsl_type_size (mty m))) r ro span rd
  | _, _, _ => if last <? span then ints (u32 (span - last) / 4) else []
  end.

Fixpoint hlsl_def (t : ty) : htype :=
  match t with
  | TScalar _ | TAtomic _ => HS
  | TVec n _ => HV n
  | TMat c r _ => if r =? 2 then HStruct (repeat (false, HV 2) (Z.to_nat c)) else HM c r
  | TArray e n => HA (hlsl_def e) n
  | TRArray e => HA (hlsl_def e) 1
  | TStruct ms =>
      HStruct (hlsl_fields 0 ms (noffsets (ninfos ms)) (nspan (ninfos ms))
                 (map (fun m => match m with Mem _ _ t' => hlsl_def t' end) ms))
  end.
