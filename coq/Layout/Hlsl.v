(* C07 — HLSL: byte-address arithmetic for storage buffers, transliterated from
   /repo/hlsl/internal/codegen/storage.go
      computeSubAccess (580-636): struct member -> Members[i].Offset; array -> Stride * i;
        vector -> Scalar.Width * i; matrix -> alignmentFromVectorSize(Rows) * Width * i
      alignmentFromVectorSize (511-520)
      writeStorageAddress (655-677): the chain's literals joined with '+'
   Offsets and strides are the ones stored in the IR (Layout/Naga.v).  Definitions only. *)
From Coq Require Import List ZArith Bool.
Import ListNotations.
Require Import Naga.Layout.Spec Naga.Layout.Naga.
Open Scope Z_scope.

Definition hlsl_alignment_from_vector_size (n : Z) : Z :=
  if n =? 2 then 2 else if (n =? 3) || (n =? 4) then 4 else 1.

(* sum of the literals of the access chain for the component reached by path p *)
Fixpoint hlsl_access_offset (p : list Z) (t : ty) : option Z :=
  match p with
  | [] => Some 0
  | i :: q =>
      if i <? 0 then None else
      match t with
      | TStruct ms =>
          match nth_error ms (Z.to_nat i), nth_error (noffsets (ninfos ms)) (Z.to_nat i) with
          | Some m, Some o => option_map (Z.add o) (hlsl_access_offset q (mty m))
          | _, _ => None
          end
      | TArray e n =>
          if i <? n then option_map (Z.add (u32 (nstride e * i))) (hlsl_access_offset q e) else None
      | TRArray e => option_map (Z.add (u32 (nstride e * i))) (hlsl_access_offset q e)
      | TMat c r s =>
          if i <? c then option_map (Z.add (u32 (u32 (hlsl_alignment_from_vector_size r * nwidth s) * i)))
                                    (hlsl_access_offset q (TVec r s)) else None
      | TVec n s =>
          if i <? n then option_map (Z.add (u32 (nwidth s * i))) (hlsl_access_offset q (TScalar s)) else None
      | _ => None
      end
  end.
