(* C07 — MSL: the emitted struct definitions, laid out by the C++ rules, against the IR layout. *)
From Coq Require Import List ZArith Bool Lia ZifyBool.
Import ListNotations.
Require Import Naga.Layout.Spec Naga.Layout.Constraints Naga.Layout.Naga Naga.Layout.Arith
  Naga.Layout.SpecProofs Naga.Layout.NagaProofs Naga.Layout.HlslProofs Naga.Layout.Msl.
Open Scope Z_scope.

(* struct S { @size(14) v: vec3<f32>, h: f16 }: v is followed by a gap of 2 bytes; the emitter
   declares an unpacked float3 (16 bytes), so h lands at 16 instead of 14 *)
Definition wit_msl_vec3_gap : ty :=
  TStruct [Mem None (dec 14) (TVec 3 SF32); Mem None None (TScalar SF16)].

Theorem msl_offsets_refuted :
  exists t, wf t = true /\ plain_attrs t = true /\ inner_align_inert t = true /\ fits t = true /\
            erase_leaf (cxx_layout (msl_def t)) <> erase_leaf (spec_layout t).
Proof. exists wit_msl_vec3_gap. vm_compute. repeat split; try reflexivity. discriminate. Qed.

(* ------------------------------------------------------------------------
   partial correctness: when every vec3 member is followed either by no gap
   (then it is packed) or by room for the unpacked 16-byte vector, the emitted
   definitions, laid out by the C++ rules, reproduce the WGSL placement. *)

Definition next_off (ro : list Z) (span : Z) : Z := match ro with o2 :: _ => o2 | [] => span end.

Fixpoint vec3_room (ms : list member) (offs : list Z) (span : Z) : bool :=
  match ms, offs with
  | m :: r, o :: ro =>
      (match is_vec3 (mty m) with
       | Some w => (next_off ro span =? o + 3 * w) || (o + 4 * w <=? next_off ro span)
       | None => true
       end) && vec3_room r ro span
  | _, _ => true
  end.

Fixpoint msl_tight (t : ty) : bool :=
  match t with
  | TArray e _ | TRArray e => msl_tight e
  | TStruct ms => vec3_room ms (member_offsets ms) (size_of t) &&
                  forallb (fun m => match m with Mem _ _ t' => msl_tight t' end) ms
  | _ => true
  end.

Definition finfos (fs : list (bool * ctype)) : list (Z * Z) := map (fun f => cxx_als (snd f)) fs.

Lemma round_up_1 : forall x, round_up 1 x = x.
Proof. intros. unfold round_up. rewrite Z.div_1_r. lia. Qed.

(* what the emitter's loop needs to know about each member *)
Fixpoint MF (last : Z) (ms : list member) (offs : list Z) (span : Z) : Prop :=
  match ms, offs with
  | m :: r, o :: ro =>
      let d := msl_def (mty m) in
      let ts := msl_type_size (mty m) in
      let next := next_off ro span in
      0 <= last <= o /\ 0 <= ts /\ 0 < fst (cxx_als d) /\ (fst (cxx_als d) | o) /\
      match is_vec3 (mty m) with
      | Some w => is_vec3_24 (mty m) = Some w /\ 0 < w /\ (w | o) /\ ts = 3 * w /\ d = CVec 3 w /\
                  ((next = o + 3 * w /\ MF (o + 3 * w) r ro span) \/
                   (next <> o + 3 * w /\ o + 4 * w <= next /\ MF (o + 4 * w) r ro span))
      | None => is_vec3_24 (mty m) = None /\ snd (cxx_als d) = ts /\ MF (o + ts) r ro span
      end
  | [], [] => 0 <= last <= span
  | _, _ => False
  end.

Lemma MF_le : forall ms offs last span, MF last ms offs span -> 0 <= last <= span.
Proof.
  induction ms as [|m r IH]; intros [|o ro] last span H; cbn [MF] in H; try tauto.
  destruct H as [H1 [H2 [H3 [H4 H5]]]].
  destruct (is_vec3 (mty m)) as [w|].
  - destruct H5 as [_ [Hw [_ [_ [_ [[_ Hr]|[_ [_ Hr]]]]]]]]; specialize (IH _ _ _ Hr); lia.
  - destruct H5 as [_ [_ Hr]]. specialize (IH _ _ _ Hr). lia.
Qed.

Definition defs_of (ms : list member) : list ctype := map (fun m => msl_def (mty m)) ms.

Lemma cxx_pad : forall k, cxx_als (CArr (CScalar 1) k) = (1, k * 1).
Proof. reflexivity. Qed.

Lemma fields_layout : forall ms offs last span A,
  MF last ms offs span -> span < 2 ^ 32 -> 0 < A ->
  Forall (fun m => (fst (cxx_als (msl_def (mty m))) | A) /\
                   match is_vec3 (mty m) with Some w => (w | A) | None => True end) ms ->
  let fs := msl_fields last ms offs span (defs_of ms) in
  real_only fs (offsets_from last (finfos fs)) = offs /\
  end_from last (finfos fs) = span /\
  map erase_leaf (real_only fs (map (fun f => cxx_layout (snd f)) fs)) =
    map (fun m => erase_leaf (cxx_layout (msl_def (mty m)))) ms /\
  Forall (fun i => 0 < fst i /\ (fst i | A)) (finfos fs).
Proof.
  induction ms as [|m r IH]; intros [|o ro] last span A HM Hsp HA HF; cbn [MF] in HM; try tauto.
  - (* end of the structure: trailing pad *)
    cbn [msl_fields defs_of map]. destruct (last <? span) eqn:L.
    + cbn [finfos map snd]. rewrite cxx_pad. cbn [offsets_from end_from real_only map fst snd].
      rewrite round_up_1, u32_small by lia. repeat split; auto; try lia.
      constructor; [|constructor]. cbn [fst]. split; [lia|apply Z.divide_1_l].
    + cbn [finfos map offsets_from end_from real_only]. repeat split; auto. lia.
  - destruct HM as [Hl [Hts [Hca [Hdiv Hk]]]].
    inversion HF as [|x y [HdA HwA] HFr]; subst x y.
    cbn [defs_of map]. fold (defs_of r). cbn [msl_fields]. fold (next_off ro span).
    set (d := msl_def (mty m)) in *. set (ts := msl_type_size (mty m)) in *.
    set (next := next_off ro span) in *.
    assert (Ho : o <= span).
    { destruct (is_vec3 (mty m)).
      - destruct Hk as [_ [Hw [_ [_ [_ [[_ Hr]|[_ [_ Hr]]]]]]]]; pose proof (MF_le _ _ _ _ Hr); lia.
      - destruct Hk as [_ [_ Hr]]. pose proof (MF_le _ _ _ _ Hr). lia. }
    (* the pad in front of the member brings the C++ cursor from last to o *)
    assert (Hpad : forall (field : ctype) rest cs ca,
      cxx_als field = (ca, cs) -> 0 < ca -> (ca | o) ->
      let fs := (if last <? o then [(true, CArr (CScalar 1) (u32 (o - last)))] else []) ++ (false, field) :: rest in
      real_only fs (offsets_from last (finfos fs)) = o :: real_only rest (offsets_from (o + cs) (finfos rest)) /\
      end_from last (finfos fs) = end_from (o + cs) (finfos rest) /\
      real_only fs (map (fun f => cxx_layout (snd f)) fs) =
        cxx_layout field :: real_only rest (map (fun f => cxx_layout (snd f)) rest)).
    { intros field rest cs ca Ef Hcap Hcad. destruct (last <? o) eqn:L; cbn [app].
      - cbn [finfos map snd]. rewrite cxx_pad, Ef. fold (finfos rest).
        cbn [offsets_from end_from real_only map snd].
        rewrite round_up_1. rewrite u32_small by lia.
        replace (last + (o - last) * 1) with o by lia.
        rewrite (round_up_id ca o) by auto. auto.
      - assert (last = o) by lia. subst last.
        cbn [finfos map snd]. rewrite Ef. fold (finfos rest).
        cbn [offsets_from end_from real_only map snd].
        rewrite (round_up_id ca o) by auto. auto. }
    assert (Hspan_r : forall l, MF l r ro span -> l <= span) by (intros l Hl'; apply (MF_le _ _ _ _ Hl')).
    destruct (is_vec3 (mty m)) as [w|] eqn:Ev.
    + destruct Hk as [E24 [Hw [Hwo [Hts3 [Ed Hcase]]]]]. rewrite E24.
      destruct Hcase as [[Hn Hr]|[Hn [Hroom Hr]]].
      * (* tight: packed vector *)
        assert (Enext : (next =? u32 (o + ts)) = true).
        { rewrite u32_small; [lia|]. specialize (Hspan_r _ Hr). lia. }
        rewrite Enext. rewrite (u32_small (o + ts)) by (specialize (Hspan_r _ Hr); lia).
        rewrite Hts3.
        destruct (IH ro (o + 3 * w) span A Hr Hsp HA HFr) as [I1 [I2 [I3 I4]]].
        destruct (Hpad (CPacked 3 w) (msl_fields (o + 3 * w) r ro span (defs_of r)) (3 * w) w eq_refl Hw Hwo)
          as [P1 [P2 P3]].
        split; [rewrite P1, I1; reflexivity|]. split; [rewrite P2; exact I2|].
        split.
        { rewrite P3. cbn [map]. rewrite I3. f_equal. rewrite Ed. reflexivity. }
        { unfold finfos. rewrite map_app. apply Forall_app. split.
          - destruct (last <? o); cbn [map]; constructor; auto. cbn [snd]. rewrite cxx_pad. cbn [fst].
            split; [lia|apply Z.divide_1_l].
          - cbn [map snd cxx_als fst]. constructor; auto. }
      * (* room for the unpacked vector *)
        assert (Enext : (next =? u32 (o + ts)) = false).
        { rewrite u32_small; [lia|]. specialize (Hspan_r _ Hr). lia. }
        rewrite Enext. rewrite (u32_small (o + ts)) by (specialize (Hspan_r _ Hr); lia).
        rewrite (u32_small (o + ts + w)) by (specialize (Hspan_r _ Hr); lia).
        replace (o + ts + w) with (o + 4 * w) by lia.
        destruct (IH ro (o + 4 * w) span A Hr Hsp HA HFr) as [I1 [I2 [I3 I4]]].
        assert (Ed' : cxx_als d = (4 * w, 4 * w)).
        { unfold d in *. rewrite Ed. cbn [cxx_als]. reflexivity. }
        assert (Hca4 : (4 * w | o)). { rewrite Ed' in Hdiv. exact Hdiv. }
        destruct (Hpad d (msl_fields (o + 4 * w) r ro span (defs_of r)) (4 * w) (4 * w) Ed' ltac:(lia) Hca4)
          as [P1 [P2 P3]].
        split; [rewrite P1, I1; reflexivity|]. split; [rewrite P2; exact I2|].
        split.
        { rewrite P3. cbn [map]. rewrite I3. reflexivity. }
        { unfold finfos. rewrite map_app. apply Forall_app. split.
          - destruct (last <? o); cbn [map]; constructor; auto. cbn [snd]. rewrite cxx_pad. cbn [fst].
            split; [lia|apply Z.divide_1_l].
          - cbn [map snd]. constructor; auto. }
    + destruct Hk as [E24 [Hcs Hr]]. rewrite E24.
      rewrite (u32_small (o + ts)) by (specialize (Hspan_r _ Hr); lia).
      destruct (IH ro (o + ts) span A Hr Hsp HA HFr) as [I1 [I2 [I3 I4]]].
      assert (Ed' : cxx_als d = (fst (cxx_als d), ts)).
      { rewrite <- Hcs. apply surjective_pairing. }
      destruct (Hpad d (msl_fields (o + ts) r ro span (defs_of r)) ts (fst (cxx_als d)) Ed' Hca Hdiv)
        as [P1 [P2 P3]].
      split; [rewrite P1, I1; reflexivity|]. split; [rewrite P2; exact I2|].
      split.
      { rewrite P3. cbn [map]. rewrite I3. reflexivity. }
      { unfold finfos. rewrite map_app. apply Forall_app. split.
        - destruct (last <? o); cbn [map]; constructor; auto. cbn [snd]. rewrite cxx_pad. cbn [fst].
          split; [lia|apply Z.divide_1_l].
        - cbn [map snd]. constructor; auto. }
Qed.

(* ---- per-type invariant ---- *)

Definition Kfacts (t : ty) : Prop :=
  let d := msl_def t in
  0 < fst (cxx_als d) /\ (fst (cxx_als d) | align_of t) /\
  msl_type_size t = size_of t /\ 0 <= size_of t /\
  snd (cxx_als d) = stride_of t /\
  (is_vec3 t = None -> is_vec3_24 t = None /\ snd (cxx_als d) = size_of t) /\
  (forall w, is_vec3 t = Some w ->
     is_vec3_24 t = Some w /\ 0 < w /\ (w | align_of t) /\ size_of t = 3 * w /\ d = CVec 3 w).

Definition Mfacts (m : member) : Prop :=
  pow2 (fst (member_info m)) /\ size_of (mty m) <= snd (member_info m) /\
  (align_of (mty m) | fst (member_info m)) /\ Kfacts (mty m).

Lemma MF_spec : forall ms cur last span,
  Forall Mfacts ms ->
  vec3_room ms (offsets_from cur (infos_of ms)) span = true ->
  end_from cur (infos_of ms) <= span ->
  0 <= last -> last <= next_off (offsets_from cur (infos_of ms)) span ->
  MF last ms (offsets_from cur (infos_of ms)) span.
Proof.
  induction ms as [|m r IH]; intros cur last span HF Hroom Hend Hl0 Hl.
  - cbn [infos_of map offsets_from MF next_off end_from] in *. lia.
  - inversion HF as [|x y [Pm [Sm [Am [K1 [K2 [K3 [K4 [K5 [K6 K7]]]]]]]]] HFr]; subst x y.
    cbn [infos_of map] in *. fold (infos_of r) in *.
    destruct (member_info m) as [A S] eqn:Emi. cbn [fst snd] in *.
    cbn [offsets_from end_from next_off] in *.
    set (o := round_up A cur) in *.
    pose proof (pow2_pos _ Pm) as Apos.
    cbn [vec3_room] in Hroom. apply andb_true_iff in Hroom. destruct Hroom as [Hr1 Hr2].
    fold (next_off (offsets_from (o + S) (infos_of r)) span) in Hr1.
    set (next := next_off (offsets_from (o + S) (infos_of r)) span) in *.
    assert (Hnext : o + S <= next).
    { unfold next. destruct r as [|m2 r2]; cbn [infos_of map offsets_from next_off].
      - cbn [infos_of map end_from] in Hend. exact Hend.
      - inversion HFr as [|x y [Pm2 _] _]; subst x y. destruct (member_info m2) as [A2 S2]. cbn [fst] in Pm2.
        apply round_up_ge. apply pow2_pos; auto. }
    assert (Hdivo : (A | o)) by (apply round_up_divide; auto).
    cbn [MF]. fold next.
    split; [lia|]. split; [rewrite K3; exact K4|]. split; [exact K1|].
    split; [eapply Z.divide_trans; [exact K2|]; eapply Z.divide_trans; [exact Am|exact Hdivo]|].
    rewrite K3.
    destruct (is_vec3 (mty m)) as [w|] eqn:Ev.
    + destruct (K7 w eq_refl) as [V1 [V2 [V3 [V4 V5]]]].
      split; [exact V1|]. split; [exact V2|].
      split; [eapply Z.divide_trans; [exact V3|]; eapply Z.divide_trans; [exact Am|exact Hdivo]|].
      split; [exact V4|]. split; [exact V5|].
      destruct (next =? o + 3 * w) eqn:En.
      * left. split; [lia|]. apply IH; auto; try lia.
      * right. split; [lia|]. split; [lia|]. apply IH; auto; lia.
    + destruct (K6 eq_refl) as [N1 N2]. split; [exact N1|]. split; [exact N2|].
      apply IH; auto; lia.
Qed.

Lemma struct_align_in : forall l, struct_align l = 1 \/ exists i, In i l /\ fst i = struct_align l.
Proof.
  induction l as [|i r IH]; cbn [struct_align fold_right]; auto.
  fold (struct_align r). destruct (Z.max_spec (fst i) (struct_align r)) as [[_ E]|[_ E]]; rewrite E.
  - destruct IH as [IH|[j [Hj Ej]]]; auto. right. exists j. split; auto. right; auto.
  - right. exists i. split; auto. left; auto.
Qed.

Lemma cxx_als_struct : forall fs,
  cxx_als (CStruct fs) = (struct_align (finfos fs), round_up (struct_align (finfos fs)) (end_from 0 (finfos fs))).
Proof.
  intros. cbn [cxx_als]. unfold finfos.
  assert (E : map (fun f : bool * ctype => let (_, c') := f in cxx_als c') fs = map (fun f => cxx_als (snd f)) fs).
  { apply map_ext. intros [b c]. reflexivity. }
  rewrite E. reflexivity.
Qed.

Lemma msl_def_struct : forall ms,
  msl_def (TStruct ms) = CStruct (msl_fields 0 ms (noffsets (ninfos ms)) (nspan (ninfos ms)) (defs_of ms)).
Proof.
  intros. cbn [msl_def]. unfold defs_of. f_equal. f_equal. apply map_ext. intros [a s t]. reflexivity.
Qed.

Lemma stride_of_aligned : forall t, 0 < align_of t -> (align_of t | size_of t) -> stride_of t = size_of t.
Proof. intros. unfold stride_of. apply round_up_id; auto. Qed.

Definition Hyp (t : ty) : Prop :=
  wf t = true /\ plain_attrs t = true /\ align_inert t = true /\ fits t = true /\ msl_tight t = true.

Definition Kfull (t : ty) : Prop :=
  Kfacts t /\ erase_leaf (cxx_layout (msl_def t)) = erase_leaf (spec_layout t).

Lemma dim_cases : forall n, dim_ok n = true -> n = 2 \/ n = 3 \/ n = 4.
Proof. intros n H. unfold dim_ok in H. lia. Qed.

Lemma K_leaf_vec : forall n s, wf (TVec n s) = true -> Kfull (TVec n s).
Proof.
  intros n s Hwf. cbn [wf] in Hwf. andb_split Hwf.
  destruct (dim_cases _ Hwf) as [ -> | [ -> | -> ] ]; destruct s; try discriminate;
    (split; [|reflexivity]); unfold Kfacts;
    repeat split; try (vm_compute; congruence); try (intros; discriminate);
    try (exists 1; reflexivity); try apply Z.divide_refl;
    try (match goal with H : is_vec3 _ = Some _ |- _ => vm_compute in H; inversion H; subst end;
         first [reflexivity | lia | (exists 4; reflexivity)]).
Qed.

Lemma K_leaf_mat : forall c r s, wf (TMat c r s) = true -> Kfull (TMat c r s).
Proof.
  intros c r s Hwf. cbn [wf] in Hwf. andb_split Hwf.
  destruct (dim_cases _ Hwf) as [ -> | [ -> | -> ] ];
  destruct (dim_cases _ Hwf1) as [ -> | [ -> | -> ] ]; destruct s; try discriminate;
    (split; [|reflexivity]); unfold Kfacts;
    repeat split; try (vm_compute; congruence); try (intros; discriminate);
    try (exists 1; reflexivity); try apply Z.divide_refl.
Qed.

Lemma Hyp_members : forall ms m, Hyp (TStruct ms) -> In m ms -> Hyp (mty m).
Proof.
  intros ms m [Hwf [Hpl [Hin [Hfit Ht]]]] Hinm. unfold Hyp.
  destruct (inert_members _ _ Hinm Hwf Hpl (inert_inner _ Hin) Hfit) as [A [B [C D]]].
  repeat split; auto. cbn [msl_tight] in Ht. andb_split Ht.
  pose proof (forallb_mem _ _ _ Ht0 Hinm) as E. destruct m; auto.
Qed.

Lemma K_all : forall t, Hyp t -> Kfull t.
Proof.
  induction t using ty_ind'; intros [Hwf [Hpl [Hin [Hfit Ht]]]].
  - (* scalar *) cbn [wf] in Hwf. destruct s; try discriminate; (split; [|reflexivity]); unfold Kfacts;
      repeat split; try (vm_compute; congruence); try (intros; discriminate); try apply Z.divide_refl.
  - apply K_leaf_vec; auto.
  - apply K_leaf_mat; auto.
  - (* atomic *) cbn [wf] in Hwf. destruct s; try discriminate; (split; [|reflexivity]); unfold Kfacts;
      repeat split; try (vm_compute; congruence); try (intros; discriminate); try apply Z.divide_refl.
  - (* array *)
    assert (He : Hyp t).
    { cbn [wf plain_attrs align_inert fits msl_tight] in *. andb_split Hwf. andb_split Hfit. unfold Hyp. auto. }
    destruct (IHt He) as [[K1 [K2 [K3 [K4 [K5 [K6 K7]]]]]] Kc].
    cbn [wf plain_attrs align_inert fits msl_tight] in *. andb_split Hwf. andb_split Hfit.
    destruct (wf_als _ Hwf) as [P S]. pose proof (pow2_pos _ P) as Apos.
    pose proof (array_stride_multiple_of_align _ Hwf) as Hsd.
    assert (Hal : align_of (TArray t n) = align_of t).
    { unfold align_of. cbn [als]. destruct (als t); reflexivity. }
    assert (Hsz : size_of (TArray t n) = n * stride_of t) by apply array_size_is_count_times_stride.
    assert (Hdiv : (align_of t | n * stride_of t)) by (apply Z.divide_mul_r; auto).
    assert (Ecxx : cxx_als (msl_def (TArray t n)) = (fst (cxx_als (msl_def t)), n * stride_of t)).
    { cbn [msl_def cxx_als]. destruct (cxx_als (msl_def t)) as [a s] eqn:E. cbn [fst snd] in *. subst s.
      f_equal. apply round_up_id; auto. eapply Z.divide_trans; eauto. }
    assert (Hst : 0 <= stride_of t) by (unfold stride_of; apply round_up_nonneg; auto).
    split.
    + unfold Kfacts. rewrite Ecxx. cbn [fst snd]. rewrite Hal, Hsz.
      split; auto. split; auto. split.
      { cbn [msl_type_size]. rewrite nstride_eq; auto; try lia; [|apply nals_eq; auto].
        rewrite u32_small by nia. lia. }
      split; [nia|]. split.
      { symmetry. unfold stride_of at 1. rewrite Hal, Hsz. apply round_up_id; auto. }
      split; [intros _; split; reflexivity|intros w Hw; discriminate].
    + cbn [msl_def cxx_layout spec_layout erase_leaf]. rewrite K5, Kc. reflexivity.
  - (* runtime-sized array *)
    assert (He : Hyp t).
    { cbn [wf plain_attrs align_inert fits msl_tight] in *. andb_split Hwf. andb_split Hfit. unfold Hyp. auto. }
    destruct (IHt He) as [[K1 [K2 [K3 [K4 [K5 [K6 K7]]]]]] Kc].
    cbn [wf plain_attrs align_inert fits msl_tight] in *. andb_split Hwf. andb_split Hfit.
    destruct (wf_als _ Hwf) as [P S]. pose proof (pow2_pos _ P) as Apos.
    pose proof (array_stride_multiple_of_align _ Hwf) as Hsd.
    assert (Hal : align_of (TRArray t) = align_of t).
    { unfold align_of. cbn [als]. destruct (als t); reflexivity. }
    assert (Hsz : size_of (TRArray t) = stride_of t).
    { unfold size_of, stride_of, align_of, size_of. cbn [als]. destruct (als t); reflexivity. }
    assert (Hst : 0 <= stride_of t) by (unfold stride_of; apply round_up_nonneg; auto).
    split.
    + unfold Kfacts. cbn [msl_def cxx_als]. rewrite Hal, Hsz.
      split; auto. split; auto. split.
      { cbn [msl_type_size]. apply nstride_eq; auto; try lia. apply nals_eq; auto. }
      split; auto. split.
      { rewrite K5. symmetry. unfold stride_of at 1. rewrite Hal, Hsz. apply round_up_id; auto. }
      split; [intros _; split; auto|intros w Hw; discriminate].
    + cbn [msl_def cxx_layout spec_layout erase_leaf]. rewrite K5, Kc. reflexivity.
  - (* structure *)
    assert (HypS : Hyp (TStruct ms)) by (unfold Hyp; auto).
    pose proof (wf_struct_members _ Hwf) as Hwm.
    pose proof (wf_infos_pos _ Hwf) as Hpos.
    destruct (root_offsets_span _ Hwf Hpl (inert_inner _ Hin) Hfit) as [Eo Es].
    destruct (wf_als _ Hwf) as [P S]. pose proof (pow2_pos _ P) as Apos.
    pose proof (struct_size_multiple_of_align _ Hwf) as Hsd.
    assert (HK : forall m, In m ms -> Kfull (mty m)).
    { intros m Hinm. rewrite Forall_forall in H. apply H; auto. eapply Hyp_members; eauto. }
    assert (HMf : Forall Mfacts ms).
    { rewrite Forall_forall in *. intros m Hinm. destruct (Hwm m Hinm) as [W [Aa As]].
      destruct (wf_als _ W) as [Pm Sm]. destruct (HK m Hinm) as [Kf _].
      unfold Mfacts. destruct m as [oa os t]. cbn [mty mal msz] in *.
      unfold member_info. cbn [mty mal msz fst snd].
      split; [|split; [|split; [|exact Kf]]].
      - destruct oa as [a|]; cbn [attr_or]; auto. cbn [align_attr_ok] in Aa. andb_split Aa. apply pow2b_pow2; auto.
      - destruct os as [a|]; cbn [attr_or]; [cbn [size_attr_ok] in As; lia|lia].
      - destruct oa as [a|]; cbn [attr_or]; [|apply Z.divide_refl].
        cbn [align_attr_ok] in Aa. andb_split Aa. apply pow2_divide; auto. apply pow2b_pow2; auto. lia. }
    assert (Hspan_lt : size_of (TStruct ms) < 2 ^ 32).
    { cbn [fits] in Hfit. andb_split Hfit. unfold size_of. rewrite als_struct. cbn [snd]. unfold struct_size.
      pose proof (round_up_lt (struct_align (infos_of ms)) (end_from 0 (infos_of ms))).
      pose proof (struct_align_ge1 (infos_of ms)). lia. }
    assert (Hend : end_from 0 (infos_of ms) <= size_of (TStruct ms)).
    { unfold size_of. rewrite als_struct. cbn [snd]. unfold struct_size. apply round_up_ge.
      pose proof (struct_align_ge1 (infos_of ms)). lia. }
    cbn [msl_tight] in Ht. andb_split Ht. unfold member_offsets in Ht.
    assert (Hms : ms <> []) by (intro; subst ms; cbn [wf] in Hwf; discriminate).
    assert (Hl : 0 <= next_off (offsets_from 0 (infos_of ms)) (size_of (TStruct ms))).
    { destruct ms as [|m r]; [congruence|]. cbn [infos_of map offsets_from next_off].
      inversion Hpos as [|x y [Pa _] _]; subst x y. destruct (member_info m) as [a s]. cbn [fst] in Pa.
      apply round_up_nonneg; [apply pow2_pos; auto|lia]. }
    pose proof (MF_spec ms 0 0 (size_of (TStruct ms)) HMf Ht Hend ltac:(lia) Hl) as HMF.
    assert (HFA : Forall (fun m => (fst (cxx_als (msl_def (mty m))) | align_of (TStruct ms)) /\
                   match is_vec3 (mty m) with Some w => (w | align_of (TStruct ms)) | None => True end) ms).
    { rewrite Forall_forall. intros m Hinm. destruct (HK m Hinm) as [[K1 [K2 [K3 [K4 [K5 [K6 K7]]]]]] _].
      assert (Hma : (align_of (mty m) | align_of (TStruct ms))).
      { rewrite Forall_forall in HMf. destruct (HMf m Hinm) as [Pm [_ [Am _]]].
        eapply Z.divide_trans; [exact Am|]. assert (Eal : align_of (TStruct ms) = struct_align (infos_of ms)) by (unfold align_of; rewrite als_struct; reflexivity). rewrite Eal.
        apply pow2_divide; auto. apply struct_align_pow2; auto.
        apply struct_align_ge. unfold infos_of. apply in_map. auto. }
      split; [eapply Z.divide_trans; eauto|].
      destruct (is_vec3 (mty m)) as [w|] eqn:Ev; auto.
      destruct (K7 w eq_refl) as [_ [_ [V3 _]]]. eapply Z.divide_trans; eauto. }
    destruct (fields_layout ms (offsets_from 0 (infos_of ms)) 0 (size_of (TStruct ms)) (align_of (TStruct ms))
                HMF Hspan_lt Apos HFA) as [F1 [F2 [F3 F4]]].
    unfold Kfull, Kfacts. rewrite msl_def_struct, Eo, Es. unfold member_offsets.
    set (fs := msl_fields 0 ms (offsets_from 0 (infos_of ms)) (size_of (TStruct ms)) (defs_of ms)) in *.
    assert (Hsa : 0 < struct_align (finfos fs) /\ (struct_align (finfos fs) | align_of (TStruct ms))).
    { pose proof (struct_align_ge1 (finfos fs)). split; [lia|].
      destruct (struct_align_in (finfos fs)) as [E1|[i [Hi Ei]]].
      - rewrite E1. apply Z.divide_1_l.
      - rewrite <- Ei. rewrite Forall_forall in F4. apply F4; auto. }
    destruct Hsa as [Hsa1 Hsa2].
    assert (Esz : round_up (struct_align (finfos fs)) (size_of (TStruct ms)) = size_of (TStruct ms)).
    { apply round_up_id; auto. eapply Z.divide_trans; eauto. }
    split.
    + rewrite cxx_als_struct. cbn [fst snd]. rewrite F2, Esz.
      split; auto. split; auto. split; [cbn [msl_type_size]; exact Es|]. split; auto.
      split; [symmetry; apply stride_of_aligned; auto|].
      split; [intros _; split; reflexivity|intros w Hw; discriminate].
    + cbn [cxx_layout spec_layout erase_leaf]. rewrite cxx_als_struct. cbn [snd]. rewrite F2, Esz.
      unfold cxx_field_offsets. fold (finfos fs). rewrite F1. f_equal.
      assert (Emap : map (fun f : bool * ctype => let (_, c') := f in cxx_layout c') fs =
                     map (fun f => cxx_layout (snd f)) fs) by (apply map_ext; intros [b c]; reflexivity).
      rewrite Emap, F3. rewrite map_map. apply map_ext_in. intros m Hinm.
      destruct (HK m Hinm) as [_ Kc]. destruct m; cbn [mty] in *. exact Kc.
Qed.

(* every structure, array element and member is placed by the C++ compiler where the
   WGSL layout (= the IR layout under these hypotheses) puts it *)
Theorem msl_offsets_eq_spec_lemma : forall t,
  wf t = true -> plain_attrs t = true -> align_inert t = true -> fits t = true -> msl_tight t = true ->
  erase_leaf (cxx_layout (msl_def t)) = erase_leaf (spec_layout t) /\
  snd (cxx_als (msl_def t)) = stride_of t.
Proof.
  intros t A B C D E. destruct (K_all t) as [[_ [_ [_ [_ [K5 _]]]]] Kc]; [unfold Hyp; auto|]. auto.
Qed.
