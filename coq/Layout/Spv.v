(* C07 — SPIR-V: the layout decorations, transliterated from
   /repo/spirv/internal/codegen/backend.go
      emitStructMemberDecorations (514-560): Offset := member.Offset;
         ColMajor + MatrixStride := rowMul * Scalar.Width, rowMul = 2 for Vec2 rows, 4 otherwise,
         for matrix members seen through any number of array levels
      emitType, array case (632-635): ArrayStride := inner.Stride
      addMatrixLayoutIfNeeded (1612-1637): the same MatrixStride for the wrapper struct
   Offset and ArrayStride are copies of the IR values (Layout/Naga.v); the only computed
   number is MatrixStride. *)
From Coq Require Import List ZArith Bool Lia ZifyBool.
Import ListNotations.
Require Import Naga.Layout.Spec Naga.Layout.Constraints Naga.Layout.Naga Naga.Layout.Arith.
Open Scope Z_scope.

Definition spv_matrix_stride (r : Z) (s : scalar) : Z :=
  u32 ((if r =? 2 then 2 else 4) * nwidth s).

(* the member's matrix type, through arrays *)
Fixpoint spv_member_matrix (t : ty) : option (Z * Z * scalar) :=
  match t with
  | TMat c r s => Some (c, r, s)
  | TArray e _ | TRArray e => spv_member_matrix e
  | _ => None
  end.

(* MatrixStride is the WGSL distance between columns (13.4.4: column i at i * AlignOf(vecR)),
   and C columns of that stride fill exactly SizeOf(matCxR) *)
Lemma spv_matrix_stride_eq_spec_lemma : forall c r s, wf (TMat c r s) = true ->
  spv_matrix_stride r s = align_of (TVec r s) /\
  path_offset [1] (TMat c r s) = Some (spv_matrix_stride r s) /\
  c * spv_matrix_stride r s = size_of (TMat c r s).
Proof.
  intros c r s Hwf. cbn [wf] in Hwf. unfold dim_ok in Hwf. andb_split Hwf.
  assert (c = 2 \/ c = 3 \/ c = 4) as [ -> | [ -> | -> ] ] by lia;
  assert (r = 2 \/ r = 3 \/ r = 4) as [ -> | [ -> | -> ] ] by lia;
  destruct s; try discriminate; vm_compute; repeat split; reflexivity.
Qed.
