(* C07 — the WGSL memory layout, transcribed from the WGSL specification,
   section "Memory Layout" (13.4 in the W3C text):
     13.4.1 "Alignment and Size"       (table of AlignOf / SizeOf per host-shareable type)
     13.4.2 "Structure Member Layout"  (Offset, AlignOfMember, SizeOfMember, AlignOf(S), SizeOf(S))
     13.4.3 "Array Layout Examples" / 13.4.1 rows for array<E,N>, array<E>
     13.4.4 "Internal Layout of Values" (vector components, matrix columns, array elements, struct members)
     13.4.7 "Address Space Layout Constraints" (RequiredAlignOf, uniform address space rules)
   Definitions only (no proofs): the model still runs when a proof breaks.
   All numbers are Z (bytes). *)
From Coq Require Import List ZArith Bool.
Import ListNotations.
Open Scope Z_scope.

(* ---------------------------------------------------------------- types *)

Inductive scalar := SBool | SI32 | SU32 | SF32 | SF16.

(* How an @align / @size argument was written.  WGSL gives all of these the same
   meaning (a const-expression of integer type); the form matters only for the
   model of naga's lowerer (Layout/Naga.v). *)
Inductive aform :=
| FDec      (* decimal literal, possibly with i/u suffix or parentheses: 16, 16u, (16) *)
| FHex      (* hexadecimal literal: 0x10 *)
| FExpr.    (* any other const-expression: K (a module constant), 8+8 *)

Record attr := mkattr { aform_of : aform; aval : Z }.

Inductive ty :=
| TScalar (s : scalar)
| TVec (n : Z) (s : scalar)            (* vecN<s>, N in 2..4 *)
| TMat (c r : Z) (s : scalar)          (* matCxR<s>, C columns of vecR<s> *)
| TAtomic (s : scalar)                 (* atomic<i32>, atomic<u32> *)
| TArray (e : ty) (n : Z)              (* array<E, N>, fixed element count *)
| TRArray (e : ty)                     (* array<E>, runtime-sized *)
| TStruct (ms : list member)
with member :=
| Mem (al sz : option attr) (t : ty).  (* [@align(al)] [@size(sz)] name : t *)

Definition mty (m : member) : ty := match m with Mem _ _ t => t end.
Definition mal (m : member) : option attr := match m with Mem a _ _ => a end.
Definition msz (m : member) : option attr := match m with Mem _ s _ => s end.

(* Induction principle for the nested grammar (the generated one forgets the members). *)
Section ty_ind'.
  Variable P : ty -> Prop.
  Hypothesis Hs : forall s, P (TScalar s).
  Hypothesis Hv : forall n s, P (TVec n s).
  Hypothesis Hm : forall c r s, P (TMat c r s).
  Hypothesis Ha : forall s, P (TAtomic s).
  Hypothesis Harr : forall e n, P e -> P (TArray e n).
  Hypothesis Hrarr : forall e, P e -> P (TRArray e).
  Hypothesis Hst : forall ms, Forall (fun m => P (mty m)) ms -> P (TStruct ms).
  Fixpoint ty_ind' (t : ty) : P t :=
    match t with
    | TScalar s => Hs s
    | TVec n s => Hv n s
    | TMat c r s => Hm c r s
    | TAtomic s => Ha s
    | TArray e n => Harr e n (ty_ind' e)
    | TRArray e => Hrarr e (ty_ind' e)
    | TStruct ms =>
        Hst ms ((fix go (l : list member) : Forall (fun m => P (mty m)) l :=
                   match l with
                   | [] => Forall_nil _
                   | Mem a s t :: r => Forall_cons (Mem a s t) (ty_ind' t) (go r)
                   end) ms)
    end.
End ty_ind'.

(* ------------------------------------------------------------ arithmetic *)

(* 13.4: roundUp(k, n) = ceil(n / k) * k *)
Definition round_up (k n : Z) : Z := ((n + k - 1) / k) * k.

(* ---------------------------------------------------- alignment and size *)

(* 13.4.1 table: i32, u32, f32: 4/4; f16: 2/2.  bool is not host-shareable; the
   table of the specification lists no layout for it (4/4 here is never used
   under [host_shareable]). *)
Definition sw (s : scalar) : Z := match s with SF16 => 2 | _ => 4 end.

(* 13.4.1: vec2<T>: AlignOf 2w, SizeOf 2w; vec3<T>: 4w, 3w; vec4<T>: 4w, 4w *)
Definition vec_align (n : Z) (s : scalar) : Z := (if n =? 2 then 2 else 4) * sw s.
Definition vec_size (n : Z) (s : scalar) : Z := n * sw s.

(* member info = (AlignOfMember, SizeOfMember) *)
Definition attr_or (a : option attr) (d : Z) : Z := match a with Some x => aval x | None => d end.

(* 13.4.2: Offset(M1) = 0; Offset(Mi) = roundUp(AlignOfMember(Mi), Offset(Mi-1) + SizeOfMember(Mi-1)) *)
Fixpoint offsets_from (cur : Z) (infos : list (Z * Z)) : list Z :=
  match infos with
  | [] => []
  | (a, s) :: r => let o := round_up a cur in o :: offsets_from (o + s) r
  end.

(* justPastLastMember = Offset(MN) + SizeOfMember(MN) *)
Fixpoint end_from (cur : Z) (infos : list (Z * Z)) : Z :=
  match infos with
  | [] => cur
  | (a, s) :: r => end_from (round_up a cur + s) r
  end.

(* 13.4.2: AlignOf(S) = max(AlignOfMember(S, M1), ..., AlignOfMember(S, MN)).
   A structure has at least one member and every alignment is >= 1, so the
   neutral element 1 never shows. *)
Definition struct_align (infos : list (Z * Z)) : Z :=
  fold_right (fun i m => Z.max (fst i) m) 1 infos.

(* 13.4.2: SizeOf(S) = roundUp(AlignOf(S), justPastLastMember) *)
Definition struct_size (infos : list (Z * Z)) : Z :=
  round_up (struct_align infos) (end_from 0 infos).

(* (AlignOf t, SizeOf t).  A runtime-sized array has SizeOf = N_runtime * stride;
   [als] gives the value for N_runtime = 1, which is the static part every
   implementation stores (minimum binding size); offsets never depend on it
   because a runtime-sized array is the last member of the outermost structure. *)
Fixpoint als (t : ty) : Z * Z :=
  match t with
  | TScalar s => (sw s, sw s)
  | TVec n s => (vec_align n s, vec_size n s)
  | TMat c r s =>
      (* AlignOf(matCxR) = AlignOf(vecR); SizeOf(matCxR) = SizeOf(array<vecR, C>) *)
      (vec_align r s, c * round_up (vec_align r s) (vec_size r s))
  | TAtomic _ => (4, 4)
  | TArray e n =>
      (* AlignOf(array<E,N>) = AlignOf(E); SizeOf = N * roundUp(AlignOf(E), SizeOf(E)) *)
      let '(a, s) := als e in (a, n * round_up a s)
  | TRArray e => let '(a, s) := als e in (a, round_up a s)
  | TStruct ms =>
      let infos := map (fun m => match m with Mem oa os t =>
                          let '(a, s) := als t in (attr_or oa a, attr_or os s) end) ms in
      (struct_align infos, struct_size infos)
  end.

Definition align_of (t : ty) : Z := fst (als t).
Definition size_of (t : ty) : Z := snd (als t).

(* 13.4.1 / 13.4.4: element i of an array is at i * StrideOf; StrideOf(array<E,_>) = roundUp(AlignOf(E), SizeOf(E)) *)
Definition stride_of (e : ty) : Z := round_up (align_of e) (size_of e).

Definition member_info (m : member) : Z * Z :=
  (attr_or (mal m) (align_of (mty m)), attr_or (msz m) (size_of (mty m))).
Definition infos_of (ms : list member) : list (Z * Z) := map member_info ms.
Definition member_offsets (ms : list member) : list Z := offsets_from 0 (infos_of ms).

(* ------------------------------------------------------- layout trees *)

(* What a producer of buffer layouts has to agree on, recursively:
   leaf: size; array: stride, element count (None = runtime-sized), element;
   structure: size (span), member offsets, members. *)
Inductive lay :=
| LLeaf (size : Z)
| LArr (stride : Z) (count : option Z) (e : lay)
| LStruct (span : Z) (offs : list Z) (subs : list lay).

Fixpoint spec_layout (t : ty) : lay :=
  match t with
  | TArray e n => LArr (stride_of e) (Some n) (spec_layout e)
  | TRArray e => LArr (stride_of e) None (spec_layout e)
  | TStruct ms => LStruct (size_of t) (member_offsets ms)
                    (map (fun m => match m with Mem _ _ t' => spec_layout t' end) ms)
  | _ => LLeaf (size_of t)
  end.

(* 13.4.4 Internal layout of values: byte offset of the component reached by a
   path of indices (struct member index, array element, matrix column, vector component). *)
Fixpoint path_offset (p : list Z) (t : ty) : option Z :=
  match p with
  | [] => Some 0
  | i :: q =>
      if i <? 0 then None else
      match t with
      | TStruct ms =>
          (* member i is at Offset(Mi) *)
          match nth_error ms (Z.to_nat i), nth_error (member_offsets ms) (Z.to_nat i) with
          | Some m, Some o => option_map (Z.add o) (path_offset q (mty m))
          | _, _ => None
          end
      | TArray e n =>
          (* element i is at i * StrideOf *)
          if i <? n then option_map (Z.add (i * stride_of e)) (path_offset q e) else None
      | TRArray e => option_map (Z.add (i * stride_of e)) (path_offset q e)
      | TMat c r s =>
          (* column vector i is at i * AlignOf(vecR) *)
          if i <? c then option_map (Z.add (i * align_of (TVec r s))) (path_offset q (TVec r s)) else None
      | TVec n s =>
          (* component i is at i * SizeOf(T) *)
          if i <? n then option_map (Z.add (i * sw s)) (path_offset q (TScalar s)) else None
      | _ => None
      end
  end.
