(* C07 — which types the layout theorems quantify over (definitions only).
   WGSL: "host-shareable types" (section 6.x Memory: Host-shareable Types),
   attribute validity (@align: power of two, at least the natural alignment in the
   storage address space; @size: at least SizeOf of the member type), fixed-footprint
   rules for runtime-sized arrays, and the extra constraints of the uniform address
   space (13.4.7 Address Space Layout Constraints). *)
From Coq Require Import List ZArith Bool.
Import ListNotations.
Require Import Naga.Layout.Spec.
Open Scope Z_scope.

Definition pow2b (a : Z) : bool := (0 <? a) && (a =? 2 ^ Z.log2 a).

Definition hs_scalar (s : scalar) : bool := match s with SBool => false | _ => true end.
Definition float_scalar (s : scalar) : bool := match s with SF32 | SF16 => true | _ => false end.
Definition int_scalar (s : scalar) : bool := match s with SI32 | SU32 => true | _ => false end.

Definition dim_ok (n : Z) : bool := (2 <=? n) && (n <=? 4).

(* creation-fixed footprint: no runtime-sized array inside *)
Fixpoint fixed (t : ty) : bool :=
  match t with
  | TArray e _ => fixed e
  | TRArray _ => false
  | TStruct ms => forallb (fun m => match m with Mem _ _ t' => fixed t' end) ms
  | _ => true
  end.

Definition align_attr_ok (oa : option attr) (t : ty) : bool :=
  match oa with None => true | Some a => pow2b (aval a) && (align_of t <=? aval a) end.
Definition size_attr_ok (os : option attr) (t : ty) : bool :=
  match os with None => true | Some a => (size_of t <=? aval a) && (0 <? aval a) end.

(* every member but the last has a fixed footprint *)
Fixpoint init_fixed (ms : list member) : bool :=
  match ms with
  | [] => true
  | [_] => true
  | m :: r => fixed (mty m) && init_fixed r
  end.

(* host-shareable and well-formed *)
Fixpoint wf (t : ty) : bool :=
  match t with
  | TScalar s => hs_scalar s
  | TVec n s => dim_ok n && hs_scalar s
  | TMat c r s => dim_ok c && dim_ok r && float_scalar s
  | TAtomic s => int_scalar s
  | TArray e n => wf e && fixed e && (0 <? n)
  | TRArray e => wf e && fixed e
  | TStruct ms =>
      negb (match ms with [] => true | _ => false end) && init_fixed ms &&
      forallb (fun m => match m with Mem oa os t' =>
                 wf t' && align_attr_ok oa t' && size_attr_ok os t' end) ms
  end.

(* ---- hypotheses under which naga's lowerer is proved to follow the spec ---- *)

(* every @align / @size argument is a plain decimal literal *)
Definition dec_attr (oa : option attr) : bool :=
  match oa with None => true | Some a => match aform_of a with FDec => true | _ => false end end.

Fixpoint plain_attrs (t : ty) : bool :=
  match t with
  | TArray e _ | TRArray e => plain_attrs e
  | TStruct ms => forallb (fun m => match m with Mem oa os t' =>
                    dec_attr oa && dec_attr os && plain_attrs t' end) ms
  | _ => true
  end.

(* the natural alignment of a structure: the maximum over the member *types* *)
Definition natural_struct_align (ms : list member) : Z :=
  fold_right (fun m acc => Z.max (align_of (mty m)) acc) 1 ms.

(* no @align changes the alignment of this structure: AlignOf(S) (which takes the
   @align values into account) equals the natural one *)
Definition no_align_raise (ms : list member) : bool :=
  struct_align (infos_of ms) =? natural_struct_align ms.

(* ... for every structure in the tree, the root included *)
Fixpoint align_inert (t : ty) : bool :=
  match t with
  | TArray e _ | TRArray e => align_inert e
  | TStruct ms => no_align_raise ms &&
                  forallb (fun m => match m with Mem _ _ t' => align_inert t' end) ms
  | _ => true
  end.

(* ... for every structure strictly below the root structure (the root's own
   alignment is never consulted when its members are placed) *)
Definition inner_align_inert (t : ty) : bool :=
  match t with
  | TStruct ms => forallb (fun m => align_inert (mty m)) ms
  | _ => align_inert t
  end.

(* no uint32 computation of the lowerer overflows (all quantities below 2^32) *)
Fixpoint fits_from (cur : Z) (infos : list (Z * Z)) : bool :=
  match infos with
  | [] => true
  | (a, s) :: r =>
      (cur + a - 1 <? 2 ^ 32) && (round_up a cur + s <? 2 ^ 32) && fits_from (round_up a cur + s) r
  end.

Fixpoint fits (t : ty) : bool :=
  match t with
  | TArray e n => fits e && (size_of e + align_of e - 1 <? 2 ^ 32) && (stride_of e * n <? 2 ^ 32) && (n <? 2 ^ 32)
  | TRArray e => fits e && (size_of e + align_of e - 1 <? 2 ^ 32)
  | TStruct ms =>
      forallb (fun m => match m with Mem oa os t' =>
                 fits t' && (attr_or oa 1 <? 2 ^ 32) && (attr_or os 1 <? 2 ^ 32) end) ms &&
      fits_from 0 (infos_of ms) &&
      (end_from 0 (infos_of ms) + struct_align (infos_of ms) - 1 <? 2 ^ 32)
  | _ => true
  end.

(* ---- GLSL: a type whose WGSL layout uses no explicit attribute (GLSL blocks
   have no way to express @align/@size; see Layout/Glsl.v) ---- *)
Fixpoint no_attrs (t : ty) : bool :=
  match t with
  | TArray e _ | TRArray e => no_attrs e
  | TStruct ms => forallb (fun m => match m with Mem oa os t' =>
                    match oa, os with None, None => no_attrs t' | _, _ => false end end) ms
  | _ => true
  end.

(* ---- 13.4.7: constraints of the uniform address space ----
   RequiredAlignOf(S, uniform) = roundUp(16, AlignOf(S)) for structures and arrays,
   AlignOf otherwise; every member offset is a multiple of RequiredAlignOf of its
   type; array strides are multiples of 16; a member of structure type S is
   followed by at least roundUp(16, SizeOf(S)) bytes before the next member. *)
Definition required_align_uniform (t : ty) : Z :=
  match t with
  | TArray _ _ | TRArray _ | TStruct _ => round_up 16 (align_of t)
  | _ => align_of t
  end.

Definition is_struct (t : ty) : bool := match t with TStruct _ => true | _ => false end.

Fixpoint uniform_members_ok (ms : list member) (offs : list Z) : bool :=
  match ms, offs with
  | [], [] => true
  | m :: r, o :: ro =>
      (o mod required_align_uniform (mty m) =? 0) &&
      (match ro with
       | o2 :: _ => if is_struct (mty m) then o + round_up 16 (size_of (mty m)) <=? o2 else true
       | [] => true
       end) &&
      uniform_members_ok r ro
  | _, _ => false
  end.

Fixpoint uniform_ok (t : ty) : bool :=
  match t with
  | TArray e _ => uniform_ok e && (stride_of e mod 16 =? 0)
  | TRArray _ => false
  | TAtomic _ => false
  | TStruct ms => forallb (fun m => match m with Mem _ _ t' => uniform_ok t' end) ms &&
                  uniform_members_ok ms (member_offsets ms)
  | _ => true
  end.

(* std140 additionally stores matrix columns at a multiple of 16 bytes: only matrices
   whose column alignment already is one can coincide (mat?x3<f32>, mat?x4<f32>) *)
Fixpoint std140_mat_ok (t : ty) : bool :=
  match t with
  | TMat c r s => vec_align r s mod 16 =? 0
  | TArray e _ | TRArray e => std140_mat_ok e
  | TStruct ms => forallb (fun m => match m with Mem _ _ t' => std140_mat_ok t' end) ms
  | _ => true
  end.

(* erase what a placement comparison does not look at *)
Fixpoint erase_leaf (l : lay) : lay :=
  match l with
  | LLeaf _ => LLeaf 0
  | LArr st n e => LArr st n (erase_leaf e)
  | LStruct sp offs subs => LStruct sp offs (map erase_leaf subs)
  end.
Fixpoint erase_sizes (l : lay) : lay :=
  match l with
  | LLeaf _ => LLeaf 0
  | LArr st n e => LArr st n (erase_sizes e)
  | LStruct sp offs subs => LStruct 0 offs (map erase_sizes subs)
  end.
