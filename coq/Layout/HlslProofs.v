(* C07 — HLSL byte-address arithmetic addresses every component at its WGSL offset. *)
From Coq Require Import List ZArith Bool Lia ZifyBool.
Import ListNotations.
Require Import Naga.Layout.Spec Naga.Layout.Constraints Naga.Layout.Naga Naga.Layout.Arith
  Naga.Layout.SpecProofs Naga.Layout.NagaProofs Naga.Layout.Hlsl.
Open Scope Z_scope.

(* indices into runtime-sized arrays stay below 2^32 bytes (the uint32 product does not wrap) *)
Fixpoint path_fits (p : list Z) (t : ty) : bool :=
  match p with
  | [] => true
  | i :: q =>
      match t with
      | TStruct ms => match nth_error ms (Z.to_nat i) with Some m => path_fits q (mty m) | None => true end
      | TArray e _ => path_fits q e
      | TRArray e => (stride_of e * i <? 2 ^ 32) && path_fits q e
      | _ => true
      end
  end.

Lemma inert_inner : forall t, align_inert t = true -> inner_align_inert t = true.
Proof.
  destruct t; auto. intros H. cbn [align_inert] in H. andb_split H. cbn [inner_align_inert].
  rewrite forallb_forall in *. intros m Hin. specialize (H0 m Hin). destruct m; auto.
Qed.

Lemma option_map_add_ext : forall a b (x y : option Z), a = b -> x = y ->
  option_map (Z.add a) x = option_map (Z.add b) y.
Proof. intros; subst; reflexivity. Qed.

Lemma hlsl_offset_eq_spec_lemma : forall p t,
  wf t = true -> plain_attrs t = true -> inner_align_inert t = true -> fits t = true ->
  path_fits p t = true ->
  hlsl_access_offset p t = path_offset p t.
Proof.
  induction p as [|i q IH]; intros t Hwf Hpl Hin Hfit Hpf; [reflexivity|].
  cbn [hlsl_access_offset path_offset]. destruct (i <? 0) eqn:Hi0; [reflexivity|].
  destruct t; try reflexivity.
  - (* vector *)
    cbn [wf] in Hwf. unfold dim_ok in Hwf. andb_split Hwf.
    destruct (i <? n) eqn:Hin'; [|reflexivity]. apply option_map_add_ext.
    + rewrite (hs_width _ Hwf0). rewrite u32_small; [lia|]. destruct s; cbn [sw]; lia.
    + apply IH; auto. destruct q; reflexivity.
  - (* matrix *)
    cbn [wf] in Hwf. unfold dim_ok in Hwf. andb_split Hwf.
    destruct (i <? c) eqn:Hic; [|reflexivity]. apply option_map_add_ext.
    + rewrite (float_width _ Hwf0). unfold align_of. cbn [als fst]. unfold vec_align, hlsl_alignment_from_vector_size.
      assert (r = 2 \/ r = 3 \/ r = 4) as [ -> | [ -> | -> ] ] by lia; cbn [Z.eqb Pos.eqb orb];
        destruct s; try discriminate; cbn [sw]; unfold u32; lia.
    + apply IH; auto.
      * cbn [wf]. unfold dim_ok. rewrite Hwf1. destruct s; try discriminate; reflexivity.
      * destruct q; reflexivity.
  - (* array *)
    cbn [wf plain_attrs inner_align_inert align_inert fits path_fits] in *. andb_split Hwf. andb_split Hfit.
    destruct (i <? n) eqn:Hin'; [|reflexivity]. apply option_map_add_ext.
    + rewrite nstride_eq; auto; try lia; [|apply nals_eq; auto].
      destruct (wf_als _ Hwf) as [P S]. pose proof (pow2_pos _ P).
      pose proof (round_up_nonneg (align_of t) (size_of t)). unfold stride_of in *.
      rewrite u32_small; nia.
    + apply IH; auto using inert_inner.
  - (* runtime-sized array *)
    cbn [wf plain_attrs inner_align_inert align_inert fits path_fits] in *. andb_split Hwf. andb_split Hfit. andb_split Hpf.
    apply option_map_add_ext.
    + rewrite nstride_eq; auto; try lia; [|apply nals_eq; auto].
      destruct (wf_als _ Hwf) as [P S]. pose proof (pow2_pos _ P).
      pose proof (round_up_nonneg (align_of t) (size_of t)). unfold stride_of in *.
      rewrite u32_small; nia.
    + apply IH; auto using inert_inner.
  - (* structure *)
    destruct (root_offsets_span _ Hwf Hpl Hin Hfit) as [Ho _]. rewrite Ho.
    destruct (nth_error ms (Z.to_nat i)) as [m|] eqn:Hm; [|reflexivity].
    destruct (nth_error (member_offsets ms) (Z.to_nat i)) as [o|]; [|reflexivity].
    apply option_map_add_ext; auto.
    destruct (inert_members _ _ (nth_error_In _ _ Hm) Hwf Hpl Hin Hfit) as [A [B [C D]]].
    apply IH; auto using inert_inner.
    cbn [path_fits] in Hpf. rewrite Hm in Hpf. auto.
Qed.
