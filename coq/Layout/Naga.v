(* C07 — what naga's WGSL lowerer computes, transliterated from
     /repo/wgsl/internal/lower/lower.go
        lowerStruct            (690-738)
        getAlignAttribute      (741-753)   getSizeAttribute (756-768)
        typeAlignmentAndSize   (772-852)
        resolveType, array case(10100-10121)  (same formula at 3362, 6434, 10191, 10569)
     /repo/ir/type_size.go     TypeSize / typeInnerSize / vectorAlignment
   uint32 arithmetic is explicit ([u32]); `x &^ y` is [Z.ldiff].
   Definitions only. *)
From Coq Require Import List ZArith Bool.
Import ListNotations.
Require Import Naga.Layout.Spec.
Open Scope Z_scope.

Definition u32 (x : Z) : Z := x mod 2 ^ 32.

(* (offset + align - 1) &^ (align - 1)  in uint32 *)
Definition nround (align offset : Z) : Z :=
  Z.ldiff (u32 (u32 (offset + align) - 1)) (u32 (align - 1)).

(* ir.ScalarType.Width as the lowerer registers it: bool 1, f16 2, others 4 *)
Definition nwidth (s : scalar) : Z := match s with SBool => 1 | SF16 => 2 | _ => 4 end.

(* getAlignAttribute / getSizeAttribute: only *parser.Literal arguments are looked at,
   and their text goes through fmt.Sscanf(lit.Value, "%d", &val):
     "16", "16u", "16i"  -> 16
     "0x10"              -> 0   (%d stops at the 'x' after reading "0")
   anything that is not a literal (identifier, binary expression) -> 0.
   0 means "attribute absent" to the caller. *)
Definition nattr (oa : option attr) : Z :=
  match oa with
  | None => 0
  | Some a => match aform_of a with
              | FDec => u32 (aval a)
              | FHex => 0
              | FExpr => 0
              end
  end.

(* lowerStruct's loop over the members; infos = per member (align, size) as returned
   by typeAlignmentAndSize, with the explicit attribute values next to them. *)
Fixpoint nloop (offset maxAlign : Z) (ms : list (Z * Z * Z * Z)) : list Z * Z * Z :=
  match ms with
  | [] => ([], offset, maxAlign)
  | (talign, tsize, ealign, esize) :: r =>
      let align := if 0 <? ealign then ealign else talign in
      let size := if 0 <? esize then esize else tsize in
      let maxAlign' := if maxAlign <? align then align else maxAlign in
      let off := nround align offset in
      let '(os, e, m) := nloop (u32 (off + size)) maxAlign' r in
      (off :: os, e, m)
  end.

Definition noffsets (ms : list (Z * Z * Z * Z)) : list Z := fst (fst (nloop 0 1 ms)).
(* structSize := (offset + maxAlign - 1) &^ (maxAlign - 1) *)
Definition nspan (ms : list (Z * Z * Z * Z)) : Z :=
  let '(_, e, m) := nloop 0 1 ms in nround m e.

Definition vec_factor (n : Z) : Z := if n =? 2 then 2 else if (n =? 3) || (n =? 4) then 4 else 0.
Definition mat_factor (n : Z) : Z := if n =? 2 then 2 else if (n =? 3) || (n =? 4) then 4 else 1.

(* typeAlignmentAndSize *)
Fixpoint nals (t : ty) : Z * Z :=
  match t with
  | TScalar s => (nwidth s, nwidth s)
  | TVec n s => (u32 (vec_factor n * nwidth s), u32 (n * nwidth s))
  | TMat c r s => let colAlign := u32 (mat_factor r * nwidth s) in (colAlign, u32 (colAlign * c))
  | TAtomic s => (nwidth s, nwidth s)
  | TArray e n =>
      let '(ea, es) := nals e in
      let stride := nround ea es in
      (ea, u32 (stride * n))
  | TRArray e =>
      let '(ea, es) := nals e in (ea, nround ea es)
  | TStruct ms =>
      (* alignment: maximum over the member TYPES (explicit @align is not consulted);
         size: the Span computed by lowerStruct *)
      let infos := map (fun m => match m with Mem oa os t' =>
                          let '(a, s) := nals t' in (a, s, nattr oa, nattr os) end) ms in
      (fold_left (fun acc i => match i with (a, _, _, _) => if acc <? a then a else acc end) infos 1,
       nspan infos)
  end.

Definition ninfo (m : member) : Z * Z * Z * Z :=
  let '(a, s) := nals (mty m) in (a, s, nattr (mal m), nattr (msz m)).
Definition ninfos (ms : list member) := map ninfo ms.

(* resolveType, array case: stride := (elemSize + elemAlign - 1) &^ (elemAlign - 1) *)
Definition nstride (e : ty) : Z := let '(ea, es) := nals e in nround ea es.

(* ir.TypeSize on the lowered type (Stride and Span are the stored values) *)
Definition ir_vector_alignment (n : Z) : Z := if n =? 2 then 2 else 4.
Definition ir_type_size (t : ty) : Z :=
  match t with
  | TScalar s => nwidth s
  | TAtomic s => nwidth s
  | TVec n s => u32 (n * nwidth s)
  | TMat c r s => u32 (u32 (ir_vector_alignment r * nwidth s) * c)
  | TArray e n => u32 (n * nstride e)
  | TRArray e => u32 (1 * nstride e)
  | TStruct ms => nspan (ninfos ms)
  end.

(* The layout the IR carries after lowering: Offset per member, Span per struct,
   Stride per array; for leaves what ir.TypeSize answers. *)
Fixpoint naga_layout (t : ty) : lay :=
  match t with
  | TArray e n => LArr (nstride e) (Some n) (naga_layout e)
  | TRArray e => LArr (nstride e) None (naga_layout e)
  | TStruct ms => LStruct (nspan (ninfos ms)) (noffsets (ninfos ms))
                    (map (fun m => match m with Mem _ _ t' => naga_layout t' end) ms)
  | _ => LLeaf (ir_type_size t)
  end.
