(* C07 — obligations on definitions regenerated from the Go source on every run
   (coq/Gen/LayoutTables.v): the leaf tables agree with the hand models, and the
   arithmetic statements of the layout code are textually the ones that were
   transliterated into Layout/Naga.v, Layout/Hlsl.v, Layout/Msl.v. A changed
   statement makes the obligation fail; the check then searches for a type tree
   whose layout is wrong. *)
From Coq Require Import List ZArith String Bool.
Import ListNotations.
Require Import Naga.Gen.LayoutTables Naga.Layout.Spec Naga.Layout.Naga Naga.Layout.Hlsl Naga.Layout.Msl.
Open Scope Z_scope.

Definition lookup (tbl : list (Z * Z)) (n : Z) : Z :=
  match find (fun p => fst p =? n) tbl with
  | Some p => snd p
  | None => match find (fun p => fst p =? 0) tbl with Some p => snd p | None => -1 end
  end.

Definition dims : list Z := [1; 2; 3; 4; 5; 8].

Lemma gen_ir_vector_alignment :
  forallb (fun n => lookup ir_vector_alignment_table n =? ir_vector_alignment n) dims = true.
Proof. vm_compute. reflexivity. Qed.

Lemma gen_hlsl_alignment_from_vector_size :
  forallb (fun n => lookup hlsl_alignment_table n =? hlsl_alignment_from_vector_size n) dims = true.
Proof. vm_compute. reflexivity. Qed.

Open Scope string_scope.

Lemma gen_lower_struct_statements :
  lower_struct_assigns =
  [("align", "l.typeAlignmentAndSize(typeHandle)");
   ("size", "l.typeAlignmentAndSize(typeHandle)");
   ("explicitAlign", "getAlignAttribute(m.Attributes)");
   ("align", "explicitAlign");
   ("explicitSize", "getSizeAttribute(m.Attributes)");
   ("size", "explicitSize");
   ("maxAlign", "align");
   ("offset", "(offset + align - 1) &^ (align - 1)");
   ("offset", "size");
   ("structSize", "(offset + maxAlign - 1) &^ (maxAlign - 1)")].
Proof. vm_compute. reflexivity. Qed.

Lemma gen_type_align_size_statements :
  type_align_size_assigns =
  [("w", "uint32(t.Width)");
   ("scalarWidth", "uint32(t.Scalar.Width)");
   ("vecAlignFactor", "2");
   ("vecAlignFactor", "4");
   ("alignment", "vecAlignFactor * scalarWidth");
   ("size", "uint32(t.Size) * scalarWidth");
   ("scalarWidth", "uint32(t.Scalar.Width)");
   ("rowsAlignFactor", "2");
   ("rowsAlignFactor", "4");
   ("rowsAlignFactor", "1");
   ("colAlign", "rowsAlignFactor * scalarWidth");
   ("stride", "(elemSize + elemAlign - 1) &^ (elemAlign - 1)");
   ("maxMemberAlign", "memberAlign");
   ("w", "uint32(t.Scalar.Width)")].
Proof. vm_compute. reflexivity. Qed.

Lemma gen_resolve_type_statements :
  resolve_type_assigns = [("stride", "(elemSize + elemAlign - 1) &^ (elemAlign - 1)")].
Proof. vm_compute. reflexivity. Qed.

(* getAlignAttribute / getSizeAttribute: literal arguments only, read with Sscanf "%d" *)
Lemma gen_attribute_readers :
  get_align_attribute_src =
  "{ for _, attr := range attrs { if attr.Name == ""align"" && len(attr.Args) == 1 { if lit, ok := attr.Args[0].(*parser.Literal); ok { var val uint32 if _, err := fmt.Sscanf(lit.Value, ""%d"", &val); err == nil { return val } } } } return 0 }"
  /\
  get_size_attribute_src =
  "{ for _, attr := range attrs { if attr.Name == ""size"" && len(attr.Args) == 1 { if lit, ok := attr.Args[0].(*parser.Literal); ok { var val uint32 if _, err := fmt.Sscanf(lit.Value, ""%d"", &val); err == nil { return val } } } } return 0 }".
Proof. split; vm_compute; reflexivity. Qed.

Lemma gen_msl_should_pack_statements :
  msl_should_pack_assigns =
  [("lastOffset", "member.Offset + w.typeSize(member.Type)");
   ("nextOffset", "st.Members[memberIdx+1].Offset");
   ("nextOffset", "st.Span");
   ("isTight", "nextOffset == lastOffset")].
Proof. vm_compute. reflexivity. Qed.

Lemma gen_spv_matrix_stride_statements :
  spv_member_decoration_assigns =
  [("rowMul", "2"); ("rowMul", "4"); ("stride", "rowMul * uint32(mat.Scalar.Width)")].
Proof. vm_compute. reflexivity. Qed.

Lemma gen_hlsl_sub_access_statements :
  hlsl_sub_access_assigns =
  [("stride", "inner.Stride");
   ("scalarWidth", "uint32(inner.Scalar.Width)");
   ("rowStride", "alignmentFromVectorSize(inner.Rows) * uint32(inner.Scalar.Width)");
   ("scalarWidth", "uint32(inner.Scalar.Width)")].
Proof. vm_compute. reflexivity. Qed.
