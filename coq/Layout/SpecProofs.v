(* C07 — facts about the WGSL layout functions themselves, for every type tree:
   alignments are powers of two, sizes are multiples of alignments, member offsets
   are aligned, members do not overlap and lie inside the structure. *)
From Coq Require Import List ZArith Bool Lia ZifyBool.
Import ListNotations.
Require Import Naga.Layout.Spec Naga.Layout.Constraints Naga.Layout.Naga Naga.Layout.Arith.
Open Scope Z_scope.

(* ------------------------------------------------------------ list level *)

Definition infos_pos (infos : list (Z * Z)) : Prop := Forall (fun i => pow2 (fst i) /\ 0 <= snd i) infos.

Lemma infos_pos_sizes : forall infos, infos_pos infos -> Forall (fun i => 0 <= snd i) infos.
Proof. intros. eapply Forall_impl; [|exact H]. cbn. tauto. Qed.

Lemma struct_align_pow2 : forall infos, infos_pos infos -> pow2 (struct_align infos).
Proof.
  induction 1 as [|i r [Hp _] _ IH]; cbn [struct_align fold_right].
  - apply pow2_1.
  - apply pow2_max; auto.
Qed.

Lemma struct_align_ge : forall infos i, In i infos -> fst i <= struct_align infos.
Proof.
  induction infos as [|j r IH]; intros i Hin; [destruct Hin|].
  cbn [struct_align fold_right]. destruct Hin as [->|Hin]. lia.
  specialize (IH i Hin). unfold struct_align in IH. lia.
Qed.

Lemma struct_align_ge1 : forall infos, 1 <= struct_align infos.
Proof. induction infos; cbn [struct_align fold_right]. lia. unfold struct_align in IHinfos. lia. Qed.

Lemma offsets_from_length : forall infos cur, length (offsets_from cur infos) = length infos.
Proof. induction infos as [|[a s] r IH]; intros; cbn [offsets_from length]; auto. Qed.

(* cur <= o1, o1 + s1 <= o2, ..., on + sn <= end *)
Fixpoint chain (cur : Z) (offs : list Z) (infos : list (Z * Z)) (e : Z) : Prop :=
  match offs, infos with
  | [], [] => cur <= e
  | o :: ro, (a, s) :: ri => cur <= o /\ (a | o) /\ chain (o + s) ro ri e
  | _, _ => False
  end.

Lemma offsets_chain : forall infos cur, infos_pos infos ->
  chain cur (offsets_from cur infos) infos (end_from cur infos).
Proof.
  induction infos as [|[a s] r IH]; intros cur Hp; cbn [offsets_from end_from chain].
  - lia.
  - inversion Hp as [|x y [Ha Hs] Hr]; subst. cbn [fst snd] in *.
    pose proof (pow2_pos _ Ha).
    split. apply round_up_ge; auto. split. apply round_up_divide; auto. apply IH; auto.
Qed.

Lemma chain_le_end : forall offs infos cur e, Forall (fun i => 0 <= snd i) infos ->
  chain cur offs infos e -> cur <= e.
Proof.
  induction offs as [|o ro IH]; intros [|[a s] ri] cur e Hs H; cbn [chain] in H; try tauto.
  destruct H as [H1 [_ H2]]. inversion Hs as [|x y Hs1 Hs2]; subst. cbn [snd] in *.
  specialize (IH _ _ _ Hs2 H2). lia.
Qed.

Lemma chain_nth : forall offs infos cur e i o a s, Forall (fun i => 0 <= snd i) infos ->
  chain cur offs infos e ->
  nth_error offs i = Some o -> nth_error infos i = Some (a, s) ->
  cur <= o /\ (a | o) /\ o + s <= e.
Proof.
  induction offs as [|o0 ro IH]; intros [|[a0 s0] ri] cur e i o a s Hs H Ho Hi;
    cbn [chain] in H; try tauto; try (destruct i; discriminate).
  destruct H as [H1 [H2 H3]]. inversion Hs as [|x y Hs1 Hs2]; subst. cbn [snd] in *.
  destruct i as [|i]; cbn [nth_error] in *.
  - inversion Ho; inversion Hi; subst. split; auto. split; auto.
    eapply chain_le_end; eauto.
  - destruct (IH _ _ _ _ _ _ _ Hs2 H3 Ho Hi) as [A [B C]]. split; [lia|]. split; auto.
Qed.

Lemma chain_pairwise : forall offs infos cur e i j oi oj ai si aj sj,
  Forall (fun i => 0 <= snd i) infos -> chain cur offs infos e -> (i < j)%nat ->
  nth_error offs i = Some oi -> nth_error infos i = Some (ai, si) ->
  nth_error offs j = Some oj -> nth_error infos j = Some (aj, sj) ->
  oi + si <= oj.
Proof.
  induction offs as [|o0 ro IH]; intros [|[a0 s0] ri] cur e i j oi oj ai si aj sj Hs H Hij Hoi Hii Hoj Hij';
    cbn [chain] in H; try tauto; try (destruct i; discriminate).
  destruct H as [H1 [H2 H3]]. inversion Hs as [|x y Hs1 Hs2]; subst. cbn [snd] in *.
  destruct j as [|j]; [lia|]. destruct i as [|i]; cbn [nth_error] in *.
  - inversion Hoi; inversion Hii; subst.
    destruct (chain_nth _ _ _ _ _ _ _ _ Hs2 H3 Hoj Hij') as [A _]. lia.
  - apply (IH ri (o0 + s0) e i j oi oj ai si aj sj); auto. lia.
Qed.

(* ------------------------------------------------------------ type level *)

Lemma vec_align_pow2 : forall n s, pow2 (vec_align n s).
Proof.
  intros. unfold vec_align, sw. destruct (n =? 2); destruct s;
    try (exists 2; split; [lia|reflexivity]); try (exists 3; split; [lia|reflexivity]);
    try (exists 4; split; [lia|reflexivity]).
Qed.

Lemma als_struct : forall ms, als (TStruct ms) = (struct_align (infos_of ms), struct_size (infos_of ms)).
Proof.
  intros. cbn [als]. unfold infos_of.
  assert (E : map (fun m => match m with Mem oa os t => let '(a, s) := als t in (attr_or oa a, attr_or os s) end) ms
              = map member_info ms).
  { apply map_ext. intros [oa os t]. unfold member_info, align_of, size_of. cbn [mal msz mty].
    destruct (als t); reflexivity. }
  rewrite E. reflexivity.
Qed.

Lemma wf_struct_members : forall ms, wf (TStruct ms) = true ->
  Forall (fun m => wf (mty m) = true /\ align_attr_ok (mal m) (mty m) = true /\ size_attr_ok (msz m) (mty m) = true) ms.
Proof.
  intros ms H. cbn [wf] in H. apply andb_true_iff in H. destruct H as [_ H].
  rewrite forallb_forall in H. apply Forall_forall. intros [oa os t] Hin. specialize (H _ Hin).
  cbn [mty mal msz]. cbn beta iota in H. repeat (apply andb_true_iff in H; destruct H as [H ?]). auto.
Qed.

Lemma member_info_pos : forall m, wf (mty m) = true ->
  (wf (mty m) = true -> pow2 (align_of (mty m)) /\ 0 <= size_of (mty m)) ->
  align_attr_ok (mal m) (mty m) = true -> size_attr_ok (msz m) (mty m) = true ->
  pow2 (fst (member_info m)) /\ 0 <= snd (member_info m).
Proof.
  intros [oa os t] Hwf IH Ha Hs. cbn [mty mal msz] in *. destruct (IH Hwf) as [P S].
  unfold member_info; cbn [mty mal msz fst snd]. split.
  - destruct oa as [a|]; cbn [attr_or]; auto. cbn [align_attr_ok] in Ha.
    apply andb_true_iff in Ha. destruct Ha as [Ha _]. apply pow2b_pow2; auto.
  - destruct os as [a|]; cbn [attr_or]; auto. cbn [size_attr_ok] in Hs. lia.
Qed.

(* AlignOf is a power of two, SizeOf is non-negative *)
Lemma wf_als : forall t, wf t = true -> pow2 (align_of t) /\ 0 <= size_of t.
Proof.
  induction t using ty_ind'; intros Hwf.
  - unfold align_of, size_of; cbn [als fst snd]. destruct s; cbn [sw];
      (split; [first [apply pow2_4 | apply pow2_2]|lia]).
  - unfold align_of, size_of; cbn [als fst snd]. cbn [wf] in Hwf. unfold dim_ok in Hwf.
    split. apply vec_align_pow2. unfold vec_size. destruct s; cbn [sw]; lia.
  - unfold align_of, size_of; cbn [als fst snd]. cbn [wf] in Hwf. unfold dim_ok in Hwf.
    split. apply vec_align_pow2.
    pose proof (pow2_pos _ (vec_align_pow2 r s)).
    assert (0 <= vec_size r s) by (unfold vec_size; destruct s; cbn [sw]; lia).
    pose proof (round_up_nonneg (vec_align r s) (vec_size r s)). nia.
  - unfold align_of, size_of; cbn [als fst snd]. split. apply pow2_4. lia.
  - cbn [wf] in Hwf. andb_split Hwf. destruct (IHt Hwf) as [P S].
    unfold align_of, size_of in *. cbn [als]. destruct (als t) as [a sz]. cbn [fst snd] in *.
    split; auto. pose proof (pow2_pos _ P). pose proof (round_up_nonneg a sz). nia.
  - cbn [wf] in Hwf. andb_split Hwf. destruct (IHt Hwf) as [P S].
    unfold align_of, size_of in *. cbn [als]. destruct (als t) as [a sz]. cbn [fst snd] in *.
    split; auto. pose proof (pow2_pos _ P). apply round_up_nonneg; auto.
  - pose proof (wf_struct_members _ Hwf) as Hm.
    assert (Hpos : infos_pos (infos_of ms)).
    { unfold infos_pos, infos_of. apply Forall_map. rewrite Forall_forall in *.
      intros m Hin. destruct (Hm m Hin) as [A [B C]]. apply member_info_pos; auto. }
    unfold align_of, size_of. rewrite als_struct. cbn [fst snd]. split.
    + apply struct_align_pow2; auto.
    + unfold struct_size. pose proof (pow2_pos _ (struct_align_pow2 _ Hpos)).
      apply round_up_nonneg; auto.
      pose proof (offsets_chain (infos_of ms) 0 Hpos) as Hc.
      apply (chain_le_end _ _ _ _ (infos_pos_sizes _ Hpos) Hc).
Qed.

Lemma wf_infos_pos : forall ms, wf (TStruct ms) = true -> infos_pos (infos_of ms).
Proof.
  intros ms Hwf. pose proof (wf_struct_members _ Hwf) as Hm.
  unfold infos_pos, infos_of. apply Forall_map. rewrite Forall_forall in *.
  intros m Hin. destruct (Hm m Hin) as [A [B C]]. apply member_info_pos; auto.
  intros. apply wf_als; auto.
Qed.


(* ---- the statements used by Props/C07.v ---- *)

(* SizeOf(S) is a multiple of AlignOf(S); array sizes and strides are multiples of the element alignment *)
Lemma struct_size_multiple_of_align : forall ms, wf (TStruct ms) = true ->
  (align_of (TStruct ms) | size_of (TStruct ms)).
Proof.
  intros ms Hwf. unfold align_of, size_of. rewrite als_struct. cbn [fst snd]. unfold struct_size.
  apply round_up_divide. apply pow2_pos. apply struct_align_pow2. apply wf_infos_pos; auto.
Qed.

Lemma array_stride_multiple_of_align : forall e, wf e = true -> (align_of e | stride_of e).
Proof. intros e Hwf. unfold stride_of. apply round_up_divide. apply pow2_pos. apply wf_als; auto. Qed.

Lemma array_size_is_count_times_stride : forall e n, size_of (TArray e n) = n * stride_of e.
Proof. intros. unfold size_of, stride_of, align_of, size_of. cbn [als]. destruct (als e); reflexivity. Qed.

Lemma nth_infos : forall ms k m, nth_error ms k = Some m ->
  nth_error (infos_of ms) k = Some (fst (member_info m), snd (member_info m)).
Proof.
  intros ms k m H. unfold infos_of. rewrite nth_error_map, H. cbn [option_map].
  rewrite <- surjective_pairing. reflexivity.
Qed.

(* every member offset is a multiple of the member's alignment *)
Lemma offsets_aligned_lemma : forall ms i o m, wf (TStruct ms) = true ->
  nth_error (member_offsets ms) i = Some o -> nth_error ms i = Some m ->
  (fst (member_info m) | o).
Proof.
  intros ms i o m Hwf Ho Hm. pose proof (wf_infos_pos _ Hwf) as Hpos.
  pose proof (offsets_chain _ 0 Hpos) as Hc.
  pose proof (nth_infos _ _ _ Hm) as Hi.
  destruct (chain_nth _ _ _ _ _ _ _ _ (infos_pos_sizes _ Hpos) Hc Ho Hi) as [_ [A _]]. exact A.
Qed.

(* members do not overlap, and each lies inside [0, SizeOf(S)) *)
Lemma members_disjoint_lemma : forall ms i j oi oj mi mj, wf (TStruct ms) = true -> (i < j)%nat ->
  nth_error (member_offsets ms) i = Some oi -> nth_error ms i = Some mi ->
  nth_error (member_offsets ms) j = Some oj -> nth_error ms j = Some mj ->
  oi + snd (member_info mi) <= oj.
Proof.
  intros ms i j oi oj mi mj Hwf Hij Hoi Hmi Hoj Hmj. pose proof (wf_infos_pos _ Hwf) as Hpos.
  pose proof (offsets_chain _ 0 Hpos) as Hc.
  apply (chain_pairwise _ _ _ _ i j oi oj (fst (member_info mi)) (snd (member_info mi))
           (fst (member_info mj)) (snd (member_info mj)) (infos_pos_sizes _ Hpos) Hc Hij); auto using nth_infos.
Qed.

Lemma members_inside_lemma : forall ms i o m, wf (TStruct ms) = true ->
  nth_error (member_offsets ms) i = Some o -> nth_error ms i = Some m ->
  0 <= o /\ o + snd (member_info m) <= size_of (TStruct ms).
Proof.
  intros ms i o m Hwf Ho Hm. pose proof (wf_infos_pos _ Hwf) as Hpos.
  pose proof (offsets_chain _ 0 Hpos) as Hc.
  pose proof (nth_infos _ _ _ Hm) as Hi.
  destruct (chain_nth _ _ _ _ _ _ _ _ (infos_pos_sizes _ Hpos) Hc Ho Hi) as [A [_ B]]. split; auto.
  unfold size_of. rewrite als_struct. cbn [snd]. unfold struct_size.
  pose proof (round_up_ge (struct_align (infos_of ms)) (end_from 0 (infos_of ms))
                (pow2_pos _ (struct_align_pow2 _ Hpos))). lia.
Qed.
