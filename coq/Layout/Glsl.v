(* C07 — GLSL: the std140 / std430 block layouts, transcribed from the OpenGL 4.6 core
   specification, section 7.6.2.2 "Standard Uniform Block Layout" (rules 1-10; the
   row_major rules 7-8 do not apply: naga emits column-major matrices), and the
   paragraph defining std430 ("identically to std140 except that the base alignment and
   stride of arrays of scalars and vectors in rule 4 and of structures in rule 9 are not
   rounded up a multiple of the base alignment of a vec4").
   N = size of a basic machine unit component (sw s).
   GLSL declarations carry no @align/@size: a member's attributes are not looked at.
   Definitions only. *)
From Coq Require Import List ZArith Bool.
Import ListNotations.
Require Import Naga.Layout.Spec.
Open Scope Z_scope.

(* rounding of rule 4 / rule 9 that std430 drops *)
Definition rnd (std140 : bool) (a : Z) : Z := if std140 then round_up 16 a else a.

(* (base alignment, bytes consumed including the padding at the end that rules 4 and 9
   give to arrays and structures) *)
Fixpoint gals (std140 : bool) (t : ty) : Z * Z :=
  match t with
  | TScalar s => (sw s, sw s)                                        (* rule 1 *)
  | TAtomic _ => (4, 4)                                              (* a uint *)
  | TVec n s => ((if n =? 2 then 2 else 4) * sw s, n * sw s)         (* rules 2, 3 *)
  | TMat c r s =>
      (* rule 5: an array of C column vectors with R components, by rule 4 *)
      let a := rnd std140 ((if r =? 2 then 2 else 4) * sw s) in
      (a, c * round_up a (r * sw s))
  | TArray e n =>
      (* rule 4 (scalars, vectors: stride = base alignment of the element, rounded), rule 6
         (matrices), rule 10 (structures: elements laid out in order by rule 9); for
         every element kind the stride is the element's consumed size rounded up to the
         array's base alignment *)
      let '(a0, s) := gals std140 e in
      let a := rnd std140 a0 in (a, n * round_up a s)
  | TRArray e =>
      let '(a0, s) := gals std140 e in
      let a := rnd std140 a0 in (a, round_up a s)
  | TStruct ms =>
      (* rule 9: base alignment = largest member base alignment (rounded in std140);
         members placed at their aligned offsets; padding at the end up to the alignment *)
      let infos := map (fun m => match m with Mem _ _ t' => gals std140 t' end) ms in
      let a := rnd std140 (struct_align infos) in
      (a, round_up a (end_from 0 infos))
  end.

Definition ginfos (std140 : bool) (ms : list member) : list (Z * Z) := map (fun m => gals std140 (mty m)) ms.
Definition gstride (std140 : bool) (e : ty) : Z :=
  let '(a0, s) := gals std140 e in round_up (rnd std140 a0) s.

Fixpoint glsl_layout (std140 : bool) (t : ty) : lay :=
  match t with
  | TArray e n => LArr (gstride std140 e) (Some n) (glsl_layout std140 e)
  | TRArray e => LArr (gstride std140 e) None (glsl_layout std140 e)
  | TStruct ms => LStruct (snd (gals std140 t)) (offsets_from 0 (ginfos std140 ms))
                    (map (fun m => match m with Mem _ _ t' => glsl_layout std140 t' end) ms)
  | _ => LLeaf (snd (gals std140 t))
  end.
