(* C07 — JSON wire format of the extracted layout tool (see checks/c07.py).
   ty:    ["s",name] | ["v",n,name] | ["m",c,r,name] | ["a",name] | ["arr",ty,n] | ["rarr",ty]
          | ["st",[[align,size,ty],...]]   with align/size = null | ["d"|"h"|"e", value]
   ctype: ["s",w] | ["v",n,w] | ["p",n,w] | ["m",c,r,w] | ["a",w] | ["arr",c,n] | ["rarr",c]
          | ["wrap",c] | ["st",[[is_pad,c],...]]
   lay:   ["l",size] | ["a",stride,count|null,lay] | ["s",span,[offsets],[lays]] *)
From Coq Require Import List ZArith String Bool.
Import ListNotations.
Require Import Naga.Base.Json.
Require Import Naga.Layout.Spec Naga.Layout.Constraints Naga.Layout.Naga Naga.Layout.Hlsl
  Naga.Layout.Glsl Naga.Layout.Msl.
Open Scope Z_scope.
Open Scope string_scope.

Definition scalar_of (s : string) : option scalar :=
  if String.eqb s "bool" then Some SBool else if String.eqb s "i32" then Some SI32
  else if String.eqb s "u32" then Some SU32 else if String.eqb s "f32" then Some SF32
  else if String.eqb s "f16" then Some SF16 else None.

Definition attr_of (j : json) : option (option attr) :=
  match j with
  | JNull => Some None
  | JArr [JStr f; JNum v] =>
      if String.eqb f "d" then Some (Some (mkattr FDec v))
      else if String.eqb f "h" then Some (Some (mkattr FHex v))
      else if String.eqb f "e" then Some (Some (mkattr FExpr v)) else None
  | _ => None
  end.

Fixpoint ty_of (j : json) : option ty :=
  match j with
  | JArr (JStr k :: args) =>
      if String.eqb k "s" then
        match args with [JStr n] => option_map TScalar (scalar_of n) | _ => None end
      else if String.eqb k "v" then
        match args with [JNum n; JStr s] => option_map (TVec n) (scalar_of s) | _ => None end
      else if String.eqb k "m" then
        match args with [JNum c; JNum r; JStr s] => option_map (TMat c r) (scalar_of s) | _ => None end
      else if String.eqb k "a" then
        match args with [JStr n] => option_map TAtomic (scalar_of n) | _ => None end
      else if String.eqb k "arr" then
        match args with [e; JNum n] => option_map (fun e' => TArray e' n) (ty_of e) | _ => None end
      else if String.eqb k "rarr" then
        match args with [e] => option_map TRArray (ty_of e) | _ => None end
      else if String.eqb k "st" then
        match args with
        | [JArr ms] =>
            option_map TStruct
              ((fix go (l : list json) : option (list member) :=
                  match l with
                  | [] => Some []
                  | JArr [a; s; t] :: r =>
                      match attr_of a, attr_of s, ty_of t, go r with
                      | Some a', Some s', Some t', Some r' => Some (Mem a' s' t' :: r')
                      | _, _, _, _ => None
                      end
                  | _ => None
                  end) ms)
        | _ => None
        end
      else None
  | _ => None
  end.

Fixpoint ctype_of (j : json) : option ctype :=
  match j with
  | JArr (JStr k :: args) =>
      if String.eqb k "s" then match args with [JNum w] => Some (CScalar w) | _ => None end
      else if String.eqb k "v" then match args with [JNum n; JNum w] => Some (CVec n w) | _ => None end
      else if String.eqb k "p" then match args with [JNum n; JNum w] => Some (CPacked n w) | _ => None end
      else if String.eqb k "m" then match args with [JNum c; JNum r; JNum w] => Some (CMat c r w) | _ => None end
      else if String.eqb k "a" then match args with [JNum w] => Some (CAtomic w) | _ => None end
      else if String.eqb k "arr" then
        match args with [e; JNum n] => option_map (fun e' => CArr e' n) (ctype_of e) | _ => None end
      else if String.eqb k "rarr" then match args with [e] => option_map CRArr (ctype_of e) | _ => None end
      else if String.eqb k "wrap" then match args with [e] => option_map CWrap (ctype_of e) | _ => None end
      else if String.eqb k "st" then
        match args with
        | [JArr fs] =>
            option_map CStruct
              ((fix go (l : list json) : option (list (bool * ctype)) :=
                  match l with
                  | [] => Some []
                  | JArr [JBool p; c] :: r =>
                      match ctype_of c, go r with
                      | Some c', Some r' => Some ((p, c') :: r')
                      | _, _ => None
                      end
                  | _ => None
                  end) fs)
        | _ => None
        end
      else None
  | _ => None
  end.

Fixpoint json_of_lay (l : lay) : json :=
  match l with
  | LLeaf s => JArr [JStr "l"; JNum s]
  | LArr st n e => JArr [JStr "a"; JNum st; match n with Some c => JNum c | None => JNull end; json_of_lay e]
  | LStruct sp offs subs => JArr [JStr "s"; JNum sp; jnums offs; JArr (map json_of_lay subs)]
  end.

Fixpoint json_of_ctype (c : ctype) : json :=
  match c with
  | CScalar w => JArr [JStr "s"; JNum w]
  | CVec n w => JArr [JStr "v"; JNum n; JNum w]
  | CPacked n w => JArr [JStr "p"; JNum n; JNum w]
  | CMat c r w => JArr [JStr "m"; JNum c; JNum r; JNum w]
  | CAtomic w => JArr [JStr "a"; JNum w]
  | CArr e n => JArr [JStr "arr"; json_of_ctype e; JNum n]
  | CRArr e => JArr [JStr "rarr"; json_of_ctype e]
  | CWrap e => JArr [JStr "wrap"; json_of_ctype e]
  | CStruct fs => JArr [JStr "st"; JArr (map (fun f => match f with (p, c') => JArr [JBool p; json_of_ctype c'] end) fs)]
  end.

Definition jopt (o : option Z) : json := match o with Some z => JNum z | None => JNull end.

Definition paths_of (j : option json) : list (list Z) :=
  match j with
  | Some (JArr l) => fold_right (fun p acc => match nums p with Some q => q :: acc | None => acc end) [] l
  | _ => []
  end.

(* strip every @align/@size: what a GLSL declaration can express *)
Fixpoint strip_attrs (t : ty) : ty :=
  match t with
  | TArray e n => TArray (strip_attrs e) n
  | TRArray e => TRArray (strip_attrs e)
  | TStruct ms => TStruct (map (fun m => match m with Mem _ _ t' => Mem None None (strip_attrs t') end) ms)
  | _ => t
  end.

Definition do_wgsl (j : json) : json :=
  match field "t" j with
  | Some tj =>
      match ty_of tj with
      | Some t =>
          let ps := paths_of (field "paths" j) in
          JObj [("ok", JBool true);
                ("wf", JBool (wf t)); ("plain", JBool (plain_attrs t));
                ("inert", JBool (inner_align_inert t)); ("fits", JBool (fits t));
                ("no_attrs", JBool (no_attrs t)); ("uniform_ok", JBool (uniform_ok t));
                ("mat140_ok", JBool (std140_mat_ok t));
                ("align", JNum (align_of t)); ("size", JNum (size_of t));
                ("ir_type_size", JNum (ir_type_size t));
                ("spec", json_of_lay (spec_layout t));
                ("spec_stripped", json_of_lay (spec_layout (strip_attrs t)));
                ("naga", json_of_lay (naga_layout t));
                ("g430", json_of_lay (glsl_layout false (strip_attrs t)));
                ("g140", json_of_lay (glsl_layout true (strip_attrs t)));
                ("msl_def", json_of_ctype (msl_def t));
                ("msl", json_of_lay (cxx_layout (msl_def t)));
                ("spec_paths", JArr (map (fun p => jopt (path_offset p t)) ps));
                ("hlsl_paths", JArr (map (fun p => jopt (hlsl_access_offset p t)) ps))]
      | None => JObj [("ok", JBool false); ("err", JStr "bad type tree")]
      end
  | None => JObj [("ok", JBool false); ("err", JStr "no t")]
  end.

Definition do_glsl (j : json) : json :=
  match field "t" j, field_bool "std140" j with
  | Some tj, Some b =>
      match ty_of tj with
      | Some t => JObj [("ok", JBool true); ("lay", json_of_lay (glsl_layout b t))]
      | None => JObj [("ok", JBool false); ("err", JStr "bad type tree")]
      end
  | _, _ => JObj [("ok", JBool false); ("err", JStr "no t/std140")]
  end.

Definition do_cxx (j : json) : json :=
  match field "c" j with
  | Some cj =>
      match ctype_of cj with
      | Some c => JObj [("ok", JBool true); ("lay", json_of_lay (cxx_layout c));
                        ("sizeof", JNum (snd (cxx_als c))); ("alignof", JNum (fst (cxx_als c)))]
      | None => JObj [("ok", JBool false); ("err", JStr "bad ctype")]
      end
  | None => JObj [("ok", JBool false); ("err", JStr "no c")]
  end.

Definition entry1 (j : json) : json :=
  match field_str "op" j with
  | Some op =>
      if String.eqb op "wgsl" then do_wgsl j
      else if String.eqb op "glsl" then do_glsl j
      else if String.eqb op "cxx" then do_cxx j
      else JObj [("ok", JBool false); ("err", JStr "unknown op")]
  | None => JObj [("ok", JBool false); ("err", JStr "no op")]
  end.

(* ---- HLSL cbuffer struct definitions ----
   htype: ["s"] | ["v",n] | ["m",rows,cols] | ["arr",h,n] | ["st",[[is_pad,h],...]]
   result: ["l",size] | ["a",stride,n,sub] | ["s",size,[[is_pad,offset,sub],...]] *)
Fixpoint htype_of (j : json) : option htype :=
  match j with
  | JArr (JStr k :: args) =>
      if String.eqb k "s" then match args with [] => Some HS | _ => None end
      else if String.eqb k "v" then match args with [JNum n] => Some (HV n) | _ => None end
      else if String.eqb k "m" then match args with [JNum r; JNum c] => Some (HM r c) | _ => None end
      else if String.eqb k "arr" then
        match args with [e; JNum n] => option_map (fun e' => HA e' n) (htype_of e) | _ => None end
      else if String.eqb k "st" then
        match args with
        | [JArr fs] =>
            option_map HStruct
              ((fix go (l : list json) : option (list (bool * htype)) :=
                  match l with
                  | [] => Some []
                  | JArr [JBool p; c] :: r =>
                      match htype_of c, go r with
                      | Some c', Some r' => Some ((p, c') :: r')
                      | _, _ => None
                      end
                  | _ => None
                  end) fs)
        | _ => None
        end
      else None
  | _ => None
  end.

Fixpoint json_of_hlayout (h : htype) : json :=
  match h with
  | HA e n => JArr [JStr "a"; JNum (round_up 16 (hsize e)); JNum n; json_of_hlayout e]
  | HStruct fs =>
      JArr [JStr "s"; JNum (hsize h);
            JArr ((fix go (l : list (bool * htype)) (offs : list Z) {struct l} : list json :=
                     match l, offs with
                     | (p, f) :: r, o :: ro => JArr [JBool p; JNum o; json_of_hlayout f] :: go r ro
                     | _, _ => []
                     end) fs (hoffsets 0 fs))]
  | _ => JArr [JStr "l"; JNum (hsize h)]
  end.

Fixpoint json_of_htype (h : htype) : json :=
  match h with
  | HS => JArr [JStr "s"]
  | HV n => JArr [JStr "v"; JNum n]
  | HM r c => JArr [JStr "m"; JNum r; JNum c]
  | HA e n => JArr [JStr "arr"; json_of_htype e; JNum n]
  | HStruct fs => JArr [JStr "st"; JArr (map (fun f => match f with (p, c') => JArr [JBool p; json_of_htype c'] end) fs)]
  end.

Definition do_hlsldef (j : json) : json :=
  match field "t" j with
  | Some tj =>
      match ty_of tj with
      | Some t => JObj [("ok", JBool true); ("def", json_of_htype (hlsl_def t))]
      | None => JObj [("ok", JBool false); ("err", JStr "bad type tree")]
      end
  | None => JObj [("ok", JBool false); ("err", JStr "no t")]
  end.

Definition do_hlslcb (j : json) : json :=
  match field "h" j with
  | Some hj =>
      match htype_of hj with
      | Some h => JObj [("ok", JBool true); ("lay", json_of_hlayout h)]
      | None => JObj [("ok", JBool false); ("err", JStr "bad htype")]
      end
  | None => JObj [("ok", JBool false); ("err", JStr "no h")]
  end.

Definition entry (j : json) : json :=
  match field_str "op" j with
  | Some op => if String.eqb op "hlslcb" then do_hlslcb j
               else if String.eqb op "hlsldef" then do_hlsldef j else entry1 j
  | None => entry1 j
  end.
