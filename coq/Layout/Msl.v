(* C07 — MSL: (1) the struct definitions naga's MSL backend emits, transliterated from
     /repo/msl/internal/codegen/types.go
        writeStructDefinition (105-160): char _padN[k] members, packed vectors, trailing pad
        shouldPackMember (520-559), typeSize (563-613), writeArrayWrapper (165-190)
   (2) the layout a C++14 / Metal compiler gives such definitions: Metal Shading Language
   Specification, section 2 "Data Types", tables "Size and Alignment of Scalar / Vector /
   Matrix / Packed Vector Data Types": scalar w/w; vec2 2w/2w; vec3 and vec4 4w/4w;
   packed_vec3 3w / w; matCxR = C columns of vecR; atomic_int/uint 4/4; arrays and structs
   by the C++ rules (element stride = sizeof; member at the next multiple of its alignof;
   sizeof a multiple of alignof; alignof = max over members).
   Definitions only. *)
From Coq Require Import List ZArith Bool.
Import ListNotations.
Require Import Naga.Layout.Spec Naga.Layout.Naga.
Open Scope Z_scope.

Inductive ctype :=
| CScalar (w : Z)
| CVec (n w : Z)
| CPacked (n w : Z)
| CMat (c r w : Z)
| CAtomic (w : Z)
| CArr (e : ctype) (n : Z)                  (* T name[n] *)
| CRArr (e : ctype)                         (* typedef T name[1]; for a runtime-sized array *)
| CWrap (e : ctype)                         (* struct { T inner[n]; } around e = CArr T n *)
| CStruct (fs : list (bool * ctype)).       (* fields in order; true = a `char _padN[k]` member *)

(* (alignof, sizeof) *)
Fixpoint cxx_als (c : ctype) : Z * Z :=
  match c with
  | CScalar w => (w, w)
  | CVec n w => ((if n =? 2 then 2 else 4) * w, (if n =? 2 then 2 else 4) * w)
  | CPacked n w => (w, n * w)
  | CMat c r w => ((if r =? 2 then 2 else 4) * w, c * ((if r =? 2 then 2 else 4) * w))
  | CAtomic w => (w, w)
  | CArr e n => let '(a, s) := cxx_als e in (a, n * s)
  | CRArr e => cxx_als e
  | CWrap e => let '(a, s) := cxx_als e in (a, round_up a s)
  | CStruct fs =>
      let infos := map (fun f => match f with (_, c') => cxx_als c' end) fs in
      (struct_align infos, round_up (struct_align infos) (end_from 0 infos))
  end.

Definition cxx_field_offsets (fs : list (bool * ctype)) : list Z :=
  offsets_from 0 (map (fun f => cxx_als (snd f)) fs).

(* offsets of the fields that are not padding *)
Fixpoint real_only {A} (fs : list (bool * ctype)) (xs : list A) : list A :=
  match fs, xs with
  | (true, _) :: r, _ :: rx => real_only r rx
  | (false, _) :: r, x :: rx => x :: real_only r rx
  | _, _ => []
  end.

(* what the C++ compiler makes of a definition, as a layout tree *)
Fixpoint cxx_layout (c : ctype) : lay :=
  match c with
  | CArr e n => LArr (snd (cxx_als e)) (Some n) (cxx_layout e)
  | CRArr e => LArr (snd (cxx_als e)) None (cxx_layout e)
  | CWrap e => cxx_layout e
  | CStruct fs =>
      LStruct (snd (cxx_als c)) (real_only fs (cxx_field_offsets fs))
        (real_only fs (map (fun f => match f with (_, c') => cxx_layout c' end) fs))
  | _ => LLeaf (snd (cxx_als c))
  end.

(* ---------------- the emitter ---------------- *)

(* Writer.typeSize *)
Definition msl_row_multiplier (r : Z) : Z := if r =? 2 then 2 else if (r =? 3) || (r =? 4) then 4 else r.
Definition msl_type_size (t : ty) : Z :=
  match t with
  | TScalar s => nwidth s
  | TVec n s => u32 (n * nwidth s)
  | TMat c r s => u32 (u32 (c * msl_row_multiplier r) * nwidth s)
  | TArray e n => u32 (nstride e * n)
  | TRArray e => nstride e
  | TStruct ms => nspan (ninfos ms)
  | TAtomic s => nwidth s
  end.

Definition is_vec3_24 (t : ty) : option Z :=
  match t with
  | TVec n s => if (n =? 3) && ((nwidth s =? 4) || (nwidth s =? 2)) then Some (nwidth s) else None
  | _ => None
  end.
Definition is_vec3 (t : ty) : option Z :=
  match t with TVec n s => if n =? 3 then Some (nwidth s) else None | _ => None end.

(* writeStructDefinition's loop.  offs = member offsets of the IR, next = offset of the
   following member (or Span), defs = MSL types of the members *)
Fixpoint msl_fields (last : Z) (ms : list member) (offs : list Z) (span : Z) (defs : list ctype)
  : list (bool * ctype) :=
  match ms, offs, defs with
  | m :: r, o :: ro, d :: rd =>
      let pad := if last <? o then [(true, CArr (CScalar 1) (u32 (o - last)))] else [] in
      let next := match ro with o2 :: _ => o2 | [] => span end in
      let tsize := msl_type_size (mty m) in
      let packed := match is_vec3_24 (mty m) with
                    | Some w => if next =? u32 (o + tsize) then Some w else None
                    | None => None
                    end in
      let field := match packed with Some w => CPacked 3 w | None => d end in
      let last' := u32 (o + tsize) in
      let last'' := match packed, is_vec3 (mty m) with
                    | None, Some w => u32 (last' + w)
                    | _, _ => last'
                    end in
      pad ++ (false, field) :: msl_fields last'' r ro span rd
  | _, _, _ => if last <? span then [(true, CArr (CScalar 1) (u32 (span - last)))] else []
  end.

Fixpoint msl_def (t : ty) : ctype :=
  match t with
  | TScalar s => CScalar (nwidth s)
  | TVec n s => CVec n (nwidth s)
  | TMat c r s => CMat c r (nwidth s)
  | TAtomic s => CAtomic (nwidth s)
  | TArray e n => CWrap (CArr (msl_def e) n)
  | TRArray e => CRArr (msl_def e)
  | TStruct ms =>
      CStruct (msl_fields 0 ms (noffsets (ninfos ms)) (nspan (ninfos ms))
                 (map (fun m => match m with Mem _ _ t' => msl_def t' end) ms))
  end.
