(* C07 — arithmetic lemmas: roundUp, powers of two, naga's bit-mask rounding. *)
From Coq Require Import List ZArith Bool Lia ZifyBool.
Import ListNotations.
Require Import Naga.Layout.Spec Naga.Layout.Constraints Naga.Layout.Naga.
Open Scope Z_scope.
Ltac Zify.zify_post_hook ::= Z.to_euclidean_division_equations.

(* split  b1 && b2 && ... = true  into its conjuncts *)
Ltac andb_split H :=
  repeat match type of H with
         | _ && _ = true => let H2 := fresh H in apply andb_true_iff in H; destruct H as [H H2]
         end.
Ltac andb_all := repeat match goal with
         | H : _ && _ = true |- _ => let H2 := fresh H in apply andb_true_iff in H; destruct H as [H H2]
         end.

Lemma round_up_ge : forall k n, 0 < k -> n <= round_up k n.
Proof. intros k n Hk. unfold round_up. nia. Qed.

Lemma round_up_lt : forall k n, 0 < k -> round_up k n < n + k.
Proof. intros k n Hk. unfold round_up. nia. Qed.

Lemma round_up_mod : forall k n, 0 < k -> round_up k n mod k = 0.
Proof. intros k n Hk. unfold round_up. apply Z.mod_mul. lia. Qed.

Lemma round_up_divide : forall k n, 0 < k -> (k | round_up k n).
Proof. intros k n Hk. unfold round_up. apply Z.divide_factor_r. Qed.

Lemma round_up_id : forall k n, 0 < k -> (k | n) -> round_up k n = n.
Proof.
  intros k n Hk [q Hq]. unfold round_up. subst n.
  replace (q * k + k - 1) with (k - 1 + q * k) by lia.
  rewrite Z.div_add by lia. rewrite Z.div_small by lia. lia.
Qed.

Lemma round_up_least : forall k n m, 0 < k -> n <= m -> (k | m) -> round_up k n <= m.
Proof.
  intros k n m Hk Hnm [q Hq]. unfold round_up. subst m.
  assert ((n + k - 1) / k <= q).
  {     assert (n + k - 1 < (q + 1) * k) by lia.
    apply Z.lt_succ_r. apply Z.div_lt_upper_bound; lia. }
  nia.
Qed.

Lemma round_up_nonneg : forall k n, 0 < k -> 0 <= n -> 0 <= round_up k n.
Proof. intros. pose proof (round_up_ge k n H). lia. Qed.

Lemma round_up_mono : forall k n m, 0 < k -> n <= m -> round_up k n <= round_up k m.
Proof.
  intros. apply round_up_least; auto. pose proof (round_up_ge k m H). lia.
  apply round_up_divide; auto.
Qed.

(* powers of two *)
Definition pow2 (a : Z) : Prop := exists k, 0 <= k /\ a = 2 ^ k.

Lemma pow2b_pow2 : forall a, pow2b a = true -> pow2 a.
Proof.
  intros a H. unfold pow2b in H. apply andb_true_iff in H. destruct H as [H1 H2].
  exists (Z.log2 a). split. apply Z.log2_nonneg. lia.
Qed.

Lemma pow2_pos : forall a, pow2 a -> 0 < a.
Proof. intros a [k [Hk ->]]. apply Z.pow_pos_nonneg; lia. Qed.

Lemma pow2_divide : forall a b, pow2 a -> pow2 b -> a <= b -> (a | b).
Proof.
  intros a b [k [Hk ->]] [j [Hj ->]] Hle.
  assert (k <= j). { apply (Z.pow_le_mono_r_iff 2); lia. }
  exists (2 ^ (j - k)). rewrite <- Z.pow_add_r by lia. f_equal. lia.
Qed.

Lemma pow2_max : forall a b, pow2 a -> pow2 b -> pow2 (Z.max a b).
Proof. intros. destruct (Z.max_spec a b) as [[_ ->]|[_ ->]]; auto. Qed.

Lemma pow2_1 : pow2 1. Proof. exists 0. split; [lia|reflexivity]. Qed.
Lemma pow2_2 : pow2 2. Proof. exists 1. split; [lia|reflexivity]. Qed.
Lemma pow2_4 : pow2 4. Proof. exists 2. split; [lia|reflexivity]. Qed.
Lemma pow2_8 : pow2 8. Proof. exists 3. split; [lia|reflexivity]. Qed.
Lemma pow2_16 : pow2 16. Proof. exists 4. split; [lia|reflexivity]. Qed.

(* naga's (offset + align - 1) &^ (align - 1) is roundUp for powers of two when nothing wraps *)
Lemma nround_eq : forall a off, pow2 a -> 0 <= off -> off + a - 1 < 2 ^ 32 ->
  nround a off = round_up a off.
Proof.
  intros a off [k [Hk Ha]] Hoff Hfit.
  assert (Hapos : 0 < a) by (subst a; apply Z.pow_pos_nonneg; lia).
  unfold nround, u32.
  rewrite Zminus_mod_idemp_l.
  replace (off + a - 1) with (off + a - 1) by lia.
  rewrite (Z.mod_small (off + a - 1)) by lia.
  rewrite (Z.mod_small (a - 1)) by lia.
  replace (a - 1) with (Z.ones k) by (rewrite Z.ones_equiv; lia).
  rewrite Z.ldiff_ones_r by lia.
  rewrite Z.shiftr_div_pow2, Z.shiftl_mul_pow2 by lia.
  unfold round_up. rewrite <- Ha. reflexivity.
Qed.
