(* C07 — GLSL: std430 (storage blocks) and std140 (uniform blocks) against the WGSL layout. *)
From Coq Require Import List ZArith Bool Lia ZifyBool.
Import ListNotations.
Require Import Naga.Layout.Spec Naga.Layout.Constraints Naga.Layout.Naga Naga.Layout.Arith
  Naga.Layout.SpecProofs Naga.Layout.Glsl.
Open Scope Z_scope.

Lemma no_attrs_members : forall ms m, no_attrs (TStruct ms) = true -> In m ms ->
  mal m = None /\ msz m = None /\ no_attrs (mty m) = true.
Proof.
  intros ms m H Hin. cbn [no_attrs] in H. rewrite forallb_forall in H. specialize (H m Hin).
  destruct m as [[a|] [s|] t]; cbn [mal msz mty]; try discriminate; auto.
Qed.

Lemma gals_struct : forall b ms,
  gals b (TStruct ms) = (rnd b (struct_align (ginfos b ms)), round_up (rnd b (struct_align (ginfos b ms))) (end_from 0 (ginfos b ms))).
Proof.
  intros. cbn [gals]. unfold ginfos.
  assert (E : map (fun m => match m with Mem _ _ t' => gals b t' end) ms = map (fun m => gals b (mty m)) ms).
  { apply map_ext. intros [a s t]; reflexivity. }
  rewrite E. reflexivity.
Qed.

(* ---------------- std430 ---------------- *)

Lemma gals430_eq : forall t, wf t = true -> no_attrs t = true -> gals false t = als t.
Proof.
  induction t using ty_ind'; intros Hwf Hna; try reflexivity.
  - cbn [wf no_attrs] in *. andb_split Hwf. cbn [gals als]. rewrite IHt by auto. reflexivity.
  - cbn [wf no_attrs] in *. andb_split Hwf. cbn [gals als]. rewrite IHt by auto. reflexivity.
  - rewrite gals_struct, als_struct. cbn [rnd].
    assert (E : ginfos false ms = infos_of ms).
    { unfold ginfos, infos_of. apply map_ext_in. intros m Hin.
      destruct (no_attrs_members _ _ Hna Hin) as [A [B C]].
      pose proof (wf_struct_members _ Hwf) as Hm. rewrite Forall_forall in Hm, H.
      destruct (Hm m Hin) as [W _]. rewrite (H m Hin W C).
      unfold member_info, align_of, size_of. rewrite A, B. cbn [attr_or]. destruct (als (mty m)); reflexivity. }
    rewrite E. reflexivity.
Qed.

Lemma gstride430_eq : forall e, wf e = true -> no_attrs e = true -> gstride false e = stride_of e.
Proof.
  intros e Hwf Hna. unfold gstride, stride_of, align_of, size_of. rewrite gals430_eq by auto.
  destruct (als e); reflexivity.
Qed.

(* a storage block declared with the WGSL types, laid out by std430, is the WGSL layout *)
Theorem std430_eq_wgsl_lemma : forall t, wf t = true -> no_attrs t = true ->
  glsl_layout false t = spec_layout t.
Proof.
  induction t using ty_ind'; intros Hwf Hna;
    try (cbn [glsl_layout spec_layout]; unfold size_of; rewrite gals430_eq by auto; reflexivity).
  - cbn [wf no_attrs] in *. andb_split Hwf. cbn [glsl_layout spec_layout].
    rewrite IHt, gstride430_eq by auto. reflexivity.
  - cbn [wf no_attrs] in *. andb_split Hwf. cbn [glsl_layout spec_layout].
    rewrite IHt, gstride430_eq by auto. reflexivity.
  - cbn [glsl_layout spec_layout]. unfold size_of. rewrite gals430_eq by auto.
    assert (E : ginfos false ms = infos_of ms).
    { unfold ginfos, infos_of. apply map_ext_in. intros m Hin.
      destruct (no_attrs_members _ _ Hna Hin) as [A [B C]].
      pose proof (wf_struct_members _ Hwf) as Hm. rewrite Forall_forall in Hm.
      destruct (Hm m Hin) as [W _]. rewrite gals430_eq by auto.
      unfold member_info, align_of, size_of. rewrite A, B. cbn [attr_or]. destruct (als (mty m)); reflexivity. }
    rewrite E. unfold member_offsets. f_equal.
    apply map_ext_in. intros m Hin. destruct (no_attrs_members _ _ Hna Hin) as [A [B C]].
    pose proof (wf_struct_members _ Hwf) as Hm. rewrite Forall_forall in Hm, H.
    destruct (Hm m Hin) as [W _]. specialize (H m Hin W C). destruct m; cbn [mty] in *; auto.
Qed.

(* ---------------- std140 ---------------- *)

Lemma round_up_add_mult : forall k a n, 0 < k -> (k | a) -> round_up k (a + n) = a + round_up k n.
Proof.
  intros k a n Hk [q ->]. unfold round_up.
  replace (q * k + n + k - 1) with (n + k - 1 + q * k) by lia.
  rewrite Z.div_add by lia. lia.
Qed.

Lemma round_up_16_small : forall a, 0 < a <= 16 -> round_up 16 a = 16.
Proof. intros. unfold round_up. assert ((a + 16 - 1) / 16 = 1) by (symmetry; apply Z.div_unique with (a - 1); lia). lia. Qed.

Lemma pow2_le16_divide : forall a, pow2 a -> a <= 16 -> (a | 16).
Proof. intros. apply pow2_divide; auto. apply pow2_16. Qed.

(* without attributes no alignment exceeds 16 *)
Lemma natural_align_le16 : forall t, wf t = true -> no_attrs t = true -> align_of t <= 16.
Proof.
  induction t using ty_ind'; intros Hwf Hna.
  - unfold align_of; cbn [als fst]. destruct s; cbn [sw]; lia.
  - unfold align_of; cbn [als fst]. unfold vec_align. destruct (n =? 2); destruct s; cbn [sw]; lia.
  - unfold align_of; cbn [als fst]. unfold vec_align. destruct (r =? 2); destruct s; cbn [sw]; lia.
  - unfold align_of; cbn [als fst]. lia.
  - cbn [wf no_attrs] in *. andb_split Hwf. specialize (IHt Hwf Hna).
    unfold align_of in *. cbn [als]. destruct (als t). cbn [fst] in *. lia.
  - cbn [wf no_attrs] in *. andb_split Hwf. specialize (IHt Hwf Hna).
    unfold align_of in *. cbn [als]. destruct (als t). cbn [fst] in *. lia.
  - unfold align_of. rewrite als_struct. cbn [fst].
    pose proof (wf_struct_members _ Hwf) as Hm. rewrite Forall_forall in Hm, H.
    assert (forall i, In i (infos_of ms) -> fst i <= 16).
    { intros i Hi. unfold infos_of in Hi. apply in_map_iff in Hi. destruct Hi as [m [<- Hin]].
      destruct (no_attrs_members _ _ Hna Hin) as [A [B C]]. destruct (Hm m Hin) as [W _].
      unfold member_info. rewrite A. cbn [attr_or fst]. apply H; auto. }
    clear - H0. induction (infos_of ms) as [|i r IH]; cbn [struct_align fold_right]. lia.
    assert (fst i <= 16) by (apply H0; left; auto).
    assert (struct_align r <= 16) by (apply IH; intros; apply H0; right; auto).
    unfold struct_align in *. lia.
Qed.

Definition aggregate (t : ty) : bool :=
  match t with TArray _ _ | TRArray _ | TStruct _ => true | _ => false end.

(* the invariant relating std140 and WGSL for one type *)
Definition J (t : ty) : Prop :=
  fst (gals true t) = required_align_uniform t /\
  size_of t <= snd (gals true t) <= round_up 16 (size_of t) /\
  (is_struct t = false -> snd (gals true t) = size_of t).

Lemma req_facts : forall t, wf t = true -> no_attrs t = true ->
  0 < required_align_uniform t /\ (align_of t | required_align_uniform t) /\
  (aggregate t = true -> required_align_uniform t = 16).
Proof.
  intros t Hwf Hna. destruct (wf_als _ Hwf) as [P S]. pose proof (pow2_pos _ P).
  pose proof (natural_align_le16 _ Hwf Hna).
  destruct t; cbn [required_align_uniform aggregate]; try (split; [lia|split; [apply Z.divide_refl|discriminate]]);
    rewrite round_up_16_small by lia; (split; [lia|split; [apply pow2_le16_divide; auto|reflexivity]]).
Qed.

Lemma req_bounds : forall t, wf t = true -> no_attrs t = true -> 0 < required_align_uniform t <= 16.
Proof.
  intros t Hwf Hna. destruct (req_facts _ Hwf Hna) as [Rpos [_ Ragg]].
  pose proof (natural_align_le16 _ Hwf Hna).
  destruct t; cbn [required_align_uniform aggregate] in *; try lia; rewrite (Ragg eq_refl); lia.
Qed.

Lemma uniform_members_cons : forall m r o ro,
  uniform_members_ok (m :: r) (o :: ro) = true ->
  o mod required_align_uniform (mty m) = 0 /\
  (forall o2 ro2, ro = o2 :: ro2 -> is_struct (mty m) = true -> o + round_up 16 (size_of (mty m)) <= o2) /\
  uniform_members_ok r ro = true.
Proof.
  intros m r o ro H. cbn [uniform_members_ok] in H. andb_split H. split; [lia|]. split; auto.
  intros o2 ro2 -> Hs. rewrite Hs in H1. lia.
Qed.

Lemma members140 : forall ms curW curG,
  Forall (fun m => wf (mty m) = true /\ no_attrs (mty m) = true /\ J (mty m)) ms ->
  (forall m, In m ms -> mal m = None /\ msz m = None) ->
  uniform_members_ok ms (offsets_from curW (infos_of ms)) = true ->
  curW <= curG ->
  match ms with
  | m :: _ => curG <= round_up (align_of (mty m)) curW
  | [] => curG <= round_up 16 curW
  end ->
  offsets_from curG (ginfos true ms) = offsets_from curW (infos_of ms) /\
  end_from curW (infos_of ms) <= end_from curG (ginfos true ms) <= round_up 16 (end_from curW (infos_of ms)).
Proof.
  induction ms as [|m r IH]; intros curW curG HF Hna Hu Hle Hpre.
  - cbn [ginfos infos_of map offsets_from end_from]. split; auto. 
  - inversion HF as [|x y [Hwf [Hnat [Ja [Jb Jc]]]] HFr]; subst x y.
    destruct (Hna m (or_introl eq_refl)) as [Am As].
    destruct (req_facts _ Hwf Hnat) as [Rpos [Rdiv Ragg]].
    destruct (wf_als _ Hwf) as [P S]. pose proof (pow2_pos _ P) as Apos.
    cbn [infos_of map] in Hu. fold (infos_of r) in Hu.
    assert (Emi : member_info m = (align_of (mty m), size_of (mty m))).
    { unfold member_info. rewrite Am, As. reflexivity. }
    rewrite Emi in Hu. cbn [offsets_from] in Hu.
    destruct (uniform_members_cons _ _ _ _ Hu) as [U1 [U2 U3]].
    set (A := align_of (mty m)) in *. set (Sz := size_of (mty m)) in *.
    set (oW := round_up A curW) in *.
    cbn [ginfos infos_of map offsets_from end_from]. fold (ginfos true r). fold (infos_of r).
    rewrite Emi. fold A Sz oW.
    destruct (gals true (mty m)) as [G GS] eqn:EG. cbn [fst snd] in Ja, Jb, Jc.
    assert (HG : (G | oW)). { rewrite Ja. apply Z.mod_divide; lia. }
    assert (EO : round_up G curG = oW).
    { rewrite Ja in *. apply Z.le_antisymm.
      - apply round_up_least; auto.
      - unfold oW. apply round_up_least; auto.
        + pose proof (round_up_ge (required_align_uniform (mty m)) curG Rpos). lia.
        + eapply Z.divide_trans; [exact Rdiv|]. apply round_up_divide; auto. }
    rewrite EO.
    assert (Hnext : match r with
                    | m2 :: _ => oW + GS <= round_up (align_of (mty m2)) (oW + Sz)
                    | [] => oW + GS <= round_up 16 (oW + Sz)
                    end).
    { destruct (is_struct (mty m)) eqn:Est.
      - assert (H16 : (16 | oW)).
        { assert (aggregate (mty m) = true) by (destruct (mty m); try discriminate; reflexivity).
          rewrite Ja, (Ragg H) in HG. exact HG. }
        destruct r as [|m2 r2].
        + rewrite round_up_add_mult by (auto; lia). lia.
        + cbn [infos_of map offsets_from] in U2.
          destruct (Hna m2 (or_intror (or_introl eq_refl))) as [Am2 As2].
          assert (Emi2 : member_info m2 = (align_of (mty m2), size_of (mty m2))).
          { unfold member_info. rewrite Am2, As2. reflexivity. }
          rewrite Emi2 in U2. specialize (U2 _ _ eq_refl eq_refl). lia.
      - rewrite (Jc eq_refl). destruct r as [|m2 r2].
        + apply round_up_ge. lia.
        + inversion HFr as [|x y [Hwf2 _] _]; subst x y.
          destruct (wf_als _ Hwf2) as [P2 _]. apply round_up_ge. apply pow2_pos; auto. }
    assert (IHr := IH (oW + Sz) (oW + GS) HFr (fun m' Hin => Hna m' (or_intror Hin)) U3 ltac:(lia) Hnext).
    destruct IHr as [IH1 IH2]. split; [f_equal; exact IH1|exact IH2].
Qed.

Lemma uniform_ok_members : forall ms m, uniform_ok (TStruct ms) = true -> In m ms -> uniform_ok (mty m) = true.
Proof.
  intros ms m H Hin. cbn [uniform_ok] in H. andb_split H. rewrite forallb_forall in H.
  specialize (H m Hin). destruct m; auto.
Qed.
Lemma mat_ok_members : forall ms m, std140_mat_ok (TStruct ms) = true -> In m ms -> std140_mat_ok (mty m) = true.
Proof.
  intros ms m H Hin. cbn [std140_mat_ok] in H. rewrite forallb_forall in H.
  specialize (H m Hin). destruct m; auto.
Qed.

Lemma struct_align_bounds : forall infos, (forall i, In i infos -> 0 < fst i <= 16) ->
  0 < struct_align infos <= 16.
Proof.
  induction infos as [|i r IH]; intros H; cbn [struct_align fold_right]. lia.
  assert (0 < fst i <= 16) by (apply H; left; auto).
  assert (0 < struct_align r <= 16) by (apply IH; intros; apply H; right; auto).
  unfold struct_align in *. lia.
Qed.

Lemma ginfos_members : forall ms,
  wf (TStruct ms) = true -> no_attrs (TStruct ms) = true ->
  uniform_ok (TStruct ms) = true -> std140_mat_ok (TStruct ms) = true ->
  Forall (fun m => wf (mty m) = true -> no_attrs (mty m) = true -> uniform_ok (mty m) = true ->
                   std140_mat_ok (mty m) = true -> J (mty m)) ms ->
  Forall (fun m => wf (mty m) = true /\ no_attrs (mty m) = true /\ J (mty m)) ms.
Proof.
  intros ms Hwf Hna Hu Hm H. pose proof (wf_struct_members _ Hwf) as Hw.
  rewrite Forall_forall in *. intros m Hin. destruct (Hw m Hin) as [W _].
  destruct (no_attrs_members _ _ Hna Hin) as [_ [_ C]].
  split; auto. split; auto. apply H; auto.
  - eapply uniform_ok_members; eauto.
  - eapply mat_ok_members; eauto.
Qed.

Lemma struct_members140 : forall ms,
  wf (TStruct ms) = true -> no_attrs (TStruct ms) = true -> uniform_ok (TStruct ms) = true ->
  Forall (fun m => wf (mty m) = true /\ no_attrs (mty m) = true /\ J (mty m)) ms ->
  offsets_from 0 (ginfos true ms) = member_offsets ms /\
  end_from 0 (infos_of ms) <= end_from 0 (ginfos true ms) <= round_up 16 (end_from 0 (infos_of ms)).
Proof.
  intros ms Hwf Hna Hu HF. unfold member_offsets. apply members140; auto.
  - intros m Hin. destruct (no_attrs_members _ _ Hna Hin) as [A [B _]]. auto.
  - cbn [uniform_ok] in Hu. andb_split Hu. exact Hu0.
  - lia.
  - destruct ms as [|m r].
    + cbn [wf] in Hwf. discriminate.
    + inversion HF as [|x y [W _] _]; subst x y. destruct (wf_als _ W) as [P _].
      apply round_up_ge. apply pow2_pos; auto.
Qed.

Lemma J_all : forall t, wf t = true -> no_attrs t = true -> uniform_ok t = true -> std140_mat_ok t = true -> J t.
Proof.
  induction t using ty_ind'; intros Hwf Hna Hu Hm.
  - (* scalar *) unfold J, size_of. cbn [gals als required_align_uniform align_of fst snd is_struct].
    unfold align_of. cbn [als fst]. split; auto. split; auto.
    pose proof (round_up_ge 16 (sw s)). lia.
  - (* vector *) unfold J, size_of. cbn [gals required_align_uniform fst snd is_struct].
    unfold align_of. cbn [als fst snd]. unfold vec_align, vec_size. split; auto. split; auto.
    pose proof (round_up_ge 16 (n * sw s)). lia.
  - (* matrix *)
    cbn [std140_mat_ok] in Hm. cbn [wf] in Hwf. unfold dim_ok in Hwf. andb_split Hwf.
    assert (E : vec_align r s = 16).
    { unfold vec_align in *. destruct (r =? 2); destruct s; try discriminate; cbn [sw] in *; lia. }
    unfold J, size_of. cbn [gals required_align_uniform fst snd is_struct]. unfold align_of. cbn [als fst snd].
    unfold vec_align, vec_size in *. rewrite E. cbn [rnd]. rewrite round_up_16_small by lia.
    split; auto. split; auto.
    pose proof (round_up_ge 16 (c * round_up 16 (r * sw s))). lia.
  - (* atomic *) cbn [uniform_ok] in Hu. discriminate.
  - (* array *)
    cbn [wf no_attrs uniform_ok std140_mat_ok] in *. andb_split Hwf. andb_split Hu.
    destruct (IHt Hwf Hna Hu Hm) as [Ja [Jb Jc]].
    destruct (req_facts _ Hwf Hna) as [Rpos [Rdiv Ragg]].
    destruct (wf_als _ Hwf) as [P S]. pose proof (pow2_pos _ P) as Apos.
    pose proof (natural_align_le16 _ Hwf Hna) as A16.
    pose proof (req_bounds _ Hwf Hna) as Hreq16.
    assert (Est : round_up 16 (snd (gals true t)) = stride_of t).
    { assert (D16 : (16 | stride_of t)) by (apply Z.mod_divide; lia).
      assert (Hsz : size_of t <= stride_of t) by (unfold stride_of; apply round_up_ge; auto).
      apply Z.le_antisymm.
      - apply round_up_least; auto; try lia.
        assert (round_up 16 (size_of t) <= stride_of t) by (apply round_up_least; auto; lia). lia.
      - unfold stride_of. apply round_up_least; auto.
        + pose proof (round_up_ge 16 (snd (gals true t))). lia.
        + eapply Z.divide_trans; [apply (pow2_le16_divide _ P A16)|]. apply round_up_divide. lia. }
    unfold J. cbn [gals is_struct required_align_uniform].
    destruct (gals true t) as [a0 s0] eqn:EG. cbn [fst snd] in *. cbn [rnd].
    rewrite Ja, (round_up_16_small _ Hreq16), Est.
    rewrite array_size_is_count_times_stride.
    assert (Hal : align_of (TArray t n) = align_of t).
    { unfold align_of. cbn [als]. destruct (als t); reflexivity. }
    rewrite Hal, round_up_16_small by lia.
    split; auto. split; auto.
    pose proof (round_up_ge 16 (n * stride_of t)). lia.
  - (* runtime-sized array *) cbn [uniform_ok] in Hu. discriminate.
  - (* structure *)
    pose proof (ginfos_members _ Hwf Hna Hu Hm H) as HF.
    destruct (struct_members140 _ Hwf Hna Hu HF) as [Eo [El Eu]].
    pose proof (wf_infos_pos _ Hwf) as Hpos.
    destruct (wf_als _ Hwf) as [P S]. pose proof (pow2_pos _ P) as Apos.
    pose proof (natural_align_le16 _ Hwf Hna) as A16.
    assert (Hsa : 0 < struct_align (ginfos true ms) <= 16).
    { apply struct_align_bounds. intros i Hi. unfold ginfos in Hi. apply in_map_iff in Hi.
      destruct Hi as [m [<- Hin]]. rewrite Forall_forall in HF. destruct (HF m Hin) as [W [Na [Ja _]]].
      rewrite Ja. apply req_bounds; auto. }
    unfold J. rewrite gals_struct. cbn [fst snd rnd is_struct required_align_uniform].
    rewrite !(round_up_16_small _ Hsa), (round_up_16_small (align_of (TStruct ms))) by lia.
    split; auto. split; [|discriminate].
    unfold size_of, align_of in *. rewrite als_struct in *. cbn [fst snd] in *. unfold struct_size.
    set (A := struct_align (infos_of ms)) in *. set (eW := end_from 0 (infos_of ms)) in *.
    set (eG := end_from 0 (ginfos true ms)) in *.
    split.
    + apply round_up_least; auto.
      * pose proof (round_up_ge 16 eG). lia.
      * eapply Z.divide_trans; [apply (pow2_le16_divide _ P A16)|]. apply round_up_divide. lia.
    + apply round_up_least; try lia.
      * pose proof (round_up_ge A eW Apos). pose proof (round_up_mono 16 eW (round_up A eW)). lia.
      * apply round_up_divide. lia.
Qed.

(* a uniform block declared with the WGSL types, laid out by std140, places every member and
   element where WGSL does, under WGSL's own constraints for the uniform address space *)
Theorem std140_eq_wgsl_lemma : forall t,
  wf t = true -> no_attrs t = true -> uniform_ok t = true -> std140_mat_ok t = true ->
  erase_sizes (glsl_layout true t) = erase_sizes (spec_layout t).
Proof.
  induction t using ty_ind'; intros Hwf Hna Hu Hm; try reflexivity.
  - cbn [wf no_attrs uniform_ok std140_mat_ok] in *. andb_split Hwf. andb_split Hu.
    cbn [glsl_layout spec_layout erase_sizes]. rewrite IHt by auto. f_equal.
    destruct (J_all (TArray t n)) as [Ja [Jb Jc]].
    { cbn [wf]. rewrite Hwf, Hwf1. lia. } { exact Hna. } { cbn [uniform_ok]. rewrite Hu. lia. } { exact Hm. }
    specialize (Jc eq_refl). rewrite array_size_is_count_times_stride in Jc.
    unfold gstride. cbn [gals] in Jc. destruct (gals true t). cbn [snd] in Jc. nia.
  - cbn [uniform_ok] in Hu. discriminate.
  - assert (HJ : Forall (fun m => wf (mty m) = true -> no_attrs (mty m) = true -> uniform_ok (mty m) = true ->
                         std140_mat_ok (mty m) = true -> J (mty m)) ms).
    { rewrite Forall_forall. intros m _. apply J_all. }
    pose proof (ginfos_members _ Hwf Hna Hu Hm HJ) as HF.
    destruct (struct_members140 _ Hwf Hna Hu HF) as [Eo _].
    cbn [glsl_layout spec_layout erase_sizes]. rewrite Eo. f_equal.
    rewrite !map_map. apply map_ext_in. intros m Hin.
    pose proof (wf_struct_members _ Hwf) as Hw. rewrite Forall_forall in Hw, H. destruct (Hw m Hin) as [W _].
    destruct (no_attrs_members _ _ Hna Hin) as [_ [_ C]].
    specialize (H m Hin W C (uniform_ok_members _ _ Hu Hin) (mat_ok_members _ _ Hm Hin)).
    destruct m; cbn [mty] in *; auto.
Qed.
