(* C09: soundness of the emit-discipline checker (IR/Wf.v chk_stmt / chk_block)
   with respect to the execution paths of IR/Paths.v -- for ALL function bodies. *)
From Coq Require Import List ZArith String Bool Arith PeanoNat Lia FMapPositive.
Import ListNotations.
Require Import Naga.IR.Syntax Naga.IR.Infer Naga.IR.Paths Naga.IR.Wf Naga.IR.WfProofs.
Open Scope nat_scope.

(* ---- the handle sets ---- *)
Lemma hkey_inj a b : hkey a = hkey b -> a = b.
Proof. unfold hkey. apply SuccNat2Pos.inj. Qed.

Lemma hmem_hadd x y s : hmem x (hadd y s) = true -> x = y \/ hmem x s = true.
Proof.
  unfold hmem, hadd. destruct (Nat.eq_dec x y) as [-> | Hne]; [now left |].
  rewrite PositiveMap.gso; [now right |]. intros H. apply hkey_inj in H. contradiction.
Qed.

Lemma hmem_hadd_same x s : hmem x (hadd x s) = true.
Proof. unfold hmem, hadd. now rewrite PositiveMap.gss. Qed.

Lemma hmem_hadd_keep x y s : hmem x s = true -> hmem x (hadd y s) = true.
Proof.
  unfold hmem, hadd. intros H. destruct (Nat.eq_dec x y) as [-> | Hne]; [now rewrite PositiveMap.gss |].
  rewrite PositiveMap.gso; [assumption |]. intros E. apply hkey_inj in E. contradiction.
Qed.

Lemma hmem_empty x : hmem x hempty = false.
Proof. unfold hmem, hempty. now rewrite PositiveMap.gempty. Qed.

Lemma amem_aadd x y a : amem x (aadd y a) = true -> x = y \/ amem x a = true.
Proof.
  unfold amem, aadd. induction a as [| s a IH]; cbn; [now right |]. intros H. apply andb_true_iff in H. destruct H as [H1 H2].
  apply hmem_hadd in H1. destruct H1 as [-> | H1]; [now left |]. destruct (IH H2) as [-> | H3]; [now left |].
  right. now rewrite H1, H3.
Qed.

Lemma amem_aadd_list l : forall x a, amem x (aadd_list l a) = true -> In x l \/ amem x a = true.
Proof.
  induction l as [| h l IH]; cbn; intros x a H; [now right |].
  destruct (IH _ _ H) as [Hin | Hm]; [left; now right |]. apply amem_aadd in Hm. destruct Hm as [-> | Hm]; [left; now left | now right].
Qed.

Lemma amem_app x a b : amem x (a ++ b) = amem x a && amem x b.
Proof. unfold amem. apply forallb_app. Qed.

Definition sub (av : aset) (E : nat -> Prop) : Prop := forall h, amem h av = true -> E h.

Lemma sub_mono av (E E' : nat -> Prop) : (forall h, E h -> E' h) -> sub av E -> sub av E'.
Proof. unfold sub. auto. Qed.

Lemma sub_app_l a b E : sub a E -> sub (a ++ b) E.
Proof. unfold sub. intros H h Hm. rewrite amem_app in Hm. apply andb_true_iff in Hm. now apply H. Qed.

Lemma sub_app_r a b E : sub b E -> sub (a ++ b) E.
Proof. unfold sub. intros H h Hm. rewrite amem_app in Hm. apply andb_true_iff in Hm. now apply H. Qed.

Section Emit.
Variable exprs : list expr.
Variable fn : nat.
Notation uses_ok := (uses_ok exprs).
Notation is_pre := (is_pre exprs).

(* ---- event lists ---- *)
Lemma uses_ok_mono : forall evs (E E' : nat -> Prop), (forall h, E h -> E' h) -> uses_ok E evs -> uses_ok E' evs.
Proof.
  induction evs as [| [h | h] evs IH]; cbn; intros E E' HE H.
  - exact I.
  - destruct H as [[Hp | He] Hr]; (split; [| eapply IH; eauto]); [now left | right; now apply HE].
  - eapply IH; [| exact H]. intros x [-> | Hx]; [now left | right; now apply HE].
Qed.

Lemma after_nil (E : nat -> Prop) h : after E [] h <-> E h.
Proof. unfold after. cbn. tauto. Qed.

Lemma after_app (E : nat -> Prop) a b h : after E (a ++ b) h <-> after (after E a) b h.
Proof. unfold after. rewrite in_app_iff. tauto. Qed.

Lemma after_base (E : nat -> Prop) evs h : E h -> after E evs h.
Proof. unfold after. tauto. Qed.

Lemma after_mono (E E' : nat -> Prop) evs h : (forall x, E x -> E' x) -> after E evs h -> after E' evs h.
Proof. unfold after. intros H [Hx | Hx]; [left; now apply H | now right]. Qed.

Lemma uses_ok_app : forall a b E, uses_ok E a -> uses_ok (after E a) b -> uses_ok E (a ++ b).
Proof.
  induction a as [| [h | h] a IH]; cbn; intros b E Ha Hb.
  - eapply uses_ok_mono; [| exact Hb]. unfold after. cbn. intros x [Hx | []]. exact Hx.
  - destruct Ha as [Hh Ha]. split; [assumption |]. apply IH; [assumption |].
    eapply uses_ok_mono; [| exact Hb]. unfold after. cbn. intros x [Hx | [Hx | Hx]]; [now left | discriminate | now right].
  - apply IH; [assumption |]. eapply uses_ok_mono; [| exact Hb]. unfold after. cbn.
    intros x [Hx | [Hx | Hx]]; [left; now right | inversion Hx; left; now left | now right].
Qed.

Lemma uses_ok_uses E l : Forall (fun h => is_pre h \/ E h) l -> uses_ok E (map EvUse l).
Proof. induction 1; cbn; [exact I | split; assumption]. Qed.

Lemma uses_ok_evals l : forall E, uses_ok E (map EvEval l).
Proof. induction l; cbn; intros; [exact I | apply IHl]. Qed.

Lemma after_uses (E : nat -> Prop) l h : after E (map EvUse l) h -> E h.
Proof.
  unfold after. intros [H | H]; [assumption |]. apply in_map_iff in H. destruct H as (x & Hx & _). discriminate.
Qed.

(* ---- the checker's primitive steps ---- *)
Lemma use_ok_spec av E h : use_ok exprs av h = true -> sub av E -> is_pre h \/ E h.
Proof.
  unfold use_ok, Paths.is_pre. destruct (nth_error exprs h) as [e |] eqn:He; [| discriminate].
  intros H Hs. apply orb_true_iff in H. destruct H as [H | H]; [left; eauto | right; now apply Hs].
Qed.

Lemma chk_uses_nil av what at_h l : chk_uses exprs fn av what at_h l = [] -> Forall (fun r => use_ok exprs av r = true) l.
Proof.
  unfold chk_uses. induction l as [| r l IH]; cbn; intros H; [constructor |].
  apply app_eq_nil in H. destruct H as [H1 H2]. apply guard_nil in H1. constructor; auto.
Qed.

Lemma chk_uses_ok av what at_h l E :
  chk_uses exprs fn av what at_h l = [] -> sub av E -> uses_ok E (map EvUse l).
Proof.
  intros H Hs. apply uses_ok_uses. apply chk_uses_nil in H. eapply Forall_impl; [| exact H].
  intros r Hr. exact (use_ok_spec av E r Hr Hs).
Qed.

Lemma chk_emit_sound : forall n h av v av',
  chk_emit exprs fn h n av = (v, av') -> v = [] ->
  forall E, sub av E -> uses_ok E (emit_events exprs h n) /\ sub av' (after E (emit_events exprs h n)).
Proof.
  induction n as [| n IH]; intros h av v av' Hc Hv E Hs.
  - cbn in Hc. inversion Hc; subst. split; [exact I |]. eapply sub_mono; [| exact Hs]. intros x Hx. now apply after_nil.
  - cbn [chk_emit] in Hc. destruct (chk_emit exprs fn (S h) n (aadd h av)) as [v2 av2] eqn:Hrec.
    inversion Hc; subst; clear Hc. apply app_eq_nil in H0. destruct H0 as [Hv1 Hv2].
    apply app_eq_nil in Hv1. destruct Hv1 as [_ Hu].
    set (E1 := fun x => x = h \/ E x).
    assert (Hs1 : sub (aadd h av) E1).
    { intros x Hx. apply amem_aadd in Hx. destruct Hx as [-> | Hx]; [now left | right; now apply Hs]. }
    destruct (IH (S h) (aadd h av) v2 av' Hrec Hv2 E1 Hs1) as [Hok Hsub].
    cbn [emit_events]. split.
    + apply uses_ok_app; [eapply chk_uses_ok; eauto |]. cbn [Paths.uses_ok].
      eapply uses_ok_mono; [| exact Hok]. intros x [-> | Hx]; [now left | right; now apply after_base].
    + intros x Hx. apply Hsub in Hx. unfold after in *. rewrite in_app_iff. cbn.
      destruct Hx as [[-> | Hx] | Hx]; [right; right; now left | now left | right; right; now right].
Qed.

Lemma chk_simple : forall n s av, is_simple s = true ->
  exists what, chk_stmt exprs fn (S n) s av =
    (chk_uses exprs fn av what None (stmt_uses exprs s) ++
     flat_map (fun r => guard (negb (amem r av)) "emit.result_defined_twice" fn r) (stmt_defs exprs s),
     aadd_list (stmt_defs exprs s) av, []).
Proof.
  intros n s av H.
  exists ("emit.use_unevaluated." ++
          match s with SStore _ _ => "Store" | SAtomic _ _ _ _ _ => "Atomic" | SCall _ _ _ => "Call" | _ => "Other" end)%string.
  destruct s; try discriminate; reflexivity.
Qed.

(* unfolding equations of the mutually recursive checker *)
Lemma chk_stmt_emit n a b av : chk_stmt exprs fn (S n) (SEmit a b) av = (let '(v, av') := chk_emit exprs fn a (b - a) av in (v, av', [])).
Proof. reflexivity. Qed.
Lemma chk_stmt_block n b av : chk_stmt exprs fn (S n) (SBlock b) av = (let '(v, _, c) := chk_block exprs fn n b av in (v, av, c)).
Proof. reflexivity. Qed.
Lemma chk_stmt_if n cnd a r av : chk_stmt exprs fn (S n) (SIf cnd a r) av =
  (let '(va, _, ca) := chk_block exprs fn n a av in
   let '(vr, _, cr) := chk_block exprs fn n r av in
   (chk_uses exprs fn av "emit.use_unevaluated.If" None [cnd] ++ va ++ vr, av, ca ++ cr)).
Proof. reflexivity. Qed.
Lemma chk_stmt_switch n sel cases av : chk_stmt exprs fn (S n) (SSwitch sel cases) av =
  (let '(vc, cc) := chk_cases exprs fn n cases av in
   (chk_uses exprs fn av "emit.use_unevaluated.Switch" None [sel] ++ vc, av, cc)).
Proof. reflexivity. Qed.
Lemma chk_stmt_loop n body cont bi av : chk_stmt exprs fn (S n) (SLoop body cont bi) av =
  (let '(vb, avb, cb) := chk_block exprs fn n body av in
   let '(vc, avc, _) := chk_block exprs fn n cont (avb ++ cb) in
   (vb ++ vc ++ chk_uses exprs fn avc "emit.use_unevaluated.BreakIf" None (opt_list bi), av, [])).
Proof. reflexivity. Qed.
Lemma chk_block_cons n s b av : chk_block exprs fn (S n) (s :: b) av =
  (let '(v1, av1, c1) := chk_stmt exprs fn n s av in
   let '(v2, av2, c2) := chk_block exprs fn n b av1 in
   (v1 ++ v2, av2, c1 ++ c2)).
Proof. reflexivity. Qed.
Lemma chk_cases_cons n v0 b ft cs av : chk_cases exprs fn (S n) ((v0, b, ft) :: cs) av =
  (let '(v1, _, c1) := chk_block exprs fn n b av in
   let '(v2, c2) := chk_cases exprs fn n cs av in
   (v1 ++ v2, c1 ++ c2)).
Proof. reflexivity. Qed.

Lemma loop_exit_none o : loop_exit o = None -> o = ONormal \/ o = OCont.
Proof. destruct o; cbn; intros; try discriminate; auto. Qed.

Lemma loop_exit_some o o' : loop_exit o = Some o' -> o' <> OCont /\ o' <> OBrk.
Proof. destruct o; cbn; intros H; inversion H; subst; split; discriminate. Qed.

Lemma path_loop_outcome body cont bi evs o : path_loop exprs body cont bi evs o -> o <> OCont /\ o <> OBrk.
Proof.
  induction 1.
  - eapply loop_exit_some; eauto.
  - eapply loop_exit_some; eauto.
  - split; discriminate.
  - assumption.
Qed.

(* what the checker's result on a statement / block / case list guarantees *)
Definition stmt_ok (s : stmt) (av av' c : aset) : Prop :=
  forall E evs o, sub av E -> path_stmt exprs s evs o ->
    uses_ok E evs /\ (o = ONormal -> sub av' (after E evs)) /\ (o = OCont -> sub c (after E evs)).
Definition block_ok (b : list stmt) (av av' c : aset) : Prop :=
  forall E evs o, sub av E -> path_block exprs b evs o ->
    uses_ok E evs /\ (o = ONormal -> sub av' (after E evs)) /\ (o = OCont -> sub c (after E evs)).
Definition cases_ok (cs : list (switch_value * list stmt * bool)) (av c : aset) : Prop :=
  forall pre rest, cs = pre ++ rest -> forall E evs o, sub av E -> path_from_case exprs rest evs o ->
    uses_ok E evs /\ (o = OCont -> sub c (after E evs)).

Lemma loop_sound body cont bi av avb cb avc cc :
  block_ok body av avb cb -> block_ok cont (avb ++ cb) avc cc ->
  Forall (fun r => use_ok exprs avc r = true) (opt_list bi) ->
  forall evs o, path_loop exprs body cont bi evs o -> forall E, sub av E -> uses_ok E evs.
Proof.
  intros Hb Hc Hbi evs o Hp. induction Hp; intros E Hs.
  - now apply (Hb E evs o Hs H).
  - destruct (Hb E e1 o1 Hs H) as (Hu1 & Hn1 & Hc1). apply uses_ok_app; [assumption |].
    assert (Hs2 : sub (avb ++ cb) (after E e1)).
    { destruct (loop_exit_none _ H0) as [-> | ->]; [apply sub_app_l | apply sub_app_r]; auto. }
    now apply (Hc _ e2 o2 Hs2 H1).
  - destruct (Hb E e1 o1 Hs H) as (Hu1 & Hn1 & Hc1). apply uses_ok_app; [assumption |].
    assert (Hs2 : sub (avb ++ cb) (after E e1)).
    { destruct (loop_exit_none _ H0) as [-> | ->]; [apply sub_app_l | apply sub_app_r]; auto. }
    destruct (Hc _ e2 ONormal Hs2 H1) as (Hu2 & Hn2 & _). apply uses_ok_app; [assumption |].
    cbn. split; [| exact I]. inversion Hbi; subst. exact (use_ok_spec avc _ c H4 (Hn2 eq_refl)).
  - destruct (Hb E e1 o1 Hs H) as (Hu1 & Hn1 & Hc1). apply uses_ok_app; [assumption |].
    assert (Hs2 : sub (avb ++ cb) (after E e1)).
    { destruct (loop_exit_none _ H0) as [-> | ->]; [apply sub_app_l | apply sub_app_r]; auto. }
    destruct (Hc _ e2 ONormal Hs2 H1) as (Hu2 & Hn2 & _). apply uses_ok_app; [assumption |].
    apply uses_ok_app.
    + apply uses_ok_uses. eapply Forall_impl; [| exact Hbi]. intros r Hr. exact (use_ok_spec avc _ r Hr (Hn2 eq_refl)).
    + apply IHHp; auto. intros x Hx. apply after_base. apply after_base. apply after_base. now apply Hs.
Qed.

Lemma chk_sound : forall fuel,
  (forall s av v av' c, chk_stmt exprs fn fuel s av = (v, av', c) -> v = [] -> stmt_ok s av av' c) /\
  (forall b av v av' c, chk_block exprs fn fuel b av = (v, av', c) -> v = [] -> block_ok b av av' c) /\
  (forall cs av v c, chk_cases exprs fn fuel cs av = (v, c) -> v = [] -> cases_ok cs av c).
Proof.
  induction fuel as [| n [IHs [IHb IHc]]].
  - repeat split; intros; cbn in *; inversion H; subst; discriminate.
  - split; [| split].
    + (* statements *)
      intros s av v av' c Hc Hv E evs o Hs Hp.
      assert (Hbase : forall evs', sub av (after E evs')).
      { intros evs'. eapply sub_mono; [| exact Hs]. intros x Hx. now apply after_base. }
      destruct (is_simple s) eqn:Hsimple.
      { destruct (chk_simple n s av Hsimple) as [what Heq]. rewrite Heq in Hc. inversion Hc; subst; clear Hc.
        apply app_eq_nil in H0. destruct H0 as [Hu _].
        assert (Hpe : evs = simple_events exprs s /\ o = ONormal).
        { inversion Hp; subst; try discriminate; auto. }
        destruct Hpe as [-> ->]. unfold simple_events. split; [| split].
        - apply uses_ok_app; [eapply chk_uses_ok; eauto | apply uses_ok_evals].
        - intros _ x Hx. apply amem_aadd_list in Hx. unfold after. rewrite in_app_iff.
          destruct Hx as [Hx | Hx]; [right; right; now apply in_map | left; now apply Hs].
        - discriminate. }
      destruct s; try discriminate.
      * (* Emit *)
        rewrite chk_stmt_emit in Hc. destruct (chk_emit exprs fn start (stop - start) av) as [v1 av1] eqn:He.
        inversion Hc; subst; clear Hc. inversion Hp; subst; try discriminate.
        destruct (chk_emit_sound _ _ _ _ _ He eq_refl E Hs) as [H1 H2]. split; [assumption | split; [auto | discriminate]].
      * (* Block *)
        rewrite chk_stmt_block in Hc. destruct (chk_block exprs fn n b av) as [[v1 av1] c1] eqn:Hb.
        inversion Hc; subst; clear Hc. inversion Hp; subst; try discriminate.
        match goal with Hpb : path_block _ _ _ _ |- _ => destruct (IHb _ _ _ _ _ Hb eq_refl E _ _ Hs Hpb) as (H1 & H2 & H3) end.
        split; [assumption | split; [| assumption]]. intros _. apply Hbase.
      * (* If *)
        rewrite chk_stmt_if in Hc. destruct (chk_block exprs fn n accept av) as [[va ava] ca] eqn:Ha.
        destruct (chk_block exprs fn n reject av) as [[vr avr] cr] eqn:Hr. inversion Hc; subst; clear Hc.
        match goal with Hnil : _ ++ _ ++ _ = [] |- _ => apply app_eq_nil in Hnil; destruct Hnil as [Hu Hnil];
          apply app_eq_nil in Hnil; destruct Hnil as [Hva Hvr] end. subst.
        assert (Hcond : is_pre cond \/ E cond).
        { apply app_eq_nil in Hu. destruct Hu as [Hu _]. apply guard_nil in Hu. exact (use_ok_spec _ _ _ Hu Hs). }
        inversion Hp; subst; try discriminate.
        -- match goal with Hpb : path_block _ _ _ _ |- _ => destruct (IHb _ _ _ _ _ Ha eq_refl E _ _ Hs Hpb) as (H1 & H2 & H3) end.
           cbn [Paths.uses_ok]. split; [split; assumption |]. split; [intros _; apply Hbase |].
           intros Ho. apply sub_app_l. eapply sub_mono; [| exact (H3 Ho)]. unfold after. cbn. intros x [Hx | Hx]; [now left | right; now right].
        -- match goal with Hpb : path_block _ _ _ _ |- _ => destruct (IHb _ _ _ _ _ Hr eq_refl E _ _ Hs Hpb) as (H1 & H2 & H3) end.
           cbn [Paths.uses_ok]. split; [split; assumption |]. split; [intros _; apply Hbase |].
           intros Ho. apply sub_app_r. eapply sub_mono; [| exact (H3 Ho)]. unfold after. cbn. intros x [Hx | Hx]; [now left | right; now right].
      * (* Switch *)
        rewrite chk_stmt_switch in Hc. destruct (chk_cases exprs fn n cases av) as [vc cc] eqn:Hcs. inversion Hc; subst; clear Hc.
        match goal with Hnil : _ ++ _ = [] |- _ => apply app_eq_nil in Hnil; destruct Hnil as [Hu Hvc] end. subst.
        assert (Hsel : is_pre selector \/ E selector).
        { apply app_eq_nil in Hu. destruct Hu as [Hu _]. apply guard_nil in Hu. exact (use_ok_spec _ _ _ Hu Hs). }
        inversion Hp; subst; try discriminate.
        -- match goal with Hpc : path_from_case _ _ _ _ |- _ =>
             destruct (IHc _ _ _ _ Hcs eq_refl _ _ eq_refl E _ _ Hs Hpc) as (Hq1 & Hq3) end.
           cbn [Paths.uses_ok]. split; [split; assumption |]. split; [intros _; apply Hbase |].
           intros Ho. match type of Ho with switch_out ?oo = _ => assert (oo = OCont) by (destruct oo; cbn in Ho; congruence); subst oo end.
           eapply sub_mono; [| exact (Hq3 eq_refl)]. unfold after. cbn. intros x [Hx | Hx]; [now left | right; now right].
        -- cbn [Paths.uses_ok]. split; [split; [assumption | exact I] |]. split; [intros _; apply Hbase | discriminate].
      * (* Loop *)
        rewrite chk_stmt_loop in Hc. destruct (chk_block exprs fn n body av) as [[vb avb] cb] eqn:Hb.
        destruct (chk_block exprs fn n continuing (avb ++ cb)) as [[vc avc] cc] eqn:Hcn. inversion Hc; subst; clear Hc.
        match goal with Hnil : _ ++ _ ++ _ = [] |- _ => apply app_eq_nil in Hnil; destruct Hnil as [Hvb Hnil];
          apply app_eq_nil in Hnil; destruct Hnil as [Hvc Hbi] end. subst.
        inversion Hp; subst; try discriminate.
        match goal with Hpl : path_loop _ _ _ _ _ _ |- _ => pose proof (path_loop_outcome _ _ _ _ _ Hpl) as [Hnc Hnb];
          split; [| split; [intros _; apply Hbase | intros Ho; contradiction]];
          exact (loop_sound _ _ _ _ _ _ _ _ (IHb _ _ _ _ _ Hb eq_refl) (IHb _ _ _ _ _ Hcn eq_refl) (chk_uses_nil _ _ _ _ Hbi) _ _ Hpl E Hs) end.
      * (* Break *)
        cbn in Hc. inversion Hc; subst; clear Hc. inversion Hp; subst; try discriminate. split; [exact I | split; discriminate].
      * (* Continue *)
        cbn in Hc. inversion Hc; subst; clear Hc. inversion Hp; subst; try discriminate. split; [exact I | split; [discriminate |]].
        intros _. apply Hbase.
      * (* Return *)
        cbn in Hc. inversion Hc; subst; clear Hc. inversion Hp; subst; try discriminate.
        split; [eapply chk_uses_ok; eauto | split; discriminate].
      * (* Kill *)
        cbn in Hc. inversion Hc; subst; clear Hc. inversion Hp; subst; try discriminate. split; [exact I | split; discriminate].
    + (* blocks *)
      intros b av v av' c Hc Hv E evs o Hs Hp. destruct b as [| s b].
      * cbn in Hc. inversion Hc; subst; clear Hc. inversion Hp; subst. split; [exact I | split; [| discriminate]].
        intros _. eapply sub_mono; [| exact Hs]. intros x Hx. now apply after_base.
      * rewrite chk_block_cons in Hc. destruct (chk_stmt exprs fn n s av) as [[v1 av1] c1] eqn:H1.
        destruct (chk_block exprs fn n b av1) as [[v2 av2] c2] eqn:H2. inversion Hc; subst; clear Hc.
        match goal with Hnil : _ ++ _ = [] |- _ => apply app_eq_nil in Hnil; destruct Hnil as [Hv1 Hv2] end. subst.
        inversion Hp; subst.
        -- match goal with Hps : path_stmt _ _ ?e1 ONormal, Hpb : path_block _ _ ?e2 _ |- _ =>
             destruct (IHs _ _ _ _ _ H1 eq_refl E e1 ONormal Hs Hps) as (Hu1 & Hn1 & _);
             destruct (IHb _ _ _ _ _ H2 eq_refl (after E e1) e2 _ (Hn1 eq_refl) Hpb) as (Hu2 & Hn2 & Hc2) end.
           split; [now apply uses_ok_app |]. split.
           ++ intros Ho. eapply sub_mono; [| exact (Hn2 Ho)]. intros x Hx. now apply after_app.
           ++ intros Ho. apply sub_app_r. eapply sub_mono; [| exact (Hc2 Ho)]. intros x Hx. now apply after_app.
        -- match goal with Hps : path_stmt _ _ _ _ |- _ => destruct (IHs _ _ _ _ _ H1 eq_refl E _ _ Hs Hps) as (Hu1 & Hn1 & Hc1) end.
           split; [assumption |]. split; [intros Ho; contradiction |]. intros Ho. apply sub_app_l. auto.
    + (* case lists *)
      intros cs av v c Hc Hv pre rest Heq E evs o Hs Hp. destruct cs as [| [[v0 b0] ft0] cs].
      * destruct pre; [| discriminate]. cbn in Heq. subst rest. inversion Hp.
      * rewrite chk_cases_cons in Hc. destruct (chk_block exprs fn n b0 av) as [[v1 av1] c1] eqn:H1.
        destruct (chk_cases exprs fn n cs av) as [v2 c2] eqn:H2. inversion Hc; subst; clear Hc.
        match goal with Hnil : _ ++ _ = [] |- _ => apply app_eq_nil in Hnil; destruct Hnil as [Hv1 Hv2] end. subst.
        destruct pre as [| p0 pre].
        -- cbn in Heq. subst rest. inversion Hp; subst.
           ++ match goal with Hpb : path_block _ _ _ _ |- _ => destruct (IHb _ _ _ _ _ H1 eq_refl E _ _ Hs Hpb) as (Hu & _ & Hcn) end.
              split; [assumption |]. intros Ho. apply sub_app_l. auto.
           ++ match goal with Hpb : path_block _ _ ?e1 ONormal, Hpc : path_from_case _ _ ?e2 _ |- _ =>
                destruct (IHb _ _ _ _ _ H1 eq_refl E e1 ONormal Hs Hpb) as (Hu1 & _ & _);
                assert (Hs' : sub av (after E e1)) by (eapply sub_mono; [| exact Hs]; intros x Hx; now apply after_base);
                destruct (IHc _ _ _ _ H2 eq_refl [] _ eq_refl (after E e1) e2 _ Hs' Hpc) as (Hu2 & Hc2) end.
              split; [now apply uses_ok_app |]. intros Ho. apply sub_app_r.
              eapply sub_mono; [| exact (Hc2 Ho)]. intros x Hx. now apply after_app.
        -- cbn in Heq. inversion Heq; subst.
           destruct (IHc _ _ _ _ H2 eq_refl pre rest eq_refl E evs o Hs Hp) as (Hu & Hcn). split; [assumption |].
           intros Ho. apply sub_app_r. auto.
Qed.

End Emit.

(* ---- duplicates ---- *)
Lemma dups_from_nil : forall l seen, dups_from seen l = [] ->
  NoDup l /\ forall x, In x l -> hmem x seen = false.
Proof.
  induction l as [| h l IH]; intros seen H; cbn in *.
  - split; [constructor | intros x []].
  - destruct (hmem h seen) eqn:Hm; [discriminate |].
    destruct (IH _ H) as [Hnd Hnot]. split.
    + constructor; [| assumption]. intros Hin. apply Hnot in Hin. now rewrite hmem_hadd_same in Hin.
    + intros x [-> | Hx]; [assumption |]. apply Hnot in Hx. destruct (hmem x seen) eqn:Hx'; [| reflexivity].
      now rewrite (hmem_hadd_keep _ h _ Hx') in Hx.
Qed.

(* every Emit range of the body contributes its handles to the covered list *)
Lemma covered_complete : forall fuel,
  (forall s l, covered_stmt fuel s = Some l ->
     (forall a b h, s = SEmit a b -> a <= h < b -> In h l) /\
     (forall a b h s', inside s' s -> s' = SEmit a b -> a <= h < b -> In h l)) /\
  (forall b l, covered_block fuel b = Some l -> forall a c h, substmt (SEmit a c) b -> a <= h < c -> In h l) /\
  (forall cs l, covered_cases fuel cs = Some l ->
     forall v cb ft, In (v, cb, ft) cs -> forall a c h, substmt (SEmit a c) cb -> a <= h < c -> In h l).
Proof.
  induction fuel as [| n [IHs [IHb IHc]]].
  - repeat split; intros; discriminate.
  - split; [| split].
    + intros s l H. split.
      * intros a b h -> Hr. cbn in H. inversion H; subst. apply in_seq. lia.
      * intros a b h s' Hin -> Hr. destruct s; cbn [inside] in Hin; try contradiction; cbn [covered_stmt] in H.
        -- eapply IHb; eauto.
        -- destruct (covered_block n accept) eqn:Ha; [| discriminate]. destruct (covered_block n reject) eqn:Hrj; [| discriminate].
           inversion H; subst. apply in_or_app. destruct Hin; [left | right]; eapply IHb; eauto.
        -- destruct Hin as (v & cb & ft & Hi & Hs). eapply IHc; eauto.
        -- destruct (covered_block n body) eqn:Ha; [| discriminate]. destruct (covered_block n continuing) eqn:Hrj; [| discriminate].
           inversion H; subst. apply in_or_app. destruct Hin; [left | right]; eapply IHb; eauto.
    + intros b l H a c h Hs Hr. cbn [covered_block] in H. destruct b as [| s b]; [exfalso; eapply substmt_nil; eauto |].
      destruct (covered_stmt n s) eqn:H1; [| discriminate]. destruct (covered_block n b) eqn:H2; [| discriminate].
      inversion H; subst. apply in_or_app. apply substmt_cons in Hs. destruct Hs as [Heq | [Hs | Hs]].
      * left. destruct (IHs _ _ H1) as [Hd _]. eapply Hd; eauto.
      * left. destruct (IHs _ _ H1) as [_ Hd]. eapply Hd; eauto.
      * right. eapply IHb; eauto.
    + intros cs l H v cb ft Hin a c h Hs Hr. cbn [covered_cases] in H. destruct cs as [| [[v0 b0] ft0] cs]; [inversion Hin |].
      destruct (covered_block n b0) eqn:H1; [| discriminate]. destruct (covered_cases n cs) eqn:H2; [| discriminate].
      inversion H; subst. apply in_or_app. destruct Hin as [Heq | Hin].
      * inversion Heq; subst. left. eapply IHb; eauto.
      * right. eapply IHc; eauto.
Qed.

(* the theorem about one function: what chk_emit_func = [] means *)
Theorem emit_check_sound : forall fn f, chk_emit_func fn f = [] ->
  (* 1. on every execution path of the body, every handle used by a statement or by an
        expression being evaluated is a pre-emit kind or was evaluated/defined earlier on that path *)
  (forall evs o, path_block (f_exprs f) (f_body f) evs o -> uses_ok (f_exprs f) (fun _ => False) evs) /\
  (* 2. the Emit ranges of the body are pairwise disjoint: no handle is covered twice *)
  (exists cov, covered_block (body_fuel f) (f_body f) = Some cov /\ NoDup cov /\
     (forall a b h, substmt (SEmit a b) (f_body f) -> a <= h < b -> In h cov) /\
     (* 3. every evaluated kind is covered by a range *)
     (forall i e, nth_error (f_exprs f) i = Some e -> pre_emit e = false -> result_kind e = false -> In i cov)).
Proof.
  intros fn f H. unfold chk_emit_func in H.
  destruct (chk_block (f_exprs f) fn (body_fuel f) (f_body f) [hempty]) as [[v av'] c] eqn:Hc.
  apply app_eq_nil in H. destruct H as [Hv H]. split.
  - intros evs o Hp. destruct (chk_sound (f_exprs f) fn (body_fuel f)) as (_ & Hb & _).
    refine (proj1 (Hb _ _ _ _ _ Hc Hv (fun _ => False) evs o _ Hp)).
    intros h Hm. cbn in Hm. rewrite hmem_empty in Hm. discriminate.
  - destruct (covered_block (body_fuel f) (f_body f)) as [cov |] eqn:Hcov; [| discriminate].
    apply app_eq_nil in H. destruct H as [Hd Hu]. exists cov. split; [reflexivity |]. split; [| split].
    + apply map_eq_nil in Hd. now apply (dups_from_nil _ _ Hd).
    + intros a b h Hs Hr. destruct (covered_complete (body_fuel f)) as (_ & Hb & _). eapply Hb; eauto.
    + intros i e Hn Hpe Hrk. pose proof (check_idx_nil _ _ _ Hu i e Hn) as Hi. cbn in Hi. apply guard_nil in Hi.
      rewrite Hpe, Hrk in Hi. cbn in Hi. apply existsb_exists in Hi. destruct Hi as (x & Hx & Heq).
      apply Nat.eqb_eq in Heq. now subst.
Qed.
