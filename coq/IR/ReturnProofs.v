(* C09: soundness of the all-paths-return analysis (IR/Wf.v outs_stmt / outs_block)
   with respect to the execution paths of IR/Paths.v -- for ALL function bodies. *)
From Coq Require Import List ZArith String Bool Arith PeanoNat Lia.
Import ListNotations.
Require Import Naga.IR.Syntax Naga.IR.Infer Naga.IR.Paths Naga.IR.Wf Naga.IR.WfProofs.
Open Scope nat_scope.

Lemma outcome_eq_normal o : o = ONormal \/ o <> ONormal.
Proof. destruct o; [now left | right; discriminate ..]. Qed.

Section Outs.
Variable exprs : list expr.
Variable okv : nat -> bool.

(* outcome o is among the outcomes the abstract set x allows *)
Definition o_in (o : outcome) (x : oset) : Prop :=
  match o with
  | ONormal => o_n x = true
  | OBrk => o_b x = true
  | OCont => o_c x = true
  | ORet (Some v) => o_rv x = true /\ (okv v = true \/ o_bad x = true)
  | ORet None => o_rn x = true
  | OKill => True
  end.

Lemma o_in_union_l o x y : o_in o x -> o_in o (o_union x y).
Proof.
  destruct o as [| | | [v |] |]; cbn; intros H; try (now rewrite H); try exact I.
  destruct H as [H1 [H2 | H2]]; rewrite H1; split; auto. right. now rewrite H2.
Qed.

Lemma o_in_union_r o x y : o_in o y -> o_in o (o_union x y).
Proof.
  destruct o as [| | | [v |] |]; cbn; intros H; try (rewrite H; now rewrite orb_true_r); try exact I.
  destruct H as [H1 [H2 | H2]]; rewrite H1, orb_true_r; split; auto. right. now rewrite H2, orb_true_r.
Qed.

Lemma o_in_seq_next o x y : o_in ONormal x -> o_in o y -> o_in o (o_seq x y).
Proof. unfold o_seq. intros Hn H. cbn in Hn. rewrite Hn. now apply o_in_union_r. Qed.

Lemma o_in_seq_stop o x y : o <> ONormal -> o_in o x -> o_in o (o_seq x y).
Proof.
  unfold o_seq. intros Hn H. destruct (o_n x); [| assumption]. apply o_in_union_l.
  destruct o as [| | | [v |] |]; cbn in *; auto; contradiction.
Qed.

Definition loop_set (x y : oset) (bi : option nat) : oset :=
  mko (o_b x || o_b y || match bi with Some _ => true | None => false end) false false
      (o_rv x || o_rv y) (o_rn x || o_rn y) (o_bad x || o_bad y).

Lemma loop_exit_in_l o o' x y bi : loop_exit o = Some o' -> o_in o x -> o_in o' (loop_set x y bi).
Proof.
  destruct o as [| | | [v |] |]; cbn; intros H Hi; inversion H; subst; cbn; try exact I.
  - now rewrite Hi.
  - destruct Hi as [H1 [H2 | H2]]; rewrite H1; split; auto. right. now rewrite H2.
  - now rewrite Hi.
Qed.

Lemma loop_exit_in_r o o' x y bi : loop_exit o = Some o' -> o_in o y -> o_in o' (loop_set x y bi).
Proof.
  destruct o as [| | | [v |] |]; cbn; intros H Hi; inversion H; subst; cbn; try exact I.
  - rewrite Hi. now rewrite orb_true_r.
  - destruct Hi as [H1 [H2 | H2]]; rewrite H1, orb_true_r; split; auto. right. now rewrite H2, orb_true_r.
  - rewrite Hi. now rewrite orb_true_r.
Qed.

Lemma loop_outs_sound body cont bi x y :
  (forall evs o, path_block exprs body evs o -> o_in o x) ->
  (forall evs o, path_block exprs cont evs o -> o_in o y) ->
  forall evs o, path_loop exprs body cont bi evs o -> o_in o (loop_set x y bi).
Proof.
  intros Hx Hy evs o Hp. induction Hp.
  - eapply loop_exit_in_l; eauto.
  - eapply loop_exit_in_r; eauto.
  - cbn. now rewrite orb_true_r.
  - auto.
Qed.

(* unfolding equations *)
Lemma outs_stmt_S n s : outs_stmt okv (S n) s =
  match s with
  | SBlock b => outs_block okv n b
  | SIf _ a r => match outs_block okv n a, outs_block okv n r with Some x, Some y => Some (o_union x y) | _, _ => None end
  | SSwitch _ cases =>
    match outs_cases okv n cases with
    | Some (u, _) => Some (mko (o_n u || o_b u || negb (has_default cases)) false (o_c u) (o_rv u) (o_rn u) (o_bad u))
    | None => None
    end
  | SLoop body cont bi =>
    match outs_block okv n body, outs_block okv n cont with
    | Some x, Some y => Some (loop_set x y bi)
    | _, _ => None
    end
  | SBreak => Some (mko false true false false false false)
  | SContinue => Some (mko false false true false false false)
  | SReturn (Some v) => Some (mko false false false true false (negb (okv v)))
  | SReturn None => Some (mko false false false false true false)
  | SKill => Some o_empty
  | _ => Some o_normal
  end.
Proof. reflexivity. Qed.

Lemma outs_block_S n b : outs_block okv (S n) b =
  match b with
  | [] => Some o_normal
  | s :: b' => match outs_stmt okv n s, outs_block okv n b' with Some x, Some y => Some (o_seq x y) | _, _ => None end
  end.
Proof. reflexivity. Qed.

Lemma outs_cases_S n cs : outs_cases okv (S n) cs =
  match cs with
  | [] => Some (o_empty, o_normal)
  | (_, b, ft) :: cs' =>
    match outs_block okv n b, outs_cases okv n cs' with
    | Some x, Some (u, f) => let here := if ft then o_seq x f else x in Some (o_union here u, here)
    | _, _ => None
    end
  end.
Proof. reflexivity. Qed.

Lemma outs_cases_nil n u f : outs_cases okv n [] = Some (u, f) -> f = o_normal.
Proof. destruct n; cbn; intros H; inversion H; reflexivity. Qed.

Lemma outs_sound : forall fuel,
  (forall s x, outs_stmt okv fuel s = Some x -> forall evs o, path_stmt exprs s evs o -> o_in o x) /\
  (forall b x, outs_block okv fuel b = Some x -> forall evs o, path_block exprs b evs o -> o_in o x) /\
  (forall cs u f, outs_cases okv fuel cs = Some (u, f) ->
     (forall evs o, path_from_case exprs cs evs o -> o_in o f) /\
     (forall pre rest, cs = pre ++ rest -> forall evs o, path_from_case exprs rest evs o -> o_in o u)).
Proof.
  induction fuel as [| n [IHs [IHb IHc]]].
  - repeat split; intros; discriminate.
  - split; [| split].
    + intros s x H evs o Hp. rewrite outs_stmt_S in H. destruct s.
      * inversion H; subst. inversion Hp; subst; try discriminate. reflexivity.
      * inversion Hp; subst; try discriminate. eapply IHb; eauto.
      * destruct (outs_block okv n accept) as [xa |] eqn:Ha; [| discriminate].
        destruct (outs_block okv n reject) as [xr |] eqn:Hr; [| discriminate]. inversion H; subst.
        inversion Hp; subst; try discriminate; [apply o_in_union_l | apply o_in_union_r]; eapply IHb; eauto.
      * destruct (outs_cases okv n cases) as [[u f] |] eqn:Hc; [| discriminate]. inversion H; subst.
        inversion Hp; subst; try discriminate.
        -- match goal with Hpc : path_from_case _ _ _ ?oo |- _ =>
             pose proof (proj2 (IHc _ _ _ Hc) _ _ eq_refl _ _ Hpc) as Hin; destruct oo as [| | | [v |] |]; cbn in *; auto end.
           ++ now rewrite Hin.
           ++ rewrite Hin. now rewrite orb_true_r.
        -- cbn. match goal with Hd : has_default _ = false |- _ => rewrite Hd end. now rewrite orb_true_r.
      * destruct (outs_block okv n body) as [xb |] eqn:Hb; [| discriminate].
        destruct (outs_block okv n continuing) as [xc |] eqn:Hcn; [| discriminate]. inversion H; subst.
        inversion Hp; subst; try discriminate.
        eapply loop_outs_sound; eauto; intros; eapply IHb; eauto.
      * inversion H; subst. inversion Hp; subst; try discriminate. reflexivity.
      * inversion H; subst. inversion Hp; subst; try discriminate. reflexivity.
      * inversion Hp; subst; try discriminate. destruct value as [v |]; inversion H; subst; cbn.
        -- split; [reflexivity |]. destruct (okv v); [now left | now right].
        -- reflexivity.
      * inversion Hp; subst; try discriminate. exact I.
      * inversion H; subst. inversion Hp; subst; try discriminate. reflexivity.
      * inversion H; subst. inversion Hp; subst; try discriminate. reflexivity.
      * inversion H; subst. inversion Hp; subst; try discriminate. reflexivity.
      * inversion H; subst. inversion Hp; subst; try discriminate. reflexivity.
      * inversion H; subst. inversion Hp; subst; try discriminate. reflexivity.
    + intros b x H evs o Hp. rewrite outs_block_S in H. destruct b as [| s b].
      * inversion H; subst. inversion Hp; subst. reflexivity.
      * destruct (outs_stmt okv n s) as [xs |] eqn:H1; [| discriminate].
        destruct (outs_block okv n b) as [xb |] eqn:H2; [| discriminate]. inversion H; subst.
        inversion Hp; subst.
        -- apply o_in_seq_next; [eapply IHs; eauto | eapply IHb; eauto].
        -- apply o_in_seq_stop; [assumption | eapply IHs; eauto].
    + intros cs u f H. rewrite outs_cases_S in H. destruct cs as [| [[v0 b0] ft0] cs].
      * inversion H; subst. split; [intros evs o Hp; inversion Hp |].
        intros pre rest Heq evs o Hp. destruct pre; [| discriminate]. cbn in Heq. subst. inversion Hp.
      * destruct (outs_block okv n b0) as [x |] eqn:H1; [| discriminate].
        destruct (outs_cases okv n cs) as [[u' f'] |] eqn:H2; [| discriminate]. inversion H; subst; clear H.
        destruct (IHc _ _ _ H2) as [Hf' Hu'].
        assert (Hhere : forall evs o, path_from_case exprs ((v0, b0, ft0) :: cs) evs o -> o_in o (if ft0 then o_seq x f' else x)).
        { intros evs o Hp. inversion Hp; subst.
          - match goal with Hpb : path_block _ _ _ _ |- _ => pose proof (IHb _ _ H1 _ _ Hpb) as Hin end.
            destruct ft0; [| assumption].
            match goal with Hor : _ \/ _ \/ _ |- _ => destruct Hor as [Hne | [Hft | Hnil]] end.
            + now apply o_in_seq_stop.
            + discriminate.
            + subst cs. apply outs_cases_nil in H2. subst f'.
              destruct (outcome_eq_normal o) as [-> | Hne]; [| now apply o_in_seq_stop].
              apply o_in_seq_next; [assumption | reflexivity].
          - apply o_in_seq_next; [eapply IHb; eauto | eapply Hf'; eauto]. }
        split; [exact Hhere |].
        intros pre rest Heq evs o Hp. destruct pre as [| p0 pre].
        -- cbn in Heq. subst rest. apply o_in_union_l. exact (Hhere _ _ Hp).
        -- cbn in Heq. inversion Heq; subst. apply o_in_union_r. exact (Hu' _ _ eq_refl _ _ Hp).
Qed.

End Outs.

(* what chk_returns = [] means for one function *)
Theorem returns_check_sound : forall m fn f tys recd, chk_returns m fn f tys recd = [] ->
  forall evs o, path_block (f_exprs f) (f_body f) evs o ->
  match f_result f with
  | Some r =>
    (* with a result: every path ends in Kill or in Return of a value of the result type *)
    o = OKill \/
    exists v, o = ORet (Some v) /\
              (opt_inner_eqb (prev_ty tys v) (tinner m (fr_type r)) || opt_inner_eqb (prev_ty recd v) (tinner m (fr_type r))) = true
  | None =>
    (* without: no path returns a value, none leaves through Break/Continue *)
    o = OKill \/ o = ORet None \/ o = ONormal
  end.
Proof.
  intros m fn f tys recd H evs o Hp. unfold chk_returns in H.
  set (okv := match f_result f with
              | Some r => fun v => opt_inner_eqb (prev_ty tys v) (tinner m (fr_type r)) || opt_inner_eqb (prev_ty recd v) (tinner m (fr_type r))
              | None => fun _ => false end) in *.
  destruct (outs_block okv (body_fuel f) (f_body f)) as [x |] eqn:Ho; [| discriminate].
  destruct (outs_sound (f_exprs f) okv (body_fuel f)) as (_ & Hb & _). pose proof (Hb _ _ Ho _ _ Hp) as Hin.
  apply app_eq_nil in H. destruct H as [Hb1 H]. apply app_eq_nil in H. destruct H as [Hc1 H].
  apply guard_nil in Hb1. apply guard_nil in Hc1. apply negb_true_iff in Hb1. apply negb_true_iff in Hc1.
  destruct (f_result f) as [r |] eqn:Hr.
  - apply app_eq_nil in H. destruct H as [Hn H]. apply app_eq_nil in H. destruct H as [Hrn Hbad].
    apply guard_nil in Hn. apply guard_nil in Hrn. apply guard_nil in Hbad.
    apply negb_true_iff in Hn. apply negb_true_iff in Hrn. apply negb_true_iff in Hbad.
    destruct o as [| | | [v |] |]; cbn in Hin; try congruence; [| now left].
    right. exists v. split; [reflexivity |]. destruct Hin as [_ [Hok | Hb2]]; [exact Hok | congruence].
  - apply guard_nil in H. apply negb_true_iff in H.
    destruct o as [| | | [v |] |]; cbn in Hin; try congruence; auto.
    destruct Hin as [Hrv _]. congruence.
Qed.
