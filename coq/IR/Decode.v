(* Decoder: the Go reflection dump of an *ir.Module (harness/common/dump.go,
   JSON) -> IR/Syntax.module.  Enumeration numbers are translated to names
   through coq/Gen/IrEnums.v (regenerated from the Go const blocks on every
   run), so a renumbered enum cannot silently change meaning.  Returns an error
   string naming the place that did not decode. *)
From Coq Require Import List ZArith String Bool.
Import ListNotations.
Require Import Naga.Base.Json Naga.IR.Syntax Naga.Gen.IrEnums.
Open Scope string_scope.
Open Scope Z_scope.
Infix "==" := String.eqb (at level 70).

Inductive res (A : Type) := Ok (a : A) | Err (msg : string).
Arguments Ok {A} a.
Arguments Err {A} msg.

Definition bind {A B} (r : res A) (f : A -> res B) : res B :=
  match r with Ok a => f a | Err m => Err m end.
Notation "x <- e1 ;; e2" := (bind e1 (fun x => e2)) (at level 61, e1 at next level, right associativity).

Definition of_opt {A} (msg : string) (o : option A) : res A :=
  match o with Some a => Ok a | None => Err msg end.

Fixpoint map_res {A B} (f : A -> res B) (l : list A) : res (list B) :=
  match l with
  | [] => Ok []
  | x :: l' => y <- f x ;; ys <- map_res f l' ;; Ok (y :: ys)
  end.

(* Handles are list indices (nat).  A hostile/sentinel handle such as 0xFFFFFFFF must not be
   converted to a unary nat: every handle is capped at BAD_HANDLE, which is out of range of any arena. *)
Definition BAD_HANDLE : Z := 1048575.
Definition hnat (z : Z) : nat := Z.to_nat (Z.min z BAD_HANDLE).

Definition get (k : string) (j : json) : res json := of_opt ("missing field " ++ k) (field k j).
Definition getnum (k : string) (j : json) : res Z := of_opt ("field not a number: " ++ k) (field_num k j).
Definition getnat (k : string) (j : json) : res nat :=
  z <- getnum k j ;; if z <? 0 then Err ("negative handle: " ++ k) else Ok (hnat z).
Definition getstr (k : string) (j : json) : res string := of_opt ("field not a string: " ++ k) (field_str k j).
Definition getbool (k : string) (j : json) : res bool := of_opt ("field not a bool: " ++ k) (field_bool k j).
Definition getarr (k : string) (j : json) : res (list json) := of_opt ("field not an array: " ++ k) (field_arr k j).

Definition jnat (j : json) : res nat :=
  match j with JNum z => if z <? 0 then Err "negative handle" else Ok (hnat z) | _ => Err "expected number" end.
Definition jz (j : json) : res Z := match j with JNum z => Ok z | _ => Err "expected number" end.

(* optional field: null -> None *)
Definition getopt {A} (k : string) (f : json -> res A) (j : json) : res (option A) :=
  match field k j with
  | None => Err ("missing field " ++ k)
  | Some JNull => Ok None
  | Some v => x <- f v ;; Ok (Some x)
  end.

Definition nat_list (k : string) (j : json) : res (list nat) := l <- getarr k j ;; map_res jnat l.

(* ---- enumerations through the regenerated table ---- *)
Fixpoint lookup_z (n : Z) (l : list (Z * string)) : option string :=
  match l with [] => None | (v, s) :: l' => if v =? n then Some s else lookup_z n l' end.
Fixpoint lookup_s (k : string) (l : list (string * list (Z * string))) : option (list (Z * string)) :=
  match l with [] => None | (k', v) :: l' => if String.eqb k k' then Some v else lookup_s k l' end.

Definition enum_name (ty : string) (n : Z) : res string :=
  match lookup_s ty ir_enums with
  | None => Err ("unknown enum type " ++ ty)
  | Some tbl => of_opt ("unknown value of enum " ++ ty) (lookup_z n tbl)
  end.

Definition dec_scalar_kind (n : Z) : res scalar_kind :=
  s <- enum_name "ScalarKind" n ;;
  if s == "ScalarSint" then Ok Sint else if s == "ScalarUint" then Ok Uint
  else if s == "ScalarFloat" then Ok Float else if s == "ScalarBool" then Ok SBool
  else if s == "ScalarAbstractInt" then Ok AbstractInt else if s == "ScalarAbstractFloat" then Ok AbstractFloat
  else Err ("unhandled ScalarKind " ++ s).

Definition dec_space (n : Z) : res addr_space :=
  s <- enum_name "AddressSpace" n ;;
  if s == "SpaceFunction" then Ok SpFunction else if s == "SpacePrivate" then Ok SpPrivate
  else if s == "SpaceWorkGroup" then Ok SpWorkGroup else if s == "SpaceUniform" then Ok SpUniform
  else if s == "SpaceStorage" then Ok SpStorage else if s == "SpacePushConstant" then Ok SpPushConstant
  else if s == "SpaceHandle" then Ok SpHandle else if s == "SpaceImmediate" then Ok SpImmediate
  else if s == "SpaceTaskPayload" then Ok SpTaskPayload else Err ("unhandled AddressSpace " ++ s).

Definition dec_unop (n : Z) : res unop :=
  s <- enum_name "UnaryOperator" n ;;
  if s == "UnaryNegate" then Ok UNegate else if s == "UnaryLogicalNot" then Ok ULogicalNot
  else if s == "UnaryBitwiseNot" then Ok UBitwiseNot else Err ("unhandled UnaryOperator " ++ s).

Definition dec_binop (n : Z) : res binop :=
  s <- enum_name "BinaryOperator" n ;;
  if s == "BinaryAdd" then Ok BAdd else if s == "BinarySubtract" then Ok BSub
  else if s == "BinaryMultiply" then Ok BMul else if s == "BinaryDivide" then Ok BDiv
  else if s == "BinaryModulo" then Ok BMod else if s == "BinaryEqual" then Ok BEq
  else if s == "BinaryNotEqual" then Ok BNe else if s == "BinaryLess" then Ok BLt
  else if s == "BinaryLessEqual" then Ok BLe else if s == "BinaryGreater" then Ok BGt
  else if s == "BinaryGreaterEqual" then Ok BGe else if s == "BinaryAnd" then Ok BAnd
  else if s == "BinaryExclusiveOr" then Ok BXor else if s == "BinaryInclusiveOr" then Ok BOr
  else if s == "BinaryLogicalAnd" then Ok BLogicalAnd else if s == "BinaryLogicalOr" then Ok BLogicalOr
  else if s == "BinaryShiftLeft" then Ok BShl else if s == "BinaryShiftRight" then Ok BShr
  else Err ("unhandled BinaryOperator " ++ s).

Definition dec_relfun (n : Z) : res relfun :=
  s <- enum_name "RelationalFunction" n ;;
  if s == "RelationalAll" then Ok RAll else if s == "RelationalAny" then Ok RAny
  else if s == "RelationalIsNan" then Ok RIsNan else if s == "RelationalIsInf" then Ok RIsInf
  else Err ("unhandled RelationalFunction " ++ s).

Definition dec_stage (n : Z) : res stage :=
  s <- enum_name "ShaderStage" n ;;
  if s == "StageVertex" then Ok StVertex else if s == "StageFragment" then Ok StFragment
  else if s == "StageCompute" then Ok StCompute else Ok (StOther s).

(* ---- types ---- *)
Definition dec_scalar (j : json) : res scalar :=
  k <- getnum "Kind" j ;; k' <- dec_scalar_kind k ;; w <- getnum "Width" j ;; Ok (mkscalar k' w).

Definition dec_interp (j : json) : res interpolation :=
  k <- getnum "Kind" j ;; s <- getnum "Sampling" j ;; Ok (mkinterp k s).

Definition dec_binding (j : json) : res binding :=
  t <- of_opt "binding without _t" (tag j) ;;
  if t == "BuiltinBinding" then
    b <- getnum "Builtin" j ;; n <- enum_name "BuiltinValue" b ;; i <- getbool "Invariant" j ;; Ok (BBuiltin n i)
  else if t == "LocationBinding" then
    l <- getnum "Location" j ;; ip <- getopt "Interpolation" dec_interp j ;; bs <- getopt "BlendSrc" jz j ;;
    Ok (BLocation l ip bs)
  else Err ("unknown binding " ++ t).

Definition dec_member (j : json) : res struct_member :=
  n <- getstr "Name" j ;; t <- getnat "Type" j ;; b <- getopt "Binding" dec_binding j ;; o <- getnum "Offset" j ;;
  Ok (mkmember n t b o).

Definition dec_type_inner (j : json) : res type_inner :=
  t <- of_opt "type inner without _t" (tag j) ;;
  if t == "ScalarType" then s <- dec_scalar j ;; Ok (TScalar s)
  else if t == "VectorType" then
    n <- getnum "Size" j ;; sj <- get "Scalar" j ;; s <- dec_scalar sj ;; Ok (TVector n s)
  else if t == "MatrixType" then
    c <- getnum "Columns" j ;; r <- getnum "Rows" j ;; sj <- get "Scalar" j ;; s <- dec_scalar sj ;; Ok (TMatrix c r s)
  else if t == "ArrayType" then
    b <- getnat "Base" j ;; sz <- get "Size" j ;; c <- getopt "Constant" jz sz ;; st <- getnum "Stride" j ;; Ok (TArray b c st)
  else if t == "StructType" then
    ms <- getarr "Members" j ;; ms' <- map_res dec_member ms ;; sp <- getnum "Span" j ;; Ok (TStruct ms' sp)
  else if t == "PointerType" then
    b <- getnat "Base" j ;; s <- getnum "Space" j ;; s' <- dec_space s ;; Ok (TPointer b s')
  else if t == "ValuePointerType" then
    sz <- getopt "Size" jz j ;; sj <- get "Scalar" j ;; s <- dec_scalar sj ;; sp <- getnum "Space" j ;; sp' <- dec_space sp ;;
    Ok (TValuePointer sz s sp')
  else if t == "AtomicType" then sj <- get "Scalar" j ;; s <- dec_scalar sj ;; Ok (TAtomic s)
  else if t == "BindingArrayType" then b <- getnat "Base" j ;; sz <- getopt "Size" jz j ;; Ok (TBindingArray b sz)
  else Ok (TOther t).

Definition dec_type (j : json) : res ty :=
  n <- getstr "Name" j ;; ij <- get "Inner" j ;; i <- dec_type_inner ij ;; Ok (mkty n i).

Definition dec_resolution (j : json) : res type_resolution :=
  match field "Handle" j with
  | Some (JNum z) => if z <? 0 then Err "negative type handle" else Ok (RHandle (hnat z))
  | _ => v <- get "Value" j ;;
         match v with JNull => Ok RNone | _ => i <- dec_type_inner v ;; Ok (RValue i) end
  end.

(* ---- literals ---- *)
Definition M32d : Z := 4294967296.
Definition M64d : Z := 18446744073709551616.

(* number possibly wrapped as {"u64": "decimal"} or {"f32": bits} / {"f64": "bits"} *)
Fixpoint digits_to_z (s : string) (acc : Z) : option Z :=
  match s with
  | EmptyString => Some acc
  | String c r =>
    let d := Z.of_nat (Ascii.nat_of_ascii c) - 48 in
    if (0 <=? d) && (d <=? 9) then digits_to_z r (acc * 10 + d) else None
  end.

Definition num_or_str (j : json) : res Z :=
  match j with
  | JNum z => Ok z
  | JStr s => of_opt "bad decimal string" (digits_to_z s 0)
  | _ => Err "expected number or decimal string"
  end.

Definition float_bits (j : json) : res Z :=
  match field "f32" j with
  | Some v => num_or_str v
  | None => match field "f64" j with Some v => num_or_str v | None => Err "expected float bits" end
  end.

Definition big_num (j : json) : res Z :=
  match field "u64" j with Some v => num_or_str v | None => num_or_str j end.

Definition dec_literal (j : json) : res literal :=
  t <- of_opt "literal without _t" (tag j) ;;
  v <- get "v" j ;;
  if t == "LiteralF64" then b <- float_bits v ;; Ok (LF64 b)
  else if t == "LiteralF32" then b <- float_bits v ;; Ok (LF32 b)
  else if t == "LiteralF16" then b <- float_bits v ;; Ok (LF16 b)
  else if t == "LiteralU32" then z <- big_num v ;; Ok (LU32 z)
  else if t == "LiteralI32" then z <- big_num v ;; Ok (LI32 (z mod M32d))
  else if t == "LiteralU64" then z <- big_num v ;; Ok (LU64 z)
  else if t == "LiteralI64" then z <- big_num v ;; Ok (LI64 (z mod M64d))
  else if t == "LiteralBool" then match v with JBool b => Ok (LBool b) | _ => Err "LiteralBool payload" end
  else if t == "LiteralAbstractInt" then z <- big_num v ;; Ok (LAbstractInt z)
  else if t == "LiteralAbstractFloat" then b <- float_bits v ;; Ok (LAbstractFloat b)
  else Err ("unknown literal " ++ t).

(* ---- expressions ---- *)

(* expression-handle fields of the kinds kept generically: plain fields and optional fields *)
Definition other_expr_fields (t : string) : list string :=
  if t == "ExprImageSample" then ["Image"; "Sampler"; "Coordinate"; "ArrayIndex"; "Offset"; "DepthRef"]
  else if t == "ExprImageLoad" then ["Image"; "Coordinate"; "ArrayIndex"; "Sample"; "Level"]
  else if t == "ExprImageQuery" then ["Image"]
  else if t == "ExprDerivative" then ["Expr"]
  else if t == "ExprAlias" then ["Source"]
  else if t == "ExprRayQueryGetIntersection" then ["Query"]
  else [].

Definition opt_handle_field (k : string) (j : json) : list nat :=
  match field k j with
  | Some (JNum z) => if z <? 0 then [] else [hnat z]
  | _ => []
  end.

(* handles nested one level down (SampleLevelExact{Level}, ImageQuerySize{Level}, phi incomings ...) *)
Definition nested_handles (j : json) : list nat :=
  match j with
  | JObj fs =>
    flat_map (fun kv => match snd kv with
                        | JObj fs2 => flat_map (fun kv2 => match snd kv2 with
                                                           | JNum z => if (String.eqb (fst kv2) "Level" || String.eqb (fst kv2) "Bias"
                                                                           || String.eqb (fst kv2) "X" || String.eqb (fst kv2) "Y")%bool
                                                                       then (if z <? 0 then [] else [hnat z]) else []
                                                           | _ => [] end) fs2
                        | _ => [] end) fs
  | _ => []
  end.

Definition math_args (j : json) : res (list nat) :=
  a <- getnat "Arg" j ;;
  Ok (a :: opt_handle_field "Arg1" j ++ opt_handle_field "Arg2" j ++ opt_handle_field "Arg3" j).

Definition dec_expr_kind (j : json) : res expr :=
  t <- of_opt "expression kind without _t" (tag j) ;;
  if t == "Literal" then v <- get "Value" j ;; l <- dec_literal v ;; Ok (ELiteral l)
  else if t == "ExprConstant" then c <- getnat "Constant" j ;; Ok (EConstant c)
  else if t == "ExprOverride" then c <- getnat "Override" j ;; Ok (EOverride c)
  else if t == "ExprZeroValue" then c <- getnat "Type" j ;; Ok (EZeroValue c)
  else if t == "ExprCompose" then ty <- getnat "Type" j ;; cs <- nat_list "Components" j ;; Ok (ECompose ty cs)
  else if t == "ExprAccess" then b <- getnat "Base" j ;; i <- getnat "Index" j ;; Ok (EAccess b i)
  else if t == "ExprAccessIndex" then b <- getnat "Base" j ;; i <- getnum "Index" j ;; Ok (EAccessIndex b i)
  else if t == "ExprSplat" then s <- getnum "Size" j ;; v <- getnat "Value" j ;; Ok (ESplat s v)
  else if t == "ExprSwizzle" then
    s <- getnum "Size" j ;; v <- getnat "Vector" j ;; p <- getarr "Pattern" j ;; p' <- map_res jz p ;; Ok (ESwizzle s v p')
  else if t == "ExprFunctionArgument" then i <- getnat "Index" j ;; Ok (EFunctionArgument i)
  else if t == "ExprGlobalVariable" then i <- getnat "Variable" j ;; Ok (EGlobalVariable i)
  else if t == "ExprLocalVariable" then i <- getnat "Variable" j ;; Ok (ELocalVariable i)
  else if t == "ExprLoad" then p <- getnat "Pointer" j ;; Ok (ELoad p)
  else if t == "ExprUnary" then o <- getnum "Op" j ;; o' <- dec_unop o ;; e <- getnat "Expr" j ;; Ok (EUnary o' e)
  else if t == "ExprBinary" then
    o <- getnum "Op" j ;; o' <- dec_binop o ;; l <- getnat "Left" j ;; r <- getnat "Right" j ;; Ok (EBinary o' l r)
  else if t == "ExprSelect" then
    c <- getnat "Condition" j ;; a <- getnat "Accept" j ;; r <- getnat "Reject" j ;; Ok (ESelect c a r)
  else if t == "ExprRelational" then f <- getnum "Fun" j ;; f' <- dec_relfun f ;; a <- getnat "Argument" j ;; Ok (ERelational f' a)
  else if t == "ExprMath" then f <- getnum "Fun" j ;; n <- enum_name "MathFunction" f ;; args <- math_args j ;; Ok (EMath n args)
  else if t == "ExprAs" then
    e <- getnat "Expr" j ;; k <- getnum "Kind" j ;; k' <- dec_scalar_kind k ;; c <- getopt "Convert" jz j ;; Ok (EAs e k' c)
  else if t == "ExprCallResult" then f <- getnat "Function" j ;; Ok (ECallResult f)
  else if t == "ExprArrayLength" then a <- getnat "Array" j ;; Ok (EArrayLength a)
  else if t == "ExprAtomicResult" then ty <- getnat "Ty" j ;; c <- getbool "Comparison" j ;; Ok (EAtomicResult ty c)
  else Ok (EOther t (flat_map (fun k => opt_handle_field k j) (other_expr_fields t) ++ nested_handles j)).

Definition dec_expr (j : json) : res expr := k <- get "Kind" j ;; dec_expr_kind k.

(* ---- statements (fuel = structural size bound; the JSON tree is finite) ---- *)
Definition dec_switch_value (j : json) : res switch_value :=
  t <- of_opt "switch value without _t" (tag j) ;;
  if t == "SwitchValueDefault" then Ok SVDefault
  else if t == "SwitchValueI32" then v <- get "v" j ;; z <- jz v ;; Ok (SVI32 (z mod M32d))
  else if t == "SwitchValueU32" then v <- get "v" j ;; z <- jz v ;; Ok (SVU32 z)
  else Err ("unknown switch value " ++ t).

Definition other_stmt_fields (t : string) : list string :=
  if t == "StmtImageStore" then ["Image"; "Coordinate"; "ArrayIndex"; "Value"]
  else if t == "StmtImageAtomic" then ["Image"; "Coordinate"; "ArrayIndex"; "Value"]
  else if t == "StmtWorkGroupUniformLoad" then ["Pointer"; "Result"]
  else if t == "StmtRayQuery" then ["Query"]
  else if t == "StmtSubgroupBallot" then ["Result"; "Predicate"]
  else if t == "StmtSubgroupCollectiveOperation" then ["Argument"; "Result"]
  else if t == "StmtSubgroupGather" then ["Argument"; "Result"]
  else [].

Fixpoint dec_stmt (fuel : nat) (j : json) {struct fuel} : res stmt :=
  match fuel with
  | O => Err "statement nesting too deep for decoder fuel"
  | S f =>
    let dec_block (jb : json) : res (list stmt) :=
        match jb with JArr l => map_res (dec_stmt f) l | JNull => Ok [] | _ => Err "block is not an array" end in
    k <- get "Kind" j ;;
    t <- of_opt "statement kind without _t" (tag k) ;;
    if t == "StmtEmit" then
      r <- get "Range" k ;; s <- getnat "Start" r ;; e <- getnat "End" r ;; Ok (SEmit s e)
    else if t == "StmtBlock" then bj <- get "Block" k ;; b <- dec_block bj ;; Ok (SBlock b)
    else if t == "StmtIf" then
      c <- getnat "Condition" k ;; aj <- get "Accept" k ;; a <- dec_block aj ;; rj <- get "Reject" k ;; r <- dec_block rj ;;
      Ok (SIf c a r)
    else if t == "StmtSwitch" then
      sel <- getnat "Selector" k ;; cs <- getarr "Cases" k ;;
      cs' <- map_res (fun cj => vj <- get "Value" cj ;; v <- dec_switch_value vj ;; bj <- get "Body" cj ;; b <- dec_block bj ;;
                                 ft <- getbool "FallThrough" cj ;; Ok (v, b, ft)) cs ;;
      Ok (SSwitch sel cs')
    else if t == "StmtLoop" then
      bj <- get "Body" k ;; b <- dec_block bj ;; cj <- get "Continuing" k ;; c <- dec_block cj ;;
      bi <- getopt "BreakIf" jnat k ;; Ok (SLoop b c bi)
    else if t == "StmtBreak" then Ok SBreak
    else if t == "StmtContinue" then Ok SContinue
    else if t == "StmtReturn" then v <- getopt "Value" jnat k ;; Ok (SReturn v)
    else if t == "StmtKill" then Ok SKill
    else if t == "StmtBarrier" then fl <- getnum "Flags" k ;; Ok (SBarrier fl)
    else if t == "StmtStore" then p <- getnat "Pointer" k ;; v <- getnat "Value" k ;; Ok (SStore p v)
    else if t == "StmtAtomic" then
      p <- getnat "Pointer" k ;; fj <- get "Fun" k ;; fn <- of_opt "atomic fun without _t" (tag fj) ;;
      let cmp := opt_handle_field "Compare" fj in
      v <- getnat "Value" k ;; r <- getopt "Result" jnat k ;;
      Ok (SAtomic p fn (match cmp with c :: _ => Some c | [] => None end) v r)
    else if t == "StmtCall" then
      fn <- getnat "Function" k ;; args <- nat_list "Arguments" k ;; r <- getopt "Result" jnat k ;; Ok (SCall fn args r)
    else Ok (SOther t (flat_map (fun fld => opt_handle_field fld k) (other_stmt_fields t) ++ nested_handles k))
  end.

Definition dec_body (j : json) : res (list stmt) :=
  match j with JArr l => map_res (dec_stmt 200) l | JNull => Ok [] | _ => Err "body is not an array" end.

(* ---- functions and module ---- *)
Definition dec_local (j : json) : res local_var :=
  n <- getstr "Name" j ;; t <- getnat "Type" j ;; i <- getopt "Init" jnat j ;; Ok (mklocal n t i).
Definition dec_arg (j : json) : res fn_arg :=
  n <- getstr "Name" j ;; t <- getnat "Type" j ;; b <- getopt "Binding" dec_binding j ;; Ok (mkarg n t b).
Definition dec_result (j : json) : res fn_result :=
  t <- getnat "Type" j ;; b <- getopt "Binding" dec_binding j ;; Ok (mkres t b).

Definition dec_named (j : json) : res (nat * string) :=
  match j with
  | JArr [JNum z; JStr s] => if z <? 0 then Err "named expression handle" else Ok (hnat z, s)
  | _ => Err "named expression entry"
  end.

Definition dec_func (j : json) : res func :=
  n <- getstr "Name" j ;;
  a <- getarr "Arguments" j ;; a' <- map_res dec_arg a ;;
  r <- getopt "Result" dec_result j ;;
  l <- getarr "LocalVars" j ;; l' <- map_res dec_local l ;;
  e <- getarr "Expressions" j ;; e' <- map_res dec_expr e ;;
  et <- getarr "ExpressionTypes" j ;; et' <- map_res dec_resolution et ;;
  bj <- get "Body" j ;; b <- dec_body bj ;;
  nm <- getarr "NamedExpressions" j ;; nm' <- map_res dec_named nm ;;
  Ok (mkfunc n a' r l' e' et' b nm').

Definition dec_const_value (j : json) : res const_value :=
  match j with
  | JNull => Ok CVNone
  | _ =>
    t <- of_opt "constant value without _t" (tag j) ;;
    if t == "ScalarValue" then bj <- get "Bits" j ;; b <- big_num bj ;; k <- getnum "Kind" j ;; k' <- dec_scalar_kind k ;; Ok (CVScalar b k')
    else if t == "CompositeValue" then cs <- nat_list "Components" j ;; Ok (CVComposite cs)
    else if t == "ZeroConstantValue" then Ok CVZero
    else Err ("unknown constant value " ++ t)
  end.

Definition dec_constant (j : json) : res constant :=
  n <- getstr "Name" j ;; t <- getnat "Type" j ;; vj <- get "Value" j ;; v <- dec_const_value vj ;;
  i <- getnat "Init" j ;; a <- getbool "IsAbstract" j ;; Ok (mkconst n t v i a).

Definition dec_resource_binding (j : json) : res (Z * Z) :=
  g <- getnum "Group" j ;; b <- getnum "Binding" j ;; Ok (g, b).

Definition dec_global (j : json) : res global_var :=
  n <- getstr "Name" j ;; s <- getnum "Space" j ;; s' <- dec_space s ;;
  b <- getopt "Binding" dec_resource_binding j ;; t <- getnat "Type" j ;;
  i <- getopt "Init" jnat j ;; ie <- getopt "InitExpr" jnat j ;; a <- getnum "Access" j ;;
  Ok (mkglobal n s' b t i ie a).

Definition dec_override (j : json) : res override :=
  n <- getstr "Name" j ;; id <- getopt "ID" jz j ;; t <- getnat "Ty" j ;; i <- getopt "Init" jnat j ;;
  Ok (mkoverride n id t i).

Definition dec_entry_point (j : json) : res entry_point :=
  n <- getstr "Name" j ;; s <- getnum "Stage" j ;; s' <- dec_stage s ;;
  w <- getarr "Workgroup" j ;; w' <- map_res jz w ;;
  fj <- get "Function" j ;; f <- dec_func fj ;;
  Ok (mkep n s' w' f).

Definition dec_module (j : json) : res module :=
  t <- getarr "Types" j ;; t' <- map_res dec_type t ;;
  c <- getarr "Constants" j ;; c' <- map_res dec_constant c ;;
  g <- getarr "GlobalVariables" j ;; g' <- map_res dec_global g ;;
  ge <- getarr "GlobalExpressions" j ;; ge' <- map_res dec_expr ge ;;
  f <- getarr "Functions" j ;; f' <- map_res dec_func f ;;
  e <- getarr "EntryPoints" j ;; e' <- map_res dec_entry_point e ;;
  o <- getarr "Overrides" j ;; o' <- map_res dec_override o ;;
  Ok (mkmodule t' c' g' ge' f' e' o').
