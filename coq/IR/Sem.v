(* Executable semantics of the naga IR core (DESIGN 3.3), on explicit fuel.
   The arena discipline every backend relies on is what is modelled: [SEmit r]
   evaluates the expressions of r in order into a per-invocation cache; a
   [Load] reads memory when its Emit runs; call/atomic results are written to
   the cache by their statements; pure expressions that were not emitted are
   evaluated on demand.  Single invocation: barriers are no-ops, atomics are
   sequential.  Anything outside the core evaluates to [Fail] (out of fragment). *)
From Coq Require Import List ZArith String Bool.
Import ListNotations.
Require Import Naga.Base.Bits32 Naga.Base.F32 Naga.IR.Syntax Naga.IR.Values.
Open Scope string_scope.
Open Scope Z_scope.

(* data-dependent numbers are never turned into unary nats beyond BIG *)
Definition BIG : Z := 1048575.
Definition safe_nat (z : Z) : nat := Z.to_nat (Z.min z BIG).

Definition nth_res {A} (msg : string) (l : list A) (n : nat) : result A :=
  match nth_error l n with Some x => Done x | None => Fail msg end.

Fixpoint set_nth {A} (l : list A) (n : nat) (x : A) : list A :=
  match l, n with
  | [], _ => []
  | _ :: l', O => x :: l'
  | y :: l', S n' => y :: set_nth l' n' x
  end.

(* ---- zero values ---- *)
Definition zero_scalar (s : scalar) : result value :=
  match skind s with
  | Sint => if swidth s =? 4 then Done (VI32 0) else Fail "zero: i64 not modelled"
  | Uint => if swidth s =? 4 then Done (VU32 0) else Fail "zero: u64 not modelled"
  | Float => if swidth s =? 4 then Done (VF32 0) else Fail "zero: f16/f64 not modelled"
  | SBool => Done (VBool false)
  | _ => Fail "zero: abstract scalar"
  end.

Fixpoint zero_inner (fuel : nat) (types : list ty) (t : type_inner) : result value :=
  match fuel with
  | O => OutOfFuel
  | S f =>
    let zero_h (h : nat) := ty <~ nth_res "zero: type handle" types h ;; zero_inner f types (ty_inner ty) in
    match t with
    | TScalar s => zero_scalar s
    | TAtomic s => zero_scalar s
    | TVector n s => z <~ zero_scalar s ;; Done (VVec (repeat z (Z.to_nat n)))
    | TMatrix c r s => z <~ zero_scalar s ;; Done (VMat (repeat (VVec (repeat z (Z.to_nat r))) (Z.to_nat c)))
    | TArray b (Some n) _ =>
      if BIG <? n then Fail "zero: array too large to model"
      else z <~ zero_h b ;; Done (VArr (repeat z (Z.to_nat n)))
    | TArray _ None _ => Fail "zero: runtime-sized array"
    | TStruct ms _ => vs <~ rmap (fun m => zero_h (m_type m)) ms ;; Done (VStruct vs)
    | _ => Fail "zero: type not modelled"
    end
  end.

Definition zero_value (types : list ty) (h : nat) : result value :=
  ty <~ nth_res "zero: type handle" types h ;; zero_inner (S (List.length types)) types (ty_inner ty).

(* ---- composite access ---- *)
Definition elems (v : value) : result (list value) :=
  match v with
  | VVec l | VMat l | VArr l | VStruct l => Done l
  | _ => Fail "access: not a composite"
  end.

Definition rebuild (v : value) (l : list value) : value :=
  match v with VVec _ => VVec l | VMat _ => VMat l | VArr _ => VArr l | VStruct _ => VStruct l | _ => v end.

Definition index_value (v : value) (i : nat) : result value :=
  l <~ elems v ;; nth_res "index out of bounds" l i.

Fixpoint load_path (v : value) (p : list nat) : result value :=
  match p with
  | [] => Done v
  | i :: p' => x <~ index_value v i ;; load_path x p'
  end.

Fixpoint store_path (v : value) (p : list nat) (nv : value) : result value :=
  match p with
  | [] => Done nv
  | i :: p' =>
    l <~ elems v ;; x <~ nth_res "store: index out of bounds" l i ;;
    x' <~ store_path x p' nv ;; Done (rebuild v (set_nth l i x'))
  end.

Definition index_of_value (v : value) : result nat :=
  match v with
  | VI32 z => if z <? H32 then Done (safe_nat z) else Fail "negative index"
  | VU32 z => Done (safe_nat z)
  | _ => Fail "index: not an integer"
  end.

Definition access (base : value) (i : nat) : result value :=
  match base with
  | VPtr c p => Done (VPtr c (p ++ [i]))
  | _ => index_value base i
  end.

(* ---- compose ---- *)
Definition flatten_scalars (comps : list value) : list value :=
  flat_map (fun c => match c with VVec l => l | _ => [c] end) comps.

Fixpoint chunks (fuel : nat) (n : nat) (l : list value) : list (list value) :=
  match fuel with
  | O => []
  | S f => match l with [] => [] | _ => firstn n l :: chunks f n (skipn n l) end
  end.

Definition compose (types : list ty) (t : nat) (comps : list value) : result value :=
  ty <~ nth_res "compose: type handle" types t ;;
  match ty_inner ty with
  | TVector n _ =>
    let l := flatten_scalars comps in
    if Nat.eqb (List.length l) (Z.to_nat n) then Done (VVec l) else Fail "compose: vector arity"
  | TMatrix c r _ =>
    if Nat.eqb (List.length comps) (Z.to_nat c) then Done (VMat comps)
    else let l := flatten_scalars comps in
         if Nat.eqb (List.length l) (Z.to_nat (c * r)) then Done (VMat (map VVec (chunks (S (List.length l)) (Z.to_nat r) l)))
         else Fail "compose: matrix arity"
  | TArray _ _ _ => Done (VArr comps)
  | TStruct _ _ => Done (VStruct comps)
  | _ => Fail "compose: type"
  end.

(* ---- conversions ---- *)
Definition convert_scalar (k : scalar_kind) (v : value) : result value :=
  match k, v with
  | Sint, VI32 x => Done (VI32 x) | Sint, VU32 x => Done (VI32 x)
  | Sint, VF32 x => Done (VI32 (i32_of_f32 x)) | Sint, VBool b => Done (VI32 (u32_of_bool b))
  | Uint, VI32 x => Done (VU32 x) | Uint, VU32 x => Done (VU32 x)
  | Uint, VF32 x => Done (VU32 (u32_of_f32 x)) | Uint, VBool b => Done (VU32 (u32_of_bool b))
  | Float, VI32 x => Done (VF32 (f32_of_i32 x)) | Float, VU32 x => Done (VF32 (f32_of_u32 x))
  | Float, VF32 x => Done (VF32 x) | Float, VBool b => Done (VF32 (if b then 1065353216 else 0))
  | SBool, VI32 x => Done (VBool (bool_of_32 x)) | SBool, VU32 x => Done (VBool (bool_of_32 x))
  | SBool, VF32 x => Done (VBool (negb (feq x 0))) | SBool, VBool b => Done (VBool b)
  | _, _ => Fail "convert: kinds"
  end.

Definition bitcast_scalar (k : scalar_kind) (v : value) : result value :=
  let bits := match v with VI32 x | VU32 x | VF32 x => Some x | _ => None end in
  match bits, k with
  | Some x, Sint => Done (VI32 x)
  | Some x, Uint => Done (VU32 x)
  | Some x, Float => Done (VF32 x)
  | _, _ => Fail "bitcast: kinds"
  end.

Definition lift_mat (f : value -> result value) (v : value) : result value :=
  match v with
  | VMat cs => r <~ rmap (lift1 f) cs ;; Done (VMat r)
  | _ => lift1 f v
  end.

Definition eval_as (k : scalar_kind) (convert : option Z) (v : value) : result value :=
  match convert with
  | Some w => if w =? 4 then lift_mat (convert_scalar k) v
              else if (w =? 1) && (match k with SBool => true | _ => false end) then lift_mat (convert_scalar k) v
              else Fail "convert: width not modelled"
  | None => lift1 (bitcast_scalar k) v
  end.

(* ---- math builtins (by the name of the ir.MathFunction constant) ---- *)
Definition int1 (fi fu : Z -> Z) (v : value) : result value :=
  match v with VI32 x => Done (VI32 (fi x)) | VU32 x => Done (VU32 (fu x)) | _ => Fail "math: expected integer" end.

Definition num2 (fi fu ff : Z -> Z -> Z) (a b : value) : result value :=
  match a, b with
  | VI32 x, VI32 y => Done (VI32 (fi x y)) | VU32 x, VU32 y => Done (VU32 (fu x y))
  | VF32 x, VF32 y => Done (VF32 (ff x y)) | _, _ => Fail "math: operand kinds"
  end.

Definition float1 (ff : Z -> Z) (v : value) : result value :=
  match v with VF32 x => Done (VF32 (ff x)) | _ => Fail "math: expected f32" end.

Definition lift3 (f : value -> value -> value -> result value) (a b c : value) : result value :=
  match a, b, c with
  | VVec l1, VVec l2, VVec l3 =>
    rbind ((fix go l1 l2 l3 := match l1, l2, l3 with
       | [], [], [] => Done []
       | x :: r1, y :: r2, z :: r3 => v <~ f x y z ;; vs <~ go r1 r2 r3 ;; Done (v :: vs)
       | _, _, _ => Fail "vector length mismatch" end) l1 l2 l3) (fun vs => Done (VVec vs))
  | _, _, _ => f a b c
  end.

Definition clamp_scalar (e lo hi : value) : result value :=
  m <~ num2 max_i32 max_u32 fmax e lo ;; num2 min_i32 min_u32 fmin m hi.

Definition abs_scalar (v : value) : result value :=
  match v with
  | VI32 x => Done (VI32 (abs_i32 x)) | VU32 x => Done (VU32 x) | VF32 x => Done (VF32 (fabs x))
  | _ => Fail "abs: operand kind"
  end.

Definition sign_scalar (v : value) : result value :=
  match v with
  | VI32 x => Done (VI32 (sign_i32 x))
  | VF32 x => Done (VF32 (if is_nan_bits x then x else if flt 0 x then 1065353216 else if flt x 0 then 3212836864 else x))
  | _ => Fail "sign: operand kind"
  end.

Definition extract_scalar (e off cnt : value) : result value :=
  match e, off, cnt with
  | VI32 x, VU32 o, VU32 c => Done (VI32 (extract_bits_i32 x o c))
  | VU32 x, VU32 o, VU32 c => Done (VU32 (extract_bits_u32 x o c))
  | _, _, _ => Fail "extractBits: operand kinds"
  end.

Definition insert_scalar (e nb off cnt : value) : result value :=
  match e, nb, off, cnt with
  | VI32 x, VI32 n, VU32 o, VU32 c => Done (VI32 (insert_bits x n o c))
  | VU32 x, VU32 n, VU32 o, VU32 c => Done (VU32 (insert_bits x n o c))
  | _, _, _, _ => Fail "insertBits: operand kinds"
  end.

Definition eval_math (f : string) (args : list value) : result value :=
  match args with
  | [a] =>
    if String.eqb f "MathAbs" then lift1 abs_scalar a
    else if String.eqb f "MathSign" then lift1 sign_scalar a
    else if String.eqb f "MathCountOneBits" then lift1 (int1 count_one_bits count_one_bits) a
    else if String.eqb f "MathCountLeadingZeros" then lift1 (int1 count_leading_zeros count_leading_zeros) a
    else if String.eqb f "MathCountTrailingZeros" then lift1 (int1 count_trailing_zeros count_trailing_zeros) a
    else if String.eqb f "MathReverseBits" then lift1 (int1 reverse_bits reverse_bits) a
    else if String.eqb f "MathFirstLeadingBit" then lift1 (int1 first_leading_bit_i32 first_leading_bit_u32) a
    else if String.eqb f "MathFirstTrailingBit" then lift1 (int1 first_trailing_bit first_trailing_bit) a
    else if String.eqb f "MathFloor" then lift1 (float1 ffloor) a
    else if String.eqb f "MathCeil" then lift1 (float1 fceil) a
    else if String.eqb f "MathTrunc" then lift1 (float1 ftrunc) a
    else if String.eqb f "MathRound" then lift1 (float1 fround) a
    else if String.eqb f "MathSqrt" then lift1 (float1 fsqrt) a
    else if String.eqb f "MathSaturate" then lift1 (fun x => clamp_scalar x (VF32 0) (VF32 1065353216)) a
    else Fail ("math function not modelled: " ++ f)
  | [a; b] =>
    if String.eqb f "MathMin" then lift2 (num2 min_i32 min_u32 fmin) a b
    else if String.eqb f "MathMax" then lift2 (num2 max_i32 max_u32 fmax) a b
    else if String.eqb f "MathDot" then
      match a, b with VVec l1, VVec l2 => dot_vals l1 l2 | _, _ => Fail "dot: operands" end
    else Fail ("math function not modelled: " ++ f)
  | [a; b; c] =>
    if String.eqb f "MathClamp" then lift3 clamp_scalar a b c
    else if String.eqb f "MathFma" then
      lift3 (fun x y z => match x, y, z with VF32 p, VF32 q, VF32 r => Done (VF32 (ffma p q r)) | _, _, _ => Fail "fma: operands" end) a b c
    else if String.eqb f "MathExtractBits" then
      match a with
      | VVec l => vs <~ rmap (fun x => extract_scalar x b c) l ;; Done (VVec vs)
      | _ => extract_scalar a b c
      end
    else Fail ("math function not modelled: " ++ f)
  | [a; b; c; d] =>
    if String.eqb f "MathInsertBits" then
      match a, b with
      | VVec l1, VVec l2 => vs <~ zip_res (fun x y => insert_scalar x y c d) l1 l2 ;; Done (VVec vs)
      | _, _ => insert_scalar a b c d
      end
    else Fail ("math function not modelled: " ++ f)
  | _ => Fail "math: arity"
  end.

(* ---- unary / binary / select / relational ---- *)
Definition eval_unary (o : unop) (v : value) : result value :=
  match o with
  | UNegate => lift_mat neg_scalar v
  | ULogicalNot => lift1 lognot_scalar v
  | UBitwiseNot => lift1 bitnot_scalar v
  end.

Definition eval_binary (o : binop) (a b : value) : result value :=
  match o with
  | BAdd => addsub_value OAdd a b
  | BSub => addsub_value OSub a b
  | BMul => mul_value a b
  | BDiv => lift2 (arith_scalar ODiv) a b
  | BMod => lift2 (arith_scalar ORem) a b
  | BEq => lift2 (cmp_scalar CEq) a b | BNe => lift2 (cmp_scalar CNe) a b
  | BLt => lift2 (cmp_scalar CLt) a b | BLe => lift2 (cmp_scalar CLe) a b
  | BGt => lift2 (cmp_scalar CGt) a b | BGe => lift2 (cmp_scalar CGe) a b
  | BAnd => lift2 (bit_scalar OAnd) a b | BOr => lift2 (bit_scalar OOr) a b | BXor => lift2 (bit_scalar OXor) a b
  | BLogicalAnd => lift2 (bit_scalar OAnd) a b
  | BLogicalOr => lift2 (bit_scalar OOr) a b
  | BShl => lift2 shl_scalar a b
  | BShr => lift2 shr_scalar a b
  end.

Definition eval_select (c a r : value) : result value :=
  match c with
  | VBool b => Done (if b then a else r)
  | VVec cs =>
    match a, r with
    | VVec la, VVec lr =>
      rbind ((fix go cs la lr := match cs, la, lr with
         | [], [], [] => Done []
         | VBool b :: cs', x :: la', y :: lr' => vs <~ go cs' la' lr' ;; Done ((if b then x else y) :: vs)
         | _, _, _ => Fail "select: shapes" end) cs la lr) (fun vs => Done (VVec vs))
    | _, _ => Fail "select: shapes"
    end
  | _ => Fail "select: condition"
  end.

Definition bools_of (v : value) : result (list bool) :=
  match v with
  | VBool b => Done [b]
  | VVec l => rmap (fun x => match x with VBool b => Done b | _ => Fail "expected bool" end) l
  | _ => Fail "expected bool vector"
  end.

Definition eval_relational (f : relfun) (v : value) : result value :=
  match f with
  | RAll => bs <~ bools_of v ;; Done (VBool (forallb (fun b => b) bs))
  | RAny => bs <~ bools_of v ;; Done (VBool (existsb (fun b => b) bs))
  | RIsNan => lift1 (fun x => match x with VF32 z => Done (VBool (is_nan_bits z)) | _ => Fail "isNan: operand" end) v
  | RIsInf => lift1 (fun x => match x with VF32 z => Done (VBool (is_inf_bits z)) | _ => Fail "isInf: operand" end) v
  end.

Definition value_of_literal (l : literal) : result value :=
  match l with
  | LF32 b => Done (VF32 b) | LU32 b => Done (VU32 b) | LI32 b => Done (VI32 b) | LBool b => Done (VBool b)
  | _ => Fail "literal kind not modelled (f16/f64/i64/abstract)"
  end.

(* ---- expression evaluation, parameterised by how operands are obtained ---- *)
Section Eval.
Variable m : module.
Variable get : nat -> result value.            (* value of an operand handle *)
Variable const_value : nat -> result value.    (* value of module constant c *)
Variable args : list value.
Variable locals : list nat.                    (* memory cell of each local variable *)
Variable mem : list value.

Definition eval_expr (e : expr) : result value :=
  match e with
  | ELiteral l => value_of_literal l
  | EConstant c => const_value c
  | EOverride _ => Fail "unresolved override"
  | EZeroValue t => zero_value (m_types m) t
  | ECompose t cs => vs <~ rmap get cs ;; compose (m_types m) t vs
  | EAccess b i => bv <~ get b ;; iv <~ get i ;; n <~ index_of_value iv ;; access bv n
  | EAccessIndex b i => bv <~ get b ;; access bv (safe_nat i)
  | ESplat n v => x <~ get v ;; Done (VVec (repeat x (safe_nat (Z.min n 4))))
  | ESwizzle n v pat =>
    x <~ get v ;; l <~ vec_elems x ;;
    vs <~ rmap (fun i => nth_res "swizzle component" l (safe_nat i)) (firstn (safe_nat n) pat) ;; Done (VVec vs)
  | EFunctionArgument i => nth_res "function argument" args i
  | EGlobalVariable g =>
    gv <~ nth_res "global handle" (m_globals m) g ;;
    match g_space gv with
    | SpHandle => Fail "handle-space global (texture/sampler) not modelled"
    | _ => Done (VPtr g [])
    end
  | ELocalVariable l => c <~ nth_res "local variable" locals l ;; Done (VPtr c [])
  | ELoad p =>
    pv <~ get p ;;
    match pv with
    | VPtr c path => cell <~ nth_res "load: cell" mem c ;; load_path cell path
    | _ => Fail "load: not a pointer"
    end
  | EUnary o x => v <~ get x ;; eval_unary o v
  | EBinary o l r => a <~ get l ;; b <~ get r ;; eval_binary o a b
  | ESelect c a r => cv <~ get c ;; av <~ get a ;; rv <~ get r ;; eval_select cv av rv
  | ERelational f a => v <~ get a ;; eval_relational f v
  | EMath f xs => vs <~ rmap get xs ;; eval_math f vs
  | EAs x k conv => v <~ get x ;; eval_as k conv v
  | ECallResult _ => Fail "call result read before its call"
  | EArrayLength a =>
    pv <~ get a ;;
    match pv with
    | VPtr c path => cell <~ nth_res "arrayLength: cell" mem c ;; v <~ load_path cell path ;;
                     l <~ elems v ;; Done (VU32 (Z.of_nat (List.length l)))
    | _ => Fail "arrayLength: not a pointer"
    end
  | EAtomicResult _ _ => Fail "atomic result read before its atomic"
  | EOther t _ => Fail ("expression kind not modelled: " ++ t)
  end.
End Eval.

(* expressions that may be evaluated on demand (no memory read, no statement result) *)
Definition pure_kind (e : expr) : bool :=
  match e with
  | ELoad _ | ECallResult _ | EAtomicResult _ _ | EArrayLength _ | EOther _ _ => false
  | _ => true
  end.

(* module constants and global initialisers: GlobalExpressions arena *)
Fixpoint eval_global_expr (fuel : nat) (m : module) (i : nat) : result value :=
  match fuel with
  | O => OutOfFuel
  | S f =>
    e <~ nth_res "global expression handle" (m_global_exprs m) i ;;
    eval_expr m (eval_global_expr f m)
              (fun c => k <~ nth_res "constant handle" (m_constants m) c ;; eval_global_expr f m (c_init k))
              [] [] [] e
  end.

Definition const_value_of (m : module) (c : nat) : result value :=
  k <~ nth_res "constant handle" (m_constants m) c ;;
  eval_global_expr (S (List.length (m_global_exprs m))) m (c_init k).

Record frame := mkframe { fr_cache : list (option value); fr_args : list value; fr_locals : list nat }.

Fixpoint eval_handle (fuel : nat) (m : module) (f : func) (fr : frame) (mem : list value) (h : nat) : result value :=
  match nth_error (fr_cache fr) h with
  | Some (Some v) => Done v
  | _ =>
    match fuel with
    | O => OutOfFuel
    | S fu =>
      e <~ nth_res "expression handle" (f_exprs f) h ;;
      if pure_kind e then
        eval_expr m (eval_handle fu m f fr mem) (const_value_of m) (fr_args fr) (fr_locals fr) mem e
      else Fail "use of an expression that was not evaluated by an Emit"
    end
  end.

Definition operand (m : module) (f : func) (fr : frame) (mem : list value) (h : nat) : result value :=
  eval_handle (S (List.length (f_exprs f))) m f fr mem h.

Definition set_cache (fr : frame) (h : nat) (v : value) : frame :=
  mkframe (set_nth (fr_cache fr) h (Some v)) (fr_args fr) (fr_locals fr).

(* SEmit: evaluate handles start .. stop-1 in order *)
Fixpoint emit_range (n : nat) (m : module) (f : func) (fr : frame) (mem : list value) (h : nat) : result frame :=
  match n with
  | O => Done fr
  | S n' =>
    e <~ nth_res "emit: expression handle" (f_exprs f) h ;;
    v <~ eval_expr m (operand m f fr mem) (const_value_of m) (fr_args fr) (fr_locals fr) mem e ;;
    emit_range n' m f (set_cache fr h v) mem (S h)
  end.

Inductive outcome := ONormal | OBreak | OContinue | OReturn (v : option value) | OKill.

Definition store_mem (mem : list value) (p v : value) : result (list value) :=
  match p with
  | VPtr c path =>
    cell <~ nth_res "store: cell" mem c ;; cell' <~ store_path cell path v ;; Done (set_nth mem c cell')
  | _ => Fail "store: not a pointer"
  end.

Definition atomic_new (fn : string) (old v : value) : result (option value) :=
  if String.eqb fn "AtomicAdd" then r <~ arith_scalar OAdd old v ;; Done (Some r)
  else if String.eqb fn "AtomicSubtract" then r <~ arith_scalar OSub old v ;; Done (Some r)
  else if String.eqb fn "AtomicAnd" then r <~ bit_scalar OAnd old v ;; Done (Some r)
  else if String.eqb fn "AtomicInclusiveOr" then r <~ bit_scalar OOr old v ;; Done (Some r)
  else if String.eqb fn "AtomicExclusiveOr" then r <~ bit_scalar OXor old v ;; Done (Some r)
  else if String.eqb fn "AtomicMin" then r <~ num2 min_i32 min_u32 fmin old v ;; Done (Some r)
  else if String.eqb fn "AtomicMax" then r <~ num2 max_i32 max_u32 fmax old v ;; Done (Some r)
  else if String.eqb fn "AtomicExchange" then Done (Some v)
  else if String.eqb fn "AtomicStore" then Done (Some v)
  else if String.eqb fn "AtomicLoad" then Done None
  else Fail ("atomic function not modelled: " ++ fn).

Definition switch_matches (sv : switch_value) (sel : value) : bool :=
  match sv, sel with
  | SVI32 b, VI32 x => b =? x
  | SVU32 b, VU32 x => b =? x
  | SVI32 b, VU32 x => b =? x
  | SVU32 b, VI32 x => b =? x
  | _, _ => false
  end.

Fixpoint find_case (cases : list (switch_value * list stmt * bool)) (sel : value) (i : nat) : option nat :=
  match cases with
  | [] => None
  | (sv, _, _) :: cs => if switch_matches sv sel then Some i else find_case cs sel (S i)
  end.
Fixpoint find_default (cases : list (switch_value * list stmt * bool)) (i : nat) : option nat :=
  match cases with
  | [] => None
  | (SVDefault, _, _) :: _ => Some i
  | _ :: cs => find_default cs (S i)
  end.

Fixpoint alloc_locals (m : module) (f : func) (ls : list local_var) (fr : frame) (mem : list value)
  : result (frame * list value) :=
  match ls with
  | [] => Done (fr, mem)
  | l :: ls' =>
    v <~ match lv_init l with
         | Some h => operand m f fr mem h
         | None => zero_value (m_types m) (lv_type l)
         end ;;
    alloc_locals m f ls' (mkframe (fr_cache fr) (fr_args fr) (fr_locals fr ++ [List.length mem])) (mem ++ [v])
  end.

Fixpoint exec_block (fuel : nat) (m : module) (f : func) (b : list stmt) (fr : frame) (mem : list value)
  {struct fuel} : result (outcome * frame * list value) :=
  match fuel with
  | O => OutOfFuel
  | S fu =>
    match b with
    | [] => Done (ONormal, fr, mem)
    | s :: rest =>
      r <~ exec_stmt fu m f s fr mem ;;
      let '(o, fr', mem') := r in
      match o with
      | ONormal => exec_block fu m f rest fr' mem'
      | _ => Done (o, fr', mem')
      end
    end
  end
with exec_stmt (fuel : nat) (m : module) (f : func) (s : stmt) (fr : frame) (mem : list value)
  {struct fuel} : result (outcome * frame * list value) :=
  match fuel with
  | O => OutOfFuel
  | S fu =>
    match s with
    | SEmit a b => fr' <~ emit_range (b - a) m f fr mem a ;; Done (ONormal, fr', mem)
    | SBlock blk => exec_block fu m f blk fr mem
    | SIf c acc rej =>
      cv <~ operand m f fr mem c ;;
      match cv with
      | VBool true => exec_block fu m f acc fr mem
      | VBool false => exec_block fu m f rej fr mem
      | _ => Fail "if: condition is not a bool"
      end
    | SSwitch sel cases =>
      sv <~ operand m f fr mem sel ;;
      match (match find_case cases sv 0 with Some i => Some i | None => find_default cases 0 end) with
      | None => Done (ONormal, fr, mem)
      | Some i => r <~ exec_cases fu m f (skipn i cases) fr mem ;;
                  let '(o, fr', mem') := r in
                  Done (match o with OBreak => ONormal | _ => o end, fr', mem')
      end
    | SLoop body cont brk => exec_loop fu m f body cont brk fr mem
    | SBreak => Done (OBreak, fr, mem)
    | SContinue => Done (OContinue, fr, mem)
    | SReturn None => Done (OReturn None, fr, mem)
    | SReturn (Some h) => v <~ operand m f fr mem h ;; Done (OReturn (Some v), fr, mem)
    | SKill => Done (OKill, fr, mem)
    | SBarrier _ => Done (ONormal, fr, mem)
    | SStore p v =>
      pv <~ operand m f fr mem p ;; vv <~ operand m f fr mem v ;;
      mem' <~ store_mem mem pv vv ;; Done (ONormal, fr, mem')
    | SAtomic p fn cmp v res =>
      match cmp with
      | Some _ => Fail "atomicCompareExchangeWeak not modelled"
      | None =>
        pv <~ operand m f fr mem p ;; vv <~ operand m f fr mem v ;;
        match pv with
        | VPtr c path =>
          cell <~ nth_res "atomic: cell" mem c ;; old <~ load_path cell path ;;
          nw <~ atomic_new fn old vv ;;
          mem' <~ match nw with Some x => store_mem mem pv x | None => Done mem end ;;
          Done (ONormal, match res with Some h => set_cache fr h old | None => fr end, mem')
        | _ => Fail "atomic: not a pointer"
        end
      end
    | SCall fn args res =>
      vs <~ rmap (operand m f fr mem) args ;;
      r <~ call_function fu m fn vs mem ;;
      let '(ret, mem') := r in
      match res, ret with
      | Some h, Some v => Done (ONormal, set_cache fr h v, mem')
      | None, _ => Done (ONormal, fr, mem')
      | Some _, None => Fail "call: callee returned no value"
      end
    | SOther t _ => Fail ("statement kind not modelled: " ++ t)
    end
  end
with exec_cases (fuel : nat) (m : module) (f : func) (cases : list (switch_value * list stmt * bool))
                (fr : frame) (mem : list value) {struct fuel} : result (outcome * frame * list value) :=
  match fuel with
  | O => OutOfFuel
  | S fu =>
    match cases with
    | [] => Done (ONormal, fr, mem)
    | (_, body, fallthrough) :: rest =>
      r <~ exec_block fu m f body fr mem ;;
      let '(o, fr', mem') := r in
      match o with
      | ONormal => if fallthrough then exec_cases fu m f rest fr' mem' else Done (ONormal, fr', mem')
      | _ => Done (o, fr', mem')
      end
    end
  end
with exec_loop (fuel : nat) (m : module) (f : func) (body cont : list stmt) (brk : option nat)
               (fr : frame) (mem : list value) {struct fuel} : result (outcome * frame * list value) :=
  match fuel with
  | O => OutOfFuel
  | S fu =>
    r <~ exec_block fu m f body fr mem ;;
    let '(o, fr1, mem1) := r in
    match o with
    | OBreak => Done (ONormal, fr1, mem1)
    | OReturn _ | OKill => Done (o, fr1, mem1)
    | ONormal | OContinue =>
      r2 <~ exec_block fu m f cont fr1 mem1 ;;
      let '(o2, fr2, mem2) := r2 in
      match o2 with
      | ONormal =>
        match brk with
        | None => exec_loop fu m f body cont brk fr2 mem2
        | Some h =>
          bv <~ operand m f fr2 mem2 h ;;
          match bv with
          | VBool true => Done (ONormal, fr2, mem2)
          | VBool false => exec_loop fu m f body cont brk fr2 mem2
          | _ => Fail "break if: not a bool"
          end
        end
      | OReturn _ | OKill => Done (o2, fr2, mem2)
      | _ => Fail "break/continue escaping a continuing block"
      end
    end
  end
with call_function (fuel : nat) (m : module) (fi : nat) (args : list value) (mem : list value)
  {struct fuel} : result (option value * list value) :=
  match fuel with
  | O => OutOfFuel
  | S fu =>
    f <~ nth_res "function handle" (m_functions m) fi ;;
    run_function fu m f args mem
  end
with run_function (fuel : nat) (m : module) (f : func) (args : list value) (mem : list value)
  {struct fuel} : result (option value * list value) :=
  match fuel with
  | O => OutOfFuel
  | S fu =>
    let fr0 := mkframe (repeat None (List.length (f_exprs f))) args [] in
    a <~ alloc_locals m f (f_locals f) fr0 mem ;;
    let '(fr, mem0) := a in
    r <~ exec_block fu m f (f_body f) fr mem0 ;;
    let '(o, _, mem1) := r in
    match o with
    | OReturn v => Done (v, mem1)
    | ONormal => Done (None, mem1)
    | OKill => Done (None, mem1)
    | _ => Fail "break/continue escaping a function"
    end
  end.

(* ---- entry points ---- *)

(* initial value of a global the harness did not supply: initialiser or zero *)
Definition default_global (m : module) (g : global_var) : result value :=
  match g_init_expr g with
  | Some i => eval_global_expr (S (List.length (m_global_exprs m))) m i
  | None =>
    match g_init g with
    | Some c => const_value_of m c
    | None => zero_value (m_types m) (g_type g)
    end
  end.

Fixpoint init_globals (m : module) (gs : list global_var) (given : list (option value)) : result (list value) :=
  match gs with
  | [] => Done []
  | g :: gs' =>
    v <~ match given with
         | Some v :: _ => Done v
         | _ => match g_space g with
                | SpHandle => Done (VBool false)       (* placeholder cell; reading it fails in eval_expr *)
                | _ => default_global m g
                end
         end ;;
    vs <~ init_globals m gs' (tl given) ;; Done (v :: vs)
  end.

(* run entry point [ep] with the given global contents and argument values;
   result: the contents of every global cell afterwards and the returned value *)
Definition run_entry (fuel : nat) (m : module) (ep : nat) (globals : list (option value)) (args : list value)
  : result (list value * option value) :=
  e <~ nth_res "entry point index" (m_entry_points m) ep ;;
  mem0 <~ init_globals m (m_globals m) globals ;;
  r <~ run_function fuel m (ep_func e) args mem0 ;;
  let '(ret, mem1) := r in
  Done (firstn (List.length (m_globals m)) mem1, ret).
