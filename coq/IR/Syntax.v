(* naga IR (package ir: ir.go, expression.go, statement.go) as Gallina data.
   Shared by the IR well-formedness checker (C09), the validator model (C08),
   interface derivation (C17), pass validation (C13) and the IR semantics
   (C01, C03-05, C13-15).  Handles are list indices (nat).  32-bit integer
   payloads are bit patterns in [0,2^32) (Base/Bits32); floats are IEEE bit
   patterns.  Kinds outside the core are kept generically as [EOther]/[SOther]
   with the handles they reference, so structural checks still see them. *)
From Coq Require Import List ZArith String Bool.
Import ListNotations.
Open Scope Z_scope.

Inductive scalar_kind := Sint | Uint | Float | SBool | AbstractInt | AbstractFloat.
Record scalar := mkscalar { skind : scalar_kind; swidth : Z }.   (* width in bytes *)

Inductive addr_space :=
| SpFunction | SpPrivate | SpWorkGroup | SpUniform | SpStorage | SpPushConstant | SpHandle | SpImmediate | SpTaskPayload.

Record interpolation := mkinterp { ikind : Z; isampling : Z }.

Inductive binding :=
| BBuiltin (builtin : string) (invariant : bool)          (* name of the ir.BuiltinValue constant *)
| BLocation (location : Z) (interp : option interpolation) (blend_src : option Z).

Record struct_member := mkmember { m_name : string; m_type : nat; m_binding : option binding; m_offset : Z }.

Inductive type_inner :=
| TScalar (s : scalar)
| TVector (size : Z) (s : scalar)
| TMatrix (cols rows : Z) (s : scalar)
| TArray (base : nat) (size : option Z) (stride : Z)        (* None = runtime-sized *)
| TStruct (members : list struct_member) (span : Z)
| TPointer (base : nat) (space : addr_space)
| TValuePointer (size : option Z) (s : scalar) (space : addr_space)
| TAtomic (s : scalar)
| TBindingArray (base : nat) (size : option Z)
| TOther (tag : string).                                   (* sampler, image, acceleration structure, ray query *)

Record ty := mkty { ty_name : string; ty_inner : type_inner }.

Inductive type_resolution := RHandle (h : nat) | RValue (t : type_inner) | RNone.   (* RNone: the lowerer recorded no type *)

Inductive literal :=
| LF64 (bits : Z) | LF32 (bits : Z) | LF16 (f32bits : Z)
| LU32 (bits : Z) | LI32 (bits : Z) | LU64 (bits : Z) | LI64 (bits : Z)
| LBool (b : bool) | LAbstractInt (v : Z) | LAbstractFloat (bits : Z).

Inductive unop := UNegate | ULogicalNot | UBitwiseNot.

Inductive binop :=
| BAdd | BSub | BMul | BDiv | BMod
| BEq | BNe | BLt | BLe | BGt | BGe
| BAnd | BXor | BOr | BLogicalAnd | BLogicalOr | BShl | BShr.

Inductive relfun := RAll | RAny | RIsNan | RIsInf.

Inductive expr :=
| ELiteral (l : literal)
| EConstant (c : nat)
| EOverride (o : nat)
| EZeroValue (t : nat)
| ECompose (t : nat) (components : list nat)
| EAccess (base index : nat)
| EAccessIndex (base : nat) (index : Z)
| ESplat (size : Z) (value : nat)
| ESwizzle (size : Z) (vector : nat) (pattern : list Z)     (* 4 components, first [size] meaningful *)
| EFunctionArgument (index : nat)
| EGlobalVariable (g : nat)
| ELocalVariable (l : nat)
| ELoad (pointer : nat)
| EUnary (op : unop) (e : nat)
| EBinary (op : binop) (l r : nat)
| ESelect (cond accept reject : nat)
| ERelational (f : relfun) (arg : nat)
| EMath (f : string) (args : list nat)                     (* name of the ir.MathFunction constant; 1-4 args *)
| EAs (e : nat) (kind : scalar_kind) (convert : option Z)  (* Some width = conversion, None = bitcast *)
| ECallResult (f : nat)
| EArrayLength (e : nat)
| EAtomicResult (t : nat) (comparison : bool)
| EOther (tag : string) (refs : list nat).                 (* image ops, derivatives, subgroup, ray query, phi, alias, ... *)

Inductive switch_value := SVI32 (bits : Z) | SVU32 (bits : Z) | SVDefault.

Inductive stmt :=
| SEmit (start stop : nat)                                 (* range [start, stop) *)
| SBlock (b : list stmt)
| SIf (cond : nat) (accept reject : list stmt)
| SSwitch (selector : nat) (cases : list (switch_value * list stmt * bool))   (* value, body, fallthrough *)
| SLoop (body continuing : list stmt) (break_if : option nat)
| SBreak
| SContinue
| SReturn (value : option nat)
| SKill
| SBarrier (flags : Z)
| SStore (pointer value : nat)
| SAtomic (pointer : nat) (f : string) (compare : option nat) (value : nat) (result : option nat)
| SCall (f : nat) (args : list nat) (result : option nat)
| SOther (tag : string) (refs : list nat).                 (* image store/atomic, workgroup uniform load, ray query, subgroup *)

Record local_var := mklocal { lv_name : string; lv_type : nat; lv_init : option nat }.
Record fn_arg := mkarg { fa_name : string; fa_type : nat; fa_binding : option binding }.
Record fn_result := mkres { fr_type : nat; fr_binding : option binding }.

Record func := mkfunc {
  f_name : string;
  f_args : list fn_arg;
  f_result : option fn_result;
  f_locals : list local_var;
  f_exprs : list expr;
  f_expr_types : list type_resolution;
  f_body : list stmt;
  f_named : list (nat * string) }.

Inductive const_value := CVScalar (bits : Z) (k : scalar_kind) | CVComposite (components : list nat) | CVZero | CVNone.

Record constant := mkconst { c_name : string; c_type : nat; c_value : const_value; c_init : nat; c_abstract : bool }.

Record global_var := mkglobal {
  g_name : string; g_space : addr_space; g_binding : option (Z * Z);   (* group, binding *)
  g_type : nat; g_init : option nat; g_init_expr : option nat; g_access : Z }.

Record override := mkoverride { o_name : string; o_id : option Z; o_type : nat; o_init : option nat }.

Inductive stage := StVertex | StFragment | StCompute | StOther (name : string).

Record entry_point := mkep {
  ep_name : string; ep_stage : stage; ep_workgroup : list Z; ep_func : func }.

Record module := mkmodule {
  m_types : list ty;
  m_constants : list constant;
  m_globals : list global_var;
  m_global_exprs : list expr;
  m_functions : list func;
  m_entry_points : list entry_point;
  m_overrides : list override }.

(* ---- generic traversals ---- *)

(* expression handles referenced by an expression *)
Definition expr_refs (e : expr) : list nat :=
  match e with
  | ELiteral _ | EConstant _ | EOverride _ | EZeroValue _ | EFunctionArgument _
  | EGlobalVariable _ | ELocalVariable _ | ECallResult _ | EAtomicResult _ _ => []
  | ECompose _ cs => cs
  | EAccess b i => [b; i]
  | EAccessIndex b _ => [b]
  | ESplat _ v => [v]
  | ESwizzle _ v _ => [v]
  | ELoad p => [p]
  | EUnary _ e => [e]
  | EBinary _ l r => [l; r]
  | ESelect c a r => [c; a; r]
  | ERelational _ a => [a]
  | EMath _ args => args
  | EAs e _ _ => [e]
  | EArrayLength e => [e]
  | EOther _ refs => refs
  end.

Definition opt_list {A} (o : option A) : list A := match o with Some x => [x] | None => [] end.

(* expression handles referenced directly by a statement (not by nested blocks) *)
Definition stmt_refs (s : stmt) : list nat :=
  match s with
  | SEmit _ _ | SBlock _ | SBreak | SContinue | SKill | SBarrier _ => []
  | SIf c _ _ => [c]
  | SSwitch sel _ => [sel]
  | SLoop _ _ b => opt_list b
  | SReturn v => opt_list v
  | SStore p v => [p; v]
  | SAtomic p _ c v r => p :: opt_list c ++ v :: opt_list r
  | SCall _ args r => args ++ opt_list r
  | SOther _ refs => refs
  end.

(* size of a statement tree: fuel that always suffices for structural traversals *)
Fixpoint stmt_size (s : stmt) : nat :=
  let fix block_size (b : list stmt) : nat :=
    match b with [] => O | x :: b' => (stmt_size x + block_size b')%nat end in
  S (match s with
     | SBlock b => block_size b
     | SIf _ a r => (block_size a + block_size r)%nat
     | SSwitch _ cases =>
       (fix cases_size (cs : list (switch_value * list stmt * bool)) : nat :=
          match cs with [] => O | (_, b, _) :: cs' => (block_size b + cases_size cs')%nat end) cases
     | SLoop b c _ => (block_size b + block_size c)%nat
     | _ => O
     end).

Fixpoint block_size (b : list stmt) : nat :=
  match b with [] => O | x :: b' => (stmt_size x + block_size b')%nat end.
