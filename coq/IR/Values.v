(* Run-time values shared by the IR, SPIR-V and text-target semantics, and the
   WGSL meaning of operators on them (integers: Base/Bits32; f32: Base/F32). *)
From Coq Require Import List ZArith String Bool.
Import ListNotations.
Require Import Naga.Base.Bits32 Naga.Base.F32 Naga.Base.Json.
Open Scope Z_scope.

Inductive value :=
| VBool (b : bool)
| VI32 (bits : Z)
| VU32 (bits : Z)
| VF32 (bits : Z)
| VVec (l : list value)
| VMat (cols : list value)          (* each column a VVec *)
| VArr (l : list value)
| VStruct (l : list value)
| VPtr (cell : nat) (path : list nat).

Inductive result (A : Type) := Done (a : A) | OutOfFuel | Fail (msg : string).
Arguments Done {A} a.
Arguments OutOfFuel {A}.
Arguments Fail {A} msg.

Definition rbind {A B} (r : result A) (f : A -> result B) : result B :=
  match r with Done a => f a | OutOfFuel => OutOfFuel | Fail m => Fail m end.
Notation "x <~ e1 ;; e2" := (rbind e1 (fun x => e2)) (at level 61, e1 at next level, right associativity).

Fixpoint rmap {A B} (f : A -> result B) (l : list A) : result (list B) :=
  match l with
  | [] => Done []
  | x :: l' => y <~ f x ;; ys <~ rmap f l' ;; Done (y :: ys)
  end.

Definition of_option {A} (msg : string) (o : option A) : result A :=
  match o with Some a => Done a | None => Fail msg end.

(* ---- value equality (bit-exact; all NaNs are already canonical 0x7FC00000) ---- *)
Fixpoint value_eqb (a b : value) {struct a} : bool :=
  let fix list_eqb (l1 l2 : list value) {struct l1} : bool :=
      match l1, l2 with
      | [], [] => true
      | x :: l1', y :: l2' => value_eqb x y && list_eqb l1' l2'
      | _, _ => false
      end in
  match a, b with
  | VBool x, VBool y => Bool.eqb x y
  | VI32 x, VI32 y | VU32 x, VU32 y | VF32 x, VF32 y => x =? y
  | VVec x, VVec y | VMat x, VMat y | VArr x, VArr y | VStruct x, VStruct y => list_eqb x y
  | VPtr c p, VPtr c' p' => Nat.eqb c c' && (fix nl (l1 l2 : list nat) := match l1, l2 with
                              | [], [] => true | x :: a', y :: b' => Nat.eqb x y && nl a' b' | _, _ => false end) p p'
  | _, _ => false
  end.

(* ---- scalar operators ---- *)
Open Scope string_scope.
Open Scope Z_scope.

Inductive arith := OAdd | OSub | OMul | ODiv | ORem.
Inductive cmp := CEq | CNe | CLt | CLe | CGt | CGe.
Inductive bitop := OAnd | OOr | OXor.

Definition kind_tag (v : value) : string :=
  match v with
  | VBool _ => "bool" | VI32 _ => "i32" | VU32 _ => "u32" | VF32 _ => "f32" | VVec _ => "vec" | VMat _ => "mat"
  | VArr _ => "arr" | VStruct _ => "struct" | VPtr _ _ => "ptr"
  end.

Definition arith_scalar (o : arith) (a b : value) : result value :=
  match a, b with
  | VI32 x, VI32 y =>
    Done (VI32 (match o with OAdd => add32 x y | OSub => sub32 x y | OMul => mul32 x y
                           | ODiv => div_i32 x y | ORem => rem_i32 x y end))
  | VU32 x, VU32 y =>
    Done (VU32 (match o with OAdd => add32 x y | OSub => sub32 x y | OMul => mul32 x y
                           | ODiv => div_u32 x y | ORem => rem_u32 x y end))
  | VF32 x, VF32 y =>
    match o with
    | OAdd => Done (VF32 (fadd x y)) | OSub => Done (VF32 (fsub x y)) | OMul => Done (VF32 (fmul x y))
    | ODiv => Done (VF32 (fdiv x y))
    | ORem => Fail "f32 % (truncated remainder) not modelled"
    end
  | _, _ => Fail ("arith: operand kinds " ++ kind_tag a ++ "," ++ kind_tag b)%string
  end.

Definition cmp_scalar (o : cmp) (a b : value) : result value :=
  match a, b with
  | VI32 x, VI32 y =>
    Done (VBool (match o with CEq => x =? y | CNe => negb (x =? y) | CLt => lt_i32 x y | CLe => le_i32 x y
                            | CGt => lt_i32 y x | CGe => le_i32 y x end))
  | VU32 x, VU32 y =>
    Done (VBool (match o with CEq => x =? y | CNe => negb (x =? y) | CLt => lt_u32 x y | CLe => le_u32 x y
                            | CGt => lt_u32 y x | CGe => le_u32 y x end))
  | VF32 x, VF32 y =>
    Done (VBool (match o with CEq => feq x y | CNe => fne x y | CLt => flt x y | CLe => fle x y
                            | CGt => fgt x y | CGe => fge x y end))
  | VBool x, VBool y =>
    match o with CEq => Done (VBool (Bool.eqb x y)) | CNe => Done (VBool (negb (Bool.eqb x y)))
            | _ => Fail "ordering on bool" end
  | _, _ => Fail "cmp: operand kinds"
  end.

Definition bit_scalar (o : bitop) (a b : value) : result value :=
  match a, b with
  | VI32 x, VI32 y => Done (VI32 (match o with OAnd => and32 x y | OOr => or32 x y | OXor => xor32 x y end))
  | VU32 x, VU32 y => Done (VU32 (match o with OAnd => and32 x y | OOr => or32 x y | OXor => xor32 x y end))
  | VBool x, VBool y => Done (VBool (match o with OAnd => andb x y | OOr => orb x y | OXor => xorb x y end))
  | _, _ => Fail "bitop: operand kinds"
  end.

(* shifts: the right operand is always u32 *)
Definition shl_scalar (a b : value) : result value :=
  match a, b with
  | VI32 x, VU32 n => Done (VI32 (shl32 x n))
  | VU32 x, VU32 n => Done (VU32 (shl32 x n))
  | _, _ => Fail "shl: operand kinds"
  end.
Definition shr_scalar (a b : value) : result value :=
  match a, b with
  | VI32 x, VU32 n => Done (VI32 (shr_i32 x n))
  | VU32 x, VU32 n => Done (VU32 (shr_u32 x n))
  | _, _ => Fail "shr: operand kinds"
  end.

Definition neg_scalar (a : value) : result value :=
  match a with
  | VI32 x => Done (VI32 (neg32 x))
  | VF32 x => Done (VF32 (fneg x))
  | _ => Fail "negate: operand kind"
  end.
Definition lognot_scalar (a : value) : result value :=
  match a with VBool x => Done (VBool (negb x)) | _ => Fail "!: operand kind" end.
Definition bitnot_scalar (a : value) : result value :=
  match a with
  | VI32 x => Done (VI32 (not32 x)) | VU32 x => Done (VU32 (not32 x))
  | _ => Fail "~: operand kind"
  end.

(* ---- lifting to vectors (component-wise, scalar operands broadcast) ---- *)
Fixpoint zip_res (f : value -> value -> result value) (l1 l2 : list value) : result (list value) :=
  match l1, l2 with
  | [], [] => Done []
  | x :: l1', y :: l2' => v <~ f x y ;; vs <~ zip_res f l1' l2' ;; Done (v :: vs)
  | _, _ => Fail "vector length mismatch"
  end.

Definition lift2 (f : value -> value -> result value) (a b : value) : result value :=
  match a, b with
  | VVec l1, VVec l2 => vs <~ zip_res f l1 l2 ;; Done (VVec vs)
  | VVec l1, _ => vs <~ rmap (fun x => f x b) l1 ;; Done (VVec vs)
  | _, VVec l2 => vs <~ rmap (fun y => f a y) l2 ;; Done (VVec vs)
  | _, _ => f a b
  end.

Definition lift1 (f : value -> result value) (a : value) : result value :=
  match a with
  | VVec l => vs <~ rmap f l ;; Done (VVec vs)
  | _ => f a
  end.

(* ---- matrices ---- *)
Definition vec_elems (v : value) : result (list value) :=
  match v with VVec l => Done l | _ => Fail "expected vector" end.

Definition fsum (l : list value) : result value :=
  match l with
  | [] => Fail "empty sum"
  | x :: r => fold_left (fun acc y => a <~ acc ;; arith_scalar OAdd a y) r (Done x)
  end.

Definition dot_vals (a b : list value) : result value :=
  ps <~ zip_res (arith_scalar OMul) a b ;; fsum ps.

(* column-major: m = [c0; c1; ...], (m * v) = sum_j v_j * c_j, computed per row as a dot product
   in the left-to-right order of the components (the order every target uses is unspecified by WGSL;
   results are compared only on programs whose float results are exact) *)
Fixpoint transpose_lists (fuel : nat) (cols : list (list value)) : list (list value) :=
  match fuel with
  | O => []
  | S f =>
    match cols with
    | [] => []
    | [] :: _ => []
    | _ => map (fun c => hd (VBool false) c) cols :: transpose_lists f (map (fun c => tl c) cols)
    end
  end.

Definition mat_cols (m : value) : result (list (list value)) :=
  match m with VMat cs => rmap vec_elems cs | _ => Fail "expected matrix" end.

Definition mat_mul_vec (m v : value) : result value :=
  cols <~ mat_cols m ;; vs <~ vec_elems v ;;
  let rows := transpose_lists 5 cols in
  r <~ rmap (fun row => dot_vals row vs) rows ;; Done (VVec r).

Definition vec_mul_mat (v m : value) : result value :=
  cols <~ mat_cols m ;; vs <~ vec_elems v ;;
  r <~ rmap (fun col => dot_vals vs col) cols ;; Done (VVec r).

Definition mat_mul_mat (a b : value) : result value :=
  bcols <~ mat_cols b ;;
  r <~ rmap (fun bc => mat_mul_vec a (VVec bc)) bcols ;; Done (VMat r).

Definition mul_value (a b : value) : result value :=
  match a, b with
  | VMat _, VMat _ => mat_mul_mat a b
  | VMat _, VVec _ => mat_mul_vec a b
  | VVec _, VMat _ => vec_mul_mat a b
  | VMat cs, _ => r <~ rmap (fun c => lift2 (arith_scalar OMul) c b) cs ;; Done (VMat r)
  | _, VMat cs => r <~ rmap (fun c => lift2 (arith_scalar OMul) a c) cs ;; Done (VMat r)
  | _, _ => lift2 (arith_scalar OMul) a b
  end.

Definition addsub_value (o : arith) (a b : value) : result value :=
  match a, b with
  | VMat c1, VMat c2 => r <~ zip_res (lift2 (arith_scalar o)) c1 c2 ;; Done (VMat r)
  | _, _ => lift2 (arith_scalar o) a b
  end.

(* ---- JSON codec for values (harness <-> extracted interpreters) ---- *)
Fixpoint json_of_value (v : value) : json :=
  match v with
  | VBool b => JObj [("b", JBool b)]
  | VI32 z => JObj [("i", JNum z)]
  | VU32 z => JObj [("u", JNum z)]
  | VF32 z => JObj [("f", JNum z)]
  | VVec l => JObj [("vec", JArr (map json_of_value l))]
  | VMat l => JObj [("mat", JArr (map json_of_value l))]
  | VArr l => JObj [("arr", JArr (map json_of_value l))]
  | VStruct l => JObj [("st", JArr (map json_of_value l))]
  | VPtr c p => JObj [("ptr", JArr (JNum (Z.of_nat c) :: map (fun n => JNum (Z.of_nat n)) p))]
  end.

Fixpoint value_of_json (fuel : nat) (j : json) : option value :=
  match fuel with
  | O => None
  | S f =>
    let many (l : list json) := map_opt (value_of_json f) l in
    match j with
    | JObj [(k, v)] =>
      if String.eqb k "b" then match v with JBool b => Some (VBool b) | _ => None end
      else if String.eqb k "i" then match v with JNum z => Some (VI32 (z mod M32)) | _ => None end
      else if String.eqb k "u" then match v with JNum z => Some (VU32 (z mod M32)) | _ => None end
      else if String.eqb k "f" then match v with JNum z => Some (VF32 (z mod M32)) | _ => None end
      else if String.eqb k "vec" then match v with JArr l => option_map VVec (many l) | _ => None end
      else if String.eqb k "mat" then match v with JArr l => option_map VMat (many l) | _ => None end
      else if String.eqb k "arr" then match v with JArr l => option_map VArr (many l) | _ => None end
      else if String.eqb k "st" then match v with JArr l => option_map VStruct (many l) | _ => None end
      else None
    | _ => None
    end
  end.
