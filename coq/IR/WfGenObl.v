(* C09: obligations over tables regenerated from /repo on every run
   (coq/Gen/C09PreEmit.v from lower.go, coq/Gen/IrEnums.v from package ir). *)
From Coq Require Import List ZArith String Bool.
Import ListNotations.
Require Import Naga.IR.Syntax Naga.IR.Infer Naga.IR.Paths Naga.IR.Wf Naga.IR.Decode Naga.Gen.C09PreEmit Naga.Gen.IrEnums.
Open Scope string_scope.

(* one representative expression per core kind, with the Go type name of the kind *)
Definition kind_representatives : list (string * expr) :=
  [("Literal", ELiteral (LBool true)); ("ExprConstant", EConstant 0); ("ExprOverride", EOverride 0);
   ("ExprZeroValue", EZeroValue 0); ("ExprCompose", ECompose 0 []); ("ExprAccess", EAccess 0 0);
   ("ExprAccessIndex", EAccessIndex 0 0%Z); ("ExprSplat", ESplat 2%Z 0); ("ExprSwizzle", ESwizzle 2%Z 0 []);
   ("ExprFunctionArgument", EFunctionArgument 0); ("ExprGlobalVariable", EGlobalVariable 0);
   ("ExprLocalVariable", ELocalVariable 0); ("ExprLoad", ELoad 0); ("ExprUnary", EUnary UNegate 0);
   ("ExprBinary", EBinary BAdd 0 0); ("ExprSelect", ESelect 0 0 0); ("ExprRelational", ERelational RAll 0);
   ("ExprMath", EMath "MathAbs" [0%nat]); ("ExprAs", EAs 0 Sint None); ("ExprCallResult", ECallResult 0);
   ("ExprArrayLength", EArrayLength 0); ("ExprAtomicResult", EAtomicResult 0 false);
   ("ExprImageSample", EOther "ExprImageSample" []); ("ExprImageLoad", EOther "ExprImageLoad" []);
   ("ExprImageQuery", EOther "ExprImageQuery" []); ("ExprDerivative", EOther "ExprDerivative" []);
   ("ExprWorkGroupUniformLoadResult", EOther "ExprWorkGroupUniformLoadResult" []);
   ("ExprSubgroupBallotResult", EOther "ExprSubgroupBallotResult" []);
   ("ExprSubgroupOperationResult", EOther "ExprSubgroupOperationResult" [])].

(* the model's pre-emit kinds are exactly the lowerer's needsPreEmit kinds *)
Lemma gen_pre_emit_kinds_agree :
  forallb (fun p => Bool.eqb (pre_emit (snd p)) (str_in (fst p) lowerer_pre_emit_kinds)) kind_representatives = true
  /\ forallb (fun k => existsb (fun p => String.eqb k (fst p)) kind_representatives) lowerer_pre_emit_kinds = true.
Proof. vm_compute. split; reflexivity. Qed.

(* ensureBlockReturns has the shape the return analysis (Wf.outs_stmt) assumes *)
Lemma gen_return_shape :
  lowerer_return_descends = ["StmtBlock"; "StmtIf"; "StmtSwitch"] /\
  lowerer_return_terminators = ["StmtBreak"; "StmtContinue"; "StmtReturn"; "StmtKill"].
Proof. vm_compute. split; reflexivity. Qed.

(* every ir.MathFunction has a typing rule in IR/Infer.v, or is Modf/Frexp (predeclared result structs) *)
Definition math_names : list string :=
  match lookup_s "MathFunction" ir_enums with Some tbl => map snd tbl | None => [] end.

Definition math_has_rule (f : string) : bool :=
  let args := [TScalar f32_scalar; TVector 2%Z f32_scalar; TMatrix 2%Z 2%Z f32_scalar] in
  existsb (fun a => match math_type f a (Some a) with Some _ => true | None => false end) args
  || String.eqb f "MathModf" || String.eqb f "MathFrexp".

Lemma gen_math_functions_have_rules :
  negb (Nat.eqb (List.length math_names) 0) = true /\ forallb math_has_rule math_names = true.
Proof. vm_compute. split; reflexivity. Qed.
