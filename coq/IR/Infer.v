(* C09: an independently written typifier for naga IR expressions.

   Follows the rules of upstream naga's `proc::typifier::TypeResolution`
   (NOT /repo/ir/resolve.go, whose output is what the recorded
   Function.ExpressionTypes hold and what this typifier is compared with).
   Types are computed in one forward pass over the expression arena: the type
   of expression i is a function of the module, the function's arguments and
   locals, expression i itself and the types already computed for handles < i
   (theorem [infer_stable_under_append] in IR/WfProofs.v).  The result is
   always a resolved [type_inner]; [None] = "this typifier has no rule"
   (counted as `uninferred` by the check, never flagged). *)
From Coq Require Import List ZArith String Bool.
Import ListNotations.
Require Import Naga.IR.Syntax.
Open Scope string_scope.
Open Scope Z_scope.

Definition tinner (m : module) (h : nat) : option type_inner :=
  match nth_error (m_types m) h with Some t => Some (ty_inner t) | None => None end.

Definition bool_scalar : scalar := mkscalar SBool 1.
Definition u32_scalar : scalar := mkscalar Uint 4.
Definition i32_scalar : scalar := mkscalar Sint 4.
Definition f32_scalar : scalar := mkscalar Float 4.

Definition literal_scalar (l : literal) : scalar :=
  match l with
  | LF64 _ => mkscalar Float 8 | LF32 _ => mkscalar Float 4 | LF16 _ => mkscalar Float 2
  | LU32 _ => mkscalar Uint 4 | LI32 _ => mkscalar Sint 4
  | LU64 _ => mkscalar Uint 8 | LI64 _ => mkscalar Sint 8
  | LBool _ => bool_scalar
  | LAbstractInt _ => mkscalar AbstractInt 8 | LAbstractFloat _ => mkscalar AbstractFloat 8
  end.

(* what indexing a value / pointer of type [bt] with a dynamic index yields *)
Definition access_dyn (m : module) (bt : type_inner) : option type_inner :=
  match bt with
  | TArray b _ _ => tinner m b
  | TMatrix _ rows s => Some (TVector rows s)
  | TVector _ s => Some (TScalar s)
  | TValuePointer (Some _) s sp => Some (TValuePointer None s sp)
  | TBindingArray b _ => tinner m b
  | TPointer b sp =>
    match tinner m b with
    | Some (TArray b2 _ _) => Some (TPointer b2 sp)
    | Some (TVector _ s) => Some (TValuePointer None s sp)
    | Some (TMatrix _ rows s) => Some (TValuePointer (Some rows) s sp)
    | Some (TBindingArray b2 _) => Some (TPointer b2 sp)
    | _ => None
    end
  | _ => None
  end.

Definition member_type (ms : list struct_member) (idx : Z) : option nat :=
  if idx <? 0 then None
  else match nth_error ms (Z.to_nat idx) with Some mb => Some (m_type mb) | None => None end.

Definition access_const (m : module) (bt : type_inner) (idx : Z) : option type_inner :=
  match bt with
  | TStruct ms _ => match member_type ms idx with Some t => tinner m t | None => None end
  | TPointer b sp =>
    match tinner m b with
    | Some (TStruct ms _) => match member_type ms idx with Some t => Some (TPointer t sp) | None => None end
    | _ => access_dyn m bt
    end
  | _ => access_dyn m bt
  end.

Definition load_type (m : module) (pt : type_inner) : option type_inner :=
  match pt with
  | TPointer b _ =>
    match tinner m b with
    | Some (TAtomic s) => Some (TScalar s)
    | Some t => Some t
    | None => None
    end
  | TValuePointer (Some n) s _ => Some (TVector n s)
  | TValuePointer None s _ => Some (TScalar s)
  | _ => None
  end.

Definition bool_shape (t : type_inner) : option type_inner :=
  match t with
  | TScalar _ => Some (TScalar bool_scalar)
  | TVector n _ => Some (TVector n bool_scalar)
  | _ => None
  end.

Definition is_comparison (op : binop) : bool :=
  match op with BEq | BNe | BLt | BLe | BGt | BGe | BLogicalAnd | BLogicalOr => true | _ => false end.

Definition mul_type (l r : type_inner) : option type_inner :=
  match l, r with
  | TMatrix _ rows s, TMatrix c2 _ _ => Some (TMatrix c2 rows s)
  | TMatrix _ rows s, TVector _ _ => Some (TVector rows s)
  | TVector _ _, TMatrix cols _ s => Some (TVector cols s)
  | TScalar _, _ => Some r
  | _, TScalar _ => Some l
  | TVector _ _, TVector _ _ => Some l
  | _, _ => None
  end.

Definition binary_type (op : binop) (l r : type_inner) : option type_inner :=
  if is_comparison op then bool_shape l
  else match op with
       | BMul => mul_type l r
       | _ => Some l
       end.

Definition as_type (t : type_inner) (k : scalar_kind) (conv : option Z) : option type_inner :=
  let sc (s : scalar) := mkscalar k (match conv with Some w => w | None => swidth s end) in
  match t with
  | TScalar s => Some (TScalar (sc s))
  | TVector n s => Some (TVector n (sc s))
  | TMatrix c r s => Some (TMatrix c r (sc s))
  | _ => None
  end.

Definition scalar_of (t : type_inner) : option type_inner :=
  match t with
  | TScalar s => Some (TScalar s)
  | TVector _ s => Some (TScalar s)
  | _ => None
  end.

Definition str_in (s : string) (l : list string) : bool := existsb (String.eqb s) l.

Definition math_same_as_arg : list string :=
  ["MathAbs"; "MathMin"; "MathMax"; "MathClamp"; "MathSaturate"; "MathCos"; "MathCosh"; "MathSin"; "MathSinh";
   "MathTan"; "MathTanh"; "MathAcos"; "MathAsin"; "MathAtan"; "MathAtan2"; "MathAsinh"; "MathAcosh"; "MathAtanh";
   "MathRadians"; "MathDegrees"; "MathCeil"; "MathFloor"; "MathRound"; "MathFract"; "MathTrunc"; "MathLdexp";
   "MathExp"; "MathExp2"; "MathLog"; "MathLog2"; "MathPow"; "MathCross"; "MathNormalize"; "MathFaceForward";
   "MathReflect"; "MathRefract"; "MathSign"; "MathFma"; "MathMix"; "MathStep"; "MathSmoothStep"; "MathSqrt";
   "MathInverseSqrt"; "MathInverse"; "MathQuantizeF16"; "MathCountTrailingZeros"; "MathCountLeadingZeros";
   "MathCountOneBits"; "MathReverseBits"; "MathExtractBits"; "MathInsertBits"; "MathFirstTrailingBit";
   "MathFirstLeadingBit"].

Definition math_type (f : string) (a0 : type_inner) (a1 : option type_inner) : option type_inner :=
  if str_in f math_same_as_arg then Some a0
  else if str_in f ["MathDot"; "MathDistance"; "MathLength"] then scalar_of a0
  else if String.eqb f "MathDot4I8Packed" then Some (TScalar i32_scalar)
  else if String.eqb f "MathDot4U8Packed" then Some (TScalar u32_scalar)
  else if String.eqb f "MathOuter" then
    match a0, a1 with
    | TVector rows s, Some (TVector cols _) => Some (TMatrix cols rows s)
    | _, _ => None
    end
  else if String.eqb f "MathTranspose" then
    match a0 with TMatrix c r s => Some (TMatrix r c s) | _ => None end
  else if String.eqb f "MathDeterminant" then
    match a0 with TMatrix _ _ s => Some (TScalar s) | _ => None end
  else if str_in f ["MathPack4x8snorm"; "MathPack4x8unorm"; "MathPack2x16snorm"; "MathPack2x16unorm"; "MathPack2x16float";
                    "MathPack4xI8"; "MathPack4xU8"; "MathPack4xI8Clamp"; "MathPack4xU8Clamp"] then Some (TScalar u32_scalar)
  else if str_in f ["MathUnpack4x8snorm"; "MathUnpack4x8unorm"] then Some (TVector 4 f32_scalar)
  else if str_in f ["MathUnpack2x16snorm"; "MathUnpack2x16unorm"; "MathUnpack2x16float"] then Some (TVector 2 f32_scalar)
  else if String.eqb f "MathUnpack4xI8" then Some (TVector 4 i32_scalar)
  else if String.eqb f "MathUnpack4xU8" then Some (TVector 4 u32_scalar)
  else None.   (* MathModf, MathFrexp: predeclared result structs, not inferred *)

Definition is_handle_space (s : addr_space) : bool := match s with SpHandle => true | _ => false end.

(* the types of the handles computed so far *)
Definition prev_ty (prev : list (option type_inner)) (r : nat) : option type_inner :=
  match nth_error prev r with Some (Some t) => Some t | _ => None end.

Definition obind {A B} (o : option A) (k : A -> option B) : option B :=
  match o with Some a => k a | None => None end.

Definition infer_expr (m : module) (f : func) (prev : list (option type_inner)) (e : expr) : option type_inner :=
  let ty := prev_ty prev in
  match e with
  | ELiteral l => Some (TScalar (literal_scalar l))
  | EConstant c => obind (nth_error (m_constants m) c) (fun k => tinner m (c_type k))
  | EOverride o => obind (nth_error (m_overrides m) o) (fun k => tinner m (o_type k))
  | EZeroValue t => tinner m t
  | ECompose t _ => tinner m t
  | EAccess b _ => obind (ty b) (access_dyn m)
  | EAccessIndex b i => obind (ty b) (fun bt => access_const m bt i)
  | ESplat n v => obind (ty v) (fun t => match t with TScalar s => Some (TVector n s) | _ => None end)
  | ESwizzle n v _ => obind (ty v) (fun t => match t with TVector _ s => Some (TVector n s) | _ => None end)
  | EFunctionArgument i => obind (nth_error (f_args f) i) (fun a => tinner m (fa_type a))
  | EGlobalVariable g =>
    obind (nth_error (m_globals m) g)
          (fun gv => if is_handle_space (g_space gv) then tinner m (g_type gv) else Some (TPointer (g_type gv) (g_space gv)))
  | ELocalVariable l => obind (nth_error (f_locals f) l) (fun lv => Some (TPointer (lv_type lv) SpFunction))
  | ELoad p => obind (ty p) (load_type m)
  | EUnary _ x => ty x
  | EBinary op l r => obind (ty l) (fun lt => obind (ty r) (fun rt => binary_type op lt rt))
  | ESelect _ a _ => ty a
  | ERelational fn a =>
    match fn with
    | RAll | RAny => Some (TScalar bool_scalar)
    | RIsNan | RIsInf => obind (ty a) bool_shape
    end
  | EMath fn args =>
    match args with
    | a0 :: rest => obind (ty a0) (fun t0 => math_type fn t0 (match rest with a1 :: _ => ty a1 | [] => None end))
    | [] => None
    end
  | EAs x k conv => obind (ty x) (fun t => as_type t k conv)
  | ECallResult fn => obind (nth_error (m_functions m) fn) (fun g => obind (f_result g) (fun r => tinner m (fr_type r)))
  | EArrayLength _ => Some (TScalar u32_scalar)
  | EAtomicResult t _ => tinner m t
  | EOther _ _ => None
  end.

(* One forward pass.  [prev] holds, for each handle already seen, the type later
   expressions may assume for it: the inferred type, or -- only for kinds this
   typifier has no rule for (image, derivative, ray-query, subgroup ... kinds) --
   the recorded type, taken on trust so that expressions built on them can still
   be checked.  [inferred] holds the inferred types alone (None = no rule). *)
Definition resolve (m : module) (r : type_resolution) : option type_inner :=
  match r with RHandle h => tinner m h | RValue t => Some t | RNone => None end.

Definition recorded (m : module) (f : func) (i : nat) : option type_inner :=
  match nth_error (f_expr_types f) i with Some r => resolve m r | None => None end.

Definition assume (m : module) (f : func) (i : nat) (t : option type_inner) : option type_inner :=
  match t with Some _ => t | None => recorded m f i end.

Fixpoint infer_from (m : module) (f : func) (prev inferred : list (option type_inner)) (es : list expr)
  : list (option type_inner) * list (option type_inner) :=
  match es with
  | [] => (prev, inferred)
  | e :: es' =>
    let t := infer_expr m f prev e in
    infer_from m f (prev ++ [assume m f (List.length prev) t]) (inferred ++ [t]) es'
  end.

Definition infer_all (m : module) (f : func) : list (option type_inner) := snd (infer_from m f [] [] (f_exprs f)).
Definition assumed_all (m : module) (f : func) : list (option type_inner) := fst (infer_from m f [] [] (f_exprs f)).

Definition infer (m : module) (f : func) (i : nat) : option type_inner := prev_ty (infer_all m f) i.

(* the type the rest of the checker uses for handle i: inferred, else recorded *)
Definition etype (m : module) (f : func) (i : nat) : option type_inner := prev_ty (assumed_all m f) i.
