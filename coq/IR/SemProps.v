(* Meta-theory of the IR reference semantics: more fuel never changes a result.
   Hence "exists fuel, run = Done r" defines a partial function of the program
   and its inputs (determinism), which is what every preservation statement
   of C01/C03-05/C13-15 quantifies over. *)
From Coq Require Import List ZArith String Bool Lia.
Import ListNotations.
Require Import Naga.IR.Syntax Naga.IR.Values Naga.IR.Sem.

(* refinement order on results: whatever a computes, b computes too *)
Definition le_res {A} (a b : result A) : Prop := forall x, a = Done x -> b = Done x.

Lemma le_res_refl {A} (a : result A) : le_res a a.
Proof. intros x H; exact H. Qed.

Lemma le_res_bind {A B} (a a' : result A) (k k' : A -> result B) :
  le_res a a' -> (forall x, le_res (k x) (k' x)) -> le_res (rbind a k) (rbind a' k').
Proof.
  intros Ha Hk y H. destruct a as [x| |msg]; cbn in H; try discriminate.
  rewrite (Ha x eq_refl). cbn. apply Hk. exact H.
Qed.

Lemma le_res_outoffuel {A} (b : result A) : le_res OutOfFuel b.
Proof. intros x H; discriminate. Qed.

Lemma le_res_fail {A} msg (b : result A) : le_res (Fail msg) b.
Proof. intros x H; discriminate. Qed.

Ltac mono_step IH :=
  match goal with
  | |- le_res (rbind _ _) (rbind _ _) => apply le_res_bind; [|intros ?]
  | |- le_res OutOfFuel _ => apply le_res_outoffuel
  | |- le_res (Fail _) _ => apply le_res_fail
  | |- le_res ?a ?a => apply le_res_refl
  | |- le_res (match ?x with _ => _ end) (match ?x with _ => _ end) => destruct x
  | |- le_res (let '(_, _) := ?x in _) (let '(_, _) := ?x in _) => destruct x
  | |- le_res (if ?x then _ else _) (if ?x then _ else _) => destruct x
  | |- _ => solve [apply IH; lia]
  end.

Ltac mono IH := repeat (mono_step IH).

(* the six mutually recursive interpreters, at fuel n, are refined by themselves at any fuel n' >= n *)
Definition mono_at (n : nat) : Prop :=
  forall n', (n <= n')%nat ->
  (forall m f b fr mem, le_res (exec_block n m f b fr mem) (exec_block n' m f b fr mem)) /\
  (forall m f s fr mem, le_res (exec_stmt n m f s fr mem) (exec_stmt n' m f s fr mem)) /\
  (forall m f cs fr mem, le_res (exec_cases n m f cs fr mem) (exec_cases n' m f cs fr mem)) /\
  (forall m f b c brk fr mem, le_res (exec_loop n m f b c brk fr mem) (exec_loop n' m f b c brk fr mem)) /\
  (forall m fi args mem, le_res (call_function n m fi args mem) (call_function n' m fi args mem)) /\
  (forall m f args mem, le_res (run_function n m f args mem) (run_function n' m f args mem)).

Lemma mono_all : forall n, mono_at n.
Proof.
  unfold mono_at. induction n as [|n IH]; intros n' Hle.
  - repeat split; intros; cbn; apply le_res_outoffuel.
  - destruct n' as [|n']; [lia|].
    specialize (IH n' ltac:(lia)).
    destruct IH as (IHb & IHs & IHc & IHl & IHf & IHr).
    repeat split; intros.
    + (* exec_block *) cbn [exec_block]. destruct b as [|s rest]; [apply le_res_refl|].
      apply le_res_bind; [apply IHs|]. intros [[o fr'] mem'].
      destruct o; try apply le_res_refl. apply IHb.
    + (* exec_stmt *) cbn [exec_stmt].
      destruct s as [a b|blk|c acc rej|sel cases|body cont brk| | |rv| |fl|p v|p fn cmp v res|fn args res|t refs].
      * apply le_res_refl.
      * apply IHb.
      * apply le_res_bind; [apply le_res_refl|]. intros cv. destruct cv as [bb| | | | | | | |]; try apply le_res_refl.
        destruct bb; apply IHb.
      * apply le_res_bind; [apply le_res_refl|]. intros sv.
        destruct (match find_case cases sv 0 with Some i => Some i | None => find_default cases 0 end);
          [|apply le_res_refl].
        apply le_res_bind; [apply IHc|]. intros [[o fr'] mem']. apply le_res_refl.
      * apply IHl.
      * apply le_res_refl.
      * apply le_res_refl.
      * destruct rv; apply le_res_refl.
      * apply le_res_refl.
      * apply le_res_refl.
      * apply le_res_refl.
      * apply le_res_refl.
      * apply le_res_bind; [apply le_res_refl|]. intros vs.
        apply le_res_bind; [apply IHf|]. intros [ret mem']. apply le_res_refl.
      * apply le_res_refl.
    + (* exec_cases *) cbn [exec_cases]. destruct cs as [|[[sv body] ft] rest]; [apply le_res_refl|].
      apply le_res_bind; [apply IHb|]. intros [[o fr'] mem'].
      destruct o; try apply le_res_refl. destruct ft; [apply IHc | apply le_res_refl].
    + (* exec_loop *) cbn [exec_loop].
      apply le_res_bind; [apply IHb|]. intros [[o fr1] mem1].
      destruct o; try apply le_res_refl.
      * apply le_res_bind; [apply IHb|]. intros [[o2 fr2] mem2].
        destruct o2; try apply le_res_refl.
        destruct brk as [h|]; [|apply IHl].
        apply le_res_bind; [apply le_res_refl|]. intros bv.
        destruct bv as [bb| | | | | | | |]; try apply le_res_refl. destruct bb; [apply le_res_refl | apply IHl].
      * apply le_res_bind; [apply IHb|]. intros [[o2 fr2] mem2].
        destruct o2; try apply le_res_refl.
        destruct brk as [h|]; [|apply IHl].
        apply le_res_bind; [apply le_res_refl|]. intros bv.
        destruct bv as [bb| | | | | | | |]; try apply le_res_refl. destruct bb; [apply le_res_refl | apply IHl].
    + (* call_function *) cbn [call_function].
      apply le_res_bind; [apply le_res_refl|]. intros fd. apply IHr.
    + (* run_function *) cbn [run_function].
      apply le_res_bind; [apply le_res_refl|]. intros [fr mem0].
      apply le_res_bind; [apply IHb|]. intros [[o fr'] mem1]. apply le_res_refl.
Qed.

Theorem run_entry_fuel_monotone fuel fuel' m ep globals args r :
  (fuel <= fuel')%nat ->
  run_entry fuel m ep globals args = Done r -> run_entry fuel' m ep globals args = Done r.
Proof.
  intros Hle. unfold run_entry.
  assert (H : le_res (run_entry fuel m ep globals args) (run_entry fuel' m ep globals args)).
  { unfold run_entry.
    apply le_res_bind; [apply le_res_refl|]. intros e.
    apply le_res_bind; [apply le_res_refl|]. intros mem0.
    apply le_res_bind; [|intros [ret mem1]; apply le_res_refl].
    destruct (mono_all fuel fuel' Hle) as (_ & _ & _ & _ & _ & Hr). apply Hr. }
  exact (H r).
Qed.

(* the result of an entry point is a function of (module, inputs): it does not depend on the fuel *)
Corollary run_entry_deterministic f1 f2 m ep globals args r1 r2 :
  run_entry f1 m ep globals args = Done r1 -> run_entry f2 m ep globals args = Done r2 -> r1 = r2.
Proof.
  intros H1 H2.
  destruct (Nat.le_ge_cases f1 f2) as [H|H].
  - rewrite (run_entry_fuel_monotone _ _ _ _ _ _ _ H H1) in H2. congruence.
  - rewrite (run_entry_fuel_monotone _ _ _ _ _ _ _ H H2) in H1. congruence.
Qed.
