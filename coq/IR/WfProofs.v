(* C09: what an empty result of the checker IR/Wf.v means -- for ALL modules. *)
From Coq Require Import List ZArith String Bool Arith PeanoNat Lia FMapPositive.
Import ListNotations.
Require Import Naga.IR.Syntax Naga.IR.Infer Naga.IR.Paths Naga.IR.Wf.
Open Scope nat_scope.

(* ------------------------------------------------------------------ *)
(* basics *)

Lemma guard_nil b c fn h : guard b c fn h = [] -> b = true.
Proof. unfold guard. destruct b; [reflexivity | discriminate]. Qed.

Lemma app_nil_l2 {A} (a b : list A) : a ++ b = [] -> a = [] /\ b = [].
Proof. apply app_eq_nil. Qed.

Ltac split_nil H :=
  repeat match type of H with
         | _ ++ _ = [] => let H1 := fresh H in apply app_eq_nil in H; destruct H as [H1 H]
         end.

Lemma check_idx_nil {A} (f : nat -> A -> list wf_violation) :
  forall l s, check_idx f s l = [] -> forall i a, nth_error l i = Some a -> f (s + i) a = [].
Proof.
  induction l as [| x l IH]; intros s H i a Hn.
  - destruct i; discriminate.
  - cbn in H. apply app_eq_nil in H. destruct H as [H1 H2]. destruct i as [| i].
    + cbn in Hn. inversion Hn; subst. now rewrite Nat.add_0_r.
    + cbn in Hn. specialize (IH (S s) H2 i a Hn). now replace (s + S i) with (S s + i) by lia.
Qed.

Lemma all_lt_Forall n l : all_lt n l = true -> Forall (fun r => r < n) l.
Proof.
  unfold all_lt. rewrite forallb_forall. intros H. apply Forall_forall. intros x Hx.
  apply H in Hx. now apply Nat.ltb_lt.
Qed.

(* ------------------------------------------------------------------ *)
(* sub-statements *)

Definition inside (s' s : stmt) : Prop :=
  match s with
  | SBlock b => substmt s' b
  | SIf _ a r => substmt s' a \/ substmt s' r
  | SSwitch _ cases => exists v cb ft, In (v, cb, ft) cases /\ substmt s' cb
  | SLoop b c _ => substmt s' b \/ substmt s' c
  | _ => False
  end.

Lemma substmt_nil s : ~ substmt s [].
Proof. intros H. inversion H; subst; match goal with H : In _ [] |- _ => inversion H end. Qed.

Lemma substmt_cons s' s b : substmt s' (s :: b) -> s' = s \/ inside s' s \/ substmt s' b.
Proof.
  intros H. inversion H; subst.
  - destruct H0 as [<- | H0]; [now left | right; right; now apply sub_here].
  - destruct H0 as [-> | H0]; [right; left; exact H1 | right; right; eapply sub_block; eauto].
  - destruct H0 as [-> | H0]; [right; left; left; exact H1 | right; right; eapply sub_if_accept; eauto].
  - destruct H0 as [-> | H0]; [right; left; right; exact H1 | right; right; eapply sub_if_reject; eauto].
  - destruct H0 as [-> | H0]; [right; left; cbn; eauto | right; right; eapply sub_switch; eauto].
  - destruct H0 as [-> | H0]; [right; left; left; exact H1 | right; right; eapply sub_loop_body; eauto].
  - destruct H0 as [-> | H0]; [right; left; right; exact H1 | right; right; eapply sub_loop_cont; eauto].
Qed.

Lemma forall_stmts_sound p fn : forall fuel,
  (forall s, forall_stmt fuel p fn s = [] -> p s = [] /\ forall s', inside s' s -> p s' = []) /\
  (forall b, forall_block fuel p fn b = [] -> forall s', substmt s' b -> p s' = []) /\
  (forall cs, forall_cases fuel p fn cs = [] -> forall v cb ft, In (v, cb, ft) cs -> forall s', substmt s' cb -> p s' = []).
Proof.
  induction fuel as [| n [IHs [IHb IHc]]].
  - repeat split; intros; discriminate.
  - split; [| split].
    + intros s H. cbn [forall_stmt] in H. apply app_eq_nil in H. destruct H as [Hp H]. split; [exact Hp |].
      intros s' Hin. destruct s; cbn [inside] in Hin; try contradiction.
      * eapply IHb; eauto.
      * apply app_eq_nil in H. destruct H as [Ha Hr]. destruct Hin; [eapply IHb with (b := accept) | eapply IHb with (b := reject)]; eauto.
      * destruct Hin as (v & cb & ft & Hi & Hs). eapply IHc; eauto.
      * apply app_eq_nil in H. destruct H as [Ha Hr]. destruct Hin; [eapply IHb with (b := body) | eapply IHb with (b := continuing)]; eauto.
    + intros b H s' Hs. cbn [forall_block] in H. destruct b as [| s b].
      * exfalso. eapply substmt_nil; eauto.
      * apply app_eq_nil in H. destruct H as [H1 H2]. apply substmt_cons in Hs. destruct Hs as [-> | [Hs | Hs]].
        -- now apply IHs.
        -- apply IHs in H1. destruct H1 as [_ H1]. now apply H1.
        -- eapply IHb; eauto.
    + intros cs H v cb ft Hin s' Hs. cbn [forall_cases] in H. destruct cs as [| [[v0 b0] ft0] cs]; [inversion Hin |].
      apply app_eq_nil in H. destruct H as [H1 H2]. destruct Hin as [Heq | Hin].
      * inversion Heq; subst. eapply IHb; eauto.
      * eapply IHc; eauto.
Qed.

Lemma forall_block_sound p fn fuel b :
  forall_block fuel p fn b = [] -> forall s, substmt s b -> p s = [].
Proof. apply (forall_stmts_sound p fn fuel). Qed.

(* ------------------------------------------------------------------ *)
(* clause 1: handles *)

Lemma wf_module_parts m :
  wf_module m = [] ->
  chk_handles m = [] /\ chk_abstract m = [] /\ chk_unique m = [] /\ chk_global_types m = [] /\
  check_idx (chk_func m) 0 (all_funcs m) = [] /\ check_idx (chk_entry m) 0 (m_entry_points m) = [].
Proof. unfold wf_module. intros H. split_nil H. repeat split; assumption. Qed.

Lemma chk_handles_parts m :
  chk_handles m = [] ->
  chk_types m = [] /\ chk_constants m = [] /\ chk_globals m = [] /\ chk_overrides m = [] /\
  chk_exprs "handles.global_expr_backward" "handles.global_expr_operand_range" m mod_fn 0 0 (m_global_exprs m) = [] /\
  check_idx (chk_func_handles m) 0 (all_funcs m) = [].
Proof. unfold chk_handles. intros H. split_nil H. repeat split; assumption. Qed.

Lemma chk_exprs_backward c1 c2 m fn na nl es :
  chk_exprs c1 c2 m fn na nl es = [] ->
  forall i e, nth_error es i = Some e -> Forall (fun r => r < i) (expr_refs e) /\ expr_operands_ok m na nl e = true.
Proof.
  unfold chk_exprs. intros H i e Hn. pose proof (check_idx_nil _ _ _ H i e Hn) as Hi. cbn in Hi.
  apply app_eq_nil in Hi. destruct Hi as [H1 H2]. apply guard_nil in H1. apply guard_nil in H2.
  split; [now apply all_lt_Forall | assumption].
Qed.

Theorem wf_handles_sound_thm : forall m, wf_module m = [] ->
  (* types refer strictly backwards *)
  (forall i t, nth_error (m_types m) i = Some t -> Forall (fun r => r < i) (type_refs (ty_inner t))) /\
  (* global expressions refer strictly backwards *)
  (forall i e, nth_error (m_global_exprs m) i = Some e -> Forall (fun r => r < i) (expr_refs e)) /\
  (* in every function (entry points included) ... *)
  (forall fn f, nth_error (all_funcs m) fn = Some f ->
     (* expression operands refer strictly backwards, other handles are in range *)
     (forall i e, nth_error (f_exprs f) i = Some e ->
        Forall (fun r => r < i) (expr_refs e) /\ expr_operands_ok m (List.length (f_args f)) (List.length (f_locals f)) e = true) /\
     (* there is a recorded type slot for every expression *)
     List.length (f_expr_types f) = List.length (f_exprs f) /\
     (* every statement of the body only mentions existing expressions / functions *)
     (forall s, substmt s (f_body f) ->
        Forall (fun r => r < List.length (f_exprs f)) (stmt_refs s) /\
        match s with
        | SEmit a b => a <= b <= List.length (f_exprs f)
        | SCall g _ _ => g < List.length (m_functions m)
        | _ => True
        end)).
Proof.
  intros m H. apply wf_module_parts in H. destruct H as [Hh _]. apply chk_handles_parts in Hh.
  destruct Hh as (Ht & _ & _ & _ & Hg & Hf). split; [| split].
  - intros i t Hn. unfold chk_types in Ht. pose proof (check_idx_nil _ _ _ Ht i t Hn) as Hi. cbn in Hi.
    apply guard_nil in Hi. now apply all_lt_Forall.
  - intros i e Hn. now apply (chk_exprs_backward _ _ _ _ _ _ _ Hg i e Hn).
  - intros fn f Hn. pose proof (check_idx_nil _ _ _ Hf fn f Hn) as Hi. cbn in Hi. unfold chk_func_handles in Hi.
    split_nil Hi. split; [| split].
    + intros i e He. eapply chk_exprs_backward; eauto.
    + apply guard_nil in Hi4. now apply Nat.eqb_eq in Hi4.
    + intros s Hs. pose proof (forall_block_sound _ _ _ _ Hi6 s Hs) as Hp. cbn in Hp. apply guard_nil in Hp.
      unfold stmt_handles_ok in Hp. apply andb_true_iff in Hp. destruct Hp as [Hp1 Hp2]. split; [now apply all_lt_Forall |].
      destruct s; try exact I.
      * apply andb_true_iff in Hp2. destruct Hp2 as [Ha Hb]. apply Nat.leb_le in Ha. apply Nat.leb_le in Hb. lia.
      * now apply Nat.ltb_lt.
Qed.

(* ------------------------------------------------------------------ *)
(* clause 3: unique types *)

Lemma ty_eqb_true a b : ty_eqb a b = true <-> a = b.
Proof. unfold ty_eqb. destruct (ty_eq_dec a b); split; congruence. Qed.

Lemma chk_unique_from_sound : forall l seen i,
  chk_unique_from seen i l = [] ->
  forall j t, nth_error l j = Some t -> comparable t = true ->
    ~ In t seen /\ forall k t', k < j -> nth_error l k = Some t' -> t' <> t.
Proof.
  induction l as [| x l IH]; intros seen i H j t Hn Hc.
  - destruct j; discriminate.
  - cbn in H. apply app_eq_nil in H. destruct H as [H1 H2]. apply guard_nil in H1. destruct j as [| j].
    + cbn in Hn. inversion Hn; subst. split; [| intros; lia]. rewrite Hc in H1. cbn in H1.
      apply negb_true_iff in H1. intros Hin. assert (existsb (ty_eqb t) seen = true); [| congruence].
      apply existsb_exists. exists t. split; [assumption | now apply ty_eqb_true].
    + cbn in Hn. destruct (IH (x :: seen) (S i) H2 j t Hn Hc) as [Hns Hlt]. split.
      * intros Hin. apply Hns. now right.
      * intros k t' Hk Hk'. destruct k as [| k].
        -- cbn in Hk'. inversion Hk'; subst. intros ->. apply Hns. now left.
        -- cbn in Hk'. apply (Hlt k t'); [lia | assumption].
Qed.

(* structurally equal (name and inner) comparable types sit at one handle only *)
Theorem types_unique_sound_thm : forall m, wf_module m = [] ->
  forall i j t, nth_error (m_types m) i = Some t -> nth_error (m_types m) j = Some t -> comparable t = true -> i = j.
Proof.
  intros m H i j t Hi Hj Hc. apply wf_module_parts in H. destruct H as (_ & _ & Hu & _ & _). unfold chk_unique in Hu.
  destruct (Nat.lt_trichotomy i j) as [Hlt | [-> | Hlt]]; [| reflexivity |].
  - destruct (chk_unique_from_sound _ _ _ Hu j t Hj Hc) as [_ Hd]. exfalso. now apply (Hd i t Hlt Hi).
  - destruct (chk_unique_from_sound _ _ _ Hu i t Hi Hc) as [_ Hd]. exfalso. now apply (Hd j t Hlt Hj).
Qed.

(* ------------------------------------------------------------------ *)
(* clause 4: inference is a function of the expressions seen so far *)

Lemma infer_from_app m f : forall es1 es2 prev inf,
  infer_from m f prev inf (es1 ++ es2) =
  infer_from m f (fst (infer_from m f prev inf es1)) (snd (infer_from m f prev inf es1)) es2.
Proof. induction es1 as [| e es1 IH]; intros; cbn; [reflexivity | apply IH]. Qed.

Lemma infer_from_prefix m f : forall es prev inf,
  exists p2 i2, infer_from m f prev inf es = (prev ++ p2, inf ++ i2) /\ List.length p2 = List.length es /\ List.length i2 = List.length es.
Proof.
  induction es as [| e es IH]; intros prev inf.
  - exists [], []. cbn. now rewrite !app_nil_r.
  - cbn. destruct (IH (prev ++ [assume m f (List.length prev) (infer_expr m f prev e)]) (inf ++ [infer_expr m f prev e])) as (p2 & i2 & Heq & Hl1 & Hl2).
    eexists (_ :: p2), (_ :: i2). rewrite Heq, <- !app_assoc. cbn. repeat split; congruence.
Qed.

(* the typifier only reads a function through its arguments, locals, recorded types and expressions *)
Lemma infer_from_cong m f f' : f_args f = f_args f' -> f_locals f = f_locals f' -> f_expr_types f = f_expr_types f' ->
  forall es prev inf, infer_from m f prev inf es = infer_from m f' prev inf es.
Proof.
  intros Ha Hl Ht. induction es as [| e es IH]; intros; cbn; [reflexivity |].
  assert (He : forall p x, infer_expr m f p x = infer_expr m f' p x).
  { intros p x. destruct x; cbn; rewrite ?Ha, ?Hl; reflexivity. }
  assert (Hs : forall i t, assume m f i t = assume m f' i t).
  { intros i t. unfold assume, recorded. now rewrite Ht. }
  rewrite He, Hs. apply IH.
Qed.

Theorem infer_deterministic_thm : forall m f i t1 t2, infer m f i = Some t1 -> infer m f i = Some t2 -> t1 = t2.
Proof. intros. congruence. Qed.

(* appending expressions (as the lowerer does) never changes the type inferred for an existing handle *)
Theorem infer_stable_under_append_thm : forall m f f' more,
  f_args f' = f_args f -> f_locals f' = f_locals f -> f_expr_types f' = f_expr_types f ->
  f_exprs f' = f_exprs f ++ more ->
  forall i, i < List.length (f_exprs f) -> infer m f' i = infer m f i.
Proof.
  intros m f f' more Ha Hl Ht He i Hi. unfold infer, infer_all. rewrite He, infer_from_app.
  rewrite !(infer_from_cong m f' f) by congruence.
  destruct (infer_from_prefix m f (f_exprs f) [] []) as (p1 & i1 & Heq1 & Hlp1 & Hli1). cbn [app] in Heq1. rewrite Heq1. cbn [fst snd].
  destruct (infer_from_prefix m f more p1 i1) as (p2 & i2 & Heq2 & _ & _). rewrite Heq2. cbn [snd].
  unfold prev_ty. rewrite nth_error_app1 by lia. reflexivity.
Qed.

(* ... and the type of handle i depends only on expressions 0..i *)
Corollary infer_depends_on_prefix_thm : forall m f i, i < List.length (f_exprs f) ->
  infer m (mkfunc (f_name f) (f_args f) (f_result f) (f_locals f) (firstn (S i) (f_exprs f)) (f_expr_types f) (f_body f) (f_named f)) i
  = infer m f i.
Proof.
  intros m f i Hi. symmetry.
  apply (infer_stable_under_append_thm m _ f (skipn (S i) (f_exprs f))); cbn [f_args f_locals f_expr_types f_exprs]; try reflexivity.
  - symmetry. apply firstn_skipn.
  - rewrite firstn_length. lia.
Qed.
