(* C09: the structural contract of a lowered naga IR module, as an executable
   checker [wf_module : module -> list wf_violation].

   Clauses (the prefix of [v_clause]):
     handles.*   every handle in range; types, constants' composite components and
                 expression operands refer strictly backwards
     abstract.*  no abstract-numeric scalar kind in a type / recorded type, no
                 abstract literal, no abstract constant
     unique.*    no two equal entries (name, inner) in the type arena
     types.*     recorded ExpressionTypes entry = independently inferred type (IR/Infer.v)
     emit.*      emit discipline: every handle used by a statement or by an emitted
                 expression is a pre-emit kind or was evaluated earlier on every
                 path (scoped: nested blocks do not leak); no handle covered twice;
                 variables/constants/arguments/results never inside a range
     return.*    all paths of a function end in Return (value iff result, of its type) or Kill
     store.* call.*   stores and calls are type-correct
     entry.*     entry points: complete, non-conflicting bindings; workgroup sizes
   [v_fn] = index into m_functions ++ entry-point functions ([mod_fn] for module-level clauses);
   [v_handle] = the offending type / constant / expression handle (or statement-local datum).

   Statement-tree traversals are fuel-indexed; running out of fuel is itself a
   violation ("fuel"), so an empty result always means the whole tree was seen. *)
From Coq Require Import List ZArith String Bool Arith PeanoNat FMapPositive.
Import ListNotations.
Require Import Naga.IR.Syntax Naga.IR.Infer Naga.IR.Paths.
Open Scope string_scope.
Open Scope list_scope.
Open Scope nat_scope.

Record wf_violation := mkviol { v_clause : string; v_fn : nat; v_handle : nat }.

Definition mod_fn : nat := 0.

Definition guard (b : bool) (c : string) (fn h : nat) : list wf_violation :=
  if b then [] else [mkviol c fn h].

Fixpoint check_idx {A} (f : nat -> A -> list wf_violation) (i : nat) (l : list A) : list wf_violation :=
  match l with
  | [] => []
  | x :: l' => f i x ++ check_idx f (S i) l'
  end.

Definition all_lt (n : nat) (l : list nat) : bool := forallb (fun r => r <? n) l.

Definition all_funcs (m : module) : list func := m_functions m ++ map ep_func (m_entry_points m).

Definition expr_kind_name (e : expr) : string :=
  match e with
  | ELiteral _ => "Literal" | EConstant _ => "Constant" | EOverride _ => "Override" | EZeroValue _ => "ZeroValue"
  | ECompose _ _ => "Compose" | EAccess _ _ => "Access" | EAccessIndex _ _ => "AccessIndex" | ESplat _ _ => "Splat"
  | ESwizzle _ _ _ => "Swizzle" | EFunctionArgument _ => "FunctionArgument" | EGlobalVariable _ => "GlobalVariable"
  | ELocalVariable _ => "LocalVariable" | ELoad _ => "Load" | EUnary _ _ => "Unary"
  | EBinary op _ _ =>
    match op with
    | BAdd => "Binary.Add" | BSub => "Binary.Sub" | BMul => "Binary.Mul" | BDiv => "Binary.Div" | BMod => "Binary.Mod"
    | BEq => "Binary.Eq" | BNe => "Binary.Ne" | BLt => "Binary.Lt" | BLe => "Binary.Le" | BGt => "Binary.Gt" | BGe => "Binary.Ge"
    | BAnd => "Binary.And" | BXor => "Binary.Xor" | BOr => "Binary.Or" | BLogicalAnd => "Binary.LogicalAnd"
    | BLogicalOr => "Binary.LogicalOr" | BShl => "Binary.Shl" | BShr => "Binary.Shr"
    end
  | ESelect _ _ _ => "Select" | ERelational _ _ => "Relational" | EMath f _ => f | EAs _ _ _ => "As"
  | ECallResult _ => "CallResult" | EArrayLength _ => "ArrayLength" | EAtomicResult _ _ => "AtomicResult"
  | EOther t _ => t
  end.

(* ------------------------------------------------------------------ *)
(* generic statement-tree traversal: apply p to every statement *)

Fixpoint forall_stmt (fuel : nat) (p : stmt -> list wf_violation) (fn : nat) (s : stmt) {struct fuel} : list wf_violation :=
  match fuel with
  | O => [mkviol "fuel" fn 0]
  | S n =>
    p s ++
    match s with
    | SBlock b => forall_block n p fn b
    | SIf _ a r => forall_block n p fn a ++ forall_block n p fn r
    | SSwitch _ cases => forall_cases n p fn cases
    | SLoop b c _ => forall_block n p fn b ++ forall_block n p fn c
    | _ => []
    end
  end
with forall_block (fuel : nat) (p : stmt -> list wf_violation) (fn : nat) (b : list stmt) {struct fuel} : list wf_violation :=
  match fuel with
  | O => [mkviol "fuel" fn 0]
  | S n =>
    match b with
    | [] => []
    | s :: b' => forall_stmt n p fn s ++ forall_block n p fn b'
    end
  end
with forall_cases (fuel : nat) (p : stmt -> list wf_violation) (fn : nat) (cs : list (switch_value * list stmt * bool)) {struct fuel}
  : list wf_violation :=
  match fuel with
  | O => [mkviol "fuel" fn 0]
  | S n =>
    match cs with
    | [] => []
    | (_, b, _) :: cs' => forall_block n p fn b ++ forall_cases n p fn cs'
    end
  end.

(* fuel that suffices for every traversal of this file *)
Definition body_fuel (f : func) : nat := 2 * block_size (f_body f) + 4.

(* ------------------------------------------------------------------ *)
(* clause 1: handle ranges, backward references *)

Definition type_refs (t : type_inner) : list nat :=
  match t with
  | TArray b _ _ | TPointer b _ | TBindingArray b _ => [b]
  | TStruct ms _ => map m_type ms
  | _ => []
  end.

Definition chk_types (m : module) : list wf_violation :=
  check_idx (fun i t => guard (all_lt i (type_refs (ty_inner t))) "handles.type_backward" mod_fn i) 0 (m_types m).

Definition opt_lt (n : nat) (o : option nat) : bool := match o with Some x => x <? n | None => true end.

Definition chk_constants (m : module) : list wf_violation :=
  check_idx (fun i c =>
               guard (c_type c <? List.length (m_types m)) "handles.constant_type" mod_fn i ++
               guard (c_init c <? List.length (m_global_exprs m)) "handles.constant_init" mod_fn i ++
               guard (match c_value c with CVComposite cs => all_lt i cs | _ => true end) "handles.constant_components_backward" mod_fn i)
            0 (m_constants m).

Definition chk_globals (m : module) : list wf_violation :=
  check_idx (fun i g =>
               guard (g_type g <? List.length (m_types m)) "handles.global_type" mod_fn i ++
               guard (opt_lt (List.length (m_constants m)) (g_init g)) "handles.global_init" mod_fn i ++
               guard (opt_lt (List.length (m_global_exprs m)) (g_init_expr g)) "handles.global_init_expr" mod_fn i)
            0 (m_globals m).

Definition chk_overrides (m : module) : list wf_violation :=
  check_idx (fun i o =>
               guard (o_type o <? List.length (m_types m)) "handles.override_type" mod_fn i ++
               guard (opt_lt (List.length (m_global_exprs m)) (o_init o)) "handles.override_init" mod_fn i)
            0 (m_overrides m).

(* non-expression handles carried by an expression *)
Definition expr_operands_ok (m : module) (nargs nlocals : nat) (e : expr) : bool :=
  match e with
  | EConstant c => c <? List.length (m_constants m)
  | EOverride o => o <? List.length (m_overrides m)
  | EZeroValue t => t <? List.length (m_types m)
  | ECompose t _ => t <? List.length (m_types m)
  | EFunctionArgument i => i <? nargs
  | EGlobalVariable g => g <? List.length (m_globals m)
  | ELocalVariable l => l <? nlocals
  | ECallResult f => f <? List.length (m_functions m)
  | EAtomicResult t _ => t <? List.length (m_types m)
  | _ => true
  end.

Definition chk_exprs (c1 c2 : string) (m : module) (fn nargs nlocals : nat) (es : list expr) : list wf_violation :=
  check_idx (fun i e =>
               guard (all_lt i (expr_refs e)) c1 fn i ++
               guard (expr_operands_ok m nargs nlocals e) c2 fn i)
            0 es.

Definition stmt_handles_ok (m : module) (nexprs : nat) (s : stmt) : bool :=
  all_lt nexprs (stmt_refs s) &&
  match s with
  | SEmit a b => (a <=? b) && (b <=? nexprs)
  | SCall g _ _ => g <? List.length (m_functions m)
  | _ => true
  end.

Definition chk_recorded_handle (m : module) (fn : nat) (rs : list type_resolution) : list wf_violation :=
  check_idx (fun i r => guard (match r with
                               | RHandle h => h <? List.length (m_types m)
                               | RValue t => all_lt (List.length (m_types m)) (type_refs t)
                               | RNone => true end) "handles.recorded_type" fn i) 0 rs.

Definition chk_func_handles (m : module) (fn : nat) (f : func) : list wf_violation :=
  let nt := List.length (m_types m) in
  let ne := List.length (f_exprs f) in
  check_idx (fun i a => guard (fa_type a <? nt) "handles.argument_type" fn i) 0 (f_args f) ++
  guard (match f_result f with Some r => fr_type r <? nt | None => true end) "handles.result_type" fn 0 ++
  check_idx (fun i l => guard (lv_type l <? nt) "handles.local_type" fn i ++
                        guard (opt_lt ne (lv_init l)) "handles.local_init" fn i) 0 (f_locals f) ++
  chk_exprs "handles.expr_backward" "handles.expr_operand_range" m fn (List.length (f_args f)) (List.length (f_locals f)) (f_exprs f) ++
  guard (List.length (f_expr_types f) =? ne) "handles.expression_types_length" fn (List.length (f_expr_types f)) ++
  chk_recorded_handle m fn (f_expr_types f) ++
  forall_block (body_fuel f) (fun s => guard (stmt_handles_ok m ne s) "handles.statement" fn 0) fn (f_body f) ++
  guard (all_lt ne (map fst (f_named f))) "handles.named_expression" fn 0.

Definition chk_handles (m : module) : list wf_violation :=
  chk_types m ++ chk_constants m ++ chk_globals m ++ chk_overrides m ++
  chk_exprs "handles.global_expr_backward" "handles.global_expr_operand_range" m mod_fn 0 0 (m_global_exprs m) ++
  check_idx (chk_func_handles m) 0 (all_funcs m).

(* ------------------------------------------------------------------ *)
(* clause 2: nothing abstract survives *)

Definition abstract_kind (k : scalar_kind) : bool :=
  match k with AbstractInt | AbstractFloat => true | _ => false end.

Definition type_abstract (t : type_inner) : bool :=
  match t with
  | TScalar s | TVector _ s | TMatrix _ _ s | TValuePointer _ s _ | TAtomic s => abstract_kind (skind s)
  | _ => false
  end.

Definition expr_abstract (e : expr) : bool :=
  match e with
  | ELiteral (LAbstractInt _) | ELiteral (LAbstractFloat _) => true
  | EAs _ k _ => abstract_kind k
  | _ => false
  end.

Definition chk_abstract_func (m : module) (fn : nat) (f : func) : list wf_violation :=
  check_idx (fun i e => guard (negb (expr_abstract e)) ("abstract.expression." ++ expr_kind_name e)%string fn i) 0 (f_exprs f) ++
  check_idx (fun i r => guard (match r with RValue t => negb (type_abstract t) | _ => true end) "abstract.recorded_type" fn i)
            0 (f_expr_types f).

Definition chk_abstract (m : module) : list wf_violation :=
  check_idx (fun i t => guard (negb (type_abstract (ty_inner t))) "abstract.type" mod_fn i) 0 (m_types m) ++
  check_idx (fun i c => guard (negb (c_abstract c)) "abstract.constant" mod_fn i) 0 (m_constants m) ++
  check_idx (fun i e => guard (negb (expr_abstract e)) "abstract.global_expression" mod_fn i) 0 (m_global_exprs m) ++
  check_idx (chk_abstract_func m) 0 (all_funcs m).

(* ------------------------------------------------------------------ *)
(* clause 3: the type arena holds no duplicates *)

Definition scalar_kind_eq_dec : forall a b : scalar_kind, {a = b} + {a <> b}.
Proof. decide equality. Defined.
Definition scalar_eq_dec : forall a b : scalar, {a = b} + {a <> b}.
Proof. decide equality; [apply Z.eq_dec | apply scalar_kind_eq_dec]. Defined.
Definition addr_space_eq_dec : forall a b : addr_space, {a = b} + {a <> b}.
Proof. decide equality. Defined.
Definition opt_eq_dec {A} (d : forall a b : A, {a = b} + {a <> b}) : forall a b : option A, {a = b} + {a <> b}.
Proof. decide equality. Defined.
Definition interp_eq_dec : forall a b : interpolation, {a = b} + {a <> b}.
Proof. decide equality; apply Z.eq_dec. Defined.
Definition binding_eq_dec : forall a b : binding, {a = b} + {a <> b}.
Proof.
  decide equality; try apply Bool.bool_dec; try apply string_dec; try apply Z.eq_dec;
    try (apply opt_eq_dec; apply Z.eq_dec); try (apply opt_eq_dec; apply interp_eq_dec).
Defined.
Definition member_eq_dec : forall a b : struct_member, {a = b} + {a <> b}.
Proof.
  decide equality; try apply Z.eq_dec; try apply Nat.eq_dec; try apply string_dec.
  apply opt_eq_dec; apply binding_eq_dec.
Defined.
Definition type_inner_eq_dec : forall a b : type_inner, {a = b} + {a <> b}.
Proof.
  decide equality; try apply Z.eq_dec; try apply Nat.eq_dec; try apply string_dec; try apply scalar_eq_dec;
    try apply addr_space_eq_dec; try (apply opt_eq_dec; apply Z.eq_dec).
  apply list_eq_dec; apply member_eq_dec.
Defined.
Definition ty_eq_dec : forall a b : ty, {a = b} + {a <> b}.
Proof. decide equality; [apply type_inner_eq_dec | apply string_dec]. Defined.

Definition ty_eqb (a b : ty) : bool := if ty_eq_dec a b then true else false.
Definition inner_eqb (a b : type_inner) : bool := if type_inner_eq_dec a b then true else false.
Definition opt_inner_eqb (a b : option type_inner) : bool :=
  match a, b with Some x, Some y => inner_eqb x y | _, _ => false end.

(* image / sampler / acceleration-structure / ray-query types are decoded to a bare tag
   (their parameters are dropped by IR/Decode.v), so they cannot be compared *)
Definition comparable (t : ty) : bool := match ty_inner t with TOther _ => false | _ => true end.

(* type i equals no earlier type *)
Fixpoint chk_unique_from (seen : list ty) (i : nat) (l : list ty) : list wf_violation :=
  match l with
  | [] => []
  | t :: l' => guard (negb (comparable t && existsb (ty_eqb t) seen)) "unique.type" mod_fn i ++ chk_unique_from (t :: seen) (S i) l'
  end.

Definition chk_unique (m : module) : list wf_violation := chk_unique_from [] 0 (m_types m).

(* ------------------------------------------------------------------ *)
(* clause 4: recorded type = inferred type.
   Checked locally: the recorded type of expression i must be what the typing rule of
   its kind yields from the RECORDED types of its operands (so every flagged handle is a
   root cause, not a consequence of a wrong operand type).  When every handle passes,
   the recorded table equals the independently inferred one (IR/WfProofs.v,
   [types_local_sound]). *)
Definition recorded_all (m : module) (f : func) : list (option type_inner) := map (resolve m) (f_expr_types f).

(* operands of value-computing kinds must be values, not pointers *)
Definition value_operands (e : expr) : list nat :=
  match e with
  | ECompose _ cs => cs
  | EAccess _ i => [i]
  | ESplat _ v => [v]
  | ESwizzle _ v _ => [v]
  | EUnary _ x => [x]
  | EBinary _ l r => [l; r]
  | ESelect c a r => [c; a; r]
  | ERelational _ a => [a]
  | EMath fn args => if String.eqb fn "MathModf" || String.eqb fn "MathFrexp" then [] else args
  | EAs x _ _ => [x]
  | _ => []
  end.

(* Compose: components must fit the composed type (vector: scalars/vectors of the same scalar
   adding up to the size; matrix: exactly its column vectors; array / struct: element-wise) *)
Fixpoint vec_width (s : scalar) (ts : list (option type_inner)) : option Z :=
  match ts with
  | [] => Some 0%Z
  | Some (TScalar s') :: r => if scalar_eq_dec s s' then option_map (Z.add 1) (vec_width s r) else None
  | Some (TVector n s') :: r => if scalar_eq_dec s s' then option_map (Z.add n) (vec_width s r) else None
  | _ => None
  end.

Definition compose_ok (m : module) (t : type_inner) (cts : list (option type_inner)) : bool :=
  match t with
  | TVector n s => match vec_width s cts with Some w => Z.eqb w n | None => false end
  | TMatrix c r s => Z.eqb (Z.of_nat (List.length cts)) c && forallb (fun ct => opt_inner_eqb ct (Some (TVector r s))) cts
  | TArray b (Some n) _ => Z.eqb (Z.of_nat (List.length cts)) n && forallb (fun ct => opt_inner_eqb ct (tinner m b)) cts
  | TStruct ms _ =>
    Nat.eqb (List.length cts) (List.length ms) &&
    forallb (fun p => opt_inner_eqb (fst p) (tinner m (m_type (snd p)))) (combine cts ms)
  | _ => false
  end.

Definition is_pointer_type (t : option type_inner) : bool :=
  match t with Some (TPointer _ _) | Some (TValuePointer _ _ _) => true | _ => false end.

Fixpoint chk_types_from (m : module) (f : func) (fn : nat) (tys recd : list (option type_inner)) (es : list expr)
         (rec : list type_resolution) (i : nat) : list wf_violation :=
  match es, rec with
  | e :: es', r :: rec' =>
    (match r with
     | RNone => [mkviol ("types.unrecorded." ++ expr_kind_name e)%string fn i]
     | _ =>
       match infer_expr m f recd e with
       | None => []
       | Some t => guard (opt_inner_eqb (resolve m r) (Some t)) ("types.mismatch." ++ expr_kind_name e)%string fn i
       end
     end) ++
    guard (negb (existsb (fun r => is_pointer_type (prev_ty recd r)) (value_operands e)))
          ("types.pointer_operand." ++ expr_kind_name e)%string fn i ++
    match e with
    | ECompose t cs =>
      guard (match tinner m t with
             | Some ti => compose_ok m ti (map (prev_ty recd) cs) || compose_ok m ti (map (prev_ty tys) cs)
             | None => false end) "types.compose_components" fn i
    | _ => []
    end ++
    chk_types_from m f fn tys recd es' rec' (S i)
  | _, _ => []
  end.

Definition chk_expr_types (m : module) (fn : nat) (f : func) (tys recd : list (option type_inner)) : list wf_violation :=
  chk_types_from m f fn tys recd (f_exprs f) (f_expr_types f) 0.

Fixpoint uninferred_from (fn : nat) (es : list expr) (inferred : list (option type_inner)) (i : nat) : list wf_violation :=
  match es, inferred with
  | e :: es', it :: inf' =>
    (match it with None => [mkviol ("uninferred." ++ expr_kind_name e)%string fn i] | Some _ => [] end) ++
    uninferred_from fn es' inf' (S i)
  | _, _ => []
  end.

(* module scope: GlobalExpressions carry no recorded types; they are typed by the typifier alone.
   Compose components must fit the composed type, and the init expression of a constant /
   global variable / override must have the declared type. *)
Definition global_func (m : module) : func := mkfunc "" [] None [] (m_global_exprs m) [] [] [].

Definition chk_global_types (m : module) : list wf_violation :=
  let tys := infer_all m (global_func m) in
  check_idx (fun i e =>
               match e with
               | ECompose t cs =>
                 guard (match tinner m t with Some ti => compose_ok m ti (map (prev_ty tys) cs) | None => false end)
                       "global.compose_components" mod_fn i
               | _ => []
               end ++
               guard (negb (existsb (fun r => is_pointer_type (prev_ty tys r)) (value_operands e)))
                     "global.pointer_operand" mod_fn i) 0 (m_global_exprs m) ++
  check_idx (fun i c => guard (match prev_ty tys (c_init c) with
                               | Some t => opt_inner_eqb (tinner m (c_type c)) (Some t)
                               | None => true end) "global.constant_init_type" mod_fn i) 0 (m_constants m) ++
  check_idx (fun i g => guard (match g_init_expr g with
                               | Some h => match prev_ty tys h with
                                           | Some t => opt_inner_eqb (tinner m (g_type g)) (Some t)
                                           | None => true end
                               | None => true end) "global.variable_init_type" mod_fn i) 0 (m_globals m) ++
  check_idx (fun i o => guard (match o_init o with
                               | Some h => match prev_ty tys h with
                                           | Some t => opt_inner_eqb (tinner m (o_type o)) (Some t)
                                           | None => true end
                               | None => true end) "global.override_init_type" mod_fn i) 0 (m_overrides m).

(* ------------------------------------------------------------------ *)
(* clause 5: emit discipline *)

Definition hset := PositiveMap.t unit.
Definition hkey (h : nat) : positive := Pos.of_succ_nat h.
Definition hempty : hset := PositiveMap.empty unit.
Definition hmem (h : nat) (s : hset) : bool :=
  match PositiveMap.find (hkey h) s with Some _ => true | None => false end.
Definition hadd (h : nat) (s : hset) : hset := PositiveMap.add (hkey h) tt s.

(* an intersection of sets ([] would be the universe; never built) *)
Definition aset := list hset.
Definition amem (h : nat) (a : aset) : bool := forallb (hmem h) a.
Definition aadd (h : nat) (a : aset) : aset := map (hadd h) a.
Fixpoint aadd_list (l : list nat) (a : aset) : aset :=
  match l with [] => a | h :: l' => aadd_list l' (aadd h a) end.

Section Emit.
Variable exprs : list expr.
Variable fn : nat.

Definition use_ok (av : aset) (h : nat) : bool :=
  match nth_error exprs h with
  | Some e => pre_emit e || amem h av
  | None => false
  end.

Definition chk_uses (av : aset) (what : string) (at_h : option nat) (l : list nat) : list wf_violation :=
  flat_map (fun r => guard (use_ok av r) what fn (match at_h with Some h => h | None => r end)) l.

(* may this kind sit inside an Emit range?  Literals may (harmless to every backend;
   reported as a note), other pre-emit kinds and statement results may not *)
Definition emittable (e : expr) : bool :=
  match e with
  | ELiteral _ => true
  | _ => negb (pre_emit e || result_kind e)
  end.

Fixpoint chk_emit (h n : nat) (av : aset) : list wf_violation * aset :=
  match n with
  | O => ([], av)
  | S n' =>
    let v := match nth_error exprs h with
             | None => [mkviol "emit.range" fn h]
             | Some e => guard (emittable e) ("emit.covers." ++ expr_kind_name e)%string fn h
             end ++ chk_uses av "emit.operand_unevaluated" (Some h) (refs_of exprs h) in
    let '(v2, av2) := chk_emit (S h) n' (aadd h av) in
    (v ++ v2, av2)
  end.

(* result: violations, available set after the statement, intersection of the
   available sets at every Continue that leaves the statement *)
Fixpoint chk_stmt (fuel : nat) (s : stmt) (av : aset) {struct fuel} : list wf_violation * aset * aset :=
  match fuel with
  | O => ([mkviol "fuel" fn 0], av, [])
  | S n =>
    match s with
    | SEmit a b => let '(v, av') := chk_emit a (b - a) av in (v, av', [])
    | SBlock b => let '(v, _, c) := chk_block n b av in (v, av, c)
    | SIf cnd a r =>
      let '(va, _, ca) := chk_block n a av in
      let '(vr, _, cr) := chk_block n r av in
      (chk_uses av "emit.use_unevaluated.If" None [cnd] ++ va ++ vr, av, ca ++ cr)
    | SSwitch sel cases =>
      let '(vc, cc) := chk_cases n cases av in
      (chk_uses av "emit.use_unevaluated.Switch" None [sel] ++ vc, av, cc)
    | SLoop body cont bi =>
      let '(vb, avb, cb) := chk_block n body av in
      let '(vc, avc, _) := chk_block n cont (avb ++ cb) in
      (vb ++ vc ++ chk_uses avc "emit.use_unevaluated.BreakIf" None (opt_list bi), av, [])
    | SBreak | SKill => ([], av, [])
    | SContinue => ([], av, av)
    | SReturn v => (chk_uses av "emit.use_unevaluated.Return" None (opt_list v), av, [])
    | SBarrier _ | SStore _ _ | SAtomic _ _ _ _ _ | SCall _ _ _ | SOther _ _ =>
      (chk_uses av ("emit.use_unevaluated." ++
                    match s with SStore _ _ => "Store" | SAtomic _ _ _ _ _ => "Atomic" | SCall _ _ _ => "Call" | _ => "Other" end)%string
                None (stmt_uses exprs s) ++
       flat_map (fun r => guard (negb (amem r av)) "emit.result_defined_twice" fn r) (stmt_defs exprs s),
       aadd_list (stmt_defs exprs s) av, [])
    end
  end
with chk_block (fuel : nat) (b : list stmt) (av : aset) {struct fuel} : list wf_violation * aset * aset :=
  match fuel with
  | O => ([mkviol "fuel" fn 0], av, [])
  | S n =>
    match b with
    | [] => ([], av, [])
    | s :: b' =>
      let '(v1, av1, c1) := chk_stmt n s av in
      let '(v2, av2, c2) := chk_block n b' av1 in
      (v1 ++ v2, av2, c1 ++ c2)
    end
  end
with chk_cases (fuel : nat) (cs : list (switch_value * list stmt * bool)) (av : aset) {struct fuel} : list wf_violation * aset :=
  match fuel with
  | O => ([mkviol "fuel" fn 0], [])
  | S n =>
    match cs with
    | [] => ([], [])
    | (_, b, _) :: cs' =>
      let '(v1, _, c1) := chk_block n b av in
      let '(v2, c2) := chk_cases n cs' av in
      (v1 ++ v2, c1 ++ c2)
    end
  end.

(* handles covered by Emit ranges, in syntactic order *)
Fixpoint covered_stmt (fuel : nat) (s : stmt) {struct fuel} : option (list nat) :=
  match fuel with
  | O => None
  | S n =>
    match s with
    | SEmit a b => Some (seq a (b - a))
    | SBlock b => covered_block n b
    | SIf _ a r => match covered_block n a, covered_block n r with Some x, Some y => Some (x ++ y) | _, _ => None end
    | SSwitch _ cases => covered_cases n cases
    | SLoop b c _ => match covered_block n b, covered_block n c with Some x, Some y => Some (x ++ y) | _, _ => None end
    | _ => Some []
    end
  end
with covered_block (fuel : nat) (b : list stmt) {struct fuel} : option (list nat) :=
  match fuel with
  | O => None
  | S n =>
    match b with
    | [] => Some []
    | s :: b' => match covered_stmt n s, covered_block n b' with Some x, Some y => Some (x ++ y) | _, _ => None end
    end
  end
with covered_cases (fuel : nat) (cs : list (switch_value * list stmt * bool)) {struct fuel} : option (list nat) :=
  match fuel with
  | O => None
  | S n =>
    match cs with
    | [] => Some []
    | (_, b, _) :: cs' => match covered_block n b, covered_cases n cs' with Some x, Some y => Some (x ++ y) | _, _ => None end
    end
  end.

(* duplicates of a handle list, found with a set *)
Fixpoint dups_from (seen : hset) (l : list nat) : list nat :=
  match l with
  | [] => []
  | h :: l' => if hmem h seen then h :: dups_from seen l' else dups_from (hadd h seen) l'
  end.

End Emit.

Definition chk_emit_func (fn : nat) (f : func) : list wf_violation :=
  let '(v, _, _) := chk_block (f_exprs f) fn (body_fuel f) (f_body f) [hempty] in
  v ++
  match covered_block (body_fuel f) (f_body f) with
  | None => [mkviol "fuel" fn 1]
  | Some cov =>
    map (fun h => mkviol "emit.covered_twice" fn h) (dups_from hempty cov) ++
    (* every evaluated (not pre-emit, not statement-result) expression is covered *)
    check_idx (fun i e => guard (pre_emit e || result_kind e || existsb (Nat.eqb i) cov)
                                ("emit.uncovered." ++ expr_kind_name e)%string fn i) 0 (f_exprs f)
  end.

Definition emit_notes (fn : nat) (f : func) : list wf_violation :=
  match covered_block (body_fuel f) (f_body f) with
  | None => []
  | Some cov =>
    flat_map (fun h => match nth_error (f_exprs f) h with
                       | Some (ELiteral _) => [mkviol "note.literal_inside_emit" fn h]
                       | _ => [] end) cov
  end.

(* ------------------------------------------------------------------ *)
(* clause 6: all paths return *)

Record oset := mko { o_n : bool; o_b : bool; o_c : bool; o_rv : bool; o_rn : bool; o_bad : bool }.
Definition o_empty : oset := mko false false false false false false.
Definition o_normal : oset := mko true false false false false false.
Definition o_union (x y : oset) : oset :=
  mko (o_n x || o_n y) (o_b x || o_b y) (o_c x || o_c y) (o_rv x || o_rv y) (o_rn x || o_rn y) (o_bad x || o_bad y).
Definition o_no_n (x : oset) : oset := mko false (o_b x) (o_c x) (o_rv x) (o_rn x) (o_bad x).
Definition o_seq (x y : oset) : oset := if o_n x then o_union (o_no_n x) y else x.

Section Outs.
Variable okv : nat -> bool.    (* is this handle acceptable as a returned value? *)

Fixpoint outs_stmt (fuel : nat) (s : stmt) {struct fuel} : option oset :=
  match fuel with
  | O => None
  | S n =>
    match s with
    | SBlock b => outs_block n b
    | SIf _ a r => match outs_block n a, outs_block n r with Some x, Some y => Some (o_union x y) | _, _ => None end
    | SSwitch _ cases =>
      match outs_cases n cases with
      | Some (u, _) =>
        Some (mko (o_n u || o_b u || negb (has_default cases)) false (o_c u) (o_rv u) (o_rn u) (o_bad u))
      | None => None
      end
    | SLoop body cont bi =>
      match outs_block n body, outs_block n cont with
      | Some x, Some y =>
        Some (mko (o_b x || o_b y || match bi with Some _ => true | None => false end) false false
                  (o_rv x || o_rv y) (o_rn x || o_rn y) (o_bad x || o_bad y))
      | _, _ => None
      end
    | SBreak => Some (mko false true false false false false)
    | SContinue => Some (mko false false true false false false)
    | SReturn (Some v) => Some (mko false false false true false (negb (okv v)))
    | SReturn None => Some (mko false false false false true false)
    | SKill => Some o_empty
    | _ => Some o_normal
    end
  end
with outs_block (fuel : nat) (b : list stmt) {struct fuel} : option oset :=
  match fuel with
  | O => None
  | S n =>
    match b with
    | [] => Some o_normal
    | s :: b' => match outs_stmt n s, outs_block n b' with Some x, Some y => Some (o_seq x y) | _, _ => None end
    end
  end
(* (union over every entry point of the case list, outcomes when entering at the first case) *)
with outs_cases (fuel : nat) (cs : list (switch_value * list stmt * bool)) {struct fuel} : option (oset * oset) :=
  match fuel with
  | O => None
  | S n =>
    match cs with
    | [] => Some (o_empty, o_normal)
    | (_, b, ft) :: cs' =>
      match outs_block n b, outs_cases n cs' with
      | Some x, Some (u, f) =>
        let here := if ft then o_seq x f else x in
        Some (o_union here u, here)
      | _, _ => None
      end
    end
  end.
End Outs.

Definition chk_returns (m : module) (fn : nat) (f : func) (tys recd : list (option type_inner)) : list wf_violation :=
  let okv := match f_result f with
             | Some r => fun v => opt_inner_eqb (prev_ty tys v) (tinner m (fr_type r)) ||
                                  opt_inner_eqb (prev_ty recd v) (tinner m (fr_type r))
             | None => fun _ => false
             end in
  match outs_block okv (body_fuel f) (f_body f) with
  | None => [mkviol "fuel" fn 2]
  | Some o =>
    guard (negb (o_b o)) "return.break_outside_loop" fn 0 ++
    guard (negb (o_c o)) "return.continue_outside_loop" fn 0 ++
    match f_result f with
    | Some _ => guard (negb (o_n o)) "return.falls_off_end" fn 0 ++
                guard (negb (o_rn o)) "return.missing_value" fn 0 ++ guard (negb (o_bad o)) "return.value_type" fn 0
    | None => guard (negb (o_rv o)) "return.unexpected_value" fn 0
    end
  end.

(* ------------------------------------------------------------------ *)
(* clause 7: stores and calls are type-correct.  Two typings are available: [tys], the
   independently inferred types (recorded ones for kinds without a rule), and [recd], the recorded
   types.  A wrong recorded or leftover abstract type upstream (reported by clause 2 / 4 at its
   root) makes one of the two typings drift; a statement is reported only when it is ill-typed
   under BOTH, i.e. when the statement itself is at fault. *)

Definition store_ok (m : module) (pt vt : type_inner) : bool :=
  match pt with
  | TPointer b _ =>
    match tinner m b with
    | Some (TAtomic s) => inner_eqb vt (TScalar s)
    | Some t => inner_eqb vt t
    | None => false
    end
  | TValuePointer (Some n) s _ => inner_eqb vt (TVector n s)
  | TValuePointer None s _ => inner_eqb vt (TScalar s)
  | _ => false
  end.

Fixpoint args_ok (m : module) (tys : list (option type_inner)) (args : list nat) (params : list fn_arg) : bool :=
  match args, params with
  | [], [] => true
  | a :: args', p :: params' => opt_inner_eqb (prev_ty tys a) (tinner m (fa_type p)) && args_ok m tys args' params'
  | _, _ => false
  end.

Definition store_typed (m : module) (tys : list (option type_inner)) (p v : nat) : bool :=
  match prev_ty tys p, prev_ty tys v with Some pt, Some vt => store_ok m pt vt | _, _ => false end.

Definition chk_store_call_stmt (m : module) (fn : nat) (f : func) (tys recd : list (option type_inner)) (s : stmt) : list wf_violation :=
  match s with
  | SStore p v =>
    guard (store_typed m tys p v || store_typed m recd p v)
          ("store.type." ++ match nth_error (f_exprs f) v with Some e => expr_kind_name e | None => "?" end)%string fn p
  | SCall g args res =>
    match nth_error (m_functions m) g with
    | None => [mkviol "call.target" fn g]
    | Some callee =>
      guard (List.length args =? List.length (f_args callee)) "call.argument_count" fn g ++
      guard (args_ok m tys args (f_args callee) || args_ok m recd args (f_args callee) ||
             negb (List.length args =? List.length (f_args callee))) "call.argument_type" fn g ++
      guard (match res, f_result callee with
             | Some r, Some _ => match nth_error (f_exprs f) r with Some (ECallResult g') => g' =? g | _ => false end
             | None, None => true
             | _, _ => false end) "call.result" fn g
    end
  | _ => []
  end.

Definition chk_store_call (m : module) (fn : nat) (f : func) (tys recd : list (option type_inner)) : list wf_violation :=
  forall_block (body_fuel f) (chk_store_call_stmt m fn f tys recd) fn (f_body f).

(* ------------------------------------------------------------------ *)
(* clause 8: entry-point interface *)

(* bindings of an argument / result of type t with optional direct binding;
   None = some part carries no binding *)
Definition io_bindings (m : module) (t : nat) (b : option binding) : option (list binding) :=
  match b with
  | Some x => Some [x]
  | None =>
    match tinner m t with
    | Some (TStruct ms _) =>
      fold_right (fun mb acc => match m_binding mb, acc with Some x, Some l => Some (x :: l) | _, _ => None end) (Some []) ms
    | _ => None
    end
  end.

Definition binding_key_eqb (a b : binding) : bool :=
  match a, b with
  | BBuiltin x _, BBuiltin y _ => String.eqb x y
  | BLocation x _ bx, BLocation y _ by_ => Z.eqb x y && (if opt_eq_dec Z.eq_dec bx by_ then true else false)
  | _, _ => false
  end.

Fixpoint bindings_distinct (l : list binding) : bool :=
  match l with
  | [] => true
  | b :: l' => negb (existsb (binding_key_eqb b) l') && bindings_distinct l'
  end.

(* dual-source blending (WGSL 13.3.1.x): when one output carries @blend_src, the location outputs are exactly two,
   both at location 0, carrying blend_src 0 and 1 *)
Definition blend_src_complete (l : list binding) : bool :=
  let locs := flat_map (fun b => match b with BLocation x _ bs => [(x, bs)] | _ => [] end) l in
  if existsb (fun p => match snd p with Some _ => true | None => false end) locs then
    match locs with
    | [(x0, Some a); (x1, Some b)] => Z.eqb x0 0 && Z.eqb x1 0 && ((Z.eqb a 0 && Z.eqb b 1) || (Z.eqb a 1 && Z.eqb b 0))
    | _ => false
    end
  else true.

Definition chk_entry (m : module) (i : nat) (ep : entry_point) : list wf_violation :=
  let fn := List.length (m_functions m) + i in
  let f := ep_func ep in
  let ins := map (fun a => io_bindings m (fa_type a) (fa_binding a)) (f_args f) in
  guard (forallb (fun o => match o with Some _ => true | None => false end) ins) "entry.argument_unbound" fn 0 ++
  guard (bindings_distinct (flat_map (fun o => match o with Some l => l | None => [] end) ins)) "entry.argument_binding_conflict" fn 0 ++
  match f_result f with
  | None => []
  | Some r =>
    match io_bindings m (fr_type r) (fr_binding r) with
    | None => [mkviol "entry.result_unbound" fn 0]
    | Some l => guard (bindings_distinct l) "entry.result_binding_conflict" fn 0 ++
                guard (blend_src_complete l) "entry.blend_src_incomplete" fn 0
    end
  end ++
  match ep_stage ep with
  | StCompute => guard (match ep_workgroup ep with [x; y; z] => (0 <? x)%Z && (0 <? y)%Z && (0 <? z)%Z | _ => false end)
                       "entry.workgroup_size" fn 0
  | _ => []
  end.

(* ------------------------------------------------------------------ *)

Definition chk_func (m : module) (fn : nat) (f : func) : list wf_violation :=
  let tys := assumed_all m f in
  let recd := recorded_all m f in
  chk_expr_types m fn f tys recd ++ chk_emit_func fn f ++ chk_returns m fn f tys recd ++ chk_store_call m fn f tys recd.

Definition wf_module (m : module) : list wf_violation :=
  chk_handles m ++ chk_abstract m ++ chk_unique m ++ chk_global_types m ++
  check_idx (chk_func m) 0 (all_funcs m) ++
  check_idx (chk_entry m) 0 (m_entry_points m).

(* observations that are not violations: kinds the typifier has no rule for, literals inside Emit ranges *)
Definition wf_notes (m : module) : list wf_violation :=
  check_idx (fun fn f => uninferred_from fn (f_exprs f) (infer_all m f) 0 ++ emit_notes fn f) 0 (all_funcs m).
