(* C09: the local type check of IR/Wf.v (recorded type of i = rule applied to the recorded
   types of i's operands) implies that the recorded table equals the independently
   inferred one wherever the typifier has a rule -- for ALL functions. *)
From Coq Require Import List ZArith String Bool Arith PeanoNat Lia.
Import ListNotations.
Require Import Naga.IR.Syntax Naga.IR.Infer Naga.IR.Paths Naga.IR.Wf Naga.IR.WfProofs.
Open Scope nat_scope.

Lemma recorded_all_spec m f v : prev_ty (recorded_all m f) v = recorded m f v.
Proof.
  unfold prev_ty, recorded_all, recorded. rewrite nth_error_map.
  destruct (nth_error (f_expr_types f) v) as [r |]; cbn; [| reflexivity]. now destruct (resolve m r).
Qed.

(* the typing rule of an expression reads the table only at the expression's operands *)
Lemma infer_expr_ext m f e p1 p2 :
  (forall r, In r (expr_refs e) -> prev_ty p1 r = prev_ty p2 r) -> infer_expr m f p1 e = infer_expr m f p2 e.
Proof.
  intros H. destruct e; cbn [infer_expr expr_refs] in *; try reflexivity.
  - rewrite (H base) by (cbn; auto). reflexivity.
  - rewrite (H base) by (cbn; auto). reflexivity.
  - rewrite (H value) by (cbn; auto). reflexivity.
  - rewrite (H vector) by (cbn; auto). reflexivity.
  - rewrite (H pointer) by (cbn; auto). reflexivity.
  - apply H. cbn; auto.
  - rewrite (H l) by (cbn; auto). rewrite (H r) by (cbn; auto). reflexivity.
  - apply H. cbn; auto.
  - destruct f0; try reflexivity; rewrite (H arg) by (cbn; auto); reflexivity.
  - destruct args as [| a0 rest]; [reflexivity |]. rewrite (H a0) by (cbn; auto).
    destruct rest as [| a1 rest]; [reflexivity |]. rewrite (H a1) by (cbn; auto). reflexivity.
  - rewrite (H e) by (cbn; auto). reflexivity.
Qed.

Lemma opt_inner_eqb_true a t : opt_inner_eqb a (Some t) = true -> a = Some t.
Proof.
  unfold opt_inner_eqb, inner_eqb. destruct a as [t' |]; [| discriminate].
  destruct (type_inner_eq_dec t' t); [congruence | discriminate].
Qed.

Lemma chk_types_from_nil m f fn tys recd : forall es rec i0,
  chk_types_from m f fn tys recd es rec i0 = [] -> List.length rec = List.length es ->
  forall i e, nth_error es i = Some e ->
  exists r, nth_error rec i = Some r /\ r <> RNone /\
            forall t, infer_expr m f recd e = Some t -> resolve m r = Some t.
Proof.
  induction es as [| e0 es IH]; intros rec i0 H Hl i e Hn.
  - destruct i; discriminate.
  - destruct rec as [| r0 rec]; [discriminate |]. cbn [chk_types_from] in H.
    apply app_eq_nil in H. destruct H as [H1 H]. apply app_eq_nil in H. destruct H as [_ H].
    apply app_eq_nil in H. destruct H as [_ H].
    destruct i as [| i].
    + cbn in Hn. inversion Hn; subst. exists r0. split; [reflexivity |].
      destruct r0 as [h | ti |].
      * split; [discriminate |]. intros t Ht. rewrite Ht in H1. apply guard_nil in H1. now apply opt_inner_eqb_true.
      * split; [discriminate |]. intros t Ht. rewrite Ht in H1. apply guard_nil in H1. now apply opt_inner_eqb_true.
      * discriminate H1.
    + cbn in Hn. cbn in Hl. exact (IH rec (S i0) H (eq_add_S _ _ Hl) i e Hn).
Qed.

Lemma prev_ty_app_lt l x j : j < List.length l -> prev_ty (l ++ [x]) j = prev_ty l j.
Proof. intros H. unfold prev_ty. now rewrite nth_error_app1. Qed.

Lemma prev_ty_app_eq l x : prev_ty (l ++ [x]) (List.length l) = x.
Proof. unfold prev_ty. rewrite nth_error_app2 by lia. rewrite Nat.sub_diag. cbn. now destruct x. Qed.

Lemma prev_ty_app_eq' l x j : j = List.length l -> prev_ty (l ++ [x]) j = x.
Proof. intros ->. apply prev_ty_app_eq. Qed.

Lemma prev_ty_app_gt l (x : option type_inner) j : j > List.length l -> prev_ty (l ++ [x]) j = None.
Proof.
  intros H. unfold prev_ty. rewrite nth_error_app2 by lia. destruct (j - List.length l) as [| k] eqn:Hk; [lia |].
  cbn. now destruct k.
Qed.

Section Local.
Variables (m : module) (f : func) (fn : nat).
Hypothesis Hchk : chk_expr_types m fn f (assumed_all m f) (recorded_all m f) = [].
Hypothesis Hlen : List.length (f_expr_types f) = List.length (f_exprs f).
Hypothesis Hback : forall i e, nth_error (f_exprs f) i = Some e -> Forall (fun r => r < i) (expr_refs e).

Lemma local_step : forall es2 es1 prev inf,
  f_exprs f = es1 ++ es2 -> List.length prev = List.length es1 -> List.length inf = List.length es1 ->
  (forall j, j < List.length es1 -> prev_ty prev j = recorded m f j) ->
  (forall j t, prev_ty inf j = Some t -> recorded m f j = Some t) ->
  forall j t, prev_ty (snd (infer_from m f prev inf es2)) j = Some t -> recorded m f j = Some t.
Proof.
  induction es2 as [| e es2 IH]; intros es1 prev inf Heq Hlp Hli Hagree Hinf j t Hj.
  - cbn in Hj. now apply Hinf.
  - cbn [infer_from] in Hj. set (i := List.length es1) in *.
    assert (Hn : nth_error (f_exprs f) i = Some e).
    { rewrite Heq. rewrite nth_error_app2 by (unfold i; lia). unfold i. now rewrite Nat.sub_diag. }
    assert (Hext : infer_expr m f prev e = infer_expr m f (recorded_all m f) e).
    { apply infer_expr_ext. intros r Hr. pose proof (Hback i e Hn) as Hb. rewrite Forall_forall in Hb.
      rewrite recorded_all_spec. apply Hagree. now apply Hb. }
    destruct (chk_types_from_nil m f fn _ _ _ _ _ Hchk Hlen i e Hn) as (r & Hr & Hne & Hrule).
    assert (Hrec : recorded m f i = resolve m r). { unfold recorded. now rewrite Hr. }
    refine (IH (es1 ++ [e]) _ _ _ _ _ _ _ j t Hj).
    + now rewrite <- app_assoc.
    + rewrite !app_length. cbn. lia.
    + rewrite !app_length. cbn. lia.
    + intros k Hk. rewrite app_length in Hk. cbn in Hk. destruct (Nat.eq_dec k i) as [-> | Hki].
      * rewrite prev_ty_app_eq' by (unfold i; lia). rewrite Hlp. fold i. unfold assume.
        destruct (infer_expr m f prev e) as [t' |] eqn:Ht'; [| reflexivity].
        rewrite Hrec. symmetry. apply Hrule. now rewrite <- Hext.
      * rewrite prev_ty_app_lt by (fold i in Hlp; lia). apply Hagree. fold i. lia.
    + intros k t' Hk. destruct (Nat.lt_trichotomy k i) as [Hlt | [-> | Hgt]].
      * rewrite prev_ty_app_lt in Hk by (fold i in Hli; lia). now apply Hinf.
      * rewrite prev_ty_app_eq' in Hk by (unfold i; lia). rewrite Hrec. apply Hrule. now rewrite <- Hext.
      * rewrite prev_ty_app_gt in Hk by (fold i in Hli; lia). discriminate.
Qed.

Theorem types_local_sound : forall i t, infer m f i = Some t -> recorded m f i = Some t.
Proof.
  intros i t H. unfold infer, infer_all in H.
  refine (local_step (f_exprs f) [] [] [] eq_refl eq_refl eq_refl _ _ i t H).
  - intros j Hj. cbn in Hj. lia.
  - intros j t' Hj. unfold prev_ty in Hj. destruct j; discriminate.
Qed.

End Local.
