(* C09: execution paths of a naga IR function body.

   A path is the sequence of events one structured execution of a block
   produces, together with how the block was left.  Events record which
   expression handles are *evaluated* (by an Emit range, in order, or defined
   as the result of a Call/Atomic/... statement) and which are *used* (by a
   statement, or as an operand of an expression being evaluated by an Emit).
   The predicate over-approximates run-time behaviour: every branch of an If,
   every entry point of a Switch (with fall-through), and every finite number
   of Loop iterations is a path, whatever the data (a continuing block takes part in
   a further iteration only when it completes normally: `continue` is not allowed there).  Safety statements
   ("on every path ...") proved over it therefore hold for every execution. *)
From Coq Require Import List ZArith String Bool.
Import ListNotations.
Require Import Naga.IR.Syntax.
Open Scope string_scope.

Inductive event := EvUse (h : nat) | EvEval (h : nat).
Inductive outcome := ONormal | OBrk | OCont | ORet (v : option nat) | OKill.

(* expression kinds that are produced by a statement (their handle is the
   statement's result), not by an Emit *)
Definition result_tags : list string :=
  ["ExprWorkGroupUniformLoadResult"; "ExprSubgroupBallotResult"; "ExprSubgroupOperationResult"].

Definition result_kind (e : expr) : bool :=
  match e with
  | ECallResult _ | EAtomicResult _ _ => true
  | EOther tag _ => existsb (String.eqb tag) result_tags
  | _ => false
  end.

(* kinds that are available from function entry (upstream: needs_pre_emit).
   ExprRayQueryProceedResult is the result of a RayQuery statement, but the shared
   decoder (IR/Decode.v) does not expose that statement's result handle, so its
   definition point cannot be tracked: it is treated as always available. *)
Definition pre_emit (e : expr) : bool :=
  match e with
  | ELiteral _ | EConstant _ | EOverride _ | EZeroValue _ | EFunctionArgument _
  | EGlobalVariable _ | ELocalVariable _ => true
  | EOther tag _ => String.eqb tag "ExprRayQueryProceedResult"
  | _ => false
  end.

Section WithExprs.
Variable exprs : list expr.

Definition refs_of (h : nat) : list nat :=
  match nth_error exprs h with Some e => expr_refs e | None => [] end.

Definition is_result (h : nat) : bool :=
  match nth_error exprs h with Some e => result_kind e | None => false end.

(* evaluation of the handles h, h+1, ..., h+n-1 in order *)
Fixpoint emit_events (h n : nat) : list event :=
  match n with
  | O => []
  | S n' => map EvUse (refs_of h) ++ EvEval h :: emit_events (S h) n'
  end.

(* handles a statement reads / defines (at the statement itself, not in nested blocks;
   a Loop's break_if is read after the continuing block, see path_loop) *)
Definition stmt_uses (s : stmt) : list nat :=
  match s with
  | SIf c _ _ => [c]
  | SSwitch sel _ => [sel]
  | SReturn v => opt_list v
  | SStore p v => [p; v]
  | SAtomic p _ c v _ => p :: opt_list c ++ [v]
  | SCall _ args _ => args
  | SOther _ refs => filter (fun r => negb (is_result r)) refs
  | _ => []
  end.

Definition stmt_defs (s : stmt) : list nat :=
  match s with
  | SAtomic _ _ _ _ r => opt_list r
  | SCall _ _ r => opt_list r
  | SOther _ refs => filter is_result refs
  | _ => []
  end.

Definition simple_events (s : stmt) : list event := map EvUse (stmt_uses s) ++ map EvEval (stmt_defs s).

Definition is_simple (s : stmt) : bool :=
  match s with
  | SBarrier _ | SStore _ _ | SAtomic _ _ _ _ _ | SCall _ _ _ | SOther _ _ => true
  | _ => false
  end.

Definition has_default (cases : list (switch_value * list stmt * bool)) : bool :=
  existsb (fun c => match c with (SVDefault, _, _) => true | _ => false end) cases.

(* leaving a loop body / continuing block: Some o = the loop is left with o *)
Definition loop_exit (o : outcome) : option outcome :=
  match o with
  | OBrk => Some ONormal
  | ORet v => Some (ORet v)
  | OKill => Some OKill
  | ONormal | OCont => None
  end.

(* leaving a switch case *)
Definition switch_out (o : outcome) : outcome := match o with OBrk => ONormal | _ => o end.

Inductive path_stmt : stmt -> list event -> outcome -> Prop :=
| p_emit a b : path_stmt (SEmit a b) (emit_events a (b - a)) ONormal
| p_simple s : is_simple s = true -> path_stmt s (simple_events s) ONormal
| p_block b evs o : path_block b evs o -> path_stmt (SBlock b) evs o
| p_if_accept c a r evs o : path_block a evs o -> path_stmt (SIf c a r) (EvUse c :: evs) o
| p_if_reject c a r evs o : path_block r evs o -> path_stmt (SIf c a r) (EvUse c :: evs) o
| p_switch sel pre rest evs o :
    rest <> [] -> path_from_case rest evs o -> path_stmt (SSwitch sel (pre ++ rest)) (EvUse sel :: evs) (switch_out o)
| p_switch_nomatch sel cases : has_default cases = false -> path_stmt (SSwitch sel cases) [EvUse sel] ONormal
| p_loop body cont bi evs o : path_loop body cont bi evs o -> path_stmt (SLoop body cont bi) evs o
| p_break : path_stmt SBreak [] OBrk
| p_continue : path_stmt SContinue [] OCont
| p_return v : path_stmt (SReturn v) (map EvUse (opt_list v)) (ORet v)
| p_kill : path_stmt SKill [] OKill
with path_block : list stmt -> list event -> outcome -> Prop :=
| pb_nil : path_block [] [] ONormal
| pb_next s b e1 e2 o : path_stmt s e1 ONormal -> path_block b e2 o -> path_block (s :: b) (e1 ++ e2) o
| pb_stop s b e1 o : path_stmt s e1 o -> o <> ONormal -> path_block (s :: b) e1 o
with path_from_case : list (switch_value * list stmt * bool) -> list event -> outcome -> Prop :=
| pf_leave v b ft cs evs o : path_block b evs o -> (o <> ONormal \/ ft = false \/ cs = []) -> path_from_case ((v, b, ft) :: cs) evs o
| pf_fall v b c cs e1 e2 o :
    path_block b e1 ONormal -> path_from_case (c :: cs) e2 o -> path_from_case ((v, b, true) :: c :: cs) (e1 ++ e2) o
with path_loop : list stmt -> list stmt -> option nat -> list event -> outcome -> Prop :=
| pl_exit_body body cont bi evs o o' :
    path_block body evs o -> loop_exit o = Some o' -> path_loop body cont bi evs o'
| pl_exit_cont body cont bi e1 o1 e2 o2 o' :
    path_block body e1 o1 -> loop_exit o1 = None -> path_block cont e2 o2 -> loop_exit o2 = Some o' ->
    path_loop body cont bi (e1 ++ e2) o'
| pl_break_if body cont c e1 o1 e2 :
    path_block body e1 o1 -> loop_exit o1 = None -> path_block cont e2 ONormal ->
    path_loop body cont (Some c) (e1 ++ e2 ++ [EvUse c]) ONormal
| pl_again body cont bi e1 o1 e2 e3 o :
    path_block body e1 o1 -> loop_exit o1 = None -> path_block cont e2 ONormal ->
    path_loop body cont bi e3 o ->
    path_loop body cont bi (e1 ++ e2 ++ map EvUse (opt_list bi) ++ e3) o.

(* "every use is preceded by an evaluation": E = handles evaluated before the
   event list starts; pre-emit kinds need no evaluation *)
Definition is_pre (h : nat) : Prop := exists e, nth_error exprs h = Some e /\ pre_emit e = true.

Fixpoint uses_ok (E : nat -> Prop) (evs : list event) : Prop :=
  match evs with
  | [] => True
  | EvUse h :: r => (is_pre h \/ E h) /\ uses_ok E r
  | EvEval h :: r => uses_ok (fun x => x = h \/ E x) r
  end.

Definition after (E : nat -> Prop) (evs : list event) : nat -> Prop := fun h => E h \/ In (EvEval h) evs.

End WithExprs.

(* sub-statement relation: s occurs somewhere in the statement tree of block b *)
Inductive substmt (s : stmt) : list stmt -> Prop :=
| sub_here b : In s b -> substmt s b
| sub_block b b' : In (SBlock b') b -> substmt s b' -> substmt s b
| sub_if_accept b c a r : In (SIf c a r) b -> substmt s a -> substmt s b
| sub_if_reject b c a r : In (SIf c a r) b -> substmt s r -> substmt s b
| sub_switch b sel cases v cb ft : In (SSwitch sel cases) b -> In (v, cb, ft) cases -> substmt s cb -> substmt s b
| sub_loop_body b body cont bi : In (SLoop body cont bi) b -> substmt s body -> substmt s b
| sub_loop_cont b body cont bi : In (SLoop body cont bi) b -> substmt s cont -> substmt s b.
