(* C09, clause 8 (entry-point interface): what an empty violation list says about the bindings of every
   entry point - distinct keys, and a complete dual-source pair whenever @blend_src occurs. *)
From Coq Require Import List ZArith String Bool Lia.
Import ListNotations.
Require Import Naga.IR.Syntax Naga.IR.Wf Naga.IR.WfProofs.
Open Scope Z_scope.

(* location bindings of a binding list, as (location, blend_src) pairs *)
Definition loc_pairs (l : list binding) : list (Z * option Z) :=
  flat_map (fun b => match b with BLocation x _ bs => [(x, bs)] | _ => [] end) l.

Lemma blend_src_complete_sound l :
  blend_src_complete l = true ->
  (forall p, In p (loc_pairs l) -> snd p = None) \/
  (exists a b, loc_pairs l = [(0, Some a); (0, Some b)] /\ ((a = 0 /\ b = 1) \/ (a = 1 /\ b = 0))).
Proof.
  unfold blend_src_complete. fold (loc_pairs l).
  destruct (existsb (fun p : Z * option Z => match snd p with Some _ => true | None => false end) (loc_pairs l)) eqn:He.
  - intros H. right.
    destruct (loc_pairs l) as [|[x0 [a|]] [|[x1 [b|]] [|q r]]]; try discriminate H.
    apply andb_true_iff in H. destruct H as [H Hab].
    apply andb_true_iff in H. destruct H as [H0 H1].
    apply Z.eqb_eq in H0. apply Z.eqb_eq in H1. subst x0 x1.
    exists a, b. split; [reflexivity|].
    apply orb_true_iff in Hab. destruct Hab as [Hab|Hab]; apply andb_true_iff in Hab; destruct Hab as [Ha Hb];
      apply Z.eqb_eq in Ha; apply Z.eqb_eq in Hb; [left|right]; split; assumption.
  - intros _. left. intros p Hp.
    destruct (snd p) as [z|] eqn:Hs; [|reflexivity].
    exfalso.
    assert (Hex : existsb (fun p : Z * option Z => match snd p with Some _ => true | None => false end) (loc_pairs l) = true).
    { apply existsb_exists. exists p. split; [assumption|]. rewrite Hs. reflexivity. }
    rewrite Hex in He. discriminate He.
Qed.

Lemma bindings_distinct_sound : forall l, bindings_distinct l = true ->
  forall i j a b, nth_error l i = Some a -> nth_error l j = Some b -> (i < j)%nat -> binding_key_eqb a b = false.
Proof.
  induction l as [|x l IH]; intros H i j a b Hi Hj Hlt.
  - destruct i; discriminate Hi.
  - simpl in H. apply andb_true_iff in H. destruct H as [Hx Hl].
    destruct i as [|i].
    + simpl in Hi. inversion Hi; subst a.
      destruct j as [|j]; [lia|]. simpl in Hj.
      apply negb_true_iff in Hx.
      destruct (binding_key_eqb x b) eqn:E; [|reflexivity].
      assert (Hex : existsb (binding_key_eqb x) l = true).
      { apply existsb_exists. exists b. split; [eapply nth_error_In; eassumption | assumption]. }
      rewrite Hex in Hx. discriminate Hx.
    + destruct j as [|j]; [lia|]. simpl in Hi, Hj.
      apply (IH Hl i j a b Hi Hj). lia.
Qed.

(* the result bindings of an entry point, when every part of the result carries one *)
Definition result_bindings (m : module) (ep : entry_point) : option (list binding) :=
  match f_result (ep_func ep) with
  | None => Some []
  | Some r => io_bindings m (fr_type r) (fr_binding r)
  end.

Lemma chk_entry_result m i ep :
  chk_entry m i ep = [] ->
  exists l, result_bindings m ep = Some l /\ bindings_distinct l = true /\ blend_src_complete l = true.
Proof.
  unfold chk_entry, result_bindings. intros H.
  apply app_nil_l2 in H. destruct H as [_ H].
  apply app_nil_l2 in H. destruct H as [_ H].
  apply app_nil_l2 in H. destruct H as [H _].
  destruct (f_result (ep_func ep)) as [r|].
  - destruct (io_bindings m (fr_type r) (fr_binding r)) as [l|]; [|discriminate H].
    apply app_nil_l2 in H. destruct H as [H1 H2].
    apply guard_nil in H1. apply guard_nil in H2.
    exists l. repeat split; assumption.
  - exists []. repeat split; reflexivity.
Qed.

Theorem entry_results_sound_thm : forall m, wf_module m = [] ->
  forall i ep, nth_error (m_entry_points m) i = Some ep ->
  exists l, result_bindings m ep = Some l /\
    (forall p q a b, nth_error l p = Some a -> nth_error l q = Some b -> (p < q)%nat -> binding_key_eqb a b = false) /\
    ((forall pr, In pr (loc_pairs l) -> snd pr = None) \/
     (exists a b, loc_pairs l = [(0, Some a); (0, Some b)] /\ ((a = 0 /\ b = 1) \/ (a = 1 /\ b = 0)))).
Proof.
  intros m Hwf i ep Hep.
  destruct (wf_module_parts m Hwf) as [_ Hparts].
  assert (He : check_idx (chk_entry m) 0 (m_entry_points m) = []).
  { repeat match type of Hparts with _ /\ _ => destruct Hparts as [_ Hparts] end. exact Hparts. }
  pose proof (check_idx_nil (chk_entry m)) as Hci.
  specialize (Hci (m_entry_points m) 0%nat He i ep Hep).
  destruct (chk_entry_result m _ ep Hci) as [l [Hl [Hd Hb]]].
  exists l. split; [exact Hl|]. split.
  - intros p q a b Hp Hq Hlt. eapply bindings_distinct_sound; eassumption.
  - apply blend_src_complete_sound. exact Hb.
Qed.
