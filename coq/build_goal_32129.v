(* C13 — CompactExpressions: the model (Passes/Compact.v) is an instance of the
   general renumbering lemma (Passes/RenameSound.v). *)
From Coq Require Import List Arith Bool String Lia ZArith.
Import ListNotations.
Require Import Naga.IR.Syntax Naga.IR.Values Naga.IR.Sem.
Require Import Naga.Passes.Remap Naga.Passes.RemapProofs Naga.Passes.Compact Naga.Passes.RenameSound.
Local Open Scope nat_scope.

(* ====================================================================== *)
(* Induction over statements (nested lists)                                *)
Definition structured (s : stmt) : bool :=
  match s with SBlock _ | SIf _ _ _ | SSwitch _ _ | SLoop _ _ _ => true | _ => false end.

Section StmtInd.
Variable P : stmt -> Prop.
Variable Q : list stmt -> Prop.
Variable C : list (switch_value * list stmt * bool) -> Prop.
Hypothesis Hleaf : forall s, structured s = false -> P s.
Hypothesis Hblock : forall b, Q b -> P (SBlock b).
Hypothesis Hif : forall c a r, Q a -> Q r -> P (SIf c a r).
Hypothesis Hswitch : forall sel cs, C cs -> P (SSwitch sel cs).
Hypothesis Hloop : forall b c bi, Q b -> Q c -> P (SLoop b c bi).
Hypothesis Qnil : Q [].
Hypothesis Qcons : forall s b, P s -> Q b -> Q (s :: b).
Hypothesis Cnil : C [].
Hypothesis Ccons : forall v b ft cs, Q b -> C cs -> C ((v, b, ft) :: cs).

Fixpoint stmt_ind3 (s : stmt) : P s :=
  let fix go (b : list stmt) : Q b :=
    match b with [] => Qnil | x :: b' => Qcons x b' (stmt_ind3 x) (go b') end in
  match s as s0 return P s0 with
  | SBlock b => Hblock b (go b)
  | SIf c a r => Hif c a r (go a) (go r)
  | SSwitch sel cs =>
    Hswitch sel cs
      ((fix goc (cs : list (switch_value * list stmt * bool)) : C cs :=
          match cs with
          | [] => Cnil
          | (v, b, ft) :: cs' => Ccons v b ft cs' (go b) (goc cs')
          end) cs)
  | SLoop b c bi => Hloop b c bi (go b) (go c)
  | SEmit a b => Hleaf (SEmit a b) eq_refl
  | SBreak => Hleaf SBreak eq_refl
  | SContinue => Hleaf SContinue eq_refl
  | SReturn v => Hleaf (SReturn v) eq_refl
  | SKill => Hleaf SKill eq_refl
  | SBarrier fl => Hleaf (SBarrier fl) eq_refl
  | SStore p v => Hleaf (SStore p v) eq_refl
  | SAtomic p f c v r => Hleaf (SAtomic p f c v r) eq_refl
  | SCall f a r => Hleaf (SCall f a r) eq_refl
  | SOther t refs => Hleaf (SOther t refs) eq_refl
  end.

Fixpoint block_ind3 (b : list stmt) : Q b :=
  match b with [] => Qnil | x :: b' => Qcons x b' (stmt_ind3 x) (block_ind3 b') end.
End StmtInd.

(* ====================================================================== *)
(* Hypothesis of the theorems: handles in range, operands precede their users *)
Definition fn_wf (f : func) : Prop :=
  fwd_free (f_exprs f)
  /\ (forall x, In x (block_uses (f_body f)) -> x < List.length (f_exprs f))
  /\ Forall (fun l => match lv_init l with Some h => h < List.length (f_exprs f) | None => True end) (f_locals f).

Definition module_wf (m : module) : Prop := Forall fn_wf (all_funcs m).

(* executable version, run by the check on every module it sees *)
Fixpoint fwd_freeb (i : nat) (es : list expr) : bool :=
  match es with
  | [] => true
  | e :: es' => forallb (fun x => Nat.ltb x i) (expr_refs e) && fwd_freeb (S i) es'
  end.

Definition fn_wfb (f : func) : bool :=
  let n := List.length (f_exprs f) in
  fwd_freeb 0 (f_exprs f)
  && forallb (fun x => Nat.ltb x n) (block_uses (f_body f))
  && forallb (fun l => match lv_init l with Some h => Nat.ltb h n | None => true end) (f_locals f).

Definition module_wfb (m : module) : bool := forallb fn_wfb (all_funcs m).

Lemma fwd_freeb_sound es i :
  fwd_freeb i es = true -> forall h e x, nth_error es h = Some e -> In x (expr_refs e) -> x < i + h.
Proof.
  revert i. induction es as [|e0 es IH]; intros i H h e x Hn Hx.
  - destruct h; discriminate.
  - cbn [fwd_freeb] in H. apply andb_true_iff in H. destruct H as [H1 H2].
    destruct h as [|h]; cbn in Hn.
    + inversion Hn; subst. rewrite forallb_forall in H1. apply H1 in Hx. apply Nat.ltb_lt in Hx. lia.
    + specialize (IH (S i) H2 h e x Hn Hx). lia.
Qed.

Lemma fn_wfb_sound f : fn_wfb f = true -> fn_wf f.
Proof.
  unfold fn_wfb, fn_wf. intro H. apply andb_true_iff in H. destruct H as [H H3].
  apply andb_true_iff in H. destruct H as [H1 H2]. repeat split.
  - intros h e x Hn Hx. apply (fwd_freeb_sound _ 0 H1 h e x Hn Hx).
  - intros x Hx. rewrite forallb_forall in H2. apply H2 in Hx. apply Nat.ltb_lt. exact Hx.
  - rewrite forallb_forall in H3. apply Forall_forall. intros l Hl. specialize (H3 l Hl).
    destruct (lv_init l); [apply Nat.ltb_lt; exact H3|exact I].
Qed.

Lemma module_wfb_sound m : module_wfb m = true -> module_wf m.
Proof.
  unfold module_wfb, module_wf. intro H. rewrite forallb_forall in H. apply Forall_forall.
  intros f Hf. apply fn_wfb_sound, H, Hf.
Qed.

(* ====================================================================== *)
(* The live set computed by the model                                      *)

Lemma propagate_length es i u : List.length (propagate es i u) = List.length u.
Proof.
  revert u. induction i as [|i IH]; intro u; cbn [propagate]; [reflexivity|].
  rewrite IH. destruct (uget u i); [apply marks_length|reflexivity].
Qed.

Lemma propagate_mono es i u k : uget u k = true -> uget (propagate es i u) k = true.
Proof.
  revert u. induction i as [|i IH]; intros u H; cbn [propagate]; [exact H|].
  apply IH. destruct (uget u i); [apply uget_marks_mono; exact H|exact H].
Qed.

Definition refs_below (es : list expr) : Prop :=
  forall h x, In x (compact_expr_refs (nth h es dummy_expr)) -> x < h.

Lemma fwd_free_refs_below es : fwd_free es -> refs_below es.
Proof.
  intros H h x Hx. destruct (nth_error es h) as [e|] eqn:E.
  - rewrite (nth_error_nth _ _ _ E) in Hx. eapply H; eauto using compact_refs_incl.
Show. 
