(* f32 -> i32 / u32 through the emitted clamp: the float selected by
   clamp(value, lo, hi) = min(max(value, lo), hi) is finite, truncates into the target range and
   truncates to the WGSL value, for every non-NaN operand below 2^31 (2^32).  Structural argument on
   the (sign, mantissa, exponent) form of a binary32 (Flocq BinarySingleNaN / SpecFloat): no real
   analysis.  Used by CatalogueProofs.v for naga_f2i32 / naga_f2u32. *)
From Coq Require Import List ZArith String Bool Lia ZifyBool.
From Coq Require Import Floats.SpecFloat.
From Flocq Require Import Core.Zaux Core.Digits IEEE754.BinarySingleNaN IEEE754.Bits.
Import ListNotations.
Require Import Naga.Base.Bits32 Naga.Base.F32 Naga.IR.Values Naga.Hlsl.Ops.
Open Scope Z_scope.

Lemma bounded_facts m e : SpecFloat.bounded 24 128 m e = true ->
  e <= 104 /\ Z.pos m < 16777216 /\ -149 <= e /\ (-149 < e -> 8388608 <= Z.pos m).
Proof.
  unfold SpecFloat.bounded, SpecFloat.canonical_mantissa, SpecFloat.fexp, SpecFloat.emin. intros H.
  apply andb_prop in H. destruct H as [H1 H2].
  apply Zeq_bool_eq in H1. apply Zle_bool_imp_le in H2.
  rewrite Zpos_digits2_pos in H1.
  pose proof (Zdigits_correct radix2 (Z.pos m)) as Hd. cbn [Z.abs] in Hd.
  set (d := Zdigits radix2 (Z.pos m)) in *.
  assert (Hd0 : 0 < d) by (apply Zdigits_gt_0; discriminate).
  change (Zpower radix2 (d - 1)) with (2 ^ (d - 1)) in Hd. change (Zpower radix2 d) with (2 ^ d) in Hd.
  assert (Hd24 : d <= 24) by lia.
  assert (P1 : 2 ^ d <= 2 ^ 24) by (apply Z.pow_le_mono_r; lia).
  change (2 ^ 24) with 16777216 in P1.
  repeat split; try lia.
  intros He. assert (d = 24) by lia. subst d. rewrite H in Hd. change (2 ^ (24 - 1)) with 8388608 in Hd. lia.
Qed.

(* the integer a finite float truncates to *)
Definition mag (m : positive) (e : Z) : Z := if 0 <=? e then Z.pos m * 2 ^ e else Z.pos m / 2 ^ (- e).

Lemma mag_nonneg m e : 0 <= mag m e.
Proof.
  unfold mag. destruct (Z.leb_spec 0 e).
  - apply Z.mul_nonneg_nonneg; [lia | apply Z.pow_nonneg; lia].
  - apply Z.div_pos; [lia | apply Z.pow_pos_nonneg; lia].
Qed.

Lemma mag_small m e : Z.pos m < 16777216 -> e <= 7 -> mag m e < 2147483648.
Proof.
  intros Hm He. unfold mag. destruct (Z.leb_spec 0 e).
  - assert (P : 2 ^ e <= 2 ^ 7) by (apply Z.pow_le_mono_r; lia). change (2 ^ 7) with 128 in P.
    assert (0 < 2 ^ e) by (apply Z.pow_pos_nonneg; lia). nia.
  - assert (P : 0 < 2 ^ (- e)) by (apply Z.pow_pos_nonneg; lia).
    assert (Z.pos m / 2 ^ (- e) <= Z.pos m) by (apply Z.div_le_upper_bound; nia). lia.
Qed.

Lemma mag_e8 m : mag m 8 = Z.pos m * 256.
Proof. reflexivity. Qed.

Lemma mag_big m e : 8388608 <= Z.pos m -> 9 <= e -> 4294967296 <= mag m e.
Proof.
  intros Hm He. unfold mag. destruct (Z.leb_spec 0 e); [|lia].
  assert (P : 2 ^ 9 <= 2 ^ e) by (apply Z.pow_le_mono_r; lia). change (2 ^ 9) with 512 in P. nia.
Qed.

Lemma sfLO : B2SF (of_bits 3472883712) = S754_finite true 8388608 8. Proof. vm_compute. reflexivity. Qed.
Lemma sfHI : B2SF (of_bits 1325400063) = S754_finite false 16777215 7. Proof. vm_compute. reflexivity. Qed.
Lemma sfT31 : B2SF (of_bits 1325400064) = S754_finite false 8388608 8. Proof. vm_compute. reflexivity. Qed.

Definition LO := 3472883712.
Definition HI := 1325400063.
Lemma nanLO : is_nan_bits LO = false. Proof. vm_compute. reflexivity. Qed.
Lemma nanHI : is_nan_bits HI = false. Proof. vm_compute. reflexivity. Qed.
Lemma nanLO' : match of_bits LO with B754_nan => true | _ => false end = false. Proof. vm_compute. reflexivity. Qed.
Lemma sfLO' : B2SF (of_bits LO) = S754_finite true 8388608 8. Proof. vm_compute. reflexivity. Qed.
Lemma sfHI' : B2SF (of_bits HI) = S754_finite false 16777215 7. Proof. vm_compute. reflexivity. Qed.

Lemma f2i32_core : forall a, is_nan_bits a = false -> fle 1325400064 a = false ->
  let c := fmin (fmax a LO) HI in
  f_not_finite c = false /\ -2147483648 <= trunc_or_zero c < 2147483648 /\
  (trunc_or_zero c) mod 4294967296 = i32_of_f32 a.
Proof.
  intros a Hnan Hlt. cbv zeta.
  assert (cLO : f_not_finite LO = false /\ trunc_or_zero LO = -2147483648) by (split; vm_compute; reflexivity).
  destruct cLO as [nfLO trLO].
  unfold fmin, fmax. rewrite Hnan.
  rewrite nanLO, nanHI. cbv iota.
  unfold is_nan_bits, fle, flt, Bleb, Bltb, Bcompare in *.
  rewrite sfT31 in Hlt.
  rewrite sfLO', sfHI'.
  unfold i32_of_f32.
  destruct (of_bits a) as [s|s| |s m e Hb] eqn:E; cbn [B2SF] in *.
  - (* zero *)
    cbn [SFltb SFcompare]. cbv iota. rewrite E. cbn [B2SF SFltb SFcompare]. destruct s; cbv iota;
    unfold f_not_finite, trunc_or_zero, z_of_f32_trunc; rewrite E; repeat split; try reflexivity; lia.
  - (* infinity *)
    destruct s.
    + cbn [SFltb SFcompare]. cbv iota.
      rewrite nanLO', sfLO'. cbn [SFltb SFcompare]. cbv iota.
      rewrite nfLO, trLO. repeat split; try reflexivity; lia.
    + cbn in Hlt. discriminate.
  - discriminate.
  - (* finite *)
    destruct (bounded_facts m e Hb) as (He104 & Hm24 & He149 & Hm23).
    fold (mag m e) in *.
    destruct (SFltb (S754_finite s m e) (S754_finite true 8388608 8)) eqn:Elo.
    + (* below -2^31: the clamp yields LO *)
      rewrite nanLO', sfLO'. cbn [SFltb SFcompare]. cbv iota.
      rewrite nfLO, trLO. repeat split; try reflexivity; try lia.
      unfold z_of_f32_trunc. rewrite E. fold (mag m e).
      cbn [SFltb SFcompare] in Elo.
      destruct s; [|discriminate]. cbn [cond_Zopp].
      assert (Hbig : 2147483648 <= mag m e).
      { destruct (Z.compare_spec e 8) as [Ee|Ee|Ee]; try discriminate.
        - subst e. rewrite mag_e8. change (Pos.compare_cont Eq m 8388608) with (Pos.compare m 8388608) in Elo.
          destruct (Pos.compare_spec m 8388608); try discriminate; try lia.
        - pose proof (mag_big m e (Hm23 ltac:(lia)) ltac:(lia)). lia. }
      rewrite Z.min_r by lia. rewrite Z.max_l by lia. reflexivity.
    + (* not below -2^31 *)
      rewrite E. cbn [B2SF].
      assert (Ehi : SFltb (S754_finite false 16777215 7) (S754_finite s m e) = false).
      { cbn [SFltb SFcompare]. destruct s; [reflexivity|].
        cbn [SFleb SFcompare] in Hlt.
        destruct (Z.compare_spec 8 e) as [Ee|Ee|Ee]; try discriminate.
        - subst e. change (Pos.compare_cont Eq 8388608 m) with (Pos.compare 8388608 m) in Hlt.
          destruct (Pos.compare_spec 8388608 m); try discriminate; try (specialize (Hm23 ltac:(lia)); lia).
        - destruct (Z.compare_spec 7 e) as [E7|E7|E7]; try lia; try reflexivity.
          subst e. change (Pos.compare_cont Eq 16777215 m) with (Pos.compare 16777215 m).
          destruct (Pos.compare_spec 16777215 m); try reflexivity; try lia. }
      rewrite Ehi.
      unfold f_not_finite, trunc_or_zero, z_of_f32_trunc. rewrite E. fold (mag m e).
      assert (Hr : -2147483648 <= cond_Zopp s (mag m e) < 2147483648).
      { pose proof (mag_nonneg m e). destruct s; cbn [cond_Zopp].
        - cbn [SFltb SFcompare] in Elo.
          destruct (Z.compare_spec e 8) as [Ee|Ee|Ee]; try discriminate.
          + subst e. rewrite mag_e8 in *. change (Pos.compare_cont Eq m 8388608) with (Pos.compare m 8388608) in Elo.
            destruct (Pos.compare_spec m 8388608); try discriminate; specialize (Hm23 ltac:(lia)); lia.
          + pose proof (mag_small m e Hm24 ltac:(lia)). lia.
        - cbn [SFleb SFcompare] in Hlt.
          destruct (Z.compare_spec 8 e) as [Ee|Ee|Ee]; try discriminate.
          + subst e. change (Pos.compare_cont Eq 8388608 m) with (Pos.compare 8388608 m) in Hlt.
            destruct (Pos.compare_spec 8388608 m); try discriminate; try (specialize (Hm23 ltac:(lia)); lia).
          + pose proof (mag_small m e Hm24 ltac:(lia)). lia. }
      repeat split; try reflexivity; try lia.
      rewrite Z.min_r by lia. rewrite Z.max_r by lia. reflexivity.
Qed.

(* ---- f32 -> u32 ---- *)
Lemma mag_small8 m e : Z.pos m < 16777216 -> e <= 8 -> mag m e < 4294967296.
Proof.
  intros Hm He. unfold mag. destruct (Z.leb_spec 0 e).
  - assert (P : 2 ^ e <= 2 ^ 8) by (apply Z.pow_le_mono_r; lia). change (2 ^ 8) with 256 in P.
    assert (0 < 2 ^ e) by (apply Z.pow_pos_nonneg; lia). nia.
  - assert (P : 0 < 2 ^ (- e)) by (apply Z.pow_pos_nonneg; lia).
    assert (Z.pos m / 2 ^ (- e) <= Z.pos m) by (apply Z.div_le_upper_bound; nia). lia.
Qed.

Definition HIU := 1333788671.   (* 4294967040 = largest f32 below 2^32 *)
Lemma nanZ : is_nan_bits 0 = false. Proof. vm_compute. reflexivity. Qed.
Lemma nanHIU : is_nan_bits HIU = false. Proof. vm_compute. reflexivity. Qed.
Lemma nanZ' : match of_bits 0 with B754_nan => true | _ => false end = false. Proof. vm_compute. reflexivity. Qed.
Lemma sfZ : B2SF (of_bits 0) = S754_zero false. Proof. vm_compute. reflexivity. Qed.
Lemma sfHIU : B2SF (of_bits HIU) = S754_finite false 16777215 8. Proof. vm_compute. reflexivity. Qed.
Lemma sfT32 : B2SF (of_bits 1333788672) = S754_finite false 8388608 9. Proof. vm_compute. reflexivity. Qed.

Lemma f2u32_core : forall a, is_nan_bits a = false -> fle 1333788672 a = false ->
  let c := fmin (fmax a 0) HIU in
  f_not_finite c = false /\ 0 <= trunc_or_zero c < 4294967296 /\ trunc_or_zero c = u32_of_f32 a.
Proof.
  intros a Hnan Hlt. cbv zeta.
  assert (cZ : f_not_finite 0 = false /\ trunc_or_zero 0 = 0) by (split; vm_compute; reflexivity).
  destruct cZ as [nfZ trZ].
  unfold fmin, fmax. rewrite Hnan.
  rewrite nanZ, nanHIU. cbv iota.
  unfold is_nan_bits, fle, flt, Bleb, Bltb, Bcompare in *.
  rewrite sfT32 in Hlt.
  rewrite sfZ, sfHIU.
  unfold u32_of_f32.
  destruct (of_bits a) as [s|s| |s m e Hb] eqn:E; cbn [B2SF] in *.
  - (* zero *)
    cbn [SFltb SFcompare]. cbv iota. rewrite E. cbn [B2SF SFltb SFcompare]. destruct s; cbv iota;
    unfold f_not_finite, trunc_or_zero, z_of_f32_trunc; rewrite E; repeat split; try reflexivity; lia.
  - (* infinity *)
    destruct s.
    + cbn [SFltb SFcompare]. cbv iota.
      rewrite nanZ', sfZ. cbn [SFltb SFcompare]. cbv iota.
      rewrite nfZ, trZ. repeat split; try reflexivity; lia.
    + cbn in Hlt. discriminate.
  - discriminate.
  - (* finite *)
    destruct (bounded_facts m e Hb) as (He104 & Hm24 & He149 & Hm23).
    fold (mag m e) in *.
    destruct (SFltb (S754_finite s m e) (S754_zero false)) eqn:Elo.
    + (* negative: the clamp yields 0 *)
      rewrite nanZ', sfZ. cbn [SFltb SFcompare]. cbv iota.
      rewrite nfZ, trZ. repeat split; try reflexivity; try lia.
      unfold z_of_f32_trunc. rewrite E. fold (mag m e).
      cbn [SFltb SFcompare] in Elo.
      destruct s; [|discriminate]. cbn [cond_Zopp].
      pose proof (mag_nonneg m e).
      rewrite Z.min_r by lia. rewrite Z.max_l by lia. reflexivity.
    + rewrite E. cbn [B2SF].
      cbn [SFltb SFcompare] in Elo. destruct s; [discriminate|].
      assert (He8 : e <= 8).
      { cbn [SFleb SFcompare] in Hlt.
        destruct (Z.compare_spec 9 e) as [Ee|Ee|Ee]; try discriminate; try lia.
        subst e. change (Pos.compare_cont Eq 8388608 m) with (Pos.compare 8388608 m) in Hlt.
        destruct (Pos.compare_spec 8388608 m); try discriminate; try (specialize (Hm23 ltac:(lia)); lia). }
      assert (Ehi : SFltb (S754_finite false 16777215 8) (S754_finite false m e) = false).
      { cbn [SFltb SFcompare].
        destruct (Z.compare_spec 8 e) as [E7|E7|E7]; try lia; try reflexivity.
        subst e. change (Pos.compare_cont Eq 16777215 m) with (Pos.compare 16777215 m).
        destruct (Pos.compare_spec 16777215 m); try reflexivity; try lia. }
      rewrite Ehi.
      unfold f_not_finite, trunc_or_zero, z_of_f32_trunc. rewrite E. fold (mag m e). cbn [cond_Zopp].
      pose proof (mag_nonneg m e). pose proof (mag_small8 m e Hm24 He8).
      repeat split; try reflexivity; try lia.
Qed.
