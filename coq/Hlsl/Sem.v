(* Executable, fuel-indexed semantics of the HLSL subset of Hlsl/Syntax.v over
   the run-time values of IR/Values.v (operators: Hlsl/Ops.v).  Single invocation.

   State: scoped local variables (name, declared type, value), module-scope
   variables (static, groupshared, cbuffer members) and the byte contents of the
   [RW]ByteAddressBuffers.  Every variable always holds a value of its declared
   type: initialisers, assignments, arguments and returned values are implicitly
   converted to the declared type ([convert_to]).  `inout` parameters are
   copy-in / copy-out.  Buffer memory is a byte list; Load/Store move 32-bit
   little-endian words at 4-byte-aligned byte offsets; an out-of-range Load reads
   0 and an out-of-range Store is dropped (DialectChoices.md, D3D robustness);
   an unaligned offset is [Fail "UB: ..."].  Out-of-range indexing of a local
   array/vector/matrix is [Fail "UB: ..."].  [Fail "unsupported: ..."] means the
   program left the modelled fragment. *)
From Coq Require Import List ZArith String Bool Ascii.
Import ListNotations.
Require Import Naga.Base.Bits32 Naga.Base.F32 Naga.IR.Values Naga.Hlsl.Syntax Naga.Hlsl.Ops.
Open Scope string_scope.
Open Scope Z_scope.

Definition tentry := (string * htype * value)%type.

Record state := mkstate {
  st_locals : list tentry;
  st_globals : list tentry;
  st_bufs : list (string * (bool * list Z)) }.      (* register key -> (writable, bytes) *)

Fixpoint assoc_s {A} (k : string) (l : list (string * A)) : option A :=
  match l with [] => None | (k', v) :: l' => if String.eqb k k' then Some v else assoc_s k l' end.

Fixpoint lookup_var (x : string) (l : list tentry) : option (htype * value) :=
  match l with
  | [] => None
  | (y, t, v) :: l' => if String.eqb x y then Some (t, v) else lookup_var x l'
  end.

Fixpoint update_var (x : string) (nv : value) (l : list tentry) : option (list tentry) :=
  match l with
  | [] => None
  | (y, t, v) :: l' =>
    if String.eqb x y then Some ((y, t, nv) :: l')
    else match update_var x nv l' with Some r => Some ((y, t, v) :: r) | None => None end
  end.

Definition find_var (st : state) (x : string) : option (htype * value) :=
  match lookup_var x (st_locals st) with Some r => Some r | None => lookup_var x (st_globals st) end.

Definition set_var (st : state) (x : string) (nv : value) : result state :=
  match update_var x nv (st_locals st) with
  | Some l => Done (mkstate l (st_globals st) (st_bufs st))
  | None =>
    match update_var x nv (st_globals st) with
    | Some g => Done (mkstate (st_locals st) g (st_bufs st))
    | None => Fail ("unsupported: assignment to unknown variable " ++ x)
    end
  end.

Definition push_local (st : state) (x : string) (t : htype) (v : value) : state :=
  mkstate ((x, t, v) :: st_locals st) (st_globals st) (st_bufs st).

(* leave a block: drop the locals declared since the block was entered *)
Definition pop_to (n : nat) (st : state) : state :=
  mkstate (skipn (List.length (st_locals st) - n) (st_locals st)) (st_globals st) (st_bufs st).

(* ---- types ---- *)
Section WithProgram.
Variable p : program.

Fixpoint resolve (fuel : nat) (t : htype) : htype :=
  match fuel with
  | O => t
  | S f =>
    match t with
    | TNamed n => match assoc_s n (pr_typedefs p) with Some t' => resolve f t' | None => t end
    | TArr e n => TArr (resolve f e) n
    | _ => t
    end
  end.

Definition struct_members (n : string) : option (list (htype * string)) := assoc_s n (pr_structs p).

Definition zero_scalar (k : skind) : value :=
  match k with KInt => VI32 0 | KUint => VU32 0 | KFloat => VF32 0 | KBool => VBool false end.

Fixpoint zero_of (fuel : nat) (t : htype) : result value :=
  match fuel with
  | O => OutOfFuel
  | S f =>
    match t with
    | TScal k => Done (zero_scalar k)
    | TVec k n => Done (VVec (repeat (zero_scalar k) n))
    | TMat k c r => Done (VMat (repeat (VVec (repeat (zero_scalar k) r)) c))
    | TArr e n => z <~ zero_of f e ;; Done (VArr (repeat z n))
    | TNamed n =>
      match assoc_s n (pr_typedefs p) with
      | Some t' => zero_of f t'
      | None =>
        match struct_members n with
        | Some ms => vs <~ rmap (fun m => zero_of f (fst m)) ms ;; Done (VStruct vs)
        | None => Fail ("unsupported: unknown type " ++ n)
        end
      end
    | TVoid => Fail "unsupported: value of type void"
    | TBuf _ => Fail "unsupported: value of buffer type"
    end
  end.

(* implicit conversion to a declared type (float -> integer conversions carry their UB conditions) *)
Fixpoint convert_to (fuel : nat) (t : htype) (v : value) : cres :=
  match fuel with
  | O => OutOfFuel
  | S f =>
    match t with
    | TScal k =>
      match v with
      | VVec _ | VMat _ | VArr _ | VStruct _ | VPtr _ _ => Fail "unsupported: implicit truncation to a scalar"
      | _ => conv_scalar k v
      end
    | TVec k n =>
      match v with
      | VVec l => if Nat.eqb (List.length l) n then wrapv VVec (cmap (conv_scalar k) l)
                  else Fail "unsupported: implicit vector resize"
      | VMat _ | VArr _ | VStruct _ | VPtr _ _ => Fail "unsupported: conversion to a vector"
      | _ => x <~~ conv_scalar k v ;; ret (VVec (repeat x n))
      end
    | TMat k c r =>
      match v with
      | VMat rows =>
        wrapv VMat (cmap (fun row => match row with
                                     | VVec l => wrapv VVec (cmap (conv_scalar k) l)
                                     | _ => Fail "unsupported: matrix row" end) rows)
      | VVec _ | VArr _ | VStruct _ | VPtr _ _ => Fail "unsupported: conversion to a matrix"
      | _ => x <~~ conv_scalar k v ;; ret (VMat (repeat (VVec (repeat x r)) c))
      end
    | TArr e n =>
      match v with
      | VArr l => if Nat.eqb (List.length l) n then wrapv VArr (cmap (convert_to f e) l)
                  else Fail "unsupported: array length mismatch"
      | _ => Fail "unsupported: conversion to an array"
      end
    | TNamed n =>
      match assoc_s n (pr_typedefs p) with
      | Some t' => convert_to f t' v
      | None => match v with VStruct _ => ret v | _ => Fail "unsupported: conversion to a struct" end
      end
    | TBuf _ => ret v
    | TVoid => Fail "unsupported: conversion to void"
    end
  end.

(* (T)e: a scalar fills every component of T; a composite is re-shaped component by component *)
Fixpoint fill_from (fuel : nat) (t : htype) (l : list value) : result (value * list value) :=
  match fuel with
  | O => OutOfFuel
  | S f =>
    let fill_many (ts : list htype) (l : list value) : result (list value * list value) :=
        fold_left (fun acc t' => a <~ acc ;; let '(vs, rest) := a in
                                 r <~ fill_from f t' rest ;; let '(v, rest') := r in Done ((vs ++ [v])%list, rest'))
                  ts (Done ([], l)) in
    match t with
    | TScal k =>
      match l with x :: l' => v <~ check (conv_scalar k x) ;; Done (v, l') | [] => Fail "unsupported: cast: too few components" end
    | TVec k n => r <~ fill_many (repeat (TScal k) n) l ;; let '(vs, rest) := r in Done (VVec vs, rest)
    | TMat k c r => a <~ fill_many (repeat (TVec k r) c) l ;; let '(vs, rest) := a in Done (VMat vs, rest)
    | TArr e n => a <~ fill_many (repeat e n) l ;; let '(vs, rest) := a in Done (VArr vs, rest)
    | TNamed n =>
      match assoc_s n (pr_typedefs p) with
      | Some t' => fill_from f t' l
      | None =>
        match struct_members n with
        | Some ms => a <~ fill_many (map fst ms) l ;; let '(vs, rest) := a in Done (VStruct vs, rest)
        | None => Fail ("unsupported: unknown type " ++ n)
        end
      end
    | _ => Fail "unsupported: cast target"
    end
  end.

Fixpoint count_scalars (fuel : nat) (t : htype) : nat :=
  match fuel with
  | O => O
  | S f =>
    match t with
    | TScal _ => 1
    | TVec _ n => n
    | TMat _ c r => c * r
    | TArr e n => n * count_scalars f e
    | TNamed n =>
      match assoc_s n (pr_typedefs p) with
      | Some t' => count_scalars f t'
      | None => match struct_members n with
                | Some ms => fold_left (fun a m => a + count_scalars f (fst m)) ms 0
                | None => 0 end
      end
    | _ => 0
    end
  end%nat.

Definition cast_to (t : htype) (v : value) : result value :=
  let comps := match kind_of v with
               | Some _ => repeat v (count_scalars 16 t)
               | None => flatten_value 16 v
               end in
  r <~ fill_from 16 t comps ;;
  let '(x, rest) := r in
  match rest with [] => Done x | _ => Fail "unsupported: cast: component count mismatch" end.

(* ---- members, swizzles ---- *)
Fixpoint member_index (m : string) (ms : list (htype * string)) (i : nat) : option (nat * htype) :=
  match ms with
  | [] => None
  | (t, n) :: ms' => if String.eqb m n then Some (i, t) else member_index m ms' (S i)
  end.

Definition swizzle_index (c : ascii) : option nat :=
  if Ascii.eqb c "x" || Ascii.eqb c "r" then Some 0%nat
  else if Ascii.eqb c "y" || Ascii.eqb c "g" then Some 1%nat
  else if Ascii.eqb c "z" || Ascii.eqb c "b" then Some 2%nat
  else if Ascii.eqb c "w" || Ascii.eqb c "a" then Some 3%nat
  else None.

Fixpoint swizzle_indices (s : string) : option (list nat) :=
  match s with
  | EmptyString => Some []
  | String c s' =>
    match swizzle_index c, swizzle_indices s' with
    | Some i, Some l => Some (i :: l)
    | _, _ => None
    end
  end.

Definition nth_ub {A} (l : list A) (n : nat) : result A :=
  match nth_error l n with Some x => Done x | None => Fail "UB: index out of bounds" end.

Definition swizzle (v : value) (m : string) : result value :=
  match swizzle_indices m with
  | None => Fail ("unsupported: member " ++ m ++ " of a non-struct")
  | Some idx =>
    let comps := match v with VVec l => l | _ => [v] end in
    match v with
    | VVec _ | VI32 _ | VU32 _ | VF32 _ | VBool _ =>
      vs <~ rmap (fun i => nth_ub comps i) idx ;;
      match vs with [x] => Done x | _ => Done (VVec vs) end
    | _ => Fail "unsupported: swizzle of a composite"
    end
  end.

(* ---- composite paths (lvalues) ---- *)
Definition elems (v : value) : result (list value) :=
  match v with
  | VVec l | VMat l | VArr l | VStruct l => Done l
  | _ => Fail "unsupported: component access into a scalar"
  end.
Definition rebuild (v : value) (l : list value) : value :=
  match v with VVec _ => VVec l | VMat _ => VMat l | VArr _ => VArr l | VStruct _ => VStruct l | _ => v end.

Fixpoint set_nth {A} (l : list A) (n : nat) (x : A) : list A :=
  match l, n with
  | [], _ => []
  | _ :: l', O => x :: l'
  | y :: l', S n' => y :: set_nth l' n' x
  end.

Fixpoint load_path (v : value) (path : list nat) : result value :=
  match path with
  | [] => Done v
  | i :: path' => l <~ elems v ;; x <~ nth_ub l i ;; load_path x path'
  end.

Fixpoint store_path (v : value) (path : list nat) (nv : value) : result value :=
  match path with
  | [] => Done nv
  | i :: path' =>
    l <~ elems v ;; x <~ nth_ub l i ;; x' <~ store_path x path' nv ;; Done (rebuild v (set_nth l i x'))
  end.

(* the declared type reached by a path *)
Fixpoint type_at (fuel : nat) (t : htype) (path : list nat) : option htype :=
  match fuel with
  | O => None
  | S f =>
    match path with
    | [] => Some t
    | i :: path' =>
      match t with
      | TVec k _ => type_at f (TScal k) path'
      | TMat k _ r => type_at f (TVec k r) path'
      | TArr e _ => type_at f e path'
      | TNamed n =>
        match assoc_s n (pr_typedefs p) with
        | Some t' => type_at f t' path
        | None => match struct_members n with
                  | Some ms => match nth_error ms i with Some (mt, _) => type_at f mt path' | None => None end
                  | None => None end
        end
      | _ => None
      end
    end
  end.

(* ---- a partial static typing, needed only to resolve struct member names ---- *)
Definition func_ret (f : string) : option htype :=
  match filter (fun fn => String.eqb (fn_name fn) f) (pr_funcs p) with
  | fn :: _ => Some (fn_ret fn)
  | [] => None
  end.

Fixpoint static_type (fuel : nat) (st : state) (e : expr) : option htype :=
  match fuel with
  | O => None
  | S f =>
    match e with
    | EVar x => match find_var st x with Some (t, _) => Some (resolve 8 t) | None => None end
    | EMember b m =>
      match static_type f st b with
      | Some (TNamed n) =>
        match struct_members n with
        | Some ms => match member_index m ms 0 with Some (_, t) => Some (resolve 8 t) | None => None end
        | None => None
        end
      | Some (TVec k _) =>
        match swizzle_indices m with
        | Some [_] => Some (TScal k)
        | Some l => Some (TVec k (List.length l))
        | None => None
        end
      | Some (TScal k) =>
        match swizzle_indices m with
        | Some [_] => Some (TScal k)
        | Some l => Some (TVec k (List.length l))
        | None => None
        end
      | _ => None
      end
    | EIndex b _ =>
      match static_type f st b with
      | Some (TArr t _) => Some (resolve 8 t)
      | Some (TMat k _ r) => Some (TVec k r)
      | Some (TVec k _) => Some (TScal k)
      | _ => None
      end
    | ECall fn _ => match func_ret fn with Some t => Some (resolve 8 t) | None => None end
    | ECast t _ => Some (resolve 8 t)
    | ECtor t _ => Some t
    | ECond _ a _ => static_type f st a
    | _ => None
    end
  end.

(* ---- ByteAddressBuffer memory ---- *)
Definition byte_at (bytes : list Z) (i : Z) : Z := nth (Z.to_nat i) bytes 0.

Definition load_word (bytes : list Z) (off : Z) : result Z :=
  if negb (off mod 4 =? 0) then Fail "UB: unaligned ByteAddressBuffer offset"
  else if off + 4 <=? Z.of_nat (List.length bytes) then
    Done (byte_at bytes off + 256 * byte_at bytes (off + 1) + 65536 * byte_at bytes (off + 2) + 16777216 * byte_at bytes (off + 3))
  else Done 0.

Fixpoint load_words (n : nat) (bytes : list Z) (off : Z) : result (list value) :=
  match n with
  | O => Done []
  | S n' => w <~ load_word bytes off ;; ws <~ load_words n' bytes (off + 4) ;; Done (VU32 w :: ws)
  end.

Definition store_word (bytes : list Z) (off : Z) (w : Z) : result (list Z) :=
  if negb (off mod 4 =? 0) then Fail "UB: unaligned ByteAddressBuffer offset"
  else if off + 4 <=? Z.of_nat (List.length bytes) then
    let i := Z.to_nat off in
    Done (set_nth (set_nth (set_nth (set_nth bytes i (w mod 256)) (S i) ((w / 256) mod 256))
                           (S (S i)) ((w / 65536) mod 256)) (S (S (S i))) ((w / 16777216) mod 256))
  else Done bytes.

Fixpoint store_words (bytes : list Z) (off : Z) (ws : list value) : result (list Z) :=
  match ws with
  | [] => Done bytes
  | w :: ws' =>
    x <~ bits_of w ;; b <~ store_word bytes off x ;; store_words b (off + 4) ws'
  end.

Definition offset_of (v : value) : result Z :=
  c <~ check (conv_scalar KUint v) ;; match c with VU32 z => Done z | _ => Fail "unsupported: buffer offset" end.

Fixpoint buf_index (k : string) (l : list (string * (bool * list Z))) (i : nat) : option nat :=
  match l with
  | [] => None
  | (k', _) :: l' => if String.eqb k k' then Some i else buf_index k l' (S i)
  end.

Definition set_buf (st : state) (i : nat) (bytes : list Z) : state :=
  mkstate (st_locals st) (st_globals st)
          (match nth_error (st_bufs st) i with
           | Some (k, (rw, _)) => set_nth (st_bufs st) i (k, (rw, bytes))
           | None => st_bufs st
           end).

(* ---- functions ---- *)
Fixpoint type_matches (fuel : nat) (t : htype) (v : value) : bool :=
  match fuel with
  | O => false
  | S f =>
    match resolve 8 t, v with
    | TScal KInt, VI32 _ | TScal KUint, VU32 _ | TScal KFloat, VF32 _ | TScal KBool, VBool _ => true
    | TVec k n, VVec l => Nat.eqb (List.length l) n && forallb (type_matches f (TScal k)) l
    | TMat k c r, VMat rows => Nat.eqb (List.length rows) c && forallb (type_matches f (TVec k r)) rows
    | TArr e n, VArr l => Nat.eqb (List.length l) n
    | TNamed _, VStruct _ => true
    | TBuf _, VPtr _ _ => true
    | _, _ => false
    end
  end.

Fixpoint params_match (ps : list param) (vs : list value) : bool :=
  match ps, vs with
  | [], [] => true
  | q :: ps', v :: vs' => type_matches 4 (p_type q) v && params_match ps' vs'
  | _, _ => false
  end.

Definition pick_overload (f : string) (vs : list value) : result func :=
  match filter (fun fn => String.eqb (fn_name fn) f && Nat.eqb (List.length (fn_params fn)) (List.length vs)) (pr_funcs p) with
  | [] => Fail ("unsupported: call of unknown function " ++ f)
  | [fn] => Done fn
  | cands =>
    match filter (fun fn => params_match (fn_params fn) vs) cands with
    | fn :: _ => Done fn
    | [] => Fail ("unsupported: no exactly matching overload of " ++ f)
    end
  end.

Inductive outcome := ONormal | OBreak | OContinue | OReturn (v : option value).

Definition index_nat (v : value) : result nat :=
  match v with
  | VI32 z => if z <? two31 then Done (Z.to_nat z) else Fail "UB: negative index"
  | VU32 z => Done (Z.to_nat z)
  | VBool b => Done (if b then 1%nat else 0%nat)
  | _ => Fail "unsupported: index is not an integer"
  end.

Definition case_matches (label sel : value) : bool :=
  match bits_of label, bits_of sel with
  | Done a, Done b => a =? b
  | _, _ => false
  end.

(* store [nv] (converted to the declared type of the component) at variable x, path *)
Definition assign_path (st : state) (x : string) (path : list nat) (nv : value) : result state :=
  match find_var st x with
  | None => Fail ("unsupported: unknown variable " ++ x)
  | Some (t, old) =>
    match type_at 32 t path with
    | None => Fail "unsupported: cannot type an assignment target"
    | Some ct =>
      cv <~ check (convert_to 16 ct nv) ;;
      new <~ store_path old path cv ;;
      set_var st x new
    end
  end.

Definition member_of (st : state) (b : expr) (v : value) (m : string) : result value :=
  match v with
  | VStruct fields =>
    match static_type 32 st b with
    | Some (TNamed n) =>
      match struct_members n with
      | Some ms => match member_index m ms 0 with
                   | Some (i, _) => nth_ub fields i
                   | None => Fail ("unsupported: no member " ++ m ++ " in struct " ++ n) end
      | None => Fail ("unsupported: unknown struct " ++ n)
      end
    | _ => Fail ("unsupported: cannot type the struct in a member access ." ++ m)
    end
  | _ => swizzle v m
  end.

Definition load_count (m : string) : option nat :=
  if String.eqb m "Load" then Some 1%nat else if String.eqb m "Load2" then Some 2%nat
  else if String.eqb m "Load3" then Some 3%nat else if String.eqb m "Load4" then Some 4%nat else None.
Definition store_count (m : string) : option nat :=
  if String.eqb m "Store" then Some 1%nat else if String.eqb m "Store2" then Some 2%nat
  else if String.eqb m "Store3" then Some 3%nat else if String.eqb m "Store4" then Some 4%nat else None.

(* ---- the pure fragment ----
   A function is a pure helper when it has no inout parameter and its body is a
   sequence of local declarations, assignments to its own locals and
   `buffer.GetDimensions(x)`, ended by `return e;`, whose expressions are pure; an expression is pure when it contains no Store / GetDimensions / Interlocked
   method call and calls only intrinsics and pure helpers.  Every generated helper
   (naga_div, naga_mod, naga_neg, naga_f2i32, naga_extractBits, Construct..., ZeroValue...,
   GetMat...On...) is pure.  Pure expressions are evaluated by [peval], which reads the
   state and collects UB conditions (Ops.v). *)
Fixpoint pure_expr (fuel : nat) (e : expr) {struct fuel} : bool :=
  match fuel with
  | O => false
  | S f =>
    let all := fix all (es : list expr) : bool := match es with [] => true | x :: es' => pure_expr f x && all es' end in
    let pure_stmts :=
        fix ps (b : list stmt) : bool :=
          match b with
          | [SReturn (Some r)] => pure_expr f r
          | [SSwitch sel cases] =>
            (* switch (sel) { case k: { return e; } ... default: { return e; } }   (__get_col_of_matCx2) *)
            pure_expr f sel &&
            forallb (fun c => match c with
                              | (lab, [SBlock [SReturn (Some r)]]) =>
                                pure_expr f r && match lab with Some le => pure_expr f le | None => true end
                              | _ => false
                              end) cases
          | SDecl _ _ (Some i) :: b' => pure_expr f i && ps b'
          | SDecl _ _ None :: b' => ps b'
          | SAssign None l r :: b' => pure_expr f l && pure_expr f r && ps b'
          | SExpr (EMethod o m [EVar _]) :: b' => String.eqb m "GetDimensions" && pure_expr f o && ps b'
          | _ => false
          end in
    match e with
    | ELitI _ | ELitU _ | ELitF _ | ELitB _ | EVar _ => true
    | EUn _ a | ECast _ a | EMember a _ => pure_expr f a
    | EBin _ a b | EIndex a b => pure_expr f a && pure_expr f b
    | ECond c a b => pure_expr f c && pure_expr f a && pure_expr f b
    | ECtor _ args | EInit args => all args
    | ECall fn args =>
      all args &&
      (intrinsic_known fn ||
       match filter (fun g => String.eqb (fn_name g) fn) (pr_funcs p) with
       | [] => false
       | cands => forallb (fun g => forallb (fun q => negb (p_inout q)) (fn_params g) && pure_stmts (fn_body g)) cands
       end)
    | EMethod o m args =>
      match load_count m with
      | Some _ => pure_expr f o && all args
      | None => false
      end
    end
  end.

Definition PURE_DEPTH : nat := 24.

Fixpoint peval (fuel : nat) (st : state) (e : expr) {struct fuel} : cres :=
  match fuel with
  | O => OutOfFuel
  | S fu =>
    let peval_list :=
        fix go (es : list expr) : result (list value * ubs) :=
          match es with
          | [] => Done ([], [])
          | x :: es' =>
            match peval fu st x, go es' with
            | Done (v, u), Done (vs, u') => Done (v :: vs, (u ++ u')%list)
            | Done _, OutOfFuel => OutOfFuel | Done _, Fail m => Fail m
            | OutOfFuel, _ => OutOfFuel | Fail m, _ => Fail m
            end
          end in
    match e with
    | ELitI z => ret (VI32 (wrap32 z))
    | ELitU z => ret (VU32 (wrap32 z))
    | ELitF b => ret (VF32 b)
    | ELitB b => ret (VBool b)
    | EVar x =>
      match find_var st x with
      | Some (_, v) => ret v
      | None =>
        match buf_index x (st_bufs st) 0 with
        | Some i => ret (VPtr i [])
        | None => Fail ("unsupported: unknown identifier " ++ x)
        end
      end
    | EUn o a => v <~~ peval fu st a ;; pure (un_op o v)
    | EBin o a b => va <~~ peval fu st a ;; vb <~~ peval fu st b ;; bin_op o va vb
    | ECond c a b => vc <~~ peval fu st c ;; va <~~ peval fu st a ;; vb <~~ peval fu st b ;; pure (cond_op vc va vb)
    | ECast t a => v <~~ peval fu st a ;; pure (cast_to t v)
    | ECtor t args =>
      match peval_list args with
      | Done (vs, u) => match construct t vs with Done (x, u') => Done (x, (u ++ u')%list) | OutOfFuel => OutOfFuel | Fail m => Fail m end
      | OutOfFuel => OutOfFuel
      | Fail m => Fail m
      end
    | EInit es => wrapv VArr (peval_list es)
    | EMember b m => v <~~ peval fu st b ;; pure (member_of st b v m)
    | EIndex b i =>
      v <~~ peval fu st b ;; vi <~~ peval fu st i ;;
      pure (n <~ index_nat vi ;; l <~ elems v ;; nth_ub l n)
    | ECall f args =>
      match peval_list args with
      | Done (vs, u) =>
        if intrinsic_known f then
          match intrinsic f vs with Done x => Done (x, u) | OutOfFuel => OutOfFuel | Fail m => Fail m end
        else
          match pick_overload f vs with
          | Done fn =>
            (* parameters, converted to their declared types, in a fresh frame *)
            let bind :=
                fix go (ps : list param) (vs : list value) : result (list tentry * ubs) :=
                  match ps, vs with
                  | [], [] => Done ([], [])
                  | q :: ps', v :: vs' =>
                    match convert_to 16 (p_type q) v, go ps' vs' with
                    | Done (cv, u1), Done (rest, u2) => Done ((p_name q, p_type q, cv) :: rest, (u1 ++ u2)%list)
                    | Done _, OutOfFuel => OutOfFuel | Done _, Fail m => Fail m
                    | OutOfFuel, _ => OutOfFuel | Fail m, _ => Fail m
                    end
                  | _, _ => Fail "unsupported: call arity"
                  end in
            (* lvalue inside a helper body: a local variable and a component path *)
            let plv :=
                fix plv (st' : state) (e : expr) {struct e} : result (string * list nat * ubs) :=
                  match e with
                  | EVar x => match lookup_var x (st_locals st') with
                              | Some _ => Done (x, [], [])
                              | None => Fail "unsupported: a helper assigns to a non-local" end
                  | EMember b m =>
                    match plv st' b with
                    | Done (x, path, u0) =>
                      match static_type 32 st' b with
                      | Some (TNamed n) =>
                        match struct_members n with
                        | Some ms => match member_index m ms 0 with
                                     | Some (i, _) => Done (x, (path ++ [i])%list, u0)
                                     | None => Fail ("unsupported: no member " ++ m ++ " in struct " ++ n) end
                        | None => Fail ("unsupported: unknown struct " ++ n)
                        end
                      | Some (TVec _ _) =>
                        match swizzle_indices m with
                        | Some [i] => Done (x, (path ++ [i])%list, u0)
                        | _ => Fail "unsupported: assignment to a multi-component swizzle"
                        end
                      | _ => Fail ("unsupported: cannot type the base of lvalue member ." ++ m)
                      end
                    | OutOfFuel => OutOfFuel | Fail m' => Fail m'
                    end
                  | EIndex b i =>
                    match plv st' b, peval fu st' i with
                    | Done (x, path, u0), Done (vi, u1) =>
                      match index_nat vi with
                      | Done n => Done (x, (path ++ [n])%list, (u0 ++ u1)%list)
                      | OutOfFuel => OutOfFuel | Fail m' => Fail m'
                      end
                    | Done _, OutOfFuel => OutOfFuel | Done _, Fail m' => Fail m'
                    | OutOfFuel, _ => OutOfFuel | Fail m', _ => Fail m'
                    end
                  | _ => Fail "unsupported: expression is not an lvalue"
                  end in
            match bind (fn_params fn) vs with
            | Done (frame, u1) =>
              let body :=
                  fix go (b : list stmt) (st' : state) : cres :=
                    match b with
                    | [SReturn (Some r)] => v <~~ peval fu st' r ;; convert_to 16 (fn_ret fn) v
                    | [SSwitch sel cases] =>
                      match peval fu st' sel with
                      | Done (sv, u2) =>
                        let pick :=
                            fix pick (cs : list (option expr * list stmt)) (dflt : option expr) : result (option expr) :=
                              match cs with
                              | [] => Done dflt
                              | (None, [SBlock [SReturn (Some r)]]) :: cs' =>
                                pick cs' (match dflt with None => Some r | Some _ => dflt end)
                              | (Some le, [SBlock [SReturn (Some r)]]) :: cs' =>
                                match peval fu st' le with
                                | Done (lv, _) => if case_matches lv sv then Done (Some r) else pick cs' dflt
                                | OutOfFuel => OutOfFuel | Fail m => Fail m
                                end
                              | _ => Fail "unsupported: switch form in a helper"
                              end in
                        match pick cases None with
                        | Done (Some r) =>
                          match (v <~~ peval fu st' r ;; convert_to 16 (fn_ret fn) v) with
                          | Done (w, u3) => Done (w, (u2 ++ u3)%list)
                          | OutOfFuel => OutOfFuel | Fail m => Fail m
                          end
                        | Done None => Fail "UB: a helper's switch returns no value"
                        | OutOfFuel => OutOfFuel | Fail m => Fail m
                        end
                      | OutOfFuel => OutOfFuel | Fail m => Fail m
                      end
                    | SDecl t x (Some i) :: b' =>
                      match (v <~~ peval fu st' i ;; convert_to 16 t v) with
                      | Done (cv, u2) =>
                        match go b' (push_local st' x t cv) with
                        | Done (w, u3) => Done (w, (u2 ++ u3)%list)
                        | OutOfFuel => OutOfFuel | Fail m => Fail m
                        end
                      | OutOfFuel => OutOfFuel | Fail m => Fail m
                      end
                    | SDecl t x None :: b' =>
                      match zero_of 16 t with
                      | Done z => go b' (push_local st' x t z)
                      | OutOfFuel => OutOfFuel | Fail m => Fail m
                      end
                    | SAssign None l r :: b' =>
                      match peval fu st' r, plv st' l with
                      | Done (v, u2), Done (x, path, u3) =>
                        match assign_path st' x path v with
                        | Done st'' =>
                          match go b' st'' with
                          | Done (w, u4) => Done (w, (u2 ++ u3 ++ u4)%list)
                          | OutOfFuel => OutOfFuel | Fail m => Fail m
                          end
                        | OutOfFuel => OutOfFuel | Fail m => Fail m
                        end
                      | Done _, OutOfFuel => OutOfFuel | Done _, Fail m => Fail m
                      | OutOfFuel, _ => OutOfFuel | Fail m, _ => Fail m
                      end
                    | SExpr (EMethod o m [EVar x]) :: b' =>
                      (* buffer.GetDimensions(x): x receives the size of the buffer in bytes *)
                      if String.eqb m "GetDimensions" then
                        match peval fu st' o with
                        | Done (VPtr bi [], u2) =>
                          match nth_error (st_bufs st') bi with
                          | Some (_, (_, bytes)) =>
                            match assign_path st' x [] (VU32 (Z.of_nat (List.length bytes))) with
                            | Done st'' =>
                              match go b' st'' with
                              | Done (w, u3) => Done (w, (u2 ++ u3)%list)
                              | OutOfFuel => OutOfFuel | Fail m => Fail m
                              end
                            | OutOfFuel => OutOfFuel | Fail m => Fail m
                            end
                          | None => Fail "unsupported: buffer reference"
                          end
                        | Done _ => Fail "unsupported: GetDimensions on a non-buffer"
                        | OutOfFuel => OutOfFuel | Fail m => Fail m
                        end
                      else Fail "unsupported: method statement in a helper"
                    | _ => Fail "unsupported: call of an impure function inside a pure expression"
                    end in
              match body (fn_body fn) (mkstate frame (st_globals st) (st_bufs st)) with
              | Done (w, u2) => Done (w, (u ++ u1 ++ u2)%list)
              | OutOfFuel => OutOfFuel | Fail m => Fail m
              end
            | OutOfFuel => OutOfFuel | Fail m => Fail m
            end
          | OutOfFuel => OutOfFuel
          | Fail m => Fail m
          end
      | OutOfFuel => OutOfFuel
      | Fail m => Fail m
      end
    | EMethod obj m args =>
      match load_count m, args with
      | Some n, [off] =>
        ov <~~ peval fu st obj ;; vo <~~ peval fu st off ;;
        pure (match ov with
              | VPtr bi [] =>
                match nth_error (st_bufs st) bi with
                | Some (_, (_, bytes)) =>
                  o <~ offset_of vo ;; ws <~ load_words n bytes o ;;
                  Done (match ws with [w] => w | _ => VVec ws end)
                | None => Fail "unsupported: buffer reference"
                end
              | _ => Fail ("unsupported: method " ++ m ++ " on a non-buffer")
              end)
      | _, _ => Fail ("unsupported: side effect or unknown method in a pure expression: " ++ m)
      end
    end
  end.

Definition eval_pure (fuel : nat) (st : state) (e : expr) : result value := check (peval fuel st e).

(* an lvalue denotes a variable and a component path (index expressions are pure) *)
Fixpoint eval_lvalue (fuel : nat) (st : state) (e : expr) {struct e} : result (string * list nat) :=
  match e with
  | EVar x =>
    match find_var st x with
    | Some _ => Done (x, [])
    | None => Fail ("unsupported: unknown variable " ++ x)
    end
  | EMember b m =>
    lv <~ eval_lvalue fuel st b ;; let '(x, path) := lv in
    match static_type 32 st b with
    | Some (TNamed n) =>
      match struct_members n with
      | Some ms => match member_index m ms 0 with
                   | Some (i, _) => Done (x, (path ++ [i])%list)
                   | None => Fail ("unsupported: no member " ++ m ++ " in struct " ++ n) end
      | None => Fail ("unsupported: unknown struct " ++ n)
      end
    | Some (TVec _ _) =>
      match swizzle_indices m with
      | Some [i] => Done (x, (path ++ [i])%list)
      | _ => Fail "unsupported: assignment to a multi-component swizzle"
      end
    | _ => Fail ("unsupported: cannot type the base of lvalue member ." ++ m)
    end
  | EIndex b i =>
    lv <~ eval_lvalue fuel st b ;; let '(x, path) := lv in
    vi <~ eval_pure fuel st i ;;
    n <~ index_nat vi ;; Done (x, (path ++ [n])%list)
  | _ => Fail "unsupported: expression is not an lvalue"
  end.

(* Interlocked* (single invocation: sequential): the new content of the location *)
Definition interlocked_new (f : string) (old v : value) : result value :=
  if String.eqb f "InterlockedAdd" then check (scalar_bin BAdd old v)
  else if String.eqb f "InterlockedAnd" then check (scalar_bin BAnd old v)
  else if String.eqb f "InterlockedOr" then check (scalar_bin BOr old v)
  else if String.eqb f "InterlockedXor" then check (scalar_bin BXor old v)
  else if String.eqb f "InterlockedMin" then scalar_min old v
  else if String.eqb f "InterlockedMax" then scalar_max old v
  else if String.eqb f "InterlockedExchange" then Done v
  else Fail ("unsupported: atomic " ++ f).

(* ---- statements and calls with effects ---- *)
Fixpoint eval_expr (fuel : nat) (st : state) (e : expr) {struct fuel} : result (value * state) :=
  match fuel with
  | O => OutOfFuel
  | S fu =>
    if pure_expr PURE_DEPTH e then v <~ eval_pure fu st e ;; Done (v, st)
    else
      match e with
      | ECall f args =>
        if String.prefix "Interlocked" f then
          (* InterlockedX(lvalue, value[, out original]) on a groupshared location *)
          match args with
          | dest :: v :: outs =>
            vv <~ eval_pure fu st v ;;
            lv <~ eval_lvalue fu st dest ;; let '(x, path) := lv in
            match find_var st x with
            | None => Fail "unsupported: unknown variable"
            | Some (_, cur) =>
              old <~ load_path cur path ;;
              vk <~ match kind_of old with Some k => check (conv_scalar k vv) | None => Fail "unsupported: atomic on a composite" end ;;
              nw <~ interlocked_new f old vk ;;
              st1 <~ assign_path st x path nw ;;
              match outs with
              | [] => Done (VBool false, st1)
              | [out] => lo <~ eval_lvalue fu st1 out ;; let '(ox, opath) := lo in
                         st2 <~ assign_path st1 ox opath old ;; Done (VBool false, st2)
              | _ => Fail "unsupported: Interlocked arity"
              end
            end
          | _ => Fail "unsupported: Interlocked arity"
          end
        else
        if forallb (pure_expr PURE_DEPTH) args then
          vs <~ rmap (eval_pure fu st) args ;;
          fn <~ pick_overload f vs ;;
          call_function fu st fn args vs
        else Fail "unsupported: side effect nested in a call argument"
      | EMethod obj m args =>
        if String.prefix "Interlocked" m then
          (* buf.InterlockedX(byte offset, value[, out original]): the word is read with the type of the value *)
          ov <~ eval_pure fu st obj ;;
          match ov, args with
          | VPtr bi [], off :: v :: outs =>
            match nth_error (st_bufs st) bi with
            | Some (_, (true, bytes)) =>
              vo <~ eval_pure fu st off ;; vv <~ eval_pure fu st v ;;
              o <~ offset_of vo ;; w <~ load_word bytes o ;;
              old <~ match vv with
                     | VI32 _ => Done (VI32 w) | VU32 _ => Done (VU32 w)
                     | _ => Fail "unsupported: atomic value type" end ;;
              nw <~ interlocked_new m old vv ;;
              b' <~ store_words bytes o [nw] ;;
              let st1 := set_buf st bi b' in
              match outs with
              | [] => Done (VBool false, st1)
              | [out] => lo <~ eval_lvalue fu st1 out ;; let '(ox, opath) := lo in
                         st2 <~ assign_path st1 ox opath old ;; Done (VBool false, st2)
              | _ => Fail "unsupported: Interlocked arity"
              end
            | _ => Fail "unsupported: Interlocked on a read-only or unknown buffer"
            end
          | _, _ => Fail "unsupported: Interlocked form"
          end
        else
        if negb (forallb (pure_expr PURE_DEPTH) (obj :: args)) && negb (String.eqb m "GetDimensions")
        then Fail "unsupported: side effect nested in a method argument" else
        ov <~ eval_pure fu st obj ;;
        match ov with
        | VPtr bi [] =>
          match nth_error (st_bufs st) bi with
          | None => Fail "unsupported: buffer reference"
          | Some (_, (rw, bytes)) =>
            if String.eqb m "GetDimensions" then
              match args with
              | [out] =>
                lv <~ eval_lvalue fu st out ;; let '(x, path) := lv in
                st2 <~ assign_path st x path (VU32 (Z.of_nat (List.length bytes))) ;;
                Done (VBool false, st2)
              | _ => Fail "unsupported: GetDimensions arity"
              end
            else
              vs <~ rmap (eval_pure fu st) args ;;
              match store_count m, vs with
              | Some n, [off; v] =>
                if negb rw then Fail "unsupported: Store on a read-only buffer" else
                o <~ offset_of off ;;
                (* the value parameter has type uint / uintN: an int or float argument is CONVERTED *)
                cv <~ check (convert_to 4 (match n with 1%nat => TScal KUint | _ => TVec KUint n end) v) ;;
                b' <~ store_words bytes o (match cv with VVec l => l | _ => [cv] end) ;;
                Done (VBool false, set_buf st bi b')
              | _, _ => Fail ("unsupported: buffer method " ++ m)
              end
          end
        | _ => Fail ("unsupported: method " ++ m ++ " on a non-buffer")
        end
      | _ => Fail "unsupported: side effect nested inside an expression"
      end
  end

with call_function (fuel : nat) (st : state) (fn : func) (args : list expr) (vs : list value) {struct fuel}
  : result (value * state) :=
  match fuel with
  | O => OutOfFuel
  | S fu =>
    let bind :=
        fix go (ps : list param) (vs : list value) : result (list tentry) :=
          match ps, vs with
          | [], [] => Done []
          | q :: ps', v :: vs' =>
            cv <~ check (convert_to 16 (p_type q) v) ;; rest <~ go ps' vs' ;; Done ((p_name q, p_type q, cv) :: rest)
          | _, _ => Fail "unsupported: call arity"
          end in
    frame <~ bind (fn_params fn) vs ;;
    let caller_locals := st_locals st in
    r <~ exec_block fu (mkstate frame (st_globals st) (st_bufs st)) (fn_body fn) ;;
    let '(o, st1) := r in
    ret <~ match o with
           | OReturn (Some v) => check (convert_to 16 (fn_ret fn) v)
           | OReturn None | ONormal => Done (VBool false)
           | _ => Fail "unsupported: break/continue escaping a function"
           end ;;
    (* copy-out of inout parameters, left to right *)
    let copy_out :=
        fix go (ps : list param) (args : list expr) (st2 : state) : result state :=
          match ps, args with
          | [], [] => Done st2
          | q :: ps', a :: args' =>
            if p_inout q then
              match lookup_var (p_name q) (st_locals st1) with
              | None => Fail "unsupported: inout parameter lost"
              | Some (_, final) =>
                lv <~ eval_lvalue fu st2 a ;; let '(x, path) := lv in
                st4 <~ assign_path st2 x path final ;; go ps' args' st4
              end
            else go ps' args' st2
          | _, _ => Fail "unsupported: call arity"
          end in
    st' <~ copy_out (fn_params fn) args (mkstate caller_locals (st_globals st1) (st_bufs st1)) ;;
    Done (ret, st')
  end

with exec_block (fuel : nat) (st : state) (b : list stmt) {struct fuel} : result (outcome * state) :=
  match fuel with
  | O => OutOfFuel
  | S fu =>
    match b with
    | [] => Done (ONormal, st)
    | s :: rest =>
      r <~ exec_stmt fu st s ;;
      let '(o, st1) := r in
      match o with
      | ONormal => exec_block fu st1 rest
      | _ => Done (o, st1)
      end
    end
  end

(* a nested block: its declarations go out of scope at the end *)
with exec_scoped (fuel : nat) (st : state) (b : list stmt) {struct fuel} : result (outcome * state) :=
  match fuel with
  | O => OutOfFuel
  | S fu =>
    r <~ exec_block fu st b ;;
    let '(o, st1) := r in Done (o, pop_to (List.length (st_locals st)) st1)
  end

with exec_stmt (fuel : nat) (st : state) (s : stmt) {struct fuel} : result (outcome * state) :=
  match fuel with
  | O => OutOfFuel
  | S fu =>
    match s with
    | SDecl t x None =>
      z <~ zero_of 16 t ;;          (* an uninitialised local: only ever written before it is read in emitted code *)
      Done (ONormal, push_local st x t z)
    | SDecl t x (Some e) =>
      r <~ eval_expr fu st e ;; let '(v, st1) := r in
      cv <~ check (convert_to 16 t v) ;;
      Done (ONormal, push_local st1 x t cv)
    | SAssign None lhs rhs =>
      r <~ eval_expr fu st rhs ;; let '(v, st1) := r in
      lv <~ eval_lvalue fu st1 lhs ;; let '(x, path) := lv in
      st3 <~ assign_path st1 x path v ;; Done (ONormal, st3)
    | SAssign (Some o) lhs rhs =>
      r <~ eval_expr fu st rhs ;; let '(v, st1) := r in
      lv <~ eval_lvalue fu st1 lhs ;; let '(x, path) := lv in
      match find_var st1 x with
      | None => Fail "unsupported: unknown variable"
      | Some (_, cur) =>
        old <~ load_path cur path ;; nv <~ check (bin_op o old v) ;;
        st3 <~ assign_path st1 x path nv ;; Done (ONormal, st3)
      end
    | SIncr lhs =>
      lv <~ eval_lvalue fu st lhs ;; let '(x, path) := lv in
      match find_var st x with
      | None => Fail "unsupported: unknown variable"
      | Some (_, cur) =>
        old <~ load_path cur path ;; nv <~ check (bin_op BAdd old (VI32 1)) ;;
        st3 <~ assign_path st x path nv ;; Done (ONormal, st3)
      end
    | SExpr e => r <~ eval_expr fu st e ;; let '(_, st1) := r in Done (ONormal, st1)
    | SIf c a b =>
      vc <~ eval_pure fu st c ;;
      cb <~ promote KBool vc ;;
      match cb with
      | VBool true => exec_scoped fu st a
      | VBool false => exec_scoped fu st b
      | _ => Fail "unsupported: if condition"
      end
    | SBlock b => exec_scoped fu st b
    | SWhile c body => exec_while fu st c body
    | SDoWhile body c => exec_dowhile fu st body c
    | SFor init c step body =>
      r <~ exec_block fu st init ;; let '(_, st1) := r in
      r2 <~ exec_for fu st1 c step body ;; let '(o, st2) := r2 in
      Done (o, pop_to (List.length (st_locals st)) st2)
    | SSwitch e cases =>
      sel <~ eval_pure fu st e ;;
      (* labels are constant expressions *)
      let find :=
          fix go (cs : list (option expr * list stmt)) (i : nat) : result (option nat) :=
            match cs with
            | [] => Done None
            | (None, _) :: cs' => go cs' (S i)
            | (Some le, _) :: cs' =>
              lv <~ eval_pure fu st le ;;
              if case_matches lv sel then Done (Some i) else go cs' (S i)
            end in
      let find_default :=
          fix go (cs : list (option expr * list stmt)) (i : nat) : option nat :=
            match cs with
            | [] => None
            | (None, _) :: _ => Some i
            | _ :: cs' => go cs' (S i)
            end in
      hit <~ find cases 0%nat ;;
      match (match hit with Some i => Some i | None => find_default cases 0%nat end) with
      | None => Done (ONormal, st)
      | Some i =>
        r2 <~ exec_cases fu st (skipn i cases) ;; let '(o, st2) := r2 in
        Done (match o with OBreak => ONormal | _ => o end, st2)
      end
    | SBreak => Done (OBreak, st)
    | SContinue => Done (OContinue, st)
    | SReturn None => Done (OReturn None, st)
    | SReturn (Some e) => r <~ eval_expr fu st e ;; let '(v, st1) := r in Done (OReturn (Some v), st1)
    end
  end

with exec_cases (fuel : nat) (st : state) (cs : list (option expr * list stmt)) {struct fuel} : result (outcome * state) :=
  match fuel with
  | O => OutOfFuel
  | S fu =>
    match cs with
    | [] => Done (ONormal, st)
    | (_, body) :: rest =>
      r <~ exec_scoped fu st body ;; let '(o, st1) := r in
      match o with
      | ONormal => exec_cases fu st1 rest          (* fall through *)
      | _ => Done (o, st1)
      end
    end
  end

with exec_while (fuel : nat) (st : state) (c : expr) (body : list stmt) {struct fuel} : result (outcome * state) :=
  match fuel with
  | O => OutOfFuel
  | S fu =>
    vc <~ eval_pure fu st c ;;
    cb <~ promote KBool vc ;;
    match cb with
    | VBool false => Done (ONormal, st)
    | VBool true =>
      r2 <~ exec_scoped fu st body ;; let '(o, st2) := r2 in
      match o with
      | OBreak => Done (ONormal, st2)
      | OReturn _ => Done (o, st2)
      | ONormal | OContinue => exec_while fu st2 c body
      end
    | _ => Fail "unsupported: while condition"
    end
  end

with exec_dowhile (fuel : nat) (st : state) (body : list stmt) (c : expr) {struct fuel} : result (outcome * state) :=
  match fuel with
  | O => OutOfFuel
  | S fu =>
    r2 <~ exec_scoped fu st body ;; let '(o, st2) := r2 in
    match o with
    | OBreak => Done (ONormal, st2)
    | OReturn _ => Done (o, st2)
    | ONormal | OContinue =>
      vc <~ eval_pure fu st2 c ;;
      cb <~ promote KBool vc ;;
      match cb with
      | VBool false => Done (ONormal, st2)
      | VBool true => exec_dowhile fu st2 body c
      | _ => Fail "unsupported: do-while condition"
      end
    end
  end

with exec_for (fuel : nat) (st : state) (c : expr) (step body : list stmt) {struct fuel} : result (outcome * state) :=
  match fuel with
  | O => OutOfFuel
  | S fu =>
    vc <~ eval_pure fu st c ;;
    cb <~ promote KBool vc ;;
    match cb with
    | VBool false => Done (ONormal, st)
    | VBool true =>
      r2 <~ exec_scoped fu st body ;; let '(o, st2) := r2 in
      match o with
      | OBreak => Done (ONormal, st2)
      | OReturn _ => Done (o, st2)
      | ONormal | OContinue =>
        r3 <~ exec_block fu st2 step ;; let '(_, st3) := r3 in
        exec_for fu st3 c step body
      end
    | _ => Fail "unsupported: for condition"
    end
  end.

(* ---- cbuffer contents: a structured (WGSL-shaped) value re-shaped to the emitted HLSL type:
   padding members (_padN_M, _end_pad_N) read as zero, a matrix with 2-component columns
   arrives as its column members (m_0, m_1, ... or the __matCx2 struct) ---- *)
Definition is_pad_name (n : string) : bool :=
  String.prefix "_pad" n || String.prefix "_end_pad" n.

Fixpoint shape_cbuffer (fuel : nat) (t : htype) (v : value) : result value :=
  match fuel with
  | O => OutOfFuel
  | S f =>
    match resolve 8 t, v with
    | TArr e n, VArr l => vs <~ rmap (shape_cbuffer f e) l ;; Done (VArr vs)
    | TNamed sn, VMat rows =>
      match struct_members sn with
      | Some ms => if Nat.eqb (List.length ms) (List.length rows) then Done (VStruct rows)
                   else Fail "unsupported: cbuffer matrix struct shape"
      | None => Fail "unsupported: cbuffer type"
      end
    | TNamed sn, VStruct fields =>
      match struct_members sn with
      | None => Fail "unsupported: cbuffer type"
      | Some ms =>
        let go :=
            fix go (ms : list (htype * string)) (fields : list value) (pending : list value) : result (list value) :=
              match ms with
              | [] => match fields, pending with [], [] => Done [] | _, _ => Fail "unsupported: cbuffer struct arity" end
              | (mt, mn) :: ms' =>
                if is_pad_name mn then rest <~ go ms' fields pending ;; Done (VI32 0 :: rest)
                else
                  match pending with
                  | row :: pending' => rest <~ go ms' fields pending' ;; Done (row :: rest)
                  | [] =>
                    match fields with
                    | [] => Fail "unsupported: cbuffer struct arity"
                    | fv :: fields' =>
                      match resolve 8 mt, fv with
                      | TVec _ _, VMat (row :: rows) => rest <~ go ms' fields' rows ;; Done (row :: rest)
                      | _, _ => x <~ shape_cbuffer f mt fv ;; rest <~ go ms' fields' [] ;; Done (x :: rest)
                      end
                    end
                  end
              end in
        vs <~ go ms fields [] ;; Done (VStruct vs)
      end
    | _, _ => Done v
    end
  end.

(* ---- entry points ---- *)
Definition find_entry (name : string) : result func :=
  match filter (fun fn => String.eqb (fn_name fn) name && match fn_numthreads fn with Some _ => true | None => false end) (pr_funcs p) with
  | fn :: _ => Done fn
  | [] => Fail ("unsupported: no compute entry point " ++ name)
  end.

Fixpoint init_globals (fuel : nat) (gs : list gvar) (cbufs : list (string * value)) (st : state) : result state :=
  match gs with
  | [] => Done st
  | g :: gs' =>
    st1 <~ match gv_kind g with
           | GBuffer _ _ => Done st
           | GCBuffer reg =>
             match assoc_s reg cbufs with
             | Some v => x <~ shape_cbuffer 16 (gv_type g) v ;; cv <~ check (convert_to 16 (gv_type g) x) ;;
                         Done (mkstate (st_locals st) (st_globals st ++ [(gv_name g, gv_type g, cv)])%list (st_bufs st))
             | None => z <~ zero_of 16 (gv_type g) ;;
                       Done (mkstate (st_locals st) (st_globals st ++ [(gv_name g, gv_type g, z)])%list (st_bufs st))
             end
           | GShared =>
             z <~ zero_of 16 (gv_type g) ;;
             Done (mkstate (st_locals st) (st_globals st ++ [(gv_name g, gv_type g, z)])%list (st_bufs st))
           | GStatic | GConst =>
             match gv_init g with
             | None => z <~ zero_of 16 (gv_type g) ;;
                       Done (mkstate (st_locals st) (st_globals st ++ [(gv_name g, gv_type g, z)])%list (st_bufs st))
             | Some e =>
               r <~ eval_expr fuel st e ;; let '(v, st') := r in
               cv <~ check (convert_to 16 (gv_type g) v) ;;
               Done (mkstate (st_locals st') (st_globals st' ++ [(gv_name g, gv_type g, cv)])%list (st_bufs st'))
             end
           end ;;
    init_globals fuel gs' cbufs st1
  end.

Definition buffer_table (bufs : list (string * list Z)) : result (list (string * (bool * list Z))) :=
  rmap (fun g =>
          match gv_kind g with
          | GBuffer rw reg =>
            match assoc_s reg bufs with
            | Some bytes => Done (gv_name g, (rw, bytes))
            | None => Done (gv_name g, (rw, []))
            end
          | _ => Fail "internal"
          end)
       (filter (fun g => match gv_kind g with GBuffer _ _ => true | _ => false end) (pr_globals p)).

Definition run_entry (fuel : nat) (ep : string) (bufs : list (string * list Z)) (cbufs : list (string * value))
           (builtins : list (string * value)) : result state :=
  fn <~ find_entry ep ;;
  bt <~ buffer_table bufs ;;
  st0 <~ init_globals fuel (pr_globals p) cbufs (mkstate [] [] bt) ;;
  args <~ rmap (fun q => match p_sem q with
                         | Some s => match assoc_s s builtins with
                                     | Some v => Done v
                                     | None => Fail ("unsupported: entry point input " ++ s) end
                         | None => Fail "unsupported: entry point parameter without semantic" end) (fn_params fn) ;;
  frame <~ (fix go (ps : list param) (vs : list value) : result (list tentry) :=
              match ps, vs with
              | [], [] => Done []
              | q :: ps', v :: vs' => cv <~ check (convert_to 16 (p_type q) v) ;; rest <~ go ps' vs' ;; Done ((p_name q, p_type q, cv) :: rest)
              | _, _ => Fail "unsupported: entry arity"
              end) (fn_params fn) args ;;
  r <~ exec_block fuel (mkstate frame (st_globals st0) (st_bufs st0)) (fn_body fn) ;;
  let '(o, st1) := r in
  match o with
  | OBreak | OContinue => Fail "unsupported: break/continue escaping the entry point"
  | _ => Done st1
  end.

End WithProgram.
