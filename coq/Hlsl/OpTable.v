(* The tie between the catalogue and /repo: Gen/HlslOpTable.v is regenerated on every run by the
   probe (gen.py `hlsloptable`, lib/c03gen.py): one tiny WGSL program per (operator, scalar kind,
   shape), compiled by the HLSL backend of the current working tree, the result expression and the
   helper functions it calls read back from the emitted text.  Obligations, re-checked by coqc on
   every run:
     gen_table_in_catalogue     every probed (template, helpers) is syntactically a catalogue entry
                                with the same (operator, type) key - so it has a lemma for all
                                operands, or is on the refuted / validated / unmodelled lists;
     gen_table_all_readable     no probe output fell outside the reader's fragment;
     gen_catalogue_exercised    every catalogue entry is hit by at least one probe row (a probe
                                cannot silently disappear). *)
From Coq Require Import List ZArith String Bool.
Import ListNotations.
Require Import Naga.Hlsl.Syntax Naga.Hlsl.Catalogue Naga.Gen.HlslOpTable.
Open Scope string_scope.

Definition same_key (e : cat_entry) (r : row) : bool := String.eqb (e_op e) (r_op r) && String.eqb (e_ty e) (r_ty r).

Definition row_in_catalogue (r : row) : bool :=
  existsb (fun e => same_key e r && expr_eqb (e_template e) (r_template r) && funcs_eqb (e_helpers e) (r_helpers r)) catalogue.

(* the rows that are NOT in the catalogue (for the search when the obligation fails) *)
Definition stray_rows : list (string * string * string) :=
  map (fun r => (r_op r, r_ty r, r_shape r)) (filter (fun r => negb (row_in_catalogue r)) table).

Lemma gen_table_in_catalogue : forallb row_in_catalogue table = true.
Proof. vm_compute. reflexivity. Qed.

Lemma gen_table_all_readable : unreadable = [].
Proof. reflexivity. Qed.

Lemma gen_catalogue_exercised : forallb (fun e => existsb (same_key e) table) catalogue = true.
Proof. vm_compute. reflexivity. Qed.
