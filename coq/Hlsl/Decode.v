(* Decoder: the JSON AST written by lib/hlslread.py -> Hlsl/Syntax.program.
   Every node is a JSON array whose first element is a tag string. *)
From Coq Require Import List ZArith String Bool.
Import ListNotations.
Require Import Naga.Base.Json Naga.Hlsl.Syntax.
Open Scope string_scope.
Open Scope Z_scope.
Infix "==" := String.eqb (at level 70).

Inductive res (A : Type) := Ok (a : A) | Err (msg : string).
Arguments Ok {A} a.
Arguments Err {A} msg.
Definition bind {A B} (r : res A) (f : A -> res B) : res B := match r with Ok a => f a | Err m => Err m end.
Notation "x <- e1 ;; e2" := (bind e1 (fun x => e2)) (at level 61, e1 at next level, right associativity).

Fixpoint map_res {A B} (f : A -> res B) (l : list A) : res (list B) :=
  match l with
  | [] => Ok []
  | x :: l' => y <- f x ;; ys <- map_res f l' ;; Ok (y :: ys)
  end.

Definition dec_kind (s : string) : res skind :=
  if s == "int" then Ok KInt else if s == "uint" then Ok KUint else if s == "float" then Ok KFloat
  else if s == "bool" then Ok KBool else Err ("scalar kind " ++ s).

Definition jnat (j : json) : res nat :=
  match j with JNum z => if z <? 0 then Err "negative size" else Ok (Z.to_nat z) | _ => Err "expected number" end.

Fixpoint dec_type (fuel : nat) (j : json) : res htype :=
  match fuel with
  | O => Err "type too deep"
  | S f =>
    match j with
    | JArr [JStr "void"] => Ok TVoid
    | JArr [JStr "scal"; JStr k] => k' <- dec_kind k ;; Ok (TScal k')
    | JArr [JStr "vec"; JStr k; n] => k' <- dec_kind k ;; n' <- jnat n ;; Ok (TVec k' n')
    | JArr [JStr "mat"; JStr k; c; r] => k' <- dec_kind k ;; c' <- jnat c ;; r' <- jnat r ;; Ok (TMat k' c' r')
    | JArr [JStr "named"; JStr n] => Ok (TNamed n)
    | JArr [JStr "arr"; t; n] => t' <- dec_type f t ;; n' <- jnat n ;; Ok (TArr t' n')
    | JArr [JStr "buf"; JBool rw] => Ok (TBuf rw)
    | _ => Err "type"
    end
  end.

Definition dec_unop (s : string) : res unop :=
  if s == "-" then Ok UNeg else if s == "!" then Ok UNot else if s == "~" then Ok UBitNot
  else if s == "+" then Ok UPlus else Err ("unary operator " ++ s).

Definition dec_binop (s : string) : res binop :=
  if s == "+" then Ok BAdd else if s == "-" then Ok BSub else if s == "*" then Ok BMul
  else if s == "/" then Ok BDiv else if s == "%" then Ok BMod
  else if s == "<<" then Ok BShl else if s == ">>" then Ok BShr
  else if s == "&" then Ok BAnd else if s == "|" then Ok BOr else if s == "^" then Ok BXor
  else if s == "&&" then Ok BLAnd else if s == "||" then Ok BLOr
  else if s == "==" then Ok BEq else if s == "!=" then Ok BNe
  else if s == "<" then Ok BLt else if s == "<=" then Ok BLe else if s == ">" then Ok BGt else if s == ">=" then Ok BGe
  else Err ("binary operator " ++ s).

Fixpoint dec_expr (fuel : nat) (j : json) : res expr :=
  match fuel with
  | O => Err "expression too deep"
  | S f =>
    match j with
    | JArr [JStr "i"; JNum z] => Ok (ELitI z)
    | JArr [JStr "u"; JNum z] => Ok (ELitU z)
    | JArr [JStr "f"; JNum z] => Ok (ELitF z)
    | JArr [JStr "b"; JBool b] => Ok (ELitB b)
    | JArr [JStr "var"; JStr x] => Ok (EVar x)
    | JArr [JStr "un"; JStr o; e] => o' <- dec_unop o ;; e' <- dec_expr f e ;; Ok (EUn o' e')
    | JArr [JStr "bin"; JStr o; a; b] => o' <- dec_binop o ;; a' <- dec_expr f a ;; b' <- dec_expr f b ;; Ok (EBin o' a' b')
    | JArr [JStr "cond"; c; a; b] => c' <- dec_expr f c ;; a' <- dec_expr f a ;; b' <- dec_expr f b ;; Ok (ECond c' a' b')
    | JArr [JStr "cast"; t; e] => t' <- dec_type 16 t ;; e' <- dec_expr f e ;; Ok (ECast t' e')
    | JArr [JStr "ctor"; t; JArr args] => t' <- dec_type 16 t ;; a' <- map_res (dec_expr f) args ;; Ok (ECtor t' a')
    | JArr [JStr "call"; JStr fn; JArr args] => a' <- map_res (dec_expr f) args ;; Ok (ECall fn a')
    | JArr [JStr "member"; e; JStr m] => e' <- dec_expr f e ;; Ok (EMember e' m)
    | JArr [JStr "index"; e; i] => e' <- dec_expr f e ;; i' <- dec_expr f i ;; Ok (EIndex e' i')
    | JArr [JStr "method"; o; JStr m; JArr args] =>
      o' <- dec_expr f o ;; a' <- map_res (dec_expr f) args ;; Ok (EMethod o' m a')
    | JArr [JStr "init"; JArr es] => es' <- map_res (dec_expr f) es ;; Ok (EInit es')
    | _ => Err "expression"
    end
  end.

Definition dec_opt {A} (f : json -> res A) (j : json) : res (option A) :=
  match j with JNull => Ok None | _ => x <- f j ;; Ok (Some x) end.

Definition EXPR_FUEL : nat := 400.

Fixpoint dec_stmt (fuel : nat) (j : json) : res stmt :=
  match fuel with
  | O => Err "statement too deep"
  | S f =>
    let block (js : list json) := map_res (dec_stmt f) js in
    match j with
    | JArr [JStr "decl"; t; JStr x; init] =>
      t' <- dec_type 16 t ;; i' <- dec_opt (dec_expr EXPR_FUEL) init ;; Ok (SDecl t' x i')
    | JArr [JStr "assign"; JNull; l; r] => l' <- dec_expr EXPR_FUEL l ;; r' <- dec_expr EXPR_FUEL r ;; Ok (SAssign None l' r')
    | JArr [JStr "assign"; JStr o; l; r] =>
      o' <- dec_binop o ;; l' <- dec_expr EXPR_FUEL l ;; r' <- dec_expr EXPR_FUEL r ;; Ok (SAssign (Some o') l' r')
    | JArr [JStr "incr"; l] => l' <- dec_expr EXPR_FUEL l ;; Ok (SIncr l')
    | JArr [JStr "expr"; e] => e' <- dec_expr EXPR_FUEL e ;; Ok (SExpr e')
    | JArr [JStr "if"; c; JArr a; JArr b] => c' <- dec_expr EXPR_FUEL c ;; a' <- block a ;; b' <- block b ;; Ok (SIf c' a' b')
    | JArr [JStr "while"; c; JArr b] => c' <- dec_expr EXPR_FUEL c ;; b' <- block b ;; Ok (SWhile c' b')
    | JArr [JStr "dowhile"; JArr b; c] => c' <- dec_expr EXPR_FUEL c ;; b' <- block b ;; Ok (SDoWhile b' c')
    | JArr [JStr "for"; JArr i; c; JArr s; JArr b] =>
      i' <- block i ;; c' <- dec_expr EXPR_FUEL c ;; s' <- block s ;; b' <- block b ;; Ok (SFor i' c' s' b')
    | JArr [JStr "switch"; e; JArr cases] =>
      e' <- dec_expr EXPR_FUEL e ;;
      cs <- map_res (fun cj => match cj with
                               | JArr [lab; JArr body] =>
                                 l' <- dec_opt (dec_expr EXPR_FUEL) lab ;; b' <- block body ;; Ok (l', b')
                               | _ => Err "switch case" end) cases ;;
      Ok (SSwitch e' cs)
    | JArr [JStr "break"] => Ok SBreak
    | JArr [JStr "continue"] => Ok SContinue
    | JArr [JStr "return"; e] => e' <- dec_opt (dec_expr EXPR_FUEL) e ;; Ok (SReturn e')
    | JArr [JStr "block"; JArr b] => b' <- block b ;; Ok (SBlock b')
    | _ => Err "statement"
    end
  end.

Definition STMT_FUEL : nat := 200.

Definition dec_param (j : json) : res param :=
  match j with
  | JArr [JBool io; t; JStr n; sem] =>
    t' <- dec_type 16 t ;;
    s' <- match sem with JNull => Ok None | JStr s => Ok (Some s) | _ => Err "semantic" end ;;
    Ok (mkparam io t' n s')
  | _ => Err "parameter"
  end.

Definition dec_func (j : json) : res func :=
  match field_str "name" j, field "ret" j, field_arr "params" j, field_arr "body" j, field "numthreads" j with
  | Some n, Some r, Some ps, Some b, Some nt =>
    r' <- dec_type 16 r ;; ps' <- map_res dec_param ps ;; b' <- map_res (dec_stmt STMT_FUEL) b ;;
    nt' <- match nt with JNull => Ok None | _ => match nums nt with Some l => Ok (Some l) | None => Err "numthreads" end end ;;
    Ok (mkfunc n r' ps' b' nt')
  | _, _, _, _, _ => Err "function record"
  end.

Definition dec_global (j : json) : res gvar :=
  match j with
  | JArr [JStr kind; reg; t; JStr name; init] =>
    t' <- dec_type 16 t ;; i' <- dec_opt (dec_expr EXPR_FUEL) init ;;
    k <- (if kind == "static" then Ok GStatic
          else if kind == "const" then Ok GConst
          else if kind == "shared" then Ok GShared
          else match reg with
               | JStr r =>
                 if kind == "cbuffer" then Ok (GCBuffer r)
                 else if kind == "rwbuffer" then Ok (GBuffer true r)
                 else if kind == "buffer" then Ok (GBuffer false r)
                 else Err ("global kind " ++ kind)
               | _ => Err "register"
               end) ;;
    Ok (mkgvar k t' name i')
  | _ => Err "global"
  end.

Definition dec_struct (j : json) : res (string * list (htype * string)) :=
  match j with
  | JArr [JStr n; JArr ms] =>
    ms' <- map_res (fun m => match m with JArr [t; JStr mn] => t' <- dec_type 16 t ;; Ok (t', mn) | _ => Err "struct member" end) ms ;;
    Ok (n, ms')
  | _ => Err "struct"
  end.

Definition dec_typedef (j : json) : res (string * htype) :=
  match j with
  | JArr [JStr n; t] => t' <- dec_type 16 t ;; Ok (n, t')
  | _ => Err "typedef"
  end.

Definition dec_program (j : json) : res program :=
  match field_arr "structs" j, field_arr "typedefs" j, field_arr "globals" j, field_arr "funcs" j with
  | Some ss, Some ts, Some gs, Some fs =>
    ss' <- map_res dec_struct ss ;; ts' <- map_res dec_typedef ts ;;
    gs' <- map_res dec_global gs ;; fs' <- map_res dec_func fs ;;
    Ok (mkprogram ss' ts' gs' fs')
  | _, _, _, _ => Err "program record"
  end.
