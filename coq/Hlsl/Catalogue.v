(* Catalogue of the expression templates naga's HLSL backend emits, one per (IR operator | math
   builtin | conversion, operand type): the template as an expression tree over the operand
   variables a b c d, the generated helper functions it calls (bodies as emitted, read back from the
   HLSL text), the WGSL meaning it must compute (Base/Bits32.v, Base/F32.v) and its status:
     Proved      lemma for ALL 32-bit operands in CatalogueProofs.v (catalogue_sound)
     Refuted     a witness operand on which the template differs from the WGSL meaning (finding)
     Shapes      vector / matrix operands: one lemma per shape in CatalogueProofs.v
     Validated   the WGSL meaning is stated (e_spec) but there is no lemma for all operands yet: the
                 template is covered by the differential validation of whole programs only
     Unmodelled  no WGSL-side definition in Base/F32.v (transcendental functions, f32 %, geometry):
                 the template is only pinned (a change of the emitted text still breaks the tie)
   The tie to /repo is Hlsl/OpTable.v: every row of the regenerated probe table Gen/HlslOpTable.v
   is syntactically one of these entries. *)
From Coq Require Import List ZArith String Bool.
Import ListNotations.
Require Import Naga.Base.Bits32 Naga.Base.F32 Naga.IR.Values Naga.Hlsl.Syntax Naga.Hlsl.Ops Naga.Hlsl.Sem.
Open Scope string_scope.
Open Scope Z_scope.

Inductive status := Proved | Refuted | Shapes | Validated | Unmodelled.

Record cat_entry := mkentry {
  e_op : string; e_ty : string;
  e_args : list skind;                      (* kinds of the operands a, b, c, d *)
  e_template : expr;
  e_helpers : list func;
  e_pre : list Z -> bool;                   (* operands on which WGSL defines the result (true: all) *)
  e_spec : option (list Z -> value);        (* WGSL meaning, from the operands' bit patterns (bool: non-zero) *)
  e_status : status }.

(* evaluation of a template: operands bound as local variables of their HLSL type *)
Definition FUEL : nat := 40.
Definition eval_template (helpers : list func) (args : list tentry) (e : expr) : result value :=
  eval_pure (mkprogram [] [] [] helpers) FUEL (mkstate args [] []) e.

Definition mkval (k : skind) (z : Z) : value :=
  match k with KInt => VI32 z | KUint => VU32 z | KFloat => VF32 z | KBool => VBool (negb (z =? 0)) end.

Fixpoint bind_operands (names : list string) (ks : list skind) (zs : list Z) : list tentry :=
  match names, ks, zs with
  | n :: names', k :: ks', z :: zs' => (n, TScal k, mkval k z) :: bind_operands names' ks' zs'
  | _, _, _ => []
  end.
Definition operand_names : list string := ["a"; "b"; "c"; "d"].

Definition nthz (zs : list Z) (i : nat) : Z := nth i zs 0.
Definition nthb (zs : list Z) (i : nat) : bool := negb (nth i zs 0 =? 0).

(* f32 -> i32 / u32: WGSL (Base/F32.v) and the emitted clamp agree on every non-NaN operand below
   2^31 (resp. 2^32); see CatalogueProofs.v for what the helper returns elsewhere *)
Definition f2i32_defined (a : Z) : bool := negb (is_nan_bits a) && negb (fle 1325400064 a).   (* a < 2^31 *)
Definition f2u32_defined (a : Z) : bool := negb (is_nan_bits a) && negb (fle 1333788672 a).   (* a < 2^32 *)

Definition t_Add_i32 : expr := (ECall "asint" [(EBin BAdd (ECall "asuint" [(EVar "a")]) (ECall "asuint" [(EVar "b")]))]).
Definition h_Add_i32 : list func := [].
Definition t_Subtract_i32 : expr := (ECall "asint" [(EBin BSub (ECall "asuint" [(EVar "a")]) (ECall "asuint" [(EVar "b")]))]).
Definition h_Subtract_i32 : list func := [].
Definition t_Multiply_i32 : expr := (ECall "asint" [(EBin BMul (ECall "asuint" [(EVar "a")]) (ECall "asuint" [(EVar "b")]))]).
Definition h_Multiply_i32 : list func := [].
Definition t_Divide_i32 : expr := (ECall "naga_div" [(EVar "a"); (EVar "b")]).
Definition h_Divide_i32 : list func := [(mkfunc "naga_div" (TScal KInt) [(mkparam false (TScal KInt) "lhs" None); (mkparam false (TScal KInt) "rhs" None)] [(SReturn (Some (EBin BDiv (EVar "lhs") (ECond (EBin BOr (EBin BAnd (EBin BEq (EVar "lhs") (ECtor (TScal KInt) [(EBin BSub (EUn UNeg (ELitI 2147483647)) (ELitI 1))])) (EBin BEq (EVar "rhs") (EUn UNeg (ELitI 1)))) (EBin BEq (EVar "rhs") (ELitI 0))) (ELitI 1) (EVar "rhs")))))] None)].
Definition t_Modulo_i32 : expr := (ECall "naga_mod" [(EVar "a"); (EVar "b")]).
Definition h_Modulo_i32 : list func := [(mkfunc "naga_mod" (TScal KInt) [(mkparam false (TScal KInt) "lhs" None); (mkparam false (TScal KInt) "rhs" None)] [(SDecl (TScal KInt) "divisor" (Some (ECond (EBin BOr (EBin BAnd (EBin BEq (EVar "lhs") (ECtor (TScal KInt) [(EBin BSub (EUn UNeg (ELitI 2147483647)) (ELitI 1))])) (EBin BEq (EVar "rhs") (EUn UNeg (ELitI 1)))) (EBin BEq (EVar "rhs") (ELitI 0))) (ELitI 1) (EVar "rhs")))); (SReturn (Some (EBin BSub (EVar "lhs") (EBin BMul (EBin BDiv (EVar "lhs") (EVar "divisor")) (EVar "divisor")))))] None)].
Definition t_Equal_i32 : expr := (EBin BEq (EVar "a") (EVar "b")).
Definition h_Equal_i32 : list func := [].
Definition t_NotEqual_i32 : expr := (EBin BNe (EVar "a") (EVar "b")).
Definition h_NotEqual_i32 : list func := [].
Definition t_Less_i32 : expr := (EBin BLt (EVar "a") (EVar "b")).
Definition h_Less_i32 : list func := [].
Definition t_LessEqual_i32 : expr := (EBin BLe (EVar "a") (EVar "b")).
Definition h_LessEqual_i32 : list func := [].
Definition t_Greater_i32 : expr := (EBin BGt (EVar "a") (EVar "b")).
Definition h_Greater_i32 : list func := [].
Definition t_GreaterEqual_i32 : expr := (EBin BGe (EVar "a") (EVar "b")).
Definition h_GreaterEqual_i32 : list func := [].
Definition t_Add_u32 : expr := (EBin BAdd (EVar "a") (EVar "b")).
Definition h_Add_u32 : list func := [].
Definition t_Subtract_u32 : expr := (EBin BSub (EVar "a") (EVar "b")).
Definition h_Subtract_u32 : list func := [].
Definition t_Multiply_u32 : expr := (EBin BMul (EVar "a") (EVar "b")).
Definition h_Multiply_u32 : list func := [].
Definition t_Divide_u32 : expr := (ECall "naga_div" [(EVar "a"); (EVar "b")]).
Definition h_Divide_u32 : list func := [(mkfunc "naga_div" (TScal KUint) [(mkparam false (TScal KUint) "lhs" None); (mkparam false (TScal KUint) "rhs" None)] [(SReturn (Some (EBin BDiv (EVar "lhs") (ECond (EBin BEq (EVar "rhs") (ELitU 0)) (ELitU 1) (EVar "rhs")))))] None)].
Definition t_Modulo_u32 : expr := (ECall "naga_mod" [(EVar "a"); (EVar "b")]).
Definition h_Modulo_u32 : list func := [(mkfunc "naga_mod" (TScal KUint) [(mkparam false (TScal KUint) "lhs" None); (mkparam false (TScal KUint) "rhs" None)] [(SReturn (Some (EBin BMod (EVar "lhs") (ECond (EBin BEq (EVar "rhs") (ELitU 0)) (ELitU 1) (EVar "rhs")))))] None)].
Definition t_Equal_u32 : expr := (EBin BEq (EVar "a") (EVar "b")).
Definition h_Equal_u32 : list func := [].
Definition t_NotEqual_u32 : expr := (EBin BNe (EVar "a") (EVar "b")).
Definition h_NotEqual_u32 : list func := [].
Definition t_Less_u32 : expr := (EBin BLt (EVar "a") (EVar "b")).
Definition h_Less_u32 : list func := [].
Definition t_LessEqual_u32 : expr := (EBin BLe (EVar "a") (EVar "b")).
Definition h_LessEqual_u32 : list func := [].
Definition t_Greater_u32 : expr := (EBin BGt (EVar "a") (EVar "b")).
Definition h_Greater_u32 : list func := [].
Definition t_GreaterEqual_u32 : expr := (EBin BGe (EVar "a") (EVar "b")).
Definition h_GreaterEqual_u32 : list func := [].
Definition t_Add_f32 : expr := (EBin BAdd (EVar "a") (EVar "b")).
Definition h_Add_f32 : list func := [].
Definition t_Subtract_f32 : expr := (EBin BSub (EVar "a") (EVar "b")).
Definition h_Subtract_f32 : list func := [].
Definition t_Multiply_f32 : expr := (EBin BMul (EVar "a") (EVar "b")).
Definition h_Multiply_f32 : list func := [].
Definition t_Divide_f32 : expr := (EBin BDiv (EVar "a") (EVar "b")).
Definition h_Divide_f32 : list func := [].
Definition t_Modulo_f32 : expr := (ECall "naga_mod" [(EVar "a"); (EVar "b")]).
Definition h_Modulo_f32 : list func := [(mkfunc "naga_mod" (TScal KFloat) [(mkparam false (TScal KFloat) "lhs" None); (mkparam false (TScal KFloat) "rhs" None)] [(SReturn (Some (EBin BSub (EVar "lhs") (EBin BMul (EVar "rhs") (ECall "trunc" [(EBin BDiv (EVar "lhs") (EVar "rhs"))])))))] None)].
Definition t_Equal_f32 : expr := (EBin BEq (EVar "a") (EVar "b")).
Definition h_Equal_f32 : list func := [].
Definition t_NotEqual_f32 : expr := (EBin BNe (EVar "a") (EVar "b")).
Definition h_NotEqual_f32 : list func := [].
Definition t_Less_f32 : expr := (EBin BLt (EVar "a") (EVar "b")).
Definition h_Less_f32 : list func := [].
Definition t_LessEqual_f32 : expr := (EBin BLe (EVar "a") (EVar "b")).
Definition h_LessEqual_f32 : list func := [].
Definition t_Greater_f32 : expr := (EBin BGt (EVar "a") (EVar "b")).
Definition h_Greater_f32 : list func := [].
Definition t_GreaterEqual_f32 : expr := (EBin BGe (EVar "a") (EVar "b")).
Definition h_GreaterEqual_f32 : list func := [].
Definition t_And_i32 : expr := (EBin BAnd (EVar "a") (EVar "b")).
Definition h_And_i32 : list func := [].
Definition t_InclusiveOr_i32 : expr := (EBin BOr (EVar "a") (EVar "b")).
Definition h_InclusiveOr_i32 : list func := [].
Definition t_ExclusiveOr_i32 : expr := (EBin BXor (EVar "a") (EVar "b")).
Definition h_ExclusiveOr_i32 : list func := [].
Definition t_ShiftLeft_i32 : expr := (EBin BShl (EVar "a") (EVar "b")).
Definition h_ShiftLeft_i32 : list func := [].
Definition t_ShiftRight_i32 : expr := (EBin BShr (EVar "a") (EVar "b")).
Definition h_ShiftRight_i32 : list func := [].
Definition t_BitwiseNot_i32 : expr := (EUn UBitNot (EVar "a")).
Definition h_BitwiseNot_i32 : list func := [].
Definition t_And_u32 : expr := (EBin BAnd (EVar "a") (EVar "b")).
Definition h_And_u32 : list func := [].
Definition t_InclusiveOr_u32 : expr := (EBin BOr (EVar "a") (EVar "b")).
Definition h_InclusiveOr_u32 : list func := [].
Definition t_ExclusiveOr_u32 : expr := (EBin BXor (EVar "a") (EVar "b")).
Definition h_ExclusiveOr_u32 : list func := [].
Definition t_ShiftLeft_u32 : expr := (EBin BShl (EVar "a") (EVar "b")).
Definition h_ShiftLeft_u32 : list func := [].
Definition t_ShiftRight_u32 : expr := (EBin BShr (EVar "a") (EVar "b")).
Definition h_ShiftRight_u32 : list func := [].
Definition t_BitwiseNot_u32 : expr := (EUn UBitNot (EVar "a")).
Definition h_BitwiseNot_u32 : list func := [].
Definition t_And_bool : expr := (EBin BAnd (EVar "a") (EVar "b")).
Definition h_And_bool : list func := [].
Definition t_InclusiveOr_bool : expr := (EBin BOr (EVar "a") (EVar "b")).
Definition h_InclusiveOr_bool : list func := [].
Definition t_Equal_bool : expr := (EBin BEq (EVar "a") (EVar "b")).
Definition h_Equal_bool : list func := [].
Definition t_NotEqual_bool : expr := (EBin BNe (EVar "a") (EVar "b")).
Definition h_NotEqual_bool : list func := [].
Definition t_LogicalNot_bool : expr := (EUn UNot (EVar "a")).
Definition h_LogicalNot_bool : list func := [].
Definition t_Negate_i32 : expr := (ECall "naga_neg" [(EVar "a")]).
Definition h_Negate_i32 : list func := [(mkfunc "naga_neg" (TScal KInt) [(mkparam false (TScal KInt) "val" None)] [(SReturn (Some (ECall "asint" [(EUn UNeg (ECall "asuint" [(EVar "val")]))])))] None)].
Definition t_Negate_f32 : expr := (EUn UNeg (EVar "a")).
Definition h_Negate_f32 : list func := [].
Definition t_Select_i32 : expr := (ECond (EVar "c") (EVar "b") (EVar "a")).
Definition h_Select_i32 : list func := [].
Definition t_Select_u32 : expr := (ECond (EVar "c") (EVar "b") (EVar "a")).
Definition h_Select_u32 : list func := [].
Definition t_Select_f32 : expr := (ECond (EVar "c") (EVar "b") (EVar "a")).
Definition h_Select_f32 : list func := [].
Definition t_Select_bool : expr := (ECond (EVar "c") (EVar "b") (EVar "a")).
Definition h_Select_bool : list func := [].
Definition t_MathAbs_i32 : expr := (ECall "abs" [(EVar "a")]).
Definition h_MathAbs_i32 : list func := [].
Definition t_MathMin_i32 : expr := (ECall "min" [(EVar "a"); (EVar "b")]).
Definition h_MathMin_i32 : list func := [].
Definition t_MathMax_i32 : expr := (ECall "max" [(EVar "a"); (EVar "b")]).
Definition h_MathMax_i32 : list func := [].
Definition t_MathClamp_i32 : expr := (ECall "clamp" [(EVar "a"); (EVar "b"); (EVar "c")]).
Definition h_MathClamp_i32 : list func := [].
Definition t_MathAbs_u32 : expr := (ECall "abs" [(EVar "a")]).
Definition h_MathAbs_u32 : list func := [].
Definition t_MathMin_u32 : expr := (ECall "min" [(EVar "a"); (EVar "b")]).
Definition h_MathMin_u32 : list func := [].
Definition t_MathMax_u32 : expr := (ECall "max" [(EVar "a"); (EVar "b")]).
Definition h_MathMax_u32 : list func := [].
Definition t_MathClamp_u32 : expr := (ECall "clamp" [(EVar "a"); (EVar "b"); (EVar "c")]).
Definition h_MathClamp_u32 : list func := [].
Definition t_MathAbs_f32 : expr := (ECall "abs" [(EVar "a")]).
Definition h_MathAbs_f32 : list func := [].
Definition t_MathMin_f32 : expr := (ECall "min" [(EVar "a"); (EVar "b")]).
Definition h_MathMin_f32 : list func := [].
Definition t_MathMax_f32 : expr := (ECall "max" [(EVar "a"); (EVar "b")]).
Definition h_MathMax_f32 : list func := [].
Definition t_MathClamp_f32 : expr := (ECall "clamp" [(EVar "a"); (EVar "b"); (EVar "c")]).
Definition h_MathClamp_f32 : list func := [].
Definition t_MathSign_i32 : expr := (ECall "sign" [(EVar "a")]).
Definition h_MathSign_i32 : list func := [].
Definition t_MathSign_f32 : expr := (ECall "sign" [(EVar "a")]).
Definition h_MathSign_f32 : list func := [].
Definition t_MathCountOneBits_i32 : expr := (ECall "asint" [(ECall "countbits" [(ECall "asuint" [(EVar "a")])])]).
Definition h_MathCountOneBits_i32 : list func := [].
Definition t_MathReverseBits_i32 : expr := (ECall "asint" [(ECall "reversebits" [(ECall "asuint" [(EVar "a")])])]).
Definition h_MathReverseBits_i32 : list func := [].
Definition t_MathFirstLeadingBit_i32 : expr := (ECall "asint" [(ECall "firstbithigh" [(EVar "a")])]).
Definition h_MathFirstLeadingBit_i32 : list func := [].
Definition t_MathFirstTrailingBit_i32 : expr := (ECall "asint" [(ECall "firstbitlow" [(EVar "a")])]).
Definition h_MathFirstTrailingBit_i32 : list func := [].
Definition t_MathCountLeadingZeros_i32 : expr := (ECall "firstbithigh" [(EVar "a")]).
Definition h_MathCountLeadingZeros_i32 : list func := [].
Definition t_MathCountTrailingZeros_i32 : expr := (ECall "firstbitlow" [(EVar "a")]).
Definition h_MathCountTrailingZeros_i32 : list func := [].
Definition t_MathExtractBits_i32 : expr := (ECall "naga_extractBits" [(EVar "a"); (EVar "b"); (EVar "c")]).
Definition h_MathExtractBits_i32 : list func := [(mkfunc "naga_extractBits" (TScal KInt) [(mkparam false (TScal KInt) "e" None); (mkparam false (TScal KUint) "offset" None); (mkparam false (TScal KUint) "count" None)] [(SDecl (TScal KUint) "w" (Some (ELitI 32))); (SDecl (TScal KUint) "o" (Some (ECall "min" [(EVar "offset"); (EVar "w")]))); (SDecl (TScal KUint) "c" (Some (ECall "min" [(EVar "count"); (EBin BSub (EVar "w") (EVar "o"))]))); (SReturn (Some (ECond (EBin BEq (EVar "c") (ELitI 0)) (ELitI 0) (EBin BShr (EBin BShl (EVar "e") (EBin BSub (EBin BSub (EVar "w") (EVar "c")) (EVar "o"))) (EBin BSub (EVar "w") (EVar "c"))))))] None)].
Definition t_MathInsertBits_i32 : expr := (ECall "naga_insertBits" [(EVar "a"); (EVar "b"); (EVar "c"); (EVar "d")]).
Definition h_MathInsertBits_i32 : list func := [(mkfunc "naga_insertBits" (TScal KInt) [(mkparam false (TScal KInt) "e" None); (mkparam false (TScal KInt) "newbits" None); (mkparam false (TScal KUint) "offset" None); (mkparam false (TScal KUint) "count" None)] [(SDecl (TScal KUint) "w" (Some (ELitU 32))); (SDecl (TScal KUint) "o" (Some (ECall "min" [(EVar "offset"); (EVar "w")]))); (SDecl (TScal KUint) "c" (Some (ECall "min" [(EVar "count"); (EBin BSub (EVar "w") (EVar "o"))]))); (SDecl (TScal KUint) "mask" (Some (EBin BShl (EBin BShr (ELitU 4294967295) (EBin BSub (ELitU 32) (EVar "c"))) (EVar "o")))); (SReturn (Some (ECond (EBin BEq (EVar "c") (ELitI 0)) (EVar "e") (EBin BOr (EBin BAnd (EVar "e") (EUn UBitNot (EVar "mask"))) (EBin BAnd (EBin BShl (EVar "newbits") (EVar "o")) (EVar "mask"))))))] None)].
Definition t_MathCountOneBits_u32 : expr := (ECall "countbits" [(EVar "a")]).
Definition h_MathCountOneBits_u32 : list func := [].
Definition t_MathReverseBits_u32 : expr := (ECall "reversebits" [(EVar "a")]).
Definition h_MathReverseBits_u32 : list func := [].
Definition t_MathFirstLeadingBit_u32 : expr := (ECall "firstbithigh" [(EVar "a")]).
Definition h_MathFirstLeadingBit_u32 : list func := [].
Definition t_MathFirstTrailingBit_u32 : expr := (ECall "firstbitlow" [(EVar "a")]).
Definition h_MathFirstTrailingBit_u32 : list func := [].
Definition t_MathCountLeadingZeros_u32 : expr := (ECall "firstbithigh" [(EVar "a")]).
Definition h_MathCountLeadingZeros_u32 : list func := [].
Definition t_MathCountTrailingZeros_u32 : expr := (ECall "firstbitlow" [(EVar "a")]).
Definition h_MathCountTrailingZeros_u32 : list func := [].
Definition t_MathExtractBits_u32 : expr := (ECall "naga_extractBits" [(EVar "a"); (EVar "b"); (EVar "c")]).
Definition h_MathExtractBits_u32 : list func := [(mkfunc "naga_extractBits" (TScal KUint) [(mkparam false (TScal KUint) "e" None); (mkparam false (TScal KUint) "offset" None); (mkparam false (TScal KUint) "count" None)] [(SDecl (TScal KUint) "w" (Some (ELitI 32))); (SDecl (TScal KUint) "o" (Some (ECall "min" [(EVar "offset"); (EVar "w")]))); (SDecl (TScal KUint) "c" (Some (ECall "min" [(EVar "count"); (EBin BSub (EVar "w") (EVar "o"))]))); (SReturn (Some (ECond (EBin BEq (EVar "c") (ELitI 0)) (ELitI 0) (EBin BShr (EBin BShl (EVar "e") (EBin BSub (EBin BSub (EVar "w") (EVar "c")) (EVar "o"))) (EBin BSub (EVar "w") (EVar "c"))))))] None)].
Definition t_MathInsertBits_u32 : expr := (ECall "naga_insertBits" [(EVar "a"); (EVar "b"); (EVar "c"); (EVar "d")]).
Definition h_MathInsertBits_u32 : list func := [(mkfunc "naga_insertBits" (TScal KUint) [(mkparam false (TScal KUint) "e" None); (mkparam false (TScal KUint) "newbits" None); (mkparam false (TScal KUint) "offset" None); (mkparam false (TScal KUint) "count" None)] [(SDecl (TScal KUint) "w" (Some (ELitU 32))); (SDecl (TScal KUint) "o" (Some (ECall "min" [(EVar "offset"); (EVar "w")]))); (SDecl (TScal KUint) "c" (Some (ECall "min" [(EVar "count"); (EBin BSub (EVar "w") (EVar "o"))]))); (SDecl (TScal KUint) "mask" (Some (EBin BShl (EBin BShr (ELitU 4294967295) (EBin BSub (ELitU 32) (EVar "c"))) (EVar "o")))); (SReturn (Some (ECond (EBin BEq (EVar "c") (ELitI 0)) (EVar "e") (EBin BOr (EBin BAnd (EVar "e") (EUn UBitNot (EVar "mask"))) (EBin BAnd (EBin BShl (EVar "newbits") (EVar "o")) (EVar "mask"))))))] None)].
Definition t_MathFloor_f32 : expr := (ECall "floor" [(EVar "a")]).
Definition h_MathFloor_f32 : list func := [].
Definition t_MathCeil_f32 : expr := (ECall "ceil" [(EVar "a")]).
Definition h_MathCeil_f32 : list func := [].
Definition t_MathTrunc_f32 : expr := (ECall "trunc" [(EVar "a")]).
Definition h_MathTrunc_f32 : list func := [].
Definition t_MathRound_f32 : expr := (ECall "round" [(EVar "a")]).
Definition h_MathRound_f32 : list func := [].
Definition t_MathSqrt_f32 : expr := (ECall "sqrt" [(EVar "a")]).
Definition h_MathSqrt_f32 : list func := [].
Definition t_MathSaturate_f32 : expr := (ECall "saturate" [(EVar "a")]).
Definition h_MathSaturate_f32 : list func := [].
Definition t_MathFract_f32 : expr := (ECall "frac" [(EVar "a")]).
Definition h_MathFract_f32 : list func := [].
Definition t_MathInverseSqrt_f32 : expr := (ECall "rsqrt" [(EVar "a")]).
Definition h_MathInverseSqrt_f32 : list func := [].
Definition t_MathExp_f32 : expr := (ECall "exp" [(EVar "a")]).
Definition h_MathExp_f32 : list func := [].
Definition t_MathExp2_f32 : expr := (ECall "exp2" [(EVar "a")]).
Definition h_MathExp2_f32 : list func := [].
Definition t_MathLog_f32 : expr := (ECall "log" [(EVar "a")]).
Definition h_MathLog_f32 : list func := [].
Definition t_MathLog2_f32 : expr := (ECall "log2" [(EVar "a")]).
Definition h_MathLog2_f32 : list func := [].
Definition t_MathSin_f32 : expr := (ECall "sin" [(EVar "a")]).
Definition h_MathSin_f32 : list func := [].
Definition t_MathCos_f32 : expr := (ECall "cos" [(EVar "a")]).
Definition h_MathCos_f32 : list func := [].
Definition t_MathTan_f32 : expr := (ECall "tan" [(EVar "a")]).
Definition h_MathTan_f32 : list func := [].
Definition t_MathAsin_f32 : expr := (ECall "asin" [(EVar "a")]).
Definition h_MathAsin_f32 : list func := [].
Definition t_MathAcos_f32 : expr := (ECall "acos" [(EVar "a")]).
Definition h_MathAcos_f32 : list func := [].
Definition t_MathAtan_f32 : expr := (ECall "atan" [(EVar "a")]).
Definition h_MathAtan_f32 : list func := [].
Definition t_MathSinh_f32 : expr := (ECall "sinh" [(EVar "a")]).
Definition h_MathSinh_f32 : list func := [].
Definition t_MathCosh_f32 : expr := (ECall "cosh" [(EVar "a")]).
Definition h_MathCosh_f32 : list func := [].
Definition t_MathTanh_f32 : expr := (ECall "tanh" [(EVar "a")]).
Definition h_MathTanh_f32 : list func := [].
Definition t_MathRadians_f32 : expr := (ECall "radians" [(EVar "a")]).
Definition h_MathRadians_f32 : list func := [].
Definition t_MathDegrees_f32 : expr := (ECall "degrees" [(EVar "a")]).
Definition h_MathDegrees_f32 : list func := [].
Definition t_MathPow_f32 : expr := (ECall "pow" [(EVar "a"); (EVar "b")]).
Definition h_MathPow_f32 : list func := [].
Definition t_MathStep_f32 : expr := (ECall "step" [(EVar "a"); (EVar "b")]).
Definition h_MathStep_f32 : list func := [].
Definition t_MathAtan2_f32 : expr := (ECall "atan2" [(EVar "a"); (EVar "b")]).
Definition h_MathAtan2_f32 : list func := [].
Definition t_MathFma_f32 : expr := (ECall "mad" [(EVar "a"); (EVar "b"); (EVar "c")]).
Definition h_MathFma_f32 : list func := [].
Definition t_MathMix_f32 : expr := (ECall "lerp" [(EVar "a"); (EVar "b"); (EVar "c")]).
Definition h_MathMix_f32 : list func := [].
Definition t_MathSmoothStep_f32 : expr := (ECall "smoothstep" [(EVar "a"); (EVar "b"); (EVar "c")]).
Definition h_MathSmoothStep_f32 : list func := [].
Definition t_As_u32_i32 : expr := (ECtor (TScal KUint) [(EVar "a")]).
Definition h_As_u32_i32 : list func := [].
Definition t_As_f32_i32 : expr := (ECtor (TScal KFloat) [(EVar "a")]).
Definition h_As_f32_i32 : list func := [].
Definition t_As_bool_i32 : expr := (ECtor (TScal KBool) [(EVar "a")]).
Definition h_As_bool_i32 : list func := [].
Definition t_As_i32_u32 : expr := (ECtor (TScal KInt) [(EVar "a")]).
Definition h_As_i32_u32 : list func := [].
Definition t_As_f32_u32 : expr := (ECtor (TScal KFloat) [(EVar "a")]).
Definition h_As_f32_u32 : list func := [].
Definition t_As_bool_u32 : expr := (ECtor (TScal KBool) [(EVar "a")]).
Definition h_As_bool_u32 : list func := [].
Definition t_As_i32_f32 : expr := (ECall "naga_f2i32" [(EVar "a")]).
Definition h_As_i32_f32 : list func := [(mkfunc "naga_f2i32" (TScal KInt) [(mkparam false (TScal KFloat) "value" None)] [(SReturn (Some (ECtor (TScal KInt) [(ECall "clamp" [(EVar "value"); (EUn UNeg (ELitF 1325400064)); (ELitF 1325400063)])])))] None)].
Definition t_As_u32_f32 : expr := (ECall "naga_f2u32" [(EVar "a")]).
Definition h_As_u32_f32 : list func := [(mkfunc "naga_f2u32" (TScal KUint) [(mkparam false (TScal KFloat) "value" None)] [(SReturn (Some (ECtor (TScal KUint) [(ECall "clamp" [(EVar "value"); (ELitF 0); (ELitF 1333788671)])])))] None)].
Definition t_As_bool_f32 : expr := (ECtor (TScal KBool) [(EVar "a")]).
Definition h_As_bool_f32 : list func := [].
Definition t_As_i32_bool : expr := (ECtor (TScal KInt) [(EVar "a")]).
Definition h_As_i32_bool : list func := [].
Definition t_As_u32_bool : expr := (ECtor (TScal KUint) [(EVar "a")]).
Definition h_As_u32_bool : list func := [].
Definition t_As_f32_bool : expr := (ECtor (TScal KFloat) [(EVar "a")]).
Definition h_As_f32_bool : list func := [].
Definition t_Bitcast_u32_i32 : expr := (ECall "asuint" [(EVar "a")]).
Definition h_Bitcast_u32_i32 : list func := [].
Definition t_Bitcast_f32_i32 : expr := (ECall "asfloat" [(EVar "a")]).
Definition h_Bitcast_f32_i32 : list func := [].
Definition t_Bitcast_i32_u32 : expr := (ECall "asint" [(EVar "a")]).
Definition h_Bitcast_i32_u32 : list func := [].
Definition t_Bitcast_f32_u32 : expr := (ECall "asfloat" [(EVar "a")]).
Definition h_Bitcast_f32_u32 : list func := [].
Definition t_Bitcast_i32_f32 : expr := (ECall "asint" [(EVar "a")]).
Definition h_Bitcast_i32_f32 : list func := [].
Definition t_Bitcast_u32_f32 : expr := (ECall "asuint" [(EVar "a")]).
Definition h_Bitcast_u32_f32 : list func := [].
Definition t_SelectScalarCond_i32 : expr := (ECond (EVar "c") (EVar "b") (EVar "a")).
Definition h_SelectScalarCond_i32 : list func := [].
Definition t_SelectScalarCond_u32 : expr := (ECond (EVar "c") (EVar "b") (EVar "a")).
Definition h_SelectScalarCond_u32 : list func := [].
Definition t_SelectScalarCond_f32 : expr := (ECond (EVar "c") (EVar "b") (EVar "a")).
Definition h_SelectScalarCond_f32 : list func := [].
Definition t_SelectScalarCond_bool : expr := (ECond (EVar "c") (EVar "b") (EVar "a")).
Definition h_SelectScalarCond_bool : list func := [].
Definition t_MathDot_i32 : expr := (ECall "dot" [(EVar "a"); (EVar "b")]).
Definition h_MathDot_i32 : list func := [].
Definition t_MathDot_u32 : expr := (ECall "dot" [(EVar "a"); (EVar "b")]).
Definition h_MathDot_u32 : list func := [].
Definition t_MathDot_f32 : expr := (ECall "dot" [(EVar "a"); (EVar "b")]).
Definition h_MathDot_f32 : list func := [].
Definition t_RelationalAll_bool : expr := (ECall "all" [(EVar "a")]).
Definition h_RelationalAll_bool : list func := [].
Definition t_RelationalAny_bool : expr := (ECall "any" [(EVar "a")]).
Definition h_RelationalAny_bool : list func := [].
Definition t_MathLength_f32 : expr := (ECall "length" [(EVar "a")]).
Definition h_MathLength_f32 : list func := [].
Definition t_MathDistance_f32 : expr := (ECall "distance" [(EVar "a"); (EVar "b")]).
Definition h_MathDistance_f32 : list func := [].
Definition t_MathNormalize_f32 : expr := (ECall "normalize" [(EVar "a")]).
Definition h_MathNormalize_f32 : list func := [].
Definition t_AddVecScalar_i32 : expr := (ECall "asint" [(EBin BAdd (ECall "asuint" [(EVar "a")]) (ECall "asuint" [(EVar "b")]))]).
Definition h_AddVecScalar_i32 : list func := [].
Definition t_AddScalarVec_i32 : expr := (ECall "asint" [(EBin BAdd (ECall "asuint" [(EVar "a")]) (ECall "asuint" [(EVar "b")]))]).
Definition h_AddScalarVec_i32 : list func := [].
Definition t_MultiplyVecScalar_i32 : expr := (ECall "asint" [(EBin BMul (ECall "asuint" [(EVar "a")]) (ECall "asuint" [(EVar "b")]))]).
Definition h_MultiplyVecScalar_i32 : list func := [].
Definition t_MultiplyScalarVec_i32 : expr := (ECall "asint" [(EBin BMul (ECall "asuint" [(EVar "a")]) (ECall "asuint" [(EVar "b")]))]).
Definition h_MultiplyScalarVec_i32 : list func := [].
Definition t_DivideVecScalar_i32 : expr := (ECall "naga_div" [(EVar "a"); (EVar "b")]).
Definition h_DivideVecScalar_i32 : list func := [(mkfunc "naga_div" (TScal KInt) [(mkparam false (TScal KInt) "lhs" None); (mkparam false (TScal KInt) "rhs" None)] [(SReturn (Some (EBin BDiv (EVar "lhs") (ECond (EBin BOr (EBin BAnd (EBin BEq (EVar "lhs") (ECtor (TScal KInt) [(EBin BSub (EUn UNeg (ELitI 2147483647)) (ELitI 1))])) (EBin BEq (EVar "rhs") (EUn UNeg (ELitI 1)))) (EBin BEq (EVar "rhs") (ELitI 0))) (ELitI 1) (EVar "rhs")))))] None)].
Definition t_DivideScalarVec_i32 : expr := (ECall "naga_div" [(EVar "a"); (EVar "b")]).
Definition h_DivideScalarVec_i32 : list func := [(mkfunc "naga_div" (TScal KInt) [(mkparam false (TScal KInt) "lhs" None); (mkparam false (TScal KInt) "rhs" None)] [(SReturn (Some (EBin BDiv (EVar "lhs") (ECond (EBin BOr (EBin BAnd (EBin BEq (EVar "lhs") (ECtor (TScal KInt) [(EBin BSub (EUn UNeg (ELitI 2147483647)) (ELitI 1))])) (EBin BEq (EVar "rhs") (EUn UNeg (ELitI 1)))) (EBin BEq (EVar "rhs") (ELitI 0))) (ELitI 1) (EVar "rhs")))))] None)].
Definition t_AddVecScalar_u32 : expr := (EBin BAdd (EVar "a") (EVar "b")).
Definition h_AddVecScalar_u32 : list func := [].
Definition t_AddScalarVec_u32 : expr := (EBin BAdd (EVar "a") (EVar "b")).
Definition h_AddScalarVec_u32 : list func := [].
Definition t_MultiplyVecScalar_u32 : expr := (EBin BMul (EVar "a") (EVar "b")).
Definition h_MultiplyVecScalar_u32 : list func := [].
Definition t_MultiplyScalarVec_u32 : expr := (EBin BMul (EVar "a") (EVar "b")).
Definition h_MultiplyScalarVec_u32 : list func := [].
Definition t_DivideVecScalar_u32 : expr := (ECall "naga_div" [(EVar "a"); (EVar "b")]).
Definition h_DivideVecScalar_u32 : list func := [(mkfunc "naga_div" (TScal KUint) [(mkparam false (TScal KUint) "lhs" None); (mkparam false (TScal KUint) "rhs" None)] [(SReturn (Some (EBin BDiv (EVar "lhs") (ECond (EBin BEq (EVar "rhs") (ELitU 0)) (ELitU 1) (EVar "rhs")))))] None)].
Definition t_DivideScalarVec_u32 : expr := (ECall "naga_div" [(EVar "a"); (EVar "b")]).
Definition h_DivideScalarVec_u32 : list func := [(mkfunc "naga_div" (TScal KUint) [(mkparam false (TScal KUint) "lhs" None); (mkparam false (TScal KUint) "rhs" None)] [(SReturn (Some (EBin BDiv (EVar "lhs") (ECond (EBin BEq (EVar "rhs") (ELitU 0)) (ELitU 1) (EVar "rhs")))))] None)].
Definition t_AddVecScalar_f32 : expr := (EBin BAdd (EVar "a") (EVar "b")).
Definition h_AddVecScalar_f32 : list func := [].
Definition t_AddScalarVec_f32 : expr := (EBin BAdd (EVar "a") (EVar "b")).
Definition h_AddScalarVec_f32 : list func := [].
Definition t_MultiplyVecScalar_f32 : expr := (EBin BMul (EVar "a") (EVar "b")).
Definition h_MultiplyVecScalar_f32 : list func := [].
Definition t_MultiplyScalarVec_f32 : expr := (EBin BMul (EVar "a") (EVar "b")).
Definition h_MultiplyScalarVec_f32 : list func := [].
Definition t_DivideVecScalar_f32 : expr := (EBin BDiv (EVar "a") (EVar "b")).
Definition h_DivideVecScalar_f32 : list func := [].
Definition t_DivideScalarVec_f32 : expr := (EBin BDiv (EVar "a") (EVar "b")).
Definition h_DivideScalarVec_f32 : list func := [].
Definition t_MathCross_f32 : expr := (ECall "cross" [(EVar "a"); (EVar "b")]).
Definition h_MathCross_f32 : list func := [].
Definition t_MulMatVec_f32 : expr := (ECall "mul" [(EVar "b"); (EVar "a")]).
Definition h_MulMatVec_f32 : list func := [].
Definition t_MulVecMat_f32 : expr := (ECall "mul" [(EVar "a"); (EVar "b")]).
Definition h_MulVecMat_f32 : list func := [].
Definition t_MulMatScalar_f32 : expr := (ECall "mul" [(EVar "b"); (EVar "a")]).
Definition h_MulMatScalar_f32 : list func := [].
Definition t_MulScalarMat_f32 : expr := (ECall "mul" [(EVar "a"); (EVar "b")]).
Definition h_MulScalarMat_f32 : list func := [].
Definition t_AddMat_f32 : expr := (EBin BAdd (EVar "a") (EVar "b")).
Definition h_AddMat_f32 : list func := [].
Definition t_SubMat_f32 : expr := (EBin BSub (EVar "a") (EVar "b")).
Definition h_SubMat_f32 : list func := [].
Definition t_MulMatMat_f32 : expr := (ECall "mul" [(EVar "b"); (EVar "a")]).
Definition h_MulMatMat_f32 : list func := [].

Definition catalogue : list cat_entry := [
  mkentry "Add" "i32" [KInt; KInt] t_Add_i32 h_Add_i32 (fun _ => true) (Some (fun zs => VI32 (add32 (nthz zs 0) (nthz zs 1)))) Proved;
  mkentry "Subtract" "i32" [KInt; KInt] t_Subtract_i32 h_Subtract_i32 (fun _ => true) (Some (fun zs => VI32 (sub32 (nthz zs 0) (nthz zs 1)))) Proved;
  mkentry "Multiply" "i32" [KInt; KInt] t_Multiply_i32 h_Multiply_i32 (fun _ => true) (Some (fun zs => VI32 (mul32 (nthz zs 0) (nthz zs 1)))) Proved;
  mkentry "Divide" "i32" [KInt; KInt] t_Divide_i32 h_Divide_i32 (fun _ => true) (Some (fun zs => VI32 (div_i32 (nthz zs 0) (nthz zs 1)))) Proved;
  mkentry "Modulo" "i32" [KInt; KInt] t_Modulo_i32 h_Modulo_i32 (fun _ => true) (Some (fun zs => VI32 (rem_i32 (nthz zs 0) (nthz zs 1)))) Proved;
  mkentry "Equal" "i32" [KInt; KInt] t_Equal_i32 h_Equal_i32 (fun _ => true) (Some (fun zs => VBool ((nthz zs 0) =? (nthz zs 1)))) Proved;
  mkentry "NotEqual" "i32" [KInt; KInt] t_NotEqual_i32 h_NotEqual_i32 (fun _ => true) (Some (fun zs => VBool (negb ((nthz zs 0) =? (nthz zs 1))))) Proved;
  mkentry "Less" "i32" [KInt; KInt] t_Less_i32 h_Less_i32 (fun _ => true) (Some (fun zs => VBool (lt_i32 (nthz zs 0) (nthz zs 1)))) Proved;
  mkentry "LessEqual" "i32" [KInt; KInt] t_LessEqual_i32 h_LessEqual_i32 (fun _ => true) (Some (fun zs => VBool (le_i32 (nthz zs 0) (nthz zs 1)))) Proved;
  mkentry "Greater" "i32" [KInt; KInt] t_Greater_i32 h_Greater_i32 (fun _ => true) (Some (fun zs => VBool (lt_i32 (nthz zs 1) (nthz zs 0)))) Proved;
  mkentry "GreaterEqual" "i32" [KInt; KInt] t_GreaterEqual_i32 h_GreaterEqual_i32 (fun _ => true) (Some (fun zs => VBool (le_i32 (nthz zs 1) (nthz zs 0)))) Proved;
  mkentry "Add" "u32" [KUint; KUint] t_Add_u32 h_Add_u32 (fun _ => true) (Some (fun zs => VU32 (add32 (nthz zs 0) (nthz zs 1)))) Proved;
  mkentry "Subtract" "u32" [KUint; KUint] t_Subtract_u32 h_Subtract_u32 (fun _ => true) (Some (fun zs => VU32 (sub32 (nthz zs 0) (nthz zs 1)))) Proved;
  mkentry "Multiply" "u32" [KUint; KUint] t_Multiply_u32 h_Multiply_u32 (fun _ => true) (Some (fun zs => VU32 (mul32 (nthz zs 0) (nthz zs 1)))) Proved;
  mkentry "Divide" "u32" [KUint; KUint] t_Divide_u32 h_Divide_u32 (fun _ => true) (Some (fun zs => VU32 (div_u32 (nthz zs 0) (nthz zs 1)))) Proved;
  mkentry "Modulo" "u32" [KUint; KUint] t_Modulo_u32 h_Modulo_u32 (fun _ => true) (Some (fun zs => VU32 (rem_u32 (nthz zs 0) (nthz zs 1)))) Proved;
  mkentry "Equal" "u32" [KUint; KUint] t_Equal_u32 h_Equal_u32 (fun _ => true) (Some (fun zs => VBool ((nthz zs 0) =? (nthz zs 1)))) Proved;
  mkentry "NotEqual" "u32" [KUint; KUint] t_NotEqual_u32 h_NotEqual_u32 (fun _ => true) (Some (fun zs => VBool (negb ((nthz zs 0) =? (nthz zs 1))))) Proved;
  mkentry "Less" "u32" [KUint; KUint] t_Less_u32 h_Less_u32 (fun _ => true) (Some (fun zs => VBool (lt_u32 (nthz zs 0) (nthz zs 1)))) Proved;
  mkentry "LessEqual" "u32" [KUint; KUint] t_LessEqual_u32 h_LessEqual_u32 (fun _ => true) (Some (fun zs => VBool (le_u32 (nthz zs 0) (nthz zs 1)))) Proved;
  mkentry "Greater" "u32" [KUint; KUint] t_Greater_u32 h_Greater_u32 (fun _ => true) (Some (fun zs => VBool (lt_u32 (nthz zs 1) (nthz zs 0)))) Proved;
  mkentry "GreaterEqual" "u32" [KUint; KUint] t_GreaterEqual_u32 h_GreaterEqual_u32 (fun _ => true) (Some (fun zs => VBool (le_u32 (nthz zs 1) (nthz zs 0)))) Proved;
  mkentry "Add" "f32" [KFloat; KFloat] t_Add_f32 h_Add_f32 (fun _ => true) (Some (fun zs => VF32 (fadd (nthz zs 0) (nthz zs 1)))) Proved;
  mkentry "Subtract" "f32" [KFloat; KFloat] t_Subtract_f32 h_Subtract_f32 (fun _ => true) (Some (fun zs => VF32 (fsub (nthz zs 0) (nthz zs 1)))) Proved;
  mkentry "Multiply" "f32" [KFloat; KFloat] t_Multiply_f32 h_Multiply_f32 (fun _ => true) (Some (fun zs => VF32 (fmul (nthz zs 0) (nthz zs 1)))) Proved;
  mkentry "Divide" "f32" [KFloat; KFloat] t_Divide_f32 h_Divide_f32 (fun _ => true) (Some (fun zs => VF32 (fdiv (nthz zs 0) (nthz zs 1)))) Proved;
  mkentry "Modulo" "f32" [KFloat; KFloat] t_Modulo_f32 h_Modulo_f32 (fun _ => true) None Unmodelled;
  mkentry "Equal" "f32" [KFloat; KFloat] t_Equal_f32 h_Equal_f32 (fun _ => true) (Some (fun zs => VBool (feq (nthz zs 0) (nthz zs 1)))) Proved;
  mkentry "NotEqual" "f32" [KFloat; KFloat] t_NotEqual_f32 h_NotEqual_f32 (fun _ => true) (Some (fun zs => VBool (fne (nthz zs 0) (nthz zs 1)))) Proved;
  mkentry "Less" "f32" [KFloat; KFloat] t_Less_f32 h_Less_f32 (fun _ => true) (Some (fun zs => VBool (flt (nthz zs 0) (nthz zs 1)))) Proved;
  mkentry "LessEqual" "f32" [KFloat; KFloat] t_LessEqual_f32 h_LessEqual_f32 (fun _ => true) (Some (fun zs => VBool (fle (nthz zs 0) (nthz zs 1)))) Proved;
  mkentry "Greater" "f32" [KFloat; KFloat] t_Greater_f32 h_Greater_f32 (fun _ => true) (Some (fun zs => VBool (fgt (nthz zs 0) (nthz zs 1)))) Proved;
  mkentry "GreaterEqual" "f32" [KFloat; KFloat] t_GreaterEqual_f32 h_GreaterEqual_f32 (fun _ => true) (Some (fun zs => VBool (fge (nthz zs 0) (nthz zs 1)))) Proved;
  mkentry "And" "i32" [KInt; KInt] t_And_i32 h_And_i32 (fun _ => true) (Some (fun zs => VI32 (and32 (nthz zs 0) (nthz zs 1)))) Proved;
  mkentry "InclusiveOr" "i32" [KInt; KInt] t_InclusiveOr_i32 h_InclusiveOr_i32 (fun _ => true) (Some (fun zs => VI32 (or32 (nthz zs 0) (nthz zs 1)))) Proved;
  mkentry "ExclusiveOr" "i32" [KInt; KInt] t_ExclusiveOr_i32 h_ExclusiveOr_i32 (fun _ => true) (Some (fun zs => VI32 (xor32 (nthz zs 0) (nthz zs 1)))) Proved;
  mkentry "ShiftLeft" "i32" [KInt; KUint] t_ShiftLeft_i32 h_ShiftLeft_i32 (fun _ => true) (Some (fun zs => VI32 (shl32 (nthz zs 0) (nthz zs 1)))) Proved;
  mkentry "ShiftRight" "i32" [KInt; KUint] t_ShiftRight_i32 h_ShiftRight_i32 (fun _ => true) (Some (fun zs => VI32 (shr_i32 (nthz zs 0) (nthz zs 1)))) Proved;
  mkentry "BitwiseNot" "i32" [KInt] t_BitwiseNot_i32 h_BitwiseNot_i32 (fun _ => true) (Some (fun zs => VI32 (not32 (nthz zs 0)))) Proved;
  mkentry "And" "u32" [KUint; KUint] t_And_u32 h_And_u32 (fun _ => true) (Some (fun zs => VU32 (and32 (nthz zs 0) (nthz zs 1)))) Proved;
  mkentry "InclusiveOr" "u32" [KUint; KUint] t_InclusiveOr_u32 h_InclusiveOr_u32 (fun _ => true) (Some (fun zs => VU32 (or32 (nthz zs 0) (nthz zs 1)))) Proved;
  mkentry "ExclusiveOr" "u32" [KUint; KUint] t_ExclusiveOr_u32 h_ExclusiveOr_u32 (fun _ => true) (Some (fun zs => VU32 (xor32 (nthz zs 0) (nthz zs 1)))) Proved;
  mkentry "ShiftLeft" "u32" [KUint; KUint] t_ShiftLeft_u32 h_ShiftLeft_u32 (fun _ => true) (Some (fun zs => VU32 (shl32 (nthz zs 0) (nthz zs 1)))) Proved;
  mkentry "ShiftRight" "u32" [KUint; KUint] t_ShiftRight_u32 h_ShiftRight_u32 (fun _ => true) (Some (fun zs => VU32 (shr_u32 (nthz zs 0) (nthz zs 1)))) Proved;
  mkentry "BitwiseNot" "u32" [KUint] t_BitwiseNot_u32 h_BitwiseNot_u32 (fun _ => true) (Some (fun zs => VU32 (not32 (nthz zs 0)))) Proved;
  mkentry "And" "bool" [KBool; KBool] t_And_bool h_And_bool (fun _ => true) (Some (fun zs => VBool (andb (nthb zs 0) (nthb zs 1)))) Proved;
  mkentry "InclusiveOr" "bool" [KBool; KBool] t_InclusiveOr_bool h_InclusiveOr_bool (fun _ => true) (Some (fun zs => VBool (orb (nthb zs 0) (nthb zs 1)))) Proved;
  mkentry "Equal" "bool" [KBool; KBool] t_Equal_bool h_Equal_bool (fun _ => true) (Some (fun zs => VBool (Bool.eqb (nthb zs 0) (nthb zs 1)))) Proved;
  mkentry "NotEqual" "bool" [KBool; KBool] t_NotEqual_bool h_NotEqual_bool (fun _ => true) (Some (fun zs => VBool (negb (Bool.eqb (nthb zs 0) (nthb zs 1))))) Proved;
  mkentry "LogicalNot" "bool" [KBool] t_LogicalNot_bool h_LogicalNot_bool (fun _ => true) (Some (fun zs => VBool (negb (nthb zs 0)))) Proved;
  mkentry "Negate" "i32" [KInt] t_Negate_i32 h_Negate_i32 (fun _ => true) (Some (fun zs => VI32 (neg32 (nthz zs 0)))) Proved;
  mkentry "Negate" "f32" [KFloat] t_Negate_f32 h_Negate_f32 (fun _ => true) (Some (fun zs => VF32 (fneg (nthz zs 0)))) Proved;
  mkentry "Select" "i32" [KInt; KInt; KBool] t_Select_i32 h_Select_i32 (fun _ => true) (Some (fun zs => VI32 (if (nthb zs 2) then (nthz zs 1) else (nthz zs 0)))) Proved;
  mkentry "Select" "u32" [KUint; KUint; KBool] t_Select_u32 h_Select_u32 (fun _ => true) (Some (fun zs => VU32 (if (nthb zs 2) then (nthz zs 1) else (nthz zs 0)))) Proved;
  mkentry "Select" "f32" [KFloat; KFloat; KBool] t_Select_f32 h_Select_f32 (fun _ => true) (Some (fun zs => VF32 (if (nthb zs 2) then (nthz zs 1) else (nthz zs 0)))) Proved;
  mkentry "Select" "bool" [KBool; KBool; KBool] t_Select_bool h_Select_bool (fun _ => true) (Some (fun zs => VBool (if (nthb zs 2) then (nthb zs 1) else (nthb zs 0)))) Proved;
  mkentry "MathAbs" "i32" [KInt] t_MathAbs_i32 h_MathAbs_i32 (fun _ => true) (Some (fun zs => VI32 (abs_i32 (nthz zs 0)))) Proved;
  mkentry "MathMin" "i32" [KInt; KInt] t_MathMin_i32 h_MathMin_i32 (fun _ => true) (Some (fun zs => VI32 (min_i32 (nthz zs 0) (nthz zs 1)))) Proved;
  mkentry "MathMax" "i32" [KInt; KInt] t_MathMax_i32 h_MathMax_i32 (fun _ => true) (Some (fun zs => VI32 (max_i32 (nthz zs 0) (nthz zs 1)))) Proved;
  mkentry "MathClamp" "i32" [KInt; KInt; KInt] t_MathClamp_i32 h_MathClamp_i32 (fun _ => true) (Some (fun zs => VI32 (clamp_i32 (nthz zs 0) (nthz zs 1) (nthz zs 2)))) Proved;
  mkentry "MathAbs" "u32" [KUint] t_MathAbs_u32 h_MathAbs_u32 (fun _ => true) (Some (fun zs => VU32 ((nthz zs 0)))) Proved;
  mkentry "MathMin" "u32" [KUint; KUint] t_MathMin_u32 h_MathMin_u32 (fun _ => true) (Some (fun zs => VU32 (min_u32 (nthz zs 0) (nthz zs 1)))) Proved;
  mkentry "MathMax" "u32" [KUint; KUint] t_MathMax_u32 h_MathMax_u32 (fun _ => true) (Some (fun zs => VU32 (max_u32 (nthz zs 0) (nthz zs 1)))) Proved;
  mkentry "MathClamp" "u32" [KUint; KUint; KUint] t_MathClamp_u32 h_MathClamp_u32 (fun _ => true) (Some (fun zs => VU32 (clamp_u32 (nthz zs 0) (nthz zs 1) (nthz zs 2)))) Proved;
  mkentry "MathAbs" "f32" [KFloat] t_MathAbs_f32 h_MathAbs_f32 (fun _ => true) (Some (fun zs => VF32 (fabs (nthz zs 0)))) Proved;
  mkentry "MathMin" "f32" [KFloat; KFloat] t_MathMin_f32 h_MathMin_f32 (fun _ => true) (Some (fun zs => VF32 (fmin (nthz zs 0) (nthz zs 1)))) Proved;
  mkentry "MathMax" "f32" [KFloat; KFloat] t_MathMax_f32 h_MathMax_f32 (fun _ => true) (Some (fun zs => VF32 (fmax (nthz zs 0) (nthz zs 1)))) Proved;
  mkentry "MathClamp" "f32" [KFloat; KFloat; KFloat] t_MathClamp_f32 h_MathClamp_f32 (fun _ => true) (Some (fun zs => VF32 (fmin (fmax (nthz zs 0) (nthz zs 1)) (nthz zs 2)))) Proved;
  mkentry "MathSign" "i32" [KInt] t_MathSign_i32 h_MathSign_i32 (fun _ => true) (Some (fun zs => VI32 (sign_i32 (nthz zs 0)))) Proved;
  mkentry "MathSign" "f32" [KFloat] t_MathSign_f32 h_MathSign_f32 (fun _ => true) (Some (fun zs => VF32 (if is_nan_bits (nthz zs 0) then (nthz zs 0) else if flt 0 (nthz zs 0) then 1065353216 else if flt (nthz zs 0) 0 then 3212836864 else (nthz zs 0)))) Refuted;
  mkentry "MathCountOneBits" "i32" [KInt] t_MathCountOneBits_i32 h_MathCountOneBits_i32 (fun _ => true) (Some (fun zs => VI32 (count_one_bits (nthz zs 0)))) Proved;
  mkentry "MathReverseBits" "i32" [KInt] t_MathReverseBits_i32 h_MathReverseBits_i32 (fun _ => true) (Some (fun zs => VI32 (reverse_bits (nthz zs 0)))) Proved;
  mkentry "MathFirstLeadingBit" "i32" [KInt] t_MathFirstLeadingBit_i32 h_MathFirstLeadingBit_i32 (fun _ => true) (Some (fun zs => VI32 (first_leading_bit_i32 (nthz zs 0)))) Proved;
  mkentry "MathFirstTrailingBit" "i32" [KInt] t_MathFirstTrailingBit_i32 h_MathFirstTrailingBit_i32 (fun _ => true) (Some (fun zs => VI32 (first_trailing_bit (nthz zs 0)))) Proved;
  mkentry "MathCountLeadingZeros" "i32" [KInt] t_MathCountLeadingZeros_i32 h_MathCountLeadingZeros_i32 (fun _ => true) (Some (fun zs => VI32 (count_leading_zeros (nthz zs 0)))) Refuted;
  mkentry "MathCountTrailingZeros" "i32" [KInt] t_MathCountTrailingZeros_i32 h_MathCountTrailingZeros_i32 (fun _ => true) (Some (fun zs => VI32 (count_trailing_zeros (nthz zs 0)))) Refuted;
  mkentry "MathExtractBits" "i32" [KInt; KUint; KUint] t_MathExtractBits_i32 h_MathExtractBits_i32 (fun _ => true) (Some (fun zs => VI32 (extract_bits_i32 (nthz zs 0) (nthz zs 1) (nthz zs 2)))) Proved;
  mkentry "MathInsertBits" "i32" [KInt; KInt; KUint; KUint] t_MathInsertBits_i32 h_MathInsertBits_i32 (fun _ => true) (Some (fun zs => VI32 (insert_bits (nthz zs 0) (nthz zs 1) (nthz zs 2) (nthz zs 3)))) Proved;
  mkentry "MathCountOneBits" "u32" [KUint] t_MathCountOneBits_u32 h_MathCountOneBits_u32 (fun _ => true) (Some (fun zs => VU32 (count_one_bits (nthz zs 0)))) Proved;
  mkentry "MathReverseBits" "u32" [KUint] t_MathReverseBits_u32 h_MathReverseBits_u32 (fun _ => true) (Some (fun zs => VU32 (reverse_bits (nthz zs 0)))) Proved;
  mkentry "MathFirstLeadingBit" "u32" [KUint] t_MathFirstLeadingBit_u32 h_MathFirstLeadingBit_u32 (fun _ => true) (Some (fun zs => VU32 (first_leading_bit_u32 (nthz zs 0)))) Proved;
  mkentry "MathFirstTrailingBit" "u32" [KUint] t_MathFirstTrailingBit_u32 h_MathFirstTrailingBit_u32 (fun _ => true) (Some (fun zs => VU32 (first_trailing_bit (nthz zs 0)))) Proved;
  mkentry "MathCountLeadingZeros" "u32" [KUint] t_MathCountLeadingZeros_u32 h_MathCountLeadingZeros_u32 (fun _ => true) (Some (fun zs => VU32 (count_leading_zeros (nthz zs 0)))) Refuted;
  mkentry "MathCountTrailingZeros" "u32" [KUint] t_MathCountTrailingZeros_u32 h_MathCountTrailingZeros_u32 (fun _ => true) (Some (fun zs => VU32 (count_trailing_zeros (nthz zs 0)))) Refuted;
  mkentry "MathExtractBits" "u32" [KUint; KUint; KUint] t_MathExtractBits_u32 h_MathExtractBits_u32 (fun _ => true) (Some (fun zs => VU32 (extract_bits_u32 (nthz zs 0) (nthz zs 1) (nthz zs 2)))) Proved;
  mkentry "MathInsertBits" "u32" [KUint; KUint; KUint; KUint] t_MathInsertBits_u32 h_MathInsertBits_u32 (fun _ => true) (Some (fun zs => VU32 (insert_bits (nthz zs 0) (nthz zs 1) (nthz zs 2) (nthz zs 3)))) Proved;
  mkentry "MathFloor" "f32" [KFloat] t_MathFloor_f32 h_MathFloor_f32 (fun _ => true) (Some (fun zs => VF32 (ffloor (nthz zs 0)))) Proved;
  mkentry "MathCeil" "f32" [KFloat] t_MathCeil_f32 h_MathCeil_f32 (fun _ => true) (Some (fun zs => VF32 (fceil (nthz zs 0)))) Proved;
  mkentry "MathTrunc" "f32" [KFloat] t_MathTrunc_f32 h_MathTrunc_f32 (fun _ => true) (Some (fun zs => VF32 (ftrunc (nthz zs 0)))) Proved;
  mkentry "MathRound" "f32" [KFloat] t_MathRound_f32 h_MathRound_f32 (fun _ => true) (Some (fun zs => VF32 (fround (nthz zs 0)))) Proved;
  mkentry "MathSqrt" "f32" [KFloat] t_MathSqrt_f32 h_MathSqrt_f32 (fun _ => true) (Some (fun zs => VF32 (fsqrt (nthz zs 0)))) Proved;
  mkentry "MathSaturate" "f32" [KFloat] t_MathSaturate_f32 h_MathSaturate_f32 (fun _ => true) (Some (fun zs => VF32 (fmin (fmax (nthz zs 0) 0) 1065353216))) Proved;
  mkentry "MathFract" "f32" [KFloat] t_MathFract_f32 h_MathFract_f32 (fun _ => true) None Unmodelled;
  mkentry "MathInverseSqrt" "f32" [KFloat] t_MathInverseSqrt_f32 h_MathInverseSqrt_f32 (fun _ => true) None Unmodelled;
  mkentry "MathExp" "f32" [KFloat] t_MathExp_f32 h_MathExp_f32 (fun _ => true) None Unmodelled;
  mkentry "MathExp2" "f32" [KFloat] t_MathExp2_f32 h_MathExp2_f32 (fun _ => true) None Unmodelled;
  mkentry "MathLog" "f32" [KFloat] t_MathLog_f32 h_MathLog_f32 (fun _ => true) None Unmodelled;
  mkentry "MathLog2" "f32" [KFloat] t_MathLog2_f32 h_MathLog2_f32 (fun _ => true) None Unmodelled;
  mkentry "MathSin" "f32" [KFloat] t_MathSin_f32 h_MathSin_f32 (fun _ => true) None Unmodelled;
  mkentry "MathCos" "f32" [KFloat] t_MathCos_f32 h_MathCos_f32 (fun _ => true) None Unmodelled;
  mkentry "MathTan" "f32" [KFloat] t_MathTan_f32 h_MathTan_f32 (fun _ => true) None Unmodelled;
  mkentry "MathAsin" "f32" [KFloat] t_MathAsin_f32 h_MathAsin_f32 (fun _ => true) None Unmodelled;
  mkentry "MathAcos" "f32" [KFloat] t_MathAcos_f32 h_MathAcos_f32 (fun _ => true) None Unmodelled;
  mkentry "MathAtan" "f32" [KFloat] t_MathAtan_f32 h_MathAtan_f32 (fun _ => true) None Unmodelled;
  mkentry "MathSinh" "f32" [KFloat] t_MathSinh_f32 h_MathSinh_f32 (fun _ => true) None Unmodelled;
  mkentry "MathCosh" "f32" [KFloat] t_MathCosh_f32 h_MathCosh_f32 (fun _ => true) None Unmodelled;
  mkentry "MathTanh" "f32" [KFloat] t_MathTanh_f32 h_MathTanh_f32 (fun _ => true) None Unmodelled;
  mkentry "MathRadians" "f32" [KFloat] t_MathRadians_f32 h_MathRadians_f32 (fun _ => true) None Unmodelled;
  mkentry "MathDegrees" "f32" [KFloat] t_MathDegrees_f32 h_MathDegrees_f32 (fun _ => true) None Unmodelled;
  mkentry "MathPow" "f32" [KFloat; KFloat] t_MathPow_f32 h_MathPow_f32 (fun _ => true) None Unmodelled;
  mkentry "MathStep" "f32" [KFloat; KFloat] t_MathStep_f32 h_MathStep_f32 (fun _ => true) None Unmodelled;
  mkentry "MathAtan2" "f32" [KFloat; KFloat] t_MathAtan2_f32 h_MathAtan2_f32 (fun _ => true) None Unmodelled;
  mkentry "MathFma" "f32" [KFloat; KFloat; KFloat] t_MathFma_f32 h_MathFma_f32 (fun _ => true) (Some (fun zs => VF32 (ffma (nthz zs 0) (nthz zs 1) (nthz zs 2)))) Proved;
  mkentry "MathMix" "f32" [KFloat; KFloat; KFloat] t_MathMix_f32 h_MathMix_f32 (fun _ => true) None Unmodelled;
  mkentry "MathSmoothStep" "f32" [KFloat; KFloat; KFloat] t_MathSmoothStep_f32 h_MathSmoothStep_f32 (fun _ => true) None Unmodelled;
  mkentry "As_u32" "i32" [KInt] t_As_u32_i32 h_As_u32_i32 (fun _ => true) (Some (fun zs => VU32 ((nthz zs 0)))) Proved;
  mkentry "As_f32" "i32" [KInt] t_As_f32_i32 h_As_f32_i32 (fun _ => true) (Some (fun zs => VF32 (f32_of_i32 (nthz zs 0)))) Proved;
  mkentry "As_bool" "i32" [KInt] t_As_bool_i32 h_As_bool_i32 (fun _ => true) (Some (fun zs => VBool (bool_of_32 (nthz zs 0)))) Proved;
  mkentry "As_i32" "u32" [KUint] t_As_i32_u32 h_As_i32_u32 (fun _ => true) (Some (fun zs => VI32 ((nthz zs 0)))) Proved;
  mkentry "As_f32" "u32" [KUint] t_As_f32_u32 h_As_f32_u32 (fun _ => true) (Some (fun zs => VF32 (f32_of_u32 (nthz zs 0)))) Proved;
  mkentry "As_bool" "u32" [KUint] t_As_bool_u32 h_As_bool_u32 (fun _ => true) (Some (fun zs => VBool (bool_of_32 (nthz zs 0)))) Proved;
  mkentry "As_i32" "f32" [KFloat] t_As_i32_f32 h_As_i32_f32 (fun zs => f2i32_defined (nthz zs 0)) (Some (fun zs => VI32 (i32_of_f32 (nthz zs 0)))) Proved;
  mkentry "As_u32" "f32" [KFloat] t_As_u32_f32 h_As_u32_f32 (fun zs => f2u32_defined (nthz zs 0)) (Some (fun zs => VU32 (u32_of_f32 (nthz zs 0)))) Proved;
  mkentry "As_bool" "f32" [KFloat] t_As_bool_f32 h_As_bool_f32 (fun _ => true) (Some (fun zs => VBool (negb (feq (nthz zs 0) 0)))) Proved;
  mkentry "As_i32" "bool" [KBool] t_As_i32_bool h_As_i32_bool (fun _ => true) (Some (fun zs => VI32 (u32_of_bool (nthb zs 0)))) Proved;
  mkentry "As_u32" "bool" [KBool] t_As_u32_bool h_As_u32_bool (fun _ => true) (Some (fun zs => VU32 (u32_of_bool (nthb zs 0)))) Proved;
  mkentry "As_f32" "bool" [KBool] t_As_f32_bool h_As_f32_bool (fun _ => true) (Some (fun zs => VF32 (if (nthb zs 0) then 1065353216 else 0))) Proved;
  mkentry "Bitcast_u32" "i32" [KInt] t_Bitcast_u32_i32 h_Bitcast_u32_i32 (fun _ => true) (Some (fun zs => VU32 ((nthz zs 0)))) Proved;
  mkentry "Bitcast_f32" "i32" [KInt] t_Bitcast_f32_i32 h_Bitcast_f32_i32 (fun _ => true) (Some (fun zs => VF32 ((nthz zs 0)))) Proved;
  mkentry "Bitcast_i32" "u32" [KUint] t_Bitcast_i32_u32 h_Bitcast_i32_u32 (fun _ => true) (Some (fun zs => VI32 ((nthz zs 0)))) Proved;
  mkentry "Bitcast_f32" "u32" [KUint] t_Bitcast_f32_u32 h_Bitcast_f32_u32 (fun _ => true) (Some (fun zs => VF32 ((nthz zs 0)))) Proved;
  mkentry "Bitcast_i32" "f32" [KFloat] t_Bitcast_i32_f32 h_Bitcast_i32_f32 (fun _ => true) (Some (fun zs => VI32 ((nthz zs 0)))) Proved;
  mkentry "Bitcast_u32" "f32" [KFloat] t_Bitcast_u32_f32 h_Bitcast_u32_f32 (fun _ => true) (Some (fun zs => VU32 ((nthz zs 0)))) Proved;
  mkentry "SelectScalarCond" "i32" [KInt; KInt; KBool] t_SelectScalarCond_i32 h_SelectScalarCond_i32 (fun _ => true) (Some (fun zs => VI32 (if (nthb zs 2) then (nthz zs 1) else (nthz zs 0)))) Proved;
  mkentry "SelectScalarCond" "u32" [KUint; KUint; KBool] t_SelectScalarCond_u32 h_SelectScalarCond_u32 (fun _ => true) (Some (fun zs => VU32 (if (nthb zs 2) then (nthz zs 1) else (nthz zs 0)))) Proved;
  mkentry "SelectScalarCond" "f32" [KFloat; KFloat; KBool] t_SelectScalarCond_f32 h_SelectScalarCond_f32 (fun _ => true) (Some (fun zs => VF32 (if (nthb zs 2) then (nthz zs 1) else (nthz zs 0)))) Proved;
  mkentry "SelectScalarCond" "bool" [KBool; KBool; KBool] t_SelectScalarCond_bool h_SelectScalarCond_bool (fun _ => true) (Some (fun zs => VBool (if (nthb zs 2) then (nthb zs 1) else (nthb zs 0)))) Proved;
  mkentry "MathDot" "i32" [] t_MathDot_i32 h_MathDot_i32 (fun _ => true) None Shapes;
  mkentry "MathDot" "u32" [] t_MathDot_u32 h_MathDot_u32 (fun _ => true) None Shapes;
  mkentry "MathDot" "f32" [] t_MathDot_f32 h_MathDot_f32 (fun _ => true) None Shapes;
  mkentry "RelationalAll" "bool" [] t_RelationalAll_bool h_RelationalAll_bool (fun _ => true) None Shapes;
  mkentry "RelationalAny" "bool" [] t_RelationalAny_bool h_RelationalAny_bool (fun _ => true) None Shapes;
  mkentry "MathLength" "f32" [] t_MathLength_f32 h_MathLength_f32 (fun _ => true) None Unmodelled;
  mkentry "MathDistance" "f32" [] t_MathDistance_f32 h_MathDistance_f32 (fun _ => true) None Unmodelled;
  mkentry "MathNormalize" "f32" [] t_MathNormalize_f32 h_MathNormalize_f32 (fun _ => true) None Unmodelled;
  mkentry "AddVecScalar" "i32" [KInt; KInt] t_AddVecScalar_i32 h_AddVecScalar_i32 (fun _ => true) (Some (fun zs => VI32 (add32 (nthz zs 0) (nthz zs 1)))) Proved;
  mkentry "AddScalarVec" "i32" [KInt; KInt] t_AddScalarVec_i32 h_AddScalarVec_i32 (fun _ => true) (Some (fun zs => VI32 (add32 (nthz zs 0) (nthz zs 1)))) Proved;
  mkentry "MultiplyVecScalar" "i32" [KInt; KInt] t_MultiplyVecScalar_i32 h_MultiplyVecScalar_i32 (fun _ => true) (Some (fun zs => VI32 (mul32 (nthz zs 0) (nthz zs 1)))) Proved;
  mkentry "MultiplyScalarVec" "i32" [KInt; KInt] t_MultiplyScalarVec_i32 h_MultiplyScalarVec_i32 (fun _ => true) (Some (fun zs => VI32 (mul32 (nthz zs 0) (nthz zs 1)))) Proved;
  mkentry "DivideVecScalar" "i32" [KInt; KInt] t_DivideVecScalar_i32 h_DivideVecScalar_i32 (fun _ => true) (Some (fun zs => VI32 (div_i32 (nthz zs 0) (nthz zs 1)))) Proved;
  mkentry "DivideScalarVec" "i32" [KInt; KInt] t_DivideScalarVec_i32 h_DivideScalarVec_i32 (fun _ => true) (Some (fun zs => VI32 (div_i32 (nthz zs 0) (nthz zs 1)))) Proved;
  mkentry "AddVecScalar" "u32" [KUint; KUint] t_AddVecScalar_u32 h_AddVecScalar_u32 (fun _ => true) (Some (fun zs => VU32 (add32 (nthz zs 0) (nthz zs 1)))) Proved;
  mkentry "AddScalarVec" "u32" [KUint; KUint] t_AddScalarVec_u32 h_AddScalarVec_u32 (fun _ => true) (Some (fun zs => VU32 (add32 (nthz zs 0) (nthz zs 1)))) Proved;
  mkentry "MultiplyVecScalar" "u32" [KUint; KUint] t_MultiplyVecScalar_u32 h_MultiplyVecScalar_u32 (fun _ => true) (Some (fun zs => VU32 (mul32 (nthz zs 0) (nthz zs 1)))) Proved;
  mkentry "MultiplyScalarVec" "u32" [KUint; KUint] t_MultiplyScalarVec_u32 h_MultiplyScalarVec_u32 (fun _ => true) (Some (fun zs => VU32 (mul32 (nthz zs 0) (nthz zs 1)))) Proved;
  mkentry "DivideVecScalar" "u32" [KUint; KUint] t_DivideVecScalar_u32 h_DivideVecScalar_u32 (fun _ => true) (Some (fun zs => VU32 (div_u32 (nthz zs 0) (nthz zs 1)))) Proved;
  mkentry "DivideScalarVec" "u32" [KUint; KUint] t_DivideScalarVec_u32 h_DivideScalarVec_u32 (fun _ => true) (Some (fun zs => VU32 (div_u32 (nthz zs 0) (nthz zs 1)))) Proved;
  mkentry "AddVecScalar" "f32" [KFloat; KFloat] t_AddVecScalar_f32 h_AddVecScalar_f32 (fun _ => true) (Some (fun zs => VF32 (fadd (nthz zs 0) (nthz zs 1)))) Proved;
  mkentry "AddScalarVec" "f32" [KFloat; KFloat] t_AddScalarVec_f32 h_AddScalarVec_f32 (fun _ => true) (Some (fun zs => VF32 (fadd (nthz zs 0) (nthz zs 1)))) Proved;
  mkentry "MultiplyVecScalar" "f32" [KFloat; KFloat] t_MultiplyVecScalar_f32 h_MultiplyVecScalar_f32 (fun _ => true) (Some (fun zs => VF32 (fmul (nthz zs 0) (nthz zs 1)))) Proved;
  mkentry "MultiplyScalarVec" "f32" [KFloat; KFloat] t_MultiplyScalarVec_f32 h_MultiplyScalarVec_f32 (fun _ => true) (Some (fun zs => VF32 (fmul (nthz zs 0) (nthz zs 1)))) Proved;
  mkentry "DivideVecScalar" "f32" [KFloat; KFloat] t_DivideVecScalar_f32 h_DivideVecScalar_f32 (fun _ => true) (Some (fun zs => VF32 (fdiv (nthz zs 0) (nthz zs 1)))) Proved;
  mkentry "DivideScalarVec" "f32" [KFloat; KFloat] t_DivideScalarVec_f32 h_DivideScalarVec_f32 (fun _ => true) (Some (fun zs => VF32 (fdiv (nthz zs 0) (nthz zs 1)))) Proved;
  mkentry "MathCross" "f32" [] t_MathCross_f32 h_MathCross_f32 (fun _ => true) None Unmodelled;
  mkentry "MulMatVec" "f32" [] t_MulMatVec_f32 h_MulMatVec_f32 (fun _ => true) None Shapes;
  mkentry "MulVecMat" "f32" [] t_MulVecMat_f32 h_MulVecMat_f32 (fun _ => true) None Shapes;
  mkentry "MulMatScalar" "f32" [] t_MulMatScalar_f32 h_MulMatScalar_f32 (fun _ => true) None Shapes;
  mkentry "MulScalarMat" "f32" [] t_MulScalarMat_f32 h_MulScalarMat_f32 (fun _ => true) None Shapes;
  mkentry "AddMat" "f32" [] t_AddMat_f32 h_AddMat_f32 (fun _ => true) None Shapes;
  mkentry "SubMat" "f32" [] t_SubMat_f32 h_SubMat_f32 (fun _ => true) None Shapes;
  mkentry "MulMatMat" "f32" [] t_MulMatMat_f32 h_MulMatMat_f32 (fun _ => true) None Shapes
].
